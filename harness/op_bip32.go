//go:build verif

package main

import (
	"bytes"
	"crypto/ecdsa"
	"crypto/hmac"
	"crypto/sha256"
	"crypto/sha512"
	"encoding/binary"
	"errors"
	"fmt"
	"math/big"
	"strconv"
	"strings"

	"github.com/ModChain/base58"
	secp "github.com/ModChain/secp256k1"
	"github.com/ModChain/secp256k1/ecckd"
	"golang.org/x/crypto/ripemd160"
)

type bigInt = big.Int

var bigOne = big.NewInt(1)

func bipErrName(err error) string {
	for n, e := range map[string]error{
		"ErrInvalidKey": ecckd.ErrInvalidKey, "ErrInvalidSeed": ecckd.ErrInvalidSeed,
		"ErrDerivingHardenedFromPublic": ecckd.ErrDerivingHardenedFromPublic, "ErrBadChecksum": ecckd.ErrBadChecksum,
		"ErrInvalidKeyLen": ecckd.ErrInvalidKeyLen, "ErrMaxDepthExceeded": ecckd.ErrMaxDepthExceeded,
		"ErrInvalidPrivateFlag": ecckd.ErrInvalidPrivateFlag, "ErrShaKeyInvalid": ecckd.ErrShaKeyInvalid,
	} {
		if errors.Is(err, e) {
			return n
		}
	}
	return errKind(err)
}

func keyFields(k *ecckd.ExtendedKey) string {
	return fmt.Sprintf("%s %d %s %d %s %s", hx(k.Version[:]), k.Depth, hx(k.Fingerprint[:]), k.ChildNumber, hx(k.KeyData), hx(k.ChainCode))
}

func h512(key, data []byte) []byte {
	m := hmac.New(sha512.New, key)
	m.Write(data)
	return m.Sum(nil)
}

func h160(in []byte) []byte {
	a := sha256.Sum256(in)
	r := ripemd160.New()
	r.Write(a[:])
	return r.Sum(nil)
}

func pubBytesOf(k *ecckd.ExtendedKey) []byte {
	if !k.IsPrivate() {
		return k.KeyData
	}
	p, err := k.ToPublicSecp256k1()
	if err != nil {
		return nil
	}
	return p.SerializeCompressed()
}

// oracle fields for one child step from k with index i
func stepOracles(k *ecckd.ExtendedKey, i uint32) []string {
	seed := make([]byte, 37)
	if i&0x80000000 != 0 {
		copy(seed[1:], k.KeyData)
	} else {
		copy(seed, pubBytesOf(k))
	}
	binary.BigEndian.PutUint32(seed[33:], i)
	pb := pubBytesOf(k)
	return []string{
		"h512=" + hx(k.ChainCode) + ":" + hx(seed) + ":" + hx(h512(k.ChainCode, seed)),
		"h160=" + hx(pb) + ":" + hx(h160(pb)),
	}
}

func parsePath(s string) []uint32 {
	if s == "-" || s == "" {
		return nil
	}
	var out []uint32
	for _, p := range strings.Split(s, ",") {
		v, _ := strconv.ParseUint(p, 10, 32)
		out = append(out, uint32(v))
	}
	return out
}

func init() {
	// bip_derive <seed> <path> <neuterAt> : master from seed, optionally neuter after `neuterAt` steps (-1 never),
	// derive the path with DeriveWithIL; prints tweak, final key fields, its marshalled form, and Public() of it
	opImpl["bip_derive"] = func(a []string) string {
		seed := unhx(a[0])
		path := parsePath(a[1])
		neuterAt, _ := strconv.Atoi(a[2])
		k, err := ecckd.FromBitcoinSeed(seed)
		if err != nil {
			return "err " + bipErrName(err)
		}
		if neuterAt >= 0 && neuterAt <= len(path) {
			pre, err := k.Derive(path[:neuterAt])
			if err != nil {
				return "err " + bipErrName(err)
			}
			k, _ = pre.Public()
			path = path[neuterAt:]
		}
		il, fin, err := k.DeriveWithIL(path)
		if err != nil {
			return "err " + bipErrName(err)
		}
		ils := "-"
		if il != nil {
			ils = hx(be32(il))
		}
		bin, _ := fin.MarshalBinary()
		pub, _ := fin.Public()
		return "ok " + ils + " " + keyFields(fin) + " " + hx(bin) + " | " + keyFields(pub)
	}
	// bip_derive_from <82 bytes> <path> : decode a serialised key (any depth byte), then Derive and DeriveWithIL
	// the path from it; both walks must agree with each other and with the step-by-step fold of ChildWithIL
	opImpl["bip_derive_from"] = func(a []string) string {
		k := &ecckd.ExtendedKey{}
		if err := k.UnmarshalBinary(unhx(a[0])); err != nil {
			return "err " + bipErrName(err)
		}
		path := parsePath(a[1])
		il, fin, err := k.DeriveWithIL(path)
		fin2, err2 := k.Derive(path)
		// the fold
		cur, tw := k, (*big.Int)(nil)
		var err3 error
		for _, i := range path {
			var t *big.Int
			t, cur, err3 = cur.ChildWithIL(i)
			if err3 != nil {
				break
			}
			if tw == nil {
				tw = new(big.Int)
			}
			tw.Add(tw, t).Mod(tw, curveN)
		}
		if (err == nil) != (err2 == nil) || (err == nil) != (err3 == nil) {
			return fmt.Sprintf("WALKS-DISAGREE DeriveWithIL=%v Derive=%v fold=%v", err, err2, err3)
		}
		if err != nil {
			return "err " + bipErrName(err)
		}
		if keyFields(fin) != keyFields(fin2) || keyFields(fin) != keyFields(cur) || (il == nil) != (tw == nil) || (il != nil && il.Cmp(tw) != 0) {
			return "WALKS-DISAGREE " + keyFields(fin) + " / " + keyFields(fin2) + " / " + keyFields(cur)
		}
		ils := "-"
		if il != nil {
			ils = hx(be32(il))
		}
		bin, _ := fin.MarshalBinary()
		pub, _ := fin.Public()
		return "ok " + ils + " " + keyFields(fin) + " " + hx(bin) + " | " + keyFields(pub)
	}
	// bip_frompub <x> <y> <chaincode> : FromPublicKey on a caller-owned ecdsa.PublicKey; the caller's coordinates
	// and chain code keep their values, the key data is the compressed form of (x, y) as given
	opImpl["bip_frompub"] = func(a []string) string {
		x, y := new(big.Int).SetBytes(unhx(a[0])), new(big.Int).SetBytes(unhx(a[1]))
		cc := unhx(a[2])
		x0, y0, cc0 := new(big.Int).Set(x), new(big.Int).Set(y), append([]byte{}, cc...)
		pub := &ecdsa.PublicKey{Curve: secp.S256(), X: x, Y: y}
		k, err := ecckd.FromPublicKey(pub, cc)
		if x.Cmp(x0) != 0 || y.Cmp(y0) != 0 || pub.X != x || pub.Y != y || !bytes.Equal(cc, cc0) {
			return "CALLER-KEY-MODIFIED x=" + bigHex(x) + " y=" + bigHex(y)
		}
		if err != nil {
			return "err"
		}
		return "ok " + hx(k.KeyData)
	}
	// bip_reload <A> <B> : one key object decodes A, is asked for its text and binary forms, then decodes B: every
	// answer about B equals the answer of a fresh object (nothing remembered from A may leak, whatever A and B share)
	opImpl["bip_reload"] = func(a []string) string {
		A, B := unhx(a[0]), unhx(a[1])
		var k, fresh ecckd.ExtendedKey
		if err := fresh.UnmarshalBinary(B); err != nil {
			return "err " + bipErrName(err)
		}
		if err := k.UnmarshalBinary(A); err != nil {
			return "err " + bipErrName(err)
		}
		_ = k.String()
		_, _ = k.MarshalBinary()
		_, _ = k.Public()
		if err := k.UnmarshalBinary(B); err != nil {
			return "err " + bipErrName(err)
		}
		mb, _ := k.MarshalBinary()
		fb, _ := fresh.MarshalBinary()
		if k.String() != fresh.String() || !bytes.Equal(mb, fb) || keyFields(&k) != keyFields(&fresh) {
			return "STALE-AFTER-RELOAD " + k.String() + " vs " + fresh.String()
		}
		kp, _ := k.Public()
		fp, _ := fresh.Public()
		if kp.String() != fp.String() {
			return "STALE-PUBLIC-AFTER-RELOAD"
		}
		return "ok"
	}
	// bip_unmarshal <bytes> : decode, scribble over the input, re-encode: the key must not change
	opImpl["bip_unmarshal"] = func(a []string) string {
		data := unhx(a[0])
		in := append([]byte{}, data...)
		var k ecckd.ExtendedKey
		if err := k.UnmarshalBinary(in); err != nil {
			if !bytes.Equal(in, data) {
				return "err " + bipErrName(err) + " ARG-MUTATED"
			}
			return "err " + bipErrName(err)
		}
		before := keyFields(&k)
		for i := range in {
			in[i] = 0xAA
		}
		if keyFields(&k) != before {
			return "ok " + before + " ALIASES-INPUT"
		}
		// decoding into receivers that are already populated and whose slices other objects share: a derived private
		// key with its neutered twin, a key built around a caller's chain-code slice, a master whose key data and
		// chain code are two halves of one array.  The result is the same key, and nothing else changes.
		for variant := 0; variant < 3; variant++ {
			var recv, other *ecckd.ExtendedKey
			var callerCC []byte
			m, err := ecckd.FromBitcoinSeed(bytesRepeat(byte(0x11*(variant+1)), 32))
			if err != nil {
				continue
			}
			switch variant {
			case 0:
				recv, _ = m.Child(0x80000001)
				if recv != nil {
					other, _ = recv.Public()
				}
			case 1:
				callerCC = bytesRepeat(0x5c, 32)
				pk, _ := m.ToPublicECDSA()
				recv, _ = ecckd.FromPublicKey(pk, callerCC)
			case 2:
				recv = m
			}
			if recv == nil {
				continue
			}
			otherBefore := ""
			if other != nil {
				otherBefore = keyFields(other)
			}
			if err := recv.UnmarshalBinary(append([]byte{}, data...)); err != nil {
				return "ok " + before + " RECEIVER-DEPENDENT-ERROR " + bipErrName(err)
			}
			if keyFields(recv) != before {
				return "ok " + before + " RECEIVER-DEPENDENT variant=" + strconv.Itoa(variant) + " got " + keyFields(recv)
			}
			if other != nil && keyFields(other) != otherBefore {
				return "ok " + before + " WRITES-THROUGH-SHARED-SLICE"
			}
			if callerCC != nil && !bytes.Equal(callerCC, bytesRepeat(0x5c, 32)) {
				return "ok " + before + " WRITES-INTO-CALLER-SLICE"
			}
		}
		bin, _ := k.MarshalBinary()
		return "ok " + before + " " + hx(bin)
	}
	// bip_string <bytes82> : decode then String(); bip_fromstring <text-hex>
	opImpl["bip_fromstring"] = func(a []string) string {
		k, err := ecckd.FromString(string(unhx(a[0])))
		if err != nil {
			n := bipErrName(err)
			if strings.HasPrefix(n, "other:") {
				n = "Base58Error"
			}
			return "err " + n
		}
		return "ok " + keyFields(k) + " " + hx([]byte(k.String()))
	}
	// bip_toecdsa <bytes82> : decode, then hand the key to the ecdsa / secp256k1 types: ToECDSA (private keys only),
	// ToPublicECDSA, ToPublicSecp256k1 — all must describe the key the encoding holds, and leave it unchanged
	opImpl["bip_toecdsa"] = func(a []string) string {
		var k ecckd.ExtendedKey
		if err := k.UnmarshalBinary(unhx(a[0])); err != nil {
			return "err " + bipErrName(err)
		}
		before := keyFields(&k)
		out := ""
		if k.IsPrivate() {
			p := k.ToECDSA()
			out += "priv " + bigHex(p.D) + " " + bigHex(p.X) + " " + bigHex(p.Y) + " | "
		}
		if pe, err := k.ToPublicECDSA(); err != nil {
			out += "pubE-err"
		} else {
			out += "pubE " + bigHex(pe.X) + " " + bigHex(pe.Y)
		}
		if ps, err := k.ToPublicSecp256k1(); err != nil {
			out += " | pubS-err"
		} else {
			out += " | pubS " + bigHex(ps.X()) + " " + bigHex(ps.Y())
		}
		if keyFields(&k) != before {
			return "KEY-MODIFIED " + out
		}
		return "ok " + out
	}
	generators["C12"] = func(h *H) {
		genC12(h)
		// keys handed to the ecdsa / secp256k1 types: private keys with short, small and boundary values, public keys
		// with special abscissas, and ordinary derived keys
		mk := func(priv bool, keyData []byte) string {
			b := make([]byte, 82)
			if priv {
				copy(b, []byte{0x04, 0x88, 0xad, 0xe4})
			} else {
				copy(b, []byte{0x04, 0x88, 0xb2, 0x1e})
			}
			b[4] = byte(h.rng.Intn(4))
			copy(b[13:45], h.randBytes(32))
			copy(b[45+33-len(keyData):78], keyData)
			return hx(fixChecksum(b))
		}
		var privs []*big.Int
		for _, v := range []int64{1, 2, 3, 255, 256, 1 << 20, 1 << 40} {
			privs = append(privs, big.NewInt(v), new(big.Int).Sub(curveN, big.NewInt(v)))
		}
		for i := 0; i < 2+h.budget/8; i++ {
			x := new(big.Int).SetBytes(h.randBytes(32))
			x.Rsh(x, uint(8*h.rng.Intn(30)))
			privs = append(privs, x, new(big.Int).SetBytes(h.randBytes(32)))
		}
		for _, d := range privs {
			if d.Sign() > 0 && d.Cmp(curveN) < 0 {
				h.doLine("to-ecdsa-private", "bip_toecdsa "+mk(true, be32(d)))
			}
		}
		for _, pt := range h.pointsWithSpecialX(2 + h.budget/8) {
			c := append([]byte{byte(2 + pt[1].Bit(0))}, be32(pt[0])...)
			h.doLine("to-ecdsa-public", "bip_toecdsa "+mk(false, c))
		}
		// imported public keys whose x coordinate is short (leading zero bytes), sits in [N, P) or just below P
		for _, pt := range h.pointsWithSpecialX(2 * h.budget) {
			h.doLine("from-public-key-special-x", "bip_frompub "+hx(be32(pt[0]))+" "+hx(be32(pt[1]))+" "+hx(h.randBytes(32)))
		}
	}
	generators["C13"] = genC13
}

// oracles for a whole derivation (master + each step, both on the private and the neutered chain)
func deriveOracles(seed []byte, path []uint32, neuterAt int) []string {
	var out []string
	ms := []byte("Bitcoin seed")
	out = append(out, "h512="+hx(ms)+":"+hx(seed)+":"+hx(h512(ms, seed)))
	k, err := ecckd.FromBitcoinSeed(seed)
	if err != nil {
		return out
	}
	for idx, i := range path {
		if idx == neuterAt {
			k, _ = k.Public()
		}
		out = append(out, stepOracles(k, i)...)
		c, err := k.Child(i)
		if err != nil {
			return out
		}
		k = c
	}
	return out
}

func (h *H) randIndex() uint32 {
	switch h.rng.Intn(7) {
	case 0:
		return 0
	case 1:
		return 0x7fffffff
	case 2:
		return 0x80000000
	case 3:
		return 0xffffffff
	case 4:
		return uint32(h.rng.Intn(5))
	case 5:
		return 0x80000000 + uint32(h.rng.Intn(5))
	default:
		return h.rng.Uint32()
	}
}

func pathStr(p []uint32) string {
	if len(p) == 0 {
		return "-"
	}
	s := make([]string, len(p))
	for i, v := range p {
		s[i] = strconv.FormatUint(uint64(v), 10)
	}
	return strings.Join(s, ",")
}

func genC12(h *H) {
	n := 14 * h.budget
	for it := 0; it < n; it++ {
		seed := h.randBytes(16 + h.rng.Intn(49))
		plen := h.rng.Intn(9)
		if h.budget == 1 && plen > 4 {
			plen = h.rng.Intn(5)
		}
		var path []uint32
		for j := 0; j < plen; j++ {
			path = append(path, h.randIndex())
		}
		// private derivation
		h.doLine("private", "bip_derive "+hx(seed)+" "+pathStr(path)+" -1 "+strings.Join(deriveOracles(seed, path, -1), " "))
		// neuter at a random point (may hit hardened-from-public refusal)
		na := 0
		if plen > 0 {
			na = h.rng.Intn(plen + 1)
		}
		h.doLine("neutered", "bip_derive "+hx(seed)+" "+pathStr(path)+" "+strconv.Itoa(na)+" "+strings.Join(deriveOracles(seed, path, na), " "))
		// non-hardened path: neuter first vs last (commutation is visible by comparing the two lines' public fields)
		var nh []uint32
		for j := 0; j < 1+h.rng.Intn(3); j++ {
			nh = append(nh, uint32(h.rng.Intn(1<<31)))
		}
		h.doLine("commute-priv", "bip_derive "+hx(seed)+" "+pathStr(nh)+" -1 "+strings.Join(deriveOracles(seed, nh, -1), " "))
		h.doLine("commute-pub", "bip_derive "+hx(seed)+" "+pathStr(nh)+" 0 "+strings.Join(deriveOracles(seed, nh, 0), " "))
	}
	// keys decoded into long-lived receivers and neutered twins taken before a re-decode (see the bip_unmarshal op)
	if m, err := ecckd.FromBitcoinSeed(h.randBytes(32)); err == nil {
		c, _ := m.Child(uint32(h.rng.Intn(1<<31)) | 0x80000000)
		for _, k := range []*ecckd.ExtendedKey{m, c} {
			if k != nil {
				bin, _ := k.MarshalBinary()
				h.doLine("decode-into-used-objects", "bip_unmarshal "+hx(bin))
				pb, _ := k.Public()
				bin2, _ := pb.MarshalBinary()
				h.doLine("decode-into-used-objects", "bip_unmarshal "+hx(bin2))
			}
		}
	}
	// directed search: children whose private key has a leading zero byte (32-byte padding)
	found := 0
	seed := h.randBytes(32)
	m, _ := ecckd.FromBitcoinSeed(seed)
	for i := uint32(0); i < 4000 && found < 2*h.budget; i++ {
		c, err := m.Child(i)
		if err != nil {
			continue
		}
		if c.KeyData[0] == 0 {
			found++
			p := []uint32{i}
			h.doLine("leading-zero-key", "bip_derive "+hx(seed)+" "+pathStr(p)+" -1 "+strings.Join(deriveOracles(seed, p, -1), " "))
			p2 := []uint32{i, 1}
			h.doLine("leading-zero-key", "bip_derive "+hx(seed)+" "+pathStr(p2)+" -1 "+strings.Join(deriveOracles(seed, p2, -1), " "))
		}
	}
	// directed search with plain HMAC-SHA512 (no point arithmetic, ~1 µs per candidate): hardened children of the
	// master whose private key has TWO or more leading zero bytes (2^-16 each; 2^-24 for three in thorough)
	{
		seed2 := h.randBytes(32)
		ms := h512([]byte("Bitcoin seed"), seed2)
		kpar := new(big.Int).SetBytes(ms[:32])
		want := 2
		limit := uint32(400000)
		if h.budget > 1 {
			limit = 40000000
		}
		found2, found3 := 0, 0
		data := make([]byte, 37)
		copy(data[1:], ms[:32])
		for i := uint32(0); i < limit && (found2 < 2 || (h.budget > 1 && found3 < 1)); i++ {
			idx := 0x80000000 + i
			binary.BigEndian.PutUint32(data[33:], idx)
			I := h512(ms[32:], data)
			c := new(big.Int).SetBytes(I[:32])
			if c.Sign() == 0 || c.Cmp(curveN) >= 0 {
				continue
			}
			c.Add(c, kpar).Mod(c, curveN)
			lz := (256 - c.BitLen()) / 8
			if lz >= want && (lz >= 3 || found2 < 2) {
				if lz >= 3 {
					found3++
				} else {
					found2++
				}
				for _, p := range [][]uint32{{idx}, {idx, 0x80000000}, {idx, 1}} {
					h.doLine(fmt.Sprintf("leading-zeros-%d", lz), "bip_derive "+hx(seed2)+" "+pathStr(p)+" -1 "+strings.Join(deriveOracles(seed2, p, -1), " "))
				}
			}
		}
	}
	// directed search: a hardened child whose PUBLIC key has an x coordinate with two or more leading zero bytes
	// (2^-16 per node; needs one base-point multiplication per candidate): its compressed serialisation feeds the
	// fingerprint, the HMAC data of its non-hardened children and Public()
	{
		seed3 := h.randBytes(32)
		ms := h512([]byte("Bitcoin seed"), seed3)
		kpar := new(big.Int).SetBytes(ms[:32])
		limit := uint32(250000)
		if h.budget > 1 {
			limit = 1500000
		}
		data := make([]byte, 37)
		copy(data[1:], ms[:32])
		foundX := 0
		for i := uint32(0); i < limit && foundX < 1+h.budget/4; i++ {
			idx := 0x80000000 + i
			binary.BigEndian.PutUint32(data[33:], idx)
			I := h512(ms[32:], data)
			c := new(big.Int).SetBytes(I[:32])
			if c.Sign() == 0 || c.Cmp(curveN) >= 0 {
				continue
			}
			c.Add(c, kpar).Mod(c, curveN)
			var ks secp.ModNScalar
			ks.SetByteSlice(be32(c))
			var pt secp.JacobianPoint
			secp.ScalarBaseMultNonConst(&ks, &pt)
			pt.ToAffine()
			xb := pt.X.Bytes()
			if xb[0] != 0 || xb[1] != 0 {
				continue
			}
			foundX++
			for _, p := range [][]uint32{{idx}, {idx, 0}, {idx, 0x80000000}, {idx, 7, 1}} {
				h.doLine("short-pubkey-x", "bip_derive "+hx(seed3)+" "+pathStr(p)+" -1 "+strings.Join(deriveOracles(seed3, p, -1), " "))
				if len(p) > 1 {
					h.doLine("short-pubkey-x", "bip_derive "+hx(seed3)+" "+pathStr(p)+" 1 "+strings.Join(deriveOracles(seed3, p, 1), " "))
				}
			}
		}
	}
	// the depth boundary: keys decoded with depth 250..255, paths of length 0..6 (depth 255 is a legal node,
	// anything deeper is refused), private and neutered, hardened and normal steps
	{
		seedD := h.randBytes(32)
		if m, err := ecckd.FromBitcoinSeed(seedD); err == nil {
			pubm, _ := m.Public()
			for _, base := range []*ecckd.ExtendedKey{m, pubm} {
				for _, depth := range []byte{250, 253, 254, 255} {
					for _, plen := range []int{0, 1, 2, 5, 6} {
						kk := *base
						kk.Depth = depth
						bin, _ := kk.MarshalBinary()
						var path []uint32
						for j := 0; j < plen; j++ {
							idx := uint32(h.rng.Intn(1 << 20))
							if base.IsPrivate() && h.rng.Intn(2) == 0 {
								idx |= 0x80000000
							}
							path = append(path, idx)
						}
						// oracle values along the walk (as far as it goes)
						var orc []string
						cur := &ecckd.ExtendedKey{}
						if cur.UnmarshalBinary(bin) == nil {
							for _, i := range path {
								orc = append(orc, stepOracles(cur, i)...)
								nx, err := cur.Child(i)
								if err != nil {
									break
								}
								cur = nx
							}
							orc = append(orc, "h160="+hx(pubBytesOf(cur))+":"+hx(h160(pubBytesOf(cur))))
						}
						h.doLine("depth-boundary", "bip_derive_from "+hx(bin)+" "+pathStr(path)+" "+strings.Join(orc, " "))
					}
				}
			}
		}
	}
	// depth 255 refusal: a marshalled key with depth 0xff, then one more child
	h.doLine("hardened-from-public", "bip_derive "+hx(seed)+" 2147483648 0 "+strings.Join(deriveOracles(seed, []uint32{0x80000000}, 0), " "))
}

func doubleSha(b []byte) []byte {
	a := sha256.Sum256(b)
	a = sha256.Sum256(a[:])
	return a[:]
}

func fixChecksum(b []byte) []byte {
	if len(b) != 82 {
		return b
	}
	a := sha256.Sum256(b[:78])
	a = sha256.Sum256(a[:])
	copy(b[78:], a[:4])
	return b
}

// checksumCollision: two different valid serialisations whose 4-byte checksums coincide (birthday search over the
// child-number field; ~80k double-SHA256 evaluations) - for anything that remembers a key by a short tag
func checksumCollision(bin []byte, limit int) ([]byte, []byte) {
	seen := map[[4]byte]uint32{}
	b := append([]byte{}, bin...)
	for i := 0; i < limit; i++ {
		binary.BigEndian.PutUint32(b[9:13], uint32(i))
		s1 := sha256.Sum256(b[:78])
		s2 := sha256.Sum256(s1[:])
		var tag [4]byte
		copy(tag[:], s2[:4])
		if j, ok := seen[tag]; ok {
			A, B := append([]byte{}, b...), append([]byte{}, b...)
			binary.BigEndian.PutUint32(A[9:13], j)
			return fixChecksum(A), fixChecksum(B)
		}
		seen[tag] = uint32(i)
	}
	return nil, nil
}

func genC13(h *H) {
	// FromPublicKey on caller-owned keys: valid points, x in [P, 2^256), small x, both parities, wrong chain-code lengths
	{
		px, py := h.affinePoint()
		over := h.overP()
		for _, xv := range [][]byte{be32(px), over[1], over[len(over)-1], over[10], be32(big.NewInt(1))} {
			for _, yv := range [][]byte{be32(py), be32(new(big.Int).Add(py, big.NewInt(1)))} {
				h.doLine("from-public-key", "bip_frompub "+hx(xv)+" "+hx(yv)+" "+hx(h.randBytes(32)))
			}
		}
		h.doLine("from-public-key", "bip_frompub "+hx(be32(px))+" "+hx(be32(py))+" "+hx(h.randBytes(31)))
	}
	// a long-lived object reloaded with other keys, incl. a pair whose checksums collide
	if m, err := ecckd.FromBitcoinSeed(h.randBytes(32)); err == nil {
		c, _ := m.Child(uint32(h.rng.Intn(1 << 31)))
		p, _ := m.Public()
		var bins [][]byte
		for _, k := range []*ecckd.ExtendedKey{m, c, p} {
			if k != nil {
				b, _ := k.MarshalBinary()
				bins = append(bins, b)
			}
		}
		for i := range bins {
			for j := range bins {
				h.doLine("reload", "bip_reload "+hx(bins[i])+" "+hx(bins[j]))
			}
		}
		if A, B := checksumCollision(bins[0], 400000); A != nil {
			h.doLine("reload-checksum-collision", "bip_reload "+hx(A)+" "+hx(B))
			h.doLine("reload-checksum-collision", "bip_reload "+hx(B)+" "+hx(A))
		}
	}
	n := 6 * h.budget
	for it := 0; it < n; it++ {
		seed := h.randBytes(16 + h.rng.Intn(49))
		m, err := ecckd.FromBitcoinSeed(seed)
		if err != nil {
			continue
		}
		k := m
		for j := 0; j < h.rng.Intn(3); j++ {
			if c, err := k.Child(h.randIndex()); err == nil {
				k = c
			}
		}
		pub, _ := k.Public()
		for _, key := range []*ecckd.ExtendedKey{k, pub} {
			bin, _ := key.MarshalBinary()
			h.doLine("valid", "bip_unmarshal "+hx(bin))
			str := key.String()
			h.doLine("valid-string", "bip_fromstring "+hx([]byte(str))+" b58d="+hx([]byte(str))+":"+hx(bin)+" b58e="+hx(bin)+":"+hx([]byte(str)))
			// single-field corruptions with a recomputed checksum
			mut := func(class string, f func(b []byte)) {
				b := append([]byte{}, bin...)
				f(b)
				h.doLine(class, "bip_unmarshal "+hx(fixChecksum(b)))
			}
			for _, v := range [][]byte{{0x04, 0x88, 0xb2, 0x1e}, {0x04, 0x88, 0xad, 0xe4}, {0x04, 0x35, 0x87, 0xcf}, {0x04, 0x35, 0x83, 0x94}, {0, 0, 0, 0}} {
				vv := v
				mut("version", func(b []byte) { copy(b[0:4], vv) })
			}
			mut("depth", func(b []byte) { b[4] = 0xff })
			// every field survives a round trip whatever the depth says: depth 0 with a fingerprint / child number that
			// is not zero (an encoding no constructor produces but the decoder accepts), and the other way round
			mut("depth-zero", func(b []byte) { b[4] = 0 })
			mut("depth-zero-fields", func(b []byte) { b[4] = 0; b[5], b[8] = 0x34, 0x3e; b[9], b[12] = 0x80, 0x01 })
			mut("fields-zero", func(b []byte) { copy(b[5:13], make([]byte, 8)) })
			// text form of an over-long payload with a checksum over everything before it: the text decoder must apply the
			// same exact-length rule as the binary one
			{
				long := append(append([]byte{}, bin[:78]...), h.randBytes(1+h.rng.Intn(6))...)
				long = append(long, doubleSha(long)[:4]...)
				str := base58.Bitcoin.Encode(long)
				h.doLine("overlong-string", "bip_fromstring "+hx([]byte(str))+" b58d="+hx([]byte(str))+":"+hx(long))
				short := append([]byte{}, bin[:77]...)
				short = append(short, doubleSha(short)[:4]...)
				str2 := base58.Bitcoin.Encode(short)
				h.doLine("short-string", "bip_fromstring "+hx([]byte(str2))+" b58d="+hx([]byte(str2))+":"+hx(short))
			}
			for _, pfx := range []int{0, 1, 2, 3, 4, 5, 6, 7, 255} {
				pp := pfx
				mut("key-prefix", func(b []byte) { b[45] = byte(pp) })
			}
			if key.IsPrivate() && !h.once["c13-sweep"] {
				// once per run: the private key swept around N digit by digit (64- and 32-bit digits), deterministic
				h.once["c13-sweep"] = true
				for _, v := range append(chainSweep(curveN, 64, 4), chainSweep(curveN, 32, 8)...) {
					kk := be32(v)
					mut("private-boundary-sweep", func(b []byte) { copy(b[46:78], kk) })
				}
			}
			if key.IsPrivate() {
				for _, kv := range [][]byte{make([]byte, 32), be32(curveN), be32(new(bigInt).Sub(curveN, bigOne)), bytesRepeat(0xff, 32), be32(bigOne),
					// around N digit by digit (a word-wise comparison with N that drops or mis-orders a word)
					be32(h.chainWalk(curveN, 64, 4)), be32(h.chainWalk(curveN, 64, 4)), be32(h.chainWalk(curveN, 32, 8)), be32(h.chainWalk(curveN, 32, 8)),
					be32(h.chainWalk(curveN, 8, 32)), be32(new(bigInt).Add(curveN, new(bigInt).Lsh(bigOne, uint(h.rng.Intn(128)))))} {
					kk := kv
					mut("private-boundary", func(b []byte) { copy(b[46:78], kk) })
				}
			} else {
				mut("off-curve-x", func(b []byte) { copy(b[46:78], h.nonResidueX()) })
				mut("x-ge-p", func(b []byte) { copy(b[46:78], be32(curveP)) })
				for _, ov := range h.overP() {
					for _, pfx := range []byte{2, 3} {
						ovv, pp := ov, pfx
						mut("x-over-p", func(b []byte) { b[45] = pp; copy(b[46:78], ovv) })
					}
				}
			}
			// checksum errors and lengths
			b2 := append([]byte{}, bin...)
			b2[h.rng.Intn(78)] ^= 1 << uint(h.rng.Intn(8))
			h.doLine("bad-checksum", "bip_unmarshal "+hx(b2))
			for _, l := range []int{0, 1, 77, 78, 81, 83, 100} {
				bb := append([]byte{}, bin...)
				if l <= len(bb) {
					bb = bb[:l]
				} else {
					bb = append(bb, h.randBytes(l-len(bb))...)
				}
				h.doLine("length", "bip_unmarshal "+hx(bb))
			}
		}
	}
	for l := 0; l <= 100; l += 7 {
		h.doLine("random-len", "bip_unmarshal "+hx(h.randBytes(l)))
	}
	// base58 failures
	bad := "xprv0OIl"
	_, derr := base58.Bitcoin.Decode(bad)
	res := "ERR"
	if derr == nil {
		res = "-"
	}
	h.doLine("base58-error", "bip_fromstring "+hx([]byte(bad))+" b58d="+hx([]byte(bad))+":"+res)
	_ = secp.PrivKeyBytesLen
}
