//go:build verif

// harness — generates operations for one property, runs them in-process
// against the real code (built from /repo's working tree with -tags verif)
// and writes
//
//	<out>/ops.txt   one operation per line (the Lean driver's input)
//	<out>/impl.txt  the implementation's canonical answer, line for line
//	<out>/meta.json input distribution (classes hit, counts)
package main

import (
	"bytes"
	"encoding/hex"
	"encoding/json"
	"errors"
	"fmt"
	"math/big"
	"math/rand"
	"os"
	"path/filepath"
	"sort"
	"strconv"
	"strings"
	"sync"

	secp "github.com/ModChain/secp256k1"
)

type H struct {
	rng     *rand.Rand
	ops     []string
	impl    []string
	classes map[string]int
	tier    string
	budget  int             // scale factor: 1 quick, N thorough
	hxCount int             // round-robin over the construction modes of highXSig
	hxLimb  int             // … and over (limb, style) within its limb-perturbation mode
	once    map[string]bool // one-time generator classes already emitted
}

func (h *H) emit(class, op, impl string) {
	h.ops = append(h.ops, op)
	h.impl = append(h.impl, impl)
	h.classes[class]++
}

func hx(b []byte) string {
	if len(b) == 0 {
		return "-"
	}
	return hex.EncodeToString(b)
}

func unhx(s string) []byte {
	if s == "-" {
		return nil
	}
	b, err := hex.DecodeString(s)
	if err != nil {
		panic(err)
	}
	return b
}

// guard runs f and maps a Go panic to the canonical string "PANIC".
func guard(f func() string) (res string) {
	defer func() {
		if r := recover(); r != nil {
			res = "PANIC"
		}
	}()
	return f()
}

func errKind(err error) string {
	var e secp.Error
	if errors.As(err, &e) {
		var k secp.ErrorKind
		if errors.As(e.Err, &k) {
			return string(k)
		}
	}
	var k secp.ErrorKind
	if errors.As(err, &k) {
		return string(k)
	}
	return "other:" + err.Error()
}

func (h *H) randBytes(n int) []byte {
	b := make([]byte, n)
	h.rng.Read(b)
	return b
}

var curveN = secp.Params().N
var curveP = secp.Params().P

func be32(v *big.Int) []byte {
	b := make([]byte, 32)
	v.FillBytes(b)
	return b
}

// interesting 256-bit values around the scalar/field boundaries
// historyMu guards the harness's own long-lived objects (reuseSignKey, reusePeer, reusePriv): the goroutines of the
// concurrent run (C17) execute ordinary operations, and the object-history probes inside them share these objects
var historyMu sync.Mutex

func (h *H) boundaryInts() []*big.Int {
	one := big.NewInt(1)
	two256 := new(big.Int).Lsh(one, 256)
	half := new(big.Int).Rsh(curveN, 1)
	vals := []*big.Int{
		big.NewInt(0), big.NewInt(1), big.NewInt(2), big.NewInt(127), big.NewInt(128), big.NewInt(255), big.NewInt(256),
		new(big.Int).Sub(curveN, one), new(big.Int).Set(curveN), new(big.Int).Add(curveN, one),
		new(big.Int).Sub(curveN, big.NewInt(2)),
		new(big.Int).Set(half), new(big.Int).Add(half, one), new(big.Int).Sub(half, one),
		new(big.Int).Sub(curveP, one), new(big.Int).Set(curveP), new(big.Int).Add(curveP, one),
		new(big.Int).Sub(curveP, curveN), new(big.Int).Sub(new(big.Int).Sub(curveP, curveN), one),
		new(big.Int).Lsh(one, 255), new(big.Int).Sub(two256, one),
		new(big.Int).Sub(new(big.Int).Lsh(one, 255), one),
		new(big.Int).Lsh(one, 128), new(big.Int).Sub(new(big.Int).Lsh(one, 128), one),
		new(big.Int).Add(new(big.Int).Lsh(one, 128), one),
		new(big.Int).Sub(two256, curveN),
	}
	return vals
}

func (h *H) randScalarInt() *big.Int {
	switch h.rng.Intn(7) {
	case 6: // around a constant some word-by-word comparison reads: N, P, (N-1)/2, P-N, in 32- and 26-bit digits
		cs := []*big.Int{curveN, curveP, new(big.Int).Rsh(curveN, 1), new(big.Int).Sub(curveP, curveN)}
		c := cs[h.rng.Intn(len(cs))]
		if h.rng.Intn(2) == 0 {
			return h.chainWalk(c, 32, 8)
		}
		return h.chainWalk(c, 26, 10)
	case 0:
		bs := h.boundaryInts()
		return new(big.Int).Set(bs[h.rng.Intn(len(bs))])
	case 1: // short
		return new(big.Int).SetBytes(h.randBytes(1 + h.rng.Intn(31)))
	default:
		return new(big.Int).SetBytes(h.randBytes(32))
	}
}

func main() {
	if len(os.Args) < 5 {
		fmt.Fprintln(os.Stderr, "usage: harness <prop> <tier> <seed> <outdir>")
		os.Exit(2)
	}
	prop, tier := os.Args[1], os.Args[2]
	seed, _ := strconv.ParseInt(os.Args[3], 10, 64)
	out := os.Args[4]
	h := &H{rng: rand.New(rand.NewSource(seed)), classes: map[string]int{}, once: map[string]bool{}, tier: tier, budget: 1}
	if tier == "thorough" {
		h.budget = 20
	}
	if v := os.Getenv("VERIF_BUDGET"); v != "" {
		if n, err := strconv.Atoi(v); err == nil {
			h.budget = n
		}
	}
	if prop == "conc" {
		g, per := 8, 6
		if tier == "thorough" {
			g, per = 32, 12
		}
		runConc(h, seed, g, per)
		return
	}
	// replay mode: ops come from a file, only impl answers are produced
	if prop == "replay" {
		data, err := os.ReadFile(os.Args[5])
		if err != nil {
			panic(err)
		}
		for _, l := range strings.Split(strings.TrimSpace(string(data)), "\n") {
			if l == "" {
				continue
			}
			h.emit("replay", l, h.runOp(l))
		}
	} else {
		g, ok := generators[prop]
		if !ok {
			fmt.Fprintln(os.Stderr, "no generator for", prop)
			os.Exit(2)
		}
		// corpus first
		if data, err := os.ReadFile(filepath.Join(os.Getenv("VERIF_CORPUS"), prop+".txt")); err == nil && os.Getenv("VERIF_CORPUS") != "" {
			for _, l := range strings.Split(strings.TrimSpace(string(data)), "\n") {
				if l == "" || strings.HasPrefix(l, "#") {
					continue
				}
				h.emit("corpus", l, h.runOp(l))
			}
		}
		g(h)
	}
	os.MkdirAll(out, 0o755)
	os.WriteFile(filepath.Join(out, "ops.txt"), []byte(strings.Join(h.ops, "\n")+"\n"), 0o644)
	os.WriteFile(filepath.Join(out, "impl.txt"), []byte(strings.Join(h.impl, "\n")+"\n"), 0o644)
	keys := make([]string, 0, len(h.classes))
	for k := range h.classes {
		keys = append(keys, k)
	}
	sort.Strings(keys)
	meta := map[string]any{"prop": prop, "tier": tier, "seed": seed, "ops": len(h.ops), "classes": h.classes}
	mb, _ := json.MarshalIndent(meta, "", " ")
	os.WriteFile(filepath.Join(out, "meta.json"), mb, 0o644)
}

var generators = map[string]func(*H){}

// runOp executes one op line against the implementation (used by corpus and replay).
func (h *H) runOp(line string) string {
	f := strings.Fields(line)
	if len(f) == 0 {
		return "empty"
	}
	fn, ok := opImpl[f[0]]
	if !ok {
		return "unknown-op " + f[0]
	}
	return guard(func() string { return fn(f[1:]) })
}

var opImpl = map[string]func([]string) string{}

// do emits an op after running it through the implementation table.
func (h *H) do(class string, op string, args ...string) {
	line := op
	if len(args) > 0 {
		line += " " + strings.Join(args, " ")
	}
	h.emit(class, line, h.runOp(line))
}

// snapshot helper: returns "MUTATED" suffix when f changed any of the buffers.
func withArgsCheck(bufs [][]byte, f func() string) string {
	snaps := make([][]byte, len(bufs))
	for i, b := range bufs {
		snaps[i] = append([]byte(nil), b...)
	}
	res := f()
	for i, b := range bufs {
		if !bytes.Equal(snaps[i], b) {
			return res + " ARG-MUTATED"
		}
	}
	return res
}
