/-
  Proofs/PointOpsAffine — ToAffine of a finite point yields the affine coordinates `Jac.toPt`
  computes (uses `Chains.toAffine_run`, the reflective proof of the inlined inversion chain).
-/
import Secp.Model.PointSpec
import Secp.Proofs.Chains

namespace Secp.Proofs.PointOps
open Secp.Spec Secp.Model Secp.FOp Secp.Proofs

theorem pointOps_toAffine : ∀ q x y, Jac.WF q → Jac.toPt q = some (x, y) → toAffineJ q = (x, y, 1) := by
  rintro ⟨X, Y, Z⟩ x y hq hpt
  rw [Secp.Proofs.Chains.toAffine_run X Y Z hq.1 hq.2.1 hq.2.2.1]
  unfold Jac.toPt at hpt
  split at hpt
  · exact absurd hpt (by simp)
  · simp only [Option.some.injEq, Prod.mk.injEq] at hpt
    rw [hpt.1, hpt.2]

end Secp.Proofs.PointOps
