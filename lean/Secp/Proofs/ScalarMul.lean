import Secp.Proofs.IRRun
import Secp.Gen.Bounds
import Secp.Core.Limbs
import Secp.Proofs.ScalarReduce
import Secp.Proofs.IRIndep
import Mathlib.Tactic.Ring
/-
  Proofs/ScalarMul — C06: reduce385, reduce512 and Mul2 of ModNScalar.

  Each kernel is run in the ideal semantics (`kernel_steps` + the interval certificates of
  Gen/Bounds), destructured into its SSA equations (`ir_steps`), and the equations are handed to
  the arithmetic lemmas of Proofs/ScalarReduce (`tail385`, `fold512`, `mulcols`).  The receiver
  words are never read by these kernels (`IRIndep.readsOnlyLast`, decided on the regenerated
  kernel), so they are unconstrained.
-/
namespace Secp.Proofs.ScalarMul
open Secp.IR Secp.Gen Secp.Gen.Bounds Secp.Proofs.IRRun Secp.Limbs Secp.Spec
open Secp.Proofs.ScalarReduce Secp.Proofs.IRIndep

theorem list_succ {l : List Nat} {n : Nat} (h : l.length = n + 1) :
    ∃ x l', l = x :: l' ∧ l'.length = n := by
  cases l with
  | nil => simp at h
  | cons x l' => exact ⟨x, l', rfl, by simpa using h⟩

theorem N_lit : N = 115792089237316195423570985008687907852837564279074904382605163141518161494337 := rfl

theorem mod_of_add_mul {r q T : Nat} (h : r + q * N = T) (hr : r < N) : r = T % N := by
  rw [← h, Nat.add_mul_mod_self_right, Nat.mod_eq_of_lt hr]


theorem bv13 (t0 t1 t2 t3 t4 t5 t6 t7 t8 t9 t10 t11 t12 : Nat) : bytesVal32 [t0, t1, t2, t3, t4, t5, t6, t7, t8, t9, t10, t11, t12] = t0 + t1 * 2^32 + t2 * 2^64 + t3 * 2^96 + t4 * 2^128 + t5 * 2^160 + t6 * 2^192 + t7 * 2^224 + t8 * 2^256 + t9 * 2^288 + t10 * 2^320 + t11 * 2^352 + t12 * 2^384 := by
  simp only [bytesVal32]; omega

theorem bv16 (t0 t1 t2 t3 t4 t5 t6 t7 t8 t9 t10 t11 t12 t13 t14 t15 : Nat) : bytesVal32 [t0, t1, t2, t3, t4, t5, t6, t7, t8, t9, t10, t11, t12, t13, t14, t15] = t0 + t1 * 2^32 + t2 * 2^64 + t3 * 2^96 + t4 * 2^128 + t5 * 2^160 + t6 * 2^192 + t7 * 2^224 + (t8 + t9 * 2^32 + t10 * 2^64 + t11 * 2^96 + t12 * 2^128 + t13 * 2^160 + t14 * 2^192 + t15 * 2^224) * 2^256 := by
  simp only [bytesVal32]; omega

set_option maxRecDepth 100000 in
theorem comb512 {o a M Tl Th : Nat} (hq : o + a * 115792089237316195423570985008687907852837564279074904382605163141518161494337 = M) (FI : M = Tl + Th * 432420386565659656852420866394968145599) :
    o + (a + Th) * 115792089237316195423570985008687907852837564279074904382605163141518161494337 = Tl + Th * 2^256 := by
  subst FI
  rw [Nat.add_mul, ← Nat.add_assoc, hq]
  omega

theorem reads385 : readsOnlyLast Scalar_reduce385 13 = true := by decide +kernel
theorem reads512 : readsOnlyLast Scalar_reduce512 16 = true := by decide +kernel
theorem readsMul2 : readsOnlyLast Scalar_Mul2 16 = true := by decide +kernel

set_option maxHeartbeats 4000000 in
set_option maxRecDepth 100000 in
set_option exponentiation.threshold 1024 in
theorem reduce385_core (t0 t1 t2 t3 t4 t5 t6 t7 t8 t9 t10 t11 t12 : Nat)
    (bt0 : t0 < 2^32) (bt1 : t1 < 2^32) (bt2 : t2 < 2^32) (bt3 : t3 < 2^32) (bt4 : t4 < 2^32) (bt5 : t5 < 2^32) (bt6 : t6 < 2^32) (bt7 : t7 < 2^32) (bt8 : t8 < 2^32) (bt9 : t9 < 2^32) (bt10 : t10 < 2^32) (bt11 : t11 < 2^32) (bt12 : t12 < 2^32)
    (hb : t0 + t1 * 2^32 + t2 * 2^64 + t3 * 2^96 + t4 * 2^128 + t5 * 2^160 + t6 * 2^192 + t7 * 2^224 + (t8 + t9 * 2^32 + t10 * 2^64 + t11 * 2^96 + t12 * 2^128) * 432420386565659656852420866394968145599 < 2^288) :
    ∃ o0 o1 o2 o3 o4 o5 o6 o7 : Nat, Scalar_reduce385.runW [0, 0, 0, 0, 0, 0, 0, 0, t0, t1, t2, t3, t4, t5, t6, t7, t8, t9, t10, t11, t12] = [o0, o1, o2, o3, o4, o5, o6, o7] ∧
      (o0 < 2^32 ∧ o1 < 2^32 ∧ o2 < 2^32 ∧ o3 < 2^32 ∧ o4 < 2^32 ∧ o5 < 2^32 ∧ o6 < 2^32 ∧ o7 < 2^32) ∧
      o0 + o1 * 2^32 + o2 * 2^64 + o3 * 2^96 + o4 * 2^128 + o5 * 2^160 + o6 * 2^192 + o7 * 2^224 < 115792089237316195423570985008687907852837564279074904382605163141518161494337 ∧
      ∃ q, o0 + o1 * 2^32 + o2 * 2^64 + o3 * 2^96 + o4 * 2^128 + o5 * 2^160 + o6 * 2^192 + o7 * 2^224 + q * 115792089237316195423570985008687907852837564279074904382605163141518161494337 = t0 + t1 * 2^32 + t2 * 2^64 + t3 * 2^96 + t4 * 2^128 + t5 * 2^160 + t6 * 2^192 + t7 * 2^224 + t8 * 2^256 + t9 * 2^288 + t10 * 2^320 + t11 * 2^352 + t12 * 2^384 := by
  have hin : Within [0, 0, 0, 0, 0, 0, 0, 0, t0, t1, t2, t3, t4, t5, t6, t7, t8, t9, t10, t11, t12] Scalar_reduce385_w32_in := by
    simp only [Scalar_reduce385_w32_in, Within, inIval, Nat.zero_le, Nat.le_refl, true_and, and_true]
    omega
  have h := kernel_steps Scalar_reduce385 _ _ _ _ hin Scalar_reduce385_w32_mid_ok Scalar_reduce385_w32_out_ok
  simp only [Scalar_reduce385, List.reverse_cons, List.reverse_nil, List.nil_append, List.cons_append] at h
  ir_steps h
  obtain ⟨-, hrun⟩ := h.out
  simp only [List.map, evalN, List.getD_cons_succ, List.getD_cons_zero] at hrun
  clear h hin
  have TT := tail385 t0 t1 t2 t3 t4 t5 t6 t7 t8 t9 t10 t11 t12 v0 v1 v2 v3 v4 v5 v6 v7 v8 v9 v10 v11 v12 v13 v14 v15 v16 v17 v18 v19 v20 v21 v22 v23 v24 v25 v26 v27 v28 v29 v30 v31 v32 v33 v34 v35 v36 v37 v38 v39 v40 v41 v42 v43 v44 v45 v46 v47 v48 v49 v50 v51 v52 v53 v54 v55 v56 v57 v58 v59 v60 v61 v62 v63 v64 v65 v66 v67 v68 v69 v70 v71 v72 v73 v74 v75 v76 v77 v78 v79 v80 v81 v82 v83 v84 v85 v86 v87 v88 v89 v90 v91 v92 v93 v94 v95 v96 v97 v98 v99 bt0 bt1 bt2 bt3 bt4 bt5 bt6 bt7 hb e0 e1 e2 e3 e4 e5 e6 e7 e8 e9 e10 e11 e12 e13 e14 e15 e16 e17 e18 e19 e20 e21 e22 e23 e24 e25 e26 e27 e28 e29 e30 e31 e32 e33 e34 e35 e36 e37 e38 e39 e40 e41 e42 e43 e44 e45 e46 e47 e48 e49 e50 e51 e52 e53 e54 e55 e56 e57 e58 e59 e60 e61 e62 e63 e64 e65 e66 e67 e68 e69 e70 e71 e72 e73 e74 e75 e76 e77 e78 e79 e80 e81 e82 e83 e84 e85 e86 e87 e88 e89 e90 e91 e92 e93 e94 e95 e96 e97 e98 e99
  exact ⟨v85, v87, v89, v91, v93, v95, v97, v99, hrun, TT.1, TT.2.1, _, TT.2.2⟩

set_option maxHeartbeats 4000000 in
set_option maxRecDepth 100000 in
set_option exponentiation.threshold 1024 in
theorem reduce385_spec (s : L8) (t : List Nat) (ht : t.length = 13) (hlt : AllLt (2^32) t)
    (h385 : bytesVal32 t < 2^385) :
    ∃ r : L8, Scalar_reduce385.runW (s.toList ++ t) = r.toList ∧ r.Canon ∧
      r.val = (bytesVal32 t) % N := by
  obtain ⟨t0, l0, rfl, h0⟩ := list_succ ht
  obtain ⟨t1, l1, rfl, h1⟩ := list_succ h0
  obtain ⟨t2, l2, rfl, h2⟩ := list_succ h1
  obtain ⟨t3, l3, rfl, h3⟩ := list_succ h2
  obtain ⟨t4, l4, rfl, h4⟩ := list_succ h3
  obtain ⟨t5, l5, rfl, h5⟩ := list_succ h4
  obtain ⟨t6, l6, rfl, h6⟩ := list_succ h5
  obtain ⟨t7, l7, rfl, h7⟩ := list_succ h6
  obtain ⟨t8, l8, rfl, h8⟩ := list_succ h7
  obtain ⟨t9, l9, rfl, h9⟩ := list_succ h8
  obtain ⟨t10, l10, rfl, h10⟩ := list_succ h9
  obtain ⟨t11, l11, rfl, h11⟩ := list_succ h10
  obtain ⟨t12, l12, rfl, h12⟩ := list_succ h11
  obtain rfl : l12 = [] := List.length_eq_zero_iff.mp h12
  have bt0 : t0 < 2^32 := hlt t0 (by simp)
  have bt1 : t1 < 2^32 := hlt t1 (by simp)
  have bt2 : t2 < 2^32 := hlt t2 (by simp)
  have bt3 : t3 < 2^32 := hlt t3 (by simp)
  have bt4 : t4 < 2^32 := hlt t4 (by simp)
  have bt5 : t5 < 2^32 := hlt t5 (by simp)
  have bt6 : t6 < 2^32 := hlt t6 (by simp)
  have bt7 : t7 < 2^32 := hlt t7 (by simp)
  have bt8 : t8 < 2^32 := hlt t8 (by simp)
  have bt9 : t9 < 2^32 := hlt t9 (by simp)
  have bt10 : t10 < 2^32 := hlt t10 (by simp)
  have bt11 : t11 < 2^32 := hlt t11 (by simp)
  have bt12 : t12 < 2^32 := hlt t12 (by simp)
  clear hlt h0 h1 h2 h3 h4 h5 h6 h7 h8 h9 h10 h11
  rw [bv13] at *
  have h12 : t12 ≤ 1 := by omega
  have hb : t0 + t1 * 2^32 + t2 * 2^64 + t3 * 2^96 + t4 * 2^128 + t5 * 2^160 + t6 * 2^192 + t7 * 2^224 + (t8 + t9 * 2^32 + t10 * 2^64 + t11 * 2^96 + t12 * 2^128) * 432420386565659656852420866394968145599 < 2^288 := by
    clear h385 bt12
    omega
  obtain ⟨o0, o1, o2, o3, o4, o5, o6, o7, hrun, hO, hlt', q, hq⟩ := reduce385_core t0 t1 t2 t3 t4 t5 t6 t7 t8 t9 t10 t11 t12 bt0 bt1 bt2 bt3 bt4 bt5 bt6 bt7 bt8 bt9 bt10 bt11 bt12 hb
  refine ⟨⟨o0, o1, o2, o3, o4, o5, o6, o7⟩, ?_, ⟨hO, hlt'⟩, mod_of_add_mul hq hlt'⟩
  exact (runW_prefix Scalar_reduce385 s.toList [0, 0, 0, 0, 0, 0, 0, 0] [t0, t1, t2, t3, t4, t5, t6, t7, t8, t9, t10, t11, t12] reads385).trans hrun

set_option maxHeartbeats 4000000 in
set_option maxRecDepth 100000 in
set_option exponentiation.threshold 1024 in
theorem reduce512_core (t0 t1 t2 t3 t4 t5 t6 t7 t8 t9 t10 t11 t12 t13 t14 t15 : Nat)
    (bp0 : t0 < 2^32) (bp1 : t1 < 2^32) (bp2 : t2 < 2^32) (bp3 : t3 < 2^32) (bp4 : t4 < 2^32) (bp5 : t5 < 2^32) (bp6 : t6 < 2^32) (bp7 : t7 < 2^32) (bp8 : t8 < 2^32) (bp9 : t9 < 2^32) (bp10 : t10 < 2^32) (bp11 : t11 < 2^32) (bp12 : t12 < 2^32) (bp13 : t13 < 2^32) (bp14 : t14 < 2^32) (bp15 : t15 < 2^32) :
    ∃ o0 o1 o2 o3 o4 o5 o6 o7 : Nat, Scalar_reduce512.runW [0, 0, 0, 0, 0, 0, 0, 0, t0, t1, t2, t3, t4, t5, t6, t7, t8, t9, t10, t11, t12, t13, t14, t15] = [o0, o1, o2, o3, o4, o5, o6, o7] ∧
      (o0 < 2^32 ∧ o1 < 2^32 ∧ o2 < 2^32 ∧ o3 < 2^32 ∧ o4 < 2^32 ∧ o5 < 2^32 ∧ o6 < 2^32 ∧ o7 < 2^32) ∧
      o0 + o1 * 2^32 + o2 * 2^64 + o3 * 2^96 + o4 * 2^128 + o5 * 2^160 + o6 * 2^192 + o7 * 2^224 < 115792089237316195423570985008687907852837564279074904382605163141518161494337 ∧
      ∃ q, o0 + o1 * 2^32 + o2 * 2^64 + o3 * 2^96 + o4 * 2^128 + o5 * 2^160 + o6 * 2^192 + o7 * 2^224 + q * 115792089237316195423570985008687907852837564279074904382605163141518161494337 = t0 + t1 * 2^32 + t2 * 2^64 + t3 * 2^96 + t4 * 2^128 + t5 * 2^160 + t6 * 2^192 + t7 * 2^224 + (t8 + t9 * 2^32 + t10 * 2^64 + t11 * 2^96 + t12 * 2^128 + t13 * 2^160 + t14 * 2^192 + t15 * 2^224) * 2^256 := by
  have hin : Within [0, 0, 0, 0, 0, 0, 0, 0, t0, t1, t2, t3, t4, t5, t6, t7, t8, t9, t10, t11, t12, t13, t14, t15] Scalar_reduce512_w32_in := by
    simp only [Scalar_reduce512_w32_in, Within, inIval, Nat.zero_le, Nat.le_refl, true_and, and_true]
    omega
  have h := kernel_steps Scalar_reduce512 _ _ _ _ hin Scalar_reduce512_w32_mid_ok Scalar_reduce512_w32_out_ok
  simp only [Scalar_reduce512, List.reverse_cons, List.reverse_nil, List.nil_append, List.cons_append] at h
  ir_steps h
  obtain ⟨-, hrun⟩ := h.out
  simp only [List.map, evalN, List.getD_cons_succ, List.getD_cons_zero] at hrun
  clear h hin
  obtain ⟨⟨bm0, bm1, bm2, bm3, bm4, bm5, bm6, bm7⟩, hb, FI⟩ := fold512 t0 t1 t2 t3 t4 t5 t6 t7 t8 t9 t10 t11 t12 t13 t14 t15 v0 v1 v2 v3 v4 v5 v6 v7 v8 v9 v10 v11 v12 v13 v14 v15 v16 v17 v18 v19 v20 v21 v22 v23 v24 v25 v26 v27 v28 v29 v30 v31 v32 v33 v34 v35 v36 v37 v38 v39 v40 v41 v42 v43 v44 v45 v46 v47 v48 v49 v50 v51 v52 v53 v54 v55 v56 v57 v58 v59 v60 v61 v62 v63 v64 v65 v66 v67 v68 v69 v70 v71 v72 bp0 bp1 bp2 bp3 bp4 bp5 bp6 bp7 bp8 bp9 bp10 bp11 bp12 bp13 bp14 bp15 e0 e1 e2 e3 e4 e5 e6 e7 e8 e9 e10 e11 e12 e13 e14 e15 e16 e17 e18 e19 e20 e21 e22 e23 e24 e25 e26 e27 e28 e29 e30 e31 e32 e33 e34 e35 e36 e37 e38 e39 e40 e41 e42 e43 e44 e45 e46 e47 e48 e49 e50 e51 e52 e53 e54 e55 e56 e57 e58 e59 e60 e61 e62 e63 e64 e65 e66 e67 e68 e69 e70 e71 e72
  obtain ⟨hO, hlt', hq⟩ := tail385 v2 v7 v13 v20 v28 v36 v44 v52 v58 v63 v67 v70 v72 v73 v74 v75 v76 v77 v78 v79 v80 v81 v82 v83 v84 v85 v86 v87 v88 v89 v90 v91 v92 v93 v94 v95 v96 v97 v98 v99 v100 v101 v102 v103 v104 v105 v106 v107 v108 v109 v110 v111 v112 v113 v114 v115 v116 v117 v118 v119 v120 v121 v122 v123 v124 v125 v126 v127 v128 v129 v130 v131 v132 v133 v134 v135 v136 v137 v138 v139 v140 v141 v142 v143 v144 v145 v146 v147 v148 v149 v150 v151 v152 v153 v154 v155 v156 v157 v158 v159 v160 v161 v162 v163 v164 v165 v166 v167 v168 v169 v170 v171 v172 bm0 bm1 bm2 bm3 bm4 bm5 bm6 bm7 hb e73 e74 e75 e76 e77 e78 e79 e80 e81 e82 e83 e84 e85 e86 e87 e88 e89 e90 e91 e92 e93 e94 e95 e96 e97 e98 e99 e100 e101 e102 e103 e104 e105 e106 e107 e108 e109 e110 e111 e112 e113 e114 e115 e116 e117 e118 e119 e120 e121 e122 e123 e124 e125 e126 e127 e128 e129 e130 e131 e132 e133 e134 e135 e136 e137 e138 e139 e140 e141 e142 e143 e144 e145 e146 e147 e148 e149 e150 e151 e152 e153 e154 e155 e156 e157 e158 e159 e160 e161 e162 e163 e164 e165 e166 e167 e168 e169 e170 e171 e172
  exact ⟨v158, v160, v162, v164, v166, v168, v170, v172, hrun, hO, hlt', _, comb512 hq FI⟩

set_option maxHeartbeats 4000000 in
set_option maxRecDepth 100000 in
set_option exponentiation.threshold 1024 in
theorem reduce512_spec (s : L8) (t : List Nat) (ht : t.length = 16) (hlt : AllLt (2^32) t) :
    ∃ r : L8, Scalar_reduce512.runW (s.toList ++ t) = r.toList ∧ r.Canon ∧
      r.val = (bytesVal32 t) % N := by
  obtain ⟨t0, l0, rfl, h0⟩ := list_succ ht
  obtain ⟨t1, l1, rfl, h1⟩ := list_succ h0
  obtain ⟨t2, l2, rfl, h2⟩ := list_succ h1
  obtain ⟨t3, l3, rfl, h3⟩ := list_succ h2
  obtain ⟨t4, l4, rfl, h4⟩ := list_succ h3
  obtain ⟨t5, l5, rfl, h5⟩ := list_succ h4
  obtain ⟨t6, l6, rfl, h6⟩ := list_succ h5
  obtain ⟨t7, l7, rfl, h7⟩ := list_succ h6
  obtain ⟨t8, l8, rfl, h8⟩ := list_succ h7
  obtain ⟨t9, l9, rfl, h9⟩ := list_succ h8
  obtain ⟨t10, l10, rfl, h10⟩ := list_succ h9
  obtain ⟨t11, l11, rfl, h11⟩ := list_succ h10
  obtain ⟨t12, l12, rfl, h12⟩ := list_succ h11
  obtain ⟨t13, l13, rfl, h13⟩ := list_succ h12
  obtain ⟨t14, l14, rfl, h14⟩ := list_succ h13
  obtain ⟨t15, l15, rfl, h15⟩ := list_succ h14
  obtain rfl : l15 = [] := List.length_eq_zero_iff.mp h15
  have bt0 : t0 < 2^32 := hlt t0 (by simp)
  have bt1 : t1 < 2^32 := hlt t1 (by simp)
  have bt2 : t2 < 2^32 := hlt t2 (by simp)
  have bt3 : t3 < 2^32 := hlt t3 (by simp)
  have bt4 : t4 < 2^32 := hlt t4 (by simp)
  have bt5 : t5 < 2^32 := hlt t5 (by simp)
  have bt6 : t6 < 2^32 := hlt t6 (by simp)
  have bt7 : t7 < 2^32 := hlt t7 (by simp)
  have bt8 : t8 < 2^32 := hlt t8 (by simp)
  have bt9 : t9 < 2^32 := hlt t9 (by simp)
  have bt10 : t10 < 2^32 := hlt t10 (by simp)
  have bt11 : t11 < 2^32 := hlt t11 (by simp)
  have bt12 : t12 < 2^32 := hlt t12 (by simp)
  have bt13 : t13 < 2^32 := hlt t13 (by simp)
  have bt14 : t14 < 2^32 := hlt t14 (by simp)
  have bt15 : t15 < 2^32 := hlt t15 (by simp)
  clear hlt h0 h1 h2 h3 h4 h5 h6 h7 h8 h9 h10 h11 h12 h13 h14
  rw [bv16] at *
  obtain ⟨o0, o1, o2, o3, o4, o5, o6, o7, hrun, hO, hlt', q, hq⟩ := reduce512_core t0 t1 t2 t3 t4 t5 t6 t7 t8 t9 t10 t11 t12 t13 t14 t15 bt0 bt1 bt2 bt3 bt4 bt5 bt6 bt7 bt8 bt9 bt10 bt11 bt12 bt13 bt14 bt15
  refine ⟨⟨o0, o1, o2, o3, o4, o5, o6, o7⟩, ?_, ⟨hO, hlt'⟩, mod_of_add_mul hq hlt'⟩
  exact (runW_prefix Scalar_reduce512 s.toList [0, 0, 0, 0, 0, 0, 0, 0] [t0, t1, t2, t3, t4, t5, t6, t7, t8, t9, t10, t11, t12, t13, t14, t15] reads512).trans hrun

set_option exponentiation.threshold 1024 in
theorem cols_eq (a0 a1 a2 a3 a4 a5 a6 a7 b0 b1 b2 b3 b4 b5 b6 b7 : Nat) :
    (a0 * b0) * 2^0
    + (a0 * b1 + a1 * b0) * 2^32
    + (a0 * b2 + a1 * b1 + a2 * b0) * 2^64
    + (a0 * b3 + a1 * b2 + a2 * b1 + a3 * b0) * 2^96
    + (a0 * b4 + a1 * b3 + a2 * b2 + a3 * b1 + a4 * b0) * 2^128
    + (a0 * b5 + a1 * b4 + a2 * b3 + a3 * b2 + a4 * b1 + a5 * b0) * 2^160
    + (a0 * b6 + a1 * b5 + a2 * b4 + a3 * b3 + a4 * b2 + a5 * b1 + a6 * b0) * 2^192
    + (a0 * b7 + a1 * b6 + a2 * b5 + a3 * b4 + a4 * b3 + a5 * b2 + a6 * b1 + a7 * b0) * 2^224
    + (a1 * b7 + a2 * b6 + a3 * b5 + a4 * b4 + a5 * b3 + a6 * b2 + a7 * b1) * 2^256
    + (a2 * b7 + a3 * b6 + a4 * b5 + a5 * b4 + a6 * b3 + a7 * b2) * 2^288
    + (a3 * b7 + a4 * b6 + a5 * b5 + a6 * b4 + a7 * b3) * 2^320
    + (a4 * b7 + a5 * b6 + a6 * b5 + a7 * b4) * 2^352
    + (a5 * b7 + a6 * b6 + a7 * b5) * 2^384
    + (a6 * b7 + a7 * b6) * 2^416
    + (a7 * b7) * 2^448
    = (a0 + a1 * 2^32 + a2 * 2^64 + a3 * 2^96 + a4 * 2^128 + a5 * 2^160 + a6 * 2^192 + a7 * 2^224) * (b0 + b1 * 2^32 + b2 * 2^64 + b3 * 2^96 + b4 * 2^128 + b5 * 2^160 + b6 * 2^192 + b7 * 2^224) := by
  ring

set_option maxRecDepth 100000 in
set_option exponentiation.threshold 1024 in
theorem comb_mul {p0 p1 p2 p3 p4 p5 p6 p7 p8 p9 p10 p11 p12 p13 p14 p15 c X : Nat}
    (MC : p0 + p1 * 2^32 + p2 * 2^64 + p3 * 2^96 + p4 * 2^128 + p5 * 2^160 + p6 * 2^192 + p7 * 2^224 + p8 * 2^256 + p9 * 2^288 + p10 * 2^320 + p11 * 2^352 + p12 * 2^384 + p13 * 2^416 + p14 * 2^448 + c * 2^480 = X) (e : p15 = c % 2^32) (hX : X < 2^512) :
    p0 + p1 * 2^32 + p2 * 2^64 + p3 * 2^96 + p4 * 2^128 + p5 * 2^160 + p6 * 2^192 + p7 * 2^224 + (p8 + p9 * 2^32 + p10 * 2^64 + p11 * 2^96 + p12 * 2^128 + p13 * 2^160 + p14 * 2^192 + p15 * 2^224) * 2^256 = X := by
  omega

theorem val8_lt (a0 a1 a2 a3 a4 a5 a6 a7 : Nat) (h0 : a0 < 2^32) (h1 : a1 < 2^32) (h2 : a2 < 2^32) (h3 : a3 < 2^32) (h4 : a4 < 2^32) (h5 : a5 < 2^32) (h6 : a6 < 2^32) (h7 : a7 < 2^32) :
    a0 + a1 * 2^32 + a2 * 2^64 + a3 * 2^96 + a4 * 2^128 + a5 * 2^160 + a6 * 2^192 + a7 * 2^224 < 2^256 := by
  omega

set_option exponentiation.threshold 1024 in
theorem prod_lt {x y : Nat} (hx : x < 2^256) (hy : y < 2^256) : x * y < 2^512 :=
  calc x * y < 2^256 * 2^256 := Nat.mul_lt_mul'' hx hy
    _ = 2^512 := by rw [← Nat.pow_add]

set_option maxHeartbeats 4000000 in
set_option maxRecDepth 100000 in
set_option exponentiation.threshold 1024 in
theorem mul2_core (a0 a1 a2 a3 a4 a5 a6 a7 b0 b1 b2 b3 b4 b5 b6 b7 : Nat)
    (ha0 : a0 < 2^32) (ha1 : a1 < 2^32) (ha2 : a2 < 2^32) (ha3 : a3 < 2^32) (ha4 : a4 < 2^32) (ha5 : a5 < 2^32) (ha6 : a6 < 2^32) (ha7 : a7 < 2^32)
    (hb0 : b0 < 2^32) (hb1 : b1 < 2^32) (hb2 : b2 < 2^32) (hb3 : b3 < 2^32) (hb4 : b4 < 2^32) (hb5 : b5 < 2^32) (hb6 : b6 < 2^32) (hb7 : b7 < 2^32) :
    ∃ o0 o1 o2 o3 o4 o5 o6 o7 : Nat, Scalar_Mul2.runW [0, 0, 0, 0, 0, 0, 0, 0, a0, a1, a2, a3, a4, a5, a6, a7, b0, b1, b2, b3, b4, b5, b6, b7] = [o0, o1, o2, o3, o4, o5, o6, o7] ∧
      (o0 < 2^32 ∧ o1 < 2^32 ∧ o2 < 2^32 ∧ o3 < 2^32 ∧ o4 < 2^32 ∧ o5 < 2^32 ∧ o6 < 2^32 ∧ o7 < 2^32) ∧
      o0 + o1 * 2^32 + o2 * 2^64 + o3 * 2^96 + o4 * 2^128 + o5 * 2^160 + o6 * 2^192 + o7 * 2^224 < 115792089237316195423570985008687907852837564279074904382605163141518161494337 ∧
      ∃ q, o0 + o1 * 2^32 + o2 * 2^64 + o3 * 2^96 + o4 * 2^128 + o5 * 2^160 + o6 * 2^192 + o7 * 2^224 + q * 115792089237316195423570985008687907852837564279074904382605163141518161494337 = (a0 + a1 * 2^32 + a2 * 2^64 + a3 * 2^96 + a4 * 2^128 + a5 * 2^160 + a6 * 2^192 + a7 * 2^224) * (b0 + b1 * 2^32 + b2 * 2^64 + b3 * 2^96 + b4 * 2^128 + b5 * 2^160 + b6 * 2^192 + b7 * 2^224) := by
  have hin : Within [0, 0, 0, 0, 0, 0, 0, 0, a0, a1, a2, a3, a4, a5, a6, a7, b0, b1, b2, b3, b4, b5, b6, b7] Scalar_Mul2_full_in := by
    simp only [Scalar_Mul2_full_in, Within, inIval, Nat.zero_le, Nat.le_refl, true_and, and_true]
    omega
  have h := kernel_steps Scalar_Mul2 _ _ _ _ hin Scalar_Mul2_full_mid_ok Scalar_Mul2_full_out_ok
  simp only [Scalar_Mul2, List.reverse_cons, List.reverse_nil, List.nil_append, List.cons_append] at h
  ir_steps h
  obtain ⟨-, hrun⟩ := h.out
  simp only [List.map, evalN, List.getD_cons_succ, List.getD_cons_zero] at hrun
  clear h hin
  have MC := mulcols a0 a1 a2 a3 a4 a5 a6 a7 b0 b1 b2 b3 b4 b5 b6 b7 v0 v1 v2 v3 v4 v5 v6 v7 v8 v9 v10 v11 v12 v13 v14 v15 v16 v17 v18 v19 v20 v21 v22 v23 v24 v25 v26 v27 v28 v29 v30 v31 v32 v33 v34 v35 v36 v37 v38 v39 v40 v41 v42 v43 v44 v45 v46 v47 v48 v49 v50 v51 v52 v53 v54 v55 v56 v57 v58 v59 v60 v61 v62 v63 v64 v65 v66 v67 v68 v69 v70 v71 v72 v73 v74 v75 v76 v77 v78 v79 v80 v81 v82 v83 v84 v85 v86 v87 v88 v89 v90 v91 v92 v93 e0 e1 e2 e3 e4 e5 e6 e7 e8 e9 e10 e11 e12 e13 e14 e15 e16 e17 e18 e19 e20 e21 e22 e23 e24 e25 e26 e27 e28 e29 e30 e31 e32 e33 e34 e35 e36 e37 e38 e39 e40 e41 e42 e43 e44 e45 e46 e47 e48 e49 e50 e51 e52 e53 e54 e55 e56 e57 e58 e59 e60 e61 e62 e63 e64 e65 e66 e67 e68 e69 e70 e71 e72 e73 e74 e75 e76 e77 e78 e79 e80 e81 e82 e83 e84 e85 e86 e87 e88 e89 e90 e91 e92 e93
  rw [cols_eq] at MC
  have hX := prod_lt (val8_lt a0 a1 a2 a3 a4 a5 a6 a7 ha0 ha1 ha2 ha3 ha4 ha5 ha6 ha7) (val8_lt b0 b1 b2 b3 b4 b5 b6 b7 hb0 hb1 hb2 hb3 hb4 hb5 hb6 hb7)
  have PX := comb_mul MC e94 hX
  have bp0 : v1 < 2^32 := by rw [e1]; exact Nat.mod_lt _ (by decide)
  have bp1 : v5 < 2^32 := by rw [e5]; exact Nat.mod_lt _ (by decide)
  have bp2 : v10 < 2^32 := by rw [e10]; exact Nat.mod_lt _ (by decide)
  have bp3 : v16 < 2^32 := by rw [e16]; exact Nat.mod_lt _ (by decide)
  have bp4 : v23 < 2^32 := by rw [e23]; exact Nat.mod_lt _ (by decide)
  have bp5 : v31 < 2^32 := by rw [e31]; exact Nat.mod_lt _ (by decide)
  have bp6 : v40 < 2^32 := by rw [e40]; exact Nat.mod_lt _ (by decide)
  have bp7 : v50 < 2^32 := by rw [e50]; exact Nat.mod_lt _ (by decide)
  have bp8 : v59 < 2^32 := by rw [e59]; exact Nat.mod_lt _ (by decide)
  have bp9 : v67 < 2^32 := by rw [e67]; exact Nat.mod_lt _ (by decide)
  have bp10 : v74 < 2^32 := by rw [e74]; exact Nat.mod_lt _ (by decide)
  have bp11 : v80 < 2^32 := by rw [e80]; exact Nat.mod_lt _ (by decide)
  have bp12 : v85 < 2^32 := by rw [e85]; exact Nat.mod_lt _ (by decide)
  have bp13 : v89 < 2^32 := by rw [e89]; exact Nat.mod_lt _ (by decide)
  have bp14 : v92 < 2^32 := by rw [e92]; exact Nat.mod_lt _ (by decide)
  have bp15 : v94 < 2^32 := by rw [e94]; exact Nat.mod_lt _ (by decide)
  obtain ⟨⟨bm0, bm1, bm2, bm3, bm4, bm5, bm6, bm7⟩, hb, FI⟩ := fold512 v1 v5 v10 v16 v23 v31 v40 v50 v59 v67 v74 v80 v85 v89 v92 v94 v95 v96 v97 v98 v99 v100 v101 v102 v103 v104 v105 v106 v107 v108 v109 v110 v111 v112 v113 v114 v115 v116 v117 v118 v119 v120 v121 v122 v123 v124 v125 v126 v127 v128 v129 v130 v131 v132 v133 v134 v135 v136 v137 v138 v139 v140 v141 v142 v143 v144 v145 v146 v147 v148 v149 v150 v151 v152 v153 v154 v155 v156 v157 v158 v159 v160 v161 v162 v163 v164 v165 v166 v167 bp0 bp1 bp2 bp3 bp4 bp5 bp6 bp7 bp8 bp9 bp10 bp11 bp12 bp13 bp14 bp15 e95 e96 e97 e98 e99 e100 e101 e102 e103 e104 e105 e106 e107 e108 e109 e110 e111 e112 e113 e114 e115 e116 e117 e118 e119 e120 e121 e122 e123 e124 e125 e126 e127 e128 e129 e130 e131 e132 e133 e134 e135 e136 e137 e138 e139 e140 e141 e142 e143 e144 e145 e146 e147 e148 e149 e150 e151 e152 e153 e154 e155 e156 e157 e158 e159 e160 e161 e162 e163 e164 e165 e166 e167
  obtain ⟨hO, hlt', hq⟩ := tail385 v97 v102 v108 v115 v123 v131 v139 v147 v153 v158 v162 v165 v167 v168 v169 v170 v171 v172 v173 v174 v175 v176 v177 v178 v179 v180 v181 v182 v183 v184 v185 v186 v187 v188 v189 v190 v191 v192 v193 v194 v195 v196 v197 v198 v199 v200 v201 v202 v203 v204 v205 v206 v207 v208 v209 v210 v211 v212 v213 v214 v215 v216 v217 v218 v219 v220 v221 v222 v223 v224 v225 v226 v227 v228 v229 v230 v231 v232 v233 v234 v235 v236 v237 v238 v239 v240 v241 v242 v243 v244 v245 v246 v247 v248 v249 v250 v251 v252 v253 v254 v255 v256 v257 v258 v259 v260 v261 v262 v263 v264 v265 v266 v267 bm0 bm1 bm2 bm3 bm4 bm5 bm6 bm7 hb e168 e169 e170 e171 e172 e173 e174 e175 e176 e177 e178 e179 e180 e181 e182 e183 e184 e185 e186 e187 e188 e189 e190 e191 e192 e193 e194 e195 e196 e197 e198 e199 e200 e201 e202 e203 e204 e205 e206 e207 e208 e209 e210 e211 e212 e213 e214 e215 e216 e217 e218 e219 e220 e221 e222 e223 e224 e225 e226 e227 e228 e229 e230 e231 e232 e233 e234 e235 e236 e237 e238 e239 e240 e241 e242 e243 e244 e245 e246 e247 e248 e249 e250 e251 e252 e253 e254 e255 e256 e257 e258 e259 e260 e261 e262 e263 e264 e265 e266 e267
  exact ⟨v253, v255, v257, v259, v261, v263, v265, v267, hrun, hO, hlt', _, (comb512 hq FI).trans PX⟩

set_option maxHeartbeats 4000000 in
set_option maxRecDepth 100000 in
set_option exponentiation.threshold 1024 in
theorem mul2_spec (s a b : L8) (ha : a.U32) (hb : b.U32) :
    ∃ r : L8, Scalar_Mul2.runW (s.toList ++ a.toList ++ b.toList) = r.toList ∧ r.Canon ∧
      r.val = (a.val * b.val) % N := by
  obtain ⟨a0, a1, a2, a3, a4, a5, a6, a7⟩ := a
  obtain ⟨b0, b1, b2, b3, b4, b5, b6, b7⟩ := b
  obtain ⟨ha0, ha1, ha2, ha3, ha4, ha5, ha6, ha7⟩ := ha
  obtain ⟨hb0, hb1, hb2, hb3, hb4, hb5, hb6, hb7⟩ := hb
  obtain ⟨o0, o1, o2, o3, o4, o5, o6, o7, hrun, hO, hlt', q, hq⟩ := mul2_core a0 a1 a2 a3 a4 a5 a6 a7 b0 b1 b2 b3 b4 b5 b6 b7 ha0 ha1 ha2 ha3 ha4 ha5 ha6 ha7 hb0 hb1 hb2 hb3 hb4 hb5 hb6 hb7
  refine ⟨⟨o0, o1, o2, o3, o4, o5, o6, o7⟩, ?_, ⟨hO, hlt'⟩, mod_of_add_mul hq hlt'⟩
  exact (runW_prefix Scalar_Mul2 s.toList [0, 0, 0, 0, 0, 0, 0, 0] [a0, a1, a2, a3, a4, a5, a6, a7, b0, b1, b2, b3, b4, b5, b6, b7] readsMul2).trans hrun

end Secp.Proofs.ScalarMul
