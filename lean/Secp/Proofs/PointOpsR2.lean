/-
  Proofs/PointOpsR2 — the third aliasing pattern of AddNonConst, result ≡ p2
  (Go: `AddNonConst(p1, p2, p2)`, entry "AddNonConst_a011"): it computes the affine group law of
  `Spec.Curve` on the points its Jacobian operands represent, preserves `Jac.WF`, and leaves the
  first operand untouched.
-/
import Secp.Proofs.PointOps
import Secp.Proofs.PointOpsR2AddG
import Secp.Proofs.PointOpsR2AddZ2
import Secp.Proofs.PointOpsR2AddZZ
import Secp.Proofs.PointOpsR2Add11
import Secp.Proofs.PointOpsR2Dispatch

namespace Secp.Proofs.PointOps
open Secp.Spec Secp.Model Secp.FOp Secp.Proofs

/-- the top-level run, from the answer of the call: all six registers -/
theorem runNamed_r2_of_callE {X1 Y1 Z1 X2 Y2 Z2 a b c d e g : Nat}
    (h : callE 8 2 [X1, Y1, Z1, X2, Y2, Z2] = some [a, b, c, d, e, g]) :
    ∃ regs ret, runNamed "AddNonConst_a011" [X1, Y1, Z1, X2, Y2, Z2] [] = some (regs, ret) ∧
      (rget regs 0, rget regs 1, rget regs 2) = (a, b, c) ∧
      (rget regs 3, rget regs 4, rget regs 5) = (d, e, g) := by
  obtain ⟨regs, ret, hrun, htake⟩ := runEntryC_of_callE h
  refine ⟨regs, ret, ?_, ?_, ?_⟩
  · unfold runNamed
    rw [idx_AddNonConst_a011]
    exact hrun
  all_goals
    simp only [List.length_cons, List.length_nil] at htake
    rw [rget_of_take htake _ (by norm_num), rget_of_take htake _ (by norm_num),
      rget_of_take htake _ (by norm_num)]
    rfl

theorem addNCr2_eq {X1 Y1 Z1 X2 Y2 Z2 a b c d e g : Nat}
    (h : callE 8 2 [X1, Y1, Z1, X2, Y2, Z2] = some [a, b, c, d, e, g]) :
    addNCr2 (X1, Y1, Z1) (X2, Y2, Z2) = (d, e, g) := by
  obtain ⟨regs, ret, hrun, _, h345⟩ := runNamed_r2_of_callE h
  unfold addNCr2
  simp only
  rw [hrun]
  exact h345

/-- the answer of the call `AddNonConst_a011` on well-formed operands: the first operand's
    registers are returned as they were, and the second operand's registers hold a correct sum -/
theorem addNCr2_call (q p : Jac) (hq : Jac.WF q) (hp : Jac.WF p) :
    ∃ r, callE 8 2 [q.1, q.2.1, q.2.2, p.1, p.2.1, p.2.2] =
        some [q.1, q.2.1, q.2.2, r.1, r.2.1, r.2.2] ∧ AddOK q p r := by
  have routine : ∀ {Pre : Nat → Nat → Prop} {k : Nat}
      (hA : AddContract Pre (RunR2 7 k) (DRunP 6))
      (hqf : isInfJ q = false) (hpf : isInfJ p = false) (hpre : Pre q.2.2 p.2.2)
      (hsel : (q.2.2 = 1 ∧ p.2.2 = 1 ∧ k = 14) ∨ (q.2.2 ≠ 1 ∧ q.2.2 = p.2.2 ∧ k = 17) ∨
        (q.2.2 ≠ 1 ∧ p.2.2 = 1 ∧ k = 20) ∨ (q.2.2 ≠ p.2.2 ∧ p.2.2 ≠ 1 ∧ k = 11)),
      ∃ r, callE 8 2 [q.1, q.2.1, q.2.2, p.1, p.2.1, p.2.2] =
        some [q.1, q.2.1, q.2.2, r.1, r.2.1, r.2.2] ∧ AddOK q p r := by
    intro Pre k hA hqf hpf hpre hsel
    obtain ⟨r, hrun, hok⟩ := add_of_contract hA (dblContractP 4) q p hq hp hqf hpf hpre
    obtain ⟨X1, Y1, Z1⟩ := q
    obtain ⟨X2, Y2, Z2⟩ := p
    obtain ⟨a, b, c⟩ := r
    exact ⟨(a, b, c), disp_r2_fin 7 X1 Y1 Z1 X2 Y2 Z2 k a b c hqf hpf hsel hrun, hok⟩
  cases hqf : isInfJ q with
  | true =>
    refine ⟨p, ?_, ?_⟩
    · obtain ⟨X1, Y1, Z1⟩ := q
      obtain ⟨X2, Y2, Z2⟩ := p
      exact disp_r2_qinf 7 X1 Y1 Z1 X2 Y2 Z2 hqf
    · unfold AddOK
      rw [toPt_of_inf hqf, Pt_add_none_left]
      exact ⟨hp, rfl⟩
  | false =>
    cases hpf : isInfJ p with
    | true =>
      refine ⟨q, ?_, ?_⟩
      · obtain ⟨X1, Y1, Z1⟩ := q
        obtain ⟨X2, Y2, Z2⟩ := p
        exact disp_r2_pinf 7 X1 Y1 Z1 X2 Y2 Z2 hqf hpf
      · unfold AddOK
        rw [toPt_of_inf hpf, Pt_add_none_right]
        exact ⟨hq, rfl⟩
    | false =>
      rcases select_cases q.2.2 p.2.2 with h | h | h | h
      · exact routine (addZ1AndZ2EqualsOne_a011_contract 6) hqf hpf ⟨h.1, h.2⟩
          (Or.inl ⟨h.1, h.2, rfl⟩)
      · exact routine (addZ1EqualsZ2_a011_contract 6) hqf hpf h.2
          (Or.inr (Or.inl ⟨h.1, h.2, rfl⟩))
      · exact routine (addZ2EqualsOne_a011_contract 6) hqf hpf h.2
          (Or.inr (Or.inr (Or.inl ⟨h.1, h.2, rfl⟩)))
      · exact routine (addGeneric_a011_contract 6) hqf hpf trivial
          (Or.inr (Or.inr (Or.inr ⟨h.1, h.2, rfl⟩)))

theorem pointOps_add_r2 : ∀ a b, Jac.WF a → Jac.WF b →
    Jac.WF (addNCr2 a b) ∧ Jac.toPt (addNCr2 a b) = Pt.add (Jac.toPt a) (Jac.toPt b) := by
  intro q p hq hp
  obtain ⟨r, hcall, hok⟩ := addNCr2_call q p hq hp
  obtain ⟨X1, Y1, Z1⟩ := q
  obtain ⟨X2, Y2, Z2⟩ := p
  obtain ⟨a, b, c⟩ := r
  rw [addNCr2_eq hcall]
  exact hok

/-- the first operand is left untouched -/
theorem addNCr2_preserves_a : ∀ a b, Jac.WF a → Jac.WF b →
    (match runNamed "AddNonConst_a011" [a.1, a.2.1, a.2.2, b.1, b.2.1, b.2.2] [] with
     | some (r, _) => (rget r 0, rget r 1, rget r 2) = a | none => False) := by
  intro q p hq hp
  obtain ⟨r, hcall, _⟩ := addNCr2_call q p hq hp
  obtain ⟨X1, Y1, Z1⟩ := q
  obtain ⟨X2, Y2, Z2⟩ := p
  obtain ⟨a, b, c⟩ := r
  obtain ⟨regs, ret, hrun, h012, _⟩ := runNamed_r2_of_callE hcall
  simp only
  rw [hrun]
  exact h012

end Secp.Proofs.PointOps
