/-
  Proofs/ScalarMultJac — small facts about Jacobian triples with Z = 1, the identity encoding,
  and scalar-multiple algebra of the executable specification, shared by the scalar-multiplication
  proofs.
-/
import Secp.Model.PointSpec
import Secp.Proofs.SpecGroup

namespace Secp.Proofs.ScalarMultJac
open Secp.Spec Secp.Model Secp.Proofs Secp.Proofs.SpecGroup

/-- the two facts about the point routines that the scalar-multiplication loops rely on
    (the `add` and `dbl` fields of `Secp.Model.PointOps`) -/
def PointOps' : Prop :=
  (∀ q p, Jac.WF q → Jac.WF p →
    Jac.WF (addNC q p) ∧ Jac.toPt (addNC q p) = Pt.add (Jac.toPt q) (Jac.toPt p)) ∧
  (∀ q, Jac.WF q → Jac.WF (dblNC q) ∧ Jac.toPt (dblNC q) = Pt.dbl (Jac.toPt q))

theorem one_lt_P : 1 < P := by decide +kernel
theorem one_mod_P : 1 % P = 1 := by decide +kernel
theorem finv_one : finv 1 = 1 := by decide +kernel
theorem fsq_one : fsq 1 = 1 := by decide +kernel
theorem fmul_one_one : fmul 1 1 = 1 := by decide +kernel
theorem fmul_one_right {x : Nat} (h : x < P) : fmul x 1 = x := by
  unfold fmul; rw [Nat.mul_one, Nat.mod_eq_of_lt h]

theorem WF_inf : Jac.WF Jac.inf :=
  ⟨P_pos, P_pos, P_pos, Or.inl rfl⟩

theorem toPt_inf : Jac.toPt Jac.inf = none := by
  unfold Jac.toPt Jac.inf
  simp

/-- (0, 0, 1) also encodes the identity -/
theorem WF_zero : Jac.WF (0, 0, 1) :=
  ⟨P_pos, P_pos, one_lt_P, Or.inl rfl⟩

theorem toPt_zero : Jac.toPt (0, 0, 1) = none := by
  unfold Jac.toPt
  simp

/-- an affine point of the curve as a Jacobian triple with Z = 1 -/
theorem affine_spec {x y : Nat} (h : Valid (some (x, y))) :
    Jac.WF (x, y, 1) ∧ Jac.toPt (x, y, 1) = some (x, y) := by
  constructor
  · refine ⟨h.1, h.2.1, one_lt_P, Or.inr ?_⟩
    show fsq y = fadd (fmul (fsq x) x) (fmul 7 (fmul (fsq (fmul (fsq 1) 1)) 1))
    apply eq_of_cast_eq_P (fsq_lt _) (fadd_lt _ _)
    simp only [fsq_cast, fadd_cast, fmul_cast, Nat.cast_one, Nat.cast_ofNat]
    have hc := (curve_cast x y).1 h.2.2
    linear_combination hc
  · unfold Jac.toPt
    have hy := h.y_mod_ne
    have h1 : ¬ ((1 : Nat) % P = 0 ∨ (x % P = 0 ∧ y % P = 0)) := by
      rw [one_mod_P]
      rintro (h0 | ⟨_, h0⟩)
      · exact absurd h0 (by decide)
      · exact hy h0
    simp only [if_neg h1, finv_one, fsq_one, fmul_one_one, fmul_one_right h.1, fmul_one_right h.2.1]

/-! ### multiples -/

theorem smul_zero' (p : Pt) : smul 0 p = none := by
  unfold smul smulAux
  simp

theorem add_smul_smul {p : Pt} (hp : Valid p) (a b : Nat) :
    Pt.add (smul a p) (smul b p) = smul (a + b) p := by
  apply toE_injective_on_valid (valid_add (valid_smul _ hp) (valid_smul _ hp)) (valid_smul _ hp)
  rw [toE_add (valid_smul _ hp) (valid_smul _ hp), toE_smul _ hp, toE_smul _ hp, toE_smul _ hp,
    add_nsmul]

end Secp.Proofs.ScalarMultJac
