import Secp.Model.PubKey
import Secp.Spec.Sec1
namespace Secp.Model
open Secp.Spec

/-- the rule really violated, per error kind of `parsePubKey` -/
def PubViolates (b : Bytes) : PubErr → Prop
  | .ErrPubKeyInvalidLen => b.length ≠ 33 ∧ b.length ≠ 65
  | .ErrPubKeyInvalidFormat =>
      (b.length = 65 ∧ b[0]? ≠ some 0x04 ∧ b[0]? ≠ some 0x06 ∧ b[0]? ≠ some 0x07) ∨
      (b.length = 33 ∧ b[0]? ≠ some 0x02 ∧ b[0]? ≠ some 0x03)
  | .ErrPubKeyXTooBig => beNat ((b.take 33).drop 1) ≥ P
  | .ErrPubKeyYTooBig => b.length = 65 ∧ beNat (b.drop 33) ≥ P
  | .ErrPubKeyMismatchedOddness =>
      b.length = 65 ∧ ((b[0]? = some 0x06 ∧ beNat (b.drop 33) % 2 = 1) ∨ (b[0]? = some 0x07 ∧ beNat (b.drop 33) % 2 = 0))
  | .ErrPubKeyNotOnCurve =>
      (b.length = 65 ∧ ¬ OnCurve (beNat ((b.take 33).drop 1)) (beNat (b.drop 33))) ∨
      (b.length = 33 ∧ ¬ ∃ y, OnCurve (beNat ((b.take 33).drop 1)) y)
  | _ => False

end Secp.Model
