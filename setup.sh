#!/bin/sh
# One-time build after a fresh restore (offline): translator, generated Lean, all proofs, driver, harness.
set -e
cd "$(dirname "$0")"
export GOFLAGS=-mod=mod GOPROXY=off GOSUMDB=off GOTOOLCHAIN=local CGO_ENABLED=0
mkdir -p .work lean/Secp/Gen evidence replays
( cd tools/gotr && go build -o ../../.work/gotr . )
rm -rf .work/gen.setup && mkdir -p .work/gen.setup
./.work/gotr -repo "${VERIF_REPO:-/repo}" -out .work/gen.setup
for f in .work/gen.setup/*; do
  b=$(basename "$f")
  cmp -s "$f" "lean/Secp/Gen/$b" || cp "$f" "lean/Secp/Gen/$b"
done
rm -rf .work/gen.setup
( cd lean && lake build Secp.Core.KernelSpecs && lake env lean --run Secp/Core/GenBounds.lean > ../.work/Bounds.lean.new && { cmp -s ../.work/Bounds.lean.new Secp/Gen/Bounds.lean || cp ../.work/Bounds.lean.new Secp/Gen/Bounds.lean; } && rm -f ../.work/Bounds.lean.new )
( cd lean && lake build Secp secpdriver )
# warm the Go build cache for the harness
rm -rf .work/hsetup && mkdir -p .work/hsetup && cp harness/*.go harness/go.mod .work/hsetup/ && cp "${VERIF_REPO:-/repo}/go.sum" .work/hsetup/
( cd .work/hsetup && go build -tags verif -o ../harness.setup . ) && rm -rf .work/hsetup .work/harness.setup
echo setup-ok
