import Secp.Gen.Formulas
import Secp.Gen.Slices
/-
  Proofs/Slices — how the contracts used by the sliced programs (Gen/Slices, pass T2s) are justified.

  A contract names either a completely extracted T2 entry (AddNonConst and its aliasing variants,
  DoubleNonConst, Inverse, SquareRootVal: `Gen.Formulas`) or a sliced entry (ScalarMultNonConst,
  ScalarBaseMultNonConst: `Gen.Slices`).  `justifiedBy` re-runs the abstract interpreter on ALL paths
  of that entry from the contract's precondition and checks that every path is accepted and ends
  with the promised abstract values.
-/
namespace Secp.Proofs.Slices
open Secp.FOp

def justifiedBy (cs : List Contract) (c : Contract) : Bool :=
  match Secp.Gen.Formulas.allEntries.find? (fun e => e.name == c.name) with
  | some e => e.absPost c.σ0 c.post
  | none =>
    match Secp.Gen.Slices.allSlices.find? (fun e => e.name == c.name) with
    | some e => (e.σ0.take c.pre.length == c.σ0) && e.post cs c.post
    | none => false

/-- the sliced program of one function passes the abstract interpreter (used by the property files of the
    functions' own properties: C01 sign, C02 Verify, C07 RecoverPublicKey, C08 ParsePubKey, …) -/
def entryOK (n : String) : Bool :=
  match Secp.Gen.Slices.allSlices.find? (fun e => e.name == n) with
  | some e => e.ok Secp.Gen.Slices.contracts
  | none => false

def entriesOK (ns : List String) : Bool := ns.all entryOK

/-- diagnostics: every failing (entry, path, item) of the sliced programs -/
def allFailures : List (String × Nat × Nat) :=
  Secp.Gen.Slices.allSlices.flatMap (SEntry.failures Secp.Gen.Slices.contracts)

def unjustified : List String :=
  (Secp.Gen.Slices.contracts.filter fun c => !justifiedBy Secp.Gen.Slices.contracts c).map (·.name)

end Secp.Proofs.Slices
