import Secp.Gen.FieldIR
import Secp.Gen.ScalarIR
/-
  Core/KernelSpecs — the input contracts under which each generated kernel is
  analysed by the interval checker (`Secp.IR.bnd`).  Hand-written; the bounds
  that the analysis derives from them are regenerated into Gen/Bounds.lean.
-/
namespace Secp.KernelSpecs
open Secp.IR Secp.Gen

/-- per-limb slack bound of "magnitude m" (DESIGN §4): closed under every field operation -/
def LB : Nat := 2 ^ 26 + 2 ^ 20
def LB9 : Nat := 2 ^ 22

def mag (m : Nat) : List Ival := List.replicate 9 (0, m * LB) ++ [(0, m * LB9)]
def full (n w : Nat) : List Ival := List.replicate n (0, 2 ^ w - 1)
def norm10 : List Ival := List.replicate 9 (0, 2 ^ 26 - 1) ++ [(0, 2 ^ 22 - 1)]

/-- (name, kernel, input bounds) -/
def specs : List (String × Kernel × List Ival) := [
  ("Field_Mul2_m8", Field_Mul2, full 10 32 ++ mag 8 ++ mag 8),
  ("Field_SquareVal_m8", Field_SquareVal, full 10 32 ++ mag 8),
  ("Field_Normalize_full", Field_Normalize, full 10 32),
  ("Field_SetBytes_full", Field_SetBytes, full 10 32 ++ full 32 8),
  ("Field_PutBytesUnchecked_norm", Field_PutBytesUnchecked, norm10 ++ full 32 8),
  ("Field_IsGtOrEqPrimeMinusOrder_norm", Field_IsGtOrEqPrimeMinusOrder, norm10),
  ("Scalar_overflows_full", Scalar_overflows, full 8 32),
  ("Scalar_reduce256_full", Scalar_reduce256, full 8 32 ++ [(0, 1)]),
  ("Scalar_SetBytes_full", Scalar_SetBytes, full 8 32 ++ full 32 8),
  ("Scalar_PutBytesUnchecked_full", Scalar_PutBytesUnchecked, full 8 32 ++ full 32 8),
  ("Scalar_Add2_full", Scalar_Add2, full 24 32),
  ("Scalar_reduce385_w32", Scalar_reduce385, full 8 32 ++ full 13 32),
  ("Scalar_reduce512_w32", Scalar_reduce512, full 8 32 ++ full 16 32),
  ("Scalar_Mul2_full", Scalar_Mul2, full 24 32),
  ("Scalar_NegateVal_full", Scalar_NegateVal, full 16 32),
  ("Scalar_IsOverHalfOrder_full", Scalar_IsOverHalfOrder, full 8 32),
  ("Scalar_mul512Rsh320Round_full", Scalar_mul512Rsh320Round, full 16 32)
]

end Secp.KernelSpecs
