import Secp.Gen.BytesBuild
/-
  Proofs/BytesBuild — the serialisers regenerated from the Go source (`Secp/Gen/BytesBuild.lean`,
  pass T7 "builders") equal the hand-written models.  Core only.

  The generated text is a chain of `let`s over `Bytes = List UInt8`: buffers are created with
  `List.replicate`, single bytes are stored with `List.set`, windows are overwritten with
  `putBytes`.  The proofs below do not depend on the names of the temporaries or on the number
  of `let`s: the definitions are unfolded, `putBytes` is replaced by its `take ++ src ++ drop`
  form (`putBytes_eq`, needs only that the source fills the window exactly) and the resulting
  `take`/`drop`/`set` of `replicate`/`++` terms are normalised by general list lemmas.
-/
namespace Secp.Proofs.BytesBuild
open Secp.Spec Secp.Model Secp.Gen.BytesBuild

/-! ### big-endian bytes -/

theorem beBytes_length (len n : Nat) : (beBytes len n).length = len := by
  induction len generalizing n with
  | zero => rfl
  | succ k ih => simp [beBytes, ih]

/-- `be32 v` has 32 bytes for every `v` (the value is taken mod 2^256), so no bound is needed -/
@[simp] theorem be32_length (v : Nat) : (be32 v).length = 32 := beBytes_length 32 v

/-! ### `putBytes`, `List.set 0` on fresh buffers -/

/-- a source that fills the window exactly is copied whole -/
theorem putBytes_eq (b src : Bytes) (lo hi : Nat) (h : src.length = hi - lo) :
    putBytes b lo hi src = b.take lo ++ src ++ b.drop hi := by
  unfold putBytes
  rw [List.take_of_length_le (Nat.le_of_eq h)]

/-- overwriting the window [lo, hi) of a fresh buffer -/
theorem putBytes_replicate (n lo hi : Nat) (z : UInt8) (src : Bytes)
    (h : src.length = hi - lo) (hlo : lo ≤ n) :
    putBytes (List.replicate n z) lo hi src
      = List.replicate lo z ++ src ++ List.replicate (n - hi) z := by
  rw [putBytes_eq _ _ _ _ h, List.take_replicate, List.drop_replicate, Nat.min_eq_left hlo]

/-- overwriting a window that is exactly one segment of the buffer -/
theorem putBytes_window (pre mid post src : Bytes) (lo hi : Nat)
    (hpre : pre.length = lo) (hmid : mid.length = hi - lo) (hsrc : src.length = hi - lo)
    (hle : lo ≤ hi) :
    putBytes (pre ++ mid ++ post) lo hi src = pre ++ src ++ post := by
  rw [putBytes_eq _ _ _ _ hsrc, List.append_assoc pre mid post, List.take_left' hpre]
  have h2 : (pre ++ (mid ++ post)).drop hi = post := by
    rw [← List.append_assoc]
    exact List.drop_left' (by rw [List.length_append, hpre, hmid]; omega)
  rw [h2]

/-- `b[0] = a` on a fresh non-empty buffer -/
theorem set_zero_replicate (n : Nat) (z a : UInt8) (hn : 0 < n) :
    (List.replicate n z).set 0 a = a :: List.replicate (n - 1) z := by
  cases n with
  | zero => omega
  | succ k => rfl

/-- the first byte of `b.set 0 a` is `a`, the rest is the rest of `b` -/
theorem set_zero_eq (b : Bytes) (a : UInt8) (hb : b ≠ []) : b.set 0 a = a :: b.drop 1 := by
  cases b with
  | nil => exact absurd rfl hb
  | cons x xs => rfl

/-! ### the four serialisers -/

/-- the 33-byte scratch buffer `0x00 ‖ be32 v` of `Signature.Serialize`, canonicalised -/
theorem canonLoop_buf (v : Nat) :
    canonLoop (putBytes (List.replicate 33 0) 1 33 (be32 v)) = canonInt v := by
  rw [putBytes_replicate 33 1 33 0 (be32 v) (be32_length v) (by decide)]
  have h : List.replicate 1 (0 : UInt8) ++ be32 v ++ List.replicate (33 - 33) 0
      = (0 : UInt8) :: be32 v := by
    simp only [Nat.sub_self, List.replicate_zero, List.append_nil, List.replicate_one,
      List.singleton_append]
  rw [h, canonInt]

/-- Go's `ModNScalar.Negate` is `(N - s) % N`; on a reduced, high `s` this is `N - s` -/
theorem negate_high (s : Nat) (hs : s < N) (hh : s > halfN) : (N - s) % N = N - s :=
  Nat.mod_eq_of_lt (by omega)

/-- the low-s selection of the Go code equals that of the model on reduced scalars -/
theorem lowS_eq (s : Nat) (hs : s < N) :
    (if decide (s > halfN) = true then (N - s) % N else s) = (if s > halfN then N - s else s) := by
  by_cases hh : s > halfN
  · rw [if_pos (decide_eq_true hh), if_pos hh, negate_high s hs hh]
  · rw [if_neg (by simpa using hh), if_neg hh]

/-- the sequence length byte: `totalLen - 2` with `totalLen = 6 + |R| + |S|` -/
theorem totalLen_sub (a b : Nat) : 6 + a + b - 2 = 4 + a + b := by omega

theorem serializeDER_gen_eq_model (r s : Nat) (hs : s < Secp.Spec.N) :
    Secp.Gen.BytesBuild.serializeDER r s = Secp.Model.serializeDER r s := by
  unfold Secp.Gen.BytesBuild.serializeDER Secp.Model.serializeDER
  simp only [lowS_eq s hs, canonLoop_buf, totalLen_sub, List.nil_append, List.append_assoc,
    List.cons_append]

theorem serializeCompressed_gen_eq_model (x y : Nat) :
    Secp.Gen.BytesBuild.serializeCompressed x y = Secp.Model.serializeCompressed x y := by
  unfold Secp.Gen.BytesBuild.serializeCompressed Secp.Model.serializeCompressed
  simp [putBytes_eq]

theorem serializeUncompressed_gen_eq_model (x y : Nat) :
    Secp.Gen.BytesBuild.serializeUncompressed x y = Secp.Model.serializeUncompressed x y := by
  unfold Secp.Gen.BytesBuild.serializeUncompressed Secp.Model.serializeUncompressed
  simp [putBytes_eq]

theorem schnorrSerialize_gen_eq_model (r s : Nat) :
    Secp.Gen.BytesBuild.schnorrSerialize r s = Secp.Model.schnorrSerialize r s := by
  unfold Secp.Gen.BytesBuild.schnorrSerialize Secp.Model.schnorrSerialize
  simp [putBytes_eq]

end Secp.Proofs.BytesBuild
