/-
  Proofs/FieldBridge — the executable `Nat` arithmetic of `Spec/Field` computes in
  `ZMod P` / `ZMod N`; square roots (P ≡ 3 mod 4), `-7` is not a cube mod P, and
  the numeric relations between P and N.
-/
import Secp.Proofs.Primes
import Mathlib.FieldTheory.Finite.Basic
import Mathlib.NumberTheory.LegendreSymbol.Basic

namespace Secp.Proofs
open Secp.Spec

/-! ### numeric facts -/

theorem P_pos : 0 < P := by decide +kernel
theorem N_pos : 0 < N := by decide +kernel
theorem two_lt_P : 2 < P := by decide +kernel
theorem two_lt_N : 2 < N := by decide +kernel
theorem two_P_lt : 2 * P + 1 < 3 * N := by decide +kernel
theorem P_lt_two_N : P < 2 * N := by decide +kernel
theorem N_lt_P : N < P := by decide +kernel
/-- P ≡ 3 (mod 4) -/
theorem P_mod_four : P % 4 = 3 := by decide +kernel
/-- P ≡ 1 (mod 3) -/
theorem P_mod_three : P % 3 = 1 := by decide +kernel

/-! ### generic bridge lemmas -/

theorem powMod_lt (b e : Nat) {m : Nat} (hm : 0 < m) : powMod b e m < m := by
  rw [powMod_eq]; exact Nat.mod_lt _ hm

theorem cast_powMod (a k p : Nat) : ((powMod a k p : Nat) : ZMod p) = (a : ZMod p) ^ k := by
  rw [powMod_eq, ZMod.natCast_mod, Nat.cast_pow]

/-- Fermat inverse in `ZMod p`, including `0 ↦ 0` (needs `p ≠ 2`). -/
theorem zmod_pow_sub_two {p : Nat} [Fact p.Prime] (hp : 2 < p) (x : ZMod p) :
    x ^ (p - 2) = x⁻¹ := by
  by_cases hx : x = 0
  · subst hx
    rw [inv_zero, zero_pow (by omega)]
  · apply eq_inv_of_mul_eq_one_left
    rw [← pow_succ]
    have h : p - 2 + 1 = p - 1 := by omega
    rw [h]
    exact ZMod.pow_card_sub_one_eq_one hx

theorem cast_add_mod (a b p : Nat) : (((a + b) % p : Nat) : ZMod p) = (a : ZMod p) + b := by
  rw [ZMod.natCast_mod, Nat.cast_add]

theorem cast_mul_mod (a b p : Nat) : (((a * b) % p : Nat) : ZMod p) = (a : ZMod p) * b := by
  rw [ZMod.natCast_mod, Nat.cast_mul]

theorem cast_sub_mod_self (b : Nat) {p : Nat} (hp : 0 < p) :
    ((p - b % p : Nat) : ZMod p) = -(b : ZMod p) := by
  rw [Nat.cast_sub (Nat.mod_lt _ hp).le, ZMod.natCast_self, ZMod.natCast_mod, zero_sub]

theorem cast_neg_mod (a : Nat) {p : Nat} (hp : 0 < p) :
    (((p - a % p) % p : Nat) : ZMod p) = -(a : ZMod p) := by
  rw [ZMod.natCast_mod, cast_sub_mod_self a hp]

theorem cast_sub_mod (a b : Nat) {p : Nat} (hp : 0 < p) :
    (((a + (p - b % p)) % p : Nat) : ZMod p) = (a : ZMod p) - b := by
  rw [ZMod.natCast_mod, Nat.cast_add, cast_sub_mod_self b hp, sub_eq_add_neg]

/-! ### field `ZMod P` -/

theorem fadd_cast (a b : Nat) : ((fadd a b : Nat) : ZMod P) = (a : ZMod P) + (b : ZMod P) :=
  cast_add_mod a b P
theorem fsub_cast (a b : Nat) : ((fsub a b : Nat) : ZMod P) = (a : ZMod P) - (b : ZMod P) :=
  cast_sub_mod a b P_pos
theorem fneg_cast (a : Nat) : ((fneg a : Nat) : ZMod P) = -(a : ZMod P) :=
  cast_neg_mod a P_pos
theorem fmul_cast (a b : Nat) : ((fmul a b : Nat) : ZMod P) = (a : ZMod P) * (b : ZMod P) :=
  cast_mul_mod a b P
theorem fsq_cast (a : Nat) : ((fsq a : Nat) : ZMod P) = (a : ZMod P) * (a : ZMod P) :=
  cast_mul_mod a a P
theorem fsq_cast_pow (a : Nat) : ((fsq a : Nat) : ZMod P) = (a : ZMod P) ^ 2 := by
  rw [fsq_cast, pow_two]
theorem finv_cast (a : Nat) : ((finv a : Nat) : ZMod P) = (a : ZMod P)⁻¹ := by
  unfold finv
  rw [cast_powMod, zmod_pow_sub_two two_lt_P]
theorem fsqrtCand_cast (a : Nat) :
    ((fsqrtCand a : Nat) : ZMod P) = (a : ZMod P) ^ ((P + 1) / 4) := by
  unfold fsqrtCand
  rw [cast_powMod]

theorem fadd_lt (a b : Nat) : fadd a b < P := Nat.mod_lt _ P_pos
theorem fsub_lt (a b : Nat) : fsub a b < P := Nat.mod_lt _ P_pos
theorem fneg_lt (a : Nat) : fneg a < P := Nat.mod_lt _ P_pos
theorem fmul_lt (a b : Nat) : fmul a b < P := Nat.mod_lt _ P_pos
theorem fsq_lt (a : Nat) : fsq a < P := Nat.mod_lt _ P_pos
theorem finv_lt (a : Nat) : finv a < P := powMod_lt _ _ P_pos
theorem fsqrtCand_lt (a : Nat) : fsqrtCand a < P := powMod_lt _ _ P_pos

/-- Two naturals are congruent mod P iff equal in `ZMod P`. -/
theorem mod_P_eq_iff (a b : Nat) : a % P = b % P ↔ (a : ZMod P) = (b : ZMod P) :=
  (ZMod.natCast_eq_natCast_iff' a b P).symm

/-- Values below P are determined by their image in `ZMod P`. -/
theorem eq_of_cast_eq_P {a b : Nat} (ha : a < P) (hb : b < P)
    (h : (a : ZMod P) = (b : ZMod P)) : a = b := by
  have := (mod_P_eq_iff a b).2 h
  rwa [Nat.mod_eq_of_lt ha, Nat.mod_eq_of_lt hb] at this

/-! ### scalars `ZMod N` -/

theorem nadd_cast (a b : Nat) : ((nadd a b : Nat) : ZMod N) = (a : ZMod N) + (b : ZMod N) :=
  cast_add_mod a b N
theorem nneg_cast (a : Nat) : ((nneg a : Nat) : ZMod N) = -(a : ZMod N) :=
  cast_neg_mod a N_pos
theorem nmul_cast (a b : Nat) : ((nmul a b : Nat) : ZMod N) = (a : ZMod N) * (b : ZMod N) :=
  cast_mul_mod a b N
theorem ninv_cast (a : Nat) : ((ninv a : Nat) : ZMod N) = (a : ZMod N)⁻¹ := by
  unfold ninv
  rw [cast_powMod, zmod_pow_sub_two two_lt_N]

theorem nadd_lt (a b : Nat) : nadd a b < N := Nat.mod_lt _ N_pos
theorem nneg_lt (a : Nat) : nneg a < N := Nat.mod_lt _ N_pos
theorem nmul_lt (a b : Nat) : nmul a b < N := Nat.mod_lt _ N_pos
theorem ninv_lt (a : Nat) : ninv a < N := powMod_lt _ _ N_pos

theorem mod_N_eq_iff (a b : Nat) : a % N = b % N ↔ (a : ZMod N) = (b : ZMod N) :=
  (ZMod.natCast_eq_natCast_iff' a b N).symm

theorem eq_of_cast_eq_N {a b : Nat} (ha : a < N) (hb : b < N)
    (h : (a : ZMod N) = (b : ZMod N)) : a = b := by
  have := (mod_N_eq_iff a b).2 h
  rwa [Nat.mod_eq_of_lt ha, Nat.mod_eq_of_lt hb] at this

/-! ### square roots (P ≡ 3 mod 4) -/

theorem sqrt_exp_double : (P + 1) / 4 + (P + 1) / 4 = P / 2 + 1 := by decide +kernel
theorem sqrt_exp_ne_zero : (P + 1) / 4 ≠ 0 := by decide +kernel

/-- In `ZMod P`, `x^((P+1)/4)` squares to `x` exactly when `x` is a square. -/
theorem zmod_sqrtCand_spec (x : ZMod P) :
    x ^ ((P + 1) / 4) * x ^ ((P + 1) / 4) = x ↔ IsSquare x := by
  constructor
  · intro h
    exact ⟨x ^ ((P + 1) / 4), h.symm⟩
  · intro h
    by_cases hx : x = 0
    · subst hx
      rw [zero_pow sqrt_exp_ne_zero, mul_zero]
    · have he : x ^ (P / 2) = 1 := (ZMod.euler_criterion P hx).1 h
      rw [← pow_add, sqrt_exp_double, pow_succ, he, one_mul]

theorem fsqrtCand_spec (a : Nat) :
    fsq (fsqrtCand a) = a % P ↔ IsSquare ((a : Nat) : ZMod P) := by
  rw [← zmod_sqrtCand_spec, ← fsqrtCand_cast, ← Nat.cast_mul]
  unfold fsq
  exact mod_P_eq_iff _ _

theorem fsqrt_some {a r : Nat} (h : fsqrt a = some r) : r < P ∧ (r * r) % P = a % P := by
  unfold fsqrt at h
  simp only at h
  split at h
  · rename_i hc
    have hr : fsqrtCand a = r := Option.some.inj h
    subst hr
    exact ⟨fsqrtCand_lt a, hc⟩
  · exact absurd h (by simp)

theorem fsqrt_none {a : Nat} (h : fsqrt a = none) : ¬ ∃ y : Nat, (y * y) % P = a % P := by
  unfold fsqrt at h
  simp only at h
  split at h
  · exact absurd h (by simp)
  · rename_i hc
    rintro ⟨y, hy⟩
    apply hc
    rw [fsqrtCand_spec]
    refine ⟨(y : ZMod P), ?_⟩
    rw [← Nat.cast_mul]
    exact ((mod_P_eq_iff _ _).1 hy).symm

/-- `fsqrt` succeeds exactly on the squares. -/
theorem fsqrt_isSome_iff (a : Nat) : (fsqrt a).isSome ↔ IsSquare ((a : Nat) : ZMod P) := by
  rw [← fsqrtCand_spec]
  unfold fsqrt
  simp only
  split <;> simp_all

/-! ### `-7` is not a cube modulo P  (so `y = 0` is impossible on `y² = x³ + 7`) -/

theorem neg7_pow_ne_one : powMod (P - 7) ((P - 1) / 3) P ≠ 1 := by decide +kernel
theorem three_mul_exp : 3 * ((P - 1) / 3) = P - 1 := by decide +kernel
theorem P_not_dvd_sub7 : ¬ P ∣ P - 7 := by decide +kernel
theorem seven_le_P : 7 ≤ P := by decide +kernel
theorem P_ne_one : P ≠ 1 := by decide +kernel

theorem cast_P_sub_seven : ((P - 7 : Nat) : ZMod P) = -7 := by
  rw [Nat.cast_sub seven_le_P, ZMod.natCast_self, zero_sub]
  norm_num

theorem neg7_ne_zero : (-7 : ZMod P) ≠ 0 := by
  rw [← cast_P_sub_seven, Ne, ZMod.natCast_eq_zero_iff]
  exact P_not_dvd_sub7

theorem neg7_not_cube : ¬ ∃ x : ZMod P, x ^ 3 = -7 := by
  rintro ⟨x, hx⟩
  have hx0 : x ≠ 0 := by
    rintro rfl
    rw [zero_pow (by norm_num)] at hx
    exact neg7_ne_zero hx.symm
  have h1 : (-7 : ZMod P) ^ ((P - 1) / 3) = 1 := by
    rw [← hx, ← pow_mul, three_mul_exp]
    exact ZMod.pow_card_sub_one_eq_one hx0
  rw [← cast_P_sub_seven, zmod_pow_eq_one_iff P_ne_one] at h1
  exact neg7_pow_ne_one h1

end Secp.Proofs
