import Secp.Model.DerRules
import Secp.Spec.Der
/-
  Proofs/Der — helper lemmas for Props/C09 (DER codec).
-/
namespace Secp.Proofs.Der
open Secp.Spec Secp.Model

/-! ### beNat -/

theorem foldl_acc (b : Bytes) (acc : Nat) :
    b.foldl (fun acc (x : UInt8) => acc * 256 + x.toNat) acc
      = acc * 256 ^ b.length + b.foldl (fun acc (x : UInt8) => acc * 256 + x.toNat) 0 := by
  induction b generalizing acc with
  | nil => simp
  | cons x xs ih =>
    simp only [List.foldl_cons, List.length_cons]
    rw [ih (acc * 256 + x.toNat), ih (0 * 256 + x.toNat)]
    simp only [Nat.zero_mul, Nat.zero_add, Nat.pow_succ, Nat.add_mul]
    rw [Nat.mul_assoc, Nat.mul_comm 256, Nat.add_assoc]

theorem beNat_nil : beNat [] = 0 := rfl

theorem beNat_cons (x : UInt8) (xs : Bytes) :
    beNat (x :: xs) = x.toNat * 256 ^ xs.length + beNat xs := by
  unfold beNat
  rw [List.foldl_cons, foldl_acc]
  simp

theorem beNat_append (a b : Bytes) :
    beNat (a ++ b) = beNat a * 256 ^ b.length + beNat b := by
  unfold beNat
  rw [List.foldl_append, foldl_acc]

theorem beNat_snoc (a : Bytes) (x : UInt8) : beNat (a ++ [x]) = beNat a * 256 + x.toNat := by
  rw [beNat_append, beNat_cons]; simp [beNat_nil]

theorem beNat_lt (b : Bytes) : beNat b < 256 ^ b.length := by
  induction b with
  | nil => simp [beNat_nil]
  | cons x xs ih =>
    rw [beNat_cons, List.length_cons, Nat.pow_succ]
    have hx : x.toNat < 256 := x.toNat_lt
    have : x.toNat * 256 ^ xs.length ≤ 255 * 256 ^ xs.length := Nat.mul_le_mul_right _ (by omega)
    omega

theorem beNat_zero_cons (xs : Bytes) : beNat ((0 : UInt8) :: xs) = beNat xs := by
  rw [beNat_cons]; simp

theorem beNat_stripZeros (b : Bytes) : beNat (stripZeros b) = beNat b := by
  induction b with
  | nil => rfl
  | cons x xs ih =>
    unfold stripZeros
    split
    · rename_i h; subst h; rw [ih, beNat_zero_cons]
    · rfl

theorem stripZeros_length_le (b : Bytes) : (stripZeros b).length ≤ b.length := by
  induction b with
  | nil => simp [stripZeros]
  | cons x xs ih =>
    unfold stripZeros
    split
    · simp; omega
    · simp

/-- a byte string whose first byte is non-zero -/
theorem beNat_ge_of_head_ne (x : UInt8) (xs : Bytes) (hx : x ≠ 0) :
    256 ^ xs.length ≤ beNat (x :: xs) := by
  rw [beNat_cons]
  have : x.toNat ≠ 0 := by
    intro h; apply hx; exact UInt8.toNat_inj.1 (by simpa using h)
  have : 1 * 256 ^ xs.length ≤ x.toNat * 256 ^ xs.length := Nat.mul_le_mul_right _ (by omega)
  omega

theorem stripZeros_head (b : Bytes) : stripZeros b = [] ∨ ∃ x xs, stripZeros b = x :: xs ∧ x ≠ 0 := by
  induction b with
  | nil => left; rfl
  | cons x xs ih =>
    unfold stripZeros
    split
    · exact ih
    · right; exact ⟨x, xs, rfl, by assumption⟩

theorem stripZeros_of_head_ne (x : UInt8) (xs : Bytes) (hx : x ≠ 0) : stripZeros (x :: xs) = x :: xs := by
  unfold stripZeros; simp [hx]

theorem stripZeros_zero_cons (xs : Bytes) : stripZeros ((0 : UInt8) :: xs) = stripZeros xs := by
  rw [stripZeros]; simp

theorem stripZeros_idem (b : Bytes) : stripZeros (stripZeros b) = stripZeros b := by
  rcases stripZeros_head b with h | ⟨x, xs, h, hx⟩
  · rw [h]; rfl
  · rw [h, stripZeros_of_head_ne x xs hx]

theorem stripZeros_eq_nil_iff (b : Bytes) : stripZeros b = [] ↔ beNat b = 0 := by
  constructor
  · intro h; rw [← beNat_stripZeros, h]; rfl
  · intro h
    rcases stripZeros_head b with h' | ⟨x, xs, h', hx⟩
    · exact h'
    · have := beNat_ge_of_head_ne x xs hx
      rw [← h', beNat_stripZeros, h] at this
      have : 0 < 256 ^ xs.length := Nat.pow_pos (by omega)
      omega

theorem stripZeros_snoc (a : Bytes) (x : UInt8) (h : beNat (a ++ [x]) ≠ 0) :
    stripZeros (a ++ [x]) = stripZeros a ++ [x] := by
  induction a with
  | nil =>
    have hx : x ≠ 0 := by
      intro hx; subst hx; exact h (by decide)
    simp [stripZeros, hx]
  | cons y ys ih =>
    by_cases hy : y = 0
    · subst hy
      rw [List.cons_append, stripZeros_zero_cons, stripZeros_zero_cons]
      apply ih
      rwa [List.cons_append, beNat_zero_cons] at h
    · rw [List.cons_append, stripZeros_of_head_ne _ _ hy, stripZeros_of_head_ne _ _ hy]
      rfl

/-! ### natBytes -/

theorem natBytes_zero : natBytes 0 = [] := by
  rw [natBytes]; simp

theorem natBytes_pos (n : Nat) (h : n ≠ 0) :
    natBytes n = natBytes (n / 256) ++ [UInt8.ofNat (n % 256)] := by
  rw [natBytes]; simp [h]

theorem ofNat_toNat (x : UInt8) : UInt8.ofNat x.toNat = x := by
  simp

theorem snoc_induction {P : Bytes → Prop} (nil : P []) (snoc : ∀ a x, P a → P (a ++ [x])) :
    ∀ b, P b := by
  have h : ∀ b : Bytes, P b.reverse := by
    intro b
    induction b with
    | nil => exact nil
    | cons x xs ih => rw [List.reverse_cons]; exact snoc _ _ ih
  intro b
  have := h b.reverse
  rwa [List.reverse_reverse] at this

theorem natBytes_beNat (b : Bytes) : natBytes (beNat b) = stripZeros b := by
  induction b using snoc_induction with
  | nil => rw [beNat_nil, natBytes_zero]; rfl
  | snoc a x ih =>
    by_cases h : beNat (a ++ [x]) = 0
    · rw [h, natBytes_zero]; exact ((stripZeros_eq_nil_iff _).2 h).symm
    · rw [natBytes_pos _ h, stripZeros_snoc _ _ h, beNat_snoc]
      have hx : x.toNat < 256 := x.toNat_lt
      have h1 : (beNat a * 256 + x.toNat) / 256 = beNat a := by omega
      have h2 : (beNat a * 256 + x.toNat) % 256 = x.toNat := by omega
      rw [h1, h2, ih, ofNat_toNat]

theorem beNat_natBytes (n : Nat) : beNat (natBytes n) = n := by
  induction n using Nat.strongRecOn with
  | _ n ih =>
    by_cases h : n = 0
    · subst h; rw [natBytes_zero]; rfl
    · rw [natBytes_pos _ h, beNat_snoc, ih (n / 256) (by omega)]
      have : (UInt8.ofNat (n % 256)).toNat = n % 256 := by
        rw [UInt8.toNat_ofNat']; omega
      rw [this]; omega

theorem stripZeros_natBytes (n : Nat) : stripZeros (natBytes n) = natBytes n := by
  conv => rhs; rw [← beNat_natBytes n]
  rw [natBytes_beNat]

/-! ### beBytes / be32 -/

theorem beBytes_length (len n : Nat) : (beBytes len n).length = len := by
  induction len generalizing n with
  | zero => rfl
  | succ k ih => simp [beBytes, ih]

theorem beNat_beBytes (len n : Nat) : beNat (beBytes len n) = n % 256 ^ len := by
  induction len generalizing n with
  | zero => simp [beBytes, beNat_nil, Nat.mod_one]
  | succ k ih =>
    rw [beBytes, beNat_snoc, ih, UInt8.toNat_ofNat']
    have h1 : n % 256 % 2 ^ 8 = n % 256 := by omega
    have h2 : n % 256 ^ (k + 1) = n % 256 + 256 * (n / 256 % 256 ^ k) := by
      rw [show (256 : Nat) ^ (k + 1) = 256 * 256 ^ k from Nat.pow_succ', Nat.mod_mul]
    rw [h1, h2]; omega

theorem be32_length (v : Nat) : (be32 v).length = 32 := beBytes_length 32 v

theorem beNat_be32 (v : Nat) : beNat (be32 v) = v % 2 ^ 256 := by
  unfold be32; rw [beNat_beBytes]

/-! ### the 0x80 mask -/

set_option maxRecDepth 20000 in
theorem mask_fin : ∀ n : Fin 256, (n.val &&& 128 = 0) ↔ n.val < 128 := by decide

theorem and80_eq_zero (x : UInt8) : x &&& 0x80 = 0 ↔ x.toNat < 128 := by
  rw [← UInt8.toNat_inj, UInt8.toNat_and]
  exact mask_fin ⟨x.toNat, x.toNat_lt⟩

theorem and80_ne_zero (x : UInt8) : x &&& 0x80 ≠ 0 ↔ x.toNat ≥ 128 := by
  rw [Ne, and80_eq_zero]; omega

/-! ### derIntContents -/

theorem toNat_ne_zero {x : UInt8} (h : x ≠ 0) : x.toNat ≠ 0 := by
  intro h'; apply h; exact UInt8.toNat_inj.1 (by simpa using h')

theorem derIntContents_beNat_nil : derIntContents (beNat []) = [0] := by
  rw [derIntContents, natBytes_beNat]; rfl

theorem derIntContents_beNat_of_head_ne (x : UInt8) (xs : Bytes) (hx : x ≠ 0) :
    derIntContents (beNat (x :: xs)) = if x.toNat ≥ 128 then 0 :: x :: xs else x :: xs := by
  rw [derIntContents, natBytes_beNat, stripZeros_of_head_ne _ _ hx]

theorem canonLoop_zero_cons (l : Bytes) : canonLoop ((0 : UInt8) :: l) = derIntContents (beNat l) := by
  induction l with
  | nil => rw [derIntContents_beNat_nil]; rfl
  | cons b rest ih =>
    rw [canonLoop]
    by_cases hb : b &&& 0x80 = 0
    · rw [if_pos ⟨rfl, hb⟩]
      by_cases hb0 : b = 0
      · subst hb0; rw [ih, beNat_zero_cons]
      · have hlt := (and80_eq_zero b).1 hb
        rw [derIntContents_beNat_of_head_ne _ _ hb0, if_neg (by omega)]
        cases rest with
        | nil => rfl
        | cons c cs => rw [canonLoop, if_neg (fun h => hb0 h.1)]
    · rw [if_neg (fun h => hb h.2)]
      have hge := (and80_ne_zero b).1 hb
      have hb0 : b ≠ 0 := by intro h; subst h; exact hb (by decide)
      rw [derIntContents_beNat_of_head_ne _ _ hb0, if_pos hge]

theorem canonInt_eq (v : Nat) (hv : v < 2 ^ 256) : canonInt v = derIntContents v := by
  rw [canonInt, canonLoop_zero_cons, beNat_be32, Nat.mod_eq_of_lt hv]

/-! ### flat form of the parser -/

def gb (b : Bytes) (i : Nat) : UInt8 := (b[i]?).getD 0

theorem idx_ok {ε} (b : Bytes) (i : Nat) (h : i < b.length) : (idx b i : Outcome ε UInt8) = .ok (gb b i) := by
  unfold idx gb
  rw [List.getElem?_eq_getElem h]; rfl

def flatCore (b : Bytes) (rLen sLen : Nat) : Outcome SigErr (Nat × Nat) :=
  if b.length < 8 then .err .ErrSigTooShort else
  if b.length > 72 then .err .ErrSigTooLong else
  if gb b 0 ≠ 0x30 then .err .ErrSigInvalidSeqID else
  if (gb b 1).toNat ≠ b.length - 2 then .err .ErrSigInvalidDataLen else
  if 4 + rLen ≥ b.length then .err .ErrSigMissingSTypeID else
  if 4 + rLen + 1 ≥ b.length then .err .ErrSigMissingSLen else
  if 4 + rLen + 1 + 1 + sLen ≠ b.length then .err .ErrSigInvalidSLen else
  if gb b 2 ≠ 0x02 then .err .ErrSigInvalidRIntID else
  if rLen = 0 then .err .ErrSigZeroRLen else
  if gb b 4 &&& 0x80 ≠ 0 then .err .ErrSigNegativeR else
  if rLen > 1 ∧ gb b 4 = 0 ∧ gb b 5 &&& 0x80 = 0 then .err .ErrSigTooMuchRPadding else
  if gb b (4 + rLen) ≠ 0x02 then .err .ErrSigInvalidSIntID else
  if sLen = 0 then .err .ErrSigZeroSLen else
  if gb b (4 + rLen + 1 + 1) &&& 0x80 ≠ 0 then .err .ErrSigNegativeS else
  if sLen > 1 ∧ gb b (4 + rLen + 1 + 1) = 0 ∧ gb b (4 + rLen + 1 + 1 + 1) &&& 0x80 = 0 then
    .err .ErrSigTooMuchSPadding else
  derInt ((b.take (4 + rLen)).drop 4) .ErrSigRTooBig .ErrSigRIsZero >>= fun r =>
  derInt ((b.take (4 + rLen + 1 + 1 + sLen)).drop (4 + rLen + 1 + 1)) .ErrSigSTooBig .ErrSigSIsZero >>= fun s =>
  .ok (r, s)

def parseFlat (b : Bytes) : Outcome SigErr (Nat × Nat) :=
  flatCore b (gb b 3).toNat (gb b (4 + (gb b 3).toNat + 1)).toNat

theorem ite_else {α} {c : Prop} [Decidable c] (e x y : α) (h : ¬c → x = y) :
    (if c then e else x) = (if c then e else y) := by
  by_cases hc : c
  · rw [if_pos hc, if_pos hc]
  · rw [if_neg hc, if_neg hc]; exact h hc

theorem slice_ok {ε} (b : Bytes) (lo hi : Nat) (h : lo ≤ hi ∧ hi ≤ b.length) :
    (slice b lo hi : Outcome ε Bytes) = .ok ((b.take hi).drop lo) := by
  unfold slice; rw [if_pos h]

theorem pad_step (p q : Prop) [Decidable p] [Decidable q] (b : Bytes) (i : Nat)
    (hi : p ∧ q → i < b.length) (e : SigErr) (K : Outcome SigErr (Nat × Nat)) :
    ((if p ∧ q then (idx b i >>= fun r1 => pure (r1 &&& 128 == 0)) else pure false : Outcome SigErr Bool)
        >>= fun pad => if pad = true then .err e else K)
      = if p ∧ q ∧ gb b i &&& 128 = 0 then .err e else K := by
  by_cases h : p ∧ q
  · rw [if_pos h, idx_ok b i (hi h), Outcome.bind_ok, Outcome.pure_eq, Outcome.bind_ok]
    by_cases h' : gb b i &&& 128 = 0
    · rw [if_pos (by simpa using h'), if_pos ⟨h.1, h.2, h'⟩]
    · rw [if_neg (by simpa using h'), if_neg (fun hh => h' hh.2.2)]
  · rw [if_neg h, Outcome.pure_eq, Outcome.bind_ok, if_neg (by simp)]
    rw [if_neg (fun hh => h ⟨hh.1, hh.2.1⟩)]

theorem parseDER_eq_flat (b : Bytes) : parseDER b = parseFlat b := by
  unfold parseDER parseFlat flatCore
  dsimp only
  refine ite_else _ _ _ fun h1 => ?_
  refine ite_else _ _ _ fun h2 => ?_
  rw [idx_ok b 0 (by omega), Outcome.bind_ok]
  refine ite_else _ _ _ fun h3 => ?_
  rw [idx_ok b 1 (by omega), Outcome.bind_ok]
  refine ite_else _ _ _ fun h4 => ?_
  rw [idx_ok b 3 (by omega), Outcome.bind_ok]
  refine ite_else _ _ _ fun h5 => ?_
  refine ite_else _ _ _ fun h6 => ?_
  rw [idx_ok b _ (by omega), Outcome.bind_ok]
  refine ite_else _ _ _ fun h7 => ?_
  rw [idx_ok b 2 (by omega), Outcome.bind_ok]
  refine ite_else _ _ _ fun h8 => ?_
  refine ite_else _ _ _ fun h9 => ?_
  rw [idx_ok b 4 (by omega), Outcome.bind_ok]
  refine ite_else _ _ _ fun h10 => ?_
  rw [pad_step _ _ b 5 (by omega)]
  refine ite_else _ _ _ fun h11 => ?_
  rw [idx_ok b _ (by omega), Outcome.bind_ok]
  refine ite_else _ _ _ fun h12 => ?_
  refine ite_else _ _ _ fun h13 => ?_
  rw [idx_ok b _ (by omega), Outcome.bind_ok]
  refine ite_else _ _ _ fun h14 => ?_
  rw [pad_step _ _ b _ (by omega)]
  refine ite_else _ _ _ fun h15 => ?_
  rw [slice_ok b _ _ (by omega), Outcome.bind_ok]
  rw [slice_ok b _ _ (by omega)]
  rfl

/-! ### derInt -/

theorem N_lt : N < 256 ^ 32 := by decide
theorem N_lt' : N < 2 ^ 256 := by decide

theorem derInt_eq (bs : Bytes) (tb iz : SigErr) :
    derInt bs tb iz =
      if (stripZeros bs).length > 32 then .err tb else
      if beNat bs ≥ N then .err tb else
      if beNat bs = 0 then .err iz else .ok (beNat bs) := by
  unfold derInt scalarSetByteSlice
  dsimp only
  refine ite_else _ _ _ fun h => ?_
  rw [List.take_of_length_le (by omega), beNat_stripZeros]
  by_cases h2 : beNat bs ≥ N
  · simp [h2]
  · simp [h2]

theorem stripZeros_long (bs : Bytes) (h : (stripZeros bs).length > 32) : beNat bs ≥ N := by
  rcases stripZeros_head bs with h' | ⟨x, xs, h', hx⟩
  · rw [h'] at h; simp at h
  · have := beNat_ge_of_head_ne x xs hx
    rw [← h', beNat_stripZeros] at this
    rw [h'] at h
    simp only [List.length_cons] at h
    have h2 : (256:Nat) ^ 32 ≤ 256 ^ xs.length := Nat.pow_le_pow_right (by omega) (by omega)
    have := N_lt
    omega

theorem derInt_ne_panic (bs : Bytes) (tb iz : SigErr) : derInt bs tb iz ≠ .panic := by
  rw [derInt_eq]
  repeat' split
  all_goals simp

theorem derInt_ok_iff (bs : Bytes) (tb iz : SigErr) (v : Nat) :
    derInt bs tb iz = .ok v ↔ (v = beNat bs ∧ 0 < v ∧ v < N) := by
  rw [derInt_eq]
  constructor
  · intro h
    split at h
    · simp at h
    split at h
    · simp at h
    split at h
    · simp at h
    · injection h with h; subst h; omega
  · rintro ⟨rfl, h0, hN⟩
    rw [if_neg, if_neg (by omega), if_neg (by omega)]
    intro h; have := stripZeros_long bs h; omega

theorem derInt_err (bs : Bytes) (tb iz e : SigErr) (h : derInt bs tb iz = .err e) :
    (e = tb ∧ beNat bs ≥ N) ∨ (e = iz ∧ beNat bs = 0) := by
  rw [derInt_eq] at h
  split at h
  · rename_i h1; injection h with h; exact .inl ⟨h.symm, stripZeros_long bs h1⟩
  split at h
  · rename_i h1; injection h with h; exact .inl ⟨h.symm, h1⟩
  split at h
  · rename_i h1; injection h with h; exact .inr ⟨h.symm, h1⟩
  · simp at h

/-! ### well-formed INTEGER contents -/

def GoodInt (R : Bytes) : Prop :=
  R.length ≠ 0 ∧ (gb R 0).toNat < 128 ∧ ¬(R.length > 1 ∧ gb R 0 = 0 ∧ (gb R 1).toNat < 128)

theorem gb_cons_zero (x : UInt8) (xs : Bytes) : gb (x :: xs) 0 = x := rfl
theorem gb_cons_succ (x : UInt8) (xs : Bytes) (i : Nat) : gb (x :: xs) (i + 1) = gb xs i := by
  unfold gb; rw [List.getElem?_cons_succ]

theorem goodInt_eq (R : Bytes) (h : GoodInt R) : R = derIntContents (beNat R) := by
  obtain ⟨h1, h2, h3⟩ := h
  cases R with
  | nil => simp at h1
  | cons x xs =>
    rw [gb_cons_zero] at h2 h3
    by_cases hx : x = 0
    · subst hx
      cases xs with
      | nil => rw [beNat_zero_cons, derIntContents_beNat_nil]
      | cons y ys =>
        rw [gb_cons_succ, gb_cons_zero] at h3
        have hy : y.toNat ≥ 128 := by
          simp only [List.length_cons] at h3
          apply Classical.byContradiction; intro hh
          exact h3 ⟨by omega, trivial, by omega⟩
        have hy0 : y ≠ 0 := by intro h; subst h; simp at hy
        rw [beNat_zero_cons, derIntContents_beNat_of_head_ne _ _ hy0, if_pos hy]
    · rw [derIntContents_beNat_of_head_ne _ _ hx, if_neg (by omega)]

theorem derIntContents_cases (v : Nat) :
    (v = 0 ∧ derIntContents v = [0]) ∨
    (∃ x xs, natBytes v = x :: xs ∧ x ≠ 0 ∧
      derIntContents v = if x.toNat ≥ 128 then 0 :: x :: xs else x :: xs) := by
  by_cases hv : v = 0
  · left; subst hv; exact ⟨rfl, by rw [derIntContents, natBytes_zero]⟩
  · right
    have hs := stripZeros_natBytes v
    rcases stripZeros_head (natBytes v) with h | ⟨x, xs, h, hx⟩
    · rw [stripZeros_eq_nil_iff, beNat_natBytes] at h; exact absurd h hv
    · rw [hs] at h
      exact ⟨x, xs, h, hx, by rw [derIntContents, h]⟩

theorem goodInt_der (v : Nat) : GoodInt (derIntContents v) := by
  rcases derIntContents_cases v with ⟨_, h⟩ | ⟨x, xs, _, hx, h⟩
  · rw [h]; refine ⟨by simp, by decide, ?_⟩; simp
  · rw [h]
    split
    · rename_i hge
      refine ⟨by simp, by rw [gb_cons_zero]; decide, ?_⟩
      rw [gb_cons_succ, gb_cons_zero, gb_cons_zero]; intro hh; omega
    · rename_i hge
      refine ⟨by simp, by rw [gb_cons_zero]; omega, ?_⟩
      rw [gb_cons_zero]; exact fun hh => hx hh.2.1

theorem beNat_der (v : Nat) : beNat (derIntContents v) = v := by
  rcases derIntContents_cases v with ⟨hv, h⟩ | ⟨x, xs, hn, hx, h⟩
  · rw [h, hv]; rfl
  · rw [h]
    split
    · rw [beNat_zero_cons, ← hn, beNat_natBytes]
    · rw [← hn, beNat_natBytes]

theorem der_length_pos (v : Nat) : 1 ≤ (derIntContents v).length := by
  have := (goodInt_der v).1; omega

theorem der_length_le (v : Nat) (hv : v < 2 ^ 256) : (derIntContents v).length ≤ 33 := by
  rcases derIntContents_cases v with ⟨_, h⟩ | ⟨x, xs, hn, hx, h⟩
  · rw [h]; simp
  · have h1 := beNat_ge_of_head_ne x xs hx
    rw [← hn, beNat_natBytes] at h1
    have hxs : xs.length < 32 := by
      apply Classical.byContradiction; intro hh
      have h2 : (256:Nat) ^ 32 ≤ 256 ^ xs.length := Nat.pow_le_pow_right (by omega) (by omega)
      have : (2:Nat) ^ 256 = 256 ^ 32 := by decide
      omega
    rw [h]; split <;> simp <;> omega

/-! ### Outcome plumbing -/

theorem ite_err_ok_iff {α} {c : Prop} [Decidable c] (e : SigErr) (K : Outcome SigErr α) (v : α) :
    (if c then .err e else K) = .ok v ↔ (¬c ∧ K = .ok v) := by
  by_cases h : c
  · simp [h]
  · simp [h]

theorem ite_err_panic_iff {α} {c : Prop} [Decidable c] (e : SigErr) (K : Outcome SigErr α) :
    (if c then .err e else K) = .panic ↔ (¬c ∧ K = .panic) := by
  by_cases h : c
  · simp [h]
  · simp [h]

theorem bind_ok_iff {α β} (x : Outcome SigErr α) (f : α → Outcome SigErr β) (v : β) :
    (x >>= f) = .ok v ↔ ∃ a, x = .ok a ∧ f a = .ok v := by
  cases x <;> simp

theorem tail_ok_iff (x y : Outcome SigErr Nat) (r s : Nat) :
    (x >>= fun a => y >>= fun c => (.ok (a, c) : Outcome SigErr (Nat × Nat))) = .ok (r, s) ↔
      (x = .ok r ∧ y = .ok s) := by
  cases x <;> cases y <;> simp

theorem flatCore_ok_iff (b : Bytes) (rLen sLen r s : Nat) :
    flatCore b rLen sLen = .ok (r, s) ↔
      (¬ b.length < 8 ∧ ¬ b.length > 72 ∧ ¬ gb b 0 ≠ 0x30 ∧ ¬ (gb b 1).toNat ≠ b.length - 2 ∧
       ¬ 4 + rLen ≥ b.length ∧ ¬ 4 + rLen + 1 ≥ b.length ∧ ¬ 4 + rLen + 1 + 1 + sLen ≠ b.length ∧
       ¬ gb b 2 ≠ 0x02 ∧ ¬ rLen = 0 ∧ ¬ gb b 4 &&& 0x80 ≠ 0 ∧
       ¬ (rLen > 1 ∧ gb b 4 = 0 ∧ gb b 5 &&& 0x80 = 0) ∧
       ¬ gb b (4 + rLen) ≠ 0x02 ∧ ¬ sLen = 0 ∧ ¬ gb b (4 + rLen + 1 + 1) &&& 0x80 ≠ 0 ∧
       ¬ (sLen > 1 ∧ gb b (4 + rLen + 1 + 1) = 0 ∧ gb b (4 + rLen + 1 + 1 + 1) &&& 0x80 = 0) ∧
       derInt ((b.take (4 + rLen)).drop 4) .ErrSigRTooBig .ErrSigRIsZero = .ok r ∧
       derInt ((b.take (4 + rLen + 1 + 1 + sLen)).drop (4 + rLen + 1 + 1)) .ErrSigSTooBig .ErrSigSIsZero = .ok s) := by
  unfold flatCore
  simp only [ite_err_ok_iff, tail_ok_iff]

/-! ### structured byte strings -/

def mk (h0 h1 h2 h3 : UInt8) (R : Bytes) (t0 t1 : UInt8) (S : Bytes) : Bytes :=
  h0 :: h1 :: h2 :: h3 :: (R ++ t0 :: t1 :: S)

theorem gb_append_left (R l : Bytes) (i : Nat) (h : i < R.length) : gb (R ++ l) i = gb R i := by
  unfold gb; rw [List.getElem?_append_left h]

theorem gb_append_right (R l : Bytes) (i : Nat) : gb (R ++ l) (R.length + i) = gb l i := by
  unfold gb; rw [List.getElem?_append_right (by omega), Nat.add_sub_cancel_left]

theorem gb_cons4 (a b c d : UInt8) (l : Bytes) (i : Nat) : gb (a :: b :: c :: d :: l) (4 + i) = gb l i := by
  rw [show 4 + i = i + 1 + 1 + 1 + 1 by omega]
  simp only [gb_cons_succ]

section
variable (h0 h1 h2 h3 : UInt8) (R : Bytes) (t0 t1 : UInt8) (S : Bytes)

theorem mk_length : (mk h0 h1 h2 h3 R t0 t1 S).length = 4 + R.length + 1 + 1 + S.length := by
  simp [mk]; omega

theorem gb_mk_0 : gb (mk h0 h1 h2 h3 R t0 t1 S) 0 = h0 := rfl
theorem gb_mk_1 : gb (mk h0 h1 h2 h3 R t0 t1 S) 1 = h1 := rfl
theorem gb_mk_2 : gb (mk h0 h1 h2 h3 R t0 t1 S) 2 = h2 := rfl
theorem gb_mk_3 : gb (mk h0 h1 h2 h3 R t0 t1 S) 3 = h3 := rfl

theorem gb_mk_R (i : Nat) (h : i < R.length) : gb (mk h0 h1 h2 h3 R t0 t1 S) (4 + i) = gb R i := by
  rw [mk, gb_cons4, gb_append_left _ _ _ h]

theorem gb_mk_t0 : gb (mk h0 h1 h2 h3 R t0 t1 S) (4 + R.length) = t0 := by
  rw [mk, gb_cons4]
  have := gb_append_right R (t0 :: t1 :: S) 0
  rwa [Nat.add_zero] at this

theorem gb_mk_t1 : gb (mk h0 h1 h2 h3 R t0 t1 S) (4 + R.length + 1) = t1 := by
  rw [mk, Nat.add_assoc, gb_cons4]
  exact gb_append_right R (t0 :: t1 :: S) 1

theorem gb_mk_S (i : Nat) : gb (mk h0 h1 h2 h3 R t0 t1 S) (4 + R.length + 1 + 1 + i) = gb S i := by
  rw [mk, show 4 + R.length + 1 + 1 + i = 4 + (R.length + (i + 1 + 1)) by omega, gb_cons4,
    gb_append_right, gb_cons_succ, gb_cons_succ]

theorem mk_R : ((mk h0 h1 h2 h3 R t0 t1 S).take (4 + R.length)).drop 4 = R := by
  rw [mk, show 4 + R.length = R.length + 1 + 1 + 1 + 1 by omega]
  simp

theorem mk_S : ((mk h0 h1 h2 h3 R t0 t1 S).take (4 + R.length + 1 + 1 + S.length)).drop (4 + R.length + 1 + 1) = S := by
  rw [List.take_of_length_le (by rw [mk_length]; omega)]
  rw [mk, show 4 + R.length + 1 + 1 = (R.length + 2) + 1 + 1 + 1 + 1 by omega]
  simp only [List.drop_succ_cons]
  rw [show R ++ t0 :: t1 :: S = (R ++ [t0, t1]) ++ S by simp]
  exact List.drop_left' (by simp)
end

theorem decomp (b : Bytes) (rLen sLen : Nat) (h : 4 + rLen + 1 + 1 + sLen = b.length) :
    ∃ h0 h1 h2 h3 R t0 t1 S, b = mk h0 h1 h2 h3 R t0 t1 S ∧ R.length = rLen ∧ S.length = sLen := by
  rcases b with _ | ⟨h0, _ | ⟨h1, _ | ⟨h2, _ | ⟨h3, rest⟩⟩⟩⟩ <;> simp only [List.length_cons, List.length_nil] at h <;> try omega
  have h1' : (rest.drop rLen).length = sLen + 2 := by rw [List.length_drop]; omega
  rcases hd : rest.drop rLen with _ | ⟨t0, _ | ⟨t1, S⟩⟩ <;> rw [hd] at h1' <;> simp only [List.length_cons, List.length_nil] at h1' <;> try omega
  refine ⟨h0, h1, h2, h3, rest.take rLen, t0, t1, S, ?_, ?_, by omega⟩
  · rw [mk, ← hd, List.take_append_drop]
  · rw [List.length_take]; omega

theorem parseFlat_mk (h0 h1 h2 h3 : UInt8) (R : Bytes) (t0 t1 : UInt8) (S : Bytes) (r s : Nat)
    (hR : h3.toNat = R.length) (hS : t1.toNat = S.length) :
    parseFlat (mk h0 h1 h2 h3 R t0 t1 S) = .ok (r, s) ↔
      (h0 = 0x30 ∧ h1.toNat = 4 + R.length + S.length ∧ h2 = 0x02 ∧ t0 = 0x02 ∧
       4 + R.length + S.length ≤ 70 ∧ GoodInt R ∧ GoodInt S ∧
       derInt R .ErrSigRTooBig .ErrSigRIsZero = .ok r ∧
       derInt S .ErrSigSTooBig .ErrSigSIsZero = .ok s) := by
  unfold parseFlat
  rw [gb_mk_3, hR, gb_mk_t1, hS]
  have e0 := gb_mk_0 h0 h1 h2 h3 R t0 t1 S
  have e1 := gb_mk_1 h0 h1 h2 h3 R t0 t1 S
  have e2 := gb_mk_2 h0 h1 h2 h3 R t0 t1 S
  have et0 := gb_mk_t0 h0 h1 h2 h3 R t0 t1 S
  have eS0 : gb (mk h0 h1 h2 h3 R t0 t1 S) (4 + R.length + 1 + 1) = gb S 0 := gb_mk_S h0 h1 h2 h3 R t0 t1 S 0
  have eS1 : gb (mk h0 h1 h2 h3 R t0 t1 S) (4 + R.length + 1 + 1 + 1) = gb S 1 := gb_mk_S h0 h1 h2 h3 R t0 t1 S 1
  have eR0 : R.length ≠ 0 → gb (mk h0 h1 h2 h3 R t0 t1 S) 4 = gb R 0 :=
    fun h => gb_mk_R h0 h1 h2 h3 R t0 t1 S 0 (by omega)
  have eR1 : R.length > 1 → gb (mk h0 h1 h2 h3 R t0 t1 S) 5 = gb R 1 :=
    fun h => gb_mk_R h0 h1 h2 h3 R t0 t1 S 1 h
  have eRR := mk_R h0 h1 h2 h3 R t0 t1 S
  have eSS := mk_S h0 h1 h2 h3 R t0 t1 S
  have eL := mk_length h0 h1 h2 h3 R t0 t1 S
  generalize mk h0 h1 h2 h3 R t0 t1 S = b at *
  rw [flatCore_ok_iff, e0, e1, e2, et0, eS0, eS1, eRR, eSS, eL]
  constructor
  · rintro ⟨c1, c2, c3, c4, c5, c6, c7, c8, c9, c10, c11, c12, c13, c14, c15, c16, c17⟩
    rw [eR0 c9] at c10 c11
    rw [and80_ne_zero] at c10 c14
    refine ⟨Classical.not_not.1 c3, by omega, Classical.not_not.1 c8, Classical.not_not.1 c12, by omega,
      ⟨c9, by omega, ?_⟩, ⟨c13, by omega, ?_⟩, c16, c17⟩
    · rintro ⟨a1, a2, a3⟩
      rw [eR1 a1] at c11
      exact c11 ⟨a1, a2, (and80_eq_zero _).2 a3⟩
    · rintro ⟨a1, a2, a3⟩
      exact c15 ⟨a1, a2, (and80_eq_zero _).2 a3⟩
  · rintro ⟨c1, c2, c3, c4, c5, ⟨r1, r2, r3⟩, ⟨s1, s2, s3⟩, c8, c9⟩
    rw [eR0 r1, and80_ne_zero, and80_ne_zero]
    refine ⟨by omega, by omega, by simp [c1], by omega, by omega, by omega, by omega, by simp [c3],
      r1, by omega, ?_, by simp [c4], s1, by omega, ?_, c8, c9⟩
    · rintro ⟨a1, a2, a3⟩
      rw [eR1 a1] at a3
      exact r3 ⟨a1, a2, (and80_eq_zero _).1 a3⟩
    · rintro ⟨a1, a2, a3⟩
      exact s3 ⟨a1, a2, (and80_eq_zero _).1 a3⟩

/-! ### the property lemmas -/

theorem canonicalDER_eq_mk (r s : Nat) :
    canonicalDER r s =
      mk 0x30 (UInt8.ofNat (4 + (derIntContents r).length + (derIntContents s).length)) 0x02
        (UInt8.ofNat (derIntContents r).length) (derIntContents r) 0x02
        (UInt8.ofNat (derIntContents s).length) (derIntContents s) := by
  simp [canonicalDER, mk]

theorem parseDER_ok_length (b : Bytes) (r s : Nat) (h : parseDER b = .ok (r, s)) :
    8 ≤ b.length ∧ b.length ≤ 72 := by
  rw [parseDER_eq_flat, parseFlat, flatCore_ok_iff] at h
  omega

theorem parseDER_ok_iff (b : Bytes) (r s : Nat) :
    parseDER b = .ok (r, s) ↔ (b = canonicalDER r s ∧ 0 < r ∧ r < N ∧ 0 < s ∧ s < N) := by
  constructor
  · intro h
    rw [parseDER_eq_flat] at h
    have h' := h
    rw [parseFlat, flatCore_ok_iff] at h'
    obtain ⟨h0, h1, h2, h3, R, t0, t1, S, hb, hRl, hSl⟩ := decomp b _ _ (Classical.not_not.1 h'.2.2.2.2.2.2.1)
    clear h'
    subst hb
    rw [gb_mk_3] at hRl
    rw [gb_mk_3, ← hRl, gb_mk_t1] at hSl
    obtain ⟨c1, c2, c3, c4, c5, gR, gS, dR, dS⟩ := (parseFlat_mk h0 h1 h2 h3 R t0 t1 S r s hRl.symm hSl.symm).1 h
    rw [derInt_ok_iff] at dR dS
    obtain ⟨er, hr0, hrN⟩ := dR
    obtain ⟨es, hs0, hsN⟩ := dS
    have eR := goodInt_eq R gR
    have eS := goodInt_eq S gS
    rw [← er] at eR
    rw [← es] at eS
    refine ⟨?_, hr0, hrN, hs0, hsN⟩
    rw [canonicalDER_eq_mk, ← eR, ← eS, ← c2, hRl, hSl, ofNat_toNat, ofNat_toNat, ofNat_toNat, c1, c3, c4]
  · rintro ⟨rfl, hr0, hrN, hs0, hsN⟩
    have := N_lt'
    have lr := der_length_le r (by omega)
    have ls := der_length_le s (by omega)
    have hR : (UInt8.ofNat (derIntContents r).length).toNat = (derIntContents r).length := by
      rw [UInt8.toNat_ofNat']; omega
    have hS : (UInt8.ofNat (derIntContents s).length).toNat = (derIntContents s).length := by
      rw [UInt8.toNat_ofNat']; omega
    rw [parseDER_eq_flat, canonicalDER_eq_mk, parseFlat_mk _ _ _ _ _ _ _ _ _ _ hR hS]
    refine ⟨rfl, ?_, rfl, rfl, by omega, goodInt_der r, goodInt_der s,
      (derInt_ok_iff _ _ _ _).2 ⟨(beNat_der r).symm, hr0, hrN⟩,
      (derInt_ok_iff _ _ _ _).2 ⟨(beNat_der s).symm, hs0, hsN⟩⟩
    rw [UInt8.toNat_ofNat']; omega

theorem tail_ne_panic (x y : Outcome SigErr Nat) (hx : x ≠ .panic) (hy : y ≠ .panic) :
    (x >>= fun a => y >>= fun c => (.ok (a, c) : Outcome SigErr (Nat × Nat))) ≠ .panic := by
  cases x <;> cases y <;> simp_all

theorem parseDER_no_panic (b : Bytes) : parseDER b ≠ .panic := by
  intro h
  rw [parseDER_eq_flat, parseFlat, flatCore] at h
  simp only [ite_err_panic_iff] at h
  exact tail_ne_panic _ _ (derInt_ne_panic _ _ _) (derInt_ne_panic _ _ _) h.2.2.2.2.2.2.2.2.2.2.2.2.2.2.2

theorem serializeDER_eq (r s : Nat) (hr : r < N) (hs : s < N) :
    serializeDER r s = canonicalDER r (lowS s) := by
  have := N_lt'
  have hl : lowS s < 2 ^ 256 := by unfold lowS; split <;> omega
  simp only [serializeDER, canonicalDER]
  rw [show (if s > halfN then N - s else s) = lowS s from rfl, canonInt_eq r (by omega), canonInt_eq _ hl]

theorem parse_serialize (r s : Nat) (hr0 : 0 < r) (hr : r < N) (hs0 : 0 < s) (hs : s < N) :
    parseDER (serializeDER r s) = .ok (r, lowS s) := by
  rw [serializeDER_eq r s hr hs, parseDER_ok_iff]
  refine ⟨rfl, hr0, hr, ?_, ?_⟩ <;> unfold lowS <;> split <;> omega

theorem serialize_parse (b : Bytes) (r s : Nat) (h : parseDER b = .ok (r, s)) (hlow : s ≤ halfN) :
    serializeDER r s = b := by
  obtain ⟨rfl, _, hr, _, hs⟩ := (parseDER_ok_iff b r s).1 h
  rw [serializeDER_eq r s hr hs, lowS, if_neg (by omega)]

/-! ### soundness of rejections -/

theorem byteAt_gb (b : Bytes) (i : Nat) (h : i < b.length) : byteAt b i = some (gb b i).toNat := by
  unfold byteAt gb
  rw [List.getElem?_eq_getElem h]; rfl

theorem byteAt_ne (b : Bytes) (i : Nat) (x : UInt8) (hi : i < b.length) (h : gb b i ≠ x) :
    byteAt b i ≠ some x.toNat := by
  rw [byteAt_gb b i hi]
  intro hh
  injection hh with hh
  exact h (UInt8.toNat_inj.1 hh)

theorem tail_err (x y : Outcome SigErr Nat) (e : SigErr)
    (h : (x >>= fun a => y >>= fun c => (.ok (a, c) : Outcome SigErr (Nat × Nat))) = .err e) :
    x = .err e ∨ y = .err e := by
  cases x with
  | ok a =>
    rw [Outcome.bind_ok] at h
    cases y with
    | ok c => rw [Outcome.bind_ok] at h; cases h
    | err e' => right; rw [Outcome.bind_err] at h; injection h with h; rw [h]
    | panic => cases h
  | err e' => left; rw [Outcome.bind_err] at h; injection h with h; rw [h]
  | panic => cases h

theorem ite_err_err {α} {c : Prop} [Decidable c] {e e' : SigErr} {K : Outcome SigErr α}
    (h : (if c then .err e else K) = .err e') : (c ∧ e = e') ∨ (¬c ∧ K = .err e') := by
  by_cases hc : c
  · rw [if_pos hc] at h; injection h with h; exact .inl ⟨hc, h⟩
  · rw [if_neg hc] at h; exact .inr ⟨hc, h⟩

theorem flatCore_err (b : Bytes) (rLen sLen : Nat) (e : SigErr)
    (hr : 8 ≤ b.length → byteAt b 3 = some rLen)
    (hs : 4 + rLen + 1 < b.length → byteAt b (4 + rLen + 1) = some sLen)
    (h : flatCore b rLen sLen = .err e) : DerViolates b e := by
  have e5 : 5 + rLen = 4 + rLen + 1 := by omega
  have e6 : 6 + rLen = 4 + rLen + 1 + 1 := by omega
  have e7 : 7 + rLen = 4 + rLen + 1 + 1 + 1 := by omega
  have e8 : 6 + rLen + sLen = 4 + rLen + 1 + 1 + sLen := by omega
  unfold flatCore at h
  rcases ite_err_err h with ⟨c, rfl⟩ | ⟨c1, h⟩
  · exact c
  rcases ite_err_err h with ⟨c, rfl⟩ | ⟨c2, h⟩
  · exact c
  have hr' := hr (by omega)
  rcases ite_err_err h with ⟨c, rfl⟩ | ⟨c3, h⟩
  · exact byteAt_ne b 0 0x30 (by omega) c
  rcases ite_err_err h with ⟨c, rfl⟩ | ⟨c4, h⟩
  · simp only [DerViolates]
    rw [byteAt_gb b 1 (by omega)]
    intro hh; injection hh with hh; exact c hh
  rcases ite_err_err h with ⟨c, rfl⟩ | ⟨c5, h⟩
  · exact ⟨rLen, hr', c⟩
  rcases ite_err_err h with ⟨c, rfl⟩ | ⟨c6, h⟩
  · exact ⟨rLen, hr', by omega⟩
  have hs' := hs (by omega)
  rcases ite_err_err h with ⟨c, rfl⟩ | ⟨c7, h⟩
  · exact ⟨rLen, sLen, hr', by rw [e5]; exact hs', by omega⟩
  rcases ite_err_err h with ⟨c, rfl⟩ | ⟨c8, h⟩
  · exact byteAt_ne b 2 0x02 (by omega) c
  rcases ite_err_err h with ⟨c, rfl⟩ | ⟨c9, h⟩
  · simp only [DerViolates]
    rw [hr', c]
  rcases ite_err_err h with ⟨c, rfl⟩ | ⟨c10, h⟩
  · exact ⟨(gb b 4).toNat, byteAt_gb b 4 (by omega), (and80_ne_zero _).1 c⟩
  rcases ite_err_err h with ⟨c, rfl⟩ | ⟨c11, h⟩
  · refine ⟨rLen, (gb b 5).toNat, hr', c.1, ?_, byteAt_gb b 5 (by omega), (and80_eq_zero _).1 c.2.2⟩
    rw [byteAt_gb b 4 (by omega), c.2.1]; rfl
  rcases ite_err_err h with ⟨c, rfl⟩ | ⟨c12, h⟩
  · exact ⟨rLen, hr', byteAt_ne b (4 + rLen) 0x02 (by omega) c⟩
  rcases ite_err_err h with ⟨c, rfl⟩ | ⟨c13, h⟩
  · simp only [DerViolates]
    exact ⟨rLen, hr', by rw [e5, hs', c]⟩
  rcases ite_err_err h with ⟨c, rfl⟩ | ⟨c14, h⟩
  · exact ⟨rLen, (gb b (4 + rLen + 1 + 1)).toNat, hr', by rw [e6]; exact byteAt_gb b _ (by omega),
      (and80_ne_zero _).1 c⟩
  rcases ite_err_err h with ⟨c, rfl⟩ | ⟨c15, h⟩
  · refine ⟨rLen, sLen, (gb b (4 + rLen + 1 + 1 + 1)).toNat, hr', by rw [e5]; exact hs', c.1, ?_,
      by rw [e7]; exact byteAt_gb b _ (by omega), (and80_eq_zero _).1 c.2.2⟩
    rw [e6, byteAt_gb b _ (by omega), c.2.1]; rfl
  rcases tail_err _ _ _ h with h | h
  · rcases derInt_err _ _ _ _ h with ⟨rfl, hh⟩ | ⟨rfl, hh⟩
    · exact ⟨rLen, hr', hh⟩
    · exact ⟨rLen, hr', hh⟩
  · rcases derInt_err _ _ _ _ h with ⟨rfl, hh⟩ | ⟨rfl, hh⟩
    · exact ⟨rLen, sLen, hr', by rw [e5]; exact hs', by rw [e8, e6]; exact hh⟩
    · exact ⟨rLen, sLen, hr', by rw [e5]; exact hs', by rw [e8, e6]; exact hh⟩

theorem parseDER_err_sound (b : Bytes) (e : SigErr) (h : parseDER b = .err e) : DerViolates b e := by
  rw [parseDER_eq_flat, parseFlat] at h
  exact flatCore_err b _ _ e (fun h => byteAt_gb b 3 (by omega)) (fun h => byteAt_gb b _ h) h

end Secp.Proofs.Der
