/-
  Core/Conc — a sequentially consistent interleaving model for "shared state is initialised once
  and read-only afterwards", and the vocabulary of the facts tools/gotr (pass T6) extracts.
  Core-only.
-/
namespace Secp.Conc

inductive Guard where
  | init    -- package initialisation (before main, single-threaded by the Go spec)
  | once    -- inside the function passed to sync.Once.Do
  | none
  deriving Repr, DecidableEq, Inhabited

inductive FactKind where
  | store   -- a store whose target is rooted in shared memory
  | passes  -- shared memory handed to a parameter the callee may write through
  | read    -- a read of a root that is written under sync.Once (guard .once = ordered after an unconditional Once.Do)
  deriving Repr, DecidableEq, Inhabited

structure Fact where
  kind : FactKind
  fn : String
  root : String
  guard : Guard
  pos : String
  note : String
  deriving Repr, Inhabited

/-- the extracted program is read-only after initialisation: every write into shared memory is
    guarded by package initialisation or by sync.Once, and every read of once-initialised memory is
    ordered after the Once.Do call (the accessor shape the interleaving model below assumes) -/
def readOnlyAfterInit (facts : List Fact) : Bool := facts.all fun f => f.guard != .none

/-! ### interleaving model

  Threads execute lists of events on one shared location holding `Option Nat` (`none` = not yet
  initialised).  `onceDo v` models `once.Do(func(){ data = v })` followed by the read of `data`
  that every accessor performs; `read` models any later read.  A schedule is the list of thread
  indices in the order their next events run. -/

inductive Ev where
  | onceDo (v : Nat)   -- Do(init) then read: the body runs only if nobody ran it before
  | read
  | unsyncInit (v : Nat)   -- the broken pattern: `if data == nil { data = v }` split in two steps
  deriving Repr, DecidableEq

structure St where
  data : Option Nat
  inits : Nat                 -- how many times an initialiser body ran
  obs : List (Nat × Option Nat)   -- (thread, value read)
  pendingCheck : List Nat     -- threads that saw nil in an unsynchronised check and will write
  deriving Repr

def St.init : St := { data := none, inits := 0, obs := [], pendingCheck := [] }

def stepEv (s : St) (tid : Nat) : Ev → St
  | .onceDo v =>
    match s.data with
    | some d => { s with obs := (tid, some d) :: s.obs }
    | none => { s with data := some v, inits := s.inits + 1, obs := (tid, some v) :: s.obs }
  | .read => { s with obs := (tid, s.data) :: s.obs }
  | .unsyncInit v =>
    if tid ∈ s.pendingCheck then
      -- second half: the write (after having seen nil)
      { s with data := some v, inits := s.inits + 1, obs := (tid, some v) :: s.obs,
               pendingCheck := s.pendingCheck.erase tid }
    else
      match s.data with
      | some d => { s with obs := (tid, some d) :: s.obs }
      | none => { s with pendingCheck := tid :: s.pendingCheck }

/-- run a schedule: each entry picks a thread, which executes its next event (if any) -/
def run : List Nat → List (List Ev) → St → St
  | [], _, s => s
  | t :: sched, threads, s =>
    match threads[t]? with
    | some (e :: rest) => run sched (threads.set t rest) (stepEv s t e)
    | _ => run sched threads s

/-- all events of all threads are `onceDo v` (same initial value v) or `read` after the thread's own onceDo -/
def OnceDiscipline (v : Nat) (threads : List (List Ev)) : Prop :=
  ∀ th ∈ threads, ∀ e ∈ th, e = .onceDo v ∨ e = .read

/-- invariant: data is none (and nothing ran) or some v with exactly one initialisation; every observation so far saw v -/
def Inv (v : Nat) (s : St) : Prop :=
  (s.data = none ∧ s.inits = 0 ∧ s.obs = []) ∨
  (s.data = some v ∧ s.inits = 1 ∧ ∀ o ∈ s.obs, o.2 = some v)

end Secp.Conc
