"""
props — per-property configuration of ./check.
"""

def proj_c09(op, s):
    if op == "der_parse" and s.startswith("err "):
        return "reject"
    return s

COMMON_TRUST = [
    "hand-written Lean models are tied to the Go code by the correspondence run (differential, generator-bounded)",
    "Go compiler/runtime semantics of integer and slice operations",
]

HOOK_COMMITS = ["62e1034"]

UNDER_CONSTRUCTION = "machinery for this property is still under construction in this session; not claimed until its check is green and validated"
NOT_APPLICABLE = {("C%02d" % i): UNDER_CONSTRUCTION for i in range(1, 21)}

PROPS = {
    "C19": {
        "level_text": "Machine-checked theorems (Lean 4 kernel), by induction over the entropy stream, about a hand-written model of generatePrivateKey/PrivKeyFromBytes/Serialize/Zero: success iff some whole 32-byte block is in [1,N-1], the key is exactly the FIRST such block, exactly the blocks up to it are consumed, earlier blocks are discarded never reduced; otherwise the io.ReadFull error (reader error / ErrUnexpectedEOF) and no key; load+serialise = be32(first 32 bytes mod N); Zero clears. Tied to the code by running scripted readers (arbitrary chunking, failure at every offset 0..96, error returned with data) through GeneratePrivateKeyFromRand and diffing result and bytes consumed.",
        "level_note": "Trusted: Lean kernel; io.ReadFull's documented contract (the reader is abstracted to the bytes it delivers and its terminal error); the hand-written model mirrors privkey.go (validated on generated streams); SetBytes at value level (limb level is C06).",
        "technique": "Lean 4 proof by induction over streams (Secp.Props.C19) + differential correspondence with scripted io.Readers",
        "trusted_base": COMMON_TRUST + ["io.ReadFull contract", "Model.generatePrivateKey mirrors privkey.go (hand-written)"],
        "assumptions": ["a reader is characterised by the bytes it delivers and its terminal error (what io.ReadFull can observe)"],
    },
    "C09": {
        "level_text": "Machine-checked theorems (Lean 4 kernel) for ALL byte strings about a hand-written model of ParseDERSignature/Serialize: never panics; accepts exactly the canonical DER of (r,s) in [1,N-1]^2 and returns those values; length 8..72; uniqueness; serialise = canonical DER of (r, low-s); both round trips; every error kind names a really violated rule. The model is tied to the code by a correspondence run (structure-aware mutations of valid encodings, all lengths 0..80) diffed against the real parser.",
        "level_note": "Trusted: Lean kernel (axioms propext, Classical.choice, Quot.sound); that the hand-written model mirrors signature.go (validated only on generated inputs); scalar decoding inside the parser modelled at value level (limb level is C06).",
        "technique": "Lean 4 proof over a hand-written model (Secp.Props.C09) + differential correspondence with the Go parser",
        "project": proj_c09,
        "trusted_base": COMMON_TRUST + ["Model.parseDER / serializeDER mirror signature.go ParseDERSignature / Serialize (hand-written)"],
        "assumptions": ["scalar decoding inside the parser is modelled at value level (SetByteSlice = reduce once); the limb-level kernel is C06's concern"],
    },
}
