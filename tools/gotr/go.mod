module gotr

go 1.21.3
