import Secp.Proofs.FrontEcdh
import Secp.Gen.Drivers
import Secp.Proofs.Ecdh
import Secp.Props.C03
import Secp.Proofs.Slices
/-
  Props/C14 — ECDH shared secrets agree on both sides.
  Model: `Secp.Model.ecdhM` (GenerateSharedSecret: ScalarMultNonConst, ToAffine, x as 32 bytes).
  Conditional on `PointSpec`; the group facts come from `Secp.Proofs.SpecGroup` (Mathlib's group law).
-/
namespace Secp.Props.C14
open Secp.Spec Secp.Model

/-- the secret computed from a and B = b·G is the x coordinate of (a·b mod N)·G -/
theorem ecdh_spec (hp : PointSpec) (a b : Nat) (ha0 : 0 < a) (ha : a < N) (hb0 : 0 < b) (hb : b < N)
    (x y : Nat) (hB : smul b G = some (x, y)) :
    ∃ sx sy, smul ((a * b) % N) G = some (sx, sy) ∧ ecdhM a (x, y) = be32 sx :=
  Secp.Proofs.Ecdh.ecdh_spec hp a b ha0 ha hb0 hb x y hB

/-- both sides agree -/
theorem ecdh_symmetric (hp : PointSpec) (a b : Nat) (ha0 : 0 < a) (ha : a < N) (hb0 : 0 < b) (hb : b < N)
    (xa ya xb yb : Nat) (hA : smul a G = some (xa, ya)) (hB : smul b G = some (xb, yb)) :
    ecdhM a (xb, yb) = ecdhM b (xa, ya) :=
  Secp.Proofs.Ecdh.ecdh_symmetric hp a b ha0 ha hb0 hb xa ya xb yb hA hB

/-- a non-zero private key below N always has a finite public key -/
theorem pubkey_finite (a : Nat) (ha0 : 0 < a) (ha : a < N) : ∃ x y, smul a G = some (x, y) ∧ OnCurve x y :=
  Secp.Proofs.Ecdh.pubkey_finite a ha0 ha

/-! ### unconditional forms -/

theorem ecdh_symmetric_unconditional (a b : Nat) (ha0 : 0 < a) (ha : a < N) (hb0 : 0 < b) (hb : b < N)
    (xa ya xb yb : Nat) (hA : smul a G = some (xa, ya)) (hB : smul b G = some (xb, yb)) :
    ecdhM a (xb, yb) = ecdhM b (xa, ya) :=
  ecdh_symmetric Secp.Props.C03.pointSpec a b ha0 ha hb0 hb xa ya xb yb hA hB

theorem ecdh_spec_unconditional (a b : Nat) (ha0 : 0 < a) (ha : a < N) (hb0 : 0 < b) (hb : b < N)
    (x y : Nat) (hB : smul b G = some (x, y)) :
    ∃ sx sy, smul ((a * b) % N) G = some (sx, sy) ∧ ecdhM a (x, y) = be32 sx :=
  ecdh_spec Secp.Props.C03.pointSpec a b ha0 ha hb0 hb x y hB


/-- Limb level of this property's own functions: the REGENERATED sliced field programs (tools/gotr pass T2s,
    `Secp.Gen.Slices`) of `GenerateSharedSecret` (k·P, ToAffine, Bytes of a normalised x) pass the abstract interpreter on every path — no magnitude overflow, every
    comparison / parity test / serialisation reads a normalised value, every callee's precondition holds,
    every returned key or point is normalised.  Together with C05 (kernels) and C16 (`absPath_sound`,
    `contracts_justified`) this is what makes the value-level model above faithful to the limb code. -/
theorem ecdh_field_arithmetic_exact :
    Secp.Proofs.Slices.entriesOK ["github.com/ModChain/secp256k1.GenerateSharedSecret", "github.com/ModChain/secp256k1.PrivateKey.ECDH", "github.com/ModChain/secp256k1.PublicKey.AsJacobian"] = true := by decide +kernel

/-! ### Regenerated drivers (tools/gotr pass T8)

`Secp.Gen.Drivers` is REGENERATED from /repo on every check run: the Go functions below translated
statement by statement into Lean terms over the value-level primitives.  The theorems say the
regenerated definitions EQUAL the hand-written models the theorems above are about. -/

/-- `GenerateSharedSecret` regenerated = `ecdhM` (the two are the same term once the generated field writes are reduced) -/
theorem generateSharedSecret_regenerated (d : Nat) (Q : Nat × Nat) :
    Secp.Gen.Drivers.generateSharedSecret d Q = ecdhM d Q := rfl

/-- `PrivateKey.ECDH` = `GenerateSharedSecret`, never an error -/
theorem ecdh_front (d : Nat) (Q : Nat × Nat) :
    Secp.Gen.Drivers.ecdhMethod d Q = DR.ok (Secp.Gen.Drivers.generateSharedSecret d Q) :=
  Secp.Proofs.FrontEcdh.ecdh_front d Q

end Secp.Props.C14
