/-
  Proofs/PointOps — C04: the regenerated point routines (AddNonConst with result≡p1 and with a
  distinct result, DoubleNonConst with result≡p) compute the affine group law of `Spec.Curve`
  on the points their Jacobian operands represent, and preserve `Jac.WF`.
-/
import Secp.Proofs.PointOpsDbl
import Secp.Proofs.PointOpsAddG
import Secp.Proofs.PointOpsAddZ2
import Secp.Proofs.PointOpsAddZZ
import Secp.Proofs.PointOpsAdd11
import Secp.Proofs.PointOpsDispatchA
import Secp.Proofs.PointOpsDispatchP

namespace Secp.Proofs.PointOps
open Secp.Spec Secp.Model Secp.FOp Secp.Proofs

/-! ### DoubleNonConst(&q, &q) -/

theorem dblNC_eq {q r : Jac} (h : DRunA 8 q r) : dblNC q = r := by
  obtain ⟨regs, ret, hrun, htake⟩ := runEntryC_of_callE h
  unfold dblNC runNamed
  rw [idx_DoubleNonConst_a00, hrun]
  simp only [List.length_cons, List.length_nil] at htake
  show (rget regs 0, rget regs 1, rget regs 2) = r
  rw [rget_of_take htake 0 (by norm_num), rget_of_take htake 1 (by norm_num),
    rget_of_take htake 2 (by norm_num)]
  rfl

theorem pointOps_dbl : ∀ q, Jac.WF q →
    Jac.WF (dblNC q) ∧ Jac.toPt (dblNC q) = Pt.dbl (Jac.toPt q) := by
  intro q hq
  obtain ⟨r, hrun, hok⟩ := dblContractA 6 q hq
  rw [dblNC_eq hrun]
  exact hok

/-! ### spec-level facts about the identity -/

theorem Pt_add_none_left (p : Pt) : Pt.add none p = p := by
  cases p <;> rfl

theorem Pt_add_none_right (p : Pt) : Pt.add p none = p := by
  cases p <;> rfl

/-- the routine AddNonConst selects for operands with these Z coordinates -/
theorem select_cases (Z1 Z2 : Nat) :
    (Z1 = 1 ∧ Z2 = 1) ∨ (Z1 ≠ 1 ∧ Z1 = Z2) ∨ (Z1 ≠ 1 ∧ Z2 = 1) ∨ (Z1 ≠ Z2 ∧ Z2 ≠ 1) := by
  by_cases h1 : Z1 = 1 <;> by_cases h2 : Z2 = 1 <;> by_cases h3 : Z1 = Z2 <;> simp_all

/-! ### AddNonConst(&q, p, &q) -/

theorem addNC_eq {X1 Y1 Z1 X2 Y2 Z2 a b c d e g : Nat}
    (h : callE 8 1 [X1, Y1, Z1, X2, Y2, Z2] = some [a, b, c, d, e, g]) :
    addNC (X1, Y1, Z1) (X2, Y2, Z2) = (a, b, c) := by
  obtain ⟨regs, ret, hrun, htake⟩ := runEntryC_of_callE h
  unfold addNC runNamed
  rw [idx_AddNonConst_a010]
  simp only
  rw [hrun]
  simp only [List.length_cons, List.length_nil] at htake
  show (rget regs 0, rget regs 1, rget regs 2) = _
  rw [rget_of_take htake 0 (by norm_num), rget_of_take htake 1 (by norm_num),
    rget_of_take htake 2 (by norm_num)]
  rfl

theorem addNC_of_routine {Pre : Nat → Nat → Prop} {k : Nat}
    (hA : AddContract Pre (RunA 7 k) (DRunA 6)) (q p : Jac)
    (hq : Jac.WF q) (hp : Jac.WF p) (hqf : isInfJ q = false) (hpf : isInfJ p = false)
    (hpre : Pre q.2.2 p.2.2)
    (hsel : (q.2.2 = 1 ∧ p.2.2 = 1 ∧ k = 13) ∨ (q.2.2 ≠ 1 ∧ q.2.2 = p.2.2 ∧ k = 16) ∨
      (q.2.2 ≠ 1 ∧ p.2.2 = 1 ∧ k = 19) ∨ (q.2.2 ≠ p.2.2 ∧ p.2.2 ≠ 1 ∧ k = 10)) :
    AddOK q p (addNC q p) := by
  obtain ⟨r, hrun, hok⟩ := add_of_contract hA (dblContractA 4) q p hq hp hqf hpf hpre
  obtain ⟨X1, Y1, Z1⟩ := q
  obtain ⟨X2, Y2, Z2⟩ := p
  obtain ⟨a, b, c⟩ := r
  have h := disp_a_fin 7 X1 Y1 Z1 X2 Y2 Z2 k a b c hqf hpf hsel hrun
  rw [addNC_eq h]
  exact hok

theorem pointOps_add : ∀ q p, Jac.WF q → Jac.WF p →
    Jac.WF (addNC q p) ∧ Jac.toPt (addNC q p) = Pt.add (Jac.toPt q) (Jac.toPt p) := by
  intro q p hq hp
  cases hqf : isInfJ q with
  | true =>
    obtain ⟨X1, Y1, Z1⟩ := q
    obtain ⟨X2, Y2, Z2⟩ := p
    rw [addNC_eq (disp_a_qinf 7 X1 Y1 Z1 X2 Y2 Z2 hqf), toPt_of_inf hqf, Pt_add_none_left]
    exact ⟨hp, rfl⟩
  | false =>
    cases hpf : isInfJ p with
    | true =>
      obtain ⟨X1, Y1, Z1⟩ := q
      obtain ⟨X2, Y2, Z2⟩ := p
      rw [addNC_eq (disp_a_pinf 7 X1 Y1 Z1 X2 Y2 Z2 hqf hpf), toPt_of_inf hpf, Pt_add_none_right]
      exact ⟨hq, rfl⟩
    | false =>
      rcases select_cases q.2.2 p.2.2 with h | h | h | h
      · exact addNC_of_routine (addZ1AndZ2EqualsOne_a010_contract 6) q p hq hp hqf hpf ⟨h.1, h.2⟩
          (Or.inl ⟨h.1, h.2, rfl⟩)
      · exact addNC_of_routine (addZ1EqualsZ2_a010_contract 6) q p hq hp hqf hpf h.2
          (Or.inr (Or.inl ⟨h.1, h.2, rfl⟩))
      · exact addNC_of_routine (addZ2EqualsOne_a010_contract 6) q p hq hp hqf hpf h.2
          (Or.inr (Or.inr (Or.inl ⟨h.1, h.2, rfl⟩)))
      · exact addNC_of_routine (addGeneric_a010_contract 6) q p hq hp hqf hpf trivial
          (Or.inr (Or.inr (Or.inr ⟨h.1, h.2, rfl⟩)))

/-! ### AddNonConst(&a, &b, &r) -/

theorem addNC3_eq {X1 Y1 Z1 X2 Y2 Z2 a b c d e g x y z : Nat}
    (h : callE 8 0 [X1, Y1, Z1, X2, Y2, Z2, 0, 0, 0] = some [a, b, c, d, e, g, x, y, z]) :
    addNC3 (X1, Y1, Z1) (X2, Y2, Z2) = (x, y, z) := by
  obtain ⟨regs, ret, hrun, htake⟩ := runEntryC_of_callE h
  unfold addNC3 runNamed
  rw [idx_AddNonConst]
  simp only
  rw [hrun]
  simp only [List.length_cons, List.length_nil] at htake
  show (rget regs 6, rget regs 7, rget regs 8) = _
  rw [rget_of_take htake 6 (by norm_num), rget_of_take htake 7 (by norm_num),
    rget_of_take htake 8 (by norm_num)]
  rfl

theorem addNC3_of_routine {Pre : Nat → Nat → Prop} {k : Nat}
    (hA : AddContract Pre (RunP 7 k) (DRunP 6)) (q p : Jac)
    (hq : Jac.WF q) (hp : Jac.WF p) (hqf : isInfJ q = false) (hpf : isInfJ p = false)
    (hpre : Pre q.2.2 p.2.2)
    (hsel : (q.2.2 = 1 ∧ p.2.2 = 1 ∧ k = 12) ∨ (q.2.2 ≠ 1 ∧ q.2.2 = p.2.2 ∧ k = 15) ∨
      (q.2.2 ≠ 1 ∧ p.2.2 = 1 ∧ k = 18) ∨ (q.2.2 ≠ p.2.2 ∧ p.2.2 ≠ 1 ∧ k = 9)) :
    AddOK q p (addNC3 q p) := by
  obtain ⟨r, hrun, hok⟩ := add_of_contract hA (dblContractP 4) q p hq hp hqf hpf hpre
  obtain ⟨X1, Y1, Z1⟩ := q
  obtain ⟨X2, Y2, Z2⟩ := p
  obtain ⟨a, b, c⟩ := r
  have h := disp_p_fin 7 X1 Y1 Z1 X2 Y2 Z2 0 0 0 k a b c hqf hpf hsel (hrun 0 0 0)
  rw [addNC3_eq h]
  exact hok

theorem pointOps_add3 : ∀ a b, Jac.WF a → Jac.WF b →
    Jac.WF (addNC3 a b) ∧ Jac.toPt (addNC3 a b) = Pt.add (Jac.toPt a) (Jac.toPt b) := by
  intro q p hq hp
  cases hqf : isInfJ q with
  | true =>
    obtain ⟨X1, Y1, Z1⟩ := q
    obtain ⟨X2, Y2, Z2⟩ := p
    rw [addNC3_eq (disp_p_qinf 7 X1 Y1 Z1 X2 Y2 Z2 0 0 0 hqf), toPt_of_inf hqf, Pt_add_none_left]
    exact ⟨hp, rfl⟩
  | false =>
    cases hpf : isInfJ p with
    | true =>
      obtain ⟨X1, Y1, Z1⟩ := q
      obtain ⟨X2, Y2, Z2⟩ := p
      rw [addNC3_eq (disp_p_pinf 7 X1 Y1 Z1 X2 Y2 Z2 0 0 0 hqf hpf), toPt_of_inf hpf, Pt_add_none_right]
      exact ⟨hq, rfl⟩
    | false =>
      rcases select_cases q.2.2 p.2.2 with h | h | h | h
      · exact addNC3_of_routine (addZ1AndZ2EqualsOne_contract 6) q p hq hp hqf hpf ⟨h.1, h.2⟩
          (Or.inl ⟨h.1, h.2, rfl⟩)
      · exact addNC3_of_routine (addZ1EqualsZ2_contract 6) q p hq hp hqf hpf h.2
          (Or.inr (Or.inl ⟨h.1, h.2, rfl⟩))
      · exact addNC3_of_routine (addZ2EqualsOne_contract 6) q p hq hp hqf hpf h.2
          (Or.inr (Or.inr (Or.inl ⟨h.1, h.2, rfl⟩)))
      · exact addNC3_of_routine (addGeneric_contract 6) q p hq hp hqf hpf trivial
          (Or.inr (Or.inr (Or.inr ⟨h.1, h.2, rfl⟩)))

end Secp.Proofs.PointOps
