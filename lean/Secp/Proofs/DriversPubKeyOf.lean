import Secp.Gen.Drivers
/-
  Proofs/DriversMisc — the regenerated value-level drivers of privkey.go and of the compact
  signature export (Gen/Drivers.lean: privKeyFromBytes, pubKey, exportCompact, signCompact,
  generatePrivateKey_loop, generatePrivateKey) equal the hand-written models of
  Model/PrivKey.lean and Model/Ecdsa.lean.
-/
namespace Secp.Proofs.DriversPubKeyOf
open Secp.Spec Secp.Model

/-! ### PrivKeyFromBytes -/

/-! ### PrivateKey.PubKey -/

theorem pubKey_regenerated (d : Nat) :
    Secp.Gen.Drivers.pubKey d
      = ((toAffineJ (scalarBaseMultNC d)).1, (toAffineJ (scalarBaseMultNC d)).2.1) := by
  simp only [Secp.Gen.Drivers.pubKey]

/-! ### Signature.ExportCompact -/

/-! ### SignCompact -/

/-! ### generatePrivateKey -/

end Secp.Proofs.DriversPubKeyOf
