import Secp.Model.Ecdsa
import Secp.Model.PubKey
import Secp.Spec.Sha256
/-
  Model/Bip32 — ecckd/extended.go, hmac.go, utils.go, version.go.
  HMAC-SHA512, RIPEMD160∘SHA256 and base58 are parameters (answered from an oracle table in the
  driver); SHA-256 (checksums) is `Secp.Spec.sha256`.  Point arithmetic goes through the same
  regenerated programs as the rest of the models (the code uses the crypto/elliptic adaptor).
-/
namespace Secp.Model
open Secp.Spec

structure Oracles where
  hmac512 : Bytes → Bytes → Bytes     -- key, data ↦ 64 bytes
  hash160 : Bytes → Bytes             -- RIPEMD160(SHA256(x)) ↦ 20 bytes

inductive BipErr where
  | ErrInvalidKey | ErrInvalidSeed | ErrDerivingHardenedFromPublic | ErrBadChecksum | ErrInvalidKeyLen
  | ErrMaxDepthExceeded | ErrInvalidPrivateFlag | ErrShaKeyInvalid | Pub (e : PubErr)
  deriving Repr, DecidableEq

def BipErr.name : BipErr → String
  | .ErrInvalidKey => "ErrInvalidKey" | .ErrInvalidSeed => "ErrInvalidSeed"
  | .ErrDerivingHardenedFromPublic => "ErrDerivingHardenedFromPublic" | .ErrBadChecksum => "ErrBadChecksum"
  | .ErrInvalidKeyLen => "ErrInvalidKeyLen" | .ErrMaxDepthExceeded => "ErrMaxDepthExceeded"
  | .ErrInvalidPrivateFlag => "ErrInvalidPrivateFlag" | .ErrShaKeyInvalid => "ErrShaKeyInvalid"
  | .Pub e => e.name

structure ExtKey where
  version : Bytes      -- 4 bytes
  depth : Nat
  fingerprint : Bytes  -- 4 bytes
  childNumber : Nat
  keyData : Bytes
  chainCode : Bytes
  deriving Repr, DecidableEq

def mainnetPub : Bytes := [0x04, 0x88, 0xb2, 0x1e]
def mainnetPriv : Bytes := [0x04, 0x88, 0xad, 0xe4]
def testnetPub : Bytes := [0x04, 0x35, 0x87, 0xcf]
def testnetPriv : Bytes := [0x04, 0x35, 0x83, 0x94]

def versionIsPrivate (v : Bytes) : Bool := v == mainnetPriv || v == testnetPriv
def versionToPublic (v : Bytes) : Bytes :=
  if v == mainnetPriv then mainnetPub else if v == testnetPriv then testnetPub else v

def ExtKey.isPrivate (k : ExtKey) : Bool := versionIsPrivate k.version

/-- `hmacCKD(seed, salt)` : (key, chainCode, valid?) -/
def hmacCKD (O : Oracles) (seed salt : Bytes) : Bytes × Bytes × Bool :=
  let I := O.hmac512 salt seed
  let key := I.take 32
  let cc := I.drop 32
  let v := beNat key
  (key, cc, !(v ≥ N || v == 0))

/-- `moduloReduce` + `SetByteSlice` of the adaptor: a byte string as a scalar -/
def adaptorScalar (k : Bytes) : Nat :=
  let k' := if k.length > 32 then minBytes (beNat k % N) else k
  (scalarSetByteSlice k').1

/-- `curve.ScalarBaseMult(k)` as affine big integers ((0,0) for the identity) -/
def adaptorBaseMult (k : Bytes) : Nat × Nat :=
  let A := toAffineJ (scalarBaseMultNC (adaptorScalar k))
  (A.1, A.2.1)

/-- `bigAffineToJacobian`: coordinates via `big.Int.Bytes()` then `SetByteSlice` (value mod 2^256, stored as is) -/
def bigToField (v : Nat) : Nat := beNat ((minBytes v).take 32) % P

/-- `curve.Add(x1,y1,x2,y2)` -/
def adaptorAdd (p q : Nat × Nat) : Nat × Nat :=
  if p.1 = 0 ∧ p.2 = 0 then q else
  if q.1 = 0 ∧ q.2 = 0 then p else
  let A := toAffineJ (addNC3 (bigToField p.1, bigToField p.2, 1) (bigToField q.1, bigToField q.2, 1))
  (A.1, A.2.1)

/-- `serializeCompressedEcdsa` -/
def serCompressedXY (p : Nat × Nat) : Bytes :=
  (if p.2 % 2 = 0 then (0x02 : UInt8) else 0x03) :: beBytes 32 p.1

/-- `k.pubKeyBytes()` -/
def ExtKey.pubKeyBytes (k : ExtKey) : Bytes :=
  if !k.isPrivate then k.keyData else serCompressedXY (adaptorBaseMult k.keyData)

/-- `FromPublicKey(pub, chainCode)`: a depth-0 mainnet-public key around the caller's coordinates — the point is not
    validated and the coordinates are not reduced; the only failure is a chain code that is not 32 bytes long -/
def fromPublicKey (x y : Nat) (cc : Bytes) : Except Unit ExtKey :=
  if cc.length ≠ 32 then .error () else
  .ok { version := mainnetPub, depth := 0, fingerprint := [0, 0, 0, 0], childNumber := 0,
        keyData := serCompressedXY (x, y), chainCode := cc }

def ser32 (i : Nat) : Bytes := beBytes 4 i

/-- Go `copy(dst[off:], src)` -/
def copyAt (dst : Bytes) (off : Nat) (src : Bytes) : Bytes :=
  dst.take off ++ (src.take (dst.length - off)) ++ dst.drop (min dst.length (off + src.length))

/-- `ChildWithIL(i)` : (I_L, child) -/
def childWithIL (O : Oracles) (k : ExtKey) (i : Nat) : Except BipErr (Nat × ExtKey) :=
  if k.depth = 0xff then .error .ErrMaxDepthExceeded else
  let hardened := i ≥ 0x80000000
  if !k.isPrivate && hardened then .error .ErrDerivingHardenedFromPublic else
  let seed0 := List.replicate 37 (0 : UInt8)
  let seed1 := if hardened then copyAt seed0 1 k.keyData else copyAt seed0 0 k.pubKeyBytes
  let seed := copyAt seed1 33 (ser32 i)
  let (secretKey, chainCode, ok) := hmacCKD O seed k.chainCode
  if !ok then .error .ErrShaKeyInvalid else
  let il := beNat secretKey
  let fp := (O.hash160 k.pubKeyBytes).take 4
  if k.isPrivate then
    let keyNum := (il + beNat k.keyData) % N
    let kd := minBytes keyNum
    let kd := if kd.length < 32 then List.replicate (32 - kd.length) 0 ++ kd else kd
    .ok (il, { version := k.version, depth := k.depth + 1, fingerprint := fp, childNumber := i,
               keyData := kd, chainCode := chainCode })
  else
    let kp := adaptorBaseMult secretKey
    if kp.1 = 0 ∨ kp.2 = 0 then .error .ErrInvalidKey else
    match parsePubKey k.keyData with
    | .err e => .error (.Pub e)
    | .panic => .error .ErrInvalidKey
    | .ok pub =>
      let c := adaptorAdd kp pub
      -- NewPublicKey(asFV(x), asFV(y)).SerializeCompressed()
      let cx := bigToField c.1
      let cy := bigToField c.2
      .ok (il, { version := versionToPublic k.version, depth := k.depth + 1, fingerprint := fp, childNumber := i,
                 keyData := serializeCompressed cx cy, chainCode := chainCode })

/-- `DeriveWithIL(path)` : accumulated tweak (none for the empty path) and final key -/
def deriveWithIL (O : Oracles) : ExtKey → List Nat → Option Nat → Except BipErr (Option Nat × ExtKey)
  | k, [], il => .ok (il, k)
  | k, i :: rest, il =>
    match childWithIL O k i with
    | .error e => .error e
    | .ok (cur, c) =>
      let il' := match il with | none => cur | some a => (a + cur) % N
      deriveWithIL O c rest (some il')

/-- `Public()` -/
def ExtKey.neuter (k : ExtKey) : ExtKey :=
  if !k.isPrivate then k else { k with version := versionToPublic k.version, keyData := k.pubKeyBytes }

/-- `FromSeed(seed, masterSecret)` -/
def fromSeed (O : Oracles) (seed masterSecret : Bytes) : Except BipErr ExtKey :=
  let (key, cc, ok) := hmacCKD O seed masterSecret
  if !ok then .error .ErrShaKeyInvalid else
  .ok { version := mainnetPriv, depth := 0, fingerprint := [0, 0, 0, 0], childNumber := 0, keyData := key, chainCode := cc }

def doubleSha256 (b : Bytes) : Bytes := sha256 (sha256 b)

/-- `paddedAppend(size, dst, src)` with dst's spare capacity `spare` -/
def paddedAppend (size : Nat) (dst : Bytes) (spare : Nat) (src : Bytes) : Bytes :=
  if src.length < size then
    let appd := size - src.length
    if spare ≥ appd then dst ++ List.replicate appd 0 ++ src
    else dst ++ src      -- the reallocation branch builds a padded copy and drops it (O1); unreachable from MarshalBinary
  else dst ++ src

/-- `MarshalBinary()` -/
def ExtKey.marshal (k : ExtKey) : Bytes :=
  let b := k.version ++ [UInt8.ofNat k.depth] ++ k.fingerprint ++ ser32 k.childNumber ++ k.chainCode
  let b := if k.isPrivate then paddedAppend 32 (b ++ [0x00]) (82 - (b.length + 1)) k.keyData else b ++ k.pubKeyBytes
  b ++ (doubleSha256 b).take 4

/-- `UnmarshalBinary(data)` -/
def unmarshal (data : Bytes) : Except BipErr ExtKey :=
  if data.length ≠ 82 then .error .ErrInvalidKeyLen else
  let payload := data.take 78
  let checkSum := data.drop 78
  if checkSum ≠ (doubleSha256 payload).take 4 then .error .ErrBadChecksum else
  let version := payload.take 4
  let depth := (payload.getD 4 0).toNat
  let fingerprint := (payload.take 9).drop 5
  let childNumber := beNat ((payload.take 13).drop 9)
  let chainCode := (payload.take 45).drop 13
  let keyData := (payload.take 78).drop 45
  let isPrivate := keyData.headD 1 == 0
  if isPrivate != versionIsPrivate version then .error .ErrInvalidPrivateFlag else
  if isPrivate then
    let kd := keyData.drop 1
    let keyNum := beNat kd
    if keyNum ≥ N ∨ keyNum = 0 then .error .ErrInvalidSeed else
    .ok { version, depth, fingerprint, childNumber, keyData := kd, chainCode }
  else
    match parsePubKey keyData with
    | .err e => .error (.Pub e)
    | .panic => .error .ErrInvalidKey
    | .ok _ => .ok { version, depth, fingerprint, childNumber, keyData, chainCode }

end Secp.Model
