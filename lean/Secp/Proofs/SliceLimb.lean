import Secp.Core.FSlice
import Secp.Model.LimbExec
import Secp.Proofs.AbsSound
/-
  Proofs/SliceLimb — a LIMB-LEVEL meaning for the sliced abstract interpreter `FOp.absS`
  (Core/FSlice) on loop-free paths.

  `ExecS cs bools strict items (rl, rv) s'` is a paired execution of a marker-free sliced path on
  limb registers `rl` (every field operation is the regenerated kernel, `Model.stepL` / `condL`) and
  on value registers `rv` (`FOp.stepF` / `condF`).  What is sliced away is modelled by its contract:
  `havoc d m nrm` writes ANY limb value / field value pair realising `(m, nrm)`; `callC c args` writes
  any values realising the callee's postcondition.  With `strict = true` every `chk` and every callee
  precondition is additionally REQUIRED to hold on the limbs; with `strict = false` they are ignored.

  MAIN (`absS_limb_sound`): if `absS` accepts the path from σ then, from every limb register file
  realising σ, every lax execution is a strict execution and ends in a state realising the
  interpreter's result.

  Core-only (no Mathlib).
-/
namespace Secp.Proofs.SliceLimb
open Secp.FOp Secp.Model Secp.Limbs Secp.Spec
open Secp.Proofs.AbsSound

/-! ### definitions -/

/-- the limb value x and the field value y realise the abstract value (m, nrm): exactly the
    per-register components of `Model.Rel` -/
def Realises (x : L10) (y : Nat) (m : Nat) (nrm : Bool) : Prop :=
  x.U32 ∧ x.MagLE m ∧ (nrm = true → x.Normalized) ∧ x.val % P = y % P ∧ (nrm = true → y < P)

/-- the limb value x meets the requirement r of a contract (`none`: no requirement) -/
def MeetsL (x : L10) : Option (Nat × Bool) → Prop
  | none => True
  | some (m, nrm) => x.MagLE m ∧ (nrm = true → x.Normalized)

/-- every argument register meets the callee's precondition at limb level (and the arities agree) -/
def PreL (rl : LRegs) : List Nat → List (Option (Nat × Bool)) → Prop
  | [], [] => True
  | a :: as, r :: rs => MeetsL (lget rl a) r ∧ PreL rl as rs
  | _, _ => False

/-- the effect of a contracted call: for each `(i, av)` of the postcondition, in order, register
    `args[i]` is replaced by a limb value / field value pair realising `av` -/
inductive PostHavoc (args : List Nat) : List (Nat × AV) → (LRegs × Regs) → (LRegs × Regs) → Prop
  | nil (s : LRegs × Regs) : PostHavoc args [] s s
  | cons {i : Nat} {av : AV} {rest : List (Nat × AV)} {rl : LRegs} {rv : Regs} {x : L10} {y : Nat}
      {s' : LRegs × Regs} :
      Realises x y av.1 av.2 →
      PostHavoc args rest (lset rl (args.getD i 0) x, rset rv (args.getD i 0) y) s' →
      PostHavoc args ((i, av) :: rest) (rl, rv) s'

/-- paired (limb, value) execution of a marker-free sliced path.  Loop markers and `.p (.call ..)`
    have no rule: paths containing them are not related to anything. -/
inductive ExecS (cs : List Contract) (bools : List Bool) (strict : Bool) :
    List SItem → (LRegs × Regs) → (LRegs × Regs) → Prop
  | nil (s : LRegs × Regs) : ExecS cs bools strict [] s s
  | op {o : FOp} {rest : List SItem} {rl : LRegs} {rv : Regs} {s' : LRegs × Regs} :
      ExecS cs bools strict rest (stepL rl o, stepF rv o) s' →
      ExecS cs bools strict (.p (.op o) :: rest) (rl, rv) s'
  | assume {c : FCond} {v : Bool} {rest : List SItem} {rl : LRegs} {rv : Regs} {s' : LRegs × Regs} :
      condL rl bools c = v → condF rv bools c = v →
      ExecS cs bools strict rest (rl, rv) s' →
      ExecS cs bools strict (.p (.assume c v) :: rest) (rl, rv) s'
  | chk {a m : Nat} {nrm : Bool} {rest : List SItem} {rl : LRegs} {rv : Regs} {s' : LRegs × Regs} :
      (strict = true → (lget rl a).MagLE m ∧ (nrm = true → (lget rl a).Normalized)) →
      ExecS cs bools strict rest (rl, rv) s' →
      ExecS cs bools strict (.chk a m nrm :: rest) (rl, rv) s'
  | havoc {d m : Nat} {nrm : Bool} {x : L10} {y : Nat} {rest : List SItem} {rl : LRegs} {rv : Regs}
      {s' : LRegs × Regs} :
      d < rl.length → Realises x y m nrm →
      ExecS cs bools strict rest (lset rl d x, rset rv d y) s' →
      ExecS cs bools strict (.havoc d m nrm :: rest) (rl, rv) s'
  | callC {c : Nat} {args : List Nat} {k : Contract} {rest : List SItem} {rl : LRegs} {rv : Regs}
      {s1 s' : LRegs × Regs} :
      cs[c]? = some k →
      (strict = true → PreL rl args k.pre) →
      PostHavoc args k.post (rl, rv) s1 →
      ExecS cs bools strict rest s1 s' →
      ExecS cs bools strict (.callC c args :: rest) (rl, rv) s'

/-- the registers a sliced item mentions -/
def sitemRegs : SItem → List Nat
  | .p (.op o) => opRegs o
  | .p (.assume c _) => condRegs c
  | .p (.call _ args) => args
  | .chk a _ _ => [a]
  | .havoc d _ _ => [d]
  | .callC _ args => args
  | .loopBegin => []
  | .loopEnd => []
  | .loopBreak => []

/-- every register index mentioned by the items is below n -/
def SInRange (n : Nat) (items : List SItem) : Prop := ∀ it ∈ items, ∀ i ∈ sitemRegs it, i < n

instance (n : Nat) (items : List SItem) : Decidable (SInRange n items) := by
  unfold SInRange; infer_instance

/-! ### auxiliary lemmas -/

theorem lset_length (rl : LRegs) (d : Nat) (x : L10) : (lset rl d x).length = rl.length := by
  simp [lset]

/-- `Realises` is what `rel_update` consumes -/
theorem rel_havoc {σ : AState} {rl : LRegs} {rv : Regs} {d m : Nat} {nrm : Bool} {x : L10} {y : Nat}
    (hd : d < rl.length) (hrel : Rel σ rl rv) (hx : Realises x y m nrm) :
    Rel (aset σ d (m, nrm)) (lset rl d x) (rset rv d y) :=
  rel_update σ rl rv d m nrm x y hd hrel hx.1 hx.2.1 hx.2.2.1 hx.2.2.2.1 hx.2.2.2.2

/-- a related register realises its abstract value -/
theorem Rel.realises {σ : AState} {rl : LRegs} {rv : Regs} (h : Rel σ rl rv) {i m : Nat} {nrm : Bool}
    (hi : aget σ i = some (m, nrm)) : Realises (lget rl i) (rget rv i) m nrm :=
  ⟨Rel.u32 h i, Rel.at h hi⟩

/-- the abstract requirement check implies the requirement on the limbs -/
theorem meets_sound {σ : AState} {rl : LRegs} {rv : Regs} (hrel : Rel σ rl rv) (a : Nat)
    (r : Option (Nat × Bool)) (h : meets (aget σ a) r = true) : MeetsL (lget rl a) r := by
  cases r with
  | none => trivial
  | some q =>
    obtain ⟨m, nrm⟩ := q
    cases ha : aget σ a with
    | none => simp [meets, ha] at h
    | some v =>
      obtain ⟨mv, nv⟩ := v
      simp only [meets, ha, Bool.and_eq_true, decide_eq_true_eq, Bool.or_eq_true,
        Bool.not_eq_true'] at h
      obtain ⟨hM, hN, -, -⟩ := Rel.at hrel ha
      refine ⟨MagLE.mono hM h.1, ?_⟩
      intro e
      rcases h.2 with h2 | h2
      · rw [h2] at e; cases e
      · exact hN h2

theorem preOK_sound {σ : AState} {rl : LRegs} {rv : Regs} (hrel : Rel σ rl rv) :
    ∀ (args : List Nat) (pre : List (Option (Nat × Bool))), preOK σ args pre = true → PreL rl args pre
  | [], [], _ => trivial
  | [], _ :: _, h => by simp [preOK] at h
  | _ :: _, [], h => by simp [preOK] at h
  | a :: as, r :: rs, h => by
    simp only [preOK, Bool.and_eq_true] at h
    exact ⟨meets_sound hrel a r h.1, preOK_sound hrel as rs h.2⟩

theorem getD_mem_of_lt (args : List Nat) (i : Nat) (h : i < args.length) : args.getD i 0 ∈ args := by
  rw [List.getD_eq_getElem?_getD, List.getElem?_eq_getElem h]
  exact List.getElem_mem h

/-- a contracted call's effect keeps limbs and values related, for the abstract state `applyPost` -/
theorem postHavoc_sound (args : List Nat) (post : List (Nat × AV)) (σ : AState) (s s' : LRegs × Regs)
    (hp : postInRange args.length post = true) (hargs : ∀ a ∈ args, a < s.1.length)
    (hrel : Rel σ s.1 s.2) (hex : PostHavoc args post s s') :
    Rel (applyPost σ args post) s'.1 s'.2 ∧ s'.1.length = s.1.length := by
  induction hex generalizing σ with
  | nil s => exact ⟨hrel, rfl⟩
  | @cons i av rest rl rv x y s' hx _ ih =>
    simp only [postInRange, List.all_cons, Bool.and_eq_true, decide_eq_true_eq] at hp
    obtain ⟨⟨hi, _⟩, hrest⟩ := hp
    have hd : args.getD i 0 < rl.length := hargs _ (getD_mem_of_lt args i hi)
    obtain ⟨m, nrm⟩ := av
    have hrel1 := rel_havoc hd hrel hx
    have hlen := lset_length rl (args.getD i 0) x
    have := ih (aset σ (args.getD i 0) (m, nrm)) (by simpa [postInRange] using hrest)
      (by intro a ha; show a < (lset rl (args.getD i 0) x).length; rw [hlen]; exact hargs a ha) hrel1
    exact ⟨this.1, this.2.trans hlen⟩

/-! ### the main theorem -/

theorem absS_limb_sound' (cs : List Contract) (bools : List Bool) (items : List SItem) (σ σ' : AState)
    (s s' : LRegs × Regs)
    (hir : SInRange s.1.length items)
    (habs : absS cs items σ [] = some σ') (hrel : Rel σ s.1 s.2)
    (hex : ExecS cs bools false items s s') :
    ExecS cs bools true items s s' ∧ Rel σ' s'.1 s'.2 := by
  induction hex generalizing σ with
  | nil s =>
    simp only [absS] at habs
    have habs := Option.some.inj habs
    subst habs
    exact ⟨ExecS.nil s, hrel⟩
  | @op o rest rl rv s' _ ih =>
    have hit : ∀ i ∈ opRegs o, i < rl.length := hir _ (List.mem_cons_self ..)
    have hrest : SInRange rl.length rest := fun x hx => hir x (List.mem_cons_of_mem _ hx)
    cases hs : stepA σ o with
    | none => simp [absS, hs] at habs
    | some σ1 =>
      simp only [absS, hs] at habs
      have hrel1 := step_sound σ σ1 o rl rv hit hs hrel
      have hlen := stepL_length rl o
      obtain ⟨h1, h2⟩ := ih σ1 (by show SInRange (stepL rl o).length rest; rw [hlen]; exact hrest) habs hrel1
      exact ⟨ExecS.op h1, h2⟩
  | @assume c v rest rl rv s' hl hf _ ih =>
    have hrest : SInRange rl.length rest := fun x hx => hir x (List.mem_cons_of_mem _ hx)
    simp only [absS] at habs
    by_cases hc : condA σ c = true
    · rw [if_pos hc] at habs
      obtain ⟨h1, h2⟩ := ih σ hrest habs hrel
      exact ⟨ExecS.assume hl hf h1, h2⟩
    · rw [if_neg hc] at habs
      exact absurd habs (by simp)
  | @chk a m nrm rest rl rv s' _ _ ih =>
    have hrest : SInRange rl.length rest := fun x hx => hir x (List.mem_cons_of_mem _ hx)
    cases ha : aget σ a with
    | none => simp [absS, ha] at habs
    | some w =>
      obtain ⟨ma, na⟩ := w
      simp only [absS, ha] at habs
      by_cases hc : ma ≤ m ∧ (nrm = true → na = true)
      · rw [if_pos hc] at habs
        obtain ⟨hM, hN, -, -⟩ := Rel.at hrel ha
        obtain ⟨h1, h2⟩ := ih σ hrest habs hrel
        exact ⟨ExecS.chk (fun _ => ⟨MagLE.mono hM hc.1, fun e => hN (hc.2 e)⟩) h1, h2⟩
      · rw [if_neg hc] at habs
        exact absurd habs (by simp)
  | @havoc d m nrm x y rest rl rv s' hd hx _ ih =>
    have hrest : SInRange rl.length rest := fun x hx => hir x (List.mem_cons_of_mem _ hx)
    simp only [absS] at habs
    by_cases hc : m ≤ maxMag
    · rw [if_pos hc] at habs
      have hrel1 := rel_havoc hd hrel hx
      have hlen := lset_length rl d x
      obtain ⟨h1, h2⟩ := ih (aset σ d (m, nrm))
        (by show SInRange (lset rl d x).length rest; rw [hlen]; exact hrest) habs hrel1
      exact ⟨ExecS.havoc hd hx h1, h2⟩
    · rw [if_neg hc] at habs
      exact absurd habs (by simp)
  | @callC c args k rest rl rv s1 s' hk _ hpost _ ih =>
    have hargs : ∀ a ∈ args, a < rl.length := hir _ (List.mem_cons_self ..)
    have hrest : SInRange rl.length rest := fun x hx => hir x (List.mem_cons_of_mem _ hx)
    simp only [absS, hk] at habs
    by_cases hc : preOK σ args k.pre = true ∧ postInRange args.length k.post = true
    · rw [if_pos hc] at habs
      obtain ⟨hrel1, hlen⟩ := postHavoc_sound args k.post σ (rl, rv) s1 hc.2 hargs hrel hpost
      obtain ⟨h1, h2⟩ := ih (applyPost σ args k.post) (by rw [hlen]; exact hrest) habs hrel1
      exact ⟨ExecS.callC hk (fun _ => preOK_sound hrel args k.pre hc.1) hpost h1, h2⟩
    · rw [if_neg hc] at habs
      exact absurd habs (by simp)

/-- If the abstract interpreter accepts a marker-free sliced path from σ, then for ALL limb registers
    realising σ every lax execution is a strict execution — every `chk` really holds on the limbs (the
    value read by PutBytes / Bytes / IsOddBit / IsGtOrEqPrimeMinusOrder, or returned inside a
    PublicKey, IS normalised; every callee's precondition holds on the limbs) — and ends in a state
    realising the interpreter's result: limbs and values stay related, i.e. no field operation wrapped
    and every comparison saw normalised operands. -/
theorem absS_limb_sound (cs : List Contract) (bools : List Bool) (items : List SItem) (σ σ' : AState)
    (rl : LRegs) (rv : Regs) (s' : LRegs × Regs)
    (hir : SInRange rl.length items)
    (habs : absS cs items σ [] = some σ') (hrel : Rel σ rl rv)
    (hex : ExecS cs bools false items (rl, rv) s') :
    ExecS cs bools true items (rl, rv) s' ∧ Rel σ' s'.1 s'.2 :=
  absS_limb_sound' cs bools items σ σ' (rl, rv) s' hir habs hrel hex

/-! ### corollaries -/

theorem aget_lt {σ : AState} {i : Nat} {v : AV} (h : aget σ i = some v) : i < σ.length := by
  unfold aget at h
  by_cases hi : i < σ.length
  · exact hi
  · rw [List.getElem?_eq_none (Nat.le_of_not_lt hi)] at h
    simp at h

/-- a predicate the abstract interpreter accepts only mentions registers the abstract state knows -/
theorem condA_regs {σ : AState} {c : FCond} (h : condA σ c = true) : ∀ i ∈ condRegs c, i < σ.length := by
  intro i hi
  cases c with
  | equals a b =>
    simp only [condA, Bool.and_eq_true] at h
    obtain ⟨ma, ha⟩ := any_snd h.1
    obtain ⟨mb, hb⟩ := any_snd h.2
    simp only [condRegs, List.mem_cons, List.not_mem_nil, or_false] at hi
    rcases hi with rfl | rfl
    · exact aget_lt ha
    · exact aget_lt hb
  | isZero a =>
    simp only [condA] at h
    obtain ⟨ma, ha⟩ := any_snd h
    simp only [condRegs, List.mem_cons, List.not_mem_nil, or_false] at hi
    subst hi; exact aget_lt ha
  | isOne a =>
    simp only [condA] at h
    obtain ⟨ma, ha⟩ := any_snd h
    simp only [condRegs, List.mem_cons, List.not_mem_nil, or_false] at hi
    subst hi; exact aget_lt ha
  | isOdd a =>
    simp only [condA] at h
    obtain ⟨ma, ha⟩ := any_snd h
    simp only [condRegs, List.mem_cons, List.not_mem_nil, or_false] at hi
    subst hi; exact aget_lt ha
  | boolIn j => simp [condRegs] at hi

/-- on an accepted path the limb-level and value-level predicates agree at every assume -/
theorem assume_agree (σ : AState) (c : FCond) (rl : LRegs) (rv : Regs) (bools : List Bool)
    (hrel : Rel σ rl rv) (hc : condA σ c = true) : condL rl bools c = condF rv bools c :=
  cond_sound σ c rl rv bools (fun i hi => Nat.lt_of_lt_of_le (condA_regs hc i hi) hrel.2.1) hc hrel

/-- hence, on a state realising σ with `condA σ c`, the limb-level premise of `ExecS.assume` follows
    from the value-level one: the Go code takes the branch the value-level model takes -/
theorem ExecS.assume_of_value {cs : List Contract} {bools : List Bool} {strict : Bool} {σ : AState}
    {c : FCond} {v : Bool} {rest : List SItem} {rl : LRegs} {rv : Regs} {s' : LRegs × Regs}
    (hrel : Rel σ rl rv) (hc : condA σ c = true) (hf : condF rv bools c = v)
    (h : ExecS cs bools strict rest (rl, rv) s') :
    ExecS cs bools strict (.p (.assume c v) :: rest) (rl, rv) s' :=
  ExecS.assume ((assume_agree σ c rl rv bools hrel hc).trans hf) hf h

end Secp.Proofs.SliceLimb
