//go:build verif

package main

import (
	"bytes"
	"errors"
	"math/big"

	"github.com/ModChain/blake256"
	secp "github.com/ModChain/secp256k1"
	"github.com/ModChain/secp256k1/schnorr"
)

func schnorrErrKind(err error) string {
	var e schnorr.Error
	if errors.As(err, &e) {
		var k schnorr.ErrorKind
		if errors.As(e.Err, &k) {
			return string(k)
		}
	}
	return "other:" + err.Error()
}

func blakeOracle(in []byte) string {
	h := blake256.Sum256(in)
	return "oracle=" + hx(in) + ":" + hx(h[:])
}

func init() {
	// schnorr_sign <d> <hash> → ok r s  (+ the BLAKE-256 answer the model needs)
	opImpl["schnorr_sign"] = func(a []string) string {
		key := secp.NewPrivateKey(scalarFromHex(a[0]))
		hash := unhx(a[1])
		return withArgsCheck([][]byte{hash}, func() string {
			sig, err := schnorr.Sign(key, hash)
			if err != nil {
				return "err " + schnorrErrKind(err)
			}
			sig2, _ := schnorr.Sign(key, hash)
			if !sig.IsEqual(sig2) {
				return "NONDETERMINISTIC"
			}
			if !sig.Verify(hash, key.PubKey()) {
				return "SELF-VERIFY-FAILED"
			}
			out := hx(sig.Serialize())
			// what Serialize hands out belongs to the caller: overwriting it changes neither the object nor later answers
			if m := scribbleStable("schnorr.Signature.Serialize", func() []byte { return sig.Serialize() }); m != "" {
				return m
			}
			if !sig.Verify(hash, key.PubKey()) || hx(sig.Serialize()) != out {
				return "OBJECT-CHANGED-BY-CALLER-WRITE"
			}
			return "ok " + out
		})
	}
	opImpl["schnorr_sign_nonce"] = func(a []string) string {
		sig, err := schnorr.VerifSchnorrSign(scalarFromHex(a[0]), scalarFromHex(a[1]), unhx(a[2]))
		if err != nil {
			return "err " + schnorrErrKind(err)
		}
		return "ok " + hx(sig.Serialize())
	}
	// schnorr_verify <sig64> <hash> <Qx> <Qy>
	opImpl["schnorr_verify"] = func(a []string) string {
		sb, hash := unhx(a[0]), unhx(a[1])
		sig, err := schnorr.ParseSignature(sb)
		if err != nil {
			return "parse-err " + schnorrErrKind(err)
		}
		pub := pubFromXY(a[2], a[3])
		return withArgsCheck([][]byte{sb, hash}, func() string {
			if err := schnorr.VerifSchnorrVerify(sig, hash, pub); err != nil {
				return "err " + schnorrErrKind(err)
			}
			return "ok"
		})
	}
	opImpl["schnorr_parse"] = func(a []string) string {
		b := unhx(a[0])
		return withArgsCheck([][]byte{b}, func() string {
			sig, err := schnorr.ParseSignature(b)
			if err != nil {
				return "err " + schnorrErrKind(err)
			}
			out := hx(sig.Serialize())
			if m := scribbleStable("schnorr.Signature.Serialize", func() []byte { return sig.Serialize() }); m != "" {
				return m
			}
			return "ok " + out
		})
	}
	generators["C11"] = genC11
}

// scribbleStable: a method that returns bytes must hand out memory of its own — after the caller overwrites the
// returned slice the next call still gives the original answer
func scribbleStable(name string, get func() []byte) string {
	b1 := get()
	want := append([]byte{}, b1...)
	for i := range b1 {
		b1[i] ^= 0xa5
	}
	if b2 := get(); !bytes.Equal(b2, want) {
		return "RETURNS-INTERNAL-BUFFER " + name
	}
	return ""
}

// the op line carries the BLAKE-256 answers as trailing oracle=in:out fields
func withBlake(op string, ins ...[]byte) string {
	for _, in := range ins {
		op += " " + blakeOracle(in)
	}
	return op
}

func (h *H) doLine(class, line string) { h.emit(class, line, h.runOp(line)) }

func genC11(h *H) {
	n := 10 * h.budget
	for i := 0; i < n; i++ {
		d := h.randKeyInt()
		key := secp.NewPrivateKey(scalarFromHex(hx(be32(d))))
		hash := h.randBytes(32)
		switch i % 3 {
		case 1: // messages at or above the group order, read as integers (nothing in the scheme reduces m)
			hash = be32([]*big.Int{curveN, new(big.Int).Add(curveN, big.NewInt(1)), new(big.Int).Sub(new(big.Int).Lsh(big.NewInt(1), 256), big.NewInt(1)),
				new(big.Int).Add(curveN, new(big.Int).SetBytes(h.randBytes(15)))}[h.rng.Intn(4)])
		case 2:
			if v := h.chainWalk(curveN, 32, 8); v.BitLen() <= 256 {
				hash = be32(v)
			}
		}
		sig, err := schnorr.Sign(key, hash)
		if err != nil {
			continue
		}
		sb := sig.Serialize()
		u := key.PubKey().SerializeUncompressed()
		qx, qy := hx(u[1:33]), hx(u[33:65])
		h.doLine("sign", withBlake("schnorr_sign "+hx(be32(d))+" "+hx(hash), append(append([]byte{}, sb[:32]...), hash...)))
		h.doLine("verify-valid", withBlake("schnorr_verify "+hx(sb)+" "+hx(hash)+" "+qx+" "+qy, append(append([]byte{}, sb[:32]...), hash...)))
		// tampered r / s / m
		for _, which := range []int{0, 1, 2} {
			s2 := append([]byte{}, sb...)
			h2 := append([]byte{}, hash...)
			switch which {
			case 0:
				s2[h.rng.Intn(32)] ^= 1 << uint(h.rng.Intn(8))
			case 1:
				s2[32+h.rng.Intn(32)] ^= 1 << uint(h.rng.Intn(8))
			case 2:
				h2[h.rng.Intn(32)] ^= 1 << uint(h.rng.Intn(8))
			}
			h.doLine("verify-tampered", withBlake("schnorr_verify "+hx(s2)+" "+hx(h2)+" "+qx+" "+qy, append(append([]byte{}, s2[:32]...), h2...)))
		}
		// wrong key, off-curve key, wrong message length
		x2, y2 := h.randPoint()
		h.doLine("verify-wrong-key", withBlake("schnorr_verify "+hx(sb)+" "+hx(hash)+" "+hx(x2)+" "+hx(y2), append(append([]byte{}, sb[:32]...), hash...)))
		h.doLine("verify-off-curve", withBlake("schnorr_verify "+hx(sb)+" "+hx(hash)+" "+qx+" "+hx(y2), append(append([]byte{}, sb[:32]...), hash...)))
		for _, l := range []int{0, 31, 33} {
			hm := h.randBytes(l)
			h.doLine("verify-bad-len", withBlake("schnorr_verify "+hx(sb)+" "+hx(hm)+" "+qx+" "+qy, append(append([]byte{}, sb[:32]...), hm...)))
			h.doLine("sign-bad-len", "schnorr_sign "+hx(be32(d))+" "+hx(hm))
		}
		// forced nonces through the hook: about half have odd R.y (nonce negated)
		k := h.randKeyInt()
		sg, err := schnorr.VerifSchnorrSign(scalarFromHex(hx(be32(d))), scalarFromHex(hx(be32(k))), hash)
		if err == nil {
			fb := sg.Serialize()
			h.doLine("forced-nonce", withBlake("schnorr_sign_nonce "+hx(be32(d))+" "+hx(be32(k))+" "+hx(hash), append(append([]byte{}, fb[:32]...), hash...)))
			h.doLine("verify-forced", withBlake("schnorr_verify "+hx(fb)+" "+hx(hash)+" "+qx+" "+qy, append(append([]byte{}, fb[:32]...), hash...)))
			// odd-y R: negate the s-side nonce: s' = -k - e d  ⇒ R' = -R has the other parity
			nk := new(big.Int).Sub(curveN, k)
			sg2, err2 := schnorr.VerifSchnorrSign(scalarFromHex(hx(be32(d))), scalarFromHex(hx(be32(nk))), hash)
			if err2 == nil {
				f2 := sg2.Serialize()
				h.doLine("forced-neg-nonce", withBlake("schnorr_sign_nonce "+hx(be32(d))+" "+hx(be32(nk))+" "+hx(hash), append(append([]byte{}, f2[:32]...), hash...)))
			}
			// a signature whose s was built WITHOUT negating the nonce for odd y: s = k - e d with the raw k; verifies only if y even
			commit := blake256.Sum256(append(append([]byte{}, fb[:32]...), hash...))
			e := new(big.Int).SetBytes(commit[:])
			if e.Cmp(curveN) < 0 {
				sraw := new(big.Int).Mul(e, d)
				sraw.Sub(k, sraw).Mod(sraw, curveN)
				raw := append(append([]byte{}, fb[:32]...), be32(sraw)...)
				h.doLine("verify-raw-nonce", withBlake("schnorr_verify "+hx(raw)+" "+hx(hash)+" "+qx+" "+qy, append(append([]byte{}, raw[:32]...), hash...)))
			}
		}
	}
	// algebraic corner cases of s*G + e*Q, constructed from the relation e = H(r || m) (the key does not enter e):
	//   s = 0 (valid: d = k/e), R = infinity (s = -e*d), s*G = e*Q (the addition takes its doubling branch)
	for i := 0; i < 2*h.budget; i++ {
		k := h.randKeyInt()
		hash := h.randBytes(32)
		kp := secp.NewPrivateKey(scalarFromHex(hx(be32(k)))).PubKey().SerializeUncompressed()
		if kp[64]&1 == 1 {
			k = new(big.Int).Sub(curveN, k)
		}
		r := kp[1:33]
		commit := blake256.Sum256(append(append([]byte{}, r...), hash...))
		e := new(big.Int).SetBytes(commit[:])
		if e.Cmp(curveN) >= 0 || e.Sign() == 0 {
			continue
		}
		in := append(append([]byte{}, r...), hash...)
		d := new(big.Int).Mul(k, new(big.Int).ModInverse(e, curveN))
		d.Mod(d, curveN)
		u := secp.NewPrivateKey(scalarFromHex(hx(be32(d)))).PubKey().SerializeUncompressed()
		qx, qy := hx(u[1:33]), hx(u[33:65])
		h.doLine("verify-s-zero", withBlake("schnorr_verify "+hx(r)+hx(be32(big.NewInt(0)))+" "+hx(hash)+" "+qx+" "+qy, in))
		h.doLine("sign-s-zero", withBlake("schnorr_sign_nonce "+hx(be32(d))+" "+hx(be32(k))+" "+hx(hash), in))
		// any other key d2: s = -e*d2 makes R the point at infinity; s = e*d2 makes the two summands equal
		d2 := h.randKeyInt()
		u2 := secp.NewPrivateKey(scalarFromHex(hx(be32(d2)))).PubKey().SerializeUncompressed()
		ed := new(big.Int).Mul(e, d2)
		ed.Mod(ed, curveN)
		h.doLine("verify-R-infinity", withBlake("schnorr_verify "+hx(r)+hx(be32(new(big.Int).Sub(curveN, ed)))+" "+hx(hash)+" "+hx(u2[1:33])+" "+hx(u2[33:65]), in))
		h.doLine("verify-equal-summands", withBlake("schnorr_verify "+hx(r)+hx(be32(ed))+" "+hx(hash)+" "+hx(u2[1:33])+" "+hx(u2[33:65]), in))
	}
	h.doLine("sign-zero-key", "schnorr_sign "+hx(be32(big.NewInt(0)))+" "+hx(h.randBytes(32)))
	// codec: lengths 0..70, r >= P, s >= N boundaries
	for l := 0; l <= 70; l++ {
		h.doLine("parse-len", "schnorr_parse "+hx(h.randBytes(l)))
	}
	for _, rv := range []*big.Int{new(big.Int).Sub(curveP, big.NewInt(1)), curveP, new(big.Int).Add(curveP, big.NewInt(1)), big.NewInt(0)} {
		for _, sv := range []*big.Int{new(big.Int).Sub(curveN, big.NewInt(1)), curveN, new(big.Int).Add(curveN, big.NewInt(1)), big.NewInt(0)} {
			h.doLine("parse-boundary", "schnorr_parse "+hx(append(be32(rv), be32(sv)...)))
		}
	}
}
