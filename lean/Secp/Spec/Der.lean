import Secp.Spec.Field
/-
  Spec/Der — the canonical DER encoding  SEQUENCE { INTEGER r, INTEGER s }
  (X.690 §8.3, §10.1) written from the standard, not from the code.
-/
namespace Secp.Spec

/-- minimal big-endian base-256 digits of n (empty for 0) -/
def natBytes (n : Nat) : Bytes :=
  if _h : n = 0 then [] else natBytes (n / 256) ++ [UInt8.ofNat (n % 256)]
decreasing_by omega

/-- DER contents octets of a non-negative INTEGER: minimal two's complement -/
def derIntContents (v : Nat) : Bytes :=
  match natBytes v with
  | [] => [0]
  | x :: xs => if x.toNat ≥ 128 then 0 :: x :: xs else x :: xs

/-- canonical DER of (r, s) with single-byte lengths (valid whenever r, s < 2^256) -/
def canonicalDER (r s : Nat) : Bytes :=
  let cr := derIntContents r
  let cs := derIntContents s
  [0x30, UInt8.ofNat (4 + cr.length + cs.length), 0x02, UInt8.ofNat cr.length] ++ cr ++
    [0x02, UInt8.ofNat cs.length] ++ cs

/-- low-s form -/
def lowS (s : Nat) : Nat := if s > halfN then N - s else s

end Secp.Spec
