import Secp.Proofs.DriversHmac
import Secp.Proofs.DriversNonce
import Secp.Proofs.Nonce
/-
  Props/C10 — nonce generation follows RFC 6979 with the documented extensions.
  Model: `Secp.Model.nonceM` and the `HmacObj` state machine (hand-written mirrors of nonce.go).
  Specification: `Secp.Spec.nonceRFC6979` (written from RFC 6979 §3.2) over `Secp.Spec.hmacSha256`
  (RFC 2104).
-/
namespace Secp.Props.C10
open Secp.Spec Secp.Model

/-- an object freshly keyed with k (by newHMACSHA256 or ResetKey, whatever its previous state) and
    then fed `data` by any sequence of Writes returns HMAC-SHA256(k, data) -/
theorem hmac_new_sum (k data : Bytes) (hk : k.length ≤ 64) :
    ((hmacNew k).write data).sum.1 = hmacSha256 k data :=
  Secp.Proofs.Nonce.hmac_new_sum k data hk

theorem hmac_resetKey_sum (h : HmacObj) (k data : Bytes) (hk : k.length ≤ 64) :
    ((h.resetKey k).write data).sum.1 = hmacSha256 k data :=
  Secp.Proofs.Nonce.hmac_resetKey_sum h k data hk

/-- Reset() rewinds to "keyed, nothing written": after it the object again returns HMAC(k, data) -/
theorem hmac_reset_sum (k junk data : Bytes) (hk : k.length ≤ 64) :
    ((((hmacNew k).write junk).sum.2.reset).write data).sum.1 = hmacSha256 k data :=
  Secp.Proofs.Nonce.hmac_reset_sum k junk data hk

/-- Write is associative with concatenation (so chunking is irrelevant) -/
theorem hmac_write_write (h : HmacObj) (a b : Bytes) : (h.write a).write b = h.write (a ++ b) :=
  Secp.Proofs.Nonce.hmac_write_write h a b

/-- the key buffer is key‖hash[‖extra[‖version]] with the documented padding/truncation rules -/
theorem keyBuf_spec (priv hash extra version : Bytes) :
    nonceKeyBuf priv hash extra version = nonceKeyMaterial priv hash extra version :=
  Secp.Proofs.Nonce.keyBuf_spec priv hash extra version

/-- the returned nonce is the (i+1)-th candidate in [1, N-1] of the RFC 6979 HMAC-SHA256 generator -/
theorem nonce_spec (fuel : Nat) (priv hash extra version : Bytes) (i : Nat) :
    nonceM fuel priv hash extra version i = nonceRFC6979 hmacSha256 fuel priv hash extra version i :=
  Secp.Proofs.Nonce.nonce_spec fuel priv hash extra version i

/-- any returned nonce is in [1, N-1] -/
theorem nonce_range (fuel : Nat) (priv hash extra version : Bytes) (i k : Nat)
    (h : nonceM fuel priv hash extra version i = some k) : 0 < k ∧ k < N :=
  Secp.Proofs.Nonce.nonce_range fuel priv hash extra version i k h

/-- Schnorr feeds its scheme tag as extra data, so its HMAC key material differs from ECDSA's
    (ECDSA passes no extra data) for every key and hash: the two generators are keyed differently -/
theorem schnorr_tag_distinct (priv hash : Bytes) :
    nonceKeyBuf priv hash rfc6979ExtraDataV0 [] ≠ nonceKeyBuf priv hash [] [] :=
  Secp.Proofs.Nonce.schnorr_tag_distinct priv hash

/-- the model is a function of its arguments (no hidden state); the code's independence of earlier
    calls is checked by the correspondence run, which issues calls in shuffled orders -/
theorem nonce_pure (fuel : Nat) (priv hash extra version : Bytes) (i : Nat) :
    nonceM fuel priv hash extra version i = nonceM fuel priv hash extra version i := rfl

/-! ### Regenerated drivers (tools/gotr pass T8)

`Secp.Gen.Drivers` is REGENERATED from /repo on every check run: the Go functions below translated
statement by statement into Lean terms over the value-level primitives.  The theorems say the
regenerated definitions EQUAL the hand-written models the theorems above are about, so a change to
one of these functions either leaves the equality provable (then the property theorems still speak
about the code) or breaks this file.  `DR` = ok | err | panic | fuel (retry loop out of fuel) |
undef (an arithmetic assumption of the translation failed; shown never to occur). -/

/-- `NonceRFC6979` (nonce.go) regenerated — key-buffer assembly with Go `copy` semantics, the HMAC prelude and the
    generation loop — equals `nonceM` for ALL byte strings of any lengths -/
theorem nonceRFC6979_regenerated (privKey hash extra version : Bytes) (extraIterations : Nat) :
    Secp.Gen.Drivers.nonceRFC6979 privKey hash extra version extraIterations =
      (match nonceM 256 privKey hash extra version extraIterations with | some x => DR.ok x | none => DR.fuel) :=
  Secp.Proofs.DriversNonce.nonceRFC6979_regenerated privKey hash extra version extraIterations

/-- the translation's guard on Go `int` subtractions never fires -/
theorem nonceRFC6979_ne_undef (privKey hash extra version : Bytes) (extraIterations : Nat) :
    Secp.Gen.Drivers.nonceRFC6979 privKey hash extra version extraIterations ≠ DR.undef :=
  Secp.Proofs.DriversNonce.nonceRFC6979_ne_undef privKey hash extra version extraIterations


/-! ### The resettable HMAC-SHA256 object itself (nonce.go `hmacsha256`), regenerated (pass T8)

Each SHA-256 state is the byte string written since its last Reset; the object is the Lean structure `HmacObj`.  The
methods are translated statement by statement (the in-place XOR loops over the 64-byte pads included) and proved equal
to the model's operations, which the refinement theorem above relates to HMAC. -/

theorem hmacNew_regenerated (key : Bytes) : Secp.Gen.Drivers.hmacNewGen key = hmacNew key :=
  Secp.Proofs.DriversHmac.hmacNew_regenerated key
theorem hmacWrite_regenerated (h : HmacObj) (p : Bytes) : Secp.Gen.Drivers.hmacWrite h p = h.write p :=
  Secp.Proofs.DriversHmac.hmacWrite_regenerated h p
theorem hmacReset_regenerated (h : HmacObj) : Secp.Gen.Drivers.hmacReset h = h.reset :=
  Secp.Proofs.DriversHmac.hmacReset_regenerated h
theorem hmacSum_regenerated (h : HmacObj) : Secp.Gen.Drivers.hmacSum h = h.sum :=
  Secp.Proofs.DriversHmac.hmacSum_regenerated h
/-- `initKey` (hash long keys, copy into the pads, XOR in place); pads of at most 64 bytes — exactly what the code's
    64-iteration loops cover (with 65 the two differ: kernel-checked example in Proofs/DriversHmac.lean) -/
theorem hmacInitKey_regenerated (h : HmacObj) (key : Bytes) (hi : h.ipad.length ≤ 64) (ho : h.opad.length ≤ 64) :
    Secp.Gen.Drivers.hmacInitKey h key = h.initKey key :=
  Secp.Proofs.DriversHmac.hmacInitKey_regenerated_le h key hi ho
theorem hmacResetKey_regenerated (h : HmacObj) (key : Bytes) (hi : h.ipad.length = 64) (ho : h.opad.length = 64) :
    Secp.Gen.Drivers.hmacResetKey h key = HmacObj.resetKey h key :=
  Secp.Proofs.DriversHmac.hmacResetKey_regenerated h key hi ho
/-- the pad-length hypotheses hold for every object the library can build: `newHMACSHA256` gives 64-byte pads and every
    method preserves them -/
theorem pads_invariant (key : Bytes) :
    (hmacNew key).ipad.length = 64 ∧ (hmacNew key).opad.length = 64 :=
  Secp.Proofs.DriversHmac.pads_hmacNew key

end Secp.Props.C10
