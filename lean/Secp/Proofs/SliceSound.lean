import Secp.Core.FSlice
/-
  Proofs/SliceSound — meta-theory of the sliced abstract interpreter `FOp.absS` (Core/FSlice):

  * `Cover` (the covering order on abstract states) is a preorder and is implied by the executable
    check `stLE` used at loop ends;
  * marker-free programs ignore the loop-head stack (`absS_flat_stack`) and compose (`absS_append`);
  * MONOTONICITY (`absS_mono`): a marker-free program accepted from σ2 is accepted from every state
    covered by σ2, with a covered result;
  * LOOP UNROLLING (`loop_unroll`): acceptance of `pre; loopBegin; body; loopEnd; post` for every
    body of a family implies acceptance of every concrete unrolling `pre; b1; …; bn; post`.

  The statements are exactly those of the task description (nothing was changed in `loop_unroll`).
  `absS_mono'` and `absS_append'` are the slightly more general forms (arbitrary stacks) that the
  stated theorems are instances of.

  Core-only (imports only Secp.Core.FSlice; `aget_aset` is re-proved here so that this file does not
  depend on the limb-level development).
-/
namespace Secp.Proofs.SliceSound
open Secp.FOp

/-- an item that is not a loop marker -/
def flat : SItem → Bool
  | .loopBegin => false | .loopEnd => false | .loopBreak => false | _ => true

/-- σ1 is covered by σ2 on every register -/
def Cover (σ1 σ2 : AState) : Prop := ∀ i, avLE (aget σ1 i) (aget σ2 i) = true

/-! ### the order on abstract values -/

theorem avLE_none (x : Option AV) : avLE x none = true := by
  cases x <;> rfl

theorem avLE_mk {m1 m2 : Nat} {n1 n2 : Bool} (hm : m1 ≤ m2) (hn : n2 = true → n1 = true) :
    avLE (some (m1, n1)) (some (m2, n2)) = true := by
  cases n2 <;> cases n1 <;> simp_all [avLE]

theorem avLE_some {x : Option AV} {m2 : Nat} {n2 : Bool} (h : avLE x (some (m2, n2)) = true) :
    ∃ m1 n1, x = some (m1, n1) ∧ m1 ≤ m2 ∧ (n2 = true → n1 = true) := by
  cases x with
  | none => simp [avLE] at h
  | some v =>
    obtain ⟨m1, n1⟩ := v
    simp only [avLE, Bool.and_eq_true, decide_eq_true_eq, Bool.or_eq_true, Bool.not_eq_true'] at h
    refine ⟨m1, n1, rfl, h.1, ?_⟩
    intro e
    rcases h.2 with h2 | h2
    · rw [h2] at e; cases e
    · exact h2

theorem avLE_refl (x : Option AV) : avLE x x = true := by
  cases x with
  | none => rfl
  | some v =>
    obtain ⟨m, n⟩ := v
    exact avLE_mk (Nat.le_refl m) id

theorem avLE_trans {a b c : Option AV} (h1 : avLE a b = true) (h2 : avLE b c = true) :
    avLE a c = true := by
  cases c with
  | none => exact avLE_none a
  | some vc =>
    obtain ⟨m3, n3⟩ := vc
    obtain ⟨m2, n2, rfl, hm2, hn2⟩ := avLE_some h2
    obtain ⟨m1, n1, rfl, hm1, hn1⟩ := avLE_some h1
    exact avLE_mk (Nat.le_trans hm1 hm2) (fun e => hn1 (hn2 e))

/-! ### the covering relation -/

theorem cover_refl (σ : AState) : Cover σ σ := fun _ => avLE_refl _

theorem cover_trans {a b c : AState} : Cover a b → Cover b c → Cover a c :=
  fun h1 h2 i => avLE_trans (h1 i) (h2 i)

/-- the executable check used at loop ends implies the covering relation -/
theorem cover_of_stLE {σ σh : AState} (h : stLE σ σh = true) : Cover σ σh := by
  intro i
  by_cases hi : i < σh.length
  · unfold stLE at h
    rw [List.all_eq_true] at h
    exact h i (List.mem_range.mpr hi)
  · have e : aget σh i = none := by
      unfold aget
      rw [List.getElem?_eq_none (Nat.le_of_not_lt hi)]
      rfl
    rw [e]
    exact avLE_none _

/-- what `Cover` says about one register that the covering state knows -/
theorem Cover.get {σ1 σ2 : AState} (hc : Cover σ1 σ2) {i m2 : Nat} {n2 : Bool}
    (h : aget σ2 i = some (m2, n2)) :
    ∃ m1 n1, aget σ1 i = some (m1, n1) ∧ m1 ≤ m2 ∧ (n2 = true → n1 = true) := by
  have := hc i
  rw [h] at this
  exact avLE_some this

theorem aget_aset (σ : AState) (i j : Nat) (v : AV) :
    aget (aset σ i v) j = if j = i then some v else aget σ j := by
  unfold aget aset
  by_cases hi : i < σ.length
  · rw [if_pos hi, List.getElem?_set]
    by_cases h : j = i
    · subst h; simp [hi]
    · have h' : ¬ i = j := fun e => h e.symm
      simp [h, h']
  · rw [if_neg hi]
    have hi' : σ.length ≤ i := Nat.le_of_not_lt hi
    by_cases h : j = i
    · subst h
      rw [if_pos rfl, List.getElem?_append_right (by simp; omega)]
      simp
      have : j - (σ.length + (j - σ.length)) = 0 := by omega
      simp [this]
    · rw [if_neg h]
      by_cases hj : j < σ.length
      · rw [List.append_assoc, List.getElem?_append_left hj]
      · have hj' : σ.length ≤ j := Nat.le_of_not_lt hj
        rw [List.getElem?_eq_none (l := σ) hj']
        by_cases hj2 : j < i
        · rw [List.getElem?_append_left (by simp; omega), List.getElem?_append_right hj',
            List.getElem?_replicate]
          have : j - σ.length < i - σ.length := by omega
          simp [this]
        · rw [List.getElem?_eq_none]
          simp; omega

/-- writing covered values into the same register preserves the covering relation -/
theorem cover_aset {σ1 σ2 : AState} (hc : Cover σ1 σ2) (d : Nat) {v1 v2 : AV}
    (hv : avLE (some v1) (some v2) = true) : Cover (aset σ1 d v1) (aset σ2 d v2) := by
  intro i
  rw [aget_aset, aget_aset]
  by_cases h : i = d
  · rw [if_pos h, if_pos h]; exact hv
  · rw [if_neg h, if_neg h]; exact hc i

theorem cover_aset_same {σ1 σ2 : AState} (hc : Cover σ1 σ2) (d : Nat) (v : AV) :
    Cover (aset σ1 d v) (aset σ2 d v) :=
  cover_aset hc d (avLE_refl _)

/-! ### one operation -/

theorem ite_some_none {α : Type} {c : Prop} [Decidable c] {x y : α}
    (h : (if c then some x else none) = some y) : c ∧ x = y := by
  by_cases hc : c
  · rw [if_pos hc] at h; exact ⟨hc, Option.some.inj h⟩
  · rw [if_neg hc] at h; exact absurd h (by simp)

/-- `stepA` is monotone -/
theorem stepA_mono (o : FOp) (σ1 σ2 σ2' : AState) (hc : Cover σ1 σ2) (h : stepA σ2 o = some σ2') :
    ∃ σ1', stepA σ1 o = some σ1' ∧ Cover σ1' σ2' := by
  cases o with
  | set d s =>
    cases hs : aget σ2 s with
    | none => simp [stepA, hs] at h
    | some v =>
      obtain ⟨m2, n2⟩ := v
      simp only [stepA, hs, Option.bind_eq_bind, Option.bind_some, Option.pure_def] at h
      have h := Option.some.inj h
      subst h
      obtain ⟨m1, n1, e1, hm, hn⟩ := hc.get hs
      refine ⟨aset σ1 d (m1, n1), ?_, cover_aset hc d (avLE_mk hm hn)⟩
      simp only [stepA, e1, Option.bind_eq_bind, Option.bind_some, Option.pure_def]
  | setInt d v =>
    simp only [stepA] at h ⊢
    obtain ⟨hv, rfl⟩ := ite_some_none h
    exact ⟨_, if_pos hv, cover_aset_same hc d _⟩
  | zero d =>
    simp only [stepA] at h ⊢
    have h := Option.some.inj h
    subst h
    exact ⟨_, rfl, cover_aset_same hc d _⟩
  | neg d s m =>
    cases hs : aget σ2 s with
    | none => simp [stepA, hs] at h
    | some v =>
      obtain ⟨m2, n2⟩ := v
      simp only [stepA, hs, Option.bind_eq_bind, Option.bind_some, Option.pure_def] at h
      obtain ⟨⟨hle, hm⟩, rfl⟩ := ite_some_none h
      obtain ⟨m1, n1, e1, hm1, -⟩ := hc.get hs
      refine ⟨aset σ1 d (m + 1, false), ?_, cover_aset_same hc d _⟩
      simp only [stepA, e1, Option.bind_eq_bind, Option.bind_some, Option.pure_def]
      exact if_pos ⟨Nat.le_trans hm1 hle, hm⟩
  | add d s =>
    cases hd : aget σ2 d with
    | none => simp [stepA, hd] at h
    | some vd =>
      cases hs : aget σ2 s with
      | none => simp [stepA, hd, hs] at h
      | some vs =>
        obtain ⟨md, nd⟩ := vd
        obtain ⟨ms, ns⟩ := vs
        simp only [stepA, hd, hs, Option.bind_eq_bind, Option.bind_some, Option.pure_def] at h
        obtain ⟨hle, rfl⟩ := ite_some_none h
        obtain ⟨md1, nd1, ed, hmd, -⟩ := hc.get hd
        obtain ⟨ms1, ns1, es, hms, -⟩ := hc.get hs
        refine ⟨aset σ1 d (md1 + ms1, false), ?_,
          cover_aset hc d (avLE_mk (Nat.add_le_add hmd hms) id)⟩
        simp only [stepA, ed, es, Option.bind_eq_bind, Option.bind_some, Option.pure_def]
        exact if_pos (Nat.le_trans (Nat.add_le_add hmd hms) hle)
  | add2 d a b =>
    cases ha : aget σ2 a with
    | none => simp [stepA, ha] at h
    | some va =>
      cases hb : aget σ2 b with
      | none => simp [stepA, ha, hb] at h
      | some vb =>
        obtain ⟨ma, na⟩ := va
        obtain ⟨mb, nb⟩ := vb
        simp only [stepA, ha, hb, Option.bind_eq_bind, Option.bind_some, Option.pure_def] at h
        obtain ⟨hle, rfl⟩ := ite_some_none h
        obtain ⟨ma1, na1, ea, hma, -⟩ := hc.get ha
        obtain ⟨mb1, nb1, eb, hmb, -⟩ := hc.get hb
        refine ⟨aset σ1 d (ma1 + mb1, false), ?_,
          cover_aset hc d (avLE_mk (Nat.add_le_add hma hmb) id)⟩
        simp only [stepA, ea, eb, Option.bind_eq_bind, Option.bind_some, Option.pure_def]
        exact if_pos (Nat.le_trans (Nat.add_le_add hma hmb) hle)
  | addInt d v =>
    cases hd : aget σ2 d with
    | none => simp [stepA, hd] at h
    | some vd =>
      obtain ⟨md, nd⟩ := vd
      simp only [stepA, hd, Option.bind_eq_bind, Option.bind_some, Option.pure_def] at h
      obtain ⟨⟨hle, hv⟩, rfl⟩ := ite_some_none h
      obtain ⟨md1, nd1, ed, hmd, -⟩ := hc.get hd
      refine ⟨aset σ1 d (md1 + 1, false), ?_,
        cover_aset hc d (avLE_mk (Nat.add_le_add_right hmd 1) id)⟩
      simp only [stepA, ed, Option.bind_eq_bind, Option.bind_some, Option.pure_def]
      exact if_pos ⟨Nat.le_trans (Nat.add_le_add_right hmd 1) hle, hv⟩
  | mulInt d v =>
    cases hd : aget σ2 d with
    | none => simp [stepA, hd] at h
    | some vd =>
      obtain ⟨md, nd⟩ := vd
      simp only [stepA, hd, Option.bind_eq_bind, Option.bind_some, Option.pure_def] at h
      obtain ⟨⟨hle, hv, hv0⟩, rfl⟩ := ite_some_none h
      obtain ⟨md1, nd1, ed, hmd, -⟩ := hc.get hd
      refine ⟨aset σ1 d (md1 * v, false), ?_,
        cover_aset hc d (avLE_mk (Nat.mul_le_mul_right v hmd) id)⟩
      simp only [stepA, ed, Option.bind_eq_bind, Option.bind_some, Option.pure_def]
      exact if_pos ⟨Nat.le_trans (Nat.mul_le_mul_right v hmd) hle, hv, hv0⟩
  | mul2 d a b =>
    cases ha : aget σ2 a with
    | none => simp [stepA, ha] at h
    | some va =>
      cases hb : aget σ2 b with
      | none => simp [stepA, ha, hb] at h
      | some vb =>
        obtain ⟨ma, na⟩ := va
        obtain ⟨mb, nb⟩ := vb
        simp only [stepA, ha, hb, Option.bind_eq_bind, Option.bind_some, Option.pure_def] at h
        obtain ⟨⟨hla, hlb⟩, rfl⟩ := ite_some_none h
        obtain ⟨ma1, na1, ea, hma, -⟩ := hc.get ha
        obtain ⟨mb1, nb1, eb, hmb, -⟩ := hc.get hb
        refine ⟨aset σ1 d (1, false), ?_, cover_aset_same hc d _⟩
        simp only [stepA, ea, eb, Option.bind_eq_bind, Option.bind_some, Option.pure_def]
        exact if_pos ⟨Nat.le_trans hma hla, Nat.le_trans hmb hlb⟩
  | sq d a =>
    cases ha : aget σ2 a with
    | none => simp [stepA, ha] at h
    | some va =>
      obtain ⟨ma, na⟩ := va
      simp only [stepA, ha, Option.bind_eq_bind, Option.bind_some, Option.pure_def] at h
      obtain ⟨hla, rfl⟩ := ite_some_none h
      obtain ⟨ma1, na1, ea, hma, -⟩ := hc.get ha
      refine ⟨aset σ1 d (1, false), ?_, cover_aset_same hc d _⟩
      simp only [stepA, ea, Option.bind_eq_bind, Option.bind_some, Option.pure_def]
      exact if_pos (Nat.le_trans hma hla)
  | norm d =>
    cases hd : aget σ2 d with
    | none => simp [stepA, hd] at h
    | some vd =>
      obtain ⟨md, nd⟩ := vd
      simp only [stepA, hd, Option.bind_eq_bind, Option.bind_some, Option.pure_def] at h
      obtain ⟨hle, rfl⟩ := ite_some_none h
      obtain ⟨md1, nd1, ed, hmd, -⟩ := hc.get hd
      refine ⟨aset σ1 d (1, true), ?_, cover_aset_same hc d _⟩
      simp only [stepA, ed, Option.bind_eq_bind, Option.bind_some, Option.pure_def]
      exact if_pos (Nat.le_trans hmd hle)

/-! ### predicates, checks, contracts -/

theorem any_mono {σ1 σ2 : AState} (hc : Cover σ1 σ2) (a : Nat)
    (h : (aget σ2 a).any (·.2) = true) : (aget σ1 a).any (·.2) = true := by
  cases h2 : aget σ2 a with
  | none => rw [h2] at h; simp at h
  | some v =>
    obtain ⟨m2, n2⟩ := v
    rw [h2] at h
    simp only [Option.any_some] at h
    obtain ⟨m1, n1, e1, -, hn⟩ := hc.get h2
    rw [e1]
    simp only [Option.any_some]
    exact hn h

/-- `condA` is antitone in the state -/
theorem condA_mono {σ1 σ2 : AState} (hc : Cover σ1 σ2) (c : FCond) (h : condA σ2 c = true) :
    condA σ1 c = true := by
  cases c with
  | equals a b =>
    simp only [condA, Bool.and_eq_true] at h ⊢
    exact ⟨any_mono hc a h.1, any_mono hc b h.2⟩
  | isZero a => simp only [condA] at h ⊢; exact any_mono hc a h
  | isOne a => simp only [condA] at h ⊢; exact any_mono hc a h
  | isOdd a => simp only [condA] at h ⊢; exact any_mono hc a h
  | boolIn i => rfl

theorem meets_mono {x y : Option AV} (hxy : avLE x y = true) (r : Option (Nat × Bool))
    (h : meets y r = true) : meets x r = true := by
  cases r with
  | none => cases x <;> rfl
  | some rq =>
    obtain ⟨m, nrm⟩ := rq
    cases y with
    | none => simp [meets] at h
    | some vy =>
      obtain ⟨m2, n2⟩ := vy
      obtain ⟨m1, n1, rfl, hm, hn⟩ := avLE_some hxy
      simp only [meets, Bool.and_eq_true, decide_eq_true_eq, Bool.or_eq_true, Bool.not_eq_true'] at h ⊢
      refine ⟨Nat.le_trans hm h.1, ?_⟩
      rcases h.2 with h2 | h2
      · exact Or.inl h2
      · exact Or.inr (hn h2)

/-- `preOK` is antitone in the state -/
theorem preOK_mono {σ1 σ2 : AState} (hc : Cover σ1 σ2) (args : List Nat)
    (pre : List (Option (Nat × Bool))) (h : preOK σ2 args pre = true) : preOK σ1 args pre = true := by
  induction args generalizing pre with
  | nil =>
    cases pre with
    | nil => rfl
    | cons r rs => simp [preOK] at h
  | cons a as ih =>
    cases pre with
    | nil => simp [preOK] at h
    | cons r rs =>
      simp only [preOK, Bool.and_eq_true] at h ⊢
      exact ⟨meets_mono (hc a) r h.1, ih rs h.2⟩

/-- `applyPost` preserves the covering relation -/
theorem applyPost_cover {σ1 σ2 : AState} (hc : Cover σ1 σ2) (args : List Nat) (post : List (Nat × AV)) :
    Cover (applyPost σ1 args post) (applyPost σ2 args post) := by
  induction post generalizing σ1 σ2 with
  | nil => exact hc
  | cons pv rest ih =>
    obtain ⟨i, av⟩ := pv
    simp only [applyPost]
    exact ih (cover_aset_same hc _ _)

/-! ### marker-free programs -/

theorem flat_tail {it : SItem} {items : List SItem} (hf : ∀ x ∈ it :: items, flat x = true) :
    ∀ x ∈ items, flat x = true :=
  fun x hx => hf x (List.mem_cons_of_mem _ hx)

/-- the stack is irrelevant for marker-free programs -/
theorem absS_flat_stack (cs) (items : List SItem) (hf : ∀ it ∈ items, flat it = true) (σ : AState)
    (st st' : List AState) : absS cs items σ st = absS cs items σ st' := by
  induction items generalizing σ with
  | nil => simp only [absS]
  | cons it rest ih =>
    have hit : flat it = true := hf it (List.mem_cons_self ..)
    have ih := ih (flat_tail hf)
    cases it with
    | p pit =>
      cases pit with
      | op o =>
        simp only [absS]
        cases stepA σ o with
        | none => rfl
        | some σ' => exact ih σ'
      | assume c v =>
        simp only [absS]
        rw [ih σ]
      | call e a => simp only [absS]
    | chk a m nrm =>
      simp only [absS]
      cases aget σ a with
      | none => rfl
      | some v =>
        obtain ⟨ma, na⟩ := v
        simp only []
        rw [ih σ]
    | havoc d m nrm =>
      simp only [absS]
      rw [ih]
    | callC c args =>
      simp only [absS]
      cases cs[c]? with
      | none => rfl
      | some k =>
        simp only []
        rw [ih]
    | loopBegin => simp [flat] at hit
    | loopEnd => simp [flat] at hit
    | loopBreak => simp [flat] at hit

/-- monotonicity with an arbitrary (ignored) stack -/
theorem absS_mono' (cs) (items : List SItem) (hf : ∀ it ∈ items, flat it = true) (σ1 σ2 σ2' : AState)
    (st : List AState) (hc : Cover σ1 σ2) (h : absS cs items σ2 st = some σ2') :
    ∃ σ1', absS cs items σ1 st = some σ1' ∧ Cover σ1' σ2' := by
  induction items generalizing σ1 σ2 with
  | nil =>
    simp only [absS] at h ⊢
    have h := Option.some.inj h
    subst h
    exact ⟨σ1, rfl, hc⟩
  | cons it rest ih =>
    have hit : flat it = true := hf it (List.mem_cons_self ..)
    have ih := ih (flat_tail hf)
    cases it with
    | p pit =>
      cases pit with
      | op o =>
        cases hs : stepA σ2 o with
        | none => simp [absS, hs] at h
        | some σ2m =>
          simp only [absS, hs] at h
          obtain ⟨σ1m, e1, hcm⟩ := stepA_mono o σ1 σ2 σ2m hc hs
          simp only [absS, e1]
          exact ih σ1m σ2m hcm h
      | assume c v =>
        simp only [absS] at h ⊢
        by_cases hcd : condA σ2 c = true
        · rw [if_pos hcd] at h
          rw [if_pos (condA_mono hc c hcd)]
          exact ih σ1 σ2 hc h
        · rw [if_neg hcd] at h
          exact absurd h (by simp)
      | call e a => simp [absS] at h
    | chk a m nrm =>
      cases ha : aget σ2 a with
      | none => simp [absS, ha] at h
      | some v =>
        obtain ⟨m2, n2⟩ := v
        simp only [absS, ha] at h
        obtain ⟨m1, n1, e1, hm, hn⟩ := hc.get ha
        simp only [absS, e1]
        by_cases hq : m2 ≤ m ∧ (nrm = true → n2 = true)
        · rw [if_pos hq] at h
          rw [if_pos ⟨Nat.le_trans hm hq.1, fun e => hn (hq.2 e)⟩]
          exact ih σ1 σ2 hc h
        · rw [if_neg hq] at h
          exact absurd h (by simp)
    | havoc d m nrm =>
      simp only [absS] at h ⊢
      by_cases hm : m ≤ maxMag
      · rw [if_pos hm] at h
        rw [if_pos hm]
        exact ih _ _ (cover_aset_same hc d _) h
      · rw [if_neg hm] at h
        exact absurd h (by simp)
    | callC c args =>
      cases hk : cs[c]? with
      | none => simp [absS, hk] at h
      | some k =>
        simp only [absS, hk] at h ⊢
        by_cases hq : preOK σ2 args k.pre = true ∧ postInRange args.length k.post = true
        · rw [if_pos hq] at h
          rw [if_pos ⟨preOK_mono hc args k.pre hq.1, hq.2⟩]
          exact ih _ _ (applyPost_cover hc args k.post) h
        · rw [if_neg hq] at h
          exact absurd h (by simp)
    | loopBegin => simp [flat] at hit
    | loopEnd => simp [flat] at hit
    | loopBreak => simp [flat] at hit

/-- MONOTONICITY: a marker-free program accepted from σ2 is accepted from every state covered by σ2,
    and ends in a state covered by the original result -/
theorem absS_mono (cs) (items : List SItem) (hf : ∀ it ∈ items, flat it = true) (σ1 σ2 σ2' : AState)
    (hc : Cover σ1 σ2) (h : absS cs items σ2 [] = some σ2') :
    ∃ σ1', absS cs items σ1 [] = some σ1' ∧ Cover σ1' σ2' :=
  absS_mono' cs items hf σ1 σ2 σ2' [] hc h

/-- sequencing, the marker-free prefix run on an arbitrary stack -/
theorem absS_append' (cs) (p q : List SItem) (hp : ∀ it ∈ p, flat it = true) (σ : AState)
    (st st0 : List AState) :
    absS cs (p ++ q) σ st = (absS cs p σ st0).bind (fun σ' => absS cs q σ' st) := by
  induction p generalizing σ with
  | nil => simp only [List.nil_append, absS, Option.bind_some]
  | cons it rest ih =>
    have hit : flat it = true := hp it (List.mem_cons_self ..)
    have ih := ih (flat_tail hp)
    cases it with
    | p pit =>
      cases pit with
      | op o =>
        simp only [List.cons_append, absS]
        cases stepA σ o with
        | none => rfl
        | some σ' => exact ih σ'
      | assume c v =>
        simp only [List.cons_append, absS]
        by_cases hcd : condA σ c = true
        · rw [if_pos hcd, if_pos hcd]; exact ih σ
        · rw [if_neg hcd, if_neg hcd]; rfl
      | call e a => simp only [List.cons_append, absS, Option.bind_none]
    | chk a m nrm =>
      simp only [List.cons_append, absS]
      cases aget σ a with
      | none => rfl
      | some v =>
        obtain ⟨ma, na⟩ := v
        simp only []
        by_cases hq : ma ≤ m ∧ (nrm = true → na = true)
        · rw [if_pos hq, if_pos hq]; exact ih σ
        · rw [if_neg hq, if_neg hq]; rfl
    | havoc d m nrm =>
      simp only [List.cons_append, absS]
      by_cases hm : m ≤ maxMag
      · rw [if_pos hm, if_pos hm]; exact ih _
      · rw [if_neg hm, if_neg hm]; rfl
    | callC c args =>
      simp only [List.cons_append, absS]
      cases cs[c]? with
      | none => rfl
      | some k =>
        simp only []
        by_cases hq : preOK σ args k.pre = true ∧ postInRange args.length k.post = true
        · rw [if_pos hq, if_pos hq]; exact ih _
        · rw [if_neg hq, if_neg hq]; rfl
    | loopBegin => simp [flat] at hit
    | loopEnd => simp [flat] at hit
    | loopBreak => simp [flat] at hit

/-- sequencing of marker-free programs -/
theorem absS_append (cs) (p q : List SItem) (hp : ∀ it ∈ p, flat it = true) (σ : AState)
    (st : List AState) :
    absS cs (p ++ q) σ st = (absS cs p σ []).bind (fun σ' => absS cs q σ' st) :=
  absS_append' cs p q hp σ st []

/-! ### loops -/

/-- what acceptance of `pre; loopBegin; b; loopEnd; post` means -/
theorem loop_decomp (cs) (pre b post : List SItem)
    (hpre : ∀ it ∈ pre, flat it = true) (hb : ∀ it ∈ b, flat it = true) (σ σf : AState)
    (h : absS cs (pre ++ [SItem.loopBegin] ++ b ++ [SItem.loopEnd] ++ post) σ [] = some σf) :
    ∃ σh σe, absS cs pre σ [] = some σh ∧ absS cs b σh [] = some σe ∧ stLE σe σh = true ∧
      absS cs post σh [] = some σf := by
  simp only [List.append_assoc] at h
  rw [absS_append cs pre _ hpre] at h
  cases h1 : absS cs pre σ [] with
  | none => rw [h1] at h; simp at h
  | some σh =>
    rw [h1] at h
    simp only [Option.bind_some, List.cons_append, List.nil_append, absS] at h
    rw [absS_append' cs b _ hb σh [σh] []] at h
    cases h2 : absS cs b σh [] with
    | none => rw [h2] at h; simp at h
    | some σe =>
      rw [h2] at h
      simp only [Option.bind_some, absS] at h
      by_cases hle : stLE σe σh = true
      · rw [if_pos hle] at h
        exact ⟨σh, σe, rfl, h2, hle, h⟩
      · rw [if_neg hle] at h
        exact absurd h (by simp)

/-- any sequence of bodies, each of which maps the head state into a state covered by the head state,
    runs from every state covered by the head state and ends covered by it -/
theorem iterate_cover (cs) (σh : AState) (trace : List (List SItem))
    (hb : ∀ b ∈ trace, (∀ it ∈ b, flat it = true) ∧
      ∃ σe, absS cs b σh [] = some σe ∧ Cover σe σh)
    (σx : AState) (hx : Cover σx σh) :
    ∃ σ', absS cs trace.flatten σx [] = some σ' ∧ Cover σ' σh := by
  induction trace generalizing σx with
  | nil => exact ⟨σx, by simp only [List.flatten_nil, absS], hx⟩
  | cons b t ih =>
    obtain ⟨hfb, σe, hbe, hce⟩ := hb b (List.mem_cons_self ..)
    obtain ⟨σy, hy, hcy⟩ := absS_mono cs b hfb σx σh σe hx hbe
    obtain ⟨σ', h', hc'⟩ := ih (fun b' hb' => hb b' (List.mem_cons_of_mem _ hb')) σy
      (cover_trans hcy hce)
    refine ⟨σ', ?_, hc'⟩
    rw [List.flatten_cons, absS_append cs b _ hfb, hy]
    exact h'

/-- LOOP UNROLLING: if `pre; loopBegin; body; loopEnd; post` is accepted for EVERY body of a family `bodies`
    (all marker-free, `pre` and `post` marker-free), then every unrolling `pre; b1; b2; …; bn; post` with the
    bi drawn from the family (any n ≥ 0, any order, repetitions allowed) is accepted by the marker-free
    interpreter, with a final state covered by the final state of the one-iteration analysis. -/
theorem loop_unroll (cs) (pre post : List SItem) (bodies : List (List SItem))
    (hpre : ∀ it ∈ pre, flat it = true) (hpost : ∀ it ∈ post, flat it = true)
    (hb : ∀ b ∈ bodies, ∀ it ∈ b, flat it = true)
    (σ σf : AState)
    (hne : bodies ≠ [])
    (hacc : ∀ b ∈ bodies, absS cs (pre ++ [SItem.loopBegin] ++ b ++ [SItem.loopEnd] ++ post) σ [] = some σf)
    (trace : List (List SItem)) (htr : ∀ b ∈ trace, b ∈ bodies) :
    ∃ σ', absS cs (pre ++ trace.flatten ++ post) σ [] = some σ' ∧ Cover σ' σf := by
  obtain ⟨b0, hb0⟩ := List.exists_mem_of_ne_nil bodies hne
  obtain ⟨σh, -, hpre0, -, -, hpost0⟩ :=
    loop_decomp cs pre b0 post hpre (hb b0 hb0) σ σf (hacc b0 hb0)
  have hbodies : ∀ b ∈ trace, (∀ it ∈ b, flat it = true) ∧
      ∃ σe, absS cs b σh [] = some σe ∧ Cover σe σh := by
    intro b hbt
    have hbb := htr b hbt
    obtain ⟨σh', σe, hp', hbe, hle, -⟩ :=
      loop_decomp cs pre b post hpre (hb b hbb) σ σf (hacc b hbb)
    have e : σh' = σh := by
      rw [hpre0] at hp'
      exact (Option.some.inj hp').symm
    subst e
    exact ⟨hb b hbb, σe, hbe, cover_of_stLE hle⟩
  obtain ⟨σm, hm, hcm⟩ := iterate_cover cs σh trace hbodies σh (cover_refl σh)
  obtain ⟨σ', h', hc'⟩ := absS_mono cs post hpost σm σh σf hcm hpost0
  have hft : ∀ it ∈ trace.flatten, flat it = true := by
    intro it hit
    obtain ⟨b, hbt, hib⟩ := List.mem_flatten.mp hit
    exact hb b (htr b hbt) it hib
  refine ⟨σ', ?_, hc'⟩
  rw [List.append_assoc, absS_append cs pre _ hpre, hpre0, Option.bind_some,
    absS_append cs _ post hft, hm, Option.bind_some]
  exact h'

end Secp.Proofs.SliceSound
