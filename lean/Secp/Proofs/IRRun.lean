import Secp.Proofs.IRSound
import Secp.Core.IRTactic
/-
  Proofs/IRRun — from "the interval analysis accepts this kernel under these
  input bounds" to a `Steps` fact that `ir_steps` can destructure: named
  intermediate values of the *ideal* semantics, their bounds, and the statement
  that the Go semantics (`runW`) returns the ideal outputs.
-/
namespace Secp.Proofs.IRRun
open Secp.IR Secp.Proofs.IRSound

theorem kernel_steps (k : Kernel) (inputs : List Nat) (βin β' βout : List Ival)
    (hin : Within inputs βin) (hb : bndBody k.body βin.reverse = some β')
    (ho : k.outs.mapM (bnd β') = some βout) :
    Steps evalN k.body inputs.reverse
      (fun env => Done (Within env β' ∧ k.runW inputs = k.outs.map (evalN env))) := by
  obtain ⟨eb, hW⟩ := bndBody_sound k.body βin.reverse β' inputs.reverse (within_reverse inputs βin hin) hb
  refine (steps_iff _ _ _ _).2 (Done.intro ⟨hW, ?_⟩)
  simp only [Kernel.runW, eb]
  exact (outs_sound β' _ hW k.outs βout ho).1

/-- the same for the Go semantics alone (no bounds needed): used for kernels proved by direct case analysis -/
theorem kernel_steps_W (k : Kernel) (inputs : List Nat) :
    Steps evalW k.body inputs.reverse (fun env => Done (k.runW inputs = k.outs.map (evalW env))) :=
  (steps_iff _ _ _ _).2 (Done.intro rfl)

end Secp.Proofs.IRRun
