/-
  Proofs/PointOpsDbl — DoubleNonConst (plain and result≡p) and the two routines it calls.
-/
import Secp.Proofs.PointOpsGlue

set_option linter.unusedSimpArgs false
namespace Secp.Proofs.PointOps
open Secp.Spec Secp.Model Secp.FOp Secp.Proofs
open Secp.Gen.FormulasC

/-! ### the leaf routines (dbl-2009-l) -/

theorem doubleGeneric_a00_run (f X Y Z : Nat) :
    ∃ X3 Y3 Z3, callE (f + 1) 22 [X, Y, Z] = some [X3, Y3, Z3] ∧ Bnd (X3, Y3, Z3) ∧
      (X3 : F) = dbX X Y ∧ (Y3 : F) = dbY X Y ∧ (Z3 : F) = dbZ Y Z := by
  rw [callE_succ f 22 _ doubleGeneric_a00 rfl]
  exec_simp_only [doubleGeneric_a00, doubleGeneric_a00_p0]
  refine ⟨_, _, _, rfl, ⟨Nat.mod_lt _ P_pos, Nat.mod_lt _ P_pos, Nat.mod_lt _ P_pos⟩, ?_, ?_, ?_⟩
  all_goals cast_simp
  all_goals simp only [dbX, dbY, dbZ]
  all_goals ring

theorem doubleZ1EqualsOne_a00_run (f X Y Z : Nat) (hZ : Z = 1) :
    ∃ X3 Y3 Z3, callE (f + 1) 24 [X, Y, Z] = some [X3, Y3, Z3] ∧ Bnd (X3, Y3, Z3) ∧
      (X3 : F) = dbX X Y ∧ (Y3 : F) = dbY X Y ∧ (Z3 : F) = dbZ Y Z := by
  subst hZ
  rw [callE_succ f 24 _ doubleZ1EqualsOne_a00 rfl]
  exec_simp_only [doubleZ1EqualsOne_a00, doubleZ1EqualsOne_a00_p0]
  refine ⟨_, _, _, rfl, ⟨Nat.mod_lt _ P_pos, Nat.mod_lt _ P_pos, Nat.mod_lt _ P_pos⟩, ?_, ?_, ?_⟩
  all_goals cast_simp
  all_goals simp only [dbX, dbY, dbZ]
  all_goals ring

theorem doubleGeneric_run (f X Y Z : Nat) :
    ∃ X3 Y3 Z3, (∀ r3 r4 r5, callE (f + 1) 21 [X, Y, Z, r3, r4, r5] = some [X, Y, Z, X3, Y3, Z3]) ∧
      Bnd (X3, Y3, Z3) ∧ (X3 : F) = dbX X Y ∧ (Y3 : F) = dbY X Y ∧ (Z3 : F) = dbZ Y Z := by
  refine ⟨?X3, ?Y3, ?Z3, fun r3 r4 r5 => ?run, ⟨?b1, ?b2, ?b3⟩, ?eX, ?eY, ?eZ⟩
  case run =>
    rw [callE_succ f 21 _ doubleGeneric rfl]
    exec_simp_only [doubleGeneric, doubleGeneric_p0]
    rfl
  case b1 => exact Nat.mod_lt _ P_pos
  case b2 => exact Nat.mod_lt _ P_pos
  case b3 => exact Nat.mod_lt _ P_pos
  all_goals cast_simp
  all_goals simp only [dbX, dbY, dbZ]
  all_goals ring

theorem doubleZ1EqualsOne_run (f X Y Z : Nat) (hZ : Z = 1) :
    ∃ X3 Y3 Z3, (∀ r3 r4 r5, callE (f + 1) 23 [X, Y, Z, r3, r4, r5] = some [X, Y, Z, X3, Y3, Z3]) ∧
      Bnd (X3, Y3, Z3) ∧ (X3 : F) = dbX X Y ∧ (Y3 : F) = dbY X Y ∧ (Z3 : F) = dbZ Y Z := by
  subst hZ
  refine ⟨?X3, ?Y3, ?Z3, fun r3 r4 r5 => ?run, ⟨?b1, ?b2, ?b3⟩, ?eX, ?eY, ?eZ⟩
  case run =>
    rw [callE_succ f 23 _ doubleZ1EqualsOne rfl]
    exec_simp_only [doubleZ1EqualsOne, doubleZ1EqualsOne_p0]
    rfl
  case b1 => exact Nat.mod_lt _ P_pos
  case b2 => exact Nat.mod_lt _ P_pos
  case b3 => exact Nat.mod_lt _ P_pos
  all_goals cast_simp
  all_goals simp only [dbX, dbY, dbZ]
  all_goals ring

/-! ### DoubleNonConst, result ≡ p -/

theorem dnc_a00_zero (f X Y Z : Nat) (h : Y = 0 ∨ Z = 0) : callE (f + 1) 5 [X, Y, Z] = some [0, 0, 0] := by
  rw [callE_succ f 5 _ DoubleNonConst_a00 rfl]
  by_cases hY : Y = 0
  · exec_simp [DoubleNonConst_a00, DoubleNonConst_a00_p0, DoubleNonConst_a00_p1, DoubleNonConst_a00_p2,
      DoubleNonConst_a00_p3, hY]
  · have hZ : Z = 0 := by tauto
    exec_simp [DoubleNonConst_a00, DoubleNonConst_a00_p0, DoubleNonConst_a00_p1, DoubleNonConst_a00_p2,
      DoubleNonConst_a00_p3, hY, hZ]

theorem dnc_a00_one (f X Y Z : Nat) (hY : Y ≠ 0) (hZ : Z = 1) {a b c : Nat}
    (hc : callE f 24 [X, Y, Z] = some [a, b, c]) : callE (f + 1) 5 [X, Y, Z] = some [a, b, c] := by
  rw [callE_succ f 5 _ DoubleNonConst_a00 rfl]
  subst hZ
  exec_simp [DoubleNonConst_a00, DoubleNonConst_a00_p0, DoubleNonConst_a00_p1, DoubleNonConst_a00_p2,
    DoubleNonConst_a00_p3, hY, hc]

theorem dnc_a00_gen (f X Y Z : Nat) (hY : Y ≠ 0) (hZ0 : Z ≠ 0) (hZ : Z ≠ 1) {a b c : Nat}
    (hc : callE f 22 [X, Y, Z] = some [a, b, c]) : callE (f + 1) 5 [X, Y, Z] = some [a, b, c] := by
  rw [callE_succ f 5 _ DoubleNonConst_a00 rfl]
  exec_simp [DoubleNonConst_a00, DoubleNonConst_a00_p0, DoubleNonConst_a00_p1, DoubleNonConst_a00_p2,
    DoubleNonConst_a00_p3, hY, hZ, hZ0, hc]

/-- `DoubleNonConst(&q, &q)` with call-depth budget `f` returns `r` -/
def DRunA (f : Nat) (q r : Jac) : Prop :=
  callE f 5 [q.1, q.2.1, q.2.2] = some [r.1, r.2.1, r.2.2]

theorem dblContractA (f : Nat) : DblContract (DRunA (f + 2)) := by
  rintro ⟨X, Y, Z⟩ hq
  by_cases h0 : Y = 0 ∨ Z = 0
  · exact ⟨(0, 0, 0), dnc_a00_zero (f + 1) X Y Z h0, dbl_ok_zero hq h0⟩
  · have hY : Y ≠ 0 := fun h => h0 (Or.inl h)
    have hZ : Z ≠ 0 := fun h => h0 (Or.inr h)
    by_cases h1 : Z = 1
    · obtain ⟨X3, Y3, Z3, hrun, hb, eX, eY, eZ⟩ := doubleZ1EqualsOne_a00_run f X Y Z h1
      exact ⟨(X3, Y3, Z3), dnc_a00_one (f + 1) X Y Z hY h1 hrun, dbl_ok_poly hq hY hZ hb eX eY eZ⟩
    · obtain ⟨X3, Y3, Z3, hrun, hb, eX, eY, eZ⟩ := doubleGeneric_a00_run f X Y Z
      exact ⟨(X3, Y3, Z3), dnc_a00_gen (f + 1) X Y Z hY hZ h1 hrun, dbl_ok_poly hq hY hZ hb eX eY eZ⟩

/-! ### DoubleNonConst, distinct result -/

theorem dnc_zero (f X Y Z r3 r4 r5 : Nat) (h : Y = 0 ∨ Z = 0) :
    callE (f + 1) 4 [X, Y, Z, r3, r4, r5] = some [X, Y, Z, 0, 0, 0] := by
  rw [callE_succ f 4 _ DoubleNonConst rfl]
  by_cases hY : Y = 0
  · exec_simp [DoubleNonConst, DoubleNonConst_p0, DoubleNonConst_p1, DoubleNonConst_p2,
      DoubleNonConst_p3, hY]
  · have hZ : Z = 0 := by tauto
    exec_simp [DoubleNonConst, DoubleNonConst_p0, DoubleNonConst_p1, DoubleNonConst_p2,
      DoubleNonConst_p3, hY, hZ]

theorem dnc_one (f X Y Z r3 r4 r5 : Nat) (hY : Y ≠ 0) (hZ : Z = 1) {a b c : Nat}
    (hc : callE f 23 [X, Y, Z, r3, r4, r5] = some [X, Y, Z, a, b, c]) :
    callE (f + 1) 4 [X, Y, Z, r3, r4, r5] = some [X, Y, Z, a, b, c] := by
  rw [callE_succ f 4 _ DoubleNonConst rfl]
  subst hZ
  exec_simp [DoubleNonConst, DoubleNonConst_p0, DoubleNonConst_p1, DoubleNonConst_p2,
    DoubleNonConst_p3, hY, hc]

theorem dnc_gen (f X Y Z r3 r4 r5 : Nat) (hY : Y ≠ 0) (hZ0 : Z ≠ 0) (hZ : Z ≠ 1) {a b c : Nat}
    (hc : callE f 21 [X, Y, Z, r3, r4, r5] = some [X, Y, Z, a, b, c]) :
    callE (f + 1) 4 [X, Y, Z, r3, r4, r5] = some [X, Y, Z, a, b, c] := by
  rw [callE_succ f 4 _ DoubleNonConst rfl]
  exec_simp [DoubleNonConst, DoubleNonConst_p0, DoubleNonConst_p1, DoubleNonConst_p2,
    DoubleNonConst_p3, hY, hZ, hZ0, hc]

/-- `DoubleNonConst(&q, &r)` with call-depth budget `f` returns `r`, whatever `r` held before,
    and leaves `q` unchanged -/
def DRunP (f : Nat) (q r : Jac) : Prop :=
  ∀ r3 r4 r5, callE f 4 [q.1, q.2.1, q.2.2, r3, r4, r5] = some [q.1, q.2.1, q.2.2, r.1, r.2.1, r.2.2]

theorem dblContractP (f : Nat) : DblContract (DRunP (f + 2)) := by
  rintro ⟨X, Y, Z⟩ hq
  by_cases h0 : Y = 0 ∨ Z = 0
  · exact ⟨(0, 0, 0), fun r3 r4 r5 => dnc_zero (f + 1) X Y Z r3 r4 r5 h0, dbl_ok_zero hq h0⟩
  · have hY : Y ≠ 0 := fun h => h0 (Or.inl h)
    have hZ : Z ≠ 0 := fun h => h0 (Or.inr h)
    by_cases h1 : Z = 1
    · obtain ⟨X3, Y3, Z3, hrun, hb, eX, eY, eZ⟩ := doubleZ1EqualsOne_run f X Y Z h1
      exact ⟨(X3, Y3, Z3), fun r3 r4 r5 => dnc_one (f + 1) X Y Z r3 r4 r5 hY h1 (hrun r3 r4 r5),
        dbl_ok_poly hq hY hZ hb eX eY eZ⟩
    · obtain ⟨X3, Y3, Z3, hrun, hb, eX, eY, eZ⟩ := doubleGeneric_run f X Y Z
      exact ⟨(X3, Y3, Z3), fun r3 r4 r5 => dnc_gen (f + 1) X Y Z r3 r4 r5 hY hZ h1 (hrun r3 r4 r5),
        dbl_ok_poly hq hY hZ hb eX eY eZ⟩

end Secp.Proofs.PointOps
