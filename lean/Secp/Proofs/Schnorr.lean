import Secp.Model.Schnorr
import Secp.Model.PointSpec
import Secp.Proofs.Ecdsa
/-
  Proofs/Schnorr — lemmas behind Props/C11 (EC-Schnorr-DCRv0).  The point layer enters only
  through `PointSpec`; BLAKE-256 is a parameter `B` of which only the output length is used.
-/
namespace Secp.Proofs.Schnorr
open Secp.Spec Secp.Model Secp.Proofs

/-! ### the commitment scalar -/

/-- `ModNScalar.SetBytes` of a 32-byte string: overflow iff the integer is ≥ N -/
theorem commitScalar_32 (c : Bytes) (hc : c.length = 32) :
    commitScalar c = (if beNat c ≥ N then beNat c - N else beNat c, decide (beNat c ≥ N)) := by
  unfold commitScalar scalarSetByteSlice
  rw [List.take_of_length_le (by omega)]

/-! ### verification -/

/-- the tail of `schnorrVerify` after the point computation -/
theorem verify_tail (hp : PointSpec) (R : Jac) (hR : Jac.WF R) (r : Nat) :
    (if isInfJ R then some SchnorrErr.ErrSigRNotOnCurve else
      if (toAffineJ R).2.1 % 2 = 1 then some SchnorrErr.ErrSigRYIsOdd else
      if r ≠ (toAffineJ R).1 then some SchnorrErr.ErrUnequalRValues else none) = none ↔
    ∃ rx ry, Jac.toPt R = some (rx, ry) ∧ ry % 2 = 0 ∧ rx = r := by
  cases hi : isInfJ R with
  | true =>
    rw [(Ecdsa.toPt_none_iff R hR).2 hi]
    simp
  | false =>
    have hs := Ecdsa.toPt_of_not_inf R hR hi
    rw [hp.toAffine R _ _ hR hs, hs]
    generalize fmul R.1 (fsq (finv R.2.2)) = a
    generalize fmul R.2.1 (fmul (fsq (finv R.2.2)) (finv R.2.2)) = b
    simp only [Bool.false_eq_true, if_false, Option.some.injEq, Prod.mk.injEq]
    constructor
    · intro h
      split_ifs at h with h1 h2
      exact ⟨a, b, ⟨rfl, rfl⟩, by omega, (not_not.1 h2).symm⟩
    · rintro ⟨rx, ry, ⟨rfl, rfl⟩, h1, h2⟩
      rw [if_neg (by omega), if_neg (not_not.2 h2.symm)]

theorem verify_iff (hp : PointSpec) (B : Bytes → Bytes) (hB : ∀ x, (B x).length = 32)
    (r s : Nat) (m : Bytes) (x y : Nat) (_hr : r < P) (hs : s < N) (hx : x < P) (hy : y < P) :
    schnorrVerifyM B r s m (x, y) = none ↔
      (m.length = 32 ∧ OnCurve x y ∧ beNat (B (be32 r ++ m)) < N ∧
        ∃ rx ry, Pt.add (smul s G) (smul (beNat (B (be32 r ++ m))) (some (x, y))) = some (rx, ry) ∧
          ry % 2 = 0 ∧ rx = r) := by
  unfold schnorrVerifyM
  by_cases hm : m.length = 32
  swap
  · rw [if_pos hm]
    constructor
    · intro h; cases h
    · intro h; exact absurd h.1 hm
  rw [if_neg (not_not.2 hm)]
  by_cases hc : isOnCurveM x y = true
  swap
  · rw [if_pos hc]
    constructor
    · intro h; cases h
    · intro h; exact absurd ((PubKey.isOnCurveM_iff x y).2 h.2.1.2.2) hc
  rw [if_neg (not_not.2 hc)]
  have hon : OnCurve x y := ⟨hx, hy, (PubKey.isOnCurveM_iff x y).1 hc⟩
  simp only [commitScalar_32 _ (hB _)]
  by_cases he : beNat (B (be32 r ++ m)) ≥ N
  · simp only [he, decide_true, if_true]
    constructor
    · intro h; cases h
    · intro h; omega
  · simp only [he, decide_false, if_false, Bool.false_eq_true]
    have he' : beNat (B (be32 r ++ m)) < N := by omega
    obtain ⟨w1, t1⟩ := hp.sbmul s hs
    obtain ⟨w2, t2⟩ := hp.smulA _ x y he' hon
    obtain ⟨w3, t3⟩ := hp.add3 _ _ w1 w2
    rw [t1, t2] at t3
    rw [verify_tail hp _ w3 r, t3]
    constructor
    · intro h; exact ⟨hm, hon, he', h⟩
    · intro h; exact h.2.2.2

/-! ### signing -/

theorem sign_spec (hp : PointSpec) (B : Bytes → Bytes) (hB : ∀ x, (B x).length = 32)
    (d k : Nat) (m : Bytes) (_hk0 : 0 < k) (hk : k < N) (rx ry : Nat) (hR : smul k G = some (rx, ry)) :
    schnorrSignM B d k m =
      (if beNat (B (be32 rx ++ m)) ≥ N then .error .ErrSchnorrHashValue
       else .ok (rx, nadd (nneg (nmul (beNat (B (be32 rx ++ m))) d)) (if ry % 2 = 1 then nneg k else k))) := by
  obtain ⟨w, t⟩ := hp.sbmul k hk
  rw [hR] at t
  have hA := hp.toAffine _ rx ry w t
  unfold schnorrSignM
  simp only [hA, commitScalar_32 _ (hB _)]
  by_cases he : beNat (B (be32 rx ++ m)) ≥ N
  · simp only [he, decide_true, if_true]
  · simp only [he, decide_false, if_false, Bool.false_eq_true]

theorem sign_guards (B : Bytes → Bytes) (d : Nat) (m : Bytes) :
    (m.length ≠ 32 → schnorrSign B d m = .error .ErrInvalidHashLen) ∧
    (m.length = 32 → d = 0 → schnorrSign B d m = .error .ErrPrivateKeyIsZero) := by
  unfold schnorrSign
  constructor
  · intro h
    rw [if_pos h]
  · intro h hd
    rw [if_neg (not_not.2 h), if_pos hd]

/-! ### the 64-byte codec -/

theorem parse_iff (b : Bytes) (r s : Nat) :
    schnorrParse b = .ok (r, s) ↔
      (b.length = 64 ∧ r = beNat (b.take 32) ∧ r < P ∧ s = beNat (b.drop 32) ∧ s < N) := by
  unfold schnorrParse scalarSetByteSlice
  by_cases h1 : b.length < 64
  · rw [if_pos h1]
    constructor
    · intro h; cases h
    · intro h; omega
  rw [if_neg h1]
  by_cases h2 : b.length > 64
  · rw [if_pos h2]
    constructor
    · intro h; cases h
    · intro h; omega
  rw [if_neg h2]
  have hl : b.length = 64 := by omega
  have ht : (b.drop 32).take 32 = b.drop 32 :=
    List.take_of_length_le (by rw [List.length_drop]; omega)
  simp only [ht]
  by_cases h3 : beNat (b.take 32) ≥ P
  · rw [if_pos h3]
    constructor
    · intro h; cases h
    · rintro ⟨-, rfl, h, -⟩; omega
  rw [if_neg h3]
  by_cases h4 : beNat (b.drop 32) ≥ N
  · simp only [h4, decide_true, if_true]
    constructor
    · intro h; cases h
    · rintro ⟨-, -, -, rfl, h⟩; omega
  simp only [h4, decide_false, if_false, Bool.false_eq_true, Except.ok.injEq, Prod.mk.injEq]
  constructor
  · rintro ⟨rfl, rfl⟩
    exact ⟨hl, rfl, by omega, rfl, by omega⟩
  · rintro ⟨-, rfl, -, rfl, -⟩
    exact ⟨rfl, rfl⟩

theorem parse_serialize (r s : Nat) (hr : r < P) (hs : s < N) :
    schnorrParse (schnorrSerialize r s) = .ok (r, s) := by
  have hNP := N_lt_P
  rw [parse_iff]
  unfold schnorrSerialize
  have h1 : (be32 r ++ be32 s).take 32 = be32 r := List.take_left' (PubKey.be32_length r)
  have h2 : (be32 r ++ be32 s).drop 32 = be32 s := List.drop_left' (PubKey.be32_length r)
  rw [h1, h2, PubKey.beNat_be32 hr, PubKey.beNat_be32 (by omega : s < P)]
  refine ⟨?_, rfl, hr, rfl, hs⟩
  rw [List.length_append, PubKey.be32_length, PubKey.be32_length]

theorem serialize_parse (b : Bytes) (r s : Nat) (h : schnorrParse b = .ok (r, s)) :
    schnorrSerialize r s = b := by
  obtain ⟨hl, rfl, -, rfl, -⟩ := (parse_iff b r s).1 h
  unfold schnorrSerialize
  rw [PubKey.be32_beNat (by rw [List.length_take]; omega),
    PubKey.be32_beNat (by rw [List.length_drop]; omega), List.take_append_drop]

end Secp.Proofs.Schnorr
