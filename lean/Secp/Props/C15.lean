import Secp.Gen.Consts
import Secp.Proofs.DriversAdaptor
import Secp.Proofs.Adaptor
import Secp.Props.C03
import Secp.Proofs.Slices
/-
  Props/C15 — the crypto/elliptic adaptor agrees with the group law (and with crypto/ecdsa).
  Model: `Secp.Model.adaptorAdd/adaptorDouble/adaptorScalarMult/adaptorBaseMult/adaptorIsOnCurve`
  (hand-written mirrors of ellipticadaptor.go over naturals).  Conditional on `PointSpec`.
  The crypto/ecdsa interoperability half of the property is differential testing (the harness
  signs with one library and verifies with the other, both directions, and compares converted keys).
-/
namespace Secp.Props.C15
open Secp.Spec Secp.Model

/-- an operand of the adaptor: a curve point with coordinates in [0,P) or the (0,0) identity convention -/
def Operand (p : Nat × Nat) : Prop := (p.1 = 0 ∧ p.2 = 0) ∨ OnCurve p.1 p.2

theorem add_spec (hp : PointSpec) (p q : Nat × Nat) (hP : Operand p) (hQ : Operand q) :
    adaptorAdd p q = xyOfPt (Pt.add (ptOfXY p) (ptOfXY q)) :=
  Secp.Proofs.Adaptor.add_spec hp p q hP hQ

theorem double_spec (hp : PointSpec) (hd : PointOps) (p : Nat × Nat) (hP : Operand p) :
    adaptorDouble p = xyOfPt (Pt.dbl (ptOfXY p)) :=
  Secp.Proofs.Adaptor.double_spec hp hd p hP

/-- scalars of ANY byte length are taken modulo N -/
theorem scalar_of_bytes (k : Bytes) : adaptorScalar k = beNat k % N :=
  Secp.Proofs.Adaptor.scalar_of_bytes k

theorem scalarMult_spec (hp : PointSpec) (p : Nat × Nat) (k : Bytes) (hP : OnCurve p.1 p.2) :
    adaptorScalarMult p k = xyOfPt (smul (beNat k % N) (some p)) :=
  Secp.Proofs.Adaptor.scalarMult_spec hp p k hP

theorem scalarBaseMult_spec (hp : PointSpec) (k : Bytes) :
    adaptorBaseMult k = xyOfPt (smul (beNat k % N) G) :=
  Secp.Proofs.Adaptor.scalarBaseMult_spec hp k

/-- IsOnCurve is true exactly for curve points (coordinates in [0,P)) -/
theorem isOnCurve_iff (x y : Nat) (hx : x < P) (hy : y < P) : adaptorIsOnCurve x y = true ↔ OnCurve x y :=
  Secp.Proofs.Adaptor.isOnCurve_iff x y hx hy

/-! ### unconditional forms -/

theorem add_spec_unconditional (p q : Nat × Nat) (hP : Operand p) (hQ : Operand q) :
    adaptorAdd p q = xyOfPt (Pt.add (ptOfXY p) (ptOfXY q)) :=
  add_spec Secp.Props.C03.pointSpec p q hP hQ

theorem scalarMult_spec_unconditional (p : Nat × Nat) (k : Bytes) (hP : OnCurve p.1 p.2) :
    adaptorScalarMult p k = xyOfPt (smul (beNat k % N) (some p)) :=
  scalarMult_spec Secp.Props.C03.pointSpec p k hP

theorem scalarBaseMult_spec_unconditional (k : Bytes) :
    adaptorBaseMult k = xyOfPt (smul (beNat k % N) G) :=
  scalarBaseMult_spec Secp.Props.C03.pointSpec k

theorem double_spec_unconditional (p : Nat × Nat) (hP : Operand p) :
    adaptorDouble p = xyOfPt (Pt.dbl (ptOfXY p)) :=
  double_spec Secp.Props.C03.pointSpec Secp.Props.C04.pointOps p hP


/-- Limb level of this property's own functions: the REGENERATED sliced field programs (tools/gotr pass T2s,
    `Secp.Gen.Slices`) of the big.Int ↔ Jacobian conversions and every adaptor method pass the abstract interpreter on every path — no magnitude overflow, every
    comparison / parity test / serialisation reads a normalised value, every callee's precondition holds,
    every returned key or point is normalised.  Together with C05 (kernels) and C16 (`absPath_sound`,
    `contracts_justified`) this is what makes the value-level model above faithful to the limb code. -/
theorem adaptor_field_arithmetic_exact :
    Secp.Proofs.Slices.entriesOK ["github.com/ModChain/secp256k1.KoblitzCurve.Add", "github.com/ModChain/secp256k1.KoblitzCurve.Double", "github.com/ModChain/secp256k1.KoblitzCurve.ScalarMult", "github.com/ModChain/secp256k1.KoblitzCurve.ScalarBaseMult", "github.com/ModChain/secp256k1.KoblitzCurve.IsOnCurve", "github.com/ModChain/secp256k1.bigAffineToJacobian", "github.com/ModChain/secp256k1.jacobianToBigAffine", "github.com/ModChain/secp256k1.PublicKey.X", "github.com/ModChain/secp256k1.PublicKey.Y", "github.com/ModChain/secp256k1.PublicKey.ToECDSA", "github.com/ModChain/secp256k1.PrivateKey.ToECDSA"] = true := by decide +kernel

/-! ### Regenerated drivers (tools/gotr pass T8)

`Secp.Gen.Drivers` is REGENERATED from /repo on every check run: the Go functions below translated
statement by statement into Lean terms over the value-level primitives.  The theorems say the
regenerated definitions EQUAL the hand-written models the theorems above are about. -/

/-- `curve.IsOnCurve` regenerated = the model, for ALL big integers -/
theorem isOnCurve_regenerated (x y : Nat) : Secp.Gen.Drivers.adaptorIsOnCurveGen x y = adaptorIsOnCurve x y :=
  Secp.Proofs.DriversAdaptor.isOnCurve_regenerated x y

/-- `curve.Add` regenerated = the model on the property's domain (coordinates below P) -/
theorem add_regenerated (x1 y1 x2 y2 : Nat) (h1 : x1 < P) (h2 : y1 < P) (h3 : x2 < P) (h4 : y2 < P) :
    Secp.Gen.Drivers.adaptorAddGen x1 y1 x2 y2 = adaptorAdd (x1, y1) (x2, y2) :=
  Secp.Proofs.DriversAdaptor.add_regenerated x1 y1 x2 y2 h1 h2 h3 h4

/-- … and the range hypotheses are NECESSARY: outside [0,P) the code compares raw values (kernel-checked witnesses) -/
theorem add_needs_range :
    Secp.Gen.Drivers.adaptorAddGen (P + 3) 7 3 7 ≠ adaptorAdd (P + 3, 7) (3, 7) :=
  Secp.Proofs.DriversAdaptor.add_needs_x1

/-- `curve.Double` regenerated = the model, for ALL big integers -/
theorem double_regenerated (x y : Nat) : Secp.Gen.Drivers.adaptorDoubleGen x y = adaptorDouble (x, y) :=
  Secp.Proofs.DriversAdaptor.double_regenerated' x y

/-- `curve.ScalarMult` regenerated = the model (point coordinates below P, scalar bytes of any length) -/
theorem scalarMult_regenerated (x y : Nat) (k : Bytes) (hx : x < P) (hy : y < P) :
    Secp.Gen.Drivers.adaptorScalarMultGen x y k = adaptorScalarMult (x, y) k :=
  Secp.Proofs.DriversAdaptor.scalarMult_regenerated x y k hx hy

/-- `curve.ScalarBaseMult` regenerated = the model, for ALL byte strings -/
theorem scalarBaseMult_regenerated (k : Bytes) : Secp.Gen.Drivers.adaptorScalarBaseMultGen k = adaptorBaseMult k :=
  Secp.Proofs.DriversAdaptor.scalarBaseMult_regenerated k

/-- `PublicKey.X()` / `Y()` regenerated -/
theorem pubKeyXY_regenerated (p : Nat × Nat) (hx : p.1 < 2^256) (hy : p.2 < 2^256) :
    Secp.Gen.Drivers.pubKeyX p = p.1 ∧ Secp.Gen.Drivers.pubKeyY p = p.2 :=
  ⟨Secp.Proofs.DriversAdaptor.pubKeyX_regenerated p hx, Secp.Proofs.DriversAdaptor.pubKeyY_regenerated p hy⟩


/-- the curve parameters the code reads through `curveParams` / `S256().N` / `Params().N` (regenerated literals, pass T3)
    are the constants of the specification: pass T8 writes `N` / `P` for them on the strength of this theorem -/
theorem curve_params_are_spec :
    Secp.Gen.Consts.curveParams_N = Secp.Spec.N ∧ Secp.Gen.Consts.curveParams_P = Secp.Spec.P ∧
    Secp.Gen.Consts.curveParams_Gx = Secp.Spec.Gx ∧ Secp.Gen.Consts.curveParams_Gy = Secp.Spec.Gy ∧
    Secp.Gen.Consts.curveParams_B = 7 ∧ Secp.Gen.Consts.curveParams_N_neg = false ∧ Secp.Gen.Consts.curveParams_P_neg = false := by
  decide

end Secp.Props.C15
