import Secp.Spec.Field
/-
  Core/FOp — the language of field-operation programs that tools/gotr (pass T2)
  extracts from curve.go / field.go (point addition and doubling, ToAffine,
  isOnCurve, DecompressY, Inverse, SquareRootVal): every execution path of a
  function as a straight-line list of FieldVal method calls and assumed
  predicate outcomes.  Three interpretations:

  * `execF`  — value level: registers hold naturals < P (what the limbs denote);
               this is the executable model the driver runs against the real code;
  * `absI`   — abstract interpretation over (magnitude bound, normalised?) that
               fails as soon as an operation's documented precondition may be
               violated (C16);
  * `expI`   — exponent tracking for the addition chains of Inverse / SquareRootVal.

  Core-only.
-/
namespace Secp.FOp
open Secp.Spec

inductive FOp where
  | set (d s : Nat)
  | setInt (d v : Nat)
  | zero (d : Nat)
  | neg (d s m : Nat)        -- d.NegateVal(s, m)
  | add (d s : Nat)
  | add2 (d a b : Nat)
  | addInt (d v : Nat)
  | mulInt (d v : Nat)
  | mul2 (d a b : Nat)
  | sq (d a : Nat)
  | norm (d : Nat)
  deriving Repr, DecidableEq, Inhabited

inductive FCond where
  | equals (a b : Nat)
  | isZero (a : Nat)
  | isOne (a : Nat)
  | isOdd (a : Nat)
  | boolIn (i : Nat)          -- the i-th boolean parameter of the entry
  deriving Repr, DecidableEq, Inhabited

inductive PItem where
  | op (o : FOp)
  | assume (c : FCond) (v : Bool)
  | call (entry : Nat) (args : List Nat)   -- call entry #i of the table; args = caller registers of the callee's parameters
  deriving Repr, DecidableEq, Inhabited

structure FPath where
  ret : Option Bool
  items : List PItem
  deriving Repr, Inhabited

structure Entry where
  name : String
  nparam : Nat
  nreg : Nat
  paths : List FPath
  deriving Repr, Inhabited

/-! ### value-level semantics -/

abbrev Regs := List Nat

def rget (r : Regs) (i : Nat) : Nat := r.getD i 0
def rset (r : Regs) (i v : Nat) : Regs := r.set i v

def stepF (r : Regs) : FOp → Regs
  | .set d s => rset r d (rget r s)
  | .setInt d v => rset r d (v % P)
  | .zero d => rset r d 0
  | .neg d s _ => rset r d (fneg (rget r s))
  | .add d s => rset r d (fadd (rget r d) (rget r s))
  | .add2 d a b => rset r d (fadd (rget r a) (rget r b))
  | .addInt d v => rset r d (fadd (rget r d) v)
  | .mulInt d v => rset r d (fmul (rget r d) v)
  | .mul2 d a b => rset r d (fmul (rget r a) (rget r b))
  | .sq d a => rset r d (fsq (rget r a))
  | .norm d => rset r d (rget r d % P)

def condF (r : Regs) (bools : List Bool) : FCond → Bool
  | .equals a b => rget r a == rget r b
  | .isZero a => rget r a == 0
  | .isOne a => rget r a == 1
  | .isOdd a => rget r a % 2 == 1
  | .boolIn i => bools.getD i false

/-- run one path; `none` when an assumed outcome does not hold on these values -/
def execPath (bools : List Bool) : List PItem → Regs → Option Regs
  | [], r => some r
  | .op o :: rest, r => execPath bools rest (stepF r o)
  | .assume c v :: rest, r => if condF r bools c == v then execPath bools rest r else none
  | .call _ _ :: _, _ => none     -- inlined programs contain no calls

/-- run an entry: the (unique) path whose assumptions hold -/
def runEntry (e : Entry) (params : List Nat) (bools : List Bool) : Option (Regs × Option Bool) :=
  let r0 : Regs := params ++ List.replicate (e.nreg - params.length) 0
  e.paths.findSome? fun p => (execPath bools p.items r0).map fun r => (r, p.ret)

/-! ### call-structured programs (Gen.FormulasC) -/

/-- copy the callee's parameter registers back into the caller's argument registers, in order -/
def writeBack : Regs → List Nat → List Nat → Regs
  | r, a :: as, v :: vs => writeBack (rset r a v) as vs
  | r, _, _ => r

/-- run a path whose calls are answered by `callF entry argumentValues` (the callee's final parameter values) -/
def execPathWith (callF : Nat → List Nat → Option (List Nat)) (bools : List Bool) : List PItem → Regs → Option Regs
  | [], r => some r
  | .op o :: rest, r => execPathWith callF bools rest (stepF r o)
  | .assume c v :: rest, r => if condF r bools c == v then execPathWith callF bools rest r else none
  | .call i args :: rest, r =>
    match callF i (args.map (rget r)) with
    | none => none
    | some outs => execPathWith callF bools rest (writeBack r args outs)

/-- run entry #i of a table with a bound on the call depth -/
def runEntryC (table : List Entry) : Nat → Nat → List Nat → List Bool → Option (Regs × Option Bool)
  | 0, _, _, _ => none
  | fuel+1, i, params, bools =>
    match table[i]? with
    | none => none
    | some e =>
      let r0 : Regs := params ++ List.replicate (e.nreg - params.length) 0
      let callF := fun j args => (runEntryC table fuel j args []).map fun (r, _) => r.take args.length
      e.paths.findSome? fun p => (execPathWith callF bools p.items r0).map fun r => (r, p.ret)

/-! ### abstract interpretation: magnitudes and normalisation (C16) -/

/-- abstract value: magnitude bound (in units of the slack bound LB, DESIGN §4) and "is normalised" -/
abbrev AV := Nat × Bool
abbrev AState := List (Option AV)

def aget (σ : AState) (i : Nat) : Option AV := (σ[i]?).join
def aset (σ : AState) (i : Nat) (v : AV) : AState :=
  if i < σ.length then σ.set i (some v) else σ ++ List.replicate (i - σ.length) none ++ [some v]

/-- the largest magnitude that fits a uint32 limb with the slack bound -/
def maxMag : Nat := 63
/-- Mul2/SquareVal operand magnitude (documented: 8) -/
def mulMag : Nat := 8

def stepA (σ : AState) : FOp → Option AState
  | .set d s => do let v ← aget σ s; pure (aset σ d v)
  | .setInt d v => if v < 2 ^ 16 then some (aset σ d (1, true)) else none
  | .zero d => some (aset σ d (1, true))
  | .neg d s m => do
      let (ms, _) ← aget σ s
      if ms ≤ m ∧ m ≤ maxMag then pure (aset σ d (m + 1, false)) else none
  | .add d s => do
      let (md, _) ← aget σ d
      let (ms, _) ← aget σ s
      if md + ms ≤ maxMag then pure (aset σ d (md + ms, false)) else none
  | .add2 d a b => do
      let (ma, _) ← aget σ a
      let (mb, _) ← aget σ b
      if ma + mb ≤ maxMag then pure (aset σ d (ma + mb, false)) else none
  | .addInt d v => do
      let (md, _) ← aget σ d
      if md + 1 ≤ maxMag ∧ v < 2 ^ 16 then pure (aset σ d (md + 1, false)) else none
  | .mulInt d v => do
      let (md, _) ← aget σ d
      if md * v ≤ maxMag ∧ v < 256 ∧ 0 < v then pure (aset σ d (md * v, false)) else none
  | .mul2 d a b => do
      let (ma, _) ← aget σ a
      let (mb, _) ← aget σ b
      if ma ≤ mulMag ∧ mb ≤ mulMag then pure (aset σ d (1, false)) else none
  | .sq d a => do
      let (ma, _) ← aget σ a
      if ma ≤ mulMag then pure (aset σ d (1, false)) else none
  | .norm d => do
      let (md, _) ← aget σ d
      if md ≤ maxMag then pure (aset σ d (1, true)) else none

/-- every predicate needs normalised operands -/
def condA (σ : AState) : FCond → Bool
  | .equals a b => (aget σ a).any (·.2) && (aget σ b).any (·.2)
  | .isZero a => (aget σ a).any (·.2)
  | .isOne a => (aget σ a).any (·.2)
  | .isOdd a => (aget σ a).any (·.2)
  | .boolIn _ => true

def absPath : List PItem → AState → Option AState
  | [], σ => some σ
  | .op o :: rest, σ => do let σ' ← stepA σ o; absPath rest σ'
  | .assume c _ :: rest, σ => if condA σ c then absPath rest σ else none
  | .call _ _ :: _, _ => none

/-- all paths of an entry pass from the input contract, and the listed output registers end normalised -/
def Entry.absOK (e : Entry) (σ0 : AState) (outs : List Nat) : Bool :=
  e.paths.all fun p =>
    match absPath p.items σ0 with
    | none => false
    | some σ => outs.all fun i => (aget σ i).any (·.2)

/-- index of the first failing path and item, for diagnostics -/
def absPathDiag : List PItem → AState → Nat → Option Nat
  | [], _, _ => none
  | .op o :: rest, σ, k => match stepA σ o with
      | none => some k
      | some σ' => absPathDiag rest σ' (k + 1)
  | .assume c _ :: rest, σ, k => if condA σ c then absPathDiag rest σ (k + 1) else some k
  | .call _ _ :: _, _, k => some k

/-! ### exponent tracking for addition chains -/

/-- registers hold `some e` when they are known to equal (input)^e -/
def stepE (σ : List (Option Nat)) : FOp → List (Option Nat)
  | .set d s => σ.set d ((σ[s]?).join)
  | .mul2 d a b => σ.set d (do let x ← (σ[a]?).join; let y ← (σ[b]?).join; pure (x + y))
  | .sq d a => σ.set d (do let x ← (σ[a]?).join; pure (2 * x))
  | .norm _ => σ
  | .zero d => σ.set d none
  | .setInt d _ => σ.set d none
  | .neg d _ _ => σ.set d none
  | .add d _ => σ.set d none
  | .add2 d _ _ => σ.set d none
  | .addInt d _ => σ.set d none
  | .mulInt d _ => σ.set d none

def expPath : List PItem → List (Option Nat) → List (Option Nat)
  | [], σ => σ
  | .op o :: rest, σ => expPath rest (stepE σ o)
  | .assume _ _ :: rest, σ => expPath rest σ
  | .call _ _ :: rest, σ => expPath rest σ

end Secp.FOp
