import Secp.Core.IR
import Secp.Proofs.IRSound
/-
  Proofs/ScalarReduce — arithmetic content of the inlined `reduce385` tail and of the first
  fold of `reduce512`, as statements about plain naturals whose hypotheses are literally the
  SSA equations that `ir_steps` produces (so they can be instantiated for Scalar_reduce385,
  Scalar_reduce512 and Scalar_Mul2, which all inline the same code).
  File generated once by a script and then frozen; every proof is `omega` on a small context.
-/
namespace Secp.Proofs.ScalarReduce
open Secp.IR


set_option maxHeartbeats 4000000 in
set_option maxRecDepth 100000 in
theorem phaseA (t0 t1 t2 t3 t4 t5 t6 t7 t8 t9 t10 t11 t12 w0 w1 w2 w3 w4 w5 w6 w7 w8 w9 w10 w11 w12 w13 w14 w15 w16 w17 w18 w19 w20 w21 w22 w23 w24 w25 w26 w27 w28 w29 w30 w31 w32 w33 w34 w35 w36 w37 w38 w39 w40 w41 w42 w43 w44 w45 w46 w47 w48 : Nat)
    (h0 : t0 < 2^32)
    (e0 : w0 = t0 % 2 ^ 32)
    (e1 : w1 = w0 + t8 * 801750719)
    (e2 : w2 = w1 % 2 ^ 32)
    (e3 : w3 = w1 / 2 ^ 32)
    (e4 : w4 = w3 + t1)
    (e5 : w5 = w4 + t8 * 1076732275)
    (e6 : w6 = w5 + t9 * 801750719)
    (e7 : w7 = w6 % 2 ^ 32)
    (e8 : w8 = w6 / 2 ^ 32)
    (e9 : w9 = w8 + t2)
    (e10 : w10 = w9 + t8 * 1354194884)
    (e11 : w11 = w10 + t9 * 1076732275)
    (e12 : w12 = w11 + t10 * 801750719)
    (e13 : w13 = w12 % 2 ^ 32)
    (e14 : w14 = w12 / 2 ^ 32)
    (e15 : w15 = w14 + t3)
    (e16 : w16 = w15 + t8 * 1162945305)
    (e17 : w17 = w16 + t9 * 1354194884)
    (e18 : w18 = w17 + t10 * 1076732275)
    (e19 : w19 = w18 + t11 * 801750719)
    (e20 : w20 = w19 % 2 ^ 32)
    (e21 : w21 = w19 / 2 ^ 32)
    (e22 : w22 = w21 + t4)
    (e23 : w23 = w22 + t8)
    (e24 : w24 = w23 + t9 * 1162945305)
    (e25 : w25 = w24 + t10 * 1354194884)
    (e26 : w26 = w25 + t11 * 1076732275)
    (e27 : w27 = w26 + t12 * 801750719)
    (e28 : w28 = w27 % 2 ^ 32)
    (e29 : w29 = w27 / 2 ^ 32)
    (e30 : w30 = w29 + t5)
    (e31 : w31 = w30 + t9)
    (e32 : w32 = w31 + t10 * 1162945305)
    (e33 : w33 = w32 + t11 * 1354194884)
    (e34 : w34 = w33 + t12 * 1076732275)
    (e35 : w35 = w34 % 2 ^ 32)
    (e36 : w36 = w34 / 2 ^ 32)
    (e37 : w37 = w36 + t6)
    (e38 : w38 = w37 + t10)
    (e39 : w39 = w38 + t11 * 1162945305)
    (e40 : w40 = w39 + t12 * 1354194884)
    (e41 : w41 = w40 % 2 ^ 32)
    (e42 : w42 = w40 / 2 ^ 32)
    (e43 : w43 = w42 + t7)
    (e44 : w44 = w43 + t11)
    (e45 : w45 = w44 + t12 * 1162945305)
    (e46 : w46 = w45 % 2 ^ 32)
    (e47 : w47 = w45 / 2 ^ 32)
    (e48 : w48 = w47 + t12) :
    w2 + w7 * 2^32 + w13 * 2^64 + w20 * 2^96 + w28 * 2^128 + w35 * 2^160 + w41 * 2^192 + w46 * 2^224 + w48 * 2^256 = t0 + t1 * 2^32 + t2 * 2^64 + t3 * 2^96 + t4 * 2^128 + t5 * 2^160 + t6 * 2^192 + t7 * 2^224 + (t8 + t9 * 2^32 + t10 * 2^64 + t11 * 2^96 + t12 * 2^128) * 432420386565659656852420866394968145599 := by
  omega

set_option maxHeartbeats 4000000 in
set_option maxRecDepth 100000 in
theorem phaseB (w2 w7 w13 w20 w28 w35 w41 w46 w48 w49 w50 w51 w52 w53 w54 w55 w56 w57 w58 w59 w60 w61 w62 w63 w64 w65 : Nat)
    (bw2 : w2 < 2^32) (bw7 : w7 < 2^32) (bw13 : w13 < 2^32) (bw20 : w20 < 2^32) (bw28 : w28 < 2^32) (bw35 : w35 < 2^32) (bw41 : w41 < 2^32) (bw46 : w46 < 2^32) (bw48 : w48 < 2^32)
    (e49 : w49 = w48 % 2 ^ 32)
    (e50 : w50 = w2 + w49 * 801750719)
    (e51 : w51 = w50 % 2 ^ 32 % 2 ^ 32)
    (e52 : w52 = w50 / 2 ^ 32 + w7 + w49 * 1076732275)
    (e53 : w53 = w52 % 2 ^ 32 % 2 ^ 32)
    (e54 : w54 = w52 / 2 ^ 32 + w13 + w49 * 1354194884)
    (e55 : w55 = w54 % 2 ^ 32 % 2 ^ 32)
    (e56 : w56 = w54 / 2 ^ 32 + w20 + w49 * 1162945305)
    (e57 : w57 = w56 % 2 ^ 32 % 2 ^ 32)
    (e58 : w58 = w56 / 2 ^ 32 + w28 + w49)
    (e59 : w59 = w58 % 2 ^ 32 % 2 ^ 32)
    (e60 : w60 = w58 / 2 ^ 32 + w35)
    (e61 : w61 = w60 % 2 ^ 32 % 2 ^ 32)
    (e62 : w62 = w60 / 2 ^ 32 + w41)
    (e63 : w63 = w62 % 2 ^ 32 % 2 ^ 32)
    (e64 : w64 = w62 / 2 ^ 32 + w46)
    (e65 : w65 = w64 % 2 ^ 32 % 2 ^ 32) :
    (w51 < 2^32 ∧ w53 < 2^32 ∧ w55 < 2^32 ∧ w57 < 2^32 ∧ w59 < 2^32 ∧ w61 < 2^32 ∧ w63 < 2^32 ∧ w65 < 2^32) ∧ w64 / 2^32 ≤ 1 ∧
    w51 + w53 * 2^32 + w55 * 2^64 + w57 * 2^96 + w59 * 2^128 + w61 * 2^160 + w63 * 2^192 + w65 * 2^224 + (w64 / 2^32) * 2^256 = w2 + w7 * 2^32 + w13 * 2^64 + w20 * 2^96 + w28 * 2^128 + w35 * 2^160 + w41 * 2^192 + w46 * 2^224 + w48 * 432420386565659656852420866394968145599 := by
  omega

set_option maxHeartbeats 4000000 in
set_option maxRecDepth 100000 in
theorem phaseC (w51 w53 w55 w57 w59 w61 w63 w65 w64 w82 w83 w84 w85 w86 w87 w88 w89 w90 w91 w92 w93 w94 w95 w96 w97 w98 w99 : Nat)
    (hc : w64 / 2^32 ≤ 1)
    (e83 : w83 = w64 / 2 ^ 32 % 2 ^ 32 + w82)
    (e84 : w84 = w51 + w83 * 801750719)
    (e85 : w85 = w84 % 2 ^ 32 % 2 ^ 32)
    (e86 : w86 = w84 / 2 ^ 32 + w53 + w83 * 1076732275)
    (e87 : w87 = w86 % 2 ^ 32 % 2 ^ 32)
    (e88 : w88 = w86 / 2 ^ 32 + w55 + w83 * 1354194884)
    (e89 : w89 = w88 % 2 ^ 32 % 2 ^ 32)
    (e90 : w90 = w88 / 2 ^ 32 + w57 + w83 * 1162945305)
    (e91 : w91 = w90 % 2 ^ 32 % 2 ^ 32)
    (e92 : w92 = w90 / 2 ^ 32 + w59 + w83)
    (e93 : w93 = w92 % 2 ^ 32 % 2 ^ 32)
    (e94 : w94 = w92 / 2 ^ 32 + w61)
    (e95 : w95 = w94 % 2 ^ 32 % 2 ^ 32)
    (e96 : w96 = w94 / 2 ^ 32 + w63)
    (e97 : w97 = w96 % 2 ^ 32 % 2 ^ 32)
    (e98 : w98 = w96 / 2 ^ 32 + w65)
    (e99 : w99 = w98 % 2 ^ 32 % 2 ^ 32) :
    (w85 < 2^32 ∧ w87 < 2^32 ∧ w89 < 2^32 ∧ w91 < 2^32 ∧ w93 < 2^32 ∧ w95 < 2^32 ∧ w97 < 2^32 ∧ w99 < 2^32) ∧ w83 = w64 / 2^32 + w82 ∧
    w85 + w87 * 2^32 + w89 * 2^64 + w91 * 2^96 + w93 * 2^128 + w95 * 2^160 + w97 * 2^192 + w99 * 2^224 + (w98 / 2^32) * 2^256 = w51 + w53 * 2^32 + w55 * 2^64 + w57 * 2^96 + w59 * 2^128 + w61 * 2^160 + w63 * 2^192 + w65 * 2^224 + w83 * 432420386565659656852420866394968145599 := by
  omega

theorem ind_beq {w x c : Nat} (e : w = b2n (x == c)) : w ≤ 1 ∧ (w = 1 ↔ x = c) := by
  subst e; unfold b2n; by_cases h : x = c <;> simp [h]
theorem ind_lt {w x c : Nat} (e : w = b2n (decide (c < x))) : w ≤ 1 ∧ (w = 1 ↔ c < x) := by
  subst e; unfold b2n; by_cases h : c < x <;> simp [h]
theorem ind_le {w x c : Nat} (e : w = b2n (decide (c ≤ x))) : w ≤ 1 ∧ (w = 1 ↔ c ≤ x) := by
  subst e; unfold b2n; by_cases h : c ≤ x <;> simp [h]
theorem ind_and {w a b : Nat} (e : w = a &&& b) (ha : a ≤ 1) (hb : b ≤ 1) :
    w ≤ 1 ∧ (w = 1 ↔ a = 1 ∧ b = 1) := by
  have h1 : a = 0 ∨ a = 1 := by omega
  have h2 : b = 0 ∨ b = 1 := by omega
  subst e
  rcases h1 with rfl | rfl <;> rcases h2 with rfl | rfl <;> decide
theorem ind_and_beq {w a x c : Nat} (e : w = a &&& b2n (x == c)) (ha : a ≤ 1) :
    w ≤ 1 ∧ (w = 1 ↔ a = 1 ∧ x = c) := by
  have hb := ind_beq (w := b2n (x == c)) rfl
  have := ind_and e ha hb.1
  rw [hb.2] at this; exact this
theorem ind_or_and {w a b c : Nat} (e : w = a ||| b &&& c) (ha : a ≤ 1) (hb : b ≤ 1) (hc : c ≤ 1) :
    w ≤ 1 ∧ (w = 1 ↔ a = 1 ∨ (b = 1 ∧ c = 1)) := by
  have h1 : a = 0 ∨ a = 1 := by omega
  have h2 : b = 0 ∨ b = 1 := by omega
  have h3 : c = 0 ∨ c = 1 := by omega
  subst e
  rcases h1 with rfl | rfl <;> rcases h2 with rfl | rfl <;> rcases h3 with rfl | rfl <;> decide

/-- one more (less significant) word in a lexicographic comparison -/
theorem lexstep {H Nh x c g e y g' e' : Nat} (hx : x < 2^32) (hc : c < 2^32)
    (hg : g = 1 ↔ Nh < H) (he : e = 1 ↔ H = Nh)
    (hy : y = 1 ↔ c < x)
    (hg' : g' = 1 ↔ g = 1 ∨ (e = 1 ∧ y = 1)) (he' : e' = 1 ↔ e = 1 ∧ x = c) :
    (g' = 1 ↔ Nh * 2^32 + c < H * 2^32 + x) ∧ (e' = 1 ↔ H * 2^32 + x = Nh * 2^32 + c) := by
  omega

set_option maxHeartbeats 4000000 in
set_option maxRecDepth 100000 in
theorem ovf (w51 w53 w55 w57 w59 w61 w63 w65 w66 w67 w68 w69 w70 w71 w72 w73 w74 w75 w76 w77 w78 w79 w80 w81 w82 : Nat)
    (bw51 : w51 < 2^32) (bw53 : w53 < 2^32) (bw55 : w55 < 2^32) (bw57 : w57 < 2^32) (bw59 : w59 < 2^32) (bw61 : w61 < 2^32) (bw63 : w63 < 2^32) (bw65 : w65 < 2^32)
    (e66 : w66 = b2n (w65 == 4294967295))
    (e67 : w67 = w66 &&& b2n (w63 == 4294967295))
    (e68 : w68 = w67 &&& b2n (w61 == 4294967295))
    (e69 : w69 = b2n (decide (4294967294 < w59)))
    (e70 : w70 = w68 &&& w69)
    (e71 : w71 = w68 &&& b2n (w59 == 4294967294))
    (e72 : w72 = b2n (decide (3132021990 < w57)))
    (e73 : w73 = w70 ||| w71 &&& w72)
    (e74 : w74 = w71 &&& b2n (w57 == 3132021990))
    (e75 : w75 = b2n (decide (2940772411 < w55)))
    (e76 : w76 = w73 ||| w74 &&& w75)
    (e77 : w77 = w74 &&& b2n (w55 == 2940772411))
    (e78 : w78 = b2n (decide (3218235020 < w53)))
    (e79 : w79 = w76 ||| w77 &&& w78)
    (e80 : w80 = w77 &&& b2n (w53 == 3218235020))
    (e81 : w81 = b2n (decide (3493216577 ≤ w51)))
    (e82 : w82 = w79 ||| w80 &&& w81) :
    w82 ≤ 1 ∧ (w82 = 1 ↔ 115792089237316195423570985008687907852837564279074904382605163141518161494337 ≤ w51 * 2^0 + w53 * 2^32 + w55 * 2^64 + w57 * 2^96 + w59 * 2^128 + w61 * 2^160 + w63 * 2^192 + w65 * 2^224) := by
  have i66 := ind_beq e66
  have i67 := ind_and_beq e67 i66.1
  have i68 := ind_and_beq e68 i67.1
  have i69 := ind_lt e69
  have i70 := ind_and e70 i68.1 i69.1
  have i71 := ind_and_beq e71 i68.1
  have i72 := ind_lt e72
  have i73 := ind_or_and e73 i70.1 i71.1 i72.1
  have i74 := ind_and_beq e74 i71.1
  have i75 := ind_lt e75
  have i76 := ind_or_and e76 i73.1 i74.1 i75.1
  have i77 := ind_and_beq e77 i74.1
  have i78 := ind_lt e78
  have i79 := ind_or_and e79 i76.1 i77.1 i78.1
  have i80 := ind_and_beq e80 i77.1
  have i81 := ind_le e81
  have i82 := ind_or_and e82 i79.1 i80.1 i81.1
  -- the four most significant words
  have s4 : (w70 = 1 ↔ 340282366920938463463374607431768211454 < w59 + w61 * 2^32 + w63 * 2^64 + w65 * 2^96) ∧
            (w71 = 1 ↔ w59 + w61 * 2^32 + w63 * 2^64 + w65 * 2^96 = 340282366920938463463374607431768211454) := by
    have a66 := i66.2; have a67 := i67.2; have a68 := i68.2; have a69 := i69.2; have a70 := i70.2; have a71 := i71.2
    clear i66 i67 i68 i69 i70 i71 i72 i73 i74 i75 i76 i77 i78 i79 i80 i81 i82
    clear e66 e67 e68 e69 e70 e71 e72 e73 e74 e75 e76 e77 e78 e79 e80 e81 e82
    omega
  have s3 := lexstep bw57 (by decide : 3132021990 < 2^32) s4.1 s4.2 i72.2 i73.2 i74.2
  have s2 := lexstep bw55 (by decide : 2940772411 < 2^32) s3.1 s3.2 i75.2 i76.2 i77.2
  have s1 := lexstep bw53 (by decide : 3218235020 < 2^32) s2.1 s2.2 i78.2 i79.2 i80.2
  refine ⟨i82.1, ?_⟩
  have a82 := i82.2; have a81 := i81.2
  obtain ⟨s1a, s1b⟩ := s1
  clear i66 i67 i68 i69 i70 i71 i72 i73 i74 i75 i76 i77 i78 i79 i80 i81 i82 s4 s3 s2
  clear e66 e67 e68 e69 e70 e71 e72 e73 e74 e75 e76 e77 e78 e79 e80 e81 e82
  omega

set_option maxHeartbeats 4000000 in
set_option maxRecDepth 100000 in
/-- the whole `reduce385` code path on 13 words, provided the first fold fits 9 words -/
theorem tail385 (t0 t1 t2 t3 t4 t5 t6 t7 t8 t9 t10 t11 t12 w0 w1 w2 w3 w4 w5 w6 w7 w8 w9 w10 w11 w12 w13 w14 w15 w16 w17 w18 w19 w20 w21 w22 w23 w24 w25 w26 w27 w28 w29 w30 w31 w32 w33 w34 w35 w36 w37 w38 w39 w40 w41 w42 w43 w44 w45 w46 w47 w48 w49 w50 w51 w52 w53 w54 w55 w56 w57 w58 w59 w60 w61 w62 w63 w64 w65 w66 w67 w68 w69 w70 w71 w72 w73 w74 w75 w76 w77 w78 w79 w80 w81 w82 w83 w84 w85 w86 w87 w88 w89 w90 w91 w92 w93 w94 w95 w96 w97 w98 w99 : Nat)
    (bt0 : t0 < 2^32) (bt1 : t1 < 2^32) (bt2 : t2 < 2^32) (bt3 : t3 < 2^32) (bt4 : t4 < 2^32) (bt5 : t5 < 2^32) (bt6 : t6 < 2^32) (bt7 : t7 < 2^32)
    (hb : t0 + t1 * 2^32 + t2 * 2^64 + t3 * 2^96 + t4 * 2^128 + t5 * 2^160 + t6 * 2^192 + t7 * 2^224 + (t8 + t9 * 2^32 + t10 * 2^64 + t11 * 2^96 + t12 * 2^128) * 432420386565659656852420866394968145599 < 2^288)
    (e0 : w0 = t0 % 2 ^ 32)
    (e1 : w1 = w0 + t8 * 801750719)
    (e2 : w2 = w1 % 2 ^ 32)
    (e3 : w3 = w1 / 2 ^ 32)
    (e4 : w4 = w3 + t1)
    (e5 : w5 = w4 + t8 * 1076732275)
    (e6 : w6 = w5 + t9 * 801750719)
    (e7 : w7 = w6 % 2 ^ 32)
    (e8 : w8 = w6 / 2 ^ 32)
    (e9 : w9 = w8 + t2)
    (e10 : w10 = w9 + t8 * 1354194884)
    (e11 : w11 = w10 + t9 * 1076732275)
    (e12 : w12 = w11 + t10 * 801750719)
    (e13 : w13 = w12 % 2 ^ 32)
    (e14 : w14 = w12 / 2 ^ 32)
    (e15 : w15 = w14 + t3)
    (e16 : w16 = w15 + t8 * 1162945305)
    (e17 : w17 = w16 + t9 * 1354194884)
    (e18 : w18 = w17 + t10 * 1076732275)
    (e19 : w19 = w18 + t11 * 801750719)
    (e20 : w20 = w19 % 2 ^ 32)
    (e21 : w21 = w19 / 2 ^ 32)
    (e22 : w22 = w21 + t4)
    (e23 : w23 = w22 + t8)
    (e24 : w24 = w23 + t9 * 1162945305)
    (e25 : w25 = w24 + t10 * 1354194884)
    (e26 : w26 = w25 + t11 * 1076732275)
    (e27 : w27 = w26 + t12 * 801750719)
    (e28 : w28 = w27 % 2 ^ 32)
    (e29 : w29 = w27 / 2 ^ 32)
    (e30 : w30 = w29 + t5)
    (e31 : w31 = w30 + t9)
    (e32 : w32 = w31 + t10 * 1162945305)
    (e33 : w33 = w32 + t11 * 1354194884)
    (e34 : w34 = w33 + t12 * 1076732275)
    (e35 : w35 = w34 % 2 ^ 32)
    (e36 : w36 = w34 / 2 ^ 32)
    (e37 : w37 = w36 + t6)
    (e38 : w38 = w37 + t10)
    (e39 : w39 = w38 + t11 * 1162945305)
    (e40 : w40 = w39 + t12 * 1354194884)
    (e41 : w41 = w40 % 2 ^ 32)
    (e42 : w42 = w40 / 2 ^ 32)
    (e43 : w43 = w42 + t7)
    (e44 : w44 = w43 + t11)
    (e45 : w45 = w44 + t12 * 1162945305)
    (e46 : w46 = w45 % 2 ^ 32)
    (e47 : w47 = w45 / 2 ^ 32)
    (e48 : w48 = w47 + t12)
    (e49 : w49 = w48 % 2 ^ 32)
    (e50 : w50 = w2 + w49 * 801750719)
    (e51 : w51 = w50 % 2 ^ 32 % 2 ^ 32)
    (e52 : w52 = w50 / 2 ^ 32 + w7 + w49 * 1076732275)
    (e53 : w53 = w52 % 2 ^ 32 % 2 ^ 32)
    (e54 : w54 = w52 / 2 ^ 32 + w13 + w49 * 1354194884)
    (e55 : w55 = w54 % 2 ^ 32 % 2 ^ 32)
    (e56 : w56 = w54 / 2 ^ 32 + w20 + w49 * 1162945305)
    (e57 : w57 = w56 % 2 ^ 32 % 2 ^ 32)
    (e58 : w58 = w56 / 2 ^ 32 + w28 + w49)
    (e59 : w59 = w58 % 2 ^ 32 % 2 ^ 32)
    (e60 : w60 = w58 / 2 ^ 32 + w35)
    (e61 : w61 = w60 % 2 ^ 32 % 2 ^ 32)
    (e62 : w62 = w60 / 2 ^ 32 + w41)
    (e63 : w63 = w62 % 2 ^ 32 % 2 ^ 32)
    (e64 : w64 = w62 / 2 ^ 32 + w46)
    (e65 : w65 = w64 % 2 ^ 32 % 2 ^ 32)
    (e66 : w66 = b2n (w65 == 4294967295))
    (e67 : w67 = w66 &&& b2n (w63 == 4294967295))
    (e68 : w68 = w67 &&& b2n (w61 == 4294967295))
    (e69 : w69 = b2n (decide (4294967294 < w59)))
    (e70 : w70 = w68 &&& w69)
    (e71 : w71 = w68 &&& b2n (w59 == 4294967294))
    (e72 : w72 = b2n (decide (3132021990 < w57)))
    (e73 : w73 = w70 ||| w71 &&& w72)
    (e74 : w74 = w71 &&& b2n (w57 == 3132021990))
    (e75 : w75 = b2n (decide (2940772411 < w55)))
    (e76 : w76 = w73 ||| w74 &&& w75)
    (e77 : w77 = w74 &&& b2n (w55 == 2940772411))
    (e78 : w78 = b2n (decide (3218235020 < w53)))
    (e79 : w79 = w76 ||| w77 &&& w78)
    (e80 : w80 = w77 &&& b2n (w53 == 3218235020))
    (e81 : w81 = b2n (decide (3493216577 ≤ w51)))
    (e82 : w82 = w79 ||| w80 &&& w81)
    (e83 : w83 = w64 / 2 ^ 32 % 2 ^ 32 + w82)
    (e84 : w84 = w51 + w83 * 801750719)
    (e85 : w85 = w84 % 2 ^ 32 % 2 ^ 32)
    (e86 : w86 = w84 / 2 ^ 32 + w53 + w83 * 1076732275)
    (e87 : w87 = w86 % 2 ^ 32 % 2 ^ 32)
    (e88 : w88 = w86 / 2 ^ 32 + w55 + w83 * 1354194884)
    (e89 : w89 = w88 % 2 ^ 32 % 2 ^ 32)
    (e90 : w90 = w88 / 2 ^ 32 + w57 + w83 * 1162945305)
    (e91 : w91 = w90 % 2 ^ 32 % 2 ^ 32)
    (e92 : w92 = w90 / 2 ^ 32 + w59 + w83)
    (e93 : w93 = w92 % 2 ^ 32 % 2 ^ 32)
    (e94 : w94 = w92 / 2 ^ 32 + w61)
    (e95 : w95 = w94 % 2 ^ 32 % 2 ^ 32)
    (e96 : w96 = w94 / 2 ^ 32 + w63)
    (e97 : w97 = w96 % 2 ^ 32 % 2 ^ 32)
    (e98 : w98 = w96 / 2 ^ 32 + w65)
    (e99 : w99 = w98 % 2 ^ 32 % 2 ^ 32) :
    (w85 < 2^32 ∧ w87 < 2^32 ∧ w89 < 2^32 ∧ w91 < 2^32 ∧ w93 < 2^32 ∧ w95 < 2^32 ∧ w97 < 2^32 ∧ w99 < 2^32) ∧
    w85 + w87 * 2^32 + w89 * 2^64 + w91 * 2^96 + w93 * 2^128 + w95 * 2^160 + w97 * 2^192 + w99 * 2^224 < 115792089237316195423570985008687907852837564279074904382605163141518161494337 ∧
    w85 + w87 * 2^32 + w89 * 2^64 + w91 * 2^96 + w93 * 2^128 + w95 * 2^160 + w97 * 2^192 + w99 * 2^224 + (t8 + t9 * 2^32 + t10 * 2^64 + t11 * 2^96 + t12 * 2^128 + w48 + w83) * 115792089237316195423570985008687907852837564279074904382605163141518161494337 = t0 + t1 * 2^32 + t2 * 2^64 + t3 * 2^96 + t4 * 2^128 + t5 * 2^160 + t6 * 2^192 + t7 * 2^224 + t8 * 2^256 + t9 * 2^288 + t10 * 2^320 + t11 * 2^352 + t12 * 2^384 := by
  have A := phaseA t0 t1 t2 t3 t4 t5 t6 t7 t8 t9 t10 t11 t12 w0 w1 w2 w3 w4 w5 w6 w7 w8 w9 w10 w11 w12 w13 w14 w15 w16 w17 w18 w19 w20 w21 w22 w23 w24 w25 w26 w27 w28 w29 w30 w31 w32 w33 w34 w35 w36 w37 w38 w39 w40 w41 w42 w43 w44 w45 w46 w47 w48 bt0 e0 e1 e2 e3 e4 e5 e6 e7 e8 e9 e10 e11 e12 e13 e14 e15 e16 e17 e18 e19 e20 e21 e22 e23 e24 e25 e26 e27 e28 e29 e30 e31 e32 e33 e34 e35 e36 e37 e38 e39 e40 e41 e42 e43 e44 e45 e46 e47 e48
  have b48 : w48 < 2^32 := by
    clear e0 e1 e2 e3 e4 e5 e6 e7 e8 e9 e10 e11 e12 e13 e14 e15 e16 e17 e18 e19 e20 e21 e22 e23 e24 e25 e26 e27 e28 e29 e30 e31 e32 e33 e34 e35 e36 e37 e38 e39 e40 e41 e42 e43 e44 e45 e46 e47 e48 e49 e50 e51 e52 e53 e54 e55 e56 e57 e58 e59 e60 e61 e62 e63 e64 e65 e66 e67 e68 e69 e70 e71 e72 e73 e74 e75 e76 e77 e78 e79 e80 e81 e82 e83 e84 e85 e86 e87 e88 e89 e90 e91 e92 e93 e94 e95 e96 e97 e98 e99
    omega
  have bw2 : w2 < 2^32 := by rw [e2]; exact Nat.mod_lt _ (by decide)
  have bw7 : w7 < 2^32 := by rw [e7]; exact Nat.mod_lt _ (by decide)
  have bw13 : w13 < 2^32 := by rw [e13]; exact Nat.mod_lt _ (by decide)
  have bw20 : w20 < 2^32 := by rw [e20]; exact Nat.mod_lt _ (by decide)
  have bw28 : w28 < 2^32 := by rw [e28]; exact Nat.mod_lt _ (by decide)
  have bw35 : w35 < 2^32 := by rw [e35]; exact Nat.mod_lt _ (by decide)
  have bw41 : w41 < 2^32 := by rw [e41]; exact Nat.mod_lt _ (by decide)
  have bw46 : w46 < 2^32 := by rw [e46]; exact Nat.mod_lt _ (by decide)
  have B := phaseB w2 w7 w13 w20 w28 w35 w41 w46 w48 w49 w50 w51 w52 w53 w54 w55 w56 w57 w58 w59 w60 w61 w62 w63 w64 w65 bw2 bw7 bw13 bw20 bw28 bw35 bw41 bw46 b48 e49 e50 e51 e52 e53 e54 e55 e56 e57 e58 e59 e60 e61 e62 e63 e64 e65
  obtain ⟨⟨bw51, bw53, bw55, bw57, bw59, bw61, bw63, bw65⟩, hc, B⟩ := B
  have Ov := ovf w51 w53 w55 w57 w59 w61 w63 w65 w66 w67 w68 w69 w70 w71 w72 w73 w74 w75 w76 w77 w78 w79 w80 w81 w82 bw51 bw53 bw55 bw57 bw59 bw61 bw63 bw65 e66 e67 e68 e69 e70 e71 e72 e73 e74 e75 e76 e77 e78 e79 e80 e81 e82
  obtain ⟨h82, Ov⟩ := Ov
  have Cc := phaseC w51 w53 w55 w57 w59 w61 w63 w65 w64 w82 w83 w84 w85 w86 w87 w88 w89 w90 w91 w92 w93 w94 w95 w96 w97 w98 w99 hc e83 e84 e85 e86 e87 e88 e89 e90 e91 e92 e93 e94 e95 e96 e97 e98 e99
  obtain ⟨hO, h83, Cc⟩ := Cc
  refine ⟨hO, ?_⟩
  clear e0 e1 e2 e3 e4 e5 e6 e7 e8 e9 e10 e11 e12 e13 e14 e15 e16 e17 e18 e19 e20 e21 e22 e23 e24 e25 e26 e27 e28 e29 e30 e31 e32 e33 e34 e35 e36 e37 e38 e39 e40 e41 e42 e43 e44 e45 e46 e47 e48 e49 e50 e51 e52 e53 e54 e55 e56 e57 e58 e59 e60 e61 e62 e63 e64 e65 e66 e67 e68 e69 e70 e71 e72 e73 e74 e75 e76 e77 e78 e79 e80 e81 e82 e83 e84 e85 e86 e87 e88 e89 e90 e91 e92 e93 e94 e95 e96 e97 e98 e99
  generalize w64 / 2^32 = c at *
  generalize w98 / 2^32 = c2 at *
  have k1 : w83 ≤ 1 := by omega
  omega


set_option maxHeartbeats 4000000 in
set_option maxRecDepth 100000 in
/-- first fold of `reduce512`: 16 words to 13 words -/
theorem fold512 (t0 t1 t2 t3 t4 t5 t6 t7 t8 t9 t10 t11 t12 t13 t14 t15 x0 x1 x2 x3 x4 x5 x6 x7 x8 x9 x10 x11 x12 x13 x14 x15 x16 x17 x18 x19 x20 x21 x22 x23 x24 x25 x26 x27 x28 x29 x30 x31 x32 x33 x34 x35 x36 x37 x38 x39 x40 x41 x42 x43 x44 x45 x46 x47 x48 x49 x50 x51 x52 x53 x54 x55 x56 x57 x58 x59 x60 x61 x62 x63 x64 x65 x66 x67 x68 x69 x70 x71 x72 : Nat)
    (bt0 : t0 < 2^32) (bt1 : t1 < 2^32) (bt2 : t2 < 2^32) (bt3 : t3 < 2^32) (bt4 : t4 < 2^32) (bt5 : t5 < 2^32) (bt6 : t6 < 2^32) (bt7 : t7 < 2^32) (bt8 : t8 < 2^32) (bt9 : t9 < 2^32) (bt10 : t10 < 2^32) (bt11 : t11 < 2^32) (bt12 : t12 < 2^32) (bt13 : t13 < 2^32) (bt14 : t14 < 2^32) (bt15 : t15 < 2^32)
    (e0 : x0 = t0 % 2 ^ 32)
    (e1 : x1 = x0 + t8 * 801750719)
    (e2 : x2 = x1 % 2 ^ 32)
    (e3 : x3 = x1 / 2 ^ 32)
    (e4 : x4 = x3 + t1)
    (e5 : x5 = x4 + t8 * 1076732275)
    (e6 : x6 = x5 + t9 * 801750719)
    (e7 : x7 = x6 % 2 ^ 32)
    (e8 : x8 = x6 / 2 ^ 32)
    (e9 : x9 = x8 + t2)
    (e10 : x10 = x9 + t8 * 1354194884)
    (e11 : x11 = x10 + t9 * 1076732275)
    (e12 : x12 = x11 + t10 * 801750719)
    (e13 : x13 = x12 % 2 ^ 32)
    (e14 : x14 = x12 / 2 ^ 32)
    (e15 : x15 = x14 + t3)
    (e16 : x16 = x15 + t8 * 1162945305)
    (e17 : x17 = x16 + t9 * 1354194884)
    (e18 : x18 = x17 + t10 * 1076732275)
    (e19 : x19 = x18 + t11 * 801750719)
    (e20 : x20 = x19 % 2 ^ 32)
    (e21 : x21 = x19 / 2 ^ 32)
    (e22 : x22 = x21 + t4)
    (e23 : x23 = x22 + t8)
    (e24 : x24 = x23 + t9 * 1162945305)
    (e25 : x25 = x24 + t10 * 1354194884)
    (e26 : x26 = x25 + t11 * 1076732275)
    (e27 : x27 = x26 + t12 * 801750719)
    (e28 : x28 = x27 % 2 ^ 32)
    (e29 : x29 = x27 / 2 ^ 32)
    (e30 : x30 = x29 + t5)
    (e31 : x31 = x30 + t9)
    (e32 : x32 = x31 + t10 * 1162945305)
    (e33 : x33 = x32 + t11 * 1354194884)
    (e34 : x34 = x33 + t12 * 1076732275)
    (e35 : x35 = x34 + t13 * 801750719)
    (e36 : x36 = x35 % 2 ^ 32)
    (e37 : x37 = x35 / 2 ^ 32)
    (e38 : x38 = x37 + t6)
    (e39 : x39 = x38 + t10)
    (e40 : x40 = x39 + t11 * 1162945305)
    (e41 : x41 = x40 + t12 * 1354194884)
    (e42 : x42 = x41 + t13 * 1076732275)
    (e43 : x43 = x42 + t14 * 801750719)
    (e44 : x44 = x43 % 2 ^ 32)
    (e45 : x45 = x43 / 2 ^ 32)
    (e46 : x46 = x45 + t7)
    (e47 : x47 = x46 + t11)
    (e48 : x48 = x47 + t12 * 1162945305)
    (e49 : x49 = x48 + t13 * 1354194884)
    (e50 : x50 = x49 + t14 * 1076732275)
    (e51 : x51 = x50 + t15 * 801750719)
    (e52 : x52 = x51 % 2 ^ 32)
    (e53 : x53 = x51 / 2 ^ 32)
    (e54 : x54 = x53 + t12)
    (e55 : x55 = x54 + t13 * 1162945305)
    (e56 : x56 = x55 + t14 * 1354194884)
    (e57 : x57 = x56 + t15 * 1076732275)
    (e58 : x58 = x57 % 2 ^ 32)
    (e59 : x59 = x57 / 2 ^ 32)
    (e60 : x60 = x59 + t13)
    (e61 : x61 = x60 + t14 * 1162945305)
    (e62 : x62 = x61 + t15 * 1354194884)
    (e63 : x63 = x62 % 2 ^ 32)
    (e64 : x64 = x62 / 2 ^ 32)
    (e65 : x65 = x64 + t14)
    (e66 : x66 = x65 + t15 * 1162945305)
    (e67 : x67 = x66 % 2 ^ 32)
    (e68 : x68 = x66 / 2 ^ 32)
    (e69 : x69 = x68 + t15)
    (e70 : x70 = x69 % 2 ^ 32)
    (e71 : x71 = x69 / 2 ^ 32)
    (e72 : x72 = x71 % 2 ^ 32) :
    (x2 < 2^32 ∧ x7 < 2^32 ∧ x13 < 2^32 ∧ x20 < 2^32 ∧ x28 < 2^32 ∧ x36 < 2^32 ∧ x44 < 2^32 ∧ x52 < 2^32) ∧
    x2 + x7 * 2^32 + x13 * 2^64 + x20 * 2^96 + x28 * 2^128 + x36 * 2^160 + x44 * 2^192 + x52 * 2^224 + (x58 + x63 * 2^32 + x67 * 2^64 + x70 * 2^96 + x72 * 2^128) * 432420386565659656852420866394968145599 < 2^288 ∧
    x2 + x7 * 2^32 + x13 * 2^64 + x20 * 2^96 + x28 * 2^128 + x36 * 2^160 + x44 * 2^192 + x52 * 2^224 + x58 * 2^256 + x63 * 2^288 + x67 * 2^320 + x70 * 2^352 + x72 * 2^384 = t0 + t1 * 2^32 + t2 * 2^64 + t3 * 2^96 + t4 * 2^128 + t5 * 2^160 + t6 * 2^192 + t7 * 2^224 + (t8 + t9 * 2^32 + t10 * 2^64 + t11 * 2^96 + t12 * 2^128 + t13 * 2^160 + t14 * 2^192 + t15 * 2^224) * 432420386565659656852420866394968145599 := by
  have F : x2 + x7 * 2^32 + x13 * 2^64 + x20 * 2^96 + x28 * 2^128 + x36 * 2^160 + x44 * 2^192 + x52 * 2^224 + x58 * 2^256 + x63 * 2^288 + x67 * 2^320 + x70 * 2^352 + (x69 / 2^32) * 2^384 = t0 + t1 * 2^32 + t2 * 2^64 + t3 * 2^96 + t4 * 2^128 + t5 * 2^160 + t6 * 2^192 + t7 * 2^224 + (t8 + t9 * 2^32 + t10 * 2^64 + t11 * 2^96 + t12 * 2^128 + t13 * 2^160 + t14 * 2^192 + t15 * 2^224) * 432420386565659656852420866394968145599 := by
    clear bt1 bt2 bt3 bt4 bt5 bt6 bt7 bt8 bt9 bt10 bt11 bt12 bt13 bt14 bt15
    omega
  have hc : x69 / 2^32 ≤ 1 := by
    clear e0 e1 e2 e3 e4 e5 e6 e7 e8 e9 e10 e11 e12 e13 e14 e15 e16 e17 e18 e19 e20 e21 e22 e23 e24 e25 e26 e27 e28 e29 e30 e31 e32 e33 e34 e35 e36 e37 e38 e39 e40 e41 e42 e43 e44 e45 e46 e47 e48 e49 e50 e51 e52 e53 e54 e55 e56 e57 e58 e59 e60 e61 e62 e63 e64 e65 e66 e67 e68 e69 e70 e71 e72
    omega
  have h72 : x72 = x69 / 2^32 := by
    clear F bt0 bt1 bt2 bt3 bt4 bt5 bt6 bt7 bt8 bt9 bt10 bt11 bt12 bt13 bt14 bt15 e0 e1 e2 e3 e4 e5 e6 e7 e8 e9 e10 e11 e12 e13 e14 e15 e16 e17 e18 e19 e20 e21 e22 e23 e24 e25 e26 e27 e28 e29 e30 e31 e32 e33 e34 e35 e36 e37 e38 e39 e40 e41 e42 e43 e44 e45 e46 e47 e48 e49 e50 e51 e52 e53 e54 e55 e56 e57 e58 e59 e60 e61 e62 e63 e64 e65 e66 e67 e68 e69 e70
    omega
  have bx2 : x2 < 2^32 := by rw [e2]; exact Nat.mod_lt _ (by decide)
  have bx7 : x7 < 2^32 := by rw [e7]; exact Nat.mod_lt _ (by decide)
  have bx13 : x13 < 2^32 := by rw [e13]; exact Nat.mod_lt _ (by decide)
  have bx20 : x20 < 2^32 := by rw [e20]; exact Nat.mod_lt _ (by decide)
  have bx28 : x28 < 2^32 := by rw [e28]; exact Nat.mod_lt _ (by decide)
  have bx36 : x36 < 2^32 := by rw [e36]; exact Nat.mod_lt _ (by decide)
  have bx44 : x44 < 2^32 := by rw [e44]; exact Nat.mod_lt _ (by decide)
  have bx52 : x52 < 2^32 := by rw [e52]; exact Nat.mod_lt _ (by decide)
  have bx58 : x58 < 2^32 := by rw [e58]; exact Nat.mod_lt _ (by decide)
  have bx63 : x63 < 2^32 := by rw [e63]; exact Nat.mod_lt _ (by decide)
  have bx67 : x67 < 2^32 := by rw [e67]; exact Nat.mod_lt _ (by decide)
  have bx70 : x70 < 2^32 := by rw [e70]; exact Nat.mod_lt _ (by decide)
  refine ⟨⟨bx2, bx7, bx13, bx20, bx28, bx36, bx44, bx52⟩, ?_, ?_⟩
  · clear e0 e1 e2 e3 e4 e5 e6 e7 e8 e9 e10 e11 e12 e13 e14 e15 e16 e17 e18 e19 e20 e21 e22 e23 e24 e25 e26 e27 e28 e29 e30 e31 e32 e33 e34 e35 e36 e37 e38 e39 e40 e41 e42 e43 e44 e45 e46 e47 e48 e49 e50 e51 e52 e53 e54 e55 e56 e57 e58 e59 e60 e61 e62 e63 e64 e65 e66 e67 e68 e69 e70 e71 e72
    omega
  · clear e0 e1 e2 e3 e4 e5 e6 e7 e8 e9 e10 e11 e12 e13 e14 e15 e16 e17 e18 e19 e20 e21 e22 e23 e24 e25 e26 e27 e28 e29 e30 e31 e32 e33 e34 e35 e36 e37 e38 e39 e40 e41 e42 e43 e44 e45 e46 e47 e48 e49 e50 e51 e52 e53 e54 e55 e56 e57 e58 e59 e60 e61 e62 e63 e64 e65 e66 e67 e68 e69 e70 e71 e72
    omega


set_option maxHeartbeats 4000000 in
set_option maxRecDepth 100000 in
/-- the 15 product columns of `Mul2` (96-bit accumulator), before the top carry is stored -/
theorem mulcols (a0 a1 a2 a3 a4 a5 a6 a7 b0 b1 b2 b3 b4 b5 b6 b7 y0 y1 y2 y3 y4 y5 y6 y7 y8 y9 y10 y11 y12 y13 y14 y15 y16 y17 y18 y19 y20 y21 y22 y23 y24 y25 y26 y27 y28 y29 y30 y31 y32 y33 y34 y35 y36 y37 y38 y39 y40 y41 y42 y43 y44 y45 y46 y47 y48 y49 y50 y51 y52 y53 y54 y55 y56 y57 y58 y59 y60 y61 y62 y63 y64 y65 y66 y67 y68 y69 y70 y71 y72 y73 y74 y75 y76 y77 y78 y79 y80 y81 y82 y83 y84 y85 y86 y87 y88 y89 y90 y91 y92 y93 : Nat)
    (e0 : y0 = 0 + a0 * b0)
    (e1 : y1 = y0 % 2 ^ 32)
    (e2 : y2 = y0 / 2 ^ 32)
    (e3 : y3 = y2 + a0 * b1)
    (e4 : y4 = y3 + a1 * b0)
    (e5 : y5 = y4 % 2 ^ 32)
    (e6 : y6 = y4 / 2 ^ 32)
    (e7 : y7 = y6 + a0 * b2)
    (e8 : y8 = y7 + a1 * b1)
    (e9 : y9 = y8 + a2 * b0)
    (e10 : y10 = y9 % 2 ^ 32)
    (e11 : y11 = y9 / 2 ^ 32)
    (e12 : y12 = y11 + a0 * b3)
    (e13 : y13 = y12 + a1 * b2)
    (e14 : y14 = y13 + a2 * b1)
    (e15 : y15 = y14 + a3 * b0)
    (e16 : y16 = y15 % 2 ^ 32)
    (e17 : y17 = y15 / 2 ^ 32)
    (e18 : y18 = y17 + a0 * b4)
    (e19 : y19 = y18 + a1 * b3)
    (e20 : y20 = y19 + a2 * b2)
    (e21 : y21 = y20 + a3 * b1)
    (e22 : y22 = y21 + a4 * b0)
    (e23 : y23 = y22 % 2 ^ 32)
    (e24 : y24 = y22 / 2 ^ 32)
    (e25 : y25 = y24 + a0 * b5)
    (e26 : y26 = y25 + a1 * b4)
    (e27 : y27 = y26 + a2 * b3)
    (e28 : y28 = y27 + a3 * b2)
    (e29 : y29 = y28 + a4 * b1)
    (e30 : y30 = y29 + a5 * b0)
    (e31 : y31 = y30 % 2 ^ 32)
    (e32 : y32 = y30 / 2 ^ 32)
    (e33 : y33 = y32 + a0 * b6)
    (e34 : y34 = y33 + a1 * b5)
    (e35 : y35 = y34 + a2 * b4)
    (e36 : y36 = y35 + a3 * b3)
    (e37 : y37 = y36 + a4 * b2)
    (e38 : y38 = y37 + a5 * b1)
    (e39 : y39 = y38 + a6 * b0)
    (e40 : y40 = y39 % 2 ^ 32)
    (e41 : y41 = y39 / 2 ^ 32)
    (e42 : y42 = y41 + a0 * b7)
    (e43 : y43 = y42 + a1 * b6)
    (e44 : y44 = y43 + a2 * b5)
    (e45 : y45 = y44 + a3 * b4)
    (e46 : y46 = y45 + a4 * b3)
    (e47 : y47 = y46 + a5 * b2)
    (e48 : y48 = y47 + a6 * b1)
    (e49 : y49 = y48 + a7 * b0)
    (e50 : y50 = y49 % 2 ^ 32)
    (e51 : y51 = y49 / 2 ^ 32)
    (e52 : y52 = y51 + a1 * b7)
    (e53 : y53 = y52 + a2 * b6)
    (e54 : y54 = y53 + a3 * b5)
    (e55 : y55 = y54 + a4 * b4)
    (e56 : y56 = y55 + a5 * b3)
    (e57 : y57 = y56 + a6 * b2)
    (e58 : y58 = y57 + a7 * b1)
    (e59 : y59 = y58 % 2 ^ 32)
    (e60 : y60 = y58 / 2 ^ 32)
    (e61 : y61 = y60 + a2 * b7)
    (e62 : y62 = y61 + a3 * b6)
    (e63 : y63 = y62 + a4 * b5)
    (e64 : y64 = y63 + a5 * b4)
    (e65 : y65 = y64 + a6 * b3)
    (e66 : y66 = y65 + a7 * b2)
    (e67 : y67 = y66 % 2 ^ 32)
    (e68 : y68 = y66 / 2 ^ 32)
    (e69 : y69 = y68 + a3 * b7)
    (e70 : y70 = y69 + a4 * b6)
    (e71 : y71 = y70 + a5 * b5)
    (e72 : y72 = y71 + a6 * b4)
    (e73 : y73 = y72 + a7 * b3)
    (e74 : y74 = y73 % 2 ^ 32)
    (e75 : y75 = y73 / 2 ^ 32)
    (e76 : y76 = y75 + a4 * b7)
    (e77 : y77 = y76 + a5 * b6)
    (e78 : y78 = y77 + a6 * b5)
    (e79 : y79 = y78 + a7 * b4)
    (e80 : y80 = y79 % 2 ^ 32)
    (e81 : y81 = y79 / 2 ^ 32)
    (e82 : y82 = y81 + a5 * b7)
    (e83 : y83 = y82 + a6 * b6)
    (e84 : y84 = y83 + a7 * b5)
    (e85 : y85 = y84 % 2 ^ 32)
    (e86 : y86 = y84 / 2 ^ 32)
    (e87 : y87 = y86 + a6 * b7)
    (e88 : y88 = y87 + a7 * b6)
    (e89 : y89 = y88 % 2 ^ 32)
    (e90 : y90 = y88 / 2 ^ 32)
    (e91 : y91 = y90 + a7 * b7)
    (e92 : y92 = y91 % 2 ^ 32)
    (e93 : y93 = y91 / 2 ^ 32) :
    y1 + y5 * 2^32 + y10 * 2^64 + y16 * 2^96 + y23 * 2^128 + y31 * 2^160 + y40 * 2^192 + y50 * 2^224 + y59 * 2^256 + y67 * 2^288 + y74 * 2^320 + y80 * 2^352 + y85 * 2^384 + y89 * 2^416 + y92 * 2^448 + y93 * 2^480 =
    (a0 * b0) * 2^0
    + (a0 * b1 + a1 * b0) * 2^32
    + (a0 * b2 + a1 * b1 + a2 * b0) * 2^64
    + (a0 * b3 + a1 * b2 + a2 * b1 + a3 * b0) * 2^96
    + (a0 * b4 + a1 * b3 + a2 * b2 + a3 * b1 + a4 * b0) * 2^128
    + (a0 * b5 + a1 * b4 + a2 * b3 + a3 * b2 + a4 * b1 + a5 * b0) * 2^160
    + (a0 * b6 + a1 * b5 + a2 * b4 + a3 * b3 + a4 * b2 + a5 * b1 + a6 * b0) * 2^192
    + (a0 * b7 + a1 * b6 + a2 * b5 + a3 * b4 + a4 * b3 + a5 * b2 + a6 * b1 + a7 * b0) * 2^224
    + (a1 * b7 + a2 * b6 + a3 * b5 + a4 * b4 + a5 * b3 + a6 * b2 + a7 * b1) * 2^256
    + (a2 * b7 + a3 * b6 + a4 * b5 + a5 * b4 + a6 * b3 + a7 * b2) * 2^288
    + (a3 * b7 + a4 * b6 + a5 * b5 + a6 * b4 + a7 * b3) * 2^320
    + (a4 * b7 + a5 * b6 + a6 * b5 + a7 * b4) * 2^352
    + (a5 * b7 + a6 * b6 + a7 * b5) * 2^384
    + (a6 * b7 + a7 * b6) * 2^416
    + (a7 * b7) * 2^448 := by
  omega

end Secp.Proofs.ScalarReduce
