"""
props — per-property configuration of ./check.
"""

def proj_c09(op, s):
    if op == "der_parse" and s.startswith("err "):
        return "reject"
    return s

COMMON_TRUST = [
    "hand-written Lean models are tied to the Go code by the correspondence run (differential, generator-bounded)",
    "Go compiler/runtime semantics of integer and slice operations",
]

PROPS = {
    "C09": {
        "project": proj_c09,
        "trusted_base": COMMON_TRUST + ["Model.parseDER / serializeDER mirror signature.go ParseDERSignature / Serialize (hand-written)"],
        "assumptions": ["scalar decoding inside the parser is modelled at value level (SetByteSlice = reduce once); the limb-level kernel is C06's concern"],
    },
}
