/-
  Proofs/ScalarMultSpec — the models of `naf`, `splitK`, the endomorphism,
  `ScalarBaseMultNonConst` and `ScalarMultNonConst` (Model/ScalarMult) compute k•P in the
  executable specification, given the correctness of the two point routines (`PointOps'`).
-/
import Secp.Proofs.ScalarMultLoop
import Mathlib.Util.TermReduce

namespace Secp.Proofs.ScalarMultSpec
open Secp.Spec Secp.Model Secp.Proofs Secp.Proofs.SpecGroup Secp.Proofs.ScalarMultJac
open Secp.Proofs.ScalarMultLoop Secp.Proofs.ScalarMultEndo
open Secp.Proofs.Der (beNat_be32)

/-- exactly the conjunction of the `add` and `dbl` fields of `Secp.Model.PointOps` -/
def PointOps' : Prop :=
  (∀ q p, Jac.WF q → Jac.WF p →
    Jac.WF (addNC q p) ∧ Jac.toPt (addNC q p) = Pt.add (Jac.toPt q) (Jac.toPt p)) ∧
  (∀ q, Jac.WF q → Jac.WF (dblNC q) ∧ Jac.toPt (dblNC q) = Pt.dbl (Jac.toPt q))

theorem pointOps'_iff : PointOps' ↔ Secp.Proofs.ScalarMultJac.PointOps' := Iff.rfl

theorem pointOps'_of_pointOps (h : PointOps) : PointOps' := ⟨h.add, h.dbl⟩

/-- NAF: for every byte string k, the digit strings satisfy pos − neg = k (as big-endian
    integers), have equal length and no overlapping digits -/
theorem naf_spec (k : Bytes) : let n := naf k
    n.posBytes.length = n.negBytes.length ∧ beNat n.posBytes = beNat k + beNat n.negBytes ∧
    ∀ i, (n.posBytes.getD i 0) &&& (n.negBytes.getD i 0) = 0 :=
  Secp.Proofs.ScalarMultNaf.naf_spec k

/-- splitK: k1 + k2·λ ≡ k (mod N), where λ = N − endoNegLambda -/
theorem splitK_spec (k : Nat) : let (k1, k2) := splitK k
    k1 < N ∧ k2 < N ∧ (k1 + k2 * ((N - endoNegLambda) % N)) % N = k % N :=
  Secp.Proofs.ScalarMultEndo.splitK_spec k

/-- the endomorphism: for every multiple of G, (β·x, y) = λ•(x, y) -/
theorem endo_spec (m : Nat) (x y : Nat) (h : smul m G = some (x, y)) :
    smul ((N - endoNegLambda) % N) (some (x, y)) = some (fmul x endoBeta, y) :=
  Secp.Proofs.ScalarMultEndo.endo_spec m x y h

theorem scalarBaseMult_spec (ho : PointOps') (k : Nat) (hk : k < N) :
    Jac.WF (scalarBaseMultNC k) ∧ Jac.toPt (scalarBaseMultNC k) = smul k G :=
  Secp.Proofs.ScalarMultLoop.scalarBaseMult_spec ho k hk

/-! ### variable-point multiplication -/

/-- the definition of `scalarMultNC`, as an equation between closed terms (checked by one
    δ-step; see `scalarMultNC_eq` for why the unfolding is done this way) -/
theorem scalarMultNC_val : scalarMultNC = delta% scalarMultNC := rfl

/-- `scalarMultNC` as the digit loop `smLoop` on the sign-adjusted points and scalars.
    The scalar decomposition, (N−1)/2 and β are abstracted BEFORE any match is reduced, so that the
    kernel never evaluates `k1 > halfN` on the open term `splitK k` (which makes it unfold
    `Nat.ble` on 256-bit literals). -/
theorem scalarMultNC_eq (k x y z : Nat) :
    scalarMultNC k (x, y, z) =
      smLoop
        (if (splitK k).1 > halfN then (x, fneg y, z) else (x, y, z))
        (if (splitK k).1 > halfN then (x, y, z) else (x, fneg y, z))
        (if (splitK k).2 > halfN then (fmul x endoBeta, fneg y, z) else (fmul x endoBeta, y, z))
        (if (splitK k).2 > halfN then (fmul x endoBeta, y, z) else (fmul x endoBeta, fneg y, z))
        (naf (be32 (if (splitK k).1 > halfN then nneg (splitK k).1 else (splitK k).1))).posBytes
        (naf (be32 (if (splitK k).1 > halfN then nneg (splitK k).1 else (splitK k).1))).negBytes
        (naf (be32 (if (splitK k).2 > halfN then nneg (splitK k).2 else (splitK k).2))).posBytes
        (naf (be32 (if (splitK k).2 > halfN then nneg (splitK k).2 else (splitK k).2))).negBytes := by
  rw [scalarMultNC_val]
  beta_reduce
  generalize splitK k = sk
  generalize halfN = hn
  generalize endoBeta = eb
  obtain ⟨k1, k2⟩ := sk
  unfold smLoop
  by_cases h1 : k1 > hn <;> by_cases h2 : k2 > hn <;>
    simp only [h1, h2, if_true, if_false]

theorem pair_swap {p pn : Jac} {Q : E.Point} (h : PtPair p pn Q) : PtPair pn p (-Q) :=
  ⟨h.wfn, h.wf, h.validn, h.valid, h.eqn, by rw [neg_neg]; exact h.eq⟩

theorem pair_ite {p pn : Jac} {Q : E.Point} (h : PtPair p pn Q) (c : Prop) [Decidable c] :
    PtPair (if c then pn else p) (if c then p else pn) (if c then -Q else Q) := by
  by_cases hc : c
  · simp only [hc, if_true]; exact pair_swap h
  · simp only [hc, if_false]; exact h

/-- an affine point and its negation -/
theorem affine_pair {x y : Nat} (h : Valid (some (x, y))) :
    PtPair (x, y, 1) (x, fneg y, 1) (toE (some (x, y))) := by
  have hn : Valid (some (x, fneg y)) := valid_neg h
  have en : toE (some (x, fneg y)) = - toE (some (x, y)) := toE_neg h
  obtain ⟨w, e⟩ := affine_spec h
  obtain ⟨wn, e'⟩ := affine_spec hn
  exact ⟨w, wn, by rw [e]; exact h, by rw [e']; exact hn, by rw [e], by rw [e', en]⟩

theorem nsmul_of_mod {Q : E.Point} (hN : N • Q = 0) {a b : Nat} (h : a % N = b % N) :
    a • Q = b • Q := by
  have red : ∀ c : Nat, c • Q = (c % N) • Q := by
    intro c
    conv_lhs => rw [← Nat.mod_add_div c N]
    rw [add_nsmul, mul_nsmul, hN, nsmul_zero, add_zero]
  rw [red a, red b, h]

theorem nneg_add_mod (k : Nat) : (nneg k + k) % N = 0 % N := by
  rw [mod_N_eq_iff, Nat.cast_add, nneg_cast]
  simp

theorem signed_smul {Q : E.Point} (hN : N • Q = 0) (k : Nat) (c : Prop) [Decidable c] :
    (((if c then nneg k else k : Nat)) : ℤ) • (if c then -Q else Q) = (k : ℤ) • Q := by
  by_cases hc : c
  · simp only [hc, if_true]
    have h := nsmul_of_mod hN (nneg_add_mod k)
    rw [zero_nsmul, add_nsmul] at h
    rw [natCast_zsmul, natCast_zsmul, neg_nsmul]
    exact (eq_neg_of_add_eq_zero_right h).symm
  · simp only [hc, if_false]

/-- the digit loop on sign-adjusted scalars and points, for abstract scalars `k1 k2 < N`, an
    abstract threshold `hn`, a point `(x, y)` of order dividing N and a second point `(x2, y)`
    equal to `lam • (x, y)` -/
theorem smCore (ho : PointOps') (k1 k2 hn lam x y x2 : Nat) (hk1 : k1 < N) (hk2 : k2 < N)
    (hv : Valid (some (x, y))) (hN : N • toE (some (x, y)) = 0)
    (hv2 : Valid (some (x2, y))) (he2 : toE (some (x2, y)) = lam • toE (some (x, y))) :
    Acc (smLoop
        (if k1 > hn then (x, fneg y, 1) else (x, y, 1))
        (if k1 > hn then (x, y, 1) else (x, fneg y, 1))
        (if k2 > hn then (x2, fneg y, 1) else (x2, y, 1))
        (if k2 > hn then (x2, y, 1) else (x2, fneg y, 1))
        (naf (be32 (if k1 > hn then nneg k1 else k1))).posBytes
        (naf (be32 (if k1 > hn then nneg k1 else k1))).negBytes
        (naf (be32 (if k2 > hn then nneg k2 else k2))).posBytes
        (naf (be32 (if k2 > hn then nneg k2 else k2))).negBytes)
      ((k1 + k2 * lam) • toE (some (x, y))) := by
  have hN2 : N • toE (some (x2, y)) = 0 := by
    rw [he2, smul_comm, hN, nsmul_zero]
  have pair1 := pair_ite (affine_pair hv) (k1 > hn)
  have pair2 := pair_ite (affine_pair hv2) (k2 > hn)
  have hlt : ∀ c : Prop, ∀ [Decidable c], ∀ a : Nat, a < N →
      beNat (be32 (if c then nneg a else a)) = (if c then nneg a else a) := by
    intro c _ a ha
    rw [beNat_be32, Nat.mod_eq_of_lt]
    have := N_lt_pow
    have := nneg_lt a
    split <;> omega
  generalize hK1 : (if k1 > hn then nneg k1 else k1) = K1 at *
  generalize hK2 : (if k2 > hn then nneg k2 else k2) = K2 at *
  have b1 : beNat (be32 K1) = K1 := by rw [← hK1]; exact hlt _ _ hk1
  have b2 : beNat (be32 K2) = K2 := by rw [← hK2]; exact hlt _ _ hk2
  obtain ⟨l1, v1, o1⟩ := Secp.Proofs.ScalarMultNaf.naf_spec (be32 K1)
  obtain ⟨l2, v2, o2⟩ := Secp.Proofs.ScalarMultNaf.naf_spec (be32 K2)
  rw [b1] at v1
  rw [b2] at v2
  have acc := smLoop_spec ho pair1 pair2 (naf (be32 K1)).posBytes (naf (be32 K1)).negBytes
    (naf (be32 K2)).posBytes (naf (be32 K2)).negBytes K1 K2 l1 l2 v1 v2 o1 o2
  refine acc_congr acc ?_
  rw [← hK1, ← hK2, signed_smul hN, signed_smul hN2, he2, natCast_zsmul, natCast_zsmul,
    ← mul_nsmul', ← add_nsmul]

theorem scalarMult_spec (ho : PointOps') (k x y m : Nat) (hk : k < N) (hxy : OnCurve x y)
    (hm : smul m G = some (x, y)) :
    Jac.WF (scalarMultNC k (x, y, 1)) ∧
      Jac.toPt (scalarMultNC k (x, y, 1)) = smul k (some (x, y)) := by
  have _ := hk  -- not needed: the statement holds for every k
  have hv : Valid (some (x, y)) := hxy
  -- the point has order dividing N
  have hN : N • toE (some (x, y)) = 0 := by
    rw [← hm, toE_smul _ valid_G, smul_comm, ← toE_smul _ valid_G, smul_N_G, toE_none, nsmul_zero]
  -- the endomorphism image
  have hendo := Secp.Proofs.ScalarMultEndo.endo_spec m x y hm
  have hv2 : Valid (some (fmul x endoBeta, y)) := valid_endo hv
  have he2 : toE (some (fmul x endoBeta, y)) = ((N - endoNegLambda) % N) • toE (some (x, y)) := by
    rw [← hendo, toE_smul _ hv]
  obtain ⟨hk1, hk2, hsplit⟩ := splitK_spec' k
  have acc := smCore ho (splitK k).1 (splitK k).2 halfN ((N - endoNegLambda) % N) x y
    (fmul x endoBeta) hk1 hk2 hv hN hv2 he2
  rw [← scalarMultNC_eq] at acc
  generalize scalarMultNC k (x, y, 1) = r at acc ⊢
  obtain ⟨w, v, e⟩ := acc
  refine ⟨w, ?_⟩
  have e' : toE (Jac.toPt r) = toE (smul k (some (x, y))) := by
    rw [e, toE_smul _ hv]
    exact nsmul_of_mod hN hsplit
  exact toE_injective_on_valid v (valid_smul _ hv) e'

end Secp.Proofs.ScalarMultSpec
