import Secp.Model.Outcome
import Secp.Spec.Curve
/-
  Model/PubKey — pubkey.go ParsePubKey / Serialize*, schnorr/pubkey.go ParsePubKey,
  at field-value level (coordinates are `Nat` in [0, P)).
-/
namespace Secp.Model
open Secp.Spec

inductive PubErr where
  | ErrPubKeyInvalidLen | ErrPubKeyInvalidFormat | ErrPubKeyXTooBig | ErrPubKeyYTooBig
  | ErrPubKeyNotOnCurve | ErrPubKeyMismatchedOddness
  | SchnorrNil | SchnorrBadSize | SchnorrWrongType
  deriving Repr, DecidableEq

def PubErr.name : PubErr → String
  | .ErrPubKeyInvalidLen => "ErrPubKeyInvalidLen" | .ErrPubKeyInvalidFormat => "ErrPubKeyInvalidFormat"
  | .ErrPubKeyXTooBig => "ErrPubKeyXTooBig" | .ErrPubKeyYTooBig => "ErrPubKeyYTooBig"
  | .ErrPubKeyNotOnCurve => "ErrPubKeyNotOnCurve" | .ErrPubKeyMismatchedOddness => "ErrPubKeyMismatchedOddness"
  | .SchnorrNil => "SchnorrNil" | .SchnorrBadSize => "SchnorrBadSize" | .SchnorrWrongType => "SchnorrWrongType"

/-- `FieldVal.SetByteSlice` on exactly 32 bytes: (value mod 2^256 as stored, overflow = value ≥ P).
    The stored limbs denote the raw integer; callers reject on overflow. -/
def fieldSetBytes32 (b : Bytes) : Nat × Bool :=
  let v := beNat b
  (v, v ≥ P)

/-- `isOnCurve(fx, fy)` : y² = x³ + 7 (mod P), inputs already < P -/
def isOnCurveM (x y : Nat) : Bool := fsq y == fadd (fmul (fsq x) x) 7

/-- `DecompressY(x, odd)` followed by `Normalize` -/
def decompressY (x : Nat) (odd : Bool) : Option Nat :=
  let a := fadd (fmul (fsq x) x) 7
  let c := fsqrtCand a
  if fsq c == a then
    some (if (c % 2 == 1) != odd then fneg c else c)
  else none

def parsePubKey (ser : Bytes) : Outcome PubErr (Nat × Nat) := do
  if ser.length = 65 then
    let fmt ← idx ser 0
    if fmt ≠ 0x04 ∧ fmt ≠ 0x06 ∧ fmt ≠ 0x07 then .err .ErrPubKeyInvalidFormat else
    let xb ← slice ser 1 33
    let (x, xo) := fieldSetBytes32 xb
    if xo then .err .ErrPubKeyXTooBig else
    let yb ← sliceFrom ser 33
    let (y, yo) := fieldSetBytes32 yb
    if yo then .err .ErrPubKeyYTooBig else
    if (fmt = 0x06 ∨ fmt = 0x07) ∧ ((y % 2 == 1) != (fmt == 0x07)) then .err .ErrPubKeyMismatchedOddness else
    if ¬ isOnCurveM x y then .err .ErrPubKeyNotOnCurve else
    pure (x, y)
  else if ser.length = 33 then
    let fmt ← idx ser 0
    if fmt ≠ 0x02 ∧ fmt ≠ 0x03 then .err .ErrPubKeyInvalidFormat else
    let xb ← slice ser 1 33
    let (x, xo) := fieldSetBytes32 xb
    if xo then .err .ErrPubKeyXTooBig else
    match decompressY x (fmt == 0x03) with
    | none => .err .ErrPubKeyNotOnCurve
    | some y => pure (x, y)
  else .err .ErrPubKeyInvalidLen

def serializeUncompressed (x y : Nat) : Bytes := (0x04 : UInt8) :: be32 x ++ be32 y

def serializeCompressed (x y : Nat) : Bytes :=
  (if y % 2 = 1 then (0x03 : UInt8) else 0x02) :: be32 x

/-- schnorr.ParsePubKey (nil is represented by the flag `isNil`) -/
def schnorrParsePubKey (isNil : Bool) (ser : Bytes) : Outcome PubErr (Nat × Nat) := do
  if isNil then .err .SchnorrNil else
  if ser.length ≠ 33 then .err .SchnorrBadSize else
  let fmt ← idx ser 0
  if fmt &&& 0xFE ≠ 0x02 then .err .SchnorrWrongType else
  parsePubKey ser

end Secp.Model
