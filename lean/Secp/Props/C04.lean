import Secp.Proofs.PointOps
import Secp.Proofs.PointOpsAffine
import Secp.Proofs.PointOpsR2
import Secp.Proofs.Chains
import Secp.Gen.Formulas
import Secp.Proofs.AbsSound
/-
  Props/C04 — point addition and doubling implement the group law for every representation.

  The objects are the REGENERATED call-structured formula programs `Secp.Gen.FormulasC` (tools/gotr
  pass T2 from curve.go on every run): `AddNonConst` with a distinct result (`addNC3`), with the
  result aliasing the first operand (`addNC`, entry AddNonConst_a010 — the way every caller in the
  library uses it), with the result aliasing the second operand (`addNCr2`, entry AddNonConst_a011), `DoubleNonConst` in place (`dblNC`, entry DoubleNonConst_a00), and `ToAffine`.
  `Jac.toPt` maps a Jacobian triple to the affine point it represents (`none` for Z = 0 or
  X = Y = 0); `Secp.Spec.Pt.add/Pt.dbl` is the affine chord-and-tangent law, which
  `Secp.Proofs.SpecGroup` proves to be Mathlib's `WeierstrassCurve.Affine.Point` group law.
  All inputs: every well-formed Jacobian triple — any Z scaling, Z = 1, shared Z, equal points,
  opposite points, the identity in any encoding.
-/
namespace Secp.Props.C04
open Secp.Spec Secp.Model

/-- `AddNonConst(&q, p, &q)`: the result is well formed (normalised, on the curve or the identity) and represents q + p -/
theorem add_inplace_spec (q p : Jac) (hq : Jac.WF q) (hp : Jac.WF p) :
    Jac.WF (addNC q p) ∧ Jac.toPt (addNC q p) = Pt.add (Jac.toPt q) (Jac.toPt p) :=
  Secp.Proofs.PointOps.pointOps_add q p hq hp

/-- `AddNonConst(&a, &b, &r)` with three distinct objects -/
theorem add_spec (a b : Jac) (ha : Jac.WF a) (hb : Jac.WF b) :
    Jac.WF (addNC3 a b) ∧ Jac.toPt (addNC3 a b) = Pt.add (Jac.toPt a) (Jac.toPt b) :=
  Secp.Proofs.PointOps.pointOps_add3 a b ha hb

/-- `AddNonConst(&a, &b, &b)`: the result aliases the second operand -/
theorem add_alias_second_spec (a b : Jac) (ha : Jac.WF a) (hb : Jac.WF b) :
    Jac.WF (addNCr2 a b) ∧ Jac.toPt (addNCr2 a b) = Pt.add (Jac.toPt a) (Jac.toPt b) :=
  Secp.Proofs.PointOps.pointOps_add_r2 a b ha hb

/-- … and that call leaves its first operand untouched -/
theorem add_alias_second_preserves_first (a b : Jac) (ha : Jac.WF a) (hb : Jac.WF b) :
    (match runNamed "AddNonConst_a011" [a.1, a.2.1, a.2.2, b.1, b.2.1, b.2.2] [] with
     | some (r, _) => (Secp.FOp.rget r 0, Secp.FOp.rget r 1, Secp.FOp.rget r 2) = a | none => False) :=
  Secp.Proofs.PointOps.addNCr2_preserves_a a b ha hb

/-- `DoubleNonConst(&q, &q)` -/
theorem double_inplace_spec (q : Jac) (hq : Jac.WF q) :
    Jac.WF (dblNC q) ∧ Jac.toPt (dblNC q) = Pt.dbl (Jac.toPt q) :=
  Secp.Proofs.PointOps.pointOps_dbl q hq

/-- `ToAffine` of a finite point returns its affine coordinates with Z = 1 -/
theorem toAffine_spec (q : Jac) (x y : Nat) (hq : Jac.WF q) (h : Jac.toPt q = some (x, y)) :
    toAffineJ q = (x, y, 1) :=
  Secp.Proofs.PointOps.pointOps_toAffine q x y hq h

/-- the affine law the routines are compared with IS the group law: for valid points it is
    Mathlib's addition on `WeierstrassCurve.Affine.Point` -/
theorem spec_is_group_law (p q : Pt) (hp : Secp.Proofs.SpecGroup.Valid p) (hq : Secp.Proofs.SpecGroup.Valid q) :
    Secp.Proofs.SpecGroup.toE (Pt.add p q) = Secp.Proofs.SpecGroup.toE p + Secp.Proofs.SpecGroup.toE q :=
  Secp.Proofs.SpecGroup.toE_add hp hq

/-- the layer contract consumed by C03 and the protocol properties -/
theorem pointOps : PointOps where
  add := Secp.Proofs.PointOps.pointOps_add
  dbl := Secp.Proofs.PointOps.pointOps_dbl
  add3 := Secp.Proofs.PointOps.pointOps_add3
  toAffine := Secp.Proofs.PointOps.pointOps_toAffine
  decompress := fun x odd hx => Secp.Proofs.Chains.decompress_spec x odd hx


/-! ### The value-level theorems above describe the code only if no limb wraps

The theorems of this file are about the formula programs run at VALUE level (field elements as
naturals mod P).  They carry over to the uint32 limbs of the real routines exactly when the
abstract interpreter accepts every path of the regenerated limb-level program (`absPath_sound`,
C16): every `Negate(m)` is given at least the magnitude of its operand, no Add/MulInt exceeds
capacity, no comparison sees a denormalised value, result coordinates end normalised.  Those
obligations are restated here because the group-law claim of this property depends on them. -/
section LimbLevel
open Secp.FOp Secp.Gen.Formulas
set_option maxRecDepth 1000000

private def nrmIn (n : Nat) : AState := List.replicate n (some (1, true))

theorem addZ1AndZ2EqualsOne_limb_exact : addZ1AndZ2EqualsOne.absOK (nrmIn 9) [6, 7, 8] = true := by decide +kernel
theorem addZ1EqualsZ2_limb_exact : addZ1EqualsZ2.absOK (nrmIn 9) [6, 7, 8] = true := by decide +kernel
theorem addZ2EqualsOne_limb_exact : addZ2EqualsOne.absOK (nrmIn 9) [6, 7, 8] = true := by decide +kernel
theorem addGeneric_limb_exact : addGeneric.absOK (nrmIn 9) [6, 7, 8] = true := by decide +kernel
theorem doubleZ1EqualsOne_limb_exact : doubleZ1EqualsOne.absOK (nrmIn 6) [3, 4, 5] = true := by decide +kernel
theorem doubleGeneric_limb_exact : doubleGeneric.absOK (nrmIn 6) [3, 4, 5] = true := by decide +kernel
theorem AddNonConst_limb_exact : AddNonConst.absOK (nrmIn 9) [6, 7, 8] = true := by decide +kernel
theorem AddNonConst_r1_limb_exact : AddNonConst_r1.absOK (nrmIn 6) [0, 1, 2] = true := by decide +kernel
theorem AddNonConst_r2_limb_exact : AddNonConst_r2.absOK (nrmIn 6) [3, 4, 5] = true := by decide +kernel
theorem DoubleNonConst_limb_exact : DoubleNonConst.absOK (nrmIn 6) [3, 4, 5] = true := by decide +kernel
theorem DoubleNonConst_r1_limb_exact : DoubleNonConst_r1.absOK (nrmIn 3) [0, 1, 2] = true := by decide +kernel
theorem ToAffine_limb_exact : ToAffine.absOK (nrmIn 3) [0, 1, 2] = true := by decide +kernel

end LimbLevel

-- non-vacuity: the generator with Z = 1 is well formed
example : Jac.WF (Gx, Gy, 1) := by
  refine ⟨by decide, by decide, by decide, Or.inr ?_⟩
  decide +kernel

end Secp.Props.C04
