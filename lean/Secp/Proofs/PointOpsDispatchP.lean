/-
  Proofs/PointOpsDispatchP — AddNonConst with a distinct result: which path of the 37 runs, as a
  function of the identity tests and the Z tests.
-/
import Secp.Proofs.PointOpsGlue

set_option linter.unusedSimpArgs false
set_option linter.unusedVariables false
namespace Secp.Proofs.PointOps
open Secp.Spec Secp.Model Secp.FOp Secp.Proofs
open Secp.Gen.FormulasC

macro "disp_p" : tactic =>
  `(tactic| simp [runPaths, execPathWith, stepF, condF, rget, rset, writeBack, AddNonConst, AddNonConst_p0, AddNonConst_p1, AddNonConst_p2, AddNonConst_p3, AddNonConst_p4, AddNonConst_p5, AddNonConst_p6, AddNonConst_p7, AddNonConst_p8, AddNonConst_p9, AddNonConst_p10, AddNonConst_p11, AddNonConst_p12, AddNonConst_p13, AddNonConst_p14, AddNonConst_p15, AddNonConst_p16, AddNonConst_p17, AddNonConst_p18, AddNonConst_p19, AddNonConst_p20, AddNonConst_p21, AddNonConst_p22, AddNonConst_p23, AddNonConst_p24, AddNonConst_p25, AddNonConst_p26, AddNonConst_p27, AddNonConst_p28, AddNonConst_p29, AddNonConst_p30, AddNonConst_p31, AddNonConst_p32, AddNonConst_p33, AddNonConst_p34, AddNonConst_p35, AddNonConst_p36, *])

/-! ### distinct result -/

theorem disp_p_qinf (f X1 Y1 Z1 X2 Y2 Z2 r6 r7 r8 : Nat) (h : isInfJ (X1, Y1, Z1) = true) :
    callE (f + 1) 0 [X1, Y1, Z1, X2, Y2, Z2, r6, r7, r8] = some [X1, Y1, Z1, X2, Y2, Z2, X2, Y2, Z2] := by
  have h' : (X1 = 0 ∧ Y1 = 0) ∨ Z1 = 0 := by simpa [isInfJ] using h
  rw [callE_succ f 0 _ AddNonConst rfl]
  by_cases hX1 : X1 = 0 <;> by_cases hY1 : Y1 = 0 <;> by_cases hZ1 : Z1 = 0 <;>
    first
    | (exfalso; tauto)
    | (subst_vars; disp_p)

theorem disp_p_pinf (f X1 Y1 Z1 X2 Y2 Z2 r6 r7 r8 : Nat) (hq : isInfJ (X1, Y1, Z1) = false)
    (h : isInfJ (X2, Y2, Z2) = true) :
    callE (f + 1) 0 [X1, Y1, Z1, X2, Y2, Z2, r6, r7, r8] = some [X1, Y1, Z1, X2, Y2, Z2, X1, Y1, Z1] := by
  have h' : (X2 = 0 ∧ Y2 = 0) ∨ Z2 = 0 := by simpa [isInfJ] using h
  obtain ⟨hq1, hq2⟩ := fin_iff.1 hq
  rw [callE_succ f 0 _ AddNonConst rfl]
  by_cases hX1 : X1 = 0 <;> by_cases hY1 : Y1 = 0 <;>
  by_cases hX2 : X2 = 0 <;> by_cases hY2 : Y2 = 0 <;> by_cases hZ2 : Z2 = 0 <;>
    first
    | (exfalso; tauto)
    | (subst_vars; disp_p)

set_option hygiene false in
macro "leaf_p" : tactic =>
  `(tactic| ((try have hy1 := hY1 hX1); (try have hy2 := hY2 hX2); clear hY1 hY2; subst_vars; disp_p))

theorem disp_p_fin (f X1 Y1 Z1 X2 Y2 Z2 r6 r7 r8 k a b c : Nat) (hq : isInfJ (X1, Y1, Z1) = false)
    (hp : isInfJ (X2, Y2, Z2) = false)
    (hsel : (Z1 = 1 ∧ Z2 = 1 ∧ k = 12) ∨ (Z1 ≠ 1 ∧ Z1 = Z2 ∧ k = 15) ∨ (Z1 ≠ 1 ∧ Z2 = 1 ∧ k = 18) ∨
      (Z1 ≠ Z2 ∧ Z2 ≠ 1 ∧ k = 9))
    (hc : callE f k [X1, Y1, Z1, X2, Y2, Z2, r6, r7, r8] = some [X1, Y1, Z1, X2, Y2, Z2, a, b, c]) :
    callE (f + 1) 0 [X1, Y1, Z1, X2, Y2, Z2, r6, r7, r8] = some [X1, Y1, Z1, X2, Y2, Z2, a, b, c] := by
  obtain ⟨hq1, hq2⟩ := fin_iff.1 hq
  obtain ⟨hp1, hp2⟩ := fin_iff.1 hp
  have hY1 : X1 = 0 → ¬ Y1 = 0 := fun h h' => hq1 ⟨h, h'⟩
  have hY2 : X2 = 0 → ¬ Y2 = 0 := fun h h' => hp1 ⟨h, h'⟩
  clear hq hp hq1 hp1
  rw [callE_succ f 0 _ AddNonConst rfl]
  rcases hsel with ⟨h1, h2, h3⟩ | ⟨h1, h2, h3⟩ | ⟨h1, h2, h3⟩ | ⟨h1, h2, h3⟩
  · by_cases hX1 : X1 = 0 <;> by_cases hX2 : X2 = 0 <;> leaf_p
  · have h4 : Z2 ≠ 1 := fun h => h1 (h2.trans h)
    by_cases hX1 : X1 = 0 <;> by_cases hX2 : X2 = 0 <;> leaf_p
  · by_cases hX1 : X1 = 0 <;> by_cases hX2 : X2 = 0 <;> leaf_p
  · have h4 : Z2 ≠ Z1 := fun h => h1 h.symm
    by_cases hX1 : X1 = 0 <;> by_cases hX2 : X2 = 0 <;> by_cases hZ11 : Z1 = 1 <;> leaf_p

end Secp.Proofs.PointOps
