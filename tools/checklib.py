"""
checklib — driver for ./check.  Standard library only.
"""
import sys, os, re, json, time, subprocess, hashlib, fcntl, shutil, glob

VERIF = os.path.dirname(os.path.dirname(os.path.abspath(__file__)))
REPO = os.environ.get("VERIF_REPO", "/repo")
LEAN = os.path.join(VERIF, "lean")
WORK = os.path.join(VERIF, ".work")
DRIVER = os.path.join(LEAN, ".lake", "build", "bin", "secpdriver")
ALLOWED_AXIOMS = {"propext", "Classical.choice", "Quot.sound"}
FORBIDDEN = re.compile(r"\bsorry\b|\badmit\b|^\s*axiom\s|native_decide|bv_decide|implemented_by|\bunsafe\s|maxHeartbeats\s+0\b", re.M)

GOENV = dict(os.environ, GOFLAGS="-mod=mod", GOPROXY="off", GOSUMDB="off", GOTOOLCHAIN="local",
             CGO_ENABLED="0")

from props import PROPS  # noqa: E402


def log(msg):
    print(msg, flush=True)


class Lock:
    def __init__(self, name):
        os.makedirs(WORK, exist_ok=True)
        self.path = os.path.join(WORK, name)

    def __enter__(self):
        self.f = open(self.path, "w")
        fcntl.flock(self.f, fcntl.LOCK_EX)
        return self

    def __exit__(self, *a):
        fcntl.flock(self.f, fcntl.LOCK_UN)
        self.f.close()


def run(cmd, cwd=None, env=None, timeout=None, stdin=None):
    t = time.time()
    try:
        p = subprocess.run(cmd, cwd=cwd, env=env, capture_output=True, text=True, timeout=timeout, stdin=stdin)
        return p.returncode, p.stdout, p.stderr, time.time() - t
    except subprocess.TimeoutExpired as e:
        return 124, (e.stdout or b"").decode() if isinstance(e.stdout, bytes) else (e.stdout or ""), "TIMEOUT", time.time() - t


# ---------------------------------------------------------------- regenerate

def regenerate(ctx):
    """Run tools/gotr on REPO's working tree; replace Gen/*.lean only when content differs."""
    gotr_src = os.path.join(VERIF, "tools", "gotr")
    if not os.path.isdir(gotr_src):
        return True, "no translator yet"
    with Lock("gotr.lock"):
        binp = os.path.join(WORK, "gotr")
        rc, out, err, _ = run(["go", "build", "-o", binp, "."], cwd=gotr_src, env=GOENV, timeout=600)
        if rc != 0:
            return False, "gotr build failed: " + err[-2000:]
        tmp = os.path.join(WORK, "gen.tmp.%d" % os.getpid())
        shutil.rmtree(tmp, ignore_errors=True)
        os.makedirs(tmp)
        rc, out, err, _ = run([binp, "-repo", REPO, "-out", tmp], env=GOENV, timeout=600)
        if rc != 0:
            shutil.rmtree(tmp, ignore_errors=True)
            return False, "translator rejected the source (tie broken): " + (out + err)[-3000:]
        gen = os.path.join(LEAN, "Secp", "Gen")
        os.makedirs(gen, exist_ok=True)
        new = set(os.listdir(tmp))
        changed = []
        for f in new:
            src, dst = os.path.join(tmp, f), os.path.join(gen, f)
            a = open(src, "rb").read()
            if not os.path.exists(dst) or open(dst, "rb").read() != a:
                shutil.copyfile(src, dst)
                changed.append(f)
        for f in os.listdir(gen):
            if f.endswith(".lean") and f not in new and f != "Bounds.lean":
                os.remove(os.path.join(gen, f))
                changed.append("-" + f)
        shutil.rmtree(tmp, ignore_errors=True)
        ctx["gen_changed"] = changed
        # pass T8 contains a function that left its subset by emitting a typed stub (wrong on purpose): only the theorems
        # about that function break, and with them only the properties that stand on it
        t8f = os.path.join(gen, "T8Failures.txt")
        ctx["t8_failures"] = [l for l in (open(t8f).read().split("\n") if os.path.exists(t8f) else []) if l.strip()]
    # second stage: derived interval bounds (Lean → Lean), re-run when the kernels changed
    bounds = os.path.join(gen, "Bounds.lean")
    if changed or not os.path.exists(bounds):
        with Lock("lake.lock"):
            rc, out, err, _ = run(["lake", "build", "Secp.Core.KernelSpecs"], cwd=LEAN, timeout=1800)
            if rc != 0:
                return False, "generated kernels do not elaborate: " + (out + err)[-3000:]
            rc, out, err, _ = run(["lake", "env", "lean", "--run", "Secp/Core/GenBounds.lean"], cwd=LEAN, timeout=1800)
            if rc != 0:
                return False, "bounds generation failed: " + (out + err)[-3000:]
            if not os.path.exists(bounds) or open(bounds).read() != out:
                open(bounds, "w").write(out)
                changed.append("Bounds.lean")
    note = ""
    if ctx.get("t8_failures"):
        note = "; T8: %d function(s) outside the translator's subset, stubbed: %s" % (len(ctx["t8_failures"]), " | ".join(x[:160] for x in ctx["t8_failures"]))
    return True, "regenerated (%d files changed%s)%s" % (len(changed), ": " + ",".join(changed) if changed else "", note)


# ---------------------------------------------------------------- lean build / audit

def strip_comments(src):
    src = re.sub(r"/-.*?-/", "", src, flags=re.S)
    src = re.sub(r"--.*", "", src)
    return src


def forbidden_tokens():
    hits = []
    for path in glob.glob(os.path.join(LEAN, "Secp", "**", "*.lean"), recursive=True):
        txt = strip_comments(open(path).read())
        for m in FORBIDDEN.finditer(txt):
            hits.append("%s: %s" % (os.path.relpath(path, LEAN), m.group(0).strip()))
    return hits


def props_theorems(pid):
    """theorem names declared in Props/<pid>.lean (fully qualified)"""
    path = os.path.join(LEAN, "Secp", "Props", pid + ".lean")
    src = strip_comments(open(path).read())
    ns = re.search(r"^namespace\s+(\S+)", src, re.M)
    ns = ns.group(1) + "." if ns else ""
    return [ns + m.group(1) for m in re.finditer(r"^theorem\s+(\S+)", src, re.M)]


def lean_build(ctx, pid, clean=False):
    # layers: the limb-kernel theorem files this property's value-level model stands on (C05 field, C06 scalar);
    # they are regenerated-kernel theorems, so a changed kernel fails every property that computes through it
    targets = ["Secp.Props." + pid] + ["Secp.Props." + l for l in PROPS[pid].get("layers", []) if l != pid] + ["secpdriver"]
    with Lock("lake.lock"):
        if clean:
            # force re-elaboration of the property module and what it proves with
            for m in PROPS[pid].get("reelaborate", ["Props/" + pid]):
                for ext in ("olean", "ilean", "trace", "hash", "c", "olean.hash", "ilean.hash"):
                    p = os.path.join(LEAN, ".lake", "build", "lib", "lean", "Secp", m + "." + ext)
                    if os.path.exists(p):
                        os.remove(p)
        rc, out, err, dt = run(["lake", "build"] + targets, cwd=LEAN, timeout=7200)
    ctx["lean_build_s"] = round(dt, 1)
    ctx["checker_cmd"] = "cd lean && lake build " + " ".join(targets)
    if rc != 0:
        return False, (out + err)[-6000:]
    return True, "lake build ok (%.1fs)" % dt


def audit(ctx, pid):
    thms = props_theorems(pid)
    ctx["theorems"] = thms
    d = os.path.join(WORK, pid)
    os.makedirs(d, exist_ok=True)
    f = os.path.join(d, "Audit.lean")
    with open(f, "w") as fh:
        fh.write("import Secp.Props.%s\n" % pid)
        for t in thms:
            fh.write("#print axioms %s\n" % t)
    with Lock("lake.lock"):
        rc, out, err, dt = run(["lake", "env", "lean", f], cwd=LEAN, timeout=1800)
    if rc != 0:
        return False, "audit failed: " + (out + err)[-3000:]
    axioms = {}
    text = out.replace("\n  ", " ").replace("\n ", " ")
    for m in re.finditer(r"'([^']+)' depends on axioms: \[([^\]]*)\]", text):
        axioms[m.group(1)] = [a.strip() for a in m.group(2).split(",") if a.strip()]
    for m in re.finditer(r"'([^']+)' does not depend on any axioms", text):
        axioms[m.group(1)] = []
    bad = []
    for t in thms:
        if t not in axioms:
            bad.append("%s: no axiom report" % t)
        else:
            extra = set(axioms[t]) - ALLOWED_AXIOMS
            if extra:
                bad.append("%s: uses %s" % (t, sorted(extra)))
    ctx["axioms"] = axioms
    hits = forbidden_tokens()
    if hits:
        bad.append("forbidden tokens: " + "; ".join(hits[:10]))
    ctx["discharged"] = len([t for t in thms if t in axioms and not (set(axioms[t]) - ALLOWED_AXIOMS)])
    if bad:
        return False, "\n".join(bad)
    return True, "%d theorems, axioms ⊆ {propext, Classical.choice, Quot.sound}" % len(thms)


def leanchecker(ctx, pid):
    mods = PROPS[pid].get("leanchecker", ["Secp.Props." + pid])
    with Lock("lake.lock"):
        rc, out, err, dt = run(["lake", "env", "leanchecker"] + mods, cwd=LEAN, timeout=3600)
    ctx["leanchecker_s"] = round(dt, 1)
    if rc != 0:
        return False, "leanchecker: " + (out + err)[-2000:]
    return True, "leanchecker ok (%.1fs)" % dt


# ---------------------------------------------------------------- harness / correspondence

def build_harness(ctx):
    with Lock("harness.lock"):
        hb = os.path.join(WORK, "hbuild")
        shutil.rmtree(hb, ignore_errors=True)
        os.makedirs(hb)
        for f in glob.glob(os.path.join(VERIF, "harness", "*.go")):
            shutil.copy(f, hb)
        gomod = open(os.path.join(VERIF, "harness", "go.mod")).read().replace("=> /repo", "=> " + REPO)
        open(os.path.join(hb, "go.mod"), "w").write(gomod)
        shutil.copy(os.path.join(REPO, "go.sum"), hb)
        binp = os.path.join(WORK, "harness.bin.%d" % os.getpid())
        rc, out, err, dt = run(["go", "build", "-tags", "verif", "-o", binp, "."], cwd=hb, env=GOENV, timeout=900)
        if rc != 0:
            return False, "harness build failed (hooks or API moved): " + (out + err)[-3000:]
        ctx["harness_bin"] = binp
        return True, "harness built (%.1fs)" % dt


def project(pid, op, s):
    """map an impl/model answer to the spec's vocabulary for this op"""
    f = PROPS[pid].get("project")
    return f(op, s) if f else s


def run_correspondence(ctx, pid, tier, seed, budget=None, outname="run"):
    d = os.path.join(WORK, pid, "%s-%s" % (outname, seed))
    shutil.rmtree(d, ignore_errors=True)
    os.makedirs(d)
    env = dict(GOENV, GOMEMLIMIT="4GiB")
    if budget is not None:
        env["VERIF_BUDGET"] = str(budget)
    # corpus lives in VERIF/corpus; harness looks at <out>/../../corpus — pass explicitly
    env["VERIF_CORPUS"] = os.path.join(VERIF, "corpus")
    env["VERIF_KERNELS"] = os.path.join(LEAN, "Secp", "Gen", "kernels.json")
    rc, out, err, dt = run([ctx["harness_bin"], PROPS[pid].get("generator", pid), tier, str(seed), d], env=env, timeout=3600)
    if rc != 0:
        return None, "harness run failed: " + (out + err)[-3000:]
    return compare_dir(ctx, pid, d)


def compare_dir(ctx, pid, d):
    ops = open(os.path.join(d, "ops.txt")).read().split("\n")
    if ops and ops[-1] == "":
        ops.pop()
    impl = open(os.path.join(d, "impl.txt")).read().split("\n")[:len(ops)]
    with open(os.path.join(d, "ops.txt")) as fin:
        rc, out, err, dt = run([DRIVER], stdin=fin, timeout=7200)
    if rc != 0:
        return None, "driver failed: " + err[-2000:]
    lines = out.split("\n")[:len(ops)]
    if len(lines) != len(ops):
        return None, "driver answered %d lines for %d ops" % (len(lines), len(ops))
    res = {"n": len(ops), "impl_ne_model": [], "impl_ne_spec": [], "model_ne_spec": [], "dir": d}
    distinct = set()
    for i, (op, im, dl) in enumerate(zip(ops, impl, lines)):
        parts = dl.split("\t")
        model = parts[0]
        spec = parts[1] if len(parts) > 1 else "="
        opname = op.split(" ", 1)[0]
        distinct.add(hashlib.sha1(op.encode()).digest()[:8])
        if im != model:
            res["impl_ne_model"].append(i)
        if spec != "=":
            if project(pid, opname, im) != spec:
                res["impl_ne_spec"].append(i)
            if project(pid, opname, model) != spec:
                res["model_ne_spec"].append(i)
    res["distinct"] = len(distinct)
    res["ops"], res["impl"], res["drv"] = ops, impl, lines
    try:
        res["meta"] = json.load(open(os.path.join(d, "meta.json")))
    except Exception:
        res["meta"] = {}
    return res, "ok"


# ---------------------------------------------------------------- known findings

def load_known():
    p = os.path.join(VERIF, "known_findings.json")
    if not os.path.exists(p):
        return []
    return json.load(open(p)).get("findings", [])


def known_match(pid, op):
    for k in load_known():
        if k.get("property") == pid and re.search(k["match_op_regex"], op):
            return k
    return None


# ---------------------------------------------------------------- replay files

def write_replay(pid, seed, payload):
    d = os.path.join(VERIF, "replays")
    os.makedirs(d, exist_ok=True)
    path = os.path.join(d, "%s-%s.json" % (pid, seed))
    payload = dict(payload, property=pid, how_to_rerun="./check %s --replay %s" % (pid, path))
    with open(path, "w") as f:
        json.dump(payload, f, indent=1)
    return path


def shrink(ctx, pid, idxs, res, limit=5):
    """keep the shortest few failing ops (ops are independent lines, so shrinking = choosing the smallest)"""
    cand = sorted(idxs, key=lambda i: len(res["ops"][i]))[:limit]
    return [{"op": res["ops"][i], "impl": res["impl"][i], "driver": res["drv"][i]} for i in cand]


def do_replay(pid, path):
    ctx = {}
    payload = json.load(open(path))
    cases = payload.get("cases", [])
    if not cases or any(c.get("static") for c in cases):
        log("replay file names broken obligations only (no concrete input): %s" % payload.get("broken"))
        # re-run the quick check: it decides whether the obligation is still broken
        return run_check(pid, "quick")
    ok, msg = build_harness(ctx)
    if not ok:
        log(msg)
        log("VIOLATION property=%s replay=%s" % (pid, path))
        return 1
    with Lock("lake.lock"):
        run(["lake", "build", "secpdriver"], cwd=LEAN, timeout=3600)
    d = os.path.join(WORK, pid, "replay")
    shutil.rmtree(d, ignore_errors=True)
    os.makedirs(d)
    opsfile = os.path.join(d, "in.txt")
    open(opsfile, "w").write("\n".join(c["op"] for c in cases) + "\n")
    rc, out, err, _ = run([ctx["harness_bin"], "replay", "quick", "0", d, opsfile], env=dict(GOENV, VERIF_KERNELS=os.path.join(LEAN, "Secp", "Gen", "kernels.json")), timeout=600)
    os.remove(ctx["harness_bin"])
    if rc != 0:
        log(err)
        return 1
    res, msg = compare_dir(ctx, pid, d)
    if res is None:
        log(msg)
        return 1
    bad = sorted(set(res["impl_ne_model"]) | set(res["impl_ne_spec"]))
    for i in range(res["n"]):
        log("op:    %s\n impl:  %s\n model: %s" % (res["ops"][i], res["impl"][i], res["drv"][i]))
    if bad:
        log("VIOLATION property=%s replay=%s" % (pid, path))
        return 1
    log("replay no longer fails")
    return 0


# ---------------------------------------------------------------- main check

def run_check(pid, tier):
    t0 = time.time()
    seed = int(os.environ.get("VERIF_SEED", "1"))
    cfg = PROPS[pid]
    ctx = {"steps": []}
    broken = []       # names of obligations / correspondences that no longer check
    lean_error = ""
    violations = []   # concrete failing cases
    known_hits = []
    res = None

    def step(name, f, *a):
        t = time.time()
        ok, msg = f(*a)
        ctx["steps"].append({"step": name, "ok": bool(ok), "s": round(time.time() - t, 1), "msg": (msg or "")[:400]})
        log("[%s] %-14s %s  %s" % (pid, name, "ok" if ok else "FAIL", (msg or "").split("\n")[0][:200]))
        return ok, msg

    ok, msg = step("regenerate", regenerate, ctx)
    if not ok:
        broken.append("regenerate: " + msg[:300])
        lean_error = msg
    if ok:
        ok, msg = step("lake-build", lean_build, ctx, pid, tier == "thorough")
        if not ok:
            broken.append("lake build Secp.Props.%s" % pid)
            for w in ctx.get("t8_failures", []):
                broken.append("translator (T8) could not follow the source, its *_regenerated theorem is void: " + w[:300])
            lean_error = msg
            m = re.findall(r"error: ([^\n]*)", msg)
            broken += ["lean: " + x[:200] for x in m[:8]]
    if ok:
        ok, msg = step("audit", audit, ctx, pid)
        if not ok:
            broken.append("audit: " + msg[:300])
            lean_error = msg
    if ok and tier == "thorough" and cfg.get("leanchecker", True):
        ok2, msg = step("leanchecker", leanchecker, ctx, pid)
        if not ok2:
            broken.append(msg[:300])
            lean_error = msg

    static_ok = not broken
    # correspondence (also serves as the counterexample search when a static step broke)
    okh, msg = step("harness-build", build_harness, ctx)
    if not okh:
        broken.append("harness build: " + msg[:300])
    elif cfg.get("correspondence", True):
        have_driver = os.path.exists(DRIVER)
        if not static_ok and have_driver:
            # the driver may be stale or unbuildable; try to build it alone
            with Lock("lake.lock"):
                rc, _, _, _ = run(["lake", "build", "secpdriver"], cwd=LEAN, timeout=3600)
            have_driver = rc == 0
        if have_driver:
            seeds = [seed] if static_ok else [seed, seed + 1, seed + 2]
            budget = None if static_ok else 20
            for sd in seeds:
                t = time.time()
                r, m2 = run_correspondence(ctx, pid, tier, sd, budget=budget, outname="run" if static_ok else "search")
                if r is None:
                    broken.append("correspondence run: " + m2[:300])
                    log("[%s] correspondence   FAIL  %s" % (pid, m2[:200]))
                    break
                res = r if res is None else res
                bad_spec = r["impl_ne_spec"]
                bad_model = [i for i in r["impl_ne_model"] if i not in set(bad_spec)]
                log("[%s] correspondence   seed=%d ops=%d distinct=%d impl≠spec=%d impl≠model=%d model≠spec=%d (%.1fs)" % (
                    pid, sd, r["n"], r["distinct"], len(bad_spec), len(bad_model), len(r["model_ne_spec"]), time.time() - t))
                if r["model_ne_spec"] and static_ok:
                    broken.append("driver model ≠ spec on a green build (stale build?)")
                for i in sorted(set(bad_spec) | set(bad_model)):
                    k = known_match(pid, r["ops"][i])
                    if k:
                        known_hits.append((k, r["ops"][i]))
                    else:
                        violations.append((r, i))
                if violations:
                    break
            if not static_ok and not violations:
                # the broken obligation may sit in a kernel layer: search with the layers' generators too
                for lp in cfg.get("layers", []):
                    r, m2 = run_correspondence(ctx, lp, tier, seed, budget=4, outname="search-" + lp)
                    if r is None:
                        continue
                    bad = sorted(set(r["impl_ne_spec"]) | set(r["impl_ne_model"]))
                    log("[%s] layer %s search   ops=%d failing=%d" % (pid, lp, r["n"], len(bad)))
                    for i in bad:
                        if not known_match(lp, r["ops"][i]):
                            violations.append((r, i))
                    if violations:
                        break
        else:
            broken.append("driver unavailable")
    if ctx.get("harness_bin") and os.path.exists(ctx["harness_bin"]):
        os.remove(ctx["harness_bin"])

    # extra property-specific dynamic steps (e.g. -race run)
    extra_cases = []
    for name, fn in cfg.get("extra_steps", []):
        okx, msgx = step(name, fn, ctx, tier, seed)
        if not okx:
            broken.append(name + ": " + (msgx or "")[:300])
            if cfg.get("extra_is_witness"):
                extra_cases.append({"op": "%s tier=%s seed=%s" % (name, tier, seed), "impl": (msgx or "")[-1500:],
                                    "driver": "expected: no data race and every concurrent answer equal to the solo answer", "static": True})

    for k, op in {(k["id"], op): (k, op) for k, op in known_hits}.values():
        log("KNOWN-FINDING: property=%s %s (%s)" % (pid, k["desc"], op[:120]))

    static_cases = list(extra_cases)
    if broken and not violations and cfg.get("static_search"):
        try:
            with Lock("lake.lock"):
                static_cases = list(extra_cases) + list(cfg["static_search"](ctx, run, LEAN, WORK))
        except Exception as e:  # search is best-effort
            log("[%s] static search failed: %s" % (pid, e))
    rc = 0
    replay_path = None
    if static_cases:
        replay_path = write_replay(pid, seed, {"kind": "concrete", "cases": static_cases, "broken": broken,
                                                "lean_error": lean_error[-3000:]})
        log("VIOLATION property=%s replay=%s" % (pid, replay_path))
        rc = 1
    elif violations:
        r = violations[0][0]
        idxs = [i for (rr, i) in violations if rr is r]
        cases = shrink(ctx, pid, idxs, r)
        replay_path = write_replay(pid, seed, {"kind": "concrete", "cases": cases, "broken": broken,
                                                "lean_error": lean_error[-3000:], "failing_ops_total": len(idxs)})
        log("VIOLATION property=%s replay=%s" % (pid, replay_path))
        rc = 1
    elif broken:
        replay_path = write_replay(pid, seed, {"kind": "no-failing-input-found", "cases": [], "broken": broken,
                                                "lean_error": lean_error[-6000:],
                                                "searched": "correspondence vs model and spec, seeds %d..%d at thorough budget" % (seed, seed + 2)})
        log("VIOLATION property=%s replay=%s no-failing-input-found" % (pid, replay_path))
        rc = 1

    write_evidence(pid, tier, seed, ctx, cfg, res, broken, violations, time.time() - t0)
    return rc


def write_evidence(pid, tier, seed, ctx, cfg, res, broken, violations, wall):
    thms = ctx.get("theorems", [])
    if not thms:
        try:
            thms = props_theorems(pid)
        except Exception:
            thms = []
    extra_obl = ctx.get("reflective_obligations", [])
    obligations = len(thms) + len(extra_obl)
    discharged = ctx.get("discharged", 0) + (len(extra_obl) if not broken else 0)
    cov = {
        "obligations": obligations,
        "discharged": discharged if not broken else min(ctx.get("discharged", 0), max(obligations - 1, 0)),
        "checker_cmd": ctx.get("checker_cmd", "cd lean && lake build Secp.Props." + pid) +
                       (" && lake env leanchecker Secp.Props." + pid if tier == "thorough" else ""),
        "trusted_base": cfg.get("trusted_base", []) + [
            "Lean 4.33.0 kernel; axioms used: " + ", ".join(sorted({a for v in ctx.get("axioms", {}).values() for a in v})) ],
        "theorems": thms,
        "axioms_per_theorem": ctx.get("axioms", {}),
        "steps": ctx["steps"],
        "broken": broken,
    }
    if extra_obl:
        cov["reflective_obligations"] = extra_obl
    if res is not None:
        classes = res.get("meta", {}).get("classes", {})
        nontrivial = res["distinct"]
        cov.update({
            "evaluations": res["n"],
            "distinct_nontrivial": nontrivial,
            "rule": cfg.get("rule", "operations generated by harness generator %s from VERIF_SEED; distinct = distinct canonical op lines (sha1); every op exercises parsing/arithmetic on structured input (no empty ops)" % pid),
            "traces_validated_against_impl": res["n"] - len(res["impl_ne_model"]),
            "input_classes": classes,
            "samples": [{"op": res["ops"][i], "impl": res["impl"][i], "driver": res["drv"][i]}
                        for i in sorted(set([0, res["n"] // 3, res["n"] // 2, res["n"] - 1])) if i < res["n"]],
        })
        answers = {}
        for im in res["impl"]:
            key = " ".join(im.split(" ")[:2]) if im.startswith("err") else im.split(" ")[0][:12] if not im.startswith("ok") else "ok"
            answers[key] = answers.get(key, 0) + 1
        cov["answer_kinds"] = dict(sorted(answers.items(), key=lambda kv: -kv[1])[:40])
    else:
        cov["samples"] = [{"obligation": t} for t in thms[:5]] or [{"note": "no samples"}]
    cov.update(ctx.get("extra_coverage", {}))
    # what the translator did on THIS run: files whose content changed, and T8 functions it could not follow (stubbed)
    cov["regenerated_files_changed"] = ctx.get("gen_changed", [])
    cov["t8_functions_outside_subset"] = ctx.get("t8_failures", [])
    try:
        drv = open(os.path.join(LEAN, "Secp", "Gen", "Drivers.lean")).read()
        cov["t8_regenerated_definitions"] = len(re.findall(r"^def ", drv, re.M))
    except Exception:
        pass
    if cov["discharged"] < 1:
        # nothing was discharged in this run: do not present proof-style counts at all
        cov.pop("obligations"); cov.pop("discharged")
        cov["undischarged_theorems"] = thms
    ev = {
        "property_id": pid, "tier": tier, "seed": seed, "level": cfg.get("level", "proof"),
        "coverage": cov,
        "assumptions": cfg.get("assumptions", []),
        "wall_s": round(wall, 1),
        "violations": len(violations) + (1 if (broken and not violations) else 0),
    }
    evdir = os.environ.get("VERIF_EVIDENCE_DIR") or os.path.join(VERIF, "evidence")  # mutation experiments write elsewhere
    os.makedirs(evdir, exist_ok=True)
    with open(os.path.join(evdir, pid + ".json"), "w") as f:
        json.dump(ev, f, indent=1)


def main(argv):
    if len(argv) < 2:
        print(__doc__)
        return 2
    pid = argv[0]
    if pid not in PROPS:
        print("unknown property", pid)
        return 2
    if argv[1] == "--replay":
        return do_replay(pid, argv[2])
    tier = argv[1]
    if os.environ.get("VERIF_TIER") in ("quick", "thorough") and tier not in ("quick", "thorough"):
        tier = os.environ["VERIF_TIER"]
    if tier not in ("quick", "thorough"):
        print("tier must be quick or thorough")
        return 2
    return run_check(pid, tier)
