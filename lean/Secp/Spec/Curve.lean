import Secp.Spec.Field
/-
  Spec/Curve — affine group law of y² = x³ + 7 over F_P on `Nat`, executable.
  `none` is the point at infinity.
-/
namespace Secp.Spec

abbrev Pt := Option (Nat × Nat)

def onCurveXY (x y : Nat) : Bool := x < P && y < P && fsq y == fadd (fmul (fsq x) x) 7

def Pt.onCurve : Pt → Bool
  | none => true
  | some (x, y) => onCurveXY x y

def G : Pt := some (Gx, Gy)

def Pt.neg : Pt → Pt
  | none => none
  | some (x, y) => some (x, fneg y)

/-- affine doubling; a point with y = 0 doubles to infinity -/
def Pt.dbl : Pt → Pt
  | none => none
  | some (x, y) =>
    if y % P = 0 then none else
    let l := fmul (fmul 3 (fsq x)) (finv (fmul 2 y))
    let x3 := fsub (fsq l) (fmul 2 x)
    let y3 := fsub (fmul l (fsub x x3)) y
    some (x3, y3)

/-- affine addition (chord/tangent) -/
def Pt.add : Pt → Pt → Pt
  | none, q => q
  | p, none => p
  | some (x1, y1), some (x2, y2) =>
    if x1 % P = x2 % P then
      if y1 % P = y2 % P then Pt.dbl (some (x1, y1)) else none
    else
      let l := fmul (fsub y2 y1) (finv (fsub x2 x1))
      let x3 := fsub (fsub (fsq l) x1) x2
      let y3 := fsub (fmul l (fsub x1 x3)) y1
      some (x3, y3)

/-- double-and-add, most significant bit first, with structural fuel -/
def smulAux (p : Pt) : Nat → Nat → Pt
  | 0, _ => none
  | f+1, k =>
    if k = 0 then none else
    let h := Pt.dbl (smulAux p f (k / 2))
    if k % 2 = 1 then Pt.add h p else h

/-- k • p -/
def smul (k : Nat) (p : Pt) : Pt := smulAux p (k.log2 + 1) k

def Pt.x : Pt → Nat
  | none => 0
  | some (x, _) => x
def Pt.y : Pt → Nat
  | none => 0
  | some (_, y) => y

end Secp.Spec
