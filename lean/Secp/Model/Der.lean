import Secp.Model.Outcome
import Secp.Spec.Field
/-
  Model/Der — `ParseDERSignature` and `Signature.Serialize` (signature.go),
  mirrored check by check.  Scalars are `Nat` in [0, N).
-/
namespace Secp.Model
open Secp.Spec

inductive SigErr where
  | ErrSigTooShort | ErrSigTooLong | ErrSigInvalidSeqID | ErrSigInvalidDataLen
  | ErrSigMissingSTypeID | ErrSigMissingSLen | ErrSigInvalidSLen | ErrSigInvalidRIntID
  | ErrSigZeroRLen | ErrSigNegativeR | ErrSigTooMuchRPadding | ErrSigRIsZero | ErrSigRTooBig
  | ErrSigInvalidSIntID | ErrSigZeroSLen | ErrSigNegativeS | ErrSigTooMuchSPadding
  | ErrSigSIsZero | ErrSigSTooBig | ErrSigInvalidLen | ErrSigInvalidRecoveryCode
  | ErrSigOverflowsPrime | ErrPointNotOnCurve
  deriving Repr, DecidableEq

def SigErr.name : SigErr → String
  | .ErrSigTooShort => "ErrSigTooShort" | .ErrSigTooLong => "ErrSigTooLong"
  | .ErrSigInvalidSeqID => "ErrSigInvalidSeqID" | .ErrSigInvalidDataLen => "ErrSigInvalidDataLen"
  | .ErrSigMissingSTypeID => "ErrSigMissingSTypeID" | .ErrSigMissingSLen => "ErrSigMissingSLen"
  | .ErrSigInvalidSLen => "ErrSigInvalidSLen" | .ErrSigInvalidRIntID => "ErrSigInvalidRIntID"
  | .ErrSigZeroRLen => "ErrSigZeroRLen" | .ErrSigNegativeR => "ErrSigNegativeR"
  | .ErrSigTooMuchRPadding => "ErrSigTooMuchRPadding" | .ErrSigRIsZero => "ErrSigRIsZero"
  | .ErrSigRTooBig => "ErrSigRTooBig" | .ErrSigInvalidSIntID => "ErrSigInvalidSIntID"
  | .ErrSigZeroSLen => "ErrSigZeroSLen" | .ErrSigNegativeS => "ErrSigNegativeS"
  | .ErrSigTooMuchSPadding => "ErrSigTooMuchSPadding" | .ErrSigSIsZero => "ErrSigSIsZero"
  | .ErrSigSTooBig => "ErrSigSTooBig" | .ErrSigInvalidLen => "ErrSigInvalidLen"
  | .ErrSigInvalidRecoveryCode => "ErrSigInvalidRecoveryCode"
  | .ErrSigOverflowsPrime => "ErrSigOverflowsPrime" | .ErrPointNotOnCurve => "ErrPointNotOnCurve"

/-- `ModNScalar.SetByteSlice`: value of the first ≤32 bytes reduced once, and the overflow flag.
    (Value-level; the limb-level kernel is `Gen.ScalarIR`, tied by C06.) -/
def scalarSetByteSlice (b : Bytes) : Nat × Bool :=
  let v := beNat (b.take 32)
  (if v ≥ N then v - N else v, v ≥ N)

/-- the integer-parsing tail shared by R and S in `ParseDERSignature` -/
def derInt (bytes : Bytes) (tooBig isZero : SigErr) : Outcome SigErr Nat :=
  let stripped := stripZeros bytes
  if stripped.length > 32 then .err tooBig else
  let (v, overflow) := scalarSetByteSlice stripped
  if overflow then .err tooBig else
  if v = 0 then .err isZero else .ok v

def parseDER (sig : Bytes) : Outcome SigErr (Nat × Nat) := do
  let sigLen := sig.length
  if sigLen < 8 then .err .ErrSigTooShort else
  if sigLen > 72 then .err .ErrSigTooLong else
  let b0 ← idx sig 0
  if b0 ≠ 0x30 then .err .ErrSigInvalidSeqID else
  let b1 ← idx sig 1
  if b1.toNat ≠ sigLen - 2 then .err .ErrSigInvalidDataLen else
  let rLenB ← idx sig 3
  let rLen := rLenB.toNat
  let sTypeOffset := 4 + rLen
  let sLenOffset := sTypeOffset + 1
  if sTypeOffset ≥ sigLen then .err .ErrSigMissingSTypeID else
  if sLenOffset ≥ sigLen then .err .ErrSigMissingSLen else
  let sOffset := sLenOffset + 1
  let sLenB ← idx sig sLenOffset
  let sLen := sLenB.toNat
  if sOffset + sLen ≠ sigLen then .err .ErrSigInvalidSLen else
  let b2 ← idx sig 2
  if b2 ≠ 0x02 then .err .ErrSigInvalidRIntID else
  if rLen = 0 then .err .ErrSigZeroRLen else
  let r0 ← idx sig 4
  if r0 &&& 0x80 ≠ 0 then .err .ErrSigNegativeR else
  let rPad ← (if rLen > 1 ∧ r0 = 0 then do
      let r1 ← idx sig 5
      pure (r1 &&& 0x80 == 0)
    else pure false : Outcome SigErr Bool)
  if rPad then .err .ErrSigTooMuchRPadding else
  let st ← idx sig sTypeOffset
  if st ≠ 0x02 then .err .ErrSigInvalidSIntID else
  if sLen = 0 then .err .ErrSigZeroSLen else
  let s0 ← idx sig sOffset
  if s0 &&& 0x80 ≠ 0 then .err .ErrSigNegativeS else
  let sPad ← (if sLen > 1 ∧ s0 = 0 then do
      let s1 ← idx sig (sOffset + 1)
      pure (s1 &&& 0x80 == 0)
    else pure false : Outcome SigErr Bool)
  if sPad then .err .ErrSigTooMuchSPadding else
  let rBytes ← slice sig 4 (4 + rLen)
  let r ← derInt rBytes .ErrSigRTooBig .ErrSigRIsZero
  let sBytes ← slice sig sOffset (sOffset + sLen)
  let s ← derInt sBytes .ErrSigSTooBig .ErrSigSIsZero
  pure (r, s)

/-- the canonicalisation loop of `Serialize` on a 33-byte buffer `0x00 ‖ be32 v` -/
def canonLoop : Bytes → Bytes
  | a :: b :: rest => if a = 0 ∧ b &&& 0x80 = 0 then canonLoop (b :: rest) else a :: b :: rest
  | l => l

def canonInt (v : Nat) : Bytes := canonLoop ((0 : UInt8) :: be32 v)

/-- `Signature.Serialize`: DER with s replaced by min(s, N-s) -/
def serializeDER (r s : Nat) : Bytes :=
  let sLow := if s > halfN then N - s else s
  let cr := canonInt r
  let cs := canonInt sLow
  [0x30, UInt8.ofNat (4 + cr.length + cs.length), 0x02, UInt8.ofNat cr.length] ++ cr ++
    [0x02, UInt8.ofNat cs.length] ++ cs

end Secp.Model
