import Secp.Gen.Consts
import Secp.Proofs.DriversBip32
import Secp.Proofs.Bip32
import Secp.Proofs.Slices
/-
  Props/C13 — extended-key serialisation round-trips, rejects malformed input, owns its data.
  Model: `Secp.Model.unmarshal`, `ExtKey.marshal`.  In the model a decoded key is a value by
  construction (no sharing is expressible); that the CODE does not alias the caller's buffer is
  checked by the correspondence run, which overwrites the input after every decode and re-reads the
  key (this is how defect F2 was caught and is now guarded).
-/
namespace Secp.Props.C13
open Secp.Spec Secp.Model

/-- decoding accepts exactly: length 82, matching double-SHA256 checksum, key type consistent with
    the version, private key in [1, N-1] or a valid compressed/uncompressed-prefixed public key -/
theorem unmarshal_ok_iff (data : Bytes) (k : ExtKey) :
    unmarshal data = .ok k ↔
      (data.length = 82 ∧ data.drop 78 = (doubleSha256 (data.take 78)).take 4 ∧
       k.version = data.take 4 ∧ k.depth = (data.getD 4 0).toNat ∧ k.fingerprint = (data.take 9).drop 5 ∧
       k.childNumber = beNat ((data.take 13).drop 9) ∧ k.chainCode = (data.take 45).drop 13 ∧
       ((data.getD 45 1 = 0 ∧ versionIsPrivate (data.take 4) = true ∧ k.keyData = (data.take 78).drop 46 ∧
           0 < beNat k.keyData ∧ beNat k.keyData < N) ∨
        (data.getD 45 1 ≠ 0 ∧ versionIsPrivate (data.take 4) = false ∧ k.keyData = (data.take 78).drop 45 ∧
           ∃ xy, parsePubKey k.keyData = .ok xy))) :=
  Secp.Proofs.Bip32.unmarshal_ok_iff data k

/-- each rejection reports the first rule violated, in the order length, checksum, flag, key -/
theorem unmarshal_len (data : Bytes) (h : data.length ≠ 82) : unmarshal data = .error .ErrInvalidKeyLen :=
  Secp.Proofs.Bip32.unmarshal_len data h

theorem unmarshal_checksum (data : Bytes) (hl : data.length = 82)
    (hc : data.drop 78 ≠ (doubleSha256 (data.take 78)).take 4) : unmarshal data = .error .ErrBadChecksum :=
  Secp.Proofs.Bip32.unmarshal_checksum data hl hc

/-- round trip for private keys this package can produce (32-byte key in range, 32-byte chain code) -/
theorem marshal_unmarshal_priv (k : ExtKey) (hv : versionIsPrivate k.version = true) (hvl : k.version.length = 4)
    (hd : k.depth < 256) (hf : k.fingerprint.length = 4) (hc : k.childNumber < 2^32) (hcc : k.chainCode.length = 32)
    (hkl : k.keyData.length = 32) (hk0 : 0 < beNat k.keyData) (hkN : beNat k.keyData < N) :
    unmarshal k.marshal = .ok k :=
  Secp.Proofs.Bip32.marshal_unmarshal_priv k hv hvl hd hf hc hcc hkl hk0 hkN

/-- the encoding is always 82 bytes for such keys -/
theorem marshal_len_priv (k : ExtKey) (hv : versionIsPrivate k.version = true) (hvl : k.version.length = 4)
    (hf : k.fingerprint.length = 4) (hcc : k.chainCode.length = 32) (hkl : k.keyData.length ≤ 32) :
    k.marshal.length = 82 :=
  Secp.Proofs.Bip32.marshal_len_priv k hv hvl hf hcc hkl


/-- Limb level of this property's own functions: the REGENERATED sliced field programs (tools/gotr pass T2s,
    `Secp.Gen.Slices`) of `UnmarshalBinary`'s public-key validation and the conversions pass the abstract interpreter on every path — no magnitude overflow, every
    comparison / parity test / serialisation reads a normalised value, every callee's precondition holds,
    every returned key or point is normalised.  Together with C05 (kernels) and C16 (`absPath_sound`,
    `contracts_justified`) this is what makes the value-level model above faithful to the limb code. -/
theorem extkey_field_arithmetic_exact :
    Secp.Proofs.Slices.entriesOK ["github.com/ModChain/secp256k1/ecckd.ExtendedKey.UnmarshalBinary", "github.com/ModChain/secp256k1/ecckd.ExtendedKey.ToPublicSecp256k1", "github.com/ModChain/secp256k1/ecckd.ExtendedKey.ToPublicECDSA"] = true := by decide +kernel

/-! ### Regenerated drivers (tools/gotr pass T8)

`Secp.Gen.Drivers` is REGENERATED from /repo on every check run: the Go functions below translated
statement by statement into Lean terms over the value-level primitives.  The theorems say the
regenerated definitions EQUAL the hand-written models the theorems above are about. -/

/-- `ExtendedKey.UnmarshalBinary` (ecckd/extended.go) regenerated = `unmarshal`, for EVERY byte string and whatever the
    receiver held before: the decoded fields on success, the model's error otherwise; never `.panic`, never `.undef` -/
theorem unmarshalBinary_regenerated (k : Bytes × Nat × Bytes × Nat × Bytes × Bytes × Unit) (data : Bytes) :
    Secp.Gen.Drivers.unmarshalBinary k data =
      (match unmarshal data with
       | .ok e => DR.ok (e.version, e.depth, e.fingerprint, e.childNumber, e.keyData, e.chainCode, ())
       | .error err => DR.err err) :=
  Secp.Proofs.DriversBip32.unmarshalBinary_regenerated k data

/-- decoding does not depend on what the receiver held before (C13's "decoding into a used object") -/
theorem unmarshalBinary_receiver_indep (k k' : Bytes × Nat × Bytes × Nat × Bytes × Bytes × Unit) (data : Bytes) :
    Secp.Gen.Drivers.unmarshalBinary k data = Secp.Gen.Drivers.unmarshalBinary k' data :=
  Secp.Proofs.DriversBip32.unmarshalBinary_receiver_indep k k' data

/-- `KeyVersion.IsPrivate` / `ToPublic` regenerated -/
theorem version_regenerated (v : Bytes) :
    Secp.Gen.Drivers.versionIsPrivateGen v = versionIsPrivate v ∧ Secp.Gen.Drivers.versionToPublicGen v = versionToPublic v :=
  ⟨Secp.Proofs.DriversBip32.versionIsPrivate_regenerated v, Secp.Proofs.DriversBip32.versionToPublic_regenerated v⟩


/-- the curve parameters the code reads through `curveParams` / `S256().N` / `Params().N` (regenerated literals, pass T3)
    are the constants of the specification: pass T8 writes `N` / `P` for them on the strength of this theorem -/
theorem curve_params_are_spec :
    Secp.Gen.Consts.curveParams_N = Secp.Spec.N ∧ Secp.Gen.Consts.curveParams_P = Secp.Spec.P ∧
    Secp.Gen.Consts.curveParams_Gx = Secp.Spec.Gx ∧ Secp.Gen.Consts.curveParams_Gy = Secp.Spec.Gy ∧
    Secp.Gen.Consts.curveParams_B = 7 ∧ Secp.Gen.Consts.curveParams_N_neg = false ∧ Secp.Gen.Consts.curveParams_P_neg = false := by
  decide

end Secp.Props.C13
