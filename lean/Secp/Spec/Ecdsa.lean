import Secp.Spec.Curve
import Secp.Spec.Rfc6979
/-
  Spec/Ecdsa — textbook ECDSA (FIPS 186-4 §6.4 / SEC1 §4.1) over secp256k1,
  with low-s normalisation and the public-key recovery of SEC1 §4.1.6.
-/
namespace Secp.Spec

/-- hash → integer mod N: the first 32 bytes, big-endian (shorter hashes are plain integers) -/
def hashToE (h : Bytes) : Nat := beNat (h.take 32) % N

/-- FIPS 186 signature with a given nonce; `none` when r = 0 or s = 0 -/
def ecdsaRaw (d k e : Nat) : Option (Nat × Nat × Pt) :=
  let R := smul k G
  let r := R.x % N
  if r = 0 then none else
  let s := nmul (ninv k) (nadd e (nmul r d))
  if s = 0 then none else some (r, s, R)

/-- recovery code of a nonce point relative to the (r, s) *before* low-s normalisation -/
def recCode (R : Pt) : Nat := (if R.x ≥ N then 2 else 0) + R.y % 2

/-- low-s normalised signature with recovery code -/
def ecdsaSignWithNonce (d k : Nat) (h : Bytes) : Option (Nat × Nat × Nat) :=
  match ecdsaRaw d k (hashToE h) with
  | none => none
  | some (r, s, R) =>
    if s > halfN then some (r, N - s, recCode R ^^^ 1) else some (r, s, recCode R)

/-- RFC 6979 deterministic signing: first nonce index whose signature exists -/
def ecdsaSignAux (H : HmacFn) (d : Nat) (h : Bytes) : Nat → Nat → Option (Nat × Nat × Nat)
  | 0, _ => none
  | fuel+1, iter =>
    match nonceRFC6979 H 64 (be32 d) h [] [] iter with
    | none => none
    | some k =>
      match ecdsaSignWithNonce d k h with
      | some sig => some sig
      | none => ecdsaSignAux H d h fuel (iter + 1)

def ecdsaSign (d : Nat) (h : Bytes) : Option (Nat × Nat × Nat) := ecdsaSignAux hmacSha256 d h 8 0

/-- the same with an explicit bound on the number of RFC 6979 candidates examined per nonce -/
def ecdsaSignAuxGen (H : HmacFn) (cand : Nat) (d : Nat) (h : Bytes) : Nat → Nat → Option (Nat × Nat × Nat)
  | 0, _ => none
  | fuel+1, iter =>
    match nonceRFC6979 H cand (be32 d) h [] [] iter with
    | none => none
    | some k =>
      match ecdsaSignWithNonce d k h with
      | some sig => some sig
      | none => ecdsaSignAuxGen H cand d h fuel (iter + 1)

/-- textbook verification for r, s already known to be scalars in [0, N) -/
def ecdsaVerify (h : Bytes) (Q : Pt) (r s : Nat) : Bool :=
  if r = 0 ∨ s = 0 ∨ r ≥ N ∨ s ≥ N then false else
  let e := hashToE h
  let w := ninv s
  let R := Pt.add (smul (nmul e w) G) (smul (nmul r w) Q)
  match R with
  | none => false
  | some (x, _) => x % N == r

/-- lift an x coordinate to the curve point with the requested parity -/
def liftX (x : Nat) (odd : Bool) : Pt :=
  if x ≥ P then none else
  match fsqrt (fadd (fmul (fsq x) x) 7) with
  | none => none
  | some y => if (y % 2 == 1) == odd then some (x, y) else some (x, fneg y)

/-- textbook recovery: `none` when it fails -/
def ecdsaRecover (h : Bytes) (r s v : Nat) : Option (Nat × Nat) :=
  let x := if v / 2 % 2 = 1 then r + N else r
  if x ≥ P then none else
  match liftX x (v % 2 == 1) with
  | none => none
  | some Rxy =>
    let e := hashToE h
    let w := ninv r
    -- Q = r⁻¹ (s R − e G)
    Pt.add (smul (nneg (nmul e w)) G) (smul (nmul s w) (some Rxy))

end Secp.Spec
