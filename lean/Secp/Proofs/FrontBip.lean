import Secp.Gen.Drivers
import Secp.Model.Bip32
import Secp.Proofs.DriversChild
import Secp.Proofs.DriversAdaptor
import Secp.Proofs.DriversBip32
/-
  Proofs/DriversFront — the thin exported front ends regenerated in Gen/Drivers.lean
  (signGen, generatePrivateKeyFromRand, ecdhMethod, exportGen, childGen, fromSeedGen, publicGen)
  equal the functions they forward to / the hand-written models of Model/Ecdsa.lean and Model/Bip32.lean.
-/
namespace Secp.Proofs.FrontBip
open Secp.Spec Secp.Model

local notation "tup" => Secp.Proofs.DriversChild.tup

/-! ### Sign, GeneratePrivateKeyFromRand, PrivateKey.ECDH : pure forwarding -/

/-! ### Signature.Export -/

/-! ### ExtendedKey.Child -/

theorem child_front (O : Oracles) (k : Bytes × Nat × Bytes × Nat × Bytes × Bytes × Unit) (i : Nat) :
    Secp.Gen.Drivers.childGen O k i =
      (match Secp.Gen.Drivers.childWithILGen O k i with
       | .ok (_, ek) => DR.ok ek | .err e => DR.err e | .panic => DR.panic | .fuel => DR.fuel
       | .undef => DR.undef) := by
  unfold Secp.Gen.Drivers.childGen
  cases Secp.Gen.Drivers.childWithILGen O k i <;> rfl

/-! ### FromSeed -/

theorem fromSeed_regenerated (O : Oracles) (seed ms : Bytes) :
    Secp.Gen.Drivers.fromSeedGen O seed ms =
      (match fromSeed O seed ms with | .ok e => DR.ok (tup e) | .error err => DR.err err) := by
  unfold Secp.Gen.Drivers.fromSeedGen fromSeed
  obtain ⟨key, cc, ok, hr⟩ : ∃ key cc ok, hmacCKD O seed ms = (key, cc, ok) := ⟨_, _, _, rfl⟩
  simp only [hr]
  cases ok <;> rfl

/-! ### ExtendedKey.Public -/

theorem public_regenerated (e : ExtKey) :
    Secp.Gen.Drivers.publicGen (tup e) = DR.ok (tup e.neuter) := by
  unfold Secp.Gen.Drivers.publicGen ExtKey.neuter
  rw [Secp.Proofs.DriversChild.pubKeyBytes_regenerated
    Secp.Proofs.DriversAdaptor.scalarBaseMult_regenerated]
  simp only [Secp.Proofs.DriversChild.tup, ExtKey.isPrivate]
  rcases Bool.eq_false_or_eq_true (versionIsPrivate e.version) with h | h <;> simp [h]


/-- `FromBitcoinSeed` = `FromSeed` with the salt "Bitcoin seed" -/
theorem fromBitcoinSeed_front (O : Oracles) (seed : Bytes) :
    Secp.Gen.Drivers.fromBitcoinSeedGen O seed =
      Secp.Gen.Drivers.fromSeedGen O seed [0x42, 0x69, 0x74, 0x63, 0x6f, 0x69, 0x6e, 0x20, 0x73, 0x65, 0x65, 0x64] := rfl

end Secp.Proofs.FrontBip

