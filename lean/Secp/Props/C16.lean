import Secp.Gen.Formulas
/-
  Props/C16 — no input makes point or signature arithmetic wrap or compare denormalised.

  `Secp.Gen.Formulas` is REGENERATED from /repo (curve.go, field.go) on every check run: every
  execution path of every point routine as a list of FieldVal operations and predicate tests
  (tools/gotr pass T2, all calls inlined, aliasing expressed by shared registers).  `absPath`
  (Core/FOp.lean) interprets a path over (magnitude bound, normalised?) and fails as soon as
    • NegateVal's magnitude argument is below the operand's magnitude or above 63,
    • an Add/Add2/AddInt/MulInt result would exceed magnitude 63 (uint32 limb capacity with slack),
    • a Mul2/SquareVal operand exceeds magnitude 8,
    • Equals/IsZero/IsOne/IsOdd is applied to a value not known to be normalised,
    • a register is used before it is written.
  Each theorem below says: from the routine's input contract (operands normalised), ALL paths pass
  and the result registers end normalised.  They are closed by `decide` on the regenerated data, so
  an edit such as Negate(16)→Negate(15) or a dropped Normalize() makes this file fail to build.
-/
namespace Secp.Props.C16
open Secp.FOp Secp.Gen.Formulas

/-- a normalised operand -/
def nrm : Option AV := some (1, true)
def normalisedInputs (n : Nat) : AState := List.replicate n nrm

set_option maxRecDepth 1000000

theorem addZ1AndZ2EqualsOne_ok : addZ1AndZ2EqualsOne.absOK (normalisedInputs 9) [6, 7, 8] = true := by decide +kernel
theorem addZ1EqualsZ2_ok : addZ1EqualsZ2.absOK (normalisedInputs 9) [6, 7, 8] = true := by decide +kernel
theorem addZ2EqualsOne_ok : addZ2EqualsOne.absOK (normalisedInputs 9) [6, 7, 8] = true := by decide +kernel
theorem addGeneric_ok : addGeneric.absOK (normalisedInputs 9) [6, 7, 8] = true := by decide +kernel
theorem doubleZ1EqualsOne_ok : doubleZ1EqualsOne.absOK (normalisedInputs 6) [3, 4, 5] = true := by decide +kernel
theorem doubleGeneric_ok : doubleGeneric.absOK (normalisedInputs 6) [3, 4, 5] = true := by decide +kernel
/-- AddNonConst with distinct objects, with result ≡ p1, and with result ≡ p2 -/
theorem AddNonConst_ok : AddNonConst.absOK (normalisedInputs 9) [6, 7, 8] = true := by decide +kernel
theorem AddNonConst_r1_ok : AddNonConst_r1.absOK (normalisedInputs 6) [0, 1, 2] = true := by decide +kernel
theorem AddNonConst_r2_ok : AddNonConst_r2.absOK (normalisedInputs 6) [3, 4, 5] = true := by decide +kernel
theorem DoubleNonConst_ok : DoubleNonConst.absOK (normalisedInputs 6) [3, 4, 5] = true := by decide +kernel
theorem DoubleNonConst_r1_ok : DoubleNonConst_r1.absOK (normalisedInputs 3) [0, 1, 2] = true := by decide +kernel
/-- ToAffine (with the 258-squaring inversion chain inlined): X, Y, Z end normalised -/
theorem ToAffine_ok : ToAffine.absOK (normalisedInputs 3) [0, 1, 2] = true := by decide +kernel
theorem isOnCurve_ok : isOnCurve.absOK (normalisedInputs 2) [] = true := by decide +kernel
/-- DecompressY accepts an x of magnitude up to 8 (its documented contract) -/
theorem DecompressY_ok : DecompressY.absOK [some (8, false), none] [] = true := by decide +kernel
theorem Inverse_ok : Inverse.absOK [some (8, false)] [] = true := by decide +kernel
theorem SquareRootVal_ok : SquareRootVal.absOK [none, some (8, false)] [] = true := by decide +kernel

/-- the checker is not vacuous: it rejects the doubling formula with Negate(15) in place of Negate(16) -/
example : absPath [.op (.mulInt 0 8), .op (.mulInt 0 2), .op (.neg 0 0 15)] [nrm] = none := by decide
example : absPath [.op (.mulInt 0 8), .op (.mulInt 0 2), .op (.neg 0 0 16)] [nrm] = some [some (17, false)] := by decide
/-- … and a comparison of a denormalised value -/
example : absPath [.op (.add 0 1), .assume (.equals 0 1) true] [nrm, nrm] = none := by decide

end Secp.Props.C16
