/-
  Proofs/PointOpsR2Base — the run relation for the third aliasing pattern of the add routines,
  result ≡ p2 (`AddNonConst(&q, &p, &p)`): the answer of the call on registers 0..5.
-/
import Secp.Proofs.PointOpsDbl

namespace Secp.Proofs.PointOps
open Secp.Spec Secp.Model Secp.FOp Secp.Proofs

/-- entry `i` run as `(&q, &p, &p)` with call-depth budget `f` returns `r` in `p`'s registers
    and leaves `q` unchanged -/
def RunR2 (f i : Nat) (q p r : Jac) : Prop :=
  callE f i [q.1, q.2.1, q.2.2, p.1, p.2.1, p.2.2] = some [q.1, q.2.1, q.2.2, r.1, r.2.1, r.2.2]

theorem idx_AddNonConst_a011 : entryIdx "AddNonConst_a011" = 2 := by decide +kernel

end Secp.Proofs.PointOps
