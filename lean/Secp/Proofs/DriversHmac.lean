import Secp.Gen.Drivers
import Secp.Model.Nonce
/-
  Proofs/DriversHmac — the regenerated methods of the Go type `hmacsha256` (nonce.go) equal the
  hand-written model `Secp.Model.HmacObj.*`.
-/
namespace Secp.Proofs.DriversHmac
open Secp.Spec Secp.Model

/-! ### auxiliary facts -/

/-- the in-place XOR on naturals of the generated code is the byte XOR -/
theorem xor54 (x : UInt8) : UInt8.ofNat (x.toNat ^^^ 54) = x ^^^ 0x36 := by
  apply UInt8.toNat_inj.mp
  have hx : x.toNat < 256 := x.toNat_lt
  have h54 : (54 : UInt8).toNat = 54 := by decide
  have hlt : x.toNat ^^^ 54 < 2 ^ 8 := Nat.xor_lt_two_pow hx (by decide)
  rw [UInt8.toNat_xor, h54, UInt8.toNat_ofNat']
  exact Nat.mod_eq_of_lt hlt

theorem xor92 (x : UInt8) : UInt8.ofNat (x.toNat ^^^ 92) = x ^^^ 0x5c := by
  apply UInt8.toNat_inj.mp
  have hx : x.toNat < 256 := x.toNat_lt
  have h92 : (92 : UInt8).toNat = 92 := by decide
  have hlt : x.toNat ^^^ 92 < 2 ^ 8 := Nat.xor_lt_two_pow hx (by decide)
  rw [UInt8.toNat_xor, h92, UInt8.toNat_ofNat']
  exact Nat.mod_eq_of_lt hlt

/-- the in-place loop on a byte list -/
def loopSet (f : UInt8 → UInt8) (n : Nat) (l : Bytes) : Bytes :=
  (List.range n).foldl (fun (l : Bytes) i => l.set i (f (l.getD i 0))) l

theorem getD_mid (f : UInt8 → UInt8) (l : Bytes) (n : Nat) (hn : n < l.length) :
    ((l.take n).map f ++ l.drop n).getD n 0 = l[n] := by
  have e1 : min n l.length = n := by omega
  rw [List.getD_eq_getElem?_getD, List.getElem?_append_right (by simp [e1])]
  simp [e1, hn]

/-- state of the in-place loop after `n` iterations -/
theorem fold_set_prefix (f : UInt8 → UInt8) (l : Bytes) (n : Nat) :
    (List.range n).foldl (fun (l : Bytes) i => l.set i (f (l.getD i 0))) l
      = (l.take n).map f ++ l.drop n := by
  induction n with
  | zero => simp
  | succ n ih =>
    rw [List.range_succ, List.foldl_append, ih]
    simp only [List.foldl_cons, List.foldl_nil]
    by_cases hn : n < l.length
    · rw [getD_mid f l n hn]
      apply List.ext_getElem
      · simp; omega
      · intro i h1 h2
        simp only [List.getElem_set, List.getElem_append, List.length_map, List.length_take,
          List.getElem_map, List.getElem_take, List.getElem_drop]
        have e1 : min n l.length = n := by omega
        have e2 : min (n + 1) l.length = n + 1 := by omega
        simp only [e1, e2]
        by_cases hi : n = i
        · subst hi
          simp
        · by_cases hlt : i < n
          · have : i < n + 1 := by omega
            simp [hi, hlt, this]
          · have h3 : ¬ i < n + 1 := by omega
            simp only [hi, hlt, h3, if_false, dite_false]
            congr 1; omega
    · have hn' : l.length ≤ n := by omega
      rw [List.take_of_length_le hn', List.drop_of_length_le hn',
        List.take_of_length_le (by omega : l.length ≤ n + 1),
        List.drop_of_length_le (by omega : l.length ≤ n + 1)]
      simp only [List.append_nil]
      rw [List.set_eq_of_length_le (by simpa using hn')]

/-- for a list no longer than `n` the loop is `map` -/
theorem fold_set_map (f : UInt8 → UInt8) (l : Bytes) (n : Nat) (h : l.length ≤ n) :
    loopSet f n l = l.map f := by
  unfold loopSet
  rw [fold_set_prefix, List.take_of_length_le h, List.drop_of_length_le h, List.append_nil]

/-- the loop over the `ipad` field of the object -/
theorem fold_ipad (f : UInt8 → UInt8) (h : HmacObj) (n : Nat) :
    (List.range n).foldl (fun (h : HmacObj) i =>
        { h with ipad := h.ipad.set i (f (h.ipad.getD i 0)) }) h
      = { h with ipad := loopSet f n h.ipad } := by
  induction n with
  | zero => simp [loopSet]
  | succ n ih => simp only [loopSet] at ih ⊢; rw [List.range_succ, List.foldl_append, List.foldl_append, ih]; rfl

theorem fold_opad (f : UInt8 → UInt8) (h : HmacObj) (n : Nat) :
    (List.range n).foldl (fun (h : HmacObj) i =>
        { h with opad := h.opad.set i (f (h.opad.getD i 0)) }) h
      = { h with opad := loopSet f n h.opad } := by
  induction n with
  | zero => simp [loopSet]
  | succ n ih => simp only [loopSet] at ih ⊢; rw [List.range_succ, List.foldl_append, List.foldl_append, ih]; rfl

theorem fold_ipad54 (h : HmacObj) (n : Nat) :
    (List.range n).foldl (fun (h : HmacObj) i =>
        { h with ipad := h.ipad.set i (UInt8.ofNat ((h.ipad.getD i 0).toNat ^^^ 54)) }) h
      = { h with ipad := loopSet (· ^^^ 0x36) n h.ipad } := by
  simp only [xor54]; exact fold_ipad (· ^^^ 0x36) h n

theorem fold_opad92 (h : HmacObj) (n : Nat) :
    (List.range n).foldl (fun (h : HmacObj) i =>
        { h with opad := h.opad.set i (UInt8.ofNat ((h.opad.getD i 0).toNat ^^^ 92)) }) h
      = { h with opad := loopSet (· ^^^ 0x5c) n h.opad } := by
  simp only [xor92]; exact fold_opad (· ^^^ 0x5c) h n

/-- Go `copy(dst, src)` as generated is `copyInto` -/
theorem copy_gen (dst src : Bytes) :
    dst.take 0 ++ src.take (min dst.length src.length) ++ dst.drop (0 + min dst.length src.length)
      = copyInto dst src := by
  unfold copyInto
  simp only [List.take_zero, List.nil_append, Nat.zero_add]
  rw [Nat.min_comm src.length dst.length]
  congr 1
  by_cases h : dst.length ≤ src.length
  · rw [Nat.min_eq_left h]
  · have h' : src.length ≤ dst.length := by omega
    rw [Nat.min_eq_right h', List.take_of_length_le (Nat.le_refl _), List.take_of_length_le h']

theorem copyInto_length (dst src : Bytes) : (copyInto dst src).length = dst.length := by
  unfold copyInto
  simp only [List.length_append, List.length_take, List.length_drop]
  omega

theorem copyInto_zeros64 (dst : Bytes) (h : dst.length = 64) :
    copyInto dst Secp.Gen.Drivers.pv_zeroInitializer = zeros 64 := by
  unfold copyInto Secp.Gen.Drivers.pv_zeroInitializer zeros
  rw [h]
  simp only [List.length_replicate, Nat.min_self]
  rw [List.drop_of_length_le (by omega), List.append_nil, List.take_of_length_le (by simp)]

/-! ### the methods -/

theorem hmacWrite_regenerated (h : HmacObj) (p : Bytes) :
    Secp.Gen.Drivers.hmacWrite h p = h.write p := rfl

theorem hmacReset_regenerated (h : HmacObj) : Secp.Gen.Drivers.hmacReset h = h.reset := by
  unfold Secp.Gen.Drivers.hmacReset HmacObj.reset
  simp

theorem hmacSum_regenerated (h : HmacObj) : Secp.Gen.Drivers.hmacSum h = h.sum := by
  unfold Secp.Gen.Drivers.hmacSum HmacObj.sum
  simp

/-- the general form: pads of AT MOST 64 bytes (the in-place loops run over indices 0..63, a
    `set` beyond the end of a shorter pad is a no-op; for a pad longer than 64 bytes the
    generated code leaves the tail un-XORed while the model maps over the whole pad) -/
theorem hmacInitKey_regenerated_le (h : HmacObj) (key : Bytes)
    (hi : h.ipad.length ≤ 64) (ho : h.opad.length ≤ 64) :
    Secp.Gen.Drivers.hmacInitKey h key = h.initKey key := by
  unfold Secp.Gen.Drivers.hmacInitKey HmacObj.initKey
  by_cases hk : key.length > 64
  · simp only [hk, decide_true, if_true, copy_gen, fold_ipad54, fold_opad92]
    rw [fold_set_map _ _ _ (by rw [copyInto_length]; exact hi),
      fold_set_map _ _ _ (by rw [copyInto_length]; exact ho)]
  · simp only [hk, decide_false, if_false, Bool.false_eq_true, copy_gen, fold_ipad54, fold_opad92]
    rw [fold_set_map _ _ _ (by rw [copyInto_length]; exact hi),
      fold_set_map _ _ _ (by rw [copyInto_length]; exact ho)]

theorem hmacInitKey_regenerated (h : HmacObj) (key : Bytes)
    (hi : h.ipad.length = 64) (ho : h.opad.length = 64) :
    Secp.Gen.Drivers.hmacInitKey h key = h.initKey key :=
  hmacInitKey_regenerated_le h key (Nat.le_of_eq hi) (Nat.le_of_eq ho)

theorem hmacResetKey_regenerated (h : HmacObj) (key : Bytes)
    (hi : h.ipad.length = 64) (ho : h.opad.length = 64) :
    Secp.Gen.Drivers.hmacResetKey h key = HmacObj.resetKey h key := by
  unfold Secp.Gen.Drivers.hmacResetKey HmacObj.resetKey
  simp only [copy_gen, copyInto_zeros64 _ hi, copyInto_zeros64 _ ho]
  exact hmacInitKey_regenerated_le _ key (by simp [zeros]) (by simp [zeros])

theorem hmacNew_regenerated (key : Bytes) : Secp.Gen.Drivers.hmacNewGen key = hmacNew key := by
  unfold Secp.Gen.Drivers.hmacNewGen hmacNew
  exact hmacInitKey_regenerated_le _ key (by simp) (by simp)

/-! ### the 64-byte pad invariant -/

theorem pads_initKey (h : HmacObj) (key : Bytes) :
    (h.initKey key).ipad.length = h.ipad.length ∧ (h.initKey key).opad.length = h.opad.length := by
  unfold HmacObj.initKey
  by_cases hk : key.length > 64 <;> simp [hk, copyInto_length]

theorem pads_hmacNew (key : Bytes) :
    (hmacNew key).ipad.length = 64 ∧ (hmacNew key).opad.length = 64 := by
  unfold hmacNew
  have := pads_initKey { inner := [], outer := [], ipad := zeros 64, opad := zeros 64 } key
  simpa [zeros] using this

theorem pads_write (h : HmacObj) (p : Bytes)
    (hp : h.ipad.length = 64 ∧ h.opad.length = 64) :
    (h.write p).ipad.length = 64 ∧ (h.write p).opad.length = 64 := hp

theorem pads_reset (h : HmacObj) (hp : h.ipad.length = 64 ∧ h.opad.length = 64) :
    h.reset.ipad.length = 64 ∧ h.reset.opad.length = 64 := hp

/-- `ResetKey` re-establishes the invariant whatever the object was -/
theorem pads_resetKey (h : HmacObj) (key : Bytes) :
    (h.resetKey key).ipad.length = 64 ∧ (h.resetKey key).opad.length = 64 :=
  pads_hmacNew key

theorem pads_sum (h : HmacObj) (hp : h.ipad.length = 64 ∧ h.opad.length = 64) :
    h.sum.2.ipad.length = 64 ∧ h.sum.2.opad.length = 64 := hp

/-- the same on the generated side, for callers chaining generated methods -/
theorem pads_initKey_gen (h : HmacObj) (key : Bytes)
    (hp : h.ipad.length = 64 ∧ h.opad.length = 64) :
    (Secp.Gen.Drivers.hmacInitKey h key).ipad.length = 64
      ∧ (Secp.Gen.Drivers.hmacInitKey h key).opad.length = 64 := by
  rw [hmacInitKey_regenerated h key hp.1 hp.2]
  have := pads_initKey h key
  rw [this.1, this.2]; exact hp

/-! ### the hypotheses are sharp -/

set_option maxRecDepth 100000 in
/-- a 65-byte pad: the generated loops XOR only bytes 0..63, the model maps over all 65 -/
example : (Secp.Gen.Drivers.hmacInitKey
      { inner := [], outer := [], ipad := zeros 65, opad := zeros 64 } []).ipad
    ≠ (HmacObj.initKey { inner := [], outer := [], ipad := zeros 65, opad := zeros 64 } []).ipad := by
  decide

set_option maxRecDepth 100000 in
/-- `ResetKey` on an object with an empty ipad: generated keeps it empty, the model has 64 bytes -/
example : (Secp.Gen.Drivers.hmacResetKey
      { inner := [], outer := [], ipad := [], opad := zeros 64 } []).ipad
    ≠ (HmacObj.resetKey { inner := [], outer := [], ipad := [], opad := zeros 64 } []).ipad := by
  decide

#print axioms hmacWrite_regenerated
#print axioms hmacReset_regenerated
#print axioms hmacSum_regenerated
#print axioms hmacInitKey_regenerated_le
#print axioms hmacInitKey_regenerated
#print axioms hmacResetKey_regenerated
#print axioms hmacNew_regenerated
#print axioms pads_initKey
#print axioms pads_hmacNew
#print axioms pads_write
#print axioms pads_reset
#print axioms pads_resetKey
#print axioms pads_sum
#print axioms pads_initKey_gen

end Secp.Proofs.DriversHmac
