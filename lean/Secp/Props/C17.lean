import Secp.Gen.Shared
/-
  Props/C17 — all operations are safe and deterministic under concurrent use  (PARTIAL: see below).

  `Secp.Gen.Shared` is REGENERATED from /repo (all three packages) on every check run by tools/gotr
  pass T6: the inventory of shared roots (package-level variables and state captured by
  package-level function values — the base-point table lives in such a closure), every store whose
  target is rooted in one of them, every call that hands such memory to a parameter the callee may
  write through (write summaries are closed over calls; locals that alias parameters or shared
  memory are resolved flow-insensitively), and the construct guarding each of these writes.  A
  pointer-receiver method of ANOTHER package called on shared memory (e.g. atomic.Pointer.Store)
  counts as a write unless it is a known synchronisation primitive or read-only accessor; and every
  READ of a root that is written under sync.Once is listed with guard `.once` only when it is
  ordered after an unconditional `Once.Do` statement of the same body (the accessor shape
  `Do(init); return data` which the interleaving model's `onceDo` event stands for) — a lock-free
  fast path that reads the pointer before `Do` is a fact with guard `.none`.

  Partial because: the interleaving model below is sequentially consistent (the Go memory model,
  the runtime and sync.Once's implementation are trusted), T6's may-alias approximation ignores
  interfaces, function values and unsafe, and plain function calls into other packages are assumed not to write
  through their arguments.  A `-race` run of the real code from a fresh process supports it.
-/
namespace Secp.Props.C17
open Secp.Conc Secp.Gen.Shared

/-- every write into shared memory found in the source happens during package initialisation or
    inside the function passed to sync.Once.Do, and every read of once-initialised memory is ordered
    after the Once.Do call -/
theorem read_only_after_init : readOnlyAfterInit facts = true := by decide

/-- one step preserves the once-invariant -/
theorem step_inv (v : Nat) (s : St) (tid : Nat) (e : Ev) (he : e = .onceDo v ∨ e = .read)
    (hdo : e = .read → s.data ≠ none) (h : Inv v s) : Inv v (stepEv s tid e) := by
  unfold Secp.Conc.Inv at h ⊢
  rcases he with rfl | rfl
  · rcases h with ⟨hd, hi, ho⟩ | ⟨hd, hi, ho⟩
    · right
      simp [stepEv, hd, hi, ho]
    · right
      refine ⟨?_, ?_, ?_⟩
      · simp [stepEv, hd]
      · simp [stepEv, hd, hi]
      · intro o ho'
        simp only [stepEv, hd, List.mem_cons] at ho'
        rcases ho' with rfl | h'
        · rfl
        · exact ho o h'
  · rcases h with ⟨hd, _, _⟩ | ⟨hd, hi, ho⟩
    · exact absurd hd (hdo rfl)
    · right
      refine ⟨?_, ?_, ?_⟩
      · simp [stepEv, hd]
      · simp [stepEv, hi]
      · intro o ho'
        simp only [stepEv, List.mem_cons] at ho'
        rcases ho' with rfl | h'
        · exact hd
        · exact ho o h'

/-- threads in which every `read` comes after an `onceDo` of the same thread: the accessor pattern
    (`loadBytePointsOnce.Do(load); return data`) -/
def Accessor (v : Nat) : List Ev → Prop
  | [] => True
  | e :: rest => e = .onceDo v ∧ ∀ e' ∈ rest, e' = .onceDo v ∨ e' = .read

/-- For EVERY schedule of any number of accessor threads: the initialiser body runs at most once,
    and every value any thread ever observes is the fully initialised one — never nil, never a
    second table.  (Induction over the schedule; the strengthened invariant also records that a
    thread that has not yet executed its `onceDo` has it first in its remaining events.) -/
theorem once_init (v : Nat) (sched : List Nat) (threads : List (List Ev)) (s : St)
    (hinv : Inv v s)
    (hth : ∀ th ∈ threads, (Accessor v th) ∨ (s.data ≠ none ∧ ∀ e ∈ th, e = .onceDo v ∨ e = .read)) :
    Inv v (run sched threads s) := by
  induction sched generalizing threads s with
  | nil => simpa [run] using hinv
  | cons t sched ih =>
    simp only [run]
    cases hget : threads[t]? with
    | none => exact ih threads s hinv hth
    | some th =>
      cases th with
      | nil => exact ih threads s hinv hth
      | cons e rest =>
        have hmem : (e :: rest) ∈ threads := List.mem_of_getElem? hget
        have hcase := hth _ hmem
        -- the event about to run is admissible
        have he : e = .onceDo v ∨ e = .read := by
          rcases hcase with hacc | ⟨_, hall⟩
          · exact Or.inl hacc.1
          · exact hall e (List.mem_cons_self ..)
        have hdo : e = .read → s.data ≠ none := by
          intro hr
          rcases hcase with hacc | ⟨hne, _⟩
          · have := hacc.1; rw [hr] at this; cases this
          · exact hne
        have hinv' := step_inv v s t e he hdo hinv
        apply ih _ _ hinv'
        intro th' hth'
        -- after the step data is initialised, so every thread's remaining events are fine
        have hdata : (stepEv s t e).data ≠ none := by
          rcases he with rfl | rfl
          · cases hd : s.data <;> simp [stepEv, hd]
          · simpa [stepEv] using hdo rfl
        right
        refine ⟨hdata, ?_⟩
        intro e' he'
        rcases List.mem_or_eq_of_mem_set hth' with hold | hnew
        · rcases hth th' hold with hacc | ⟨_, hall⟩
          · cases th' with
            | nil => cases he'
            | cons a r =>
              simp only [List.mem_cons] at he'
              rcases he' with rfl | hr
              · exact Or.inl hacc.1
              · exact hacc.2 e' hr
          · exact hall e' he'
        · subst hnew
          rcases hcase with hacc | ⟨_, hall⟩
          · exact hacc.2 e' he'
          · exact hall e' (List.mem_cons_of_mem _ he')

/-- corollary for a fresh process: from the initial state, whatever the schedule, at most one
    initialisation happens and all observations agree -/
theorem once_init_fresh (v : Nat) (sched : List Nat) (threads : List (List Ev))
    (hth : ∀ th ∈ threads, Accessor v th) :
    let s := run sched threads St.init
    s.inits ≤ 1 ∧ ∀ o ∈ s.obs, o.2 = some v := by
  have h := once_init v sched threads St.init (Or.inl ⟨rfl, rfl, rfl⟩) (fun th h => Or.inl (hth th h))
  rcases h with ⟨_, hi, ho⟩ | ⟨_, hi, ho⟩
  · exact ⟨by omega, by simp [ho]⟩
  · exact ⟨by omega, ho⟩

/-- the model is not vacuous: with an unsynchronised nil-check in place of sync.Once, a 2-thread
    schedule runs the initialiser twice -/
example : (run [0, 1, 0, 1] [[.unsyncInit 7, .unsyncInit 7], [.unsyncInit 7, .unsyncInit 7]] St.init).inits = 2 := by decide

example : Accessor 7 [.onceDo 7, .read, .read] := by simp [Accessor]

end Secp.Props.C17
