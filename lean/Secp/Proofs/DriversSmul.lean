import Secp.Gen.Drivers
import Secp.Proofs.ScalarMultSpec
/-
  Proofs/DriversSmul — `splitK` and `ScalarMultNonConst` regenerated from the Go source
  (`Secp/Gen/Drivers.lean`, pass T8) equal the hand-written models of `Model/ScalarMult`.

  Both `scalarMultNC` and the generated `scalarMultNonConst` destructure `if k1 > halfN …` with a
  `match`; asking the kernel to compare either function applied to arguments with its unfolded body
  makes it evaluate the discriminant on open terms (Nat.ble / Nat.mod on 256-bit literals) and it
  does not come back.  So both are unfolded through a closed δ-equation (`delta%`), and
  `splitK k`, `halfN`, `endoBeta`, `nafGen`, `naf` and `be32` are abstracted to variables BEFORE
  any match is reduced (same method as `ScalarMultSpec.scalarMultNC_eq`, which is reused for the
  model side).  The loop itself is compared on abstract points and digit strings (`genLoop_eq`).
-/
namespace Secp.Proofs.DriversSmul
open Secp.Spec Secp.Model

/-! ### helpers -/

private theorem beBytes_length' (len n : Nat) : (beBytes len n).length = len := by
  induction len generalizing n with
  | zero => rfl
  | succ k ih => simp [beBytes, ih]

private theorem be32_length' (v : Nat) : (be32 v).length = 32 := beBytes_length' 32 v

/-- the bit test on the byte and on its value agree -/
private theorem bit_iff (a m : UInt8) :
    (a.toNat &&& m.toNat == m.toNat) = (a &&& m == m) := by
  rw [Bool.eq_iff_iff, beq_iff_eq, beq_iff_eq, ← UInt8.toNat_inj, UInt8.toNat_and]

private theorem fneg_mod (y : Nat) : fneg y % P = fneg y := by
  unfold fneg; exact Nat.mod_mod _ _

private theorem fmul_mod (x y : Nat) : fmul x y % P = fmul x y := by
  unfold fmul; exact Nat.mod_mod _ _

/-- the generated inner loop over the eight masks is `smByte` -/
private theorem inner_eq (q t1 t2 t3 t4 : Jac) (a b c d : UInt8) :
    [128, 64, 32, 16, 8, 4, 2, 1].foldl (fun (q : Jac) (mask : Nat) =>
        let q := dblNC q
        let q :=
            if ((a.toNat &&& mask) == mask) then (
                let q := addNC q t1
                q
              ) else (
                let q :=
                    if ((b.toNat &&& mask) == mask) then (
                        let q := addNC q t2
                        q
                      ) else (
                        q
                      )
                q
              )
        let q :=
            if ((c.toNat &&& mask) == mask) then (
                let q := addNC q t3
                q
              ) else (
                let q :=
                    if ((d.toNat &&& mask) == mask) then (
                        let q := addNC q t4
                        q
                      ) else (
                        q
                      )
                q
              )
        q) q
      = smByte q t1 t2 t3 t4 a b c d := by
  have h128 : ∀ x : UInt8, (x.toNat &&& 128 == 128) = (x &&& 0x80 == 0x80) := fun x => bit_iff x 0x80
  have h64 : ∀ x : UInt8, (x.toNat &&& 64 == 64) = (x &&& 0x40 == 0x40) := fun x => bit_iff x 0x40
  have h32 : ∀ x : UInt8, (x.toNat &&& 32 == 32) = (x &&& 0x20 == 0x20) := fun x => bit_iff x 0x20
  have h16 : ∀ x : UInt8, (x.toNat &&& 16 == 16) = (x &&& 0x10 == 0x10) := fun x => bit_iff x 0x10
  have h8 : ∀ x : UInt8, (x.toNat &&& 8 == 8) = (x &&& 0x08 == 0x08) := fun x => bit_iff x 0x08
  have h4 : ∀ x : UInt8, (x.toNat &&& 4 == 4) = (x &&& 0x04 == 0x04) := fun x => bit_iff x 0x04
  have h2 : ∀ x : UInt8, (x.toNat &&& 2 == 2) = (x &&& 0x02 == 0x02) := fun x => bit_iff x 0x02
  have h1 : ∀ x : UInt8, (x.toNat &&& 1 == 1) = (x &&& 0x01 == 0x01) := fun x => bit_iff x 0x01
  unfold smByte smBit
  simp only [List.foldl_cons, List.foldl_nil, h128, h64, h32, h16, h8, h4, h2, h1]

/-! ### splitK -/

theorem splitKGen_regenerated (k : Nat) : Secp.Gen.Drivers.splitKGen k = splitK k := rfl

/-! ### ScalarMultNonConst -/

open Secp.Proofs.ScalarMultLoop (smLoop)

/-- the tail of the generated function (from the two lengths to the end of the loop) on given
    points and digit strings -/
def genLoop (t1 t2 t3 t4 : Jac) (k1PosNAF k1NegNAF k2PosNAF k2NegNAF : Bytes) : Jac :=
  let rhs13 := k1PosNAF.length
  let rhs14 := k2PosNAF.length
  let k1Len := rhs13
  let k2Len := rhs14
  let q := ((0, 0, 0) : Jac)
  let m := k1Len
  let m :=
      if decide (m < k2Len) then (
          let m := k2Len
          m
        ) else (
          m
        )
  let q := (List.range (m)).foldl (fun q i =>
        let k1BytePos := 0
        let k1ByteNeg := 0
        let k2BytePos := 0
        let k2ByteNeg := 0
        let (k1ByteNeg, k1BytePos) :=
            if decide (i ≥ (m - k1Len)) then (
                let rhs15 := (k1PosNAF.getD (i - (m - k1Len)) 0).toNat
                let rhs16 := (k1NegNAF.getD (i - (m - k1Len)) 0).toNat
                let k1BytePos := rhs15
                let k1ByteNeg := rhs16
                (k1ByteNeg, k1BytePos)
              ) else (
                (k1ByteNeg, k1BytePos)
              )
        let (k2ByteNeg, k2BytePos) :=
            if decide (i ≥ (m - k2Len)) then (
                let rhs17 := (k2PosNAF.getD (i - (m - k2Len)) 0).toNat
                let rhs18 := (k2NegNAF.getD (i - (m - k2Len)) 0).toNat
                let k2BytePos := rhs17
                let k2ByteNeg := rhs18
                (k2ByteNeg, k2BytePos)
              ) else (
                (k2ByteNeg, k2BytePos)
              )
        let q := [128, 64, 32, 16, 8, 4, 2, 1].foldl (fun q mask =>
              let q := dblNC q
              let q :=
                  if ((k1BytePos &&& mask) == mask) then (
                      let q := addNC q t1
                      q
                    ) else (
                      let q :=
                          if ((k1ByteNeg &&& mask) == mask) then (
                              let q := addNC q t2
                              q
                            ) else (
                              q
                            )
                      q
                    )
              let q :=
                  if ((k2BytePos &&& mask) == mask) then (
                      let q := addNC q t3
                      q
                    ) else (
                      let q :=
                          if ((k2ByteNeg &&& mask) == mask) then (
                              let q := addNC q t4
                              q
                            ) else (
                              q
                            )
                      q
                    )
              q
            ) q
        q
      ) q
  q

theorem max_eq (a b : Nat) : (if decide (a < b) then b else a) = max a b := by
  by_cases h : a < b
  · simp only [h, decide_true, if_true]; omega
  · simp only [h, decide_false, Bool.false_eq_true, if_false]; omega

theorem genLoop_eq (t1 t2 t3 t4 : Jac) (k1p k1n k2p k2n : Bytes) :
    genLoop t1 t2 t3 t4 k1p k1n k2p k2n = smLoop t1 t2 t3 t4 k1p k1n k2p k2n := by
  unfold genLoop smLoop
  simp only [max_eq]
  congr 1
  funext q i
  have z : (0 : Nat) = (0 : UInt8).toNat := rfl
  by_cases h1 : i ≥ max k1p.length k2p.length - k1p.length <;>
    by_cases h2 : i ≥ max k1p.length k2p.length - k2p.length <;>
    simp only [h1, h2, decide_true, decide_false, Bool.false_eq_true, if_true, if_false] <;>
    (try rw [z]) <;> exact inner_eq _ _ _ _ _ _ _ _ _

/-- the definition of the generated function as an equation between closed terms (one δ-step;
    unfolding it applied to arguments makes the kernel evaluate `k1 > halfN` on open terms) -/
theorem scalarMultNonConst_val :
    Secp.Gen.Drivers.scalarMultNonConst = delta% Secp.Gen.Drivers.scalarMultNonConst := rfl

/-- No range hypothesis on `point` is needed: `fneg` and `fmul` are already reduced mod P, so the
    extra `% P` of the generated normalisation steps disappears by `Nat.mod_mod`; `result` is
    overwritten field by field, so its initial value is irrelevant. -/
theorem scalarMultNonConst_regenerated
    (hnaf : ∀ b : Bytes, b.length ≤ 32 → Secp.Gen.Drivers.nafGen b = ((naf b).pos, (naf b).neg, (naf b).start, (naf b).stop))
    (k : Nat) (point result : Jac) :
    Secp.Gen.Drivers.scalarMultNonConst k point result = scalarMultNC k point := by
  obtain ⟨x, y, z⟩ := point
  have hn32 : ∀ v : Nat, Secp.Gen.Drivers.nafGen (be32 v)
      = ((naf (be32 v)).pos, (naf (be32 v)).neg, (naf (be32 v)).start, (naf (be32 v)).stop) :=
    fun v => hnaf _ (Nat.le_of_eq (be32_length' v))
  clear hnaf
  rw [Secp.Proofs.ScalarMultSpec.scalarMultNC_eq, scalarMultNonConst_val]
  beta_reduce
  rw [splitKGen_regenerated, ← genLoop_eq]
  generalize splitK k = sk
  generalize halfN = hn
  generalize endoBeta = eb
  generalize Secp.Gen.Drivers.nafGen = ng at hn32 ⊢
  generalize naf = nf at hn32 ⊢
  generalize be32 = b32 at hn32 ⊢
  obtain ⟨k1, k2⟩ := sk
  obtain ⟨r1, r2, r3⟩ := result
  by_cases h1 : k1 > hn <;> by_cases h2 : k2 > hn <;>
    simp only [h1, h2, decide_true, decide_false, Bool.false_eq_true, if_true, if_false,
      fneg_mod, fmul_mod, hn32, genLoop, NafScalar.posBytes, NafScalar.negBytes]

end Secp.Proofs.DriversSmul

#print axioms Secp.Proofs.DriversSmul.splitKGen_regenerated
#print axioms Secp.Proofs.DriversSmul.scalarMultNonConst_regenerated
