import Secp.Model.Adaptor
import Secp.Model.PointSpec
import Secp.Proofs.Der
import Secp.Proofs.PubKey
import Secp.Proofs.Ecdsa
import Secp.Proofs.FieldBridge
import Secp.Proofs.SpecGroup
import Secp.Proofs.Chains
import Mathlib.Tactic.FieldSimp
import Mathlib.Tactic.Ring
/-
  Proofs/Adaptor — the crypto/elliptic adaptor (ellipticadaptor.go) agrees with the group law (C15).
-/
namespace Secp.Proofs.Adaptor
open Secp.Spec Secp.Model Secp.Proofs Secp.Proofs.Der
open Secp.FOp Secp.Gen.FormulasC Secp.Proofs.Chains

/-! ### big.Int.Bytes() -/

theorem minBytes_small {v : Nat} (hv : v < 256 ^ 32) : (minBytes v).length ≤ 32 ∧ beNat (minBytes v) = v := by
  have hval : beNat (minBytes v) = v := by
    unfold minBytes
    rw [beNat_stripZeros, Der.beNat_beBytes]
    exact Nat.mod_eq_of_lt (Nat.lt_of_lt_of_le hv (Nat.pow_le_pow_right (by decide) (by decide)))
  refine ⟨?_, hval⟩
  by_contra hlen
  rcases stripZeros_head (beBytes 40 v) with h' | ⟨x, xs, h', hx⟩
  · unfold minBytes at hlen; rw [h'] at hlen; simp at hlen
  · have h1 := beNat_ge_of_head_ne x xs hx
    have h2 : minBytes v = x :: xs := h'
    rw [← h2, hval] at h1
    rw [h2] at hlen
    simp only [List.length_cons] at hlen
    have h3 : (256:Nat) ^ 32 ≤ 256 ^ xs.length := Nat.pow_le_pow_right (by omega) (by omega)
    omega

theorem bigToField_of_lt {x : Nat} (hx : x < P) : bigToField x = x := by
  unfold bigToField
  obtain ⟨h1, h2⟩ := minBytes_small (Nat.lt_trans hx PubKey.P_lt_pow)
  rw [List.take_of_length_le h1, h2, Nat.mod_eq_of_lt hx]

/-! ### scalars -/

theorem scalar_of_bytes (k : Bytes) : adaptorScalar k = beNat k % N := by
  unfold adaptorScalar
  by_cases hl : k.length > 32
  · simp only [hl, if_true]
    have hN : beNat k % N < N := Nat.mod_lt _ N_pos
    obtain ⟨h1, h2⟩ := minBytes_small (Nat.lt_trans hN Der.N_lt)
    unfold scalarSetByteSlice
    simp only [List.take_of_length_le h1, h2]
    rw [if_neg (by omega)]
  · simp only [hl, if_false]
    have := Ecdsa.hash_to_e k
    unfold hashScalar at this
    rw [this, List.take_of_length_le (by omega)]

theorem adaptorScalar_lt (k : Bytes) : adaptorScalar k < N := by
  rw [scalar_of_bytes]; exact Nat.mod_lt _ N_pos

/-! ### IsOnCurve -/

theorem isOnCurve_iff (x y : Nat) (hx : x < P) (hy : y < P) : adaptorIsOnCurve x y = true ↔ OnCurve x y := by
  unfold adaptorIsOnCurve OnCurve
  rw [bigToField_of_lt hx, bigToField_of_lt hy, PubKey.isOnCurveM_iff]
  exact ⟨fun h => ⟨hx, hy, h⟩, fun h => h.2.2⟩

/-! ### Jacobian ↔ affine -/

theorem finv_zero : finv 0 = 0 := by decide +kernel
theorem finv_one : finv 1 = 1 := by decide +kernel

theorem jacToBig_eq (q : Jac) (hq : Jac.WF q) : jacToBig q = xyOfPt (Jac.toPt q) := by
  obtain ⟨X, Y, Z⟩ := q
  have hq' := hq
  obtain ⟨h1, h2, h3, -⟩ := hq'
  simp only at h1 h2 h3
  unfold jacToBig
  rw [Chains.toAffine_run X Y Z h1 h2 h3]
  cases hi : isInfJ (X, Y, Z) with
  | true =>
    rw [(Ecdsa.toPt_none_iff _ hq).2 hi]
    unfold isInfJ at hi
    simp only [Bool.or_eq_true, Bool.and_eq_true, beq_iff_eq] at hi
    rcases hi with ⟨rfl, rfl⟩ | rfl
    · simp [xyOfPt, fmul]
    · simp [xyOfPt, finv_zero, fmul, fsq]
  | false =>
    rw [Ecdsa.toPt_of_not_inf _ hq hi]
    rfl

/-- the Jacobian form `(x, y, 1)` of an affine curve point -/
theorem affine_wf {x y : Nat} (h : OnCurve x y) :
    Jac.WF (x, y, 1) ∧ Jac.toPt (x, y, 1) = some (x, y) := by
  obtain ⟨hx, hy, hc⟩ := h
  have h1 : (1 : Nat) < P := by decide +kernel
  have hy0 : y ≠ 0 := PubKey.y_ne_zero hc
  constructor
  · refine ⟨hx, hy, h1, Or.inr ?_⟩
    show fsq y = fadd (fmul (fsq x) x) (fmul 7 (fmul (fsq (fmul (fsq 1) 1)) 1))
    have e : fmul 7 (fmul (fsq (fmul (fsq 1) 1)) 1) = 7 := by decide +kernel
    rw [e, PubKey.rhs_eq]
    exact hc
  · unfold Jac.toPt
    simp only [Nat.mod_eq_of_lt h1, Nat.mod_eq_of_lt hy, Nat.mod_eq_of_lt hx]
    rw [if_neg (by omega)]
    simp only [finv_one, show fsq 1 = 1 from by decide +kernel, show fmul 1 1 = 1 from by decide +kernel]
    simp [fmul, Nat.mod_eq_of_lt hx, Nat.mod_eq_of_lt hy]

/-! ### ScalarBaseMult, ScalarMult -/

theorem scalarBaseMult_spec (hp : PointSpec) (k : Bytes) :
    adaptorBaseMult k = xyOfPt (smul (beNat k % N) G) := by
  obtain ⟨w, t⟩ := hp.sbmul (adaptorScalar k) (adaptorScalar_lt k)
  have := jacToBig_eq _ w
  rw [t] at this
  rw [← scalar_of_bytes]
  exact this

theorem scalarMult_spec (hp : PointSpec) (p : Nat × Nat) (k : Bytes) (hP : OnCurve p.1 p.2) :
    adaptorScalarMult p k = xyOfPt (smul (beNat k % N) (some p)) := by
  obtain ⟨x, y⟩ := p
  simp only at hP
  obtain ⟨w, t⟩ := hp.smulA (adaptorScalar k) x y (adaptorScalar_lt k) hP
  have := jacToBig_eq _ w
  rw [t] at this
  unfold adaptorScalarMult
  simp only [bigToField_of_lt hP.1, bigToField_of_lt hP.2.1]
  rw [← scalar_of_bytes]
  exact this

/-! ### Add -/

theorem xy_pt (q : Nat × Nat) : xyOfPt (ptOfXY q) = q := by
  obtain ⟨x, y⟩ := q
  unfold ptOfXY
  split_ifs with h
  · obtain ⟨rfl, rfl⟩ := h; rfl
  · rfl

theorem ptOfXY_onCurve {p : Nat × Nat} (h : OnCurve p.1 p.2) : ¬ (p.1 = 0 ∧ p.2 = 0) ∧ ptOfXY p = some p := by
  have hy : p.2 ≠ 0 := PubKey.y_ne_zero h.2.2
  have hn : ¬ (p.1 = 0 ∧ p.2 = 0) := fun hh => hy hh.2
  exact ⟨hn, by unfold ptOfXY; rw [if_neg hn]⟩

theorem ptOfXY_zero {p : Nat × Nat} (h : p.1 = 0 ∧ p.2 = 0) : ptOfXY p = none := by
  unfold ptOfXY; rw [if_pos h]

theorem add_spec (hp : PointSpec) (p q : Nat × Nat)
    (hP : (p.1 = 0 ∧ p.2 = 0) ∨ OnCurve p.1 p.2) (hQ : (q.1 = 0 ∧ q.2 = 0) ∨ OnCurve q.1 q.2) :
    adaptorAdd p q = xyOfPt (Pt.add (ptOfXY p) (ptOfXY q)) := by
  unfold adaptorAdd
  rcases hP with hP | hP
  · rw [if_pos hP, ptOfXY_zero hP]
    show q = xyOfPt (ptOfXY q)
    exact (xy_pt q).symm
  obtain ⟨np, ep⟩ := ptOfXY_onCurve hP
  rw [if_neg np, ep]
  rcases hQ with hQ | hQ
  · rw [if_pos hQ, ptOfXY_zero hQ]
    rfl
  obtain ⟨nq, eq⟩ := ptOfXY_onCurve hQ
  rw [if_neg nq, eq]
  obtain ⟨x1, y1⟩ := p
  obtain ⟨x2, y2⟩ := q
  simp only at hP hQ ⊢
  simp only [bigToField_of_lt hP.1, bigToField_of_lt hP.2.1, bigToField_of_lt hQ.1, bigToField_of_lt hQ.2.1]
  obtain ⟨w1, t1⟩ := affine_wf hP
  obtain ⟨w2, t2⟩ := affine_wf hQ
  obtain ⟨w3, t3⟩ := hp.add3 _ _ w1 w2
  have := jacToBig_eq _ w3
  rw [t3, t1, t2] at this
  exact this

/-! ### Double

  `curve.Double` calls the NON-aliased `DoubleNonConst(p, &result)` (entry "DoubleNonConst", six
  parameter registers), which is not the aliased `dblNC` of `PointOps.dbl`.  The adaptor always
  passes Z = 1 and (after its own `y = 0` test) Y ≠ 0, so exactly one path of the regenerated
  program runs: `isZero Y = false, isZero Z = false, isOne Z = true`, then the call to
  `doubleZ1EqualsOne`, a straight-line program.  It is executed symbolically here and its result
  compared with the affine doubling formula in `ZMod P`; no hypothesis about the point layer is needed. -/

theorem idx_dnc : entryIdx "DoubleNonConst" = 4 := by decide +kernel

theorem dz1_run (x y : Nat) :
    runEntryC allEntries 7 23 [x, y, 1, 0, 0, 0] [] =
      some (runOps doubleZ1EqualsOne_p0.items ([x, y, 1, 0, 0, 0] ++ List.replicate 6 0), none) := by
  obtain ⟨callF, h⟩ := runEntryC_succ allEntries 6 23 [x, y, 1, 0, 0, 0] [] doubleZ1EqualsOne rfl
  rw [h]
  have hops : opsOnly doubleZ1EqualsOne_p0.items = true := by decide +kernel
  simp only [show doubleZ1EqualsOne.paths = [doubleZ1EqualsOne_p0] from rfl, List.findSome?_cons,
    show doubleZ1EqualsOne.nreg - [x, y, 1, 0, 0, 0].length = 6 from rfl, exec_opsOnly _ _ hops, Option.map_some]
  rfl

def dS (x y : Nat) : Nat := fmul (fadd (fneg (fadd (fsq x) (fsq (fsq y)))) (fsq (fadd (fsq y) x))) 2
def dM (x : Nat) : Nat := fmul (fsq x) 3
def dX3 (x y : Nat) : Nat := fadd (fneg (fmul (dS x y) 2)) (fsq (dM x))
def dY3 (x y : Nat) : Nat :=
  fadd (fneg (fmul (fsq (fsq y)) 8)) (fmul (fadd (fneg (dX3 x y)) (dS x y) % P) (dM x))
def dZ3 (y : Nat) : Nat := fmul y 2

theorem dz1_regs (x y : Nat) :
    let r := runOps doubleZ1EqualsOne_p0.items ([x, y, 1, 0, 0, 0] ++ List.replicate 6 0)
    r.take 6 = [x, y, 1, dX3 x y % P, dY3 x y % P, dZ3 y % P] := by
  simp [doubleZ1EqualsOne_p0, runOps, stepF, rget, rset, dX3, dY3, dZ3, dS, dM]

theorem dnc_run (x y : Nat) (hy : y ≠ 0) :
    runNamed "DoubleNonConst" [x, y, 1, 0, 0, 0] [] =
      some ([x, y, 1, dX3 x y % P, dY3 x y % P, dZ3 y % P], none) := by
  unfold runNamed
  rw [idx_dnc, show (8 : Nat) = 7 + 1 from rfl, runEntryC]
  simp only [show allEntries[4]? = some DoubleNonConst from rfl]
  have hregs := dz1_regs x y
  simp only at hregs
  simp [DoubleNonConst, DoubleNonConst_p0, DoubleNonConst_p1, DoubleNonConst_p2, DoubleNonConst_p3,
    execPathWith, condF, rget, hy, dz1_run]
  rw [show [x, y, 1, 0, 0, 0, 0, 0, 0, 0, 0, 0] = [x, y, 1, 0, 0, 0] ++ List.replicate 6 0 from rfl, hregs]
  simp [writeBack, rset]

theorem cast_ne_zero_of_lt {y : Nat} (hy : y < P) (hy0 : y ≠ 0) : (y : ZMod P) ≠ 0 := by
  rw [Ne, ZMod.natCast_eq_zero_iff]
  intro h
  have := Nat.le_of_dvd (Nat.pos_of_ne_zero hy0) h
  omega

theorem double_core (x y : Nat) (hy : y < P) (hy0 : y ≠ 0) :
    jacToBig (dX3 x y % P, dY3 x y % P, dZ3 y % P) = xyOfPt (Pt.dbl (some (x, y))) := by
  have hym : y % P ≠ 0 := by rw [Nat.mod_eq_of_lt hy]; exact hy0
  rw [SpecGroup.dbl_some x y hym]
  unfold jacToBig
  rw [Chains.toAffine_run _ _ _ (Nat.mod_lt _ P_pos) (Nat.mod_lt _ P_pos) (Nat.mod_lt _ P_pos)]
  have hyc := cast_ne_zero_of_lt hy hy0
  have h20 := SpecGroup.two_ne_zero_P
  refine Prod.ext ?_ ?_
  · show fmul _ _ = fsub _ _
    apply eq_of_cast_eq_P (fmul_lt _ _) (fsub_lt _ _)
    simp only [dX3, dZ3, dS, dM, fsub_cast, fsq_cast, fmul_cast, finv_cast, fadd_cast, fneg_cast,
      ZMod.natCast_mod, Nat.cast_ofNat]
    field_simp
    ring
  · show fmul _ _ = fsub _ _
    apply eq_of_cast_eq_P (fmul_lt _ _) (fsub_lt _ _)
    simp only [dX3, dY3, dZ3, dS, dM, fsub_cast, fsq_cast, fmul_cast, finv_cast, fadd_cast, fneg_cast,
      ZMod.natCast_mod, Nat.cast_ofNat]
    field_simp
    ring

/-- `curve.Double` agrees with affine doubling; unconditional (no `PointSpec`/`PointOps` needed) -/
theorem double_spec' (p : Nat × Nat) (hP : (p.1 = 0 ∧ p.2 = 0) ∨ OnCurve p.1 p.2) :
    adaptorDouble p = xyOfPt (Pt.dbl (ptOfXY p)) := by
  unfold adaptorDouble
  rcases hP with hP | hP
  · rw [if_pos hP.2, ptOfXY_zero hP]
    rfl
  obtain ⟨-, ep⟩ := ptOfXY_onCurve hP
  have hy0 : p.2 ≠ 0 := PubKey.y_ne_zero hP.2.2
  rw [if_neg hy0, ep, bigToField_of_lt hP.1, bigToField_of_lt hP.2.1, dnc_run _ _ hy0]
  obtain ⟨x, y⟩ := p
  exact double_core x y hP.2.1 hy0

theorem double_spec (_hp : PointSpec) (_hd : PointOps) (p : Nat × Nat)
    (hP : (p.1 = 0 ∧ p.2 = 0) ∨ OnCurve p.1 p.2) :
    adaptorDouble p = xyOfPt (Pt.dbl (ptOfXY p)) := double_spec' p hP

end Secp.Proofs.Adaptor
