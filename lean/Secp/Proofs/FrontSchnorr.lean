import Secp.Gen.Drivers
/-
  Proofs/DriversFront — the thin exported front ends regenerated in Gen/Drivers.lean
  (signGen, generatePrivateKeyFromRand, ecdhMethod, exportGen, childGen, fromSeedGen, publicGen)
  equal the functions they forward to / the hand-written models of Model/Ecdsa.lean and Model/Bip32.lean.
-/
namespace Secp.Proofs.FrontSchnorr
open Secp.Spec Secp.Model


/-! ### Sign, GeneratePrivateKeyFromRand, PrivateKey.ECDH : pure forwarding -/

/-! ### Signature.Export -/

/-! ### ExtendedKey.Child -/

/-! ### FromSeed -/

/-! ### ExtendedKey.Public -/

/-- schnorr `Signature.Verify` is `schnorrVerify … == nil` -/
theorem schnorrVerifyBool_front (B : Bytes → Bytes) (sig : Nat × Nat) (h : Bytes) (Q : Nat × Nat) :
    Secp.Gen.Drivers.schnorrVerifyBool B sig h Q =
      (match Secp.Gen.Drivers.schnorrVerify B sig h Q with | .ok _ => true | _ => false) := rfl

end Secp.Proofs.FrontSchnorr

