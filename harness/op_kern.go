//go:build verif

package main

// kern ops: run one T1 kernel of the real code on raw limbs/words and print the
// outputs in the order of the signature that tools/gotr extracted (kernels.json).

import (
	"encoding/json"
	"fmt"
	"math/big"
	"os"
	"strconv"
	"strings"

	secp "github.com/ModChain/secp256k1"
)

type kernelSig struct {
	Name  string   `json:"name"`
	Lean  string   `json:"lean"`
	Kinds []string `json:"kinds"`
	In    []string `json:"in"`
	InW   []int    `json:"inw"`
	Out   []string `json:"out"`
}

var kernelSigs = map[string]*kernelSig{}
var kernelOrder []string

func loadKernelSigs() {
	if len(kernelSigs) > 0 {
		return
	}
	data, err := os.ReadFile(os.Getenv("VERIF_KERNELS"))
	if err != nil {
		panic("VERIF_KERNELS: " + err.Error())
	}
	var sigs []kernelSig
	if err := json.Unmarshal(data, &sigs); err != nil {
		panic(err)
	}
	for i := range sigs {
		kernelSigs[sigs[i].Lean] = &sigs[i]
		kernelOrder = append(kernelOrder, sigs[i].Lean)
	}
}

func fv(o []uint64) *secp.FieldVal {
	var n [10]uint32
	for i := range n {
		n[i] = uint32(o[i])
	}
	var f secp.FieldVal
	secp.VerifFieldSetRaw(&f, n)
	return &f
}
func fvOut(f *secp.FieldVal, o []uint64) {
	n := secp.VerifFieldRaw(f)
	for i := range n {
		o[i] = uint64(n[i])
	}
}
func sv(o []uint64) *secp.ModNScalar {
	var n [8]uint32
	for i := range n {
		n[i] = uint32(o[i])
	}
	var s secp.ModNScalar
	secp.VerifScalarSetRaw(&s, n)
	return &s
}
func svOut(s *secp.ModNScalar, o []uint64) {
	n := secp.VerifScalarRaw(s)
	for i := range n {
		o[i] = uint64(n[i])
	}
}
func bytes32(o []uint64) *[32]byte {
	var b [32]byte
	for i := range b {
		b[i] = byte(o[i])
	}
	return &b
}
func bytesOut(b []byte, o []uint64) {
	for i := range b {
		o[i] = uint64(b[i])
	}
}
func b2u(b bool) uint64 {
	if b {
		return 1
	}
	return 0
}

type adapter func(o [][]uint64, s []uint64) (uint64, bool)

func fieldRecv(f func(r *secp.FieldVal, o [][]uint64, s []uint64) (uint64, bool)) adapter {
	return func(o [][]uint64, s []uint64) (uint64, bool) {
		r := fv(o[0])
		ret, has := f(r, o, s)
		fvOut(r, o[0])
		return ret, has
	}
}
func scalarRecv(f func(r *secp.ModNScalar, o [][]uint64, s []uint64) (uint64, bool)) adapter {
	return func(o [][]uint64, s []uint64) (uint64, bool) {
		r := sv(o[0])
		ret, has := f(r, o, s)
		svOut(r, o[0])
		return ret, has
	}
}

var adapters = map[string]adapter{
	"Field_Zero": fieldRecv(func(r *secp.FieldVal, o [][]uint64, s []uint64) (uint64, bool) { r.Zero(); return 0, false }),
	"Field_Set": fieldRecv(func(r *secp.FieldVal, o [][]uint64, s []uint64) (uint64, bool) {
		checkFieldAlias1("Set", func(r, a *secp.FieldVal) { r.Set(a) }, fv(o[1]))
		r.Set(fv(o[1]))
		return 0, false
	}),
	"Field_SetInt": fieldRecv(func(r *secp.FieldVal, o [][]uint64, s []uint64) (uint64, bool) {
		r.SetInt(uint16(s[0]))
		return 0, false
	}),
	"Field_SetBytes": fieldRecv(func(r *secp.FieldVal, o [][]uint64, s []uint64) (uint64, bool) {
		return uint64(r.SetBytes(bytes32(o[1]))), true
	}),
	"Field_Normalize": fieldRecv(func(r *secp.FieldVal, o [][]uint64, s []uint64) (uint64, bool) { r.Normalize(); return 0, false }),
	"Field_PutBytesUnchecked": fieldRecv(func(r *secp.FieldVal, o [][]uint64, s []uint64) (uint64, bool) {
		b := bytes32(o[1])
		r.PutBytesUnchecked(b[:])
		bytesOut(b[:], o[1])
		return 0, false
	}),
	"Field_IsZeroBit": fieldRecv(func(r *secp.FieldVal, o [][]uint64, s []uint64) (uint64, bool) { return uint64(r.IsZeroBit()), true }),
	"Field_IsZero":    fieldRecv(func(r *secp.FieldVal, o [][]uint64, s []uint64) (uint64, bool) { return b2u(r.IsZero()), true }),
	"Field_IsOneBit":  fieldRecv(func(r *secp.FieldVal, o [][]uint64, s []uint64) (uint64, bool) { return uint64(r.IsOneBit()), true }),
	"Field_IsOne":     fieldRecv(func(r *secp.FieldVal, o [][]uint64, s []uint64) (uint64, bool) { return b2u(r.IsOne()), true }),
	"Field_IsOddBit":  fieldRecv(func(r *secp.FieldVal, o [][]uint64, s []uint64) (uint64, bool) { return uint64(r.IsOddBit()), true }),
	"Field_IsOdd":     fieldRecv(func(r *secp.FieldVal, o [][]uint64, s []uint64) (uint64, bool) { return b2u(r.IsOdd()), true }),
	"Field_Equals":    fieldRecv(func(r *secp.FieldVal, o [][]uint64, s []uint64) (uint64, bool) { return b2u(r.Equals(fv(o[1]))), true }),
	"Field_NegateVal": fieldRecv(func(r *secp.FieldVal, o [][]uint64, s []uint64) (uint64, bool) {
		m := uint32(s[0])
		checkFieldAlias1("NegateVal", func(r, a *secp.FieldVal) { r.NegateVal(a, m) }, fv(o[1]))
		r.NegateVal(fv(o[1]), uint32(s[0]))
		return 0, false
	}),
	"Field_AddInt": fieldRecv(func(r *secp.FieldVal, o [][]uint64, s []uint64) (uint64, bool) {
		r.AddInt(uint16(s[0]))
		return 0, false
	}),
	"Field_Add": fieldRecv(func(r *secp.FieldVal, o [][]uint64, s []uint64) (uint64, bool) { r.Add(fv(o[1])); return 0, false }),
	"Field_Add2": fieldRecv(func(r *secp.FieldVal, o [][]uint64, s []uint64) (uint64, bool) {
		checkFieldAlias2("Add2", func(r, a, b *secp.FieldVal) { r.Add2(a, b) }, fv(o[1]), fv(o[2]))
		r.Add2(fv(o[1]), fv(o[2]))
		return 0, false
	}),
	"Field_MulInt": fieldRecv(func(r *secp.FieldVal, o [][]uint64, s []uint64) (uint64, bool) {
		r.MulInt(uint8(s[0]))
		return 0, false
	}),
	"Field_Mul2": fieldRecv(func(r *secp.FieldVal, o [][]uint64, s []uint64) (uint64, bool) {
		checkFieldAlias2("Mul2", func(r, a, b *secp.FieldVal) { r.Mul2(a, b) }, fv(o[1]), fv(o[2]))
		r.Mul2(fv(o[1]), fv(o[2]))
		return 0, false
	}),
	"Field_SquareVal": fieldRecv(func(r *secp.FieldVal, o [][]uint64, s []uint64) (uint64, bool) {
		checkFieldAlias1("SquareVal", func(r, a *secp.FieldVal) { r.SquareVal(a) }, fv(o[1]))
		r.SquareVal(fv(o[1]))
		return 0, false
	}),
	"Field_IsGtOrEqPrimeMinusOrder": fieldRecv(func(r *secp.FieldVal, o [][]uint64, s []uint64) (uint64, bool) {
		return b2u(r.IsGtOrEqPrimeMinusOrder()), true
	}),
	"CT_Eq_lit": func(o [][]uint64, s []uint64) (uint64, bool) {
		return uint64(secp.VerifCT(0, uint32(s[0]), uint32(s[1]))), true
	},
	"CT_NotEq_lit": func(o [][]uint64, s []uint64) (uint64, bool) {
		return uint64(secp.VerifCT(1, uint32(s[0]), uint32(s[1]))), true
	},
	"CT_Less_lit": func(o [][]uint64, s []uint64) (uint64, bool) {
		return uint64(secp.VerifCT(2, uint32(s[0]), uint32(s[1]))), true
	},
	"CT_LessOrEq_lit": func(o [][]uint64, s []uint64) (uint64, bool) {
		return uint64(secp.VerifCT(3, uint32(s[0]), uint32(s[1]))), true
	},
	"CT_Greater_lit": func(o [][]uint64, s []uint64) (uint64, bool) {
		return uint64(secp.VerifCT(4, uint32(s[0]), uint32(s[1]))), true
	},
	"CT_GreaterOrEq_lit": func(o [][]uint64, s []uint64) (uint64, bool) {
		return uint64(secp.VerifCT(5, uint32(s[0]), uint32(s[1]))), true
	},
	"CT_Min_lit": func(o [][]uint64, s []uint64) (uint64, bool) {
		return uint64(secp.VerifCT(6, uint32(s[0]), uint32(s[1]))), true
	},
	"Acc96_Add_lit": func(o [][]uint64, s []uint64) (uint64, bool) {
		r := secp.VerifAcc96([3]uint32{uint32(o[0][0]), uint32(o[0][1]), uint32(o[0][2])}, []uint64{s[0]})
		o[0][0], o[0][1], o[0][2] = uint64(r[0]), uint64(r[1]), uint64(r[2])
		return 0, false
	},
	"Acc96_Rsh32_lit": func(o [][]uint64, s []uint64) (uint64, bool) {
		o[0][0], o[0][1], o[0][2] = o[0][1], o[0][2], 0 // Rsh32 has no hook of its own; exercised through reduce/Mul2
		return 0, false
	},
	"Scalar_Zero": scalarRecv(func(r *secp.ModNScalar, o [][]uint64, s []uint64) (uint64, bool) { r.Zero(); return 0, false }),
	"Scalar_SetInt": scalarRecv(func(r *secp.ModNScalar, o [][]uint64, s []uint64) (uint64, bool) {
		r.SetInt(uint32(s[0]))
		return 0, false
	}),
	"Scalar_IsZeroBit": scalarRecv(func(r *secp.ModNScalar, o [][]uint64, s []uint64) (uint64, bool) { return uint64(r.IsZeroBit()), true }),
	"Scalar_IsZero":    scalarRecv(func(r *secp.ModNScalar, o [][]uint64, s []uint64) (uint64, bool) { return b2u(r.IsZero()), true }),
	"Scalar_overflows": scalarRecv(func(r *secp.ModNScalar, o [][]uint64, s []uint64) (uint64, bool) {
		return uint64(secp.VerifOverflows(r)), true
	}),
	"Scalar_reduce256": scalarRecv(func(r *secp.ModNScalar, o [][]uint64, s []uint64) (uint64, bool) {
		secp.VerifReduce256(r, uint32(s[0]))
		return 0, false
	}),
	"Scalar_SetBytes": scalarRecv(func(r *secp.ModNScalar, o [][]uint64, s []uint64) (uint64, bool) {
		return uint64(r.SetBytes(bytes32(o[1]))), true
	}),
	"Scalar_PutBytesUnchecked": scalarRecv(func(r *secp.ModNScalar, o [][]uint64, s []uint64) (uint64, bool) {
		b := bytes32(o[1])
		r.PutBytesUnchecked(b[:])
		bytesOut(b[:], o[1])
		return 0, false
	}),
	"Scalar_IsOdd": scalarRecv(func(r *secp.ModNScalar, o [][]uint64, s []uint64) (uint64, bool) { return b2u(r.IsOdd()), true }),
	"Scalar_Equals": scalarRecv(func(r *secp.ModNScalar, o [][]uint64, s []uint64) (uint64, bool) {
		return b2u(r.Equals(sv(o[1]))), true
	}),
	"Scalar_Add2": scalarRecv(func(r *secp.ModNScalar, o [][]uint64, s []uint64) (uint64, bool) {
		checkScalarAlias2("Scalar.Add2", func(r, a, b *secp.ModNScalar) { r.Add2(a, b) }, sv(o[1]), sv(o[2]))
		r.Add2(sv(o[1]), sv(o[2]))
		return 0, false
	}),
	"Scalar_reduce385": scalarRecv(func(r *secp.ModNScalar, o [][]uint64, s []uint64) (uint64, bool) {
		var t [13]uint64
		copy(t[:], s)
		secp.VerifReduce385(r, t)
		return 0, false
	}),
	"Scalar_reduce512": scalarRecv(func(r *secp.ModNScalar, o [][]uint64, s []uint64) (uint64, bool) {
		var t [16]uint64
		copy(t[:], s)
		secp.VerifReduce512(r, t)
		return 0, false
	}),
	"Scalar_Mul2": scalarRecv(func(r *secp.ModNScalar, o [][]uint64, s []uint64) (uint64, bool) {
		checkScalarAlias2("Scalar.Mul2", func(r, a, b *secp.ModNScalar) { r.Mul2(a, b) }, sv(o[1]), sv(o[2]))
		r.Mul2(sv(o[1]), sv(o[2]))
		return 0, false
	}),
	"Scalar_NegateVal": scalarRecv(func(r *secp.ModNScalar, o [][]uint64, s []uint64) (uint64, bool) {
		checkScalarAlias1("Scalar.NegateVal", func(r, a *secp.ModNScalar) { r.NegateVal(a) }, sv(o[1]))
		r.NegateVal(sv(o[1]))
		return 0, false
	}),
	"Scalar_IsOverHalfOrder": scalarRecv(func(r *secp.ModNScalar, o [][]uint64, s []uint64) (uint64, bool) {
		return b2u(r.IsOverHalfOrder()), true
	}),
	// a plain function returning its result by value: the words go to resultWords ("r:<i>" outputs)
	"Scalar_mul512Rsh320Round": func(o [][]uint64, s []uint64) (uint64, bool) {
		r := secp.VerifMul512Rsh320Round(sv(o[0]), sv(o[1]))
		resultWords = make([]uint64, 8)
		svOut(&r, resultWords)
		return 0, false
	},
}

var resultWords []uint64

// aliasFault is set by an adapter when calling the method with the receiver aliasing an argument gives another
// result than calling it on distinct objects holding the same values; runKernel appends it to the answer.
var aliasFault string

func sameF(a, b *secp.FieldVal) bool   { return secp.VerifFieldRaw(a) == secp.VerifFieldRaw(b) }
func sameS(a, b *secp.ModNScalar) bool { return secp.VerifScalarRaw(a) == secp.VerifScalarRaw(b) }

// checkFieldAlias2: r.op(a, b) must not depend on r being the same object as a and/or b
func checkFieldAlias2(name string, op func(r, a, b *secp.FieldVal), a, b *secp.FieldVal) {
	var want secp.FieldVal
	op(&want, a, b)
	x, y := *a, *b
	op(&x, &x, &y) // receiver = first argument
	if !sameF(&x, &want) {
		aliasFault = name + ":recv=arg1"
	}
	x, y = *a, *b
	op(&y, &x, &y) // receiver = second argument
	if !sameF(&y, &want) {
		aliasFault = name + ":recv=arg2"
	}
	if sameF(a, b) {
		x = *a
		op(&x, &x, &x)
		if !sameF(&x, &want) {
			aliasFault = name + ":recv=arg1=arg2"
		}
		x = *a
		var z secp.FieldVal
		op(&z, &x, &x)
		if !sameF(&z, &want) {
			aliasFault = name + ":arg1=arg2"
		}
	}
}

func checkFieldAlias1(name string, op func(r, a *secp.FieldVal), a *secp.FieldVal) {
	var want secp.FieldVal
	op(&want, a)
	x := *a
	op(&x, &x)
	if !sameF(&x, &want) {
		aliasFault = name + ":recv=arg"
	}
}

func checkScalarAlias2(name string, op func(r, a, b *secp.ModNScalar), a, b *secp.ModNScalar) {
	var want secp.ModNScalar
	op(&want, a, b)
	x, y := *a, *b
	op(&x, &x, &y)
	if !sameS(&x, &want) {
		aliasFault = name + ":recv=arg1"
	}
	x, y = *a, *b
	op(&y, &x, &y)
	if !sameS(&y, &want) {
		aliasFault = name + ":recv=arg2"
	}
	if sameS(a, b) {
		x = *a
		op(&x, &x, &x)
		if !sameS(&x, &want) {
			aliasFault = name + ":recv=arg1=arg2"
		}
	}
}

func checkScalarAlias1(name string, op func(r, a *secp.ModNScalar), a *secp.ModNScalar) {
	var want secp.ModNScalar
	op(&want, a)
	x := *a
	op(&x, &x)
	if !sameS(&x, &want) {
		aliasFault = name + ":recv=arg"
	}
}

func kindLen(kind string) int {
	switch kind {
	case "limbs10":
		return 10
	case "limbs8":
		return 8
	case "limbs3":
		return 3
	case "bytes32":
		return 32
	}
	panic("kind " + kind)
}

func runKernel(name string, in []uint64) string {
	loadKernelSigs()
	sig, ok := kernelSigs[name]
	if !ok {
		return "no-such-kernel"
	}
	ad, ok := adapters[name]
	if !ok {
		return "no-adapter"
	}
	if len(in) != len(sig.In) {
		return "bad-arity"
	}
	objs := make([][]uint64, len(sig.Kinds))
	for i, k := range sig.Kinds {
		objs[i] = make([]uint64, kindLen(k))
	}
	var scal []uint64
	for i, ref := range sig.In {
		if ref[0] == 's' {
			scal = append(scal, in[i])
		} else {
			var oi, si int
			fmt.Sscanf(ref, "o%d:%d", &oi, &si)
			objs[oi][si] = in[i]
		}
	}
	aliasFault = ""
	ret, _ := ad(objs, scal)
	var out []string
	for _, ref := range sig.Out {
		if ref == "ret" {
			out = append(out, strconv.FormatUint(ret, 10))
		} else if ref[0] == 'r' {
			var ri int
			fmt.Sscanf(ref, "r:%d", &ri)
			out = append(out, strconv.FormatUint(resultWords[ri], 10))
		} else {
			var oi, si int
			fmt.Sscanf(ref, "o%d:%d", &oi, &si)
			out = append(out, strconv.FormatUint(objs[oi][si], 10))
		}
	}
	if aliasFault != "" {
		out = append(out, "ALIAS-DEPENDENT("+aliasFault+")")
	}
	return strings.Join(out, " ")
}

func init() {
	opImpl["kern"] = func(a []string) string {
		in := make([]uint64, len(a)-1)
		for i, s := range a[1:] {
			v, err := strconv.ParseUint(s, 10, 64)
			if err != nil {
				return "bad-number"
			}
			in[i] = v
		}
		return runKernel(a[0], in)
	}
	generators["C05"] = func(h *H) { genKernels(h, "Field_") }
	generators["C06"] = func(h *H) { genKernels(h, "Scalar_", "CT_", "Acc96_") }
}

// ---- generators of raw limb patterns

func (h *H) limb(w int, style int, maxv uint64) uint64 {
	full := maxv
	switch style {
	case 0:
		return 0
	case 1:
		return full
	case 2:
		if full > 0 {
			return full - 1
		}
		return 0
	case 3:
		return 1
	default:
		if full == ^uint64(0) {
			return h.rng.Uint64()
		}
		return h.rng.Uint64() % (full + 1)
	}
}

// fieldLimbs returns 10 limbs of magnitude ≤ m in one of several boundary styles
func (h *H) fieldLimbs(m uint64) []uint64 {
	o := make([]uint64, 10)
	mode := h.rng.Intn(9)
	if mode == 8 {
		// every limb at its canonical maximum (value just below/above p) except ONE limb, which is lowered by a
		// small or random amount; low limbs in the window where the final conditional subtraction is decided
		for i := range o {
			o[i] = (1 << 26) - 1
		}
		o[9] = (1 << 22) - 1
		j := 2 + h.rng.Intn(8)
		switch h.rng.Intn(3) {
		case 0:
			o[j]--
		case 1:
			o[j] -= uint64(1) << uint(h.rng.Intn(20))
		default:
			o[j] = uint64(h.rng.Intn(int(o[j])))
		}
		o[0] = 0x3fffc2f - 2 + uint64(h.rng.Intn(5))
		o[1] = 0x3ffffbf - 1 + uint64(h.rng.Intn(3))
		if h.rng.Intn(2) == 0 {
			o[0], o[1] = (1<<26)-1, (1<<26)-1
		}
		return o
	}
	for i := range o {
		maxv := m * ((1 << 26) - 1)
		if i == 9 {
			maxv = m * ((1 << 22) - 1)
		}
		if maxv > 0xffffffff {
			maxv = 0xffffffff
		}
		switch mode {
		case 0: // all max
			o[i] = maxv
		case 1: // random
			o[i] = h.limb(32, 9, maxv)
		case 2: // per-limb boundary classes
			o[i] = h.limb(32, h.rng.Intn(6), maxv)
		case 3: // single hot limb
			if i == h.rng.Intn(10) {
				o[i] = h.limb(32, h.rng.Intn(3)+1, maxv)
			}
		case 4: // near the prime: normalised-looking limbs at their maxima
			o[i] = (1 << 26) - 1
			if i == 9 {
				o[i] = (1 << 22) - 1
			}
			if i == 0 {
				o[i] = 0x3fffc2f - uint64(h.rng.Intn(3)) + uint64(h.rng.Intn(3))
			}
			if i == 1 {
				o[i] = 0x3ffffbf - uint64(h.rng.Intn(2)) + uint64(h.rng.Intn(2))
			}
		case 5: // carry windows: low limbs near 2^26 multiples
			o[i] = (uint64(h.rng.Intn(int(m)+1)) << 26) - uint64(h.rng.Intn(2))
			if o[i] > maxv {
				o[i] = maxv
			}
		default:
			o[i] = h.limb(32, 9, maxv)
		}
	}
	return o
}

// a normalised field element as limbs, from boundary and random 256-bit values below P
func (h *H) fieldNormalised() []uint64 {
	v := h.randScalarInt()
	v.Mod(v, curveP)
	if h.rng.Intn(4) == 0 {
		v = new(big.Int).Sub(curveP, big.NewInt(int64(1+h.rng.Intn(3))))
	}
	var f secp.FieldVal
	f.SetByteSlice(be32(v))
	n := secp.VerifFieldRaw(&f)
	o := make([]uint64, 10)
	for i := range o {
		o[i] = uint64(n[i])
	}
	return o
}

// chainSweep: the deterministic counterpart of chainWalk - for every digit position of m in base 2^w, the digits
// above equal m's, the digit itself is m's -1 and m's +1 (when representable), and the lower digits are all 0,
// all max, or m's own: every arm of a most-significant-first compare chain against m is taken with both
// outcomes whatever the random stream does.
func chainSweep(m *big.Int, w uint, n int) []*big.Int {
	mask := new(big.Int).Sub(new(big.Int).Lsh(big.NewInt(1), w), big.NewInt(1))
	var out []*big.Int
	for pos := n - 1; pos >= 0; pos-- {
		hiPart := new(big.Int).Rsh(m, uint(pos+1)*w)
		d := new(big.Int).And(new(big.Int).Rsh(m, uint(pos)*w), mask)
		lim := mask
		if pos == n-1 {
			lim = new(big.Int).Sub(new(big.Int).Lsh(big.NewInt(1), 256-uint(n-1)*w), big.NewInt(1))
			d = new(big.Int).Rsh(m, uint(pos)*w)
			hiPart = big.NewInt(0)
		}
		lowMax := new(big.Int).Sub(new(big.Int).Lsh(big.NewInt(1), uint(pos)*w), big.NewInt(1))
		lowOwn := new(big.Int).And(m, lowMax)
		for _, delta := range []int64{-1, 1} {
			dv := new(big.Int).Add(d, big.NewInt(delta))
			if dv.Sign() < 0 || dv.Cmp(lim) > 0 {
				continue
			}
			base := new(big.Int).Lsh(new(big.Int).Or(new(big.Int).Lsh(hiPart, w), dv), uint(pos)*w)
			for _, low := range []*big.Int{big.NewInt(0), lowMax, lowOwn} {
				out = append(out, new(big.Int).Or(base, low))
			}
		}
	}
	return out
}

// chainWalk: a 256-bit value built relative to the constant m in base 2^w (n digits): digits above a random
// position equal m's, that digit is m's -1 / +0 / +1 / random, lower digits are each 0, max, m's digit, m's
// digit +-1 or random.  Exercises every arm of a most-significant-first compare chain against m.
func (h *H) chainWalk(m *big.Int, w uint, n int) *big.Int {
	mask := new(big.Int).Sub(new(big.Int).Lsh(big.NewInt(1), w), big.NewInt(1))
	dig := make([]*big.Int, n)
	for i := range dig {
		dig[i] = new(big.Int).And(new(big.Int).Rsh(m, uint(i)*w), mask)
	}
	top := new(big.Int).Rsh(m, uint(n-1)*w) // the top digit may be narrower than w
	pos := h.rng.Intn(n)
	out := make([]*big.Int, n)
	pick := func(d *big.Int, lim *big.Int) *big.Int {
		var v *big.Int
		switch h.rng.Intn(6) {
		case 0:
			v = big.NewInt(0)
		case 1:
			v = new(big.Int).Set(lim)
		case 2:
			v = new(big.Int).Set(d)
		case 3:
			v = new(big.Int).Add(d, big.NewInt(1))
		case 4:
			v = new(big.Int).Sub(d, big.NewInt(1))
		default:
			v = new(big.Int).Rand(h.rng, new(big.Int).Add(lim, big.NewInt(1)))
		}
		if v.Sign() < 0 {
			v.SetInt64(0)
		}
		if v.Cmp(lim) > 0 {
			v.Set(lim)
		}
		return v
	}
	for i := n - 1; i >= 0; i-- {
		lim := mask
		if i == n-1 {
			lim = new(big.Int).Sub(new(big.Int).Lsh(big.NewInt(1), 256-uint(n-1)*w), big.NewInt(1))
			dig[i] = top
		}
		switch {
		case i > pos:
			out[i] = new(big.Int).Set(dig[i])
		case i == pos:
			out[i] = pick(dig[i], lim)
			if h.rng.Intn(2) == 0 { // most often just around the constant's digit
				out[i] = new(big.Int).Add(dig[i], big.NewInt(int64(h.rng.Intn(3)-1)))
				if out[i].Sign() < 0 {
					out[i].SetInt64(0)
				}
				if out[i].Cmp(lim) > 0 {
					out[i].Set(lim)
				}
			}
		default:
			out[i] = pick(dig[i], lim)
		}
	}
	v := new(big.Int)
	for i := n - 1; i >= 0; i-- {
		v.Lsh(v, w)
		v.Or(v, out[i])
	}
	return v
}

func (h *H) scalarWords(canonical bool) []uint64 {
	v := h.randScalarInt()
	if h.rng.Intn(6) == 0 {
		// a single hot word (all others zero), or all words equal but one: every word position must matter
		o := make([]uint64, 8)
		base := []uint64{0, 0, 0, 1, 0xffffffff}[h.rng.Intn(5)]
		if canonical && base == 0xffffffff {
			base = 0
		}
		for i := range o {
			o[i] = base
		}
		j := h.rng.Intn(8)
		o[j] = []uint64{1, 0x80000000, 0xffffffff, uint64(h.rng.Uint32()) | 1}[h.rng.Intn(4)]
		if o[j] == base {
			o[j] ^= 2
		}
		return o
	}
	if h.rng.Intn(3) == 0 {
		// word classes
		words := []uint64{0, 1, 0xffffffff, 0xfffffffe, 0xd0364141, 0xd0364140, 0xd0364142, 0xbfd25e8c, 0xaf48a03b, 0xbaaedce6, 0xfffffffe, 0x2fc9bebf, 0x402da173, 0x50b75fc4, 0x45512319}
		o := make([]uint64, 8)
		for i := range o {
			o[i] = words[h.rng.Intn(len(words))]
		}
		if !canonical {
			return o
		}
		v = new(big.Int)
		for i := 7; i >= 0; i-- {
			v.Lsh(v, 32)
			v.Or(v, new(big.Int).SetUint64(o[i]))
		}
	}
	if canonical {
		v.Mod(v, curveN)
	} else if v.BitLen() > 256 {
		v.Mod(v, new(big.Int).Lsh(big.NewInt(1), 256))
	}
	o := make([]uint64, 8)
	t := new(big.Int).Set(v)
	mask := big.NewInt(0xffffffff)
	for i := range o {
		o[i] = new(big.Int).And(t, mask).Uint64()
		t.Rsh(t, 32)
	}
	return o
}

func fmtU(v []uint64) string {
	s := make([]string, len(v))
	for i, x := range v {
		s[i] = strconv.FormatUint(x, 10)
	}
	return strings.Join(s, " ")
}

// scalar operand pairs (a, b) with a*b mod N = r for r in the carry windows of the reduction
func (h *H) scalarCarryPairs(n int) [][2][]uint64 {
	words := func(v *big.Int) []uint64 {
		o := make([]uint64, 8)
		t := new(big.Int).Set(v)
		mask := big.NewInt(0xffffffff)
		for i := range o {
			o[i] = new(big.Int).And(t, mask).Uint64()
			t.Rsh(t, 32)
		}
		return o
	}
	two256 := new(big.Int).Lsh(big.NewInt(1), 256)
	c := new(big.Int).Sub(two256, curveN)
	var targets []*big.Int
	for _, d := range []int64{0, 1, 2, 5, 1000} {
		targets = append(targets, new(big.Int).Add(c, big.NewInt(d)), new(big.Int).Sub(c, big.NewInt(d+1)))
	}
	targets = append(targets, big.NewInt(0), big.NewInt(1), new(big.Int).Sub(curveN, big.NewInt(1)), new(big.Int).Lsh(c, 1))
	var out [][2][]uint64
	for len(out) < n {
		r := targets[h.rng.Intn(len(targets))]
		b := new(big.Int).SetBytes(h.randBytes(32))
		b.SetBit(b, 255, 1).SetBit(b, 254, 1) // large operand
		b.Mod(b, curveN)
		if b.Sign() == 0 {
			continue
		}
		a := new(big.Int).ModInverse(b, curveN)
		a.Mul(a, r).Mod(a, curveN)
		// also the non-canonical representative a + N when it still fits 256 bits (Mul2 accepts any 256-bit operand)
		if h.rng.Intn(3) == 0 {
			an := new(big.Int).Add(a, curveN)
			if an.BitLen() <= 256 {
				a = an
			}
		}
		out = append(out, [2][]uint64{words(a), words(b)})
	}
	return out
}

func genKernels(h *H, prefixes ...string) {
	loadKernelSigs()
	per := 300 * h.budget
	for _, name := range kernelOrder {
		ok := false
		for _, p := range prefixes {
			if strings.HasPrefix(name, p) {
				ok = true
			}
		}
		if !ok {
			continue
		}
		sig := kernelSigs[name]
		n := per
		if name == "Field_Mul2" || name == "Field_SquareVal" || name == "Field_Normalize" || name == "Scalar_Mul2" ||
			name == "Scalar_Add2" || name == "Scalar_reduce385" || name == "Scalar_reduce512" || name == "Scalar_SetBytes" {
			n = per * 4
		}
		var carryPairs [][2][]uint64
		if name == "Scalar_Mul2" {
			carryPairs = h.scalarCarryPairs(n / 3)
		}
		for it := 0; it < n; it++ {
			if name == "Scalar_Mul2" && it < len(carryPairs) {
				in := append(append(append([]uint64{}, h.scalarWords(false)...), carryPairs[it][0]...), carryPairs[it][1]...)
				h.do(name+"/carry-window", "kern", name, fmtU(in))
				continue
			}
			// magnitude budget per kernel (documented preconditions)
			mag := uint64(1)
			switch name {
			case "Field_Mul2", "Field_SquareVal":
				mag = uint64(1 + h.rng.Intn(8))
			case "Field_Normalize", "Field_Set":
				mag = uint64(1 + h.rng.Intn(64))
			case "Field_NegateVal":
				mag = uint64(1 + h.rng.Intn(63))
			case "Field_Add", "Field_Add2":
				mag = uint64(1 + h.rng.Intn(32))
			case "Field_MulInt":
				mag = uint64(1 + h.rng.Intn(8))
			}
			objs := make([][]uint64, len(sig.Kinds))
			for i, kd := range sig.Kinds {
				switch kd {
				case "limbs10":
					switch name {
					case "Field_IsZeroBit", "Field_IsZero", "Field_IsOneBit", "Field_IsOne", "Field_IsOddBit", "Field_IsOdd",
						"Field_Equals", "Field_PutBytesUnchecked", "Field_IsGtOrEqPrimeMinusOrder":
						objs[i] = h.fieldNormalised()
						if h.rng.Intn(4) == 0 {
							objs[i] = make([]uint64, 10)
							objs[i][0] = uint64(h.rng.Intn(3))
						}
						if h.rng.Intn(3) == 0 {
							// the value the predicate tests for (0 or 1 in limb 0) with exactly one OTHER limb set:
							// every limb position must take part in the test
							objs[i] = make([]uint64, 10)
							objs[i][0] = uint64(h.rng.Intn(2))
							j := 1 + h.rng.Intn(9)
							lim := uint64(1<<26 - 1)
							if j == 9 {
								lim = 1<<22 - 1
							}
							objs[i][j] = []uint64{1, lim, 1 << uint(h.rng.Intn(22)), uint64(h.rng.Int63())&lim | 1}[h.rng.Intn(4)]
						}
						if name == "Field_IsGtOrEqPrimeMinusOrder" && h.rng.Intn(2) == 0 {
							pmn := []uint64{0x03c9baee, 0x03685c8b, 0x01fc4402, 0x006542dd, 0x01455123, 0, 0, 0, 0, 0}
							objs[i] = append([]uint64{}, pmn...)
							for j := 0; j < 5; j++ { // several limbs perturbed independently
								switch h.rng.Intn(6) {
								case 0:
									objs[i][j]++
								case 1:
									objs[i][j]--
								case 2:
									objs[i][j] = uint64(h.rng.Intn(1 << 26))
								}
							}
						}
						if name == "Field_Equals" && i == 1 && h.rng.Intn(2) == 0 {
							objs[i] = append([]uint64{}, objs[0]...)
							if h.rng.Intn(2) == 0 {
								objs[i][h.rng.Intn(10)] ^= 1 << uint(h.rng.Intn(26))
							}
						}
					default:
						objs[i] = h.fieldLimbs(mag)
					}
				case "limbs8":
					canonical := !(name == "Scalar_overflows" || name == "Scalar_reduce256" || name == "Scalar_Mul2" || name == "Scalar_Equals" || name == "Scalar_IsZero" || name == "Scalar_IsZeroBit")
					objs[i] = h.scalarWords(canonical)
					if name == "Scalar_Equals" && i == 1 && h.rng.Intn(2) == 0 {
						objs[i] = append([]uint64{}, objs[0]...)
						if h.rng.Intn(2) == 0 {
							objs[i][h.rng.Intn(8)] ^= 1 << uint(h.rng.Intn(32))
						}
					}
					if (name == "Scalar_IsOverHalfOrder" || name == "Scalar_overflows") && h.rng.Intn(2) == 0 {
						// the comparison constant with SEVERAL words perturbed independently (a dropped or duplicated
						// word of a lexicographic compare chain only shows when a lower word then decides)
						ref := []uint64{0x681b20a0, 0xdfe92f46, 0x57a4501d, 0x5d576e73, 0xffffffff, 0xffffffff, 0xffffffff, 0x7fffffff}
						if name == "Scalar_overflows" {
							ref = []uint64{0xd0364141, 0xbfd25e8c, 0xaf48a03b, 0xbaaedce6, 0xfffffffe, 0xffffffff, 0xffffffff, 0xffffffff}
						}
						objs[i] = append([]uint64{}, ref...)
						for j := range objs[i] {
							switch h.rng.Intn(8) {
							case 0:
								objs[i][j] = (objs[i][j] + 1) & 0xffffffff
							case 1:
								objs[i][j] = (objs[i][j] - 1) & 0xffffffff
							case 2:
								objs[i][j] = uint64(h.rng.Uint32())
							}
						}
					}
				case "limbs3":
					objs[i] = []uint64{h.limb(32, h.rng.Intn(6), 0xffffffff), h.limb(32, h.rng.Intn(6), 0xffffffff), h.limb(32, h.rng.Intn(6), 0xffffffff)}
				case "bytes32":
					v := h.randScalarInt()
					if v.BitLen() > 256 {
						v.Rsh(v, 8)
					}
					if h.rng.Intn(3) == 0 {
						// walk the word-by-word comparison with the modulus: equal above one word, that word just
						// below / equal / just above, every lower word independently small, large or equal
						if strings.HasPrefix(name, "Field_") {
							v = h.chainWalk(curveP, 26, 10)
						} else {
							v = h.chainWalk(curveN, 32, 8)
						}
					}
					if h.rng.Intn(3) == 0 {
						d := int64(h.rng.Intn(5) - 2)
						base := curveN
						if strings.HasPrefix(name, "Field_") {
							base = curveP
						}
						v = new(big.Int).Add(base, big.NewInt(d))
					}
					b := be32(v)
					objs[i] = make([]uint64, 32)
					for j := range b {
						objs[i][j] = uint64(b[j])
					}
				}
			}
			// scalars
			var in []uint64
			for i, ref := range sig.In {
				if ref[0] == 's' {
					w := sig.InW[i]
					var v uint64
					switch name {
					case "Field_NegateVal":
						v = mag
					case "Field_MulInt":
						v = uint64(h.rng.Intn(int(64/mag) + 1))
					case "Scalar_reduce256":
						v = uint64(h.rng.Intn(2))
					case "Scalar_reduce385", "Scalar_reduce512":
						v = h.limb(32, h.rng.Intn(7), 0xffffffff)
					case "Acc96_Add_lit":
						hi := h.limb(32, h.rng.Intn(7), 0xfffffffe)
						v = hi<<32 | h.limb(32, h.rng.Intn(7), 0xffffffff)
					default:
						maxv := uint64(1)<<uint(w) - 1
						if w == 64 {
							maxv = ^uint64(0)
						}
						v = h.limb(w, h.rng.Intn(7), maxv)
					}
					in = append(in, v)
				} else {
					var oi, si int
					fmt.Sscanf(ref, "o%d:%d", &oi, &si)
					in = append(in, objs[oi][si])
				}
			}
			h.do(name, "kern", name, fmtU(in))
		}
	}
}
