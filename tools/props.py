"""
props — per-property configuration of ./check.
"""

def proj_rec(op, s):
    if op == "recover" and s.startswith("err "):
        return "reject"
    return s

def proj_c11(op, s):
    if op == "schnorr_verify" and s.startswith("err "):
        return "reject"
    return s

def proj_c08(op, s):
    if op == "pubkey_parse" and s.startswith("err "):
        return "reject"
    return s

def proj_c09(op, s):
    if op == "der_parse" and s.startswith("err "):
        return "reject"
    return s

COMMON_TRUST = [
    "hand-written Lean models are tied to the Go code by the correspondence run (differential, generator-bounded)",
    "Go compiler/runtime semantics of integer and slice operations",
]

def proj_all(op, s):
    """map an implementation/model answer to the vocabulary of the specification column"""
    if op in ("der_parse", "pubkey_parse", "recover", "schnorr_verify") and s.startswith("err "):
        return "reject"
    return s

HOOK_COMMITS = ["62e1034"]

UNDER_CONSTRUCTION = "machinery for this property is still under construction in this session; not claimed until its check is green and validated"
NOT_APPLICABLE = {("C%02d" % i): UNDER_CONSTRUCTION for i in range(1, 21)}

def c18_static_search(ctx, run, LEAN, WORK):
    """name the first function/statement that fails the constant-time check (the witness is the code site itself)"""
    import os
    f = os.path.join(WORK, "C18", "FirstBad.lean")
    os.makedirs(os.path.dirname(f), exist_ok=True)
    open(f, "w").write("import Secp.Gen.CTGen\nopen Secp.CT Secp.Gen.CTGen\n#eval firstBad fns\n#eval documented\n#eval unknownCalls\n")
    rc, out, err, _ = run(["lake", "build", "Secp.Gen.CTGen"], cwd=LEAN, timeout=1800)
    if rc != 0:
        return []
    rc, out, err, _ = run(["lake", "env", "lean", f], cwd=LEAN, timeout=600)
    import re
    m = re.search(r'some \("([^"]+)", (\d+)\)', out)
    if m:
        return [{"op": "ct-site %s statement#%s" % (m.group(1), m.group(2)),
                 "impl": "the regenerated body of %s has an operand-dependent branch/index/shift/division/short-circuit or calls outside the constant-time table at statement %s" % (m.group(1), m.group(2)),
                 "driver": out.strip()[:300], "static": True}]
    return []

def c16_static_search(ctx, run, LEAN, WORK):
    """name the sliced function / path / item at which the abstract interpreter stops (the witness is the code site)"""
    import os, re
    f = os.path.join(WORK, "C16", "SliceFailures.lean")
    os.makedirs(os.path.dirname(f), exist_ok=True)
    open(f, "w").write("import Secp.Proofs.Slices\nopen Secp.Proofs.Slices\n#eval allFailures\n#eval unjustified\n")
    rc, out, err, _ = run(["lake", "build", "Secp.Proofs.Slices"], cwd=LEAN, timeout=1800)
    if rc != 0:
        return []
    rc, out, err, _ = run(["lake", "env", "lean", f], cwd=LEAN, timeout=600)
    cases = []
    seen = set()
    for m in re.finditer(r'\("([^"]+)", (\d+), (\d+)\)', out):
        fn = m.group(1)
        if fn in seen:
            continue
        seen.add(fn)
        cases.append({"op": "slice-site %s path#%s item#%s" % (fn, m.group(2), m.group(3)),
                      "impl": "in the regenerated field program of %s the abstract interpreter stops at item %s of path %s: a magnitude bound is exceeded, a comparison / serialisation reads a value that is not known to be normalised, a loop body does not return to its head state, or a callee's precondition fails" % (fn, m.group(3), m.group(2)),
                      "driver": "expected: every path accepted (Secp.Props.C16.slices_ok)", "static": True})
    return cases[:8]

def c17_race_run(ctx, tier, seed):
    """fresh processes built with -race: N goroutines start together, answers compared with solo runs"""
    import os, subprocess, shutil, glob
    VERIF = os.path.dirname(os.path.dirname(os.path.abspath(__file__)))
    REPO = os.environ.get("VERIF_REPO", "/repo")
    hb = os.path.join(VERIF, ".work", "hbuild.race.%d" % os.getpid())
    shutil.rmtree(hb, ignore_errors=True)
    os.makedirs(hb)
    try:
        for f in glob.glob(os.path.join(VERIF, "harness", "*.go")):
            shutil.copy(f, hb)
        open(os.path.join(hb, "go.mod"), "w").write(open(os.path.join(VERIF, "harness", "go.mod")).read().replace("=> /repo", "=> " + REPO))
        shutil.copy(os.path.join(REPO, "go.sum"), hb)
        env = dict(os.environ, GOFLAGS="-mod=mod", GOPROXY="off", GOSUMDB="off", GOTOOLCHAIN="local", CGO_ENABLED="1")
        binp = os.path.join(hb, "harness.race")
        p = subprocess.run(["go", "build", "-race", "-tags", "verif", "-o", binp, "."], cwd=hb, env=env, capture_output=True, text=True, timeout=900)
        if p.returncode != 0:
            return False, "race build failed: " + p.stderr[-1500:]
        runs = 8 if tier == "quick" else 60
        total = 0
        for i in range(runs):
            q = subprocess.run([binp, "conc", tier, str(seed * 100 + i), hb], env=dict(env, GORACE="halt_on_error=1"), capture_output=True, text=True, timeout=900)
            out = q.stdout + q.stderr
            if q.returncode != 0 or "DATA RACE" in out or "CONC-MISMATCH" in out:
                return False, "concurrent run %d: rc=%d %s" % (i, q.returncode, out[-1500:])
            import re
            m = re.search(r"ops=(\d+)", out)
            total += int(m.group(1)) if m else 0
        ctx.setdefault("extra_coverage", {})["race_runs"] = {"fresh_processes": runs, "concurrent_ops": total, "race_detector": True}
        return True, "%d fresh -race processes, %d concurrent ops, no race, no mismatch" % (runs, total)
    finally:
        shutil.rmtree(hb, ignore_errors=True)

def c03_gomaxprocs(ctx, tier, seed):
    """the answers of the real code must not depend on the number of CPUs: the whole thorough-size C03 stream (it reads all
    8192 decoded table entries) is produced under GOMAXPROCS=3, 6 and the default, from fresh processes, and compared"""
    import os, subprocess, shutil, glob
    VERIF = os.path.dirname(os.path.dirname(os.path.abspath(__file__)))
    REPO = os.environ.get("VERIF_REPO", "/repo")
    hb = os.path.join(VERIF, ".work", "hbuild.gmp.%d" % os.getpid())
    shutil.rmtree(hb, ignore_errors=True)
    os.makedirs(hb)
    try:
        for f in glob.glob(os.path.join(VERIF, "harness", "*.go")):
            shutil.copy(f, hb)
        open(os.path.join(hb, "go.mod"), "w").write(open(os.path.join(VERIF, "harness", "go.mod")).read().replace("=> /repo", "=> " + REPO))
        shutil.copy(os.path.join(REPO, "go.sum"), hb)
        env = dict(os.environ, GOFLAGS="-mod=mod", GOPROXY="off", GOSUMDB="off", GOTOOLCHAIN="local")
        binp = os.path.join(hb, "harness.bin")
        p = subprocess.run(["go", "build", "-tags", "verif", "-o", binp, "."], cwd=hb, env=env, capture_output=True, text=True, timeout=900)
        if p.returncode != 0:
            return False, "harness build failed: " + p.stderr[-1500:]
        outs = {}
        for g in ("", "3", "6"):
            d = os.path.join(hb, "out" + g)
            e = dict(env, VERIF_KERNELS=os.path.join(VERIF, "lean", "Secp", "Gen", "kernels.json"))
            if g:
                e["GOMAXPROCS"] = g
            q = subprocess.run([binp, "C03", "thorough", str(seed), d], env=e, capture_output=True, text=True, timeout=1800)
            if q.returncode != 0:
                return False, "harness run (GOMAXPROCS=%s) failed: %s" % (g or "default", (q.stdout + q.stderr)[-800:])
            outs[g] = (open(os.path.join(d, "ops.txt")).read().split("\n"), open(os.path.join(d, "impl.txt")).read().split("\n"))
        base_ops, base = outs[""]
        for g in ("3", "6"):
            ops, impl = outs[g]
            if ops != base_ops:
                # the generator builds some inputs from answers of the library (points, keys): a different stream means
                # such an answer depends on the CPU count
                i = next((j for j, (a, b) in enumerate(zip(base_ops, ops)) if a != b), min(len(base_ops), len(ops)))
                return False, "GOMAXPROCS=%s changes an answer of the library that the generator builds on: operation #%d is %s by default and %s with %s CPUs" % (
                    g, i, (base_ops[i] if i < len(base_ops) else "<none>")[:160], (ops[i] if i < len(ops) else "<none>")[:160], g)
            for i, (a, b) in enumerate(zip(base, impl)):
                if a != b:
                    return False, "GOMAXPROCS=%s changes an answer: op=%s default=%s with-%s-cpus=%s" % (g, ops[i][:200], a[:200], g, b[:200])
        ctx.setdefault("extra_coverage", {})["gomaxprocs_runs"] = {"values": ["default", 3, 6], "ops_each": len(base_ops)}
        return True, "answers identical under GOMAXPROCS=default/3/6 (%d ops each, all 8192 table entries)" % len(base_ops)
    finally:
        shutil.rmtree(hb, ignore_errors=True)

PROPS = {
    "C03": {
        "extra_steps": [("cpu-count-run", c03_gomaxprocs)],
        "extra_is_witness": True,
        "level_text": "Theorems (Lean 4 kernel): the NAF digit strings satisfy pos - neg = k with no overlapping digits for EVERY byte string (per-byte identity by exhaustive kernel evaluation, then induction); splitK gives k1 + k2*lambda = k (mod N); (beta*x, y) = lambda*(x, y) on the whole group; ALL 8192 entries of the regenerated base-point table equal (j*256^(31-i))*G (checked in the kernel incrementally, row by row); ScalarBaseMultNonConst returns k*G and ScalarMultNonConst returns k*P as a well-formed (normalised, on-curve or identity) Jacobian triple for every scalar in [0,N) and EVERY point of the curve - the latter using card E = N (proved: Lagrange + at most 2 points per x + no 2-torsion), so every point is a multiple of G; the public key of d is d*G; smul is Mathlib's nsmul. The loops' models run the regenerated formula programs proved correct in C04. Correspondence: corner scalars (0, 1, 2, N-1, N-2, lambda, N-lambda, (N+-1)/2, 2^128+-1, 2^255, halves zero/negative/maximal), random scalars and points with random Z, splitK/naf/mul512 through hooks, every table entry as decoded by the REAL code (thorough: all 8192; quick: every 37th) - Jacobian results compared bit for bit and against the affine specification; step cpu-count-run: the thorough-size stream (all 8192 decoded table entries) is produced from fresh processes under GOMAXPROCS=3, 6 and the default and the answers must be identical.",
        "level_note": "Trusted: Lean kernel + Mathlib group definitions; tools/gotr T2/T3/T4 (regenerated; programs, constants and table executed/compared against the real code); the loop models are hand-written mirrors of curve.go (tied by the correspondence run). Value level (see C04's note). mul512Rsh320Round is modelled as floor((a*b + 2^319)/2^320) and that model is PROVED equal to the regenerated 64-bit limb kernel of the function for every pair of 8-word operands (mul512Rsh320Round_limbs: T1 with math/bits intrinsics, interval certificate, row-by-row omega); its exactness affects only the balance of the split, not correctness (splitK_spec holds for any c1, c2). The field arithmetic of the prelude and loops of both multiplication routines is covered by the sliced programs (scalar_mult_field_arithmetic_exact, pass T2s).",
        "technique": "Lean 4 proof (Secp.Props.C03: loop invariants in Mathlib's curve group, kernel-checked table, card E = N) + differential correspondence of Jacobian results",
        "trusted_base": COMMON_TRUST + ["tools/gotr T1/T2/T2s/T3/T4", "Mathlib WeierstrassCurve.Affine.Point, Lagrange, Cauchy"],
        "assumptions": [],
    },
    "C04": {
        "level_text": "Theorems (Lean 4 kernel) about the REGENERATED call-structured formula programs (tools/gotr T2 from curve.go on every run): for EVERY pair of well-formed Jacobian triples - any Z scaling, Z = 1, shared Z, equal points, opposite points, the identity in any encoding - AddNonConst with a distinct result, with the result aliasing the first operand and with the result aliasing the second operand (first operand left untouched) return a well-formed (normalised, on-curve or identity) triple representing the affine sum; DoubleNonConst in place represents 2P (identity when Y = 0, which cannot occur for curve points because -7 is not a cube mod P); ToAffine returns (X/Z^2, Y/Z^3, 1). Each of the four add routines, both doubling routines and the 37-path dispatch are proved path by path (unfold, cast to ZMod P, field_simp, ring). The affine law they are compared with is proved to be Mathlib's WeierstrassCurve.Affine.Point addition (Secp.Proofs.SpecGroup). The same programs are executed by the driver and diffed with the real routines on all relation classes x Z patterns x three alias patterns, the six internal routines through hooks, and off-curve field values.",
        "level_note": "Trusted: Lean kernel + Mathlib's definition of the curve group; tools/gotr T2 (regenerated every run, its programs executed against the real routines). Value level: the programs compute with field values; that the limb code realises each field operation exactly under the magnitudes used is C05 + C16, and the acceptance of every path of the twelve point routines by the abstract interpreter is ALSO an obligation of this property's own file (theorems *_limb_exact), since without it the value-level theorems say nothing about the uint32 code (a Negate with an understated magnitude is exact at value level and wraps at limb level). Proofs name paths by index, so a reordering of statements in curve.go can break them although the property holds (reported as no-failing-input-found).",
        "technique": "Lean 4 proof (field_simp/ring against the affine law, bridged to Mathlib's group) about regenerated formula programs + differential run of the same programs",
        "trusted_base": COMMON_TRUST + ["tools/gotr T2 (regenerated, executed)", "Mathlib WeierstrassCurve.Affine.Point"],
        "assumptions": ["operands are well-formed Jacobian triples (normalised coordinates, on the curve or an identity encoding): the routines' documented contract"],
    },
    "C12": {
        "level_text": "Theorems (Lean 4 kernel) about a model of ecckd (HMAC-SHA512 and RIPEMD160(SHA256) as parameters): CKDpriv returns exactly BIP32's fields (I_L, I_R, depth+1, fingerprint, child number, key = I_L + k_par mod N as exactly 32 bytes); private child keys always have 32 bytes; hardened-from-public and depth-255 derivations are refused; the accumulated tweak satisfies child = parent + t (mod N) along any path (induction over the path); for a private parent and a non-hardened index, neutering then deriving equals deriving then neutering with the same I_L (via PointSpec, proved in C03; group algebra in Mathlib's curve group; the BIP32 edge case child key = 0 is an explicit hypothesis). Correspondence (oracle table for the hashes): seeds 16..64 bytes, paths up to 8 over {0, 2^31-1, 2^31, 2^32-1, random}, neutering at every position, and a DIRECTED search (plain HMAC, 400 k candidates) for children whose private key has one and two or more leading zero bytes plus their hardened and normal grandchildren.",
        "level_note": "The field arithmetic that ChildWithIL performs outside the point routines is REGENERATED on every run (tools/gotr pass T2s) and checked on every path by the abstract interpreter (theorem *_field_arithmetic_exact in this property's file; limb-level meaning: C16 absS_limb_sound). HMAC-SHA512, RIPEMD-160 are parameters (oracle). BIP32's rejection of child key 0 / point at infinity is not implemented by the code (needs a SHA-512 preimage to reach; DESIGN.md O2) and appears as a hypothesis.",
        "technique": "Lean 4 proof (Secp.Props.C12; induction over paths; group algebra via the Mathlib bridge) + differential correspondence with directed leading-zero search",
        "trusted_base": COMMON_TRUST + ["hand-written model mirrors the Go control flow; its point operations are the regenerated formula programs", "PointSpec (what the point routines compute) is a THEOREM: Secp.Props.C03.pointSpec, built on C04 (regenerated formula programs), the kernel-checked table, NAF/endomorphism lemmas and card E = N; it is about value-level execution of the regenerated programs - that limbs realise values is C05+C16"] + ["crypto/hmac+sha512, ripemd160 (oracle)"],
        "assumptions": ["child private key != 0 (BIP32 edge case the code does not implement)"],
    },
    "C13": {
        "level_text": "Theorems (Lean 4 kernel) about a model of MarshalBinary/UnmarshalBinary: decoding succeeds EXACTLY for 82 bytes with a matching double-SHA256 checksum, a key type consistent with the version and a private key in [1,N-1] or a parsable public key, and returns exactly the encoded fields; wrong length and wrong checksum are reported first; marshal then unmarshal is the identity on every private key the package can produce; the encoding has 82 bytes. Value semantics of a decoded key is structural in the model; for the CODE it is checked by the correspondence run, which overwrites the caller's buffer after every successful decode and re-reads the key (defect F2 was caught this way). Correspondence: valid private/public keys at several depths, each field set to boundary values with a recomputed checksum (all four versions and an unknown one, depth 255, key prefix 0..7 and 255, private key 0, N-1, N, 2^256-1, off-curve x, x >= P), checksum bit flips, lengths 0..100, base58 text form through an oracle.",
        "level_note": "The field arithmetic that UnmarshalBinary performs outside the point routines is REGENERATED on every run (tools/gotr pass T2s) and checked on every path by the abstract interpreter (theorem *_field_arithmetic_exact in this property's file; limb-level meaning: C16 absS_limb_sound). SHA-256 is the Lean implementation (diffed against crypto/sha256); base58 is an oracle. The public-key round trip relies on C08.",
        "technique": "Lean 4 proof (Secp.Props.C13) + differential correspondence with post-decode buffer scribbling",
        "trusted_base": COMMON_TRUST + ["base58 (oracle)", "Model.Bip32 mirrors extended.go (hand-written)"],
        "assumptions": [],
    },
    "C15": {
        "level_text": "Theorems (Lean 4 kernel) about a model of the crypto/elliptic adaptor: for operands that are curve points with coordinates in [0,P) or the (0,0) identity, Add returns the affine group-law sum (incl. equal, opposite and identity operands -> (0,0)), Double returns 2P (unconditionally: its single path is executed symbolically), ScalarMult and ScalarBaseMult return (k mod N)*P for scalars of ANY byte length, IsOnCurve is true exactly on the curve. Stated via PointSpec (proved in C03) with unconditional corollaries. The crypto/ecdsa interoperability half is differential: each run signs here and verifies with crypto/ecdsa (Verify and VerifyASN1) and vice versa, and compares converted keys.",
        "level_note": "The field arithmetic that the adaptor methods performs outside the point routines is REGENERATED on every run (tools/gotr pass T2s) and checked on every path by the abstract interpreter (theorem *_field_arithmetic_exact in this property's file; limb-level meaning: C16 absS_limb_sound). big.Int is modelled as a natural number; coordinates outside [0,P) are outside the property's domain (DESIGN.md O7). Interop with crypto/ecdsa is testing, labelled so.",
        "technique": "Lean 4 proof (Secp.Props.C15, PointSpec proved in C03) + differential correspondence incl. crypto/ecdsa interop",
        "trusted_base": COMMON_TRUST + ["hand-written model mirrors the Go control flow; its point operations are the regenerated formula programs", "PointSpec (what the point routines compute) is a THEOREM: Secp.Props.C03.pointSpec, built on C04 (regenerated formula programs), the kernel-checked table, NAF/endomorphism lemmas and card E = N; it is about value-level execution of the regenerated programs - that limbs realise values is C05+C16"] + ["math/big", "crypto/ecdsa (interop oracle)"],
        "assumptions": [],
    },
    "C20": {
        "level_text": "Theorems (Lean 4 kernel): models that make every Go index and slice expression explicit (panic exactly where Go would) never panic for ANY byte string of ANY length and equal the total models used by the other properties - SetByteSlice, ParseCompactSignature, schnorr.ParseSignature, UnmarshalBinary, the NonceRFC6979 key-buffer assembly, ParseDERSignature (C09), ParsePubKey (C08); recovery panics only on the documented misuse. Purity/argument preservation/history-freedom for the CODE: the correspondence run calls every byte-taking entry point (11 of them + the adaptor + FromString) on every length 0..128 with random, all-zero, all-ff and structured contents under recover(), with argument snapshots around each call, in a shuffled order with repeats, and compares every answer with the model's; C17's regenerated facts show no entry point writes shared state.",
        "level_note": "The unbounded Go loops (RFC 6979 candidates, sign retry) are modelled with fuel. Totality of the real code beyond the mirrored bounds arithmetic (e.g. allocation failure) is outside the model. Documented API-misuse panics are outside the property.",
        "technique": "Lean 4 proof about explicit-bounds models (Secp.Props.C20) + differential run under recover() with argument snapshots over all lengths 0..128",
        "trusted_base": COMMON_TRUST + ["Model.Total mirrors the slice/index expressions of the entry points (hand-written)"],
        "assumptions": [],
    },
    "C11": {
        "project": proj_c11,
        "level_text": "Theorems (Lean 4 kernel) about a model of schnorr/signature.go with BLAKE-256 as a parameter: verification returns nil EXACTLY when m is 32 bytes, Q is on the curve, e = BLAKE-256(r||m) < N and s*G + e*Q is a finite point with even y and x = r (via PointSpec, proved in C03); signing with a given nonce is the README algorithm (nonce negated when R.y is odd, e >= N reported, s = k - e*d); Sign refuses zero keys and wrong message lengths; the 64-byte codec accepts exactly length 64 with r < P, s < N and round-trips. Correspondence (BLAKE-256 answered from an oracle table filled by the real implementation): produced signatures, tampered r/s/m, wrong and off-curve keys, all message lengths, forced nonces through a hook incl. odd-y R and the nonce-not-negated variant, r >= P and s >= N encodings; each verification also compared with a textbook verifier over the affine specification.",
        "level_note": "schnorr.ParseSignature is additionally REGENERATED statement by statement on every run (pass T7) and PROVED equal to the model (schnorrParse_regenerated). The field arithmetic that schnorrSign / schnorrVerify / ParseSignature performs outside the point routines is REGENERATED on every run (tools/gotr pass T2s) and checked on every path by the abstract interpreter (theorem *_field_arithmetic_exact in this property's file; limb-level meaning: C16 absS_limb_sound). PointSpec is proved in C03. BLAKE-256 is a parameter: its correctness is trusted; the e >= N retry branch (probability 2^-128) is covered by the theorem about the model and by the extracted control flow, not by a real-code execution. 'a produced signature verifies' is exercised on every produced signature by the run.",
        "technique": "Lean 4 proof (Secp.Props.C11, PointSpec proved in C03) + differential correspondence with an oracle-table hash",
        "trusted_base": COMMON_TRUST + ["hand-written model mirrors the Go control flow; its point operations are the regenerated formula programs", "PointSpec (what the point routines compute) is a THEOREM: Secp.Props.C03.pointSpec, built on C04 (regenerated formula programs), the kernel-checked table, NAF/endomorphism lemmas and card E = N; it is about value-level execution of the regenerated programs - that limbs realise values is C05+C16"] + ["BLAKE-256 implementation (oracle)"],
        "assumptions": ["BLAKE-256 returns 32 bytes"],
    },
    "C14": {
        "level_text": "Theorems (Lean 4 kernel): for all private keys a, b in [1,N-1], the secret computed from a and b*G is the 32-byte x coordinate of (a*b mod N)*G, hence both sides agree; every such private key has a finite on-curve public key. The group algebra is done in Mathlib's elliptic-curve group through the proven bridge (toE, order of G = N); the tie to the code's ScalarMult/ToAffine is PointSpec, proved in C03. Correspondence: both directions for random and boundary key pairs with the peer key obtained four ways (derived, parsed compressed, parsed uncompressed, parsed hybrid) against the model and the affine specification.",
        "level_note": "The field arithmetic that GenerateSharedSecret performs outside the point routines is REGENERATED on every run (tools/gotr pass T2s) and checked on every path by the abstract interpreter (theorem *_field_arithmetic_exact in this property's file; limb-level meaning: C16 absS_limb_sound). PointSpec is proved in C03 (unconditional corollaries in the same file). Independence of key provenance follows from C08 (parsing returns the same normalised (x, y)) and is exercised by the four-encodings generator.",
        "technique": "Lean 4 proof in Mathlib's curve group via a proven bridge (Secp.Props.C14, PointSpec proved in C03) + differential correspondence",
        "trusted_base": COMMON_TRUST + ["hand-written model mirrors the Go control flow; its point operations are the regenerated formula programs", "PointSpec (what the point routines compute) is a THEOREM: Secp.Props.C03.pointSpec, built on C04 (regenerated formula programs), the kernel-checked table, NAF/endomorphism lemmas and card E = N; it is about value-level execution of the regenerated programs - that limbs realise values is C05+C16"],
        "assumptions": [],
    },
    "C10": {
        "level_text": "Machine-checked theorems (Lean 4 kernel, no axioms beyond propext/Quot.sound/choice) about a statement-by-statement model of nonce.go: the resettable hmacsha256 object returns HMAC-SHA256(k, data written since the last (Re)set) after newHMACSHA256/ResetKey/Reset in any state (invariant: ipad/opad are the pads of k); the key buffer is key||hash[||extra[||version]] with exactly the documented padding/truncation/zero-fill rules; NonceRFC6979 returns the (i+1)-th candidate in [1,N-1] of the RFC 6979 section 3.2 generator (spec written from the RFC) for every key, hash, extra, version and i; results are in range; Schnorr's tagged key material differs from ECDSA's for every (key, hash). SHA-256 is treated as an arbitrary function of fixed output length. Correspondence: the grid key 0..40 x hash 0..70 x extra {0,31,32,33} x version {0,15,16,17} x i <= 16 in shuffled call orders with repeats (purity), random operation sequences on the HMAC object through a hook, and the Lean SHA-256 against crypto/sha256 around the padding boundaries.",
        "level_note": "Trusted: Lean kernel; crypto/sha256 (the Lean SHA-256 is diffed against it; the theorems hold for any compression function); the hand-written model mirrors nonce.go (validated on generated inputs). 'ECDSA and Schnorr nonces differ' is proved as 'the generators are keyed with different material'; that HMAC outputs then differ is a property of SHA-256. The candidate loop is modelled with fuel.",
        "technique": "Lean 4 refinement proof (state machine vs RFC 2104/6979 specification, Secp.Props.C10) + differential correspondence incl. operation sequences on the HMAC object",
        "trusted_base": COMMON_TRUST + ["crypto/sha256", "Model.Nonce mirrors nonce.go (hand-written)"],
        "assumptions": ["termination: a candidate in [1,N-1] appears within the fuel (each candidate fails with probability < 2^-127)"],
    },
    "C06": {
        "level_text": "Machine-checked theorems (Lean 4 kernel) about the word-level kernels of modnscalar.go as REGENERATED from /repo on every run (tools/gotr T1 -> Secp.Gen.ScalarIR, Go wrap-around semantics): the constantTime* helpers and accumulator96.Add/Rsh32 compute their specifications for all 32-bit operands (this pins the IR primitives to the helpers' own bodies); overflows = [value >= N]; reduce256; SetBytes reduces once, is canonical and reports overflow iff >= N; PutBytes is the big-endian value; Add2/NegateVal of canonical scalars are canonical and exact mod N (negating zero gives zero); IsOverHalfOrder iff > (N-1)/2; the 385- and 512-bit reductions and Mul2 are exact mod N and canonical for ALL 256-bit operands - including the third-fold carry that random tests hit with probability 2^-127. No-wrap of every intermediate is a reflective interval analysis decided by `decide +kernel` on the regenerated program; congruences by phased omega. Inversion is modelled as Fermat (ninv) and proved to be the inverse. Each regenerated kernel is also executed on raw words (boundary word classes, values near N, 2^256-N, N/2) and diffed against the real function.",
        "level_note": "Trusted: Lean kernel; tools/gotr T1 (regenerated every run and executed against the real kernels); Go integer semantics; math/big.ModInverse for InverseValNonConst (the model uses Fermat). reduce385 is proved on its documented domain (a 385-bit value): the statement for arbitrary 13 words is false and is recorded in DESIGN.md.",
        "technique": "Lean 4 proof about regenerated deep-embedded kernels (reflective interval analysis + omega congruences) + raw-word differential run",
        "trusted_base": COMMON_TRUST + ["tools/gotr T1 translation (regenerated every run, executed against the real kernels)", "math/big.ModInverse"],
        "assumptions": ["Add2/NegateVal operands canonical (their callers' invariant, itself a theorem: every operation returns a canonical value)"],
    },
    "C01": {
        "level_text": "Theorems (Lean 4 kernel) about a model of sign/signRFC6979 whose point arithmetic is the regenerated formula programs: with a given nonce the model returns exactly the FIPS 186 signature (r = x(kG) mod N, s = k^-1(e + r d)) with s normalised into the lower half and the recovery code (parity of y, x >= N) adjusted for the flip; the deterministic signer is the first index of the RFC 6979 HMAC-SHA256 candidate stream whose signature exists; r, s non-zero, s <= (N-1)/2, code < 4; the hash is read as its first 32 bytes reduced mod N. The theorems are stated with the layer contract PointSpec as a hypothesis and restated unconditionally (PointSpec is proved in C03). Correspondence: every generated (key, hash) - all hash lengths 0..70, e >= N, all-zero/all-one, keys 1 and N-1, forced nonces through the sign hook incl. s = 0 - is signed by the real code twice around unrelated calls in all five encodings (object, DER, compact x2, crypto.Signer x2) and compared byte for byte with the model and with an independent textbook ECDSA + RFC 6979 + SHA-256 written in Lean, whose result is additionally verified by the textbook verifier.",
        "level_note": "The field arithmetic that sign performs outside the point routines is REGENERATED on every run (tools/gotr pass T2s) and checked on every path by the abstract interpreter (theorem *_field_arithmetic_exact in this property's file; limb-level meaning: C16 absS_limb_sound). PointSpec is proved (C03), unconditional corollaries are in the same file; HMAC-SHA256/SHA-256 are modelled in Lean and diffed against crypto/sha256 through every signature; termination of the retry loop is by fuel (a signature exists at index 0 with probability 1-2^-250).",
        "technique": "Lean 4 proof over a model built on regenerated formula programs (Secp.Props.C01, PointSpec proved in C03) + differential correspondence against the code and an independent Lean ECDSA oracle",
        "trusted_base": COMMON_TRUST + ["Model.Ecdsa mirrors signature.go (hand-written control flow; point operations are the regenerated formula programs)", "PointSpec (scalar multiplication / addition / ToAffine / DecompressY compute the affine group law) is a THEOREM: Secp.Props.C03.pointSpec; every conditional theorem has an unconditional corollary in the same Props file"],
        "assumptions": ["0 < d < N"],
    },
    "C02": {
        "level_text": "Theorems (Lean 4 kernel): the Jacobian comparison at the end of Verify - r*Z^2 = X or (r < P-N and (r+N)*Z^2 = X) - holds exactly when x(R) mod N = r, for ALL X, Z != 0, r < N (this is where the rare x >= N signatures live); and the model of Verify returns exactly the textbook verdict (r, s non-zero, R = (e/s)G + (r/s)Q finite, x(R) mod N = r) for every hash, every Q on the curve and all r, s < N (stated with the layer contract PointSpec, which C03 proves; unconditional corollary in the same file). Correspondence: valid signatures, (r, N-s), nonce-x >= N signatures CONSTRUCTED by key recovery (4+ per run) and their near misses, u1 G + u2 Q = identity by choosing the hash, single-bit and boundary mutations, wrong keys, random forgeries, the P-N guard boundary - real Verify vs model vs independent textbook verifier.",
        "level_note": "The field arithmetic that Verify performs outside the point routines is REGENERATED on every run (tools/gotr pass T2s) and checked on every path by the abstract interpreter (theorem *_field_arithmetic_exact in this property's file; limb-level meaning: C16 absS_limb_sound). PointSpec is proved in C03. 'accepts both s and N-s' and 'rejects every other alteration' are properties of the textbook predicate; they follow from the group law (Secp.Proofs.SpecGroup) and are exercised by the generators.",
        "technique": "Lean 4 proof (Secp.Props.C02: field-arithmetic lemma for all inputs + model = textbook verifier, PointSpec proved in C03) + differential correspondence with directed generators",
        "trusted_base": COMMON_TRUST + ["Model.Ecdsa mirrors signature.go (hand-written control flow; point operations are the regenerated formula programs)", "PointSpec (scalar multiplication / addition / ToAffine / DecompressY compute the affine group law) is a THEOREM: Secp.Props.C03.pointSpec; every conditional theorem has an unconditional corollary in the same Props file"],
        "assumptions": ["Q on the curve, r, s < N (the property's domain)"],
    },
    "C07": {
        "project": proj_rec,
        "level_text": "Theorems (Lean 4 kernel): for arbitrary (r, s, code, hash) with 0 < r < N, s < N, code < 4 the model of RecoverPublicKey succeeds exactly when the textbook SEC1 4.1.6 procedure does and returns the same key (via the layer contract PointSpec, proved in C03); it panics exactly for the documented misuse (no recovery code); Export maps high s to (N-s, code xor 1) and leaves low s alone; both compact layouts carry exactly Export's triple; ParseCompactSignature inverts ExportCompact for headers 27/31. Correspondence: produced signatures through object/Export/ExportCompact (both layouts, offsets 27, 31, 0)/SignCompact/RecoverCompact, high-s twins with their flipped codes (the F1 defect, now fixed, is caught here), all four codes, r around P-N with and without the overflow bit, x not on the curve, headers 0..255, r/s boundary values.",
        "level_note": "ParseCompactSignature is additionally REGENERATED statement by statement on every run (pass T7) and PROVED equal to the model (parseCompact_regenerated). The field arithmetic that RecoverPublicKey performs outside the point routines is REGENERATED on every run (tools/gotr pass T2s) and checked on every path by the abstract interpreter (theorem *_field_arithmetic_exact in this property's file; limb-level meaning: C16 absS_limb_sound). PointSpec is proved in C03. 'a returned key verifies the signature' and 'recovering from a produced signature returns the signer' are group-law consequences (Secp.Proofs.SpecGroup) exercised on every produced signature by the correspondence run.",
        "technique": "Lean 4 proof (Secp.Props.C07, PointSpec proved in C03) + differential correspondence incl. export/recover round trips",
        "trusted_base": COMMON_TRUST + ["Model.Ecdsa mirrors signature.go (hand-written control flow; point operations are the regenerated formula programs)", "PointSpec (scalar multiplication / addition / ToAffine / DecompressY compute the affine group law) is a THEOREM: Secp.Props.C03.pointSpec; every conditional theorem has an unconditional corollary in the same Props file"],
        "assumptions": [],
    },
    "C17": {
        "correspondence": False,
        "extra_steps": [("race-run", c17_race_run)],
        "extra_is_witness": True,
        "level_text": "PARTIAL. (1) Regenerated facts (tools/gotr T6, all three packages): the inventory of shared roots (package-level variables and closure state of package-level function values - the base-point table), every store rooted in one of them, every call handing such memory to a parameter the callee may write through (write summaries closed over calls, local aliases resolved), each with its guard (a pointer-receiver method of another package called on shared memory counts as a write unless it is a known synchronisation primitive or read-only accessor), and every READ of a root that is written under sync.Once, classified by whether it is ordered after an unconditional Once.Do in the same body; Lean `decide` shows every such write is under package initialisation or sync.Once.Do and every such read follows the Do call - the accessor shape the interleaving theorem assumes (a lock-free fast path that returns the pointer before Do fails here). (2) A theorem by induction over ALL schedules of any number of accessor threads in an interleaving model: the initialiser runs at most once and every observation is the fully built value; with an unsynchronised nil-check instead, a 2-thread double-initialisation schedule is exhibited. (3) Supporting dynamic run: fresh processes built with -race, goroutines starting together on a mix of keygen/sign/verify/recover/parse/scalar-mult plus 64 probers arriving every 4 ms while the first caller is still decoding the base-point table, every answer compared with the solo answer.",
        "level_note": "Partial: the interleaving model is sequentially consistent - the Go memory model, runtime and sync.Once implementation are trusted; T6's may-alias approximation ignores interfaces, function values, unsafe and assumes functions of other packages do not write through their arguments; determinism of results under concurrency follows from read-only shared state only at that level of abstraction. The -race run is testing, labelled as such.",
        "technique": "Lean 4 invariant proof over all schedules of an interleaving model + `decide` on regenerated shared-state facts; -race run as supporting evidence",
        "trusted_base": ["Lean 4.33.0 kernel", "tools/gotr T6 extraction and alias approximation", "Go memory model, runtime, sync.Once", "race detector (supporting)"],
        "assumptions": ["sequentially consistent interleavings", "callers use their own values (no sharing of caller-owned objects across goroutines)"],
    },
    "C18": {
        "correspondence": False,
        "static_search": c18_static_search,
        "level_text": "Structural for-all, fully regenerated: tools/gotr T5 extracts from /repo every function documented 'in constant time' (64 today, the count is a theorem) and everything they call inside the package, with every timing-relevant position explicit (branch/loop/switch conditions, short-circuit operators, index expressions, slice bounds, shift counts, division operands, call targets). Lean proves once (ct_sound, by induction) that a body passing the syntactic check has a leakage trace independent of all secret leaves for EVERY interpretation of the operators, and `decide +kernel` shows every regenerated function passes and calls only table functions or intrinsics. An early return on zero, a data-dependent loop, a secret index or a call to a NonConst function makes table_ok false.",
        "level_note": "Source-level claim: what the Go compiler emits and micro-architectural timing are outside any executable model. Variables/fields are all treated as secret, len/cap/constants as public; package functions are assumed deterministic (a call with public arguments is public). Control constructs are only accepted with public conditions (today there are none at all).",
        "technique": "Lean 4 non-interference theorem for a leakage model + `decide +kernel` on the regenerated function table",
        "trusted_base": ["Lean 4.33.0 kernel", "tools/gotr T5 extraction (go/ast), regenerated every run", "Go compiler does not introduce data-dependent branches (source-level claim)"],
        "assumptions": ["timing depends only on control flow, memory addresses, shift counts and division operands (the leakage model)"],
    },
    "C05": {
        "level_text": "Machine-checked theorems (Lean 4 kernel) about the limb-level kernels of field.go as REGENERATED from /repo on every run (tools/gotr T1 -> Secp.Gen.FieldIR, Go wrap-around semantics evalW): Mul2/SquareVal exact mod P with no intermediate wrap for operands of magnitude <= 8; Normalize returns the unique representative in [0,P) for EVERY uint32 limb vector; NegateVal/Add/Add2/AddInt/MulInt exact within uint32 capacity (magnitudes <= 63); SetBytes/PutBytesUnchecked exact with overflow flag iff >= P; IsZero/IsOne/IsOdd/Equals/IsGtOrEqPrimeMinusOrder equal their arithmetic definitions; alias safety of every kernel. No-wrap is a reflective interval analysis (bnd, proved sound once) decided by `decide +kernel` on the regenerated program; congruences by omega/ring. Also: each regenerated kernel is executed by the Lean driver on raw limb vectors (boundary classes, carry windows) and diffed against the real function through verif hooks.",
        "level_note": "Trusted: Lean kernel; tools/gotr prints what go/ast+go/types say (its output is additionally executed against the real functions on every run); Go integer semantics. Magnitude is formalised with per-limb slack (limb <= m*(2^26+2^20)), which is what Mul2's output actually satisfies; the theorems cover magnitudes up to 63, not the documented 64 (MulInt(64) of a Mul2 output can exceed uint32; see DESIGN.md F3/O5). Inverse/SquareRootVal chains are covered at formula level in C16 (exponents) rather than here.",
        "technique": "Lean 4 proof about regenerated deep-embedded kernels (reflective interval analysis + omega congruences) + raw-limb differential run",
        "trusted_base": COMMON_TRUST + ["tools/gotr T1 translation (regenerated every run, executed against the real kernels)"],
        "assumptions": ["operands respect the stated magnitude bounds (<= 8 for Mul2/SquareVal, <= 63 elsewhere)"],
    },
    "C16": {
        "generator": "C16",
        "static_search": c16_static_search,
        "level_text": "Static for-all over every execution path, with a soundness theorem down to limbs. (1) tools/gotr T2 regenerates from /repo every path of addZ1AndZ2EqualsOne, addZ1EqualsZ2, addZ2EqualsOne, addGeneric, doubleZ1EqualsOne, doubleGeneric, AddNonConst (x3 alias patterns), DoubleNonConst (x2), ToAffine (with the inversion chain), isOnCurve, DecompressY, Inverse, SquareRootVal as lists of FieldVal operations and predicate tests. (2) Pass T2s regenerates, for EVERY other function of the three packages whose body touches a FieldVal (46 today: Verify, sign, RecoverPublicKey, ParsePubKey, the serialisers, the prelude and loops of ScalarMultNonConst / ScalarBaseMultNonConst, ECDH, the crypto/elliptic adaptor, Schnorr sign/verify/parse, ecckd helpers), all its paths with the non-field code sliced away (such conditions fork without assumption: an over-approximation of the control flow). The abstract interpreter over (magnitude, normalised?) rejects any NegateVal with too small a magnitude argument, any Add/MulInt exceeding magnitude 63, any Mul/Square operand above 8, any Equals/IsZero/IsOne/IsOdd/PutBytes/Bytes/IsOddBit/IsGtOrEqPrimeMinusOrder on a value not known to be normalised, any use before definition, any loop body that does not return to a state covered by its head, any call whose contract precondition fails, any returned public key or result point that is not normalised; `decide +kernel` shows ALL paths of all entries pass and every call contract is justified by re-running the interpreter on the callee. absPath_sound (proved from the C05 kernel theorems, i.e. about the regenerated limb kernels with Go wrap-around semantics): whenever the interpreter accepts a program, for ALL limb registers realising the input contract the limb-level execution and the value-level execution take the same branches and end in related states - no limb wraps, every comparison sees a normalised value, results depend only on the field values denoted. The T2 programs are run at value level by the driver and diffed against the real routines.",
        "level_note": "Trusted: Lean kernel; tools/gotr T1/T2/T2s (regenerated every run; kernels and T2 programs executed against the real code; T2s is a slicer whose fail-closed subset and path over-approximation are described in tools/gotr/slice.go). Input contracts are assumptions: operands of exported point routines and the coordinates inside a PublicKey are normalised (the second is also CHECKED wherever a key is constructed or returned), DecompressY's x has magnitude <= 8, table entries are normalised (C03's table theorem), *big.Int coordinates given to the elliptic adaptor are in [0,P) (C15's domain). absPath_sound is proved for T2 programs and applies to the loop-free, call-free segments of sliced paths (absS_plain); for loops and contract calls the composition argument (monotonicity of the interpreter) is stated in DESIGN.md, not yet proved in Lean.",
        "technique": "Lean 4 `decide +kernel` of an abstract interpreter on regenerated path programs (point formulas: complete extraction; all other field-touching functions: sliced paths with contracts and loop heads) + soundness theorem to limb level + differential run of the T2 programs",
        "trusted_base": COMMON_TRUST + ["tools/gotr T2 path extraction (regenerated every run, executed against the real routines)", "tools/gotr T2s slicer (regenerated every run; fail-closed on constructs that mention field values)"],
        "assumptions": ["inputs to point routines are normalised (their documented contract)", "PublicKey coordinates are normalised (checked at every construction site)", "big.Int coordinates passed to the crypto/elliptic adaptor are in [0,P)"],
    },
    "C08": {
        "level_text": "Machine-checked theorems (Lean 4 kernel, Mathlib ZMod P with a Pratt-certificate proof that P is prime) for ALL byte strings about a hand-written model of ParsePubKey / Serialize* / schnorr.ParsePubKey: never panics; accepts exactly the valid SEC1 compressed/uncompressed/hybrid encodings of curve points with coordinates < P (using Euler's criterion for the square-root test and that -7 is not a cube mod P), returns that very point, never an off-curve key; each error kind names a rule really violated; all serialise/parse round trips incl. byte-for-byte reproduction of canonical inputs. Tied to the code by a correspondence run: all 256 tag bytes x both lengths, lengths 0..70, x >= P, non-residue x, flipped / mismatched-parity / off-curve y, bit flips; every op is also compared with a specification-level verdict computed independently of the model.",
        "level_note": "ParsePubKey is additionally REGENERATED statement by statement on every run (pass T7) and PROVED equal to the model (parsePubKey_regenerated). The field arithmetic that ParsePubKey and the serialisers performs outside the point routines is REGENERATED on every run (tools/gotr pass T2s) and checked on every path by the abstract interpreter (theorem *_field_arithmetic_exact in this property's file; limb-level meaning: C16 absS_limb_sound). Trusted: Lean kernel + Mathlib definitions of ZMod/IsSquare; hand-written model mirrors pubkey.go (validated on generated inputs); field arithmetic inside the parser is modelled at value level (x, y as naturals mod P) - the limb level is C05/C16.",
        "technique": "Lean 4 proof over a hand-written model (Secp.Props.C08) + differential correspondence with ParsePubKey and an independent spec oracle",
        "project": proj_c08,
        "trusted_base": COMMON_TRUST + ["Mathlib ZMod / Euler criterion", "Model.parsePubKey mirrors pubkey.go (hand-written)"],
        "assumptions": ["field operations inside ParsePubKey are exact mod P (this is what C05/C16 establish at limb level)"],
    },
    "C19": {
        "level_text": "Machine-checked theorems (Lean 4 kernel), by induction over the entropy stream, about a hand-written model of generatePrivateKey/PrivKeyFromBytes/Serialize/Zero: success iff some whole 32-byte block is in [1,N-1], the key is exactly the FIRST such block, exactly the blocks up to it are consumed, earlier blocks are discarded never reduced; otherwise the io.ReadFull error (reader error / ErrUnexpectedEOF) and no key; load+serialise = be32(first 32 bytes mod N); Zero clears. Tied to the code by running scripted readers (arbitrary chunking, failure at every offset 0..96, error returned with data) through GeneratePrivateKeyFromRand and diffing result and bytes consumed.",
        "level_note": "Trusted: Lean kernel; io.ReadFull's documented contract (the reader is abstracted to the bytes it delivers and its terminal error); the hand-written model mirrors privkey.go (validated on generated streams); SetBytes at value level (limb level is C06).",
        "technique": "Lean 4 proof by induction over streams (Secp.Props.C19) + differential correspondence with scripted io.Readers",
        "trusted_base": COMMON_TRUST + ["io.ReadFull contract", "Model.generatePrivateKey mirrors privkey.go (hand-written)"],
        "assumptions": ["a reader is characterised by the bytes it delivers and its terminal error (what io.ReadFull can observe)"],
    },
    "C09": {
        "level_text": "Machine-checked theorems (Lean 4 kernel) for ALL byte strings about a hand-written model of ParseDERSignature/Serialize: never panics; accepts exactly the canonical DER of (r,s) in [1,N-1]^2 and returns those values; length 8..72; uniqueness; serialise = canonical DER of (r, low-s); both round trips; every error kind names a really violated rule. The model is tied to the code by a correspondence run (structure-aware mutations of valid encodings, all lengths 0..80) diffed against the real parser.",
        "level_note": "ParseDERSignature is additionally REGENERATED statement by statement on every run (tools/gotr pass T7, Secp.Gen.BytesProg.parseDER) and PROVED equal to the model (parseDER_regenerated), so the iff / no-panic / error-soundness theorems hold for what the source says now. Trusted: Lean kernel (axioms propext, Classical.choice, Quot.sound); that the hand-written model mirrors signature.go (validated only on generated inputs); scalar decoding inside the parser modelled at value level (limb level is C06).",
        "technique": "Lean 4 proof over a model that is proved equal to the parser regenerated from the Go source (pass T7) + differential correspondence with the Go parser",
        "project": proj_c09,
        "trusted_base": COMMON_TRUST + ["Model.parseDER / serializeDER mirror signature.go ParseDERSignature / Serialize (hand-written)"],
        "assumptions": ["scalar decoding inside the parser is modelled at value level (SetByteSlice = reduce once); the limb-level kernel is C06's concern"],
    },
}

for _k, _v in PROPS.items():
    _v.setdefault("project", proj_all)
# the properties whose Props file also asserts the sliced field programs of their own functions: when that
# pass T8: which Go functions are regenerated as value-level Lean definitions and proved equal to the property's model
T8 = {
    "C08": "schnorr.ParsePubKey",
    "C05": "FieldVal.SetByteSlice (the wrapper around the SetBytes kernel)",
    "C06": "the non-kernel ModNScalar wrappers Mul, Add, Negate, Square, SquareVal, Bytes, SetByteSlice, InverseValNonConst, InverseNonConst",
    "C01": "sign, signRFC6979 (retry loop), Sign, SignCompact, PrivateKey.Sign (crypto.Signer front end), PrivateKey.PubKey, fieldToModNScalar",
    "C02": "Signature.Verify, modNScalarToField",
    "C03": "splitK, naf, ScalarMultNonConst, ScalarBaseMultNonConst",
    "C07": "Signature.RecoverPublicKey, RecoverCompact, Signature.BruteforceRecoveryCode, Signature.Export, Signature.ExportCompact",
    "C10": "NonceRFC6979 (key-buffer assembly, HMAC prelude, generation loop) and the hmacsha256 object itself (newHMACSHA256, Write, initKey, ResetKey, Reset, Sum)",
    "C11": "schnorrSign, schnorrVerify, Signature.Verify, schnorr.Sign (retry loop)",
    "C12": "ExtendedKey.ChildWithIL, Child, DeriveWithIL, Derive, FromSeed, FromBitcoinSeed, FromPublicKey, ToPublicSecp256k1, Public, pubKeyBytes, serializeCompressedEcdsa, isEven",
    "C13": "ExtendedKey.UnmarshalBinary, KeyVersion.IsPrivate/ToPublic",
    "C14": "GenerateSharedSecret, PrivateKey.ECDH",
    "C15": "KoblitzCurve.IsOnCurve/Add/Double/ScalarMult/ScalarBaseMult, bigAffineToJacobian, jacobianToBigAffine, moduloReduce, PublicKey.X/Y",
    "C19": "generatePrivateKey (with the reader's final state), GeneratePrivateKeyFromRand, PrivKeyFromBytes",
}
for _k, _f in T8.items():
    PROPS[_k]["level_note"] = PROPS[_k].get("level_note", "") + " REGENERATED DRIVERS (tools/gotr pass T8): " + _f + " are translated statement by statement from /repo on every run into value-level Lean definitions (Gen/Drivers.lean) and PROVED equal to the hand-written model for all inputs (theorems *_regenerated in this property's file), so the model is tied to these functions by a theorem and not only by the differential run; T8's semantics is value-level and does not model index/slice panics (DESIGN.md section 11)."
    PROPS[_k]["technique"] = PROPS[_k]["technique"] + " + regenerated value-level drivers (T8) proved equal to the model"
    _tb = []
    for _t in PROPS[_k]["trusted_base"]:
        # the generic statements about hand-written models are refined for the functions T8 regenerates
        if _t.startswith("hand-written Lean models are tied to the Go code by the correspondence run"):
            _t = "hand-written Lean models: for the functions regenerated by tools/gotr T7/T8 (" + _f + ") the tie is a Lean theorem (regenerated definition = model, all inputs); for the remaining model parts and for the value-level primitives they are built from it is the correspondence run (differential, generator-bounded)"
        elif "mirrors signature.go (hand-written control flow" in _t or _t.startswith("hand-written model mirrors the Go control flow"):
            _t = _t + " - and is proved equal to the regenerated translation of that control flow (T8)"
        _tb.append(_t)
    PROPS[_k]["trusted_base"] = _tb + ["tools/gotr T8 translation of the listed functions (regenerated every run; each definition proved equal to a model that is executed against the real code); T8's vocabulary of leaves (which Go method is which value-level primitive)"]

# kernel layers: which limb-kernel theorem files (C05 = field.go kernels, C06 = modnscalar.go kernels) each property's
# value-level model computes through; their lake targets are built as part of the property's check
for _k, _l in {"C01": ["C05", "C06"], "C02": ["C05", "C06"], "C03": ["C05", "C06"], "C04": ["C05"], "C07": ["C05", "C06"], "C08": ["C05"],
               "C09": ["C06"], "C10": ["C06"], "C11": ["C05", "C06"], "C12": ["C05", "C06"], "C13": ["C05"], "C14": ["C05", "C06"],
               "C15": ["C05", "C06"], "C16": ["C05"], "C19": ["C06"], "C20": ["C05", "C06"]}.items():
    PROPS[_k]["layers"] = _l
    PROPS[_k]["level_note"] = PROPS[_k].get("level_note", "") + " The check also rebuilds the limb-kernel theorem files this model stands on (" + ", ".join(_l) + ": regenerated kernels of " + " and ".join({"C05": "field.go", "C06": "modnscalar.go"}[x] for x in _l) + "), so a kernel that no longer meets its specification fails this property too."

# obligation breaks and the correspondence finds no input, name the function / path / item as the witness
for _k in ("C01", "C02", "C03", "C04", "C07", "C08", "C11", "C12", "C13", "C14", "C15"):
    PROPS[_k].setdefault("static_search", c16_static_search)
