"""
props — per-property configuration of ./check.
"""

def proj_c08(op, s):
    if op == "pubkey_parse" and s.startswith("err "):
        return "reject"
    return s

def proj_c09(op, s):
    if op == "der_parse" and s.startswith("err "):
        return "reject"
    return s

COMMON_TRUST = [
    "hand-written Lean models are tied to the Go code by the correspondence run (differential, generator-bounded)",
    "Go compiler/runtime semantics of integer and slice operations",
]

HOOK_COMMITS = ["62e1034"]

UNDER_CONSTRUCTION = "machinery for this property is still under construction in this session; not claimed until its check is green and validated"
NOT_APPLICABLE = {("C%02d" % i): UNDER_CONSTRUCTION for i in range(1, 21)}

PROPS = {
    "C08": {
        "level_text": "Machine-checked theorems (Lean 4 kernel, Mathlib ZMod P with a Pratt-certificate proof that P is prime) for ALL byte strings about a hand-written model of ParsePubKey / Serialize* / schnorr.ParsePubKey: never panics; accepts exactly the valid SEC1 compressed/uncompressed/hybrid encodings of curve points with coordinates < P (using Euler's criterion for the square-root test and that -7 is not a cube mod P), returns that very point, never an off-curve key; each error kind names a rule really violated; all serialise/parse round trips incl. byte-for-byte reproduction of canonical inputs. Tied to the code by a correspondence run: all 256 tag bytes x both lengths, lengths 0..70, x >= P, non-residue x, flipped / mismatched-parity / off-curve y, bit flips; every op is also compared with a specification-level verdict computed independently of the model.",
        "level_note": "Trusted: Lean kernel + Mathlib definitions of ZMod/IsSquare; hand-written model mirrors pubkey.go (validated on generated inputs); field arithmetic inside the parser is modelled at value level (x, y as naturals mod P) - the limb level is C05/C16.",
        "technique": "Lean 4 proof over a hand-written model (Secp.Props.C08) + differential correspondence with ParsePubKey and an independent spec oracle",
        "project": proj_c08,
        "trusted_base": COMMON_TRUST + ["Mathlib ZMod / Euler criterion", "Model.parsePubKey mirrors pubkey.go (hand-written)"],
        "assumptions": ["field operations inside ParsePubKey are exact mod P (this is what C05/C16 establish at limb level)"],
    },
    "C19": {
        "level_text": "Machine-checked theorems (Lean 4 kernel), by induction over the entropy stream, about a hand-written model of generatePrivateKey/PrivKeyFromBytes/Serialize/Zero: success iff some whole 32-byte block is in [1,N-1], the key is exactly the FIRST such block, exactly the blocks up to it are consumed, earlier blocks are discarded never reduced; otherwise the io.ReadFull error (reader error / ErrUnexpectedEOF) and no key; load+serialise = be32(first 32 bytes mod N); Zero clears. Tied to the code by running scripted readers (arbitrary chunking, failure at every offset 0..96, error returned with data) through GeneratePrivateKeyFromRand and diffing result and bytes consumed.",
        "level_note": "Trusted: Lean kernel; io.ReadFull's documented contract (the reader is abstracted to the bytes it delivers and its terminal error); the hand-written model mirrors privkey.go (validated on generated streams); SetBytes at value level (limb level is C06).",
        "technique": "Lean 4 proof by induction over streams (Secp.Props.C19) + differential correspondence with scripted io.Readers",
        "trusted_base": COMMON_TRUST + ["io.ReadFull contract", "Model.generatePrivateKey mirrors privkey.go (hand-written)"],
        "assumptions": ["a reader is characterised by the bytes it delivers and its terminal error (what io.ReadFull can observe)"],
    },
    "C09": {
        "level_text": "Machine-checked theorems (Lean 4 kernel) for ALL byte strings about a hand-written model of ParseDERSignature/Serialize: never panics; accepts exactly the canonical DER of (r,s) in [1,N-1]^2 and returns those values; length 8..72; uniqueness; serialise = canonical DER of (r, low-s); both round trips; every error kind names a really violated rule. The model is tied to the code by a correspondence run (structure-aware mutations of valid encodings, all lengths 0..80) diffed against the real parser.",
        "level_note": "Trusted: Lean kernel (axioms propext, Classical.choice, Quot.sound); that the hand-written model mirrors signature.go (validated only on generated inputs); scalar decoding inside the parser modelled at value level (limb level is C06).",
        "technique": "Lean 4 proof over a hand-written model (Secp.Props.C09) + differential correspondence with the Go parser",
        "project": proj_c09,
        "trusted_base": COMMON_TRUST + ["Model.parseDER / serializeDER mirror signature.go ParseDERSignature / Serialize (hand-written)"],
        "assumptions": ["scalar decoding inside the parser is modelled at value level (SetByteSlice = reduce once); the limb-level kernel is C06's concern"],
    },
}
