import Secp.Proofs.FrontSchnorrPub
import Secp.Proofs.PubKey
import Secp.Proofs.Slices
import Secp.Proofs.BytesProgPub
import Secp.Proofs.BytesBuild
/-
  Props/C08 — public-key parsing accepts exactly the valid encodings and round-trips.
  Model: `Secp.Model.parsePubKey`, `serializeCompressed/Uncompressed`,
  `schnorrParsePubKey` (hand-written mirrors of pubkey.go and schnorr/pubkey.go).
  Specification: `Secp.Spec.ValidSEC1`.
-/
namespace Secp.Props.C08
open Secp.Spec Secp.Model

theorem parsePubKey_no_panic (b : Bytes) : parsePubKey b ≠ .panic :=
  Secp.Proofs.PubKey.parsePubKey_no_panic b

/-- accepted ⇔ valid SEC1 encoding of that very point -/
theorem parse_iff (b : Bytes) (x y : Nat) : parsePubKey b = .ok (x, y) ↔ ValidSEC1 b x y :=
  Secp.Proofs.PubKey.parse_iff b x y

/-- no parsed key is ever off the curve -/
theorem parse_on_curve (b : Bytes) (x y : Nat) (h : parsePubKey b = .ok (x, y)) : OnCurve x y :=
  ((parse_iff b x y).1 h).1

/-- each rejection names a rule the input really violates -/
theorem parse_err_sound (b : Bytes) (e : PubErr) (h : parsePubKey b = .err e) : PubViolates b e :=
  Secp.Proofs.PubKey.parse_err_sound b e h

/-- serialise then parse gives an equal key (both forms) -/
theorem parse_serialize_compressed (x y : Nat) (h : OnCurve x y) :
    parsePubKey (serializeCompressed x y) = .ok (x, y) :=
  Secp.Proofs.PubKey.parse_serialize_compressed x y h

theorem parse_serialize_uncompressed (x y : Nat) (h : OnCurve x y) :
    parsePubKey (serializeUncompressed x y) = .ok (x, y) :=
  Secp.Proofs.PubKey.parse_serialize_uncompressed x y h

/-- canonical inputs are reproduced byte for byte -/
theorem serialize_parse_compressed (b : Bytes) (x y : Nat) (hb : b.length = 33)
    (h : parsePubKey b = .ok (x, y)) : serializeCompressed x y = b :=
  Secp.Proofs.PubKey.serialize_parse_compressed b x y hb h

theorem serialize_parse_uncompressed (b : Bytes) (x y : Nat) (hb : b[0]? = some 0x04)
    (h : parsePubKey b = .ok (x, y)) : serializeUncompressed x y = b :=
  Secp.Proofs.PubKey.serialize_parse_uncompressed b x y hb h

/-- hybrid inputs re-serialise to the canonical uncompressed form of the same point -/
theorem serialize_parse_hybrid (b : Bytes) (x y : Nat) (hb : b[0]? = some 0x06 ∨ b[0]? = some 0x07)
    (h : parsePubKey b = .ok (x, y)) : serializeUncompressed x y = (0x04 : UInt8) :: b.drop 1 :=
  Secp.Proofs.PubKey.serialize_parse_hybrid b x y hb h

/-- the Schnorr parser accepts exactly the compressed encodings -/
theorem schnorr_parse_iff (b : Bytes) (x y : Nat) :
    schnorrParsePubKey false b = .ok (x, y) ↔ (b.length = 33 ∧ ValidSEC1 b x y) :=
  Secp.Proofs.PubKey.schnorr_parse_iff b x y

-- non-vacuity: the generator in all three forms
example : OnCurve Gx Gy := by decide +kernel


/-- Limb level of this property's own functions: the REGENERATED sliced field programs (tools/gotr pass T2s,
    `Secp.Gen.Slices`) of `ParsePubKey` (range checks decide normalisation, parity, curve test, DecompressY then Normalize), the serialisers and the Schnorr wrapper: every returned key has normalised coordinates pass the abstract interpreter on every path — no magnitude overflow, every
    comparison / parity test / serialisation reads a normalised value, every callee's precondition holds,
    every returned key or point is normalised.  Together with C05 (kernels) and C16 (`absPath_sound`,
    `contracts_justified`) this is what makes the value-level model above faithful to the limb code. -/
theorem pubkey_field_arithmetic_exact :
    Secp.Proofs.Slices.entriesOK ["github.com/ModChain/secp256k1.ParsePubKey", "github.com/ModChain/secp256k1.PublicKey.SerializeCompressed", "github.com/ModChain/secp256k1.PublicKey.SerializeUncompressed", "github.com/ModChain/secp256k1.NewPublicKey", "github.com/ModChain/secp256k1.PublicKey.IsEqual", "github.com/ModChain/secp256k1.PublicKey.IsOnCurve", "github.com/ModChain/secp256k1/schnorr.ParsePubKey"] = true := by decide +kernel


/-! ### the parser as REGENERATED from pubkey.go (tools/gotr pass T7) -/

/-- `Secp.Gen.BytesProg.parsePubKey` — the statement-by-statement translation of `ParsePubKey` produced on every run (length
    switch, format switch, range checks through `SetByteSlice`, the hybrid parity block, `isOnCurve`, `DecompressY`) — is the
    same function as the hand-written model, so the theorems of this file are theorems about what the Go source says now:
    a format byte admitted or refused, a slice bound, the parity comparison, a dropped check or a changed error kind makes this
    theorem fail to check. -/
theorem parsePubKey_regenerated (b : Bytes) : Secp.Gen.BytesProg.parsePubKey b = parsePubKey b :=
  Secp.Proofs.BytesProgPub.parsePubKey_gen_eq_model b

/-- the REGENERATED parser never indexes or slices out of range -/
theorem regenerated_no_panic (b : Bytes) : Secp.Gen.BytesProg.parsePubKey b ≠ .panic := by
  rw [parsePubKey_regenerated]; exact parsePubKey_no_panic b


/-- the serialisers as REGENERATED from pubkey.go (pass T7, builders) are the models used above -/
theorem serializeCompressed_regenerated (x y : Nat) :
    Secp.Gen.BytesBuild.serializeCompressed x y = serializeCompressed x y :=
  Secp.Proofs.BytesBuild.serializeCompressed_gen_eq_model x y

theorem serializeUncompressed_regenerated (x y : Nat) :
    Secp.Gen.BytesBuild.serializeUncompressed x y = serializeUncompressed x y :=
  Secp.Proofs.BytesBuild.serializeUncompressed_gen_eq_model x y


/-- `schnorr.ParsePubKey` (schnorr/pubkey.go: nil test, length test, format byte with the parity bit masked, then
    `secp256k1.ParsePubKey`) regenerated by pass T8 = `schnorrParsePubKey`, for every byte string, nil or not -/
theorem schnorrParsePubKey_regenerated (b : Bytes) (isNil : Bool) :
    Secp.Gen.Drivers.schnorrParsePubKeyGen b isNil =
      (match schnorrParsePubKey isNil b with | .ok pk => DR.ok pk | .err e => DR.err e | .panic => DR.panic) :=
  Secp.Proofs.FrontSchnorrPub.schnorrParsePubKey_regenerated b isNil

end Secp.Props.C08
