import Secp.Core.IR
/-
  Proofs/IRSound — soundness of the interval analysis `bnd` of Core/IR:
  whenever `bnd` succeeds, the wrap-around semantics `evalW` and the ideal
  semantics `evalN` agree and the value lies in the computed interval.
  Core Lean only.
-/
namespace Secp.Proofs.IRSound
open Secp.IR

/-! ### small arithmetic facts -/

theorem lt_two_pow_bits (n : Nat) : n < 2 ^ bits n := by
  unfold bits
  split
  · subst_vars; exact Nat.two_pow_pos _
  · exact Nat.lt_log2_self

theorem le_lt_two_pow_max_left {a ha : Nat} (h : a ≤ ha) (hb : Nat) :
    a < 2 ^ max (bits ha) (bits hb) :=
  Nat.lt_of_lt_of_le (Nat.lt_of_le_of_lt h (lt_two_pow_bits ha))
    (Nat.pow_le_pow_right (by decide) (Nat.le_max_left _ _))

theorem le_lt_two_pow_max_right {b hb : Nat} (h : b ≤ hb) (ha : Nat) :
    b < 2 ^ max (bits ha) (bits hb) :=
  Nat.lt_of_lt_of_le (Nat.lt_of_le_of_lt h (lt_two_pow_bits hb))
    (Nat.pow_le_pow_right (by decide) (Nat.le_max_right _ _))

theorem b2n_le_one (b : Bool) : b2n b ≤ 1 := by
  cases b <;> simp [b2n]

theorem sub_wrap {a b P : Nat} (hba : b ≤ a) (ha : a < P) : (a + P - b % P) % P = a - b := by
  have hb : b % P = b := Nat.mod_eq_of_lt (Nat.lt_of_le_of_lt hba ha)
  rw [hb]
  have : a + P - b = (a - b) + P := by omega
  rw [this, Nat.add_mod_right]
  exact Nat.mod_eq_of_lt (by omega)

/-! ### `Within` -/

theorem within_getElem? : ∀ (env : List Nat) (β : List Ival), Within env β →
    ∀ (i : Nat) (r : Ival), β[i]? = some r → inIval (env.getD i 0) r
  | [], [], _, i, r, h => by simp at h
  | [], _ :: _, hW, _, _, _ => hW.elim
  | _ :: _, [], hW, _, _, _ => hW.elim
  | v :: vs, b :: bs, hW, 0, r, h => by
      have : b = r := by simpa using h
      subst this
      simpa using hW.1
  | v :: vs, b :: bs, hW, i + 1, r, h => by
      have h' : bs[i]? = some r := by simpa using h
      simpa using within_getElem? vs bs hW.2 i r h'

theorem within_snoc : ∀ (env : List Nat) (β : List Ival), Within env β →
    ∀ (v : Nat) (r : Ival), inIval v r → Within (env ++ [v]) (β ++ [r])
  | [], [], _, _, _, h => ⟨h, trivial⟩
  | [], _ :: _, hW, _, _, _ => hW.elim
  | _ :: _, [], hW, _, _, _ => hW.elim
  | _ :: vs, _ :: bs, hW, v, r, h => ⟨hW.1, within_snoc vs bs hW.2 v r h⟩

theorem within_reverse : ∀ (env : List Nat) (β : List Ival), Within env β →
    Within env.reverse β.reverse
  | [], [], _ => trivial
  | [], _ :: _, hW => hW.elim
  | _ :: _, [], hW => hW.elim
  | v :: vs, b :: bs, hW => by
      simp only [List.reverse_cons]
      exact within_snoc _ _ (within_reverse vs bs hW.2) v b hW.1

/-! ### soundness of `bnd` -/

theorem bnd_sound (β : List Ival) (env : List Nat) (hW : Within env β) (e : Expr) (r : Ival)
    (h : bnd β e = some r) : evalW env e = evalN env e ∧ inIval (evalN env e) r := by
  induction e generalizing r with
  | var i =>
      simp only [bnd] at h
      exact ⟨rfl, within_getElem? env β hW i r h⟩
  | const n =>
      simp only [bnd, Option.some.injEq] at h
      subst h
      exact ⟨rfl, Nat.le_refl _, Nat.le_refl _⟩
  | add w a b iha ihb =>
      simp only [bnd, Option.bind_eq_bind, Option.bind_eq_some_iff] at h
      obtain ⟨ra, hra, rb, hrb, h⟩ := h
      obtain ⟨ea, la, ua⟩ := iha ra hra
      obtain ⟨eb, lb, ub⟩ := ihb rb hrb
      split at h
      · rename_i hc
        simp only [Option.some.injEq] at h
        subst h
        simp only [evalW, evalN, ea, eb, inIval]
        refine ⟨Nat.mod_eq_of_lt ?_, ?_, ?_⟩ <;> omega
      · cases h
  | sub w a b iha ihb =>
      simp only [bnd, Option.bind_eq_bind, Option.bind_eq_some_iff] at h
      obtain ⟨ra, hra, rb, hrb, h⟩ := h
      obtain ⟨ea, la, ua⟩ := iha ra hra
      obtain ⟨eb, lb, ub⟩ := ihb rb hrb
      split at h
      · rename_i hc
        simp only [Option.some.injEq] at h
        subst h
        simp only [evalW, evalN, ea, eb, inIval]
        refine ⟨sub_wrap ?_ ?_, ?_, ?_⟩ <;> omega
      · cases h
  | mul w a b iha ihb =>
      simp only [bnd, Option.bind_eq_bind, Option.bind_eq_some_iff] at h
      obtain ⟨ra, hra, rb, hrb, h⟩ := h
      obtain ⟨ea, la, ua⟩ := iha ra hra
      obtain ⟨eb, lb, ub⟩ := ihb rb hrb
      split at h
      · rename_i hc
        simp only [Option.some.injEq] at h
        subst h
        simp only [evalW, evalN, ea, eb, inIval]
        have hmul : evalN env a * evalN env b ≤ ra.2 * rb.2 := Nat.mul_le_mul ua ub
        exact ⟨Nat.mod_eq_of_lt (Nat.lt_of_le_of_lt hmul hc), Nat.mul_le_mul la lb, hmul⟩
      · cases h
  | shr a k iha =>
      simp only [bnd, Option.bind_eq_bind, Option.bind_eq_some_iff, Option.some.injEq] at h
      obtain ⟨ra, hra, h⟩ := h
      obtain ⟨ea, la, ua⟩ := iha ra hra
      subst h
      simp only [evalW, evalN, ea, inIval, Nat.shiftRight_eq_div_pow]
      exact ⟨trivial, Nat.div_le_div_right la, Nat.div_le_div_right ua⟩
  | shl w a k iha =>
      simp only [bnd, Option.bind_eq_bind, Option.bind_eq_some_iff] at h
      obtain ⟨ra, hra, h⟩ := h
      obtain ⟨ea, la, ua⟩ := iha ra hra
      split at h
      · rename_i hc
        simp only [Option.some.injEq] at h
        subst h
        simp only [evalW, evalN, ea, inIval, Nat.shiftLeft_eq]
        have hmul : evalN env a * 2 ^ k ≤ ra.2 * 2 ^ k := Nat.mul_le_mul_right _ ua
        exact ⟨Nat.mod_eq_of_lt (Nat.lt_of_le_of_lt hmul hc), Nat.mul_le_mul_right _ la, hmul⟩
      · cases h
  | low k a iha =>
      simp only [bnd, Option.bind_eq_bind, Option.bind_eq_some_iff] at h
      obtain ⟨ra, hra, h⟩ := h
      obtain ⟨ea, la, ua⟩ := iha ra hra
      simp only [evalW, evalN, ea, Nat.and_two_pow_sub_one_eq_mod, true_and]
      split at h
      · rename_i hc
        simp only [Option.some.injEq] at h
        subst h
        rw [Nat.mod_eq_of_lt (Nat.lt_of_le_of_lt ua hc)]
        exact ⟨la, ua⟩
      · simp only [Option.some.injEq] at h
        subst h
        have : evalN env a % 2 ^ k < 2 ^ k := Nat.mod_lt _ (Nat.two_pow_pos _)
        exact ⟨Nat.zero_le _, by simp only; omega⟩
  | and a b iha ihb =>
      simp only [bnd, Option.bind_eq_bind, Option.bind_eq_some_iff, Option.some.injEq] at h
      obtain ⟨ra, hra, rb, hrb, h⟩ := h
      obtain ⟨ea, la, ua⟩ := iha ra hra
      obtain ⟨eb, lb, ub⟩ := ihb rb hrb
      subst h
      simp only [evalW, evalN, ea, eb, inIval, true_and]
      exact ⟨Nat.zero_le _, Nat.le_min.mpr
        ⟨Nat.le_trans Nat.and_le_left ua, Nat.le_trans Nat.and_le_right ub⟩⟩
  | or a b iha ihb =>
      simp only [bnd, Option.bind_eq_bind, Option.bind_eq_some_iff, Option.some.injEq] at h
      obtain ⟨ra, hra, rb, hrb, h⟩ := h
      obtain ⟨ea, la, ua⟩ := iha ra hra
      obtain ⟨eb, lb, ub⟩ := ihb rb hrb
      subst h
      simp only [evalW, evalN, ea, eb, inIval, true_and]
      have := Nat.or_lt_two_pow (le_lt_two_pow_max_left ua rb.2) (le_lt_two_pow_max_right ub ra.2)
      exact ⟨Nat.zero_le _, by omega⟩
  | xor a b iha ihb =>
      simp only [bnd, Option.bind_eq_bind, Option.bind_eq_some_iff, Option.some.injEq] at h
      obtain ⟨ra, hra, rb, hrb, h⟩ := h
      obtain ⟨ea, la, ua⟩ := iha ra hra
      obtain ⟨eb, lb, ub⟩ := ihb rb hrb
      subst h
      simp only [evalW, evalN, ea, eb, inIval, true_and]
      have := Nat.xor_lt_two_pow (le_lt_two_pow_max_left ua rb.2) (le_lt_two_pow_max_right ub ra.2)
      exact ⟨Nat.zero_le _, by omega⟩
  | not w a iha =>
      simp only [bnd, Option.bind_eq_bind, Option.bind_eq_some_iff] at h
      obtain ⟨ra, hra, h⟩ := h
      obtain ⟨ea, la, ua⟩ := iha ra hra
      split at h
      · rename_i hc
        simp only [Option.some.injEq] at h
        subst h
        simp only [evalW, evalN, ea, inIval]
        rw [Nat.mod_eq_of_lt (Nat.lt_of_le_of_lt ua hc)]
        refine ⟨rfl, ?_, ?_⟩ <;> omega
      · cases h
  | neg w a _ =>
      simp only [bnd] at h
      cases h
  | conv w a iha =>
      simp only [bnd, Option.bind_eq_bind, Option.bind_eq_some_iff] at h
      obtain ⟨ra, hra, h⟩ := h
      obtain ⟨ea, la, ua⟩ := iha ra hra
      simp only [evalW, evalN, ea, true_and]
      split at h
      · rename_i hc
        simp only [Option.some.injEq] at h
        subst h
        rw [Nat.mod_eq_of_lt (Nat.lt_of_le_of_lt ua hc)]
        exact ⟨la, ua⟩
      · simp only [Option.some.injEq] at h
        subst h
        have : evalN env a % 2 ^ w < 2 ^ w := Nat.mod_lt _ (Nat.two_pow_pos _)
        exact ⟨Nat.zero_le _, by simp only; omega⟩
  | eq a b iha ihb =>
      simp only [bnd, Option.bind_eq_bind, Option.bind_eq_some_iff, Option.some.injEq] at h
      obtain ⟨ra, hra, rb, hrb, h⟩ := h
      obtain ⟨ea, -⟩ := iha ra hra
      obtain ⟨eb, -⟩ := ihb rb hrb
      subst h
      simp only [evalW, evalN, ea, eb, true_and]
      exact ⟨Nat.zero_le _, b2n_le_one _⟩
  | ne a b iha ihb =>
      simp only [bnd, Option.bind_eq_bind, Option.bind_eq_some_iff, Option.some.injEq] at h
      obtain ⟨ra, hra, rb, hrb, h⟩ := h
      obtain ⟨ea, -⟩ := iha ra hra
      obtain ⟨eb, -⟩ := ihb rb hrb
      subst h
      simp only [evalW, evalN, ea, eb, true_and]
      exact ⟨Nat.zero_le _, b2n_le_one _⟩
  | ctEq a b iha ihb =>
      simp only [bnd, Option.bind_eq_bind, Option.bind_eq_some_iff] at h
      obtain ⟨ra, hra, rb, hrb, h⟩ := h
      obtain ⟨ea, -⟩ := iha ra hra
      obtain ⟨eb, -⟩ := ihb rb hrb
      split at h
      · simp only [Option.some.injEq] at h
        subst h
        simp only [evalW, evalN, ea, eb, true_and]
        exact ⟨Nat.zero_le _, b2n_le_one _⟩
      · cases h
  | ctNe a b iha ihb =>
      simp only [bnd, Option.bind_eq_bind, Option.bind_eq_some_iff] at h
      obtain ⟨ra, hra, rb, hrb, h⟩ := h
      obtain ⟨ea, -⟩ := iha ra hra
      obtain ⟨eb, -⟩ := ihb rb hrb
      split at h
      · simp only [Option.some.injEq] at h
        subst h
        simp only [evalW, evalN, ea, eb, true_and]
        exact ⟨Nat.zero_le _, b2n_le_one _⟩
      · cases h
  | ctLt a b iha ihb =>
      simp only [bnd, Option.bind_eq_bind, Option.bind_eq_some_iff] at h
      obtain ⟨ra, hra, rb, hrb, h⟩ := h
      obtain ⟨ea, -⟩ := iha ra hra
      obtain ⟨eb, -⟩ := ihb rb hrb
      split at h
      · simp only [Option.some.injEq] at h
        subst h
        simp only [evalW, evalN, ea, eb, true_and]
        exact ⟨Nat.zero_le _, b2n_le_one _⟩
      · cases h
  | ctLe a b iha ihb =>
      simp only [bnd, Option.bind_eq_bind, Option.bind_eq_some_iff] at h
      obtain ⟨ra, hra, rb, hrb, h⟩ := h
      obtain ⟨ea, -⟩ := iha ra hra
      obtain ⟨eb, -⟩ := ihb rb hrb
      split at h
      · simp only [Option.some.injEq] at h
        subst h
        simp only [evalW, evalN, ea, eb, true_and]
        exact ⟨Nat.zero_le _, b2n_le_one _⟩
      · cases h
  | ctMin a b iha ihb =>
      simp only [bnd, Option.bind_eq_bind, Option.bind_eq_some_iff] at h
      obtain ⟨ra, hra, rb, hrb, h⟩ := h
      obtain ⟨ea, la, ua⟩ := iha ra hra
      obtain ⟨eb, lb, ub⟩ := ihb rb hrb
      split at h
      · simp only [Option.some.injEq] at h
        subst h
        simp only [evalW, evalN, ea, eb, inIval, true_and]
        refine ⟨?_, ?_⟩ <;> omega
      · cases h
  | accAdd a b iha ihb =>
      simp only [bnd, Option.bind_eq_bind, Option.bind_eq_some_iff] at h
      obtain ⟨ra, hra, rb, hrb, h⟩ := h
      obtain ⟨ea, la, ua⟩ := iha ra hra
      obtain ⟨eb, lb, ub⟩ := ihb rb hrb
      split at h
      · rename_i hc
        simp only [Option.some.injEq] at h
        subst h
        simp only [evalW, evalN, ea, eb, inIval]
        refine ⟨Nat.mod_eq_of_lt ?_, ?_, ?_⟩ <;> omega
      · cases h

/-! ### bodies and kernels -/

theorem bndBody_sound (body : List Expr) (β β' : List Ival) (env : List Nat) (hW : Within env β)
    (h : bndBody body β = some β') :
    runBody evalW body env = runBody evalN body env ∧ Within (runBody evalN body env) β' := by
  induction body generalizing β env with
  | nil =>
      simp only [bndBody, Option.some.injEq] at h
      subst h
      exact ⟨rfl, hW⟩
  | cons e rest ih =>
      simp only [bndBody, Option.bind_eq_bind, Option.bind_eq_some_iff] at h
      obtain ⟨r, hr, h⟩ := h
      obtain ⟨ee, hi⟩ := bnd_sound β env hW e r hr
      simp only [runBody, ee]
      exact ih (r :: β) (evalN env e :: env) ⟨hi, hW⟩ h

theorem outs_sound (β : List Ival) (env : List Nat) (hW : Within env β) (outs : List Expr)
    (βout : List Ival) (h : outs.mapM (bnd β) = some βout) :
    outs.map (evalW env) = outs.map (evalN env) ∧ Within (outs.map (evalN env)) βout := by
  induction outs generalizing βout with
  | nil =>
      simp only [List.mapM_nil, Option.pure_def, Option.some.injEq] at h
      subst h
      exact ⟨rfl, trivial⟩
  | cons e rest ih =>
      simp only [List.mapM_cons, Option.pure_def, Option.bind_eq_bind, Option.bind_eq_some_iff,
        Option.some.injEq] at h
      obtain ⟨r, hr, rs, hrs, h⟩ := h
      subst h
      obtain ⟨ee, hi⟩ := bnd_sound β env hW e r hr
      obtain ⟨er, hrW⟩ := ih rs hrs
      simp only [List.map_cons, ee, er]
      exact ⟨trivial, hi, hrW⟩

theorem check_sound (k : Kernel) (βin βout : List Ival) (inputs : List Nat)
    (hin : Within inputs βin) (h : k.check βin = some βout) :
    k.runW inputs = k.runN inputs ∧ Within (k.runN inputs) βout := by
  simp only [Kernel.check, Option.bind_eq_bind, Option.bind_eq_some_iff] at h
  obtain ⟨β, hβ, h⟩ := h
  obtain ⟨eb, hW⟩ := bndBody_sound k.body βin.reverse β inputs.reverse
    (within_reverse inputs βin hin) hβ
  simp only [Kernel.runW, Kernel.runN, eb]
  exact outs_sound β _ hW k.outs βout h

end Secp.Proofs.IRSound
