import Secp.Proofs.ScalarLemmas
/-
  Proofs/ScalarKernels — C06: the small `ModNScalar` kernels (everything except the
  multiplication / wide reductions, which live in Proofs/ScalarMul).  Core Lean only
  (no Mathlib), so that `2 ^ k` literals elaborate as in Gen/ and Core/.
  The theorems live in namespace `Secp.Proofs.ScalarSmall`.
-/
namespace Secp.Proofs.ScalarSmall
open Secp.IR Secp.Gen Secp.Gen.Bounds Secp.Proofs.IRRun Secp.KernelSpecs Secp.Limbs Secp.Spec
open Secp.Proofs.ScalarLemmas

/-! ### compare kernels -/

theorem overflows_spec (s : L8) (hs : s.U32) :
    Scalar_overflows.runW s.toList = [if s.val ≥ N then 1 else 0] := by
  obtain ⟨n0, n1, n2, n3, n4, n5, n6, n7⟩ := s
  simp only [L8.U32] at hs
  obtain ⟨h0, h1, h2, h3, h4, h5, h6, h7⟩ := hs
  run_W Scalar_overflows [n0, n1, n2, n3, n4, n5, n6, n7]
  rw [← overflows_chain n0 n1 n2 n3 n4 n5 n6 n7 _ _ _ _ _ _ _ _ _ _ _ _ _ _ _ _ _ h0 h1 h2 h3 h4 h5 h6 h7
    e0 e1 e2 e3 e4 e5 e6 e7 e8 e9 e10 e11 e12 e13 e14 e15 e16]
  exact hrun

theorem isOverHalfOrder_spec (s : L8) (hs : s.U32) :
    Scalar_IsOverHalfOrder.runW s.toList = [if s.val > halfN then 1 else 0] := by
  obtain ⟨n0, n1, n2, n3, n4, n5, n6, n7⟩ := s
  simp only [L8.U32] at hs
  obtain ⟨h0, h1, h2, h3, h4, h5, h6, h7⟩ := hs
  run_W Scalar_IsOverHalfOrder [n0, n1, n2, n3, n4, n5, n6, n7]
  rw [← halfOrder_chain n0 n1 n2 n3 n4 n5 n6 n7 _ _ _ _ _ _ _ _ _ _ _ _ _ _ _ _ _ h0 h1 h2 h3 h4 h5 h6 h7
    e0 e1 e2 e3 e4 e5 e6 e7 e8 e9 e10 e11 e12 e13 e14 e15 e16]
  exact hrun

theorem isZero_spec (s : L8) (hs : s.U32) :
    Scalar_IsZero.runW s.toList = [if s.val = 0 then 1 else 0] ∧
    Scalar_IsZeroBit.runW s.toList = [if s.val = 0 then 1 else 0] := by
  obtain ⟨n0, n1, n2, n3, n4, n5, n6, n7⟩ := s
  simp only [L8.U32] at hs
  obtain ⟨h0, h1, h2, h3, h4, h5, h6, h7⟩ := hs
  have key : (n0 ||| n1 ||| n2 ||| n3 ||| n4 ||| n5 ||| n6 ||| n7 = 0) ↔
      (⟨n0, n1, n2, n3, n4, n5, n6, n7⟩ : L8).val = 0 := by
    rw [or8_eq_zero]; simp only [L8.val]; omega
  constructor
  · run_W Scalar_IsZero [n0, n1, n2, n3, n4, n5, n6, n7]
    rw [← (Ind.congr (Ind.beq e1) (e0 ▸ key)).ite]
    exact hrun
  · run_W Scalar_IsZeroBit [n0, n1, n2, n3, n4, n5, n6, n7]
    rw [← (Ind.congr (Ind.beq e1) (e0 ▸ key)).ite]
    exact hrun

theorem isOdd_spec (s : L8) (hs : s.U32) : Scalar_IsOdd.runW s.toList = [s.val % 2] := by
  obtain ⟨n0, n1, n2, n3, n4, n5, n6, n7⟩ := s
  run_W Scalar_IsOdd [n0, n1, n2, n3, n4, n5, n6, n7]
  refine Eq.trans hrun ?_
  rw [e0, Nat.and_two_pow_sub_one_eq_mod]
  simp only [L8.val, b2n]
  congr 1
  have : n0 % 2 ^ 1 = 0 ∨ n0 % 2 ^ 1 = 1 := by omega
  rcases this with h | h <;> rw [h] <;> simp <;> omega

theorem equals_spec (s a : L8) (hs : s.U32) (ha : a.U32) :
    Scalar_Equals.runW (s.toList ++ a.toList) = [if s.val = a.val then 1 else 0] := by
  have hinj := val_inj s a hs ha
  obtain ⟨n0, n1, n2, n3, n4, n5, n6, n7⟩ := s
  obtain ⟨a0, a1, a2, a3, a4, a5, a6, a7⟩ := a
  simp only [] at hinj
  run_W Scalar_Equals [n0, n1, n2, n3, n4, n5, n6, n7, a0, a1, a2, a3, a4, a5, a6, a7]
  have key : v0 = 0 ↔ (⟨n0, n1, n2, n3, n4, n5, n6, n7⟩ : L8).val = (⟨a0, a1, a2, a3, a4, a5, a6, a7⟩ : L8).val := by
    rw [hinj, e0, or8_eq_zero]
    simp only [xor_eq_zero_iff]
  rw [← (Ind.congr (Ind.beq e1) key).ite]
  exact hrun

/-! ### reduce256 -/

theorem reduce256_spec (s : L8) (o : Nat) (hs : s.U32) (ho : o ≤ 1) :
    ∃ r : L8, Scalar_reduce256.runW (s.toList ++ [o]) = r.toList ∧ r.U32 ∧
      r.val = (s.val + o * (2^256 - N)) % 2^256 := by
  obtain ⟨n0, n1, n2, n3, n4, n5, n6, n7⟩ := s
  simp only [L8.U32] at hs
  have hin : Within [n0, n1, n2, n3, n4, n5, n6, n7, o] Scalar_reduce256_full_in := by
    simp only [Within, inIval, Scalar_reduce256_full_in, and_true, Nat.zero_le, true_and]; omega
  run_N Scalar_reduce256 [n0, n1, n2, n3, n4, n5, n6, n7, o] with hin, Scalar_reduce256_full_mid_ok, Scalar_reduce256_full_out_ok
  clear hW
  obtain ⟨hval, hU⟩ := reduce256_chain n0 n1 n2 n3 n4 n5 n6 n7 o _ _ _ _ _ _ _ _ _ _ _ _ _ _ _ _
    e0 e1 e2 e3 e4 e5 e6 e7 e8 e9 e10 e11 e12 e13 e14 e15
  refine ⟨⟨v1, v3, v5, v7, v9, v11, v13, v15⟩, hrun, hU, ?_⟩
  have hlt := val_lt _ hU
  rw [← hval]
  omega

/-! ### NegateVal -/

/-- the no-wrap certificate with the (never read) receiver slots left symbolic -/
theorem neg_mid (n0 n1 n2 n3 n4 n5 n6 n7 : Nat) :
    bndBody Scalar_NegateVal.body
      ([(n0, n0), (n1, n1), (n2, n2), (n3, n3), (n4, n4), (n5, n5), (n6, n6), (n7, n7)] ++
        Scalar_NegateVal_full_in.drop 8).reverse =
    some (Scalar_NegateVal_full_mid.take 26 ++
      [(n7, n7), (n6, n6), (n5, n5), (n4, n4), (n3, n3), (n2, n2), (n1, n1), (n0, n0)]) := rfl

theorem neg_out (n0 n1 n2 n3 n4 n5 n6 n7 : Nat) :
    Scalar_NegateVal.outs.mapM (bnd (Scalar_NegateVal_full_mid.take 26 ++
      [(n7, n7), (n6, n6), (n5, n5), (n4, n4), (n3, n3), (n2, n2), (n1, n1), (n0, n0)])) =
    some Scalar_NegateVal_full_out := rfl

theorem negate_spec (s a : L8) (ha : a.Canon) :
    ∃ r : L8, Scalar_NegateVal.runW (s.toList ++ a.toList) = r.toList ∧ r.Canon ∧ r.val = (N - a.val) % N := by
  obtain ⟨n0, n1, n2, n3, n4, n5, n6, n7⟩ := s
  obtain ⟨a0, a1, a2, a3, a4, a5, a6, a7⟩ := a
  obtain ⟨hU, hlt⟩ := ha
  simp only [L8.U32] at hU
  simp only [L8.val, N] at hlt
  have hin : Within [n0, n1, n2, n3, n4, n5, n6, n7, a0, a1, a2, a3, a4, a5, a6, a7]
      ([(n0, n0), (n1, n1), (n2, n2), (n3, n3), (n4, n4), (n5, n5), (n6, n6), (n7, n7)] ++
        Scalar_NegateVal_full_in.drop 8) := by
    simp only [Within, inIval, Scalar_NegateVal_full_in, List.drop_succ_cons, List.drop_zero, List.cons_append,
      List.nil_append, and_true, Nat.zero_le, true_and, Nat.le_refl]
    omega
  run_N Scalar_NegateVal [n0, n1, n2, n3, n4, n5, n6, n7, a0, a1, a2, a3, a4, a5, a6, a7] with hin, neg_mid .., neg_out ..
  clear hW hin
  refine ⟨⟨v3, v5, v7, v9, v11, v13, v15, v17⟩, hrun, ?_⟩
  clear hrun
  simp only [L8.Canon, L8.U32, L8.val, N]
  by_cases hz : v0 = 0
  · have hv1 : v1 = 0 := by rw [e1, hz]; rfl
    rw [e0, or8_eq_zero] at hz
    subst hv1
    simp only [Nat.and_zero, Nat.zero_mod] at e3 e5 e7 e9 e11 e13 e15 e17
    omega
  · have hv1 : v1 = 4294967295 := by
      have : (v0 != 0) = true := by simpa using hz
      rw [e1, this]; rfl
    have hnz : ¬ (a0 = 0 ∧ a1 = 0 ∧ a2 = 0 ∧ a3 = 0 ∧ a4 = 0 ∧ a5 = 0 ∧ a6 = 0 ∧ a7 = 0) := by
      rw [← or8_eq_zero, ← e0]; exact hz
    subst hv1
    simp only [and_mask32] at e3 e5 e7 e9 e11 e13 e15 e17
    clear e0 e1 hz
    have hsum : v3 + v5 * 2^32 + v7 * 2^64 + v9 * 2^96 + v11 * 2^128 + v13 * 2^160 + v15 * 2^192 + v17 * 2^224 +
        v16 / 2^32 * 2^256 + (a0 + a1 * 2^32 + a2 * 2^64 + a3 * 2^96 + a4 * 2^128 + a5 * 2^160 + a6 * 2^192 + a7 * 2^224) =
        0xFFFFFFFFFFFFFFFFFFFFFFFFFFFFFFFEBAAEDCE6AF48A03BBFD25E8CD0364141 + 2^256 := by
      clear hlt hnz
      omega
    have hb : v3 < 2^32 ∧ v5 < 2^32 ∧ v7 < 2^32 ∧ v9 < 2^32 ∧ v11 < 2^32 ∧ v13 < 2^32 ∧ v15 < 2^32 ∧ v17 < 2^32 := by
      omega
    clear e2 e3 e4 e5 e6 e7 e8 e9 e10 e11 e12 e13 e14 e15 e16 e17
    have hApos : 0 < a0 + a1 * 2^32 + a2 * 2^64 + a3 * 2^96 + a4 * 2^128 + a5 * 2^160 + a6 * 2^192 + a7 * 2^224 := by
      omega
    have hRlt : v3 + v5 * 2^32 + v7 * 2^64 + v9 * 2^96 + v11 * 2^128 + v13 * 2^160 + v15 * 2^192 + v17 * 2^224 < 2^256 := by
      omega
    refine ⟨⟨hb, ?_⟩, ?_⟩ <;>
    · clear hb hnz hU
      generalize a0 + a1 * 2^32 + a2 * 2^64 + a3 * 2^96 + a4 * 2^128 + a5 * 2^160 + a6 * 2^192 + a7 * 2^224 = A at *
      generalize v3 + v5 * 2^32 + v7 * 2^64 + v9 * 2^96 + v11 * 2^128 + v13 * 2^160 + v15 * 2^192 + v17 * 2^224 = R at *
      omega

/-! ### Add2 -/

set_option maxRecDepth 100000 in
theorem add2_mid (n0 n1 n2 n3 n4 n5 n6 n7 : Nat) :
    bndBody Scalar_Add2.body ([(n0, n0), (n1, n1), (n2, n2), (n3, n3), (n4, n4), (n5, n5), (n6, n6), (n7, n7)] ++ Scalar_Add2_full_in.drop 8).reverse =
    some (Scalar_Add2_full_mid.take 66 ++ [(n7, n7), (n6, n6), (n5, n5), (n4, n4), (n3, n3), (n2, n2), (n1, n1), (n0, n0)]) := rfl

set_option maxRecDepth 100000 in
theorem add2_out (n0 n1 n2 n3 n4 n5 n6 n7 : Nat) :
    Scalar_Add2.outs.mapM (bnd (Scalar_Add2_full_mid.take 66 ++ [(n7, n7), (n6, n6), (n5, n5), (n4, n4), (n3, n3), (n2, n2), (n1, n1), (n0, n0)])) =
    some Scalar_Add2_full_out := rfl

theorem add2_spec (s a b : L8) (ha : a.Canon) (hb : b.Canon) :
    ∃ r : L8, Scalar_Add2.runW (s.toList ++ a.toList ++ b.toList) = r.toList ∧ r.Canon ∧
      r.val = (a.val + b.val) % N := by
  obtain ⟨n0, n1, n2, n3, n4, n5, n6, n7⟩ := s
  obtain ⟨a0, a1, a2, a3, a4, a5, a6, a7⟩ := a
  obtain ⟨b0, b1, b2, b3, b4, b5, b6, b7⟩ := b
  obtain ⟨haU, halt⟩ := ha
  obtain ⟨hbU, hblt⟩ := hb
  simp only [L8.U32] at haU hbU
  simp only [L8.val, N] at halt hblt
  have hin : Within [n0, n1, n2, n3, n4, n5, n6, n7, a0, a1, a2, a3, a4, a5, a6, a7, b0, b1, b2, b3, b4, b5, b6, b7]
      ([(n0, n0), (n1, n1), (n2, n2), (n3, n3), (n4, n4), (n5, n5), (n6, n6), (n7, n7)] ++ Scalar_Add2_full_in.drop 8) := by
    simp only [Within, inIval, Scalar_Add2_full_in, List.drop_succ_cons, List.drop_zero, List.cons_append,
      List.nil_append, and_true, Nat.zero_le, true_and, Nat.le_refl]
    omega
  run_N Scalar_Add2 [n0, n1, n2, n3, n4, n5, n6, n7, a0, a1, a2, a3, a4, a5, a6, a7, b0, b1, b2, b3, b4, b5, b6, b7] with hin, add2_mid .., add2_out ..
  clear hW hin
  refine ⟨⟨v35, v37, v39, v41, v43, v45, v47, v49⟩, hrun, ?_⟩
  clear hrun
  -- phase 1: the 256-bit addition with carry-out
  obtain ⟨hsum, w0, w1, w2, w3, w4, w5, w6, w7⟩ := add_chain a0 a1 a2 a3 a4 a5 a6 a7 b0 b1 b2 b3 b4 b5 b6 b7 _ _ _ _ _ _ _ _ _ _ _ _ _ _ _ _
    e0 e1 e2 e3 e4 e5 e6 e7 e8 e9 e10 e11 e12 e13 e14 e15
  simp only [] at w0 w1 w2 w3 w4 w5 w6 w7
  -- phase 2: the inlined `overflows`
  have hov := overflows_chain v1 v3 v5 v7 v9 v11 v13 v15 _ _ _ _ _ _ _ _ _ _ _ _ _ _ _ _ _ w0 w1 w2 w3 w4 w5 w6 w7
    e16 e17 e18 e19 e20 e21 e22 e23 e24 e25 e26 e27 e28 e29 e30 e31 e32
  -- phase 3: the inlined `reduce256`
  obtain ⟨hred, hRU⟩ := reduce256_chain v1 v3 v5 v7 v9 v11 v13 v15 v33 _ _ _ _ _ _ _ _ _ _ _ _ _ _ _ _
    e34 e35 e36 e37 e38 e39 e40 e41 e42 e43 e44 e45 e46 e47 e48 e49
  have hov' : ((⟨v1, v3, v5, v7, v9, v11, v13, v15⟩ : L8).val ≥ N ∧ v32 = 1) ∨
      ((⟨v1, v3, v5, v7, v9, v11, v13, v15⟩ : L8).val < N ∧ v32 = 0) := by
    split at hov
    · exact Or.inl ⟨‹_›, hov⟩
    · exact Or.inr ⟨Nat.lt_of_not_le ‹_›, hov⟩
  clear hov
  have hWlt := val_lt ⟨v1, v3, v5, v7, v9, v11, v13, v15⟩ ⟨w0, w1, w2, w3, w4, w5, w6, w7⟩
  have hRlt := val_lt _ hRU
  refine ⟨⟨hRU, ?_⟩, ?_⟩ <;>
  · clear hRU e0 e1 e2 e3 e4 e5 e6 e7 e8 e9 e10 e11 e12 e13 e14 e15 e16 e17 e18 e19 e20 e21 e22 e23 e24 e25 e26 e27 e28 e29 e30 e31 e32 e34 e35 e36 e37 e38 e39 e40 e41 e42 e43 e44 e45 e46 e47 e48 e49
    clear w0 w1 w2 w3 w4 w5 w6 w7 haU hbU
    simp only [L8.val, N] at *
    generalize a0 + a1 * 2^32 + a2 * 2^64 + a3 * 2^96 + a4 * 2^128 + a5 * 2^160 + a6 * 2^192 + a7 * 2^224 = A at *
    generalize b0 + b1 * 2^32 + b2 * 2^64 + b3 * 2^96 + b4 * 2^128 + b5 * 2^160 + b6 * 2^192 + b7 * 2^224 = B at *
    generalize v1 + v3 * 2^32 + v5 * 2^64 + v7 * 2^96 + v9 * 2^128 + v11 * 2^160 + v13 * 2^192 + v15 * 2^224 = W at *
    generalize v35 + v37 * 2^32 + v39 * 2^64 + v41 * 2^96 + v43 * 2^128 + v45 * 2^160 + v47 * 2^192 + v49 * 2^224 = R at *
    generalize v14 / 2^32 = c at *
    generalize v48 / 2^32 = c' at *
    have hc : c = 0 ∨ c = 1 := by omega
    rcases hc with rfl | rfl <;> rcases hov' with ⟨hge, rfl⟩ | ⟨hl, rfl⟩ <;> subst e33 <;> omega

/-! ### SetBytes -/

set_option maxRecDepth 100000 in
theorem set_mid (n0 n1 n2 n3 n4 n5 n6 n7 : Nat) :
    bndBody Scalar_SetBytes.body ([(n0, n0), (n1, n1), (n2, n2), (n3, n3), (n4, n4), (n5, n5), (n6, n6), (n7, n7)] ++ Scalar_SetBytes_full_in.drop 8).reverse =
    some (Scalar_SetBytes_full_mid.take 73 ++ [(n7, n7), (n6, n6), (n5, n5), (n4, n4), (n3, n3), (n2, n2), (n1, n1), (n0, n0)]) := rfl

set_option maxRecDepth 100000 in
theorem set_out (n0 n1 n2 n3 n4 n5 n6 n7 : Nat) :
    Scalar_SetBytes.outs.mapM (bnd (Scalar_SetBytes_full_mid.take 73 ++ [(n7, n7), (n6, n6), (n5, n5), (n4, n4), (n3, n3), (n2, n2), (n1, n1), (n0, n0)])) =
    some Scalar_SetBytes_full_out := rfl

set_option maxRecDepth 100000 in
theorem setBytes_spec (s : L8) (b : List Nat) (hb : b.length = 32) (hlt : AllLt 256 b) :
    ∃ r : L8, ∃ ov : Nat, Scalar_SetBytes.runW (s.toList ++ b) = r.toList ++ [ov] ∧ r.Canon ∧
      r.val = bytesVal b % N ∧ ov = (if bytesVal b ≥ N then 1 else 0) := by
  obtain ⟨n0, n1, n2, n3, n4, n5, n6, n7⟩ := s
  obtain ⟨b0, b1, b2, b3, b4, b5, b6, b7, b8, b9, b10, b11, b12, b13, b14, b15, b16, b17, b18, b19, b20, b21, b22, b23, b24, b25, b26, b27, b28, b29, b30, b31, rfl⟩ := list32 hb
  simp only [AllLt, List.mem_cons, List.not_mem_nil, or_false, forall_eq_or_imp, forall_eq] at hlt
  have hin : Within [n0, n1, n2, n3, n4, n5, n6, n7, b0, b1, b2, b3, b4, b5, b6, b7, b8, b9, b10, b11, b12, b13, b14, b15, b16, b17, b18, b19, b20, b21, b22, b23, b24, b25, b26, b27, b28, b29, b30, b31]
      ([(n0, n0), (n1, n1), (n2, n2), (n3, n3), (n4, n4), (n5, n5), (n6, n6), (n7, n7)] ++ Scalar_SetBytes_full_in.drop 8) := by
    simp only [Within, inIval, Scalar_SetBytes_full_in, List.drop_succ_cons, List.drop_zero, List.cons_append,
      List.nil_append, and_true, Nat.zero_le, true_and, Nat.le_refl]
    omega
  run_N Scalar_SetBytes [n0, n1, n2, n3, n4, n5, n6, n7, b0, b1, b2, b3, b4, b5, b6, b7, b8, b9, b10, b11, b12, b13, b14, b15, b16, b17, b18, b19, b20, b21, b22, b23, b24, b25, b26, b27, b28, b29, b30, b31] with hin, set_mid .., set_out ..
  clear hW hin hb
  refine ⟨⟨v26, v28, v30, v32, v34, v36, v38, v40⟩, v24, hrun, ?_⟩
  clear hrun
  -- phase 1: the eight words
  rw [or_bytes b31 b30 b29 b28 (by omega) (by omega) (by omega)] at e0
  rw [or_bytes b27 b26 b25 b24 (by omega) (by omega) (by omega)] at e1
  rw [or_bytes b23 b22 b21 b20 (by omega) (by omega) (by omega)] at e2
  rw [or_bytes b19 b18 b17 b16 (by omega) (by omega) (by omega)] at e3
  rw [or_bytes b15 b14 b13 b12 (by omega) (by omega) (by omega)] at e4
  rw [or_bytes b11 b10 b9 b8 (by omega) (by omega) (by omega)] at e5
  rw [or_bytes b7 b6 b5 b4 (by omega) (by omega) (by omega)] at e6
  rw [or_bytes b3 b2 b1 b0 (by omega) (by omega) (by omega)] at e7
  have hbv : bytesVal [b0, b1, b2, b3, b4, b5, b6, b7, b8, b9, b10, b11, b12, b13, b14, b15, b16, b17, b18, b19, b20, b21, b22, b23, b24, b25, b26, b27, b28, b29, b30, b31] = (⟨v0, v1, v2, v3, v4, v5, v6, v7⟩ : L8).val := by
    simp only [bytesVal, List.foldl, L8.val]
    clear e8 e9 e10 e11 e12 e13 e14 e15 e16 e17 e18 e19 e20 e21 e22 e23 e24 e25 e26 e27 e28 e29 e30 e31 e32 e33 e34 e35 e36 e37 e38 e39 e40
    omega
  have hWU : v0 < 2^32 ∧ v1 < 2^32 ∧ v2 < 2^32 ∧ v3 < 2^32 ∧ v4 < 2^32 ∧ v5 < 2^32 ∧ v6 < 2^32 ∧ v7 < 2^32 := by
    clear hbv e8 e9 e10 e11 e12 e13 e14 e15 e16 e17 e18 e19 e20 e21 e22 e23 e24 e25 e26 e27 e28 e29 e30 e31 e32 e33 e34 e35 e36 e37 e38 e39 e40
    omega
  obtain ⟨w0, w1, w2, w3, w4, w5, w6, w7⟩ := hWU
  clear e0 e1 e2 e3 e4 e5 e6 e7 hlt
  rw [hbv]
  -- phase 2: the inlined `overflows`
  have hov := overflows_chain v0 v1 v2 v3 v4 v5 v6 v7 _ _ _ _ _ _ _ _ _ _ _ _ _ _ _ _ _ w0 w1 w2 w3 w4 w5 w6 w7
    e8 e9 e10 e11 e12 e13 e14 e15 e16 e17 e18 e19 e20 e21 e22 e23 e24
  -- phase 3: the inlined `reduce256`
  obtain ⟨hred, hRU⟩ := reduce256_chain v0 v1 v2 v3 v4 v5 v6 v7 v24 _ _ _ _ _ _ _ _ _ _ _ _ _ _ _ _
    e25 e26 e27 e28 e29 e30 e31 e32 e33 e34 e35 e36 e37 e38 e39 e40
  have hWlt := val_lt ⟨v0, v1, v2, v3, v4, v5, v6, v7⟩ ⟨w0, w1, w2, w3, w4, w5, w6, w7⟩
  have hRlt := val_lt _ hRU
  have hov' : ((⟨v0, v1, v2, v3, v4, v5, v6, v7⟩ : L8).val ≥ N ∧ v24 = 1) ∨
      ((⟨v0, v1, v2, v3, v4, v5, v6, v7⟩ : L8).val < N ∧ v24 = 0) := by
    split at hov
    · exact Or.inl ⟨‹_›, hov⟩
    · exact Or.inr ⟨Nat.lt_of_not_le ‹_›, hov⟩
  refine ⟨⟨hRU, ?_⟩, ?_, hov⟩ <;>
  · clear hRU hbv w0 w1 w2 w3 w4 w5 w6 w7 e8 e9 e10 e11 e12 e13 e14 e15 e16 e17 e18 e19 e20 e21 e22 e23 e24 e25 e26 e27 e28 e29 e30 e31 e32 e33 e34 e35 e36 e37 e38 e39 e40
    generalize (⟨v0, v1, v2, v3, v4, v5, v6, v7⟩ : L8).val = W at *
    generalize (⟨v26, v28, v30, v32, v34, v36, v38, v40⟩ : L8).val = R at *
    generalize v39 / 2^32 = c' at *
    clear hov
    simp only [N] at *
    rcases hov' with ⟨hge, rfl⟩ | ⟨hl, rfl⟩ <;> omega

/-! ### PutBytesUnchecked -/

theorem word_split (n v0 v1 v2 v3 : Nat) (hn : n < 2^32) (e0 : v0 = n % 2 ^ 8) (e1 : v1 = n / 2 ^ 8 % 2 ^ 8)
    (e2 : v2 = n / 2 ^ 16 % 2 ^ 8) (e3 : v3 = n / 2 ^ 24 % 2 ^ 8) :
    n = v0 + v1 * 2^8 + v2 * 2^16 + v3 * 2^24 ∧ v0 < 256 ∧ v1 < 256 ∧ v2 < 256 ∧ v3 < 256 := by
  omega


set_option maxRecDepth 100000 in
theorem put_mid (b0 b1 b2 b3 b4 b5 b6 b7 b8 b9 b10 b11 b12 b13 b14 b15 b16 b17 b18 b19 b20 b21 b22 b23 b24 b25 b26 b27 b28 b29 b30 b31 : Nat) :
    bndBody Scalar_PutBytesUnchecked.body (Scalar_PutBytesUnchecked_full_in.take 8 ++ [(b0, b0), (b1, b1), (b2, b2), (b3, b3), (b4, b4), (b5, b5), (b6, b6), (b7, b7), (b8, b8), (b9, b9), (b10, b10), (b11, b11), (b12, b12), (b13, b13), (b14, b14), (b15, b15), (b16, b16), (b17, b17), (b18, b18), (b19, b19), (b20, b20), (b21, b21), (b22, b22), (b23, b23), (b24, b24), (b25, b25), (b26, b26), (b27, b27), (b28, b28), (b29, b29), (b30, b30), (b31, b31)]).reverse =
    some (Scalar_PutBytesUnchecked_full_mid.take 32 ++ [(b31, b31), (b30, b30), (b29, b29), (b28, b28), (b27, b27), (b26, b26), (b25, b25), (b24, b24), (b23, b23), (b22, b22), (b21, b21), (b20, b20), (b19, b19), (b18, b18), (b17, b17), (b16, b16), (b15, b15), (b14, b14), (b13, b13), (b12, b12), (b11, b11), (b10, b10), (b9, b9), (b8, b8), (b7, b7), (b6, b6), (b5, b5), (b4, b4), (b3, b3), (b2, b2), (b1, b1), (b0, b0)] ++ Scalar_PutBytesUnchecked_full_mid.drop 64) := rfl

set_option maxRecDepth 100000 in
theorem put_out (b0 b1 b2 b3 b4 b5 b6 b7 b8 b9 b10 b11 b12 b13 b14 b15 b16 b17 b18 b19 b20 b21 b22 b23 b24 b25 b26 b27 b28 b29 b30 b31 : Nat) :
    Scalar_PutBytesUnchecked.outs.mapM (bnd (Scalar_PutBytesUnchecked_full_mid.take 32 ++ [(b31, b31), (b30, b30), (b29, b29), (b28, b28), (b27, b27), (b26, b26), (b25, b25), (b24, b24), (b23, b23), (b22, b22), (b21, b21), (b20, b20), (b19, b19), (b18, b18), (b17, b17), (b16, b16), (b15, b15), (b14, b14), (b13, b13), (b12, b12), (b11, b11), (b10, b10), (b9, b9), (b8, b8), (b7, b7), (b6, b6), (b5, b5), (b4, b4), (b3, b3), (b2, b2), (b1, b1), (b0, b0)] ++ Scalar_PutBytesUnchecked_full_mid.drop 64)) =
    some Scalar_PutBytesUnchecked_full_out := rfl

set_option maxRecDepth 100000 in
theorem putBytes_spec (s : L8) (b : List Nat) (hb : b.length = 32) (hs : s.U32) :
    ∃ o : List Nat, Scalar_PutBytesUnchecked.runW (s.toList ++ b) = o ∧ o.length = 32 ∧ AllLt 256 o ∧
      bytesVal o = s.val := by
  obtain ⟨n0, n1, n2, n3, n4, n5, n6, n7⟩ := s
  obtain ⟨b0, b1, b2, b3, b4, b5, b6, b7, b8, b9, b10, b11, b12, b13, b14, b15, b16, b17, b18, b19, b20, b21, b22, b23, b24, b25, b26, b27, b28, b29, b30, b31, rfl⟩ := list32 hb
  simp only [L8.U32] at hs
  have hin : Within [n0, n1, n2, n3, n4, n5, n6, n7, b0, b1, b2, b3, b4, b5, b6, b7, b8, b9, b10, b11, b12, b13, b14, b15, b16, b17, b18, b19, b20, b21, b22, b23, b24, b25, b26, b27, b28, b29, b30, b31]
      (Scalar_PutBytesUnchecked_full_in.take 8 ++ [(b0, b0), (b1, b1), (b2, b2), (b3, b3), (b4, b4), (b5, b5), (b6, b6), (b7, b7), (b8, b8), (b9, b9), (b10, b10), (b11, b11), (b12, b12), (b13, b13), (b14, b14), (b15, b15), (b16, b16), (b17, b17), (b18, b18), (b19, b19), (b20, b20), (b21, b21), (b22, b22), (b23, b23), (b24, b24), (b25, b25), (b26, b26), (b27, b27), (b28, b28), (b29, b29), (b30, b30), (b31, b31)]) := by
    simp only [Within, inIval, Scalar_PutBytesUnchecked_full_in, List.take_succ_cons, List.take_zero, List.cons_append,
      List.nil_append, and_true, Nat.zero_le, true_and, Nat.le_refl]
    omega
  run_N Scalar_PutBytesUnchecked [n0, n1, n2, n3, n4, n5, n6, n7, b0, b1, b2, b3, b4, b5, b6, b7, b8, b9, b10, b11, b12, b13, b14, b15, b16, b17, b18, b19, b20, b21, b22, b23, b24, b25, b26, b27, b28, b29, b30, b31] with hin, put_mid .., put_out ..
  clear hW hin
  obtain ⟨h0, h1, h2, h3, h4, h5, h6, h7⟩ := hs
  obtain ⟨s0, l0, l1, l2, l3⟩ := word_split n0 v0 v1 v2 v3 h0 e0 e1 e2 e3
  obtain ⟨s1, l4, l5, l6, l7⟩ := word_split n1 v4 v5 v6 v7 h1 e4 e5 e6 e7
  obtain ⟨s2, l8, l9, l10, l11⟩ := word_split n2 v8 v9 v10 v11 h2 e8 e9 e10 e11
  obtain ⟨s3, l12, l13, l14, l15⟩ := word_split n3 v12 v13 v14 v15 h3 e12 e13 e14 e15
  obtain ⟨s4, l16, l17, l18, l19⟩ := word_split n4 v16 v17 v18 v19 h4 e16 e17 e18 e19
  obtain ⟨s5, l20, l21, l22, l23⟩ := word_split n5 v20 v21 v22 v23 h5 e20 e21 e22 e23
  obtain ⟨s6, l24, l25, l26, l27⟩ := word_split n6 v24 v25 v26 v27 h6 e24 e25 e26 e27
  obtain ⟨s7, l28, l29, l30, l31⟩ := word_split n7 v28 v29 v30 v31 h7 e28 e29 e30 e31
  clear e0 e1 e2 e3 e4 e5 e6 e7 e8 e9 e10 e11 e12 e13 e14 e15 e16 e17 e18 e19 e20 e21 e22 e23 e24 e25 e26 e27 e28 e29 e30 e31 hb
  refine ⟨_, hrun, rfl, ?_, ?_⟩
  · simp only [AllLt, List.mem_cons, List.not_mem_nil, or_false, forall_eq_or_imp, forall_eq]
    clear hrun
    omega
  · simp only [bytesVal, List.foldl, L8.val]
    clear hrun
    omega

end Secp.Proofs.ScalarSmall
