import Secp.Proofs.DriversWrap
import Secp.Proofs.ScalarMul
import Secp.Proofs.ScalarSmall
import Secp.Proofs.IRHelpers
import Secp.Proofs.FieldBridge
/-
  Props/C06 — scalar arithmetic modulo the group order is exact and always canonical.

  Every theorem except `inverse_spec` is about `Kernel.runW` (Go semantics) of a kernel in
  `Secp.Gen.ScalarIR`, REGENERATED from /repo/modnscalar.go on every check run.  Calls to the
  `constantTime*` helpers and to `accumulator96.Add/Rsh32` appear in those kernels as IR
  primitives; the first block of theorems pins each primitive to the literal translation of the
  helper's own body.  Input order of a kernel: receiver words, then each pointer parameter's
  words/bytes, then integer parameters.
-/
namespace Secp.Props.C06
open Secp.Spec Secp.IR Secp.Gen Secp.Limbs

/-! ### the helpers' own bodies compute the primitives (for all 32-bit operands) -/
theorem ctEq_lit (a b : Nat) (ha : a < 2^32) (hb : b < 2^32) : CT_Eq_lit.runW [a, b] = [if a = b then 1 else 0] :=
  Secp.Proofs.IRHelpers.ctEq_lit a b ha hb
theorem ctNotEq_lit (a b : Nat) (ha : a < 2^32) (hb : b < 2^32) : CT_NotEq_lit.runW [a, b] = [if a ≠ b then 1 else 0] :=
  Secp.Proofs.IRHelpers.ctNotEq_lit a b ha hb
theorem ctLess_lit (a b : Nat) (ha : a < 2^32) (hb : b < 2^32) : CT_Less_lit.runW [a, b] = [if a < b then 1 else 0] :=
  Secp.Proofs.IRHelpers.ctLess_lit a b ha hb
theorem ctLessOrEq_lit (a b : Nat) (ha : a < 2^32) (hb : b < 2^32) : CT_LessOrEq_lit.runW [a, b] = [if a ≤ b then 1 else 0] :=
  Secp.Proofs.IRHelpers.ctLessOrEq_lit a b ha hb
theorem ctGreater_lit (a b : Nat) (ha : a < 2^32) (hb : b < 2^32) : CT_Greater_lit.runW [a, b] = [if a > b then 1 else 0] :=
  Secp.Proofs.IRHelpers.ctGreater_lit a b ha hb
theorem ctGreaterOrEq_lit (a b : Nat) (ha : a < 2^32) (hb : b < 2^32) : CT_GreaterOrEq_lit.runW [a, b] = [if a ≥ b then 1 else 0] :=
  Secp.Proofs.IRHelpers.ctGreaterOrEq_lit a b ha hb
theorem ctMin_lit (a b : Nat) (ha : a < 2^32) (hb : b < 2^32) : CT_Min_lit.runW [a, b] = [min a b] :=
  Secp.Proofs.IRHelpers.ctMin_lit a b ha hb
/-- accumulator96.Add adds exactly, modulo 2^96, whenever the high word of v is ≤ 2^32 − 2 -/
theorem acc96Add_lit (n0 n1 n2 v : Nat) (h0 : n0 < 2^32) (h1 : n1 < 2^32) (h2 : n2 < 2^32) (hv : v < 2^64 - 2^32) :
    ∃ m0 m1 m2, Acc96_Add_lit.runW [n0, n1, n2, v] = [m0, m1, m2] ∧ m0 < 2^32 ∧ m1 < 2^32 ∧ m2 < 2^32 ∧
      m0 + m1 * 2^32 + m2 * 2^64 = (n0 + n1 * 2^32 + n2 * 2^64 + v) % 2^96 :=
  Secp.Proofs.IRHelpers.acc96Add_lit n0 n1 n2 v h0 h1 h2 hv
theorem acc96Rsh32_lit (n0 n1 n2 : Nat) : Acc96_Rsh32_lit.runW [n0, n1, n2] = [n1, n2, 0] :=
  Secp.Proofs.IRHelpers.acc96Rsh32_lit n0 n1 n2

/-! ### kernels -/

/-- `overflows` is 1 exactly when the 256-bit value is ≥ N -/
theorem overflows_spec (s : L8) (hs : s.U32) :
    Scalar_overflows.runW s.toList = [if s.val ≥ N then 1 else 0] :=
  Secp.Proofs.ScalarSmall.overflows_spec s hs

/-- `reduce256(o)` adds o·(2^256 − N) modulo 2^256, o ∈ {0,1} -/
theorem reduce256_spec (s : L8) (o : Nat) (hs : s.U32) (ho : o ≤ 1) :
    ∃ r : L8, Scalar_reduce256.runW (s.toList ++ [o]) = r.toList ∧ r.U32 ∧
      r.val = (s.val + o * (2^256 - N)) % 2^256 :=
  Secp.Proofs.ScalarSmall.reduce256_spec s o hs ho

/-- decoding: reduced once, canonical, overflow reported exactly when the input was ≥ N -/
theorem setBytes_spec (s : L8) (b : List Nat) (hb : b.length = 32) (hlt : AllLt 256 b) :
    ∃ r : L8, ∃ ov : Nat, Scalar_SetBytes.runW (s.toList ++ b) = r.toList ++ [ov] ∧ r.Canon ∧
      r.val = bytesVal b % N ∧ ov = (if bytesVal b ≥ N then 1 else 0) :=
  Secp.Proofs.ScalarSmall.setBytes_spec s b hb hlt

/-- encoding is the 32-byte big-endian value -/
theorem putBytes_spec (s : L8) (b : List Nat) (hb : b.length = 32) (hs : s.U32) :
    ∃ o : List Nat, Scalar_PutBytesUnchecked.runW (s.toList ++ b) = o ∧ o.length = 32 ∧ AllLt 256 o ∧
      bytesVal o = s.val :=
  Secp.Proofs.ScalarSmall.putBytes_spec s b hb hs

/-- addition of canonical scalars: canonical result, exact mod N -/
theorem add2_spec (s a b : L8) (ha : a.Canon) (hb : b.Canon) :
    ∃ r : L8, Scalar_Add2.runW (s.toList ++ a.toList ++ b.toList) = r.toList ∧ r.Canon ∧
      r.val = (a.val + b.val) % N :=
  Secp.Proofs.ScalarSmall.add2_spec s a b ha hb

/-- negation of a canonical scalar: canonical result (negating zero gives zero) -/
theorem negate_spec (s a : L8) (ha : a.Canon) :
    ∃ r : L8, Scalar_NegateVal.runW (s.toList ++ a.toList) = r.toList ∧ r.Canon ∧ r.val = (N - a.val) % N :=
  Secp.Proofs.ScalarSmall.negate_spec s a ha

/-- the half-order comparison is true exactly for values > (N−1)/2 -/
theorem isOverHalfOrder_spec (s : L8) (hs : s.U32) :
    Scalar_IsOverHalfOrder.runW s.toList = [if s.val > halfN then 1 else 0] :=
  Secp.Proofs.ScalarSmall.isOverHalfOrder_spec s hs

theorem isZero_spec (s : L8) (hs : s.U32) :
    Scalar_IsZero.runW s.toList = [if s.val = 0 then 1 else 0] ∧
    Scalar_IsZeroBit.runW s.toList = [if s.val = 0 then 1 else 0] :=
  Secp.Proofs.ScalarSmall.isZero_spec s hs

theorem isOdd_spec (s : L8) (hs : s.U32) : Scalar_IsOdd.runW s.toList = [s.val % 2] :=
  Secp.Proofs.ScalarSmall.isOdd_spec s hs

theorem equals_spec (s a : L8) (hs : s.U32) (ha : a.U32) :
    Scalar_Equals.runW (s.toList ++ a.toList) = [if s.val = a.val then 1 else 0] :=
  Secp.Proofs.ScalarSmall.equals_spec s a hs ha

/-- the 385-bit reduction: for 13 words t0..t12 denoting a value below 2^385 (the function's
    documented domain; the statement is FALSE for t12 ≥ 2^31, see DESIGN.md) the result is
    canonical and congruent to Σ tᵢ·2^(32i) modulo N -/
theorem reduce385_spec (s : L8) (t : List Nat) (ht : t.length = 13) (hlt : AllLt (2^32) t)
    (h385 : bytesVal32 t < 2^385) :
    ∃ r : L8, Scalar_reduce385.runW (s.toList ++ t) = r.toList ∧ r.Canon ∧
      r.val = (bytesVal32 t) % N :=
  Secp.Proofs.ScalarMul.reduce385_spec s t ht hlt h385

/-- the 512-bit reduction -/
theorem reduce512_spec (s : L8) (t : List Nat) (ht : t.length = 16) (hlt : AllLt (2^32) t) :
    ∃ r : L8, Scalar_reduce512.runW (s.toList ++ t) = r.toList ∧ r.Canon ∧
      r.val = (bytesVal32 t) % N :=
  Secp.Proofs.ScalarMul.reduce512_spec s t ht hlt

/-- multiplication: for ALL 256-bit operands (not only canonical ones) the result is canonical
    and equals the product modulo N -/
theorem mul2_spec (s a b : L8) (ha : a.U32) (hb : b.U32) :
    ∃ r : L8, Scalar_Mul2.runW (s.toList ++ a.toList ++ b.toList) = r.toList ∧ r.Canon ∧
      r.val = (a.val * b.val) % N :=
  Secp.Proofs.ScalarMul.mul2_spec s a b ha hb

/-- inversion (`big.Int.ModInverse` then decode, modelled as Fermat in `Spec.ninv`): an inverse for
    every non-zero residue, and 0 ↦ 0 -/
theorem inverse_spec (a : Nat) (ha : a % N ≠ 0) : (ninv a * a) % N = 1 ∧ ninv a < N :=
  Secp.Proofs.ScalarSmall.inverse_spec a ha
theorem inverse_zero : ninv 0 = 0 := by decide +kernel

theorem alias_safe : (scalarKernels.all fun k => k.aliasSafe) = true := by decide

-- non-vacuity
example : (⟨1, 0, 0, 0, 0, 0, 0, 0⟩ : L8).Canon := by
  refine ⟨by simp [L8.U32], ?_⟩; simp [L8.val]; decide

/-! ### The non-kernel wrapper methods (tools/gotr pass T8)

`Mul`, `Add`, `Negate`, `Square`, `SquareVal`, `Bytes`, `SetByteSlice`, `InverseValNonConst`, `InverseNonConst` are not limb
kernels (they delegate to the kernels above); they are REGENERATED at value level on every run and proved equal to the
primitives every model uses for them. -/

theorem mul_wrapper (s v : Nat) : Secp.Gen.Drivers.scalarMul s v = Secp.Spec.nmul s v := Secp.Proofs.DriversWrap.scalarMul_regenerated s v
theorem add_wrapper (s v : Nat) : Secp.Gen.Drivers.scalarAdd s v = Secp.Spec.nadd s v := Secp.Proofs.DriversWrap.scalarAdd_regenerated s v
theorem negate_wrapper (s : Nat) : Secp.Gen.Drivers.scalarNegate s = Secp.Spec.nneg s := Secp.Proofs.DriversWrap.scalarNegate_regenerated s
theorem square_wrapper (s : Nat) : Secp.Gen.Drivers.scalarSquare s = Secp.Spec.nmul s s := Secp.Proofs.DriversWrap.scalarSquare_regenerated s
theorem squareVal_wrapper (s v : Nat) : Secp.Gen.Drivers.scalarSquareVal s v = Secp.Spec.nmul v v := Secp.Proofs.DriversWrap.scalarSquareVal_regenerated s v
theorem bytes_wrapper (s : Nat) : Secp.Gen.Drivers.scalarBytes s = Secp.Spec.be32 s := Secp.Proofs.DriversWrap.scalarBytes_regenerated s

/-- `ModNScalar.SetByteSlice` (truncate to 32 bytes, left-pad, load, overflow flag) regenerated = the model's
    `scalarSetByteSlice` for every byte string shorter than 2^32 (the uint32 conversion of the length) -/
theorem setByteSlice_wrapper (s : Nat) (b : Secp.Spec.Bytes) (hb : b.length < 2^32) :
    Secp.Gen.Drivers.scalarSetByteSliceGen s b = ((Secp.Model.scalarSetByteSlice b).2, (Secp.Model.scalarSetByteSlice b).1) :=
  Secp.Proofs.DriversWrap.scalarSetByteSlice_regenerated s b hb

/-- `InverseValNonConst` (through math/big's ModInverse for the prime modulus N) regenerated = `ninv` -/
theorem inverseValNonConst_wrapper (s v : Nat) (hv : v < Secp.Spec.N) :
    Secp.Gen.Drivers.scalarInverseValNonConst s v = Secp.Spec.ninv v :=
  Secp.Proofs.DriversWrap.scalarInverseValNonConst_regenerated s v hv
theorem inverseNonConst_wrapper (s : Nat) : Secp.Gen.Drivers.scalarInverseNonConst s = Secp.Spec.ninv s :=
  Secp.Proofs.DriversWrap.scalarInverseNonConst_regenerated s

end Secp.Props.C06
