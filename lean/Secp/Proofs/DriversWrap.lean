import Secp.Gen.Drivers
import Secp.Proofs.Bip32Bytes
import Secp.Proofs.FieldBridge
/-
  Proofs/DriversWrap — the regenerated non-kernel wrapper methods of ModNScalar / FieldVal
  (Gen/Drivers.lean: scalarMul, scalarAdd, scalarNegate, scalarSquare, scalarSquareVal,
  scalarBytes, scalarSetByteSliceGen, scalarInverseValNonConst, scalarInverseNonConst,
  fieldSetByteSliceGen) equal the model primitives of Spec/Field.lean, Spec/Basic.lean and
  Model/Der.lean.
-/
namespace Secp.Proofs.DriversWrap
open Secp.Spec Secp.Model

/-! ### the one-liners -/

theorem scalarMul_regenerated (s v : Nat) : Secp.Gen.Drivers.scalarMul s v = nmul s v := rfl
theorem scalarAdd_regenerated (s v : Nat) : Secp.Gen.Drivers.scalarAdd s v = nadd s v := rfl
theorem scalarNegate_regenerated (s : Nat) : Secp.Gen.Drivers.scalarNegate s = nneg s := rfl
theorem scalarSquare_regenerated (s : Nat) : Secp.Gen.Drivers.scalarSquare s = nmul s s := rfl
theorem scalarSquareVal_regenerated (s v : Nat) : Secp.Gen.Drivers.scalarSquareVal s v = nmul v v := rfl
theorem scalarInverseNonConst_regenerated (s : Nat) : Secp.Gen.Drivers.scalarInverseNonConst s = ninv s := rfl

/-! ### ModNScalar.Bytes -/

theorem scalarBytes_regenerated (s : Nat) : Secp.Gen.Drivers.scalarBytes s = be32 s := by
  have hl : (be32 s).length = 32 := Der.be32_length s
  unfold Secp.Gen.Drivers.scalarBytes
  simp only [List.take_zero, List.nil_append, Nat.zero_add]
  rw [List.take_of_length_le (Nat.le_of_eq hl)]
  simp

/-! ### the two `copy` calls of SetByteSlice -/

/-- the truncation `b = b[:min(len(b), 32)]` -/
private theorem trunc_eq (b : Bytes) (hb : b.length < 2 ^ 32) :
    ((b.take (min (b.length % 4294967296) 32)).drop 0) = b.take 32 := by
  rw [Nat.mod_eq_of_lt (by simpa using hb), List.drop_zero]
  by_cases h : b.length ≤ 32
  · rw [Nat.min_eq_left h, List.take_of_length_le (Nat.le_refl _), List.take_of_length_le h]
  · rw [Nat.min_eq_right (by omega)]

/-- `copy(b32, b32[:32-len(b)])` then `copy(b32[32-len(b):], b)` left-pads `b` with zeros -/
private theorem pad_eq (c : Bytes) (hc : c.length ≤ 32) :
    (let b32 := (List.replicate 32 (0 : UInt8))
     let n1 := min b32.length ((b32.take (32 - c.length)).drop 0).length
     let b32 := (b32.take 0 ++ (((b32.take (32 - c.length)).drop 0)).take n1 ++ b32.drop (0 + n1))
     let n2 := min (b32.drop (32 - c.length)).length c.length
     (b32.take (32 - c.length) ++ (c).take n2 ++ b32.drop ((32 - c.length) + n2)))
      = List.replicate (32 - c.length) (0 : UInt8) ++ c := by
  have e : ∀ x y z : Nat, x = 32 - c.length → y = c.length → z = 0 →
      List.replicate x (0 : UInt8) ++ c.take y ++ List.replicate z (0 : UInt8)
        = List.replicate (32 - c.length) (0 : UInt8) ++ c := by
    intro x y z hx hy hz
    subst hx hy hz
    rw [List.take_length, List.replicate_zero, List.append_nil]
  simp only [List.length_replicate, List.take_replicate, List.drop_replicate, Nat.zero_add,
    ← List.replicate_add]
  apply e <;> omega

private theorem pad_length (c : Bytes) (hc : c.length ≤ 32) :
    (List.replicate (32 - c.length) (0 : UInt8) ++ c).length = 32 := by
  rw [List.length_append, List.length_replicate]; omega

private theorem take32_length_le (b : Bytes) : (b.take 32).length ≤ 32 := by
  rw [List.length_take]; exact Nat.min_le_left _ _

/-- loading the padded buffer = loading the first 32 bytes -/
private theorem beNat_pad_take (c : Bytes) (hc : c.length ≤ 32) :
    beNat ((List.replicate (32 - c.length) (0 : UInt8) ++ c).take 32) = beNat c := by
  rw [List.take_of_length_le (Nat.le_of_eq (pad_length c hc)), Bip32.beNat_zeros_append]

/-! ### ModNScalar.SetByteSlice -/

theorem scalarSetByteSlice_regenerated (s : Nat) (b : Bytes) (hb : b.length < 2^32) :
    Secp.Gen.Drivers.scalarSetByteSliceGen s b
      = ((scalarSetByteSlice b).2, (scalarSetByteSlice b).1) := by
  have hc := take32_length_le b
  have hpad := pad_eq (b.take 32) hc
  unfold Secp.Gen.Drivers.scalarSetByteSliceGen
  simp only [trunc_eq b hb] at hpad ⊢
  rw [hpad]
  have hv : beNat ((List.replicate (32 - (b.take 32).length) (0 : UInt8) ++ b.take 32).take 32)
      = beNat (b.take 32) := beNat_pad_take _ hc
  unfold scalarSetByteSlice
  simp only [hv]
  by_cases h : beNat (b.take 32) ≥ N <;> simp [h]

/-! ### FieldVal.SetByteSlice -/

theorem fieldSetByteSlice_regenerated (f : Nat) (b : Bytes) (hb : b.length < 2^32) :
    Secp.Gen.Drivers.fieldSetByteSliceGen f b
      = (decide (beNat (b.take 32) ≥ P), beNat (b.take 32)) := by
  have hc := take32_length_le b
  have hpad := pad_eq (b.take 32) hc
  unfold Secp.Gen.Drivers.fieldSetByteSliceGen
  simp only [trunc_eq b hb] at hpad ⊢
  rw [hpad, Bip32.beNat_zeros_append]
  by_cases h : beNat (b.take 32) ≥ P <;> simp [h]

/-! ### ModNScalar.InverseValNonConst -/

private theorem setByteSlice_minBytes {x : Nat} (hx : x < N) :
    (scalarSetByteSlice (minBytes x)).1 = x := by
  have hx32 : x < 256 ^ 32 := Nat.lt_trans hx Bip32.N_lt_256_32
  unfold scalarSetByteSlice
  simp only [Bip32.minBytes_take32 hx32]
  rw [if_neg (Nat.not_le.2 hx)]

theorem scalarInverseValNonConst_regenerated (s v : Nat) (hv : v < N) :
    Secp.Gen.Drivers.scalarInverseValNonConst s v = ninv v := by
  have hv32 : v < 256 ^ 32 := Nat.lt_trans hv Bip32.N_lt_256_32
  unfold Secp.Gen.Drivers.scalarInverseValNonConst
  simp only [Bip32.beNat_be32_lt hv32]
  by_cases h0 : (v % N == 0) = true
  · rw [if_pos h0, setByteSlice_minBytes hv]
    have hz : v = 0 := by
      have := beq_iff_eq.1 h0
      rwa [Nat.mod_eq_of_lt hv] at this
    subst hz
    exact (by decide +kernel : (0 : Nat) = ninv 0)
  · rw [if_neg h0, setByteSlice_minBytes (ninv_lt v)]

end Secp.Proofs.DriversWrap

#print axioms Secp.Proofs.DriversWrap.scalarMul_regenerated
#print axioms Secp.Proofs.DriversWrap.scalarAdd_regenerated
#print axioms Secp.Proofs.DriversWrap.scalarNegate_regenerated
#print axioms Secp.Proofs.DriversWrap.scalarSquare_regenerated
#print axioms Secp.Proofs.DriversWrap.scalarSquareVal_regenerated
#print axioms Secp.Proofs.DriversWrap.scalarInverseNonConst_regenerated
#print axioms Secp.Proofs.DriversWrap.scalarBytes_regenerated
#print axioms Secp.Proofs.DriversWrap.scalarSetByteSlice_regenerated
#print axioms Secp.Proofs.DriversWrap.fieldSetByteSlice_regenerated
#print axioms Secp.Proofs.DriversWrap.scalarInverseValNonConst_regenerated
