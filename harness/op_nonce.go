//go:build verif

package main

import (
	"crypto/sha256"
	"math/big"
	"strconv"
	"strings"

	secp "github.com/ModChain/secp256k1"
)

func init() {
	// nonce <key> <hash> <extra> <version> <iter>
	opImpl["nonce"] = func(a []string) string {
		key, hash, extra, ver := unhx(a[0]), unhx(a[1]), unhx(a[2]), unhx(a[3])
		it, _ := strconv.Atoi(a[4])
		return withArgsCheck([][]byte{key, hash, extra, ver}, func() string {
			k := secp.NonceRFC6979(key, hash, extra, ver, uint32(it))
			return scalarHex(k)
		})
	}
	// hmacobj new:<key>;write:<d>;sum;reset;resetkey:<k>;…  → the Sum outputs in order
	opImpl["hmacobj"] = func(a []string) string {
		var h *secp.VerifHMAC
		var outs []string
		for _, st := range strings.Split(a[0], ";") {
			kv := strings.SplitN(st, ":", 2)
			arg := []byte{}
			if len(kv) == 2 {
				arg = unhx(kv[1])
			}
			switch kv[0] {
			case "new":
				h = secp.VerifNewHMAC(arg)
			case "write":
				h.Write(arg)
			case "sum":
				outs = append(outs, hx(h.Sum()))
			case "reset":
				h.Reset()
			case "resetkey":
				h.ResetKey(arg)
			}
		}
		return strings.Join(outs, " ")
	}
	opImpl["sha256"] = func(a []string) string {
		s := sha256.Sum256(unhx(a[0]))
		return hx(s[:])
	}
	generators["C10"] = genC10
}

func genC10(h *H) {
	var lines []string
	klens := []int{0, 1, 31, 32, 33, 40}
	hlens := []int{0, 1, 31, 32, 33, 64, 70}
	elens := []int{0, 31, 32, 33}
	vlens := []int{0, 15, 16, 17}
	// the full grid is thorough-only; quick samples it
	for _, kl := range klens {
		for _, hl := range hlens {
			for _, el := range elens {
				for _, vl := range vlens {
					if h.budget == 1 && h.rng.Intn(6) != 0 {
						continue
					}
					it := []int{0, 0, 1, 2, 5, 16}[h.rng.Intn(6)]
					lines = append(lines, "nonce "+hx(h.randBytes(kl))+" "+hx(h.randBytes(hl))+" "+hx(h.randBytes(el))+" "+hx(h.randBytes(vl))+" "+strconv.Itoa(it))
				}
			}
		}
	}
	// same arguments, different earlier calls: repeat a few lines at shuffled positions
	for i := 0; i < 10 && i < len(lines); i++ {
		lines = append(lines, lines[h.rng.Intn(len(lines))])
	}
	h.rng.Shuffle(len(lines), func(i, j int) { lines[i], lines[j] = lines[j], lines[i] })
	for _, l := range lines {
		h.doLine("nonce-grid", l)
	}
	// hashes at and above the group order (the hash is fed to the generator as bytes, never reduced),
	// all-zero / all-one, and long hashes starting with such bytes
	for _, hv := range [][]byte{be32(curveN), be32(new(big.Int).Add(curveN, big.NewInt(1))), bytesRepeat(0xff, 32), make([]byte, 32),
		be32(new(big.Int).Sub(curveN, big.NewInt(1))), append(be32(curveN), 1, 2, 3), append(bytesRepeat(0xff, 32), bytesRepeat(0xff, 8)...)} {
		h.doLine("nonce-hash-boundary", "nonce "+hx(h.randBytes(32))+" "+hx(hv)+" - - 0")
		h.doLine("nonce-hash-boundary", "nonce "+hx(bytesRepeat(0xff, 32))+" "+hx(hv)+" "+hx(h.randBytes(32))+" - 1")
	}
	// iteration counts 0..16 on one input
	k, hs := h.randBytes(32), h.randBytes(32)
	for it := 0; it <= 16; it++ {
		h.doLine("nonce-iter", "nonce "+hx(k)+" "+hx(hs)+" - - "+strconv.Itoa(it))
	}
	// keys with structure: aligned 32-bit words that are zero or equal to the pad constants (0x36.., 0x5c..: the
	// XOR into the pad gives zero), all-zero keys, so that re-keying after a longer / denser key shows stale pad words
	structKey := func(klen int) []byte {
		k := h.randBytes(klen)
		if h.rng.Intn(3) == 0 {
			return k
		}
		for w := 0; w+4 <= klen; w += 4 {
			switch h.rng.Intn(5) {
			case 0, 1:
				k[w], k[w+1], k[w+2], k[w+3] = 0, 0, 0, 0
			case 2:
				c := []byte{0x36, 0x5c}[h.rng.Intn(2)]
				k[w], k[w+1], k[w+2], k[w+3] = c, c, c, c
			}
		}
		return k
	}
	// the HMAC object under random operation sequences
	for i := 0; i < 40*h.budget; i++ {
		var ops []string
		klen := []int{0, 1, 32, 63, 64, 65, 100}[h.rng.Intn(7)]
		ops = append(ops, "new:"+hx(structKey(klen)))
		n := 2 + h.rng.Intn(8)
		for j := 0; j < n; j++ {
			switch h.rng.Intn(5) {
			case 0, 1:
				ops = append(ops, "write:"+hx(h.randBytes(h.rng.Intn(80))))
			case 2:
				ops = append(ops, "sum")
			case 3:
				ops = append(ops, "reset")
			case 4:
				ops = append(ops, "resetkey:"+hx(structKey([]int{0, 4, 31, 32, 64, 65, 70}[h.rng.Intn(7)])))
			}
		}
		ops = append(ops, "sum")
		h.doLine("hmacobj", "hmacobj "+strings.Join(ops, ";"))
	}
	// SHA-256 itself (the Lean implementation vs crypto/sha256) around the padding boundaries
	for _, l := range []int{0, 1, 54, 55, 56, 57, 63, 64, 65, 119, 120, 121, 127, 128, 200} {
		h.doLine("sha256", "sha256 "+hx(h.randBytes(l)))
	}
}
