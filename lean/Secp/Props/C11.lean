import Secp.Proofs.FrontSchnorr
import Secp.Proofs.DriversSchnorr
import Secp.Proofs.Schnorr
import Secp.Props.C03
import Secp.Proofs.Slices
import Secp.Proofs.BytesProgSig
import Secp.Proofs.BytesBuild
/-
  Props/C11 — EC-Schnorr-DCRv0 signing and verification follow the published scheme.
  Model: `Secp.Model.schnorrSignM`, `schnorrSign`, `schnorrVerifyM`, `schnorrParse`,
  `schnorrSerialize` (hand-written mirrors of schnorr/signature.go; BLAKE-256 is a parameter B).
  The theorems about points are conditional on `PointSpec` (the C03/C04 layer).
-/
namespace Secp.Props.C11
open Secp.Spec Secp.Model

/-- the challenge e = BLAKE-256(r ‖ m) read as an integer -/
def challenge (B : Bytes → Bytes) (r : Nat) (m : Bytes) : Nat := beNat (B (be32 r ++ m))

/-- verification returns nil exactly when m is 32 bytes, Q is on the curve, e < N, and
    R = s·G + e·Q is a finite point with even y and x = r; every other outcome is an error -/
theorem verify_iff (hp : PointSpec) (B : Bytes → Bytes) (hB : ∀ x, (B x).length = 32)
    (r s : Nat) (m : Bytes) (x y : Nat) (hr : r < P) (hs : s < N) (hx : x < P) (hy : y < P) :
    schnorrVerifyM B r s m (x, y) = none ↔
      (m.length = 32 ∧ OnCurve x y ∧ challenge B r m < N ∧
        ∃ rx ry, Pt.add (smul s G) (smul (challenge B r m) (some (x, y))) = some (rx, ry) ∧ ry % 2 = 0 ∧ rx = r) :=
  Secp.Proofs.Schnorr.verify_iff hp B hB r s m x y hr hs hx hy

/-- signing with a given nonce follows the README algorithm: R = k·G, k negated when R.y is odd,
    r = R.x, e = BLAKE-256(r ‖ m) (error when ≥ N), s = k − e·d mod N -/
theorem sign_spec (hp : PointSpec) (B : Bytes → Bytes) (hB : ∀ x, (B x).length = 32)
    (d k : Nat) (m : Bytes) (hk0 : 0 < k) (hk : k < N) (rx ry : Nat) (hR : smul k G = some (rx, ry)) :
    schnorrSignM B d k m =
      (if challenge B rx m ≥ N then .error .ErrSchnorrHashValue
       else .ok (rx, nadd (nneg (nmul (challenge B rx m) d)) (if ry % 2 = 1 then nneg k else k))) :=
  Secp.Proofs.Schnorr.sign_spec hp B hB d k m hk0 hk rx ry hR

/-- Sign refuses a zero key and a message that is not 32 bytes -/
theorem sign_guards (B : Bytes → Bytes) (d : Nat) (m : Bytes) :
    (m.length ≠ 32 → schnorrSign B d m = .error .ErrInvalidHashLen) ∧
    (m.length = 32 → d = 0 → schnorrSign B d m = .error .ErrPrivateKeyIsZero) :=
  Secp.Proofs.Schnorr.sign_guards B d m

/-- the 64-byte codec accepts exactly length 64 with r < P and s < N, and returns those values -/
theorem parse_iff (b : Bytes) (r s : Nat) :
    schnorrParse b = .ok (r, s) ↔ (b.length = 64 ∧ r = beNat (b.take 32) ∧ r < P ∧ s = beNat (b.drop 32) ∧ s < N) :=
  Secp.Proofs.Schnorr.parse_iff b r s

theorem parse_serialize (r s : Nat) (hr : r < P) (hs : s < N) : schnorrParse (schnorrSerialize r s) = .ok (r, s) :=
  Secp.Proofs.Schnorr.parse_serialize r s hr hs

theorem serialize_parse (b : Bytes) (r s : Nat) (h : schnorrParse b = .ok (r, s)) : schnorrSerialize r s = b :=
  Secp.Proofs.Schnorr.serialize_parse b r s h

/-! ### unconditional forms -/

theorem verify_iff_unconditional (B : Bytes → Bytes) (hB : ∀ x, (B x).length = 32)
    (r s : Nat) (m : Bytes) (x y : Nat) (hr : r < P) (hs : s < N) (hx : x < P) (hy : y < P) :
    schnorrVerifyM B r s m (x, y) = none ↔
      (m.length = 32 ∧ OnCurve x y ∧ challenge B r m < N ∧
        ∃ rx ry, Pt.add (smul s G) (smul (challenge B r m) (some (x, y))) = some (rx, ry) ∧ ry % 2 = 0 ∧ rx = r) :=
  verify_iff Secp.Props.C03.pointSpec B hB r s m x y hr hs hx hy


/-- Limb level of this property's own functions: the REGENERATED sliced field programs (tools/gotr pass T2s,
    `Secp.Gen.Slices`) of Schnorr sign / verify / parse / serialise pass the abstract interpreter on every path — no magnitude overflow, every
    comparison / parity test / serialisation reads a normalised value, every callee's precondition holds,
    every returned key or point is normalised.  Together with C05 (kernels) and C16 (`absPath_sound`,
    `contracts_justified`) this is what makes the value-level model above faithful to the limb code. -/
theorem schnorr_field_arithmetic_exact :
    Secp.Proofs.Slices.entriesOK ["github.com/ModChain/secp256k1/schnorr.schnorrVerify", "github.com/ModChain/secp256k1/schnorr.schnorrSign", "github.com/ModChain/secp256k1/schnorr.ParseSignature", "github.com/ModChain/secp256k1/schnorr.Signature.Serialize", "github.com/ModChain/secp256k1/schnorr.Signature.IsEqual", "github.com/ModChain/secp256k1/schnorr.NewSignature"] = true := by decide +kernel


/-! ### schnorr.ParseSignature as REGENERATED from schnorr/signature.go (tools/gotr pass T7) -/

/-- the statement-by-statement translation of `ParseSignature` (exact length 64, r < P through `FieldVal.SetByteSlice`, s < N
    through `ModNScalar.SetByteSlice`) never panics and is the hand-written model `schnorrParse` of the codec theorems above -/
theorem schnorrParse_regenerated (b : Bytes) :
    Secp.Gen.BytesProg.schnorrParse b = Secp.Proofs.BytesProgSig.ofExcept (schnorrParse b) :=
  Secp.Proofs.BytesProgSig.schnorrParse_gen_eq_model b


/-- schnorr `Signature.Serialize` as REGENERATED (pass T7, builders) is the model `schnorrSerialize` -/
theorem schnorrSerialize_regenerated (r s : Nat) :
    Secp.Gen.BytesBuild.schnorrSerialize r s = schnorrSerialize r s :=
  Secp.Proofs.BytesBuild.schnorrSerialize_gen_eq_model r s

/-! ### Regenerated drivers (tools/gotr pass T8)

`Secp.Gen.Drivers` is REGENERATED from /repo on every check run: the Go functions below translated
statement by statement into Lean terms over the value-level primitives.  The theorems say the
regenerated definitions EQUAL the hand-written models the theorems above are about, so a change to
one of these functions either leaves the equality provable (then the property theorems still speak
about the code) or breaks this file.  `DR` = ok | err | panic | fuel (retry loop out of fuel) |
undef (an arithmetic assumption of the translation failed; shown never to occur). -/

/-- `schnorrSign` (schnorr/signature.go) regenerated = `schnorrSignM` for 32-byte hashes -/
theorem schnorrSign_regenerated (B : Bytes → Bytes) (d k : Nat) (h : Bytes) (hl : h.length = 32) :
    Secp.Gen.Drivers.schnorrSign B d k h =
      (match schnorrSignM B d k h with | .ok x => DR.ok x | .error e => DR.err e) :=
  Secp.Proofs.DriversSchnorr.schnorrSign_regenerated B d k h hl

/-- `schnorrVerify` regenerated = `schnorrVerifyM` for every input -/
theorem schnorrVerify_regenerated (B : Bytes → Bytes) (r s : Nat) (h : Bytes) (Q : Nat × Nat) :
    Secp.Gen.Drivers.schnorrVerify B (r, s) h Q =
      (match schnorrVerifyM B r s h Q with | none => DR.ok () | some e => DR.err e) :=
  Secp.Proofs.DriversSchnorr.schnorrVerify_regenerated B r s h Q

/-- the exported `Sign` (length and zero-key checks, retry loop with the scheme tag) regenerated -/
theorem schnorrSignRFC6979_regenerated (B : Bytes → Bytes) (d : Nat) (h : Bytes) :
    Secp.Gen.Drivers.schnorrSignRFC6979 B d h =
      (match Secp.Model.schnorrSign B d h with
        | .ok x => DR.ok x | .error .NoNonce => DR.fuel | .error e => DR.err e) :=
  Secp.Proofs.DriversSchnorr.schnorrSignRFC6979_regenerated B d h


/-- the exported schnorr `Signature.Verify` is `schnorrVerify … == nil` -/
theorem schnorrVerifyBool_front (B : Bytes → Bytes) (sig : Nat × Nat) (h : Bytes) (Q : Nat × Nat) :
    Secp.Gen.Drivers.schnorrVerifyBool B sig h Q =
      (match Secp.Gen.Drivers.schnorrVerify B sig h Q with | .ok _ => true | _ => false) :=
  Secp.Proofs.FrontSchnorr.schnorrVerifyBool_front B sig h Q

end Secp.Props.C11
