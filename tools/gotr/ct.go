package main

// T5: every function whose doc comment promises constant time (and everything in the package
// that such a function calls, transitively) → a small expression/statement tree in which the
// places where a value can influence timing are explicit: branch conditions, loop bounds,
// short-circuit operators, index expressions, slice bounds, shift counts, division operands,
// and calls.  Identifiers are secret unless they are constants; len/cap are public.

import (
	"fmt"
	"go/ast"
	"go/token"
	"go/types"
	"sort"
	"strings"
)

type ctFn struct {
	key        string
	documented bool
	stmts      []string
	calls      map[string]bool
}

type ctx5 struct {
	p       *Pkg
	ids     map[string]int // package functions in the table
	intr    map[string]int // intrinsics
	cur     *ctFn
	unknown map[string]bool
}

var ctIntrinsics = []string{"copy", "len", "cap", "new", "append0", "bits.Mul64", "bits.Add64", "conv"}

func docPromisesCT(doc *ast.CommentGroup) bool {
	if doc == nil {
		return false
	}
	t := strings.ToLower(strings.Join(strings.Fields(doc.Text()), " "))
	return strings.Contains(t, "in constant time") && !strings.Contains(t, "not constant time") && !strings.Contains(t, "non-constant")
}

func (c *ctx5) isConst(e ast.Expr) bool {
	tv, ok := c.p.info.Types[e]
	return ok && tv.Value != nil
}

func (c *ctx5) expr(e ast.Expr) string {
	if e == nil {
		return ".pub"
	}
	if c.isConst(e) {
		return ".pub"
	}
	if tv, ok := c.p.info.Types[e]; ok && tv.IsType() {
		return ".pub" // a type operand (new(T), conversions)
	}
	switch x := e.(type) {
	case *ast.ParenExpr:
		return c.expr(x.X)
	case *ast.BasicLit:
		return ".pub"
	case *ast.Ident:
		if x.Name == "nil" || x.Name == "true" || x.Name == "false" {
			return ".pub"
		}
		return ".sec"
	case *ast.SelectorExpr:
		// field access x.f : as secret as x ; package-qualified names are leaves
		if id, ok := x.X.(*ast.Ident); ok {
			if _, isPkg := c.p.info.Uses[id].(*types.PkgName); isPkg {
				return ".sec"
			}
		}
		return "(.un " + c.expr(x.X) + ")"
	case *ast.StarExpr:
		return "(.un " + c.expr(x.X) + ")"
	case *ast.UnaryExpr:
		return "(.un " + c.expr(x.X) + ")"
	case *ast.BinaryExpr:
		a, b := c.expr(x.X), c.expr(x.Y)
		switch x.Op {
		case token.LAND, token.LOR:
			return "(.sc " + a + " " + b + ")"
		case token.SHL, token.SHR:
			return "(.shift " + a + " " + b + ")"
		case token.QUO, token.REM:
			return "(.dm " + a + " " + b + ")"
		case token.EQL, token.NEQ, token.LSS, token.LEQ, token.GTR, token.GEQ:
			// comparing arrays, structs, strings or interfaces compiles to a chunk-wise comparison that stops at
			// the first difference (runtime.memequal / unrolled &&): control flow depends on both operands
			if tv, ok := c.p.info.Types[x.X]; ok && tv.Type != nil {
				composite := false
				switch u := tv.Type.Underlying().(type) {
				case *types.Array, *types.Struct, *types.Interface:
					composite = true
				case *types.Basic:
					composite = u.Info()&types.IsString != 0
				}
				if composite {
					return "(.sc (.bin " + a + " " + b + ") .pub)"
				}
			}
		}
		return "(.bin " + a + " " + b + ")"
	case *ast.IndexExpr:
		return "(.idx " + c.expr(x.X) + " " + c.expr(x.Index) + ")"
	case *ast.SliceExpr:
		hi := x.High
		if x.Max != nil {
			hi = x.Max
		}
		return "(.sl " + c.expr(x.X) + " " + c.expr(x.Low) + " " + c.expr(hi) + ")"
	case *ast.CompositeLit:
		s := ".pub"
		for _, el := range x.Elts {
			s = "(.bin " + s + " " + c.expr(el) + ")"
		}
		return s
	case *ast.KeyValueExpr:
		return c.expr(x.Value)
	case *ast.FuncLit:
		return "(.call 999999 .argNil)" // closures are outside the subset
	case *ast.TypeAssertExpr:
		return "(.un " + c.expr(x.X) + ")"
	case *ast.CallExpr:
		// conversion
		if tv, ok := c.p.info.Types[x.Fun]; ok && tv.IsType() {
			if len(x.Args) == 1 {
				return "(.un " + c.expr(x.Args[0]) + ")"
			}
		}
		name := ""
		var recv ast.Expr
		switch f := x.Fun.(type) {
		case *ast.Ident:
			name = f.Name
			if name == "len" || name == "cap" {
				return ".pub"
			}
		case *ast.SelectorExpr:
			if id, ok := f.X.(*ast.Ident); ok {
				if _, isPkg := c.p.info.Uses[id].(*types.PkgName); isPkg {
					name = id.Name + "." + f.Sel.Name
				}
			}
			if name == "" {
				recv = f.X
				tn := typeName(c.p.info.Types[f.X].Type)
				name = tn + "." + f.Sel.Name
			}
		}
		args := ".argNil"
		for i := len(x.Args) - 1; i >= 0; i-- {
			args = "(.argCons " + c.expr(x.Args[i]) + " " + args + ")"
		}
		if recv != nil {
			args = "(.argCons " + c.expr(recv) + " " + args + ")"
		}
		id := -1
		if _, ok := c.p.funcs[name]; ok {
			c.cur.calls[name] = true
			if v, ok := c.ids[name]; ok {
				id = v
			} else {
				id = len(c.ids)
				c.ids[name] = id
			}
		} else if v, ok := c.intr[name]; ok {
			id = 100000 + v
		} else {
			c.unknown[name] = true
			id = 999999
		}
		return fmt.Sprintf("(.call %d %s)", id, args)
	}
	return "(.call 999999 .argNil)"
}

func (c *ctx5) emit(s string) { c.cur.stmts = append(c.cur.stmts, s) }

func (c *ctx5) block(stmts []ast.Stmt) {
	for _, s := range stmts {
		c.stmt(s)
	}
}

func (c *ctx5) stmt(s ast.Stmt) {
	switch st := s.(type) {
	case nil:
	case *ast.AssignStmt:
		for _, l := range st.Lhs {
			c.emit(".eval " + c.expr(l))
		}
		for _, r := range st.Rhs {
			c.emit(".eval " + c.expr(r))
		}
	case *ast.IncDecStmt:
		c.emit(".eval " + c.expr(st.X))
	case *ast.DeclStmt:
		if gd, ok := st.Decl.(*ast.GenDecl); ok {
			for _, sp := range gd.Specs {
				if vs, ok := sp.(*ast.ValueSpec); ok {
					for _, v := range vs.Values {
						c.emit(".eval " + c.expr(v))
					}
				}
			}
		}
	case *ast.ExprStmt:
		c.emit(".eval " + c.expr(st.X))
	case *ast.ReturnStmt:
		for _, r := range st.Results {
			c.emit(".eval " + c.expr(r))
		}
		c.emit(".ret")
	case *ast.BlockStmt:
		c.block(st.List)
	case *ast.IfStmt:
		c.stmt(st.Init)
		c.emit(".ctrl " + c.expr(st.Cond))
		c.block(st.Body.List)
		c.stmt(st.Else)
	case *ast.ForStmt:
		c.stmt(st.Init)
		c.emit(".ctrl " + c.expr(st.Cond))
		c.stmt(st.Post)
		c.block(st.Body.List)
	case *ast.RangeStmt:
		c.emit(".ctrl " + c.expr(st.X))
		c.block(st.Body.List)
	case *ast.SwitchStmt:
		c.stmt(st.Init)
		c.emit(".ctrl " + c.expr(st.Tag))
		for _, cc := range st.Body.List {
			cl := cc.(*ast.CaseClause)
			for _, e := range cl.List {
				c.emit(".ctrl " + c.expr(e))
			}
			c.block(cl.Body)
		}
	case *ast.DeferStmt:
		c.emit(".eval " + c.expr(st.Call))
	default:
		c.emit(".ctrl (.call 999999 .argNil)") // anything else is outside the subset
	}
}

func passCT(p *Pkg) (string, []string) {
	c := &ctx5{p: p, ids: map[string]int{}, intr: map[string]int{}, unknown: map[string]bool{}}
	for i, n := range ctIntrinsics {
		c.intr[n] = i
	}
	var keys []string
	for k, fd := range p.funcs {
		if docPromisesCT(fd.Doc) {
			keys = append(keys, k)
		}
	}
	sort.Strings(keys)
	for _, k := range keys {
		c.ids[k] = len(c.ids)
	}
	ndoc := len(keys)
	fns := map[string]*ctFn{}
	work := append([]string{}, keys...)
	for len(work) > 0 {
		k := work[0]
		work = work[1:]
		if _, done := fns[k]; done {
			continue
		}
		fd := p.funcs[k]
		fn := &ctFn{key: k, documented: docPromisesCT(fd.Doc), calls: map[string]bool{}}
		fns[k] = fn
		c.cur = fn
		if fd.Body != nil {
			c.block(fd.Body.List)
		}
		var cs []string
		for cal := range fn.calls {
			cs = append(cs, cal)
		}
		sort.Strings(cs)
		work = append(work, cs...)
	}
	byID := make([]string, len(c.ids))
	for k, v := range c.ids {
		byID[v] = k
	}
	var sb strings.Builder
	sb.WriteString("import Secp.Core.CT\n/- GENERATED by tools/gotr (pass T5) from /repo — do not edit. -/\nset_option maxRecDepth 100000\nnamespace Secp.Gen.CTGen\nopen Secp.CT\n\n")
	fmt.Fprintf(&sb, "/-- number of functions whose documentation promises constant time -/\ndef documented : Nat := %d\n\n", ndoc)
	var defs []string
	for id, k := range byID {
		fn := fns[k]
		if fn == nil {
			continue
		}
		dn := fmt.Sprintf("fn%d", id)
		fmt.Fprintf(&sb, "/-- %s -/\ndef %s : Fn := { id := %d, name := %q, documented := %v, body := [\n", k, dn, id, k, fn.documented)
		for i, s := range fn.stmts {
			sep := ","
			if i == len(fn.stmts)-1 {
				sep = ""
			}
			fmt.Fprintf(&sb, "  %s%s\n", s, sep)
		}
		sb.WriteString("] }\n\n")
		defs = append(defs, dn)
	}
	fmt.Fprintf(&sb, "def fns : List Fn := [%s]\n\n", strings.Join(defs, ", "))
	var unk []string
	for u := range c.unknown {
		unk = append(unk, u)
	}
	sort.Strings(unk)
	fmt.Fprintf(&sb, "/-- call targets outside the package and outside the intrinsic list: %s -/\ndef unknownCalls : Nat := %d\n\nend Secp.Gen.CTGen\n", strings.Join(unk, " "), len(unk))
	return sb.String(), nil
}
