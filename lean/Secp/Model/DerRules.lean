import Secp.Model.Der
/-
  Model/DerRules — for each error kind of the DER parser, the rule of the
  encoding that an input must really violate for that kind to be reported.
  Used only in the statement of `parseDER_err_sound`.
-/
namespace Secp.Model
open Secp.Spec

/-- byte at position i as a number (positions past the end never satisfy a rule below) -/
def byteAt (b : Bytes) (i : Nat) : Option Nat := (b[i]?).map UInt8.toNat

def DerViolates (b : Bytes) : SigErr → Prop
  | .ErrSigTooShort => b.length < 8
  | .ErrSigTooLong => b.length > 72
  | .ErrSigInvalidSeqID => byteAt b 0 ≠ some 0x30
  | .ErrSigInvalidDataLen => byteAt b 1 ≠ some (b.length - 2)
  | .ErrSigMissingSTypeID => ∃ rLen, byteAt b 3 = some rLen ∧ 4 + rLen ≥ b.length
  | .ErrSigMissingSLen => ∃ rLen, byteAt b 3 = some rLen ∧ 5 + rLen ≥ b.length
  | .ErrSigInvalidSLen => ∃ rLen sLen, byteAt b 3 = some rLen ∧ byteAt b (5 + rLen) = some sLen ∧
      6 + rLen + sLen ≠ b.length
  | .ErrSigInvalidRIntID => byteAt b 2 ≠ some 0x02
  | .ErrSigZeroRLen => byteAt b 3 = some 0
  | .ErrSigNegativeR => ∃ x, byteAt b 4 = some x ∧ x ≥ 128
  | .ErrSigTooMuchRPadding => ∃ rLen x, byteAt b 3 = some rLen ∧ rLen > 1 ∧ byteAt b 4 = some 0 ∧
      byteAt b 5 = some x ∧ x < 128
  | .ErrSigInvalidSIntID => ∃ rLen, byteAt b 3 = some rLen ∧ byteAt b (4 + rLen) ≠ some 0x02
  | .ErrSigZeroSLen => ∃ rLen, byteAt b 3 = some rLen ∧ byteAt b (5 + rLen) = some 0
  | .ErrSigNegativeS => ∃ rLen x, byteAt b 3 = some rLen ∧ byteAt b (6 + rLen) = some x ∧ x ≥ 128
  | .ErrSigTooMuchSPadding => ∃ rLen sLen x, byteAt b 3 = some rLen ∧ byteAt b (5 + rLen) = some sLen ∧
      sLen > 1 ∧ byteAt b (6 + rLen) = some 0 ∧ byteAt b (7 + rLen) = some x ∧ x < 128
  | .ErrSigRTooBig => ∃ rLen, byteAt b 3 = some rLen ∧ beNat ((b.take (4 + rLen)).drop 4) ≥ N
  | .ErrSigRIsZero => ∃ rLen, byteAt b 3 = some rLen ∧ beNat ((b.take (4 + rLen)).drop 4) = 0
  | .ErrSigSTooBig => ∃ rLen sLen, byteAt b 3 = some rLen ∧ byteAt b (5 + rLen) = some sLen ∧
      beNat ((b.take (6 + rLen + sLen)).drop (6 + rLen)) ≥ N
  | .ErrSigSIsZero => ∃ rLen sLen, byteAt b 3 = some rLen ∧ byteAt b (5 + rLen) = some sLen ∧
      beNat ((b.take (6 + rLen + sLen)).drop (6 + rLen)) = 0
  | _ => False

end Secp.Model
