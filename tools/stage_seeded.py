#!/usr/bin/env python3
"""stage_seeded.py <slot> <seeded-dir> <check> [<check>…]

Run checks against a seeded change WITHOUT touching /repo or /verif's build: a copy of /verif
(with its build products) is kept under /tmp/vstage-<slot>, a clone of /repo under
/tmp/repo-<slot>; the patch is applied to the clone and the checks run there with
VERIF_REPO pointing at it.  Outcomes are recorded in seeded/<dir>/meta.json (in /verif).
Several slots can run in parallel."""
import sys, os, subprocess, json, re, time, shutil
V = os.path.dirname(os.path.dirname(os.path.abspath(__file__)))
slot, name = sys.argv[1], sys.argv[2]
checks = sys.argv[3:]
d = os.path.join(V, os.environ.get("SEEDED_DIR", "seeded"), name)
stage = "/tmp/vstage-%s" % slot
repo = "/tmp/repo-%s" % slot
rc = subprocess.run(["rsync", "-a", "--delete", "--exclude", ".git", "--exclude", "replays", "--exclude", "*.lock",
                     "--exclude", "*.tmp", V + "/", stage + "/"]).returncode
assert rc in (0, 24), "rsync failed: %d" % rc  # 24 = a file vanished while copying (a build is running in /verif)
shutil.rmtree(repo, ignore_errors=True)
subprocess.run(["git", "clone", "-q", "/repo", repo], check=True)
subprocess.run(["git", "-C", repo, "apply", os.path.join(d, "patch.diff")], check=True)
res = {}
for c in checks:
    t = time.time()
    env = dict(os.environ, VERIF_REPO=repo, VERIF_EVIDENCE_DIR=os.path.join(stage, ".work", "evidence-seeded"))
    p = subprocess.run([os.path.join(stage, "check"), c, "quick"], cwd=stage, env=env, capture_output=True, text=True)
    out = p.stdout + p.stderr
    vio = [l for l in out.split("\n") if l.startswith("VIOLATION")]
    failed = [l.strip() for l in out.split("\n") if " FAIL " in l][:4]
    kind = "not detected" if p.returncode == 0 else ("no-failing-input-found" if vio and vio[0].endswith("no-failing-input-found") else "concrete replay")
    res[c] = {"exit": p.returncode, "result": kind, "failed_steps": [f[:300] for f in failed], "wall_s": round(time.time() - t, 1)}
    if vio:
        m = re.search(r"replay=(\S+)", vio[0])
        if m and os.path.exists(m.group(1)):
            r = json.load(open(m.group(1)))
            res[c]["broken"] = [b[:300] for b in r.get("broken", [])[:5]]
            if r.get("cases"):
                res[c]["first_case"] = {k: (v[:300] if isinstance(v, str) else v) for k, v in r["cases"][0].items()}
    print(name, c, kind, [f[:160] for f in failed[:2]], flush=True)
shutil.rmtree(repo, ignore_errors=True)
mp = os.path.join(d, "meta.json")
meta = json.load(open(mp)) if os.path.exists(mp) else {}
meta.setdefault("checks", {}).update(res)
json.dump(meta, open(mp, "w"), indent=1)
