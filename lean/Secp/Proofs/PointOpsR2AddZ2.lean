/-
  Proofs/PointOpsR2AddZ2 — addZ2EqualsOne (madd-2007-bl), result≡p2.
-/
import Secp.Proofs.PointOpsR2Base
import Secp.Proofs.PointOpsAddZ2

set_option linter.unusedSimpArgs false
namespace Secp.Proofs.PointOps
open Secp.Spec Secp.Model Secp.FOp Secp.Proofs
open Secp.Gen.FormulasC

theorem addZ2EqualsOne_a011_contract (f : Nat) :
    AddContract (fun _ Z2 => Z2 = 1) (RunR2 (f + 1) 20) (DRunP f) where
  ne := by
    intro X1 Y1 Z1 X2 Y2 Z2 hb1 _ _ _ hpre hne
    subst hpre
    rw [Ne, ← addZ2_U_iff hb1.1] at hne
    refine ⟨?X3, ?Y3, ?Z3, ?run, ⟨?b1, ?b2, ?b3⟩, ?ch⟩
    case run =>
      show callE (f + 1) 20 [X1, Y1, Z1, X2, Y2, 1] = some [X1, Y1, Z1, _, _, _]
      rw [callE_succ f 20 _ addZ2EqualsOne_a011 rfl]
      exec_simp [addZ2EqualsOne_a011, addZ2EqualsOne_a011_p0, addZ2EqualsOne_a011_p1, addZ2EqualsOne_a011_p2, hne]
      and_intros <;> rfl
    case b1 => exact Nat.mod_lt _ P_pos
    case b2 => exact Nat.mod_lt _ P_pos
    case b3 => exact Nat.mod_lt _ P_pos
    case ch =>
      convert chordRep_addG (X1 : F) Y1 Z1 X2 Y2 ((1 : Nat) : F) using 1
      all_goals cast_simp
      all_goals simp only [agX, agY, agZ]
      all_goals ring
  eq_ne := by
    intro X1 Y1 Z1 X2 Y2 Z2 hb1 _ _ _ hpre hU hS
    subst hpre
    rw [Ne] at hS
    rw [← addZ2_U_iff hb1.1] at hU
    rw [← addZ2_S_iff hb1.2.1] at hS
    show callE (f + 1) 20 [X1, Y1, Z1, X2, Y2, 1] = some [X1, Y1, Z1, 0, 0, 0]
    rw [callE_succ f 20 _ addZ2EqualsOne_a011 rfl]
    exec_simp [addZ2EqualsOne_a011, addZ2EqualsOne_a011_p0, addZ2EqualsOne_a011_p1, addZ2EqualsOne_a011_p2, hS, ← hU]
  eq_eq := by
    intro X1 Y1 Z1 X2 Y2 Z2 hb1 _ _ _ hpre hU hS r hr
    subst hpre
    rw [← addZ2_U_iff hb1.1] at hU
    rw [← addZ2_S_iff hb1.2.1] at hS
    obtain ⟨a, b, c⟩ := r
    have hr' : callE f 4 [X1, Y1, Z1, X2, Y2, 1] = some [X1, Y1, Z1, a, b, c] := hr X2 Y2 1
    show callE (f + 1) 20 [X1, Y1, Z1, X2, Y2, 1] = some [X1, Y1, Z1, a, b, c]
    rw [callE_succ f 20 _ addZ2EqualsOne_a011 rfl]
    exec_simp [addZ2EqualsOne_a011, addZ2EqualsOne_a011_p0, addZ2EqualsOne_a011_p1, addZ2EqualsOne_a011_p2, ← hU, ← hS, hr']

end Secp.Proofs.PointOps
