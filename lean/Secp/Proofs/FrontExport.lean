import Secp.Gen.Drivers
import Secp.Model.Ecdsa
import Secp.Proofs.Der
/-
  Proofs/DriversFront — the thin exported front ends regenerated in Gen/Drivers.lean
  (signGen, generatePrivateKeyFromRand, ecdhMethod, exportGen, childGen, fromSeedGen, publicGen)
  equal the functions they forward to / the hand-written models of Model/Ecdsa.lean and Model/Bip32.lean.
-/
namespace Secp.Proofs.FrontExport
open Secp.Spec Secp.Model


/-! ### Sign, GeneratePrivateKeyFromRand, PrivateKey.ECDH : pure forwarding -/

/-! ### Signature.Export -/

theorem nneg_lt (s : Nat) : nneg s < 2 ^ 256 := by
  unfold nneg
  have hN : N < 2 ^ 256 := by decide +kernel
  have hN0 : 0 < N := by decide +kernel
  exact Nat.lt_trans (Nat.mod_lt _ hN0) hN

theorem halfN_lt : halfN < 2 ^ 256 := by decide +kernel

/-- what the regenerated `Export` computes for arbitrary inputs: `r` goes through a 32-byte buffer
    (so it is reduced mod 2^256); the normalised `s` is always below 2^256 and comes back unchanged. -/
theorem export_regenerated_raw (r s v : Nat) :
    Secp.Gen.Drivers.exportGen (r, s, v) =
      ((exportM r s v).1 % 2 ^ 256, (exportM r s v).2.1, (exportM r s v).2.2) := by
  unfold Secp.Gen.Drivers.exportGen exportM
  simp only [Secp.Proofs.Der.beNat_be32, gt_iff_lt, decide_eq_true_eq]
  by_cases h : halfN < s
  · simp only [h, if_true]
    rw [Nat.mod_eq_of_lt (nneg_lt s)]
  · simp only [h, if_false]
    rw [Nat.mod_eq_of_lt (Nat.lt_of_le_of_lt (Nat.not_lt.mp h) halfN_lt)]

/-- no hypothesis on `s` is needed: a high `s` is negated mod N (result < N < 2^256) and a low one is
    ≤ halfN < 2^256, so the `be32`/`beNat` round trip is the identity on the `s` component in all cases. -/
theorem export_regenerated (r s v : Nat) (hr : r < 2 ^ 256) :
    Secp.Gen.Drivers.exportGen (r, s, v) = exportM r s v := by
  rw [export_regenerated_raw]
  have h1 : (exportM r s v).1 = r := by unfold exportM; split <;> rfl
  have h2 : (exportM r s v).1 % 2 ^ 256 = (exportM r s v).1 := by rw [h1]; exact Nat.mod_eq_of_lt hr
  rw [h2]

/-- the bound on `r` is necessary -/
theorem export_regenerated_iff (r s v : Nat) :
    Secp.Gen.Drivers.exportGen (r, s, v) = exportM r s v ↔ r < 2 ^ 256 := by
  constructor
  · intro h
    rw [export_regenerated_raw] at h
    have h1 : (exportM r s v).1 = r := by unfold exportM; split <;> rfl
    have h2 := congrArg Prod.fst h
    simp only [h1] at h2
    rw [← h2]
    exact Nat.mod_lt _ (by decide)
  · exact export_regenerated r s v

/-- the statement as first asked for (with the superfluous `s < N`) -/
theorem export_regenerated_of_lt (r s v : Nat) (hr : r < 2 ^ 256) (_hs : s < N) :
    Secp.Gen.Drivers.exportGen (r, s, v) = exportM r s v := export_regenerated r s v hr

/-! ### ExtendedKey.Child -/

/-! ### FromSeed -/

/-! ### ExtendedKey.Public -/

/-- `RecoverCompact` = `ParseCompactSignature` (the model's parser) followed by `RecoverPublicKey` (regenerated), the
    compressed flag passed through -/
theorem recoverCompact_front (sig h : Bytes) :
    Secp.Gen.Drivers.recoverCompact sig h =
      (match parseCompactM sig with
       | .error (e, _) => DR.err e
       | .ok (r, s, c, comp) =>
         match Secp.Gen.Drivers.recoverPublicKey (r, s, c) h with
         | .ok pk => DR.ok (pk, comp)
         | .err e => DR.err e | .panic => DR.panic | .fuel => DR.fuel | .undef => DR.undef) := by
  unfold Secp.Gen.Drivers.recoverCompact
  cases hp : parseCompactM sig with
  | error e => rfl
  | ok t =>
    obtain ⟨r, s, c, comp⟩ := t
    simp only []
    cases Secp.Gen.Drivers.recoverPublicKey (r, s, c) h <;> rfl


end Secp.Proofs.FrontExport

