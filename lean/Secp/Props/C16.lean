import Secp.Gen.Formulas
import Secp.Proofs.AbsSound
import Secp.Proofs.Slices
import Secp.Proofs.SliceSound
import Secp.Proofs.SliceLimb
/-
  Props/C16 — no input makes point or signature arithmetic wrap or compare denormalised.

  `Secp.Gen.Formulas` is REGENERATED from /repo (curve.go, field.go) on every check run: every
  execution path of every point routine as a list of FieldVal operations and predicate tests
  (tools/gotr pass T2, all calls inlined, aliasing expressed by shared registers).  `absPath`
  (Core/FOp.lean) interprets a path over (magnitude bound, normalised?) and fails as soon as
    • NegateVal's magnitude argument is below the operand's magnitude or above 63,
    • an Add/Add2/AddInt/MulInt result would exceed magnitude 63 (uint32 limb capacity with slack),
    • a Mul2/SquareVal operand exceeds magnitude 8,
    • Equals/IsZero/IsOne/IsOdd is applied to a value not known to be normalised,
    • a register is used before it is written.
  Each theorem below says: from the routine's input contract (operands normalised), ALL paths pass
  and the result registers end normalised.  They are closed by `decide` on the regenerated data, so
  an edit such as Negate(16)→Negate(15) or a dropped Normalize() makes this file fail to build.
-/
namespace Secp.Props.C16
open Secp.FOp Secp.Gen.Formulas

/-- a normalised operand -/
def nrm : Option AV := some (1, true)
def normalisedInputs (n : Nat) : AState := List.replicate n nrm

set_option maxRecDepth 1000000

theorem addZ1AndZ2EqualsOne_ok : addZ1AndZ2EqualsOne.absOK (normalisedInputs 9) [6, 7, 8] = true := by decide +kernel
theorem addZ1EqualsZ2_ok : addZ1EqualsZ2.absOK (normalisedInputs 9) [6, 7, 8] = true := by decide +kernel
theorem addZ2EqualsOne_ok : addZ2EqualsOne.absOK (normalisedInputs 9) [6, 7, 8] = true := by decide +kernel
theorem addGeneric_ok : addGeneric.absOK (normalisedInputs 9) [6, 7, 8] = true := by decide +kernel
theorem doubleZ1EqualsOne_ok : doubleZ1EqualsOne.absOK (normalisedInputs 6) [3, 4, 5] = true := by decide +kernel
theorem doubleGeneric_ok : doubleGeneric.absOK (normalisedInputs 6) [3, 4, 5] = true := by decide +kernel
/-- AddNonConst with distinct objects, with result ≡ p1, and with result ≡ p2 -/
theorem AddNonConst_ok : AddNonConst.absOK (normalisedInputs 9) [6, 7, 8] = true := by decide +kernel
theorem AddNonConst_r1_ok : AddNonConst_r1.absOK (normalisedInputs 6) [0, 1, 2] = true := by decide +kernel
theorem AddNonConst_r2_ok : AddNonConst_r2.absOK (normalisedInputs 6) [3, 4, 5] = true := by decide +kernel
theorem DoubleNonConst_ok : DoubleNonConst.absOK (normalisedInputs 6) [3, 4, 5] = true := by decide +kernel
theorem DoubleNonConst_r1_ok : DoubleNonConst_r1.absOK (normalisedInputs 3) [0, 1, 2] = true := by decide +kernel
/-- ToAffine (with the 258-squaring inversion chain inlined): X, Y, Z end normalised -/
theorem ToAffine_ok : ToAffine.absOK (normalisedInputs 3) [0, 1, 2] = true := by decide +kernel
theorem isOnCurve_ok : isOnCurve.absOK (normalisedInputs 2) [] = true := by decide +kernel
/-- DecompressY accepts an x of magnitude up to 8 (its documented contract) -/
theorem DecompressY_ok : DecompressY.absOK [some (8, false), none] [] = true := by decide +kernel
theorem Inverse_ok : Inverse.absOK [some (8, false)] [] = true := by decide +kernel
theorem SquareRootVal_ok : SquareRootVal.absOK [none, some (8, false)] [] = true := by decide +kernel

/-! ### what acceptance by the abstract interpreter MEANS for the limb code

  `Secp.Model.LimbExec` runs a formula program on registers of ten uint32 limbs, performing every
  FieldVal method by the REGENERATED limb kernel (`Secp.Gen.Field_*`, Go wrap-around semantics).
  `Rel σ rl rv`: the limb registers `rl` realise the abstract state σ (magnitude bounds, normalised
  flags, every limb fits uint32) and denote the field values `rv`. -/

/-- If the abstract interpreter accepts a program from σ, then for ALL limb registers realising σ the
    limb-level run and the value-level run take the same branches and end in related states: no limb
    wraps, every comparison sees a normalised value, and the results depend only on the field values
    the operands denote — not on their limb representation.  (Proved from the C05 kernel theorems.) -/
theorem absPath_sound (items : List PItem) (σ σ' : AState) (rl : Secp.Model.LRegs) (rv : Regs) (bools : List Bool)
    (hcf : Secp.Proofs.AbsSound.CallFree items) (hir : Secp.Proofs.AbsSound.InRange rl.length items)
    (habs : absPath items σ = some σ') (hrel : Secp.Model.Rel σ rl rv) :
    (Secp.Model.execPathL bools items rl = none ↔ execPathWith (fun _ _ => none) bools items rv = none) ∧
    ∀ rl' rv', Secp.Model.execPathL bools items rl = some rl' →
      execPathWith (fun _ _ => none) bools items rv = some rv' → Secp.Model.Rel σ' rl' rv' :=
  Secp.Proofs.AbsSound.absPath_sound items σ σ' rl rv bools hcf hir habs hrel

/-- a program accepted by the abstract interpreter contains no call item -/
theorem callFree_of_abs : ∀ (items : List PItem) (σ σ' : AState), absPath items σ = some σ' →
    Secp.Proofs.AbsSound.CallFree items
  | [], _, _, _ => by intro it hit; cases hit
  | .op o :: rest, σ, σ', h => by
    simp only [absPath] at h
    cases hs : stepA σ o with
    | none => simp [hs] at h
    | some σ1 =>
      simp [hs] at h
      intro it hit
      rcases List.mem_cons.mp hit with rfl | ht
      · rfl
      · exact callFree_of_abs rest σ1 σ' h it ht
  | .assume c v :: rest, σ, σ', h => by
    simp only [absPath] at h
    split at h
    · intro it hit
      rcases List.mem_cons.mp hit with rfl | ht
      · rfl
      · exact callFree_of_abs rest σ σ' h it ht
    · cases h
  | .call _ _ :: _, _, _, h => by simp [absPath] at h

/-- an accepted entry: every path is accepted individually -/
theorem absOK_path (e : Entry) (σ0 : AState) (outs : List Nat) (h : e.absOK σ0 outs = true) (p : FPath) (hp : p ∈ e.paths) :
    ∃ σ', absPath p.items σ0 = some σ' := by
  unfold Entry.absOK at h
  have := List.all_eq_true.mp h p hp
  cases hq : absPath p.items σ0 with
  | none => simp [hq] at this
  | some σ' => exact ⟨σ', rfl⟩

/-- every register index of every regenerated path lies inside the entry's register file -/
def entryInRange (e : Entry) : Bool := e.paths.all fun p => decide (Secp.Proofs.AbsSound.InRange e.nreg p.items)

theorem all_in_range : (allEntries.all entryInRange) = true := by decide +kernel

/-- Consequence for e.g. AddNonConst with the result aliasing its first operand: whatever limb
    representation the normalised operands have, each path's limb-level execution agrees with its
    value-level execution.  (The same instantiation works for every entry and path above.) -/
theorem AddNonConst_r1_limbs (p : FPath) (hp : p ∈ AddNonConst_r1.paths) (rl : Secp.Model.LRegs) (rv : Regs)
    (hlen : rl.length = AddNonConst_r1.nreg) (hrel : Secp.Model.Rel (normalisedInputs 6) rl rv) :
    ∃ σ', absPath p.items (normalisedInputs 6) = some σ' ∧
      ((Secp.Model.execPathL [] p.items rl = none ↔ execPathWith (fun _ _ => none) [] p.items rv = none) ∧
       ∀ rl' rv', Secp.Model.execPathL [] p.items rl = some rl' →
         execPathWith (fun _ _ => none) [] p.items rv = some rv' → Secp.Model.Rel σ' rl' rv') := by
  obtain ⟨σ', hσ⟩ := absOK_path AddNonConst_r1 _ _ AddNonConst_r1_ok p hp
  refine ⟨σ', hσ, ?_⟩
  have hall : entryInRange AddNonConst_r1 = true := by
    have := List.all_eq_true.mp all_in_range AddNonConst_r1 (by simp [allEntries])
    exact this
  have hir : Secp.Proofs.AbsSound.InRange rl.length p.items := by
    rw [hlen]
    have := List.all_eq_true.mp hall p hp
    exact of_decide_eq_true this
  have hcf : Secp.Proofs.AbsSound.CallFree p.items := callFree_of_abs p.items _ _ hσ
  exact absPath_sound p.items _ σ' rl rv [] hcf hir hσ hrel


/-! ### the signature routines and everything else that touches field values (pass T2s)

  `Secp.Gen.Slices` is REGENERATED on every run: for every function of the three packages outside
  field.go and the point formulas above whose body touches a FieldVal — Verify, sign,
  RecoverPublicKey, ParsePubKey, the serialisers, ScalarMultNonConst and ScalarBaseMultNonConst
  (prelude and loops), ECDH, the crypto/elliptic adaptor, Schnorr sign / verify / parse, the ecckd
  helpers — the complete list of its execution paths with everything that is not field arithmetic
  sliced away (conditions on scalars, bytes and errors fork the path without an assumption, so the
  set of paths over-approximates the real control flow).  `absS` is `absPath` extended by
  preconditions of limb readers (`chk`: PutBytes, Bytes, IsOddBit, IsGtOrEqPrimeMinusOrder, a
  returned PublicKey), values entering from bytes (`havoc`), contract calls and loop heads. -/

/-- Every path of every sliced function passes: no Negate with too small a magnitude, no Add/MulInt
    beyond uint32 capacity, no Mul/Square operand above magnitude 8, no Equals / IsZero / IsOdd /
    PutBytes / Bytes / IsGtOrEqPrimeMinusOrder on a value not known to be normalised, every loop
    body returns to a state covered by the loop head, every called routine's precondition holds,
    and every returned public key / result point is normalised. -/
theorem slices_ok : Secp.Gen.Slices.allSlices.all (SEntry.ok Secp.Gen.Slices.contracts) = true := by decide +kernel

/-- Every contract used at a call site is justified by re-running the interpreter on ALL paths of the
    callee from the contract's precondition: AddNonConst (three aliasing patterns), DoubleNonConst
    (two), Inverse, SquareRootVal on the T2 programs; ScalarMultNonConst and ScalarBaseMultNonConst
    on their sliced programs. -/
theorem contracts_justified :
    Secp.Gen.Slices.contracts.all (Secp.Proofs.Slices.justifiedBy Secp.Gen.Slices.contracts) = true := by decide +kernel

/-- The regenerated table really contains the signature routines the property names (an edit that
    moves one of them out of the translator's reach is a broken obligation, not a silent gap). -/
theorem slices_cover :
    (["github.com/ModChain/secp256k1.Signature.Verify", "github.com/ModChain/secp256k1.sign",
      "github.com/ModChain/secp256k1.Signature.RecoverPublicKey", "github.com/ModChain/secp256k1.ParsePubKey",
      "github.com/ModChain/secp256k1.PublicKey.SerializeCompressed", "github.com/ModChain/secp256k1.PublicKey.SerializeUncompressed",
      "github.com/ModChain/secp256k1.ScalarMultNonConst", "github.com/ModChain/secp256k1.ScalarBaseMultNonConst",
      "github.com/ModChain/secp256k1.GenerateSharedSecret", "github.com/ModChain/secp256k1.PrivateKey.PubKey",
      "github.com/ModChain/secp256k1.KoblitzCurve.Add", "github.com/ModChain/secp256k1.KoblitzCurve.Double",
      "github.com/ModChain/secp256k1.KoblitzCurve.ScalarMult", "github.com/ModChain/secp256k1.KoblitzCurve.ScalarBaseMult",
      "github.com/ModChain/secp256k1.KoblitzCurve.IsOnCurve",
      "github.com/ModChain/secp256k1/schnorr.schnorrVerify", "github.com/ModChain/secp256k1/schnorr.schnorrSign",
      "github.com/ModChain/secp256k1/schnorr.ParseSignature", "github.com/ModChain/secp256k1/schnorr.Signature.Serialize",
      "github.com/ModChain/secp256k1/ecckd.ExtendedKey.ChildWithIL"].all
        fun n => Secp.Gen.Slices.allSlices.any fun e => e.name == n) = true := by decide +kernel

/-- `havoc d 1 true` for the 32 bytes written by ModNScalar.PutBytes: a canonical scalar is a
    canonical field value. -/
theorem scalar_bytes_are_normalised : Secp.Spec.N < Secp.Spec.P := by decide

/-- On marker-free paths `absS` is `absPath` on the underlying T2 items (so `absPath_sound` applies to
    the loop-free, call-free segments between `havoc`/`chk` items). -/
theorem absS_plain (cs : List Contract) : ∀ (items : List PItem) (σ : AState) (st : List AState),
    absS cs (items.map SItem.p) σ st = absPath items σ
  | [], _, _ => rfl
  | .op o :: rest, σ, st => by
    simp only [List.map_cons, absS, absPath]
    cases stepA σ o with
    | none => rfl
    | some σ' => simpa using absS_plain cs rest σ' st
  | .assume c v :: rest, σ, st => by
    simp only [List.map_cons, absS, absPath]
    split
    · exact absS_plain cs rest σ st
    · rfl
  | .call _ _ :: _, _, _ => by simp [absS, absPath]


/-- MONOTONICITY of the sliced interpreter in the covering order: a marker-free program accepted from σ2 is
    accepted from every state that σ2 covers (smaller magnitudes, more registers normalised) and ends covered by
    the original result.  This is what makes a loop head state and a call contract sound summaries. -/
theorem absS_mono (cs : List Contract) (items : List SItem) (hf : ∀ it ∈ items, Secp.Proofs.SliceSound.flat it = true)
    (σ1 σ2 σ2' : AState) (hc : Secp.Proofs.SliceSound.Cover σ1 σ2) (h : absS cs items σ2 [] = some σ2') :
    ∃ σ1', absS cs items σ1 [] = some σ1' ∧ Secp.Proofs.SliceSound.Cover σ1' σ2' :=
  Secp.Proofs.SliceSound.absS_mono cs items hf σ1 σ2 σ2' hc h

/-- LOOP UNROLLING: if `pre; loopBegin; b; loopEnd; post` is accepted for every body path b of a loop, then EVERY
    concrete unrolling `pre; b1; …; bn; post` (any n ≥ 0, bodies in any order, repetitions allowed) is accepted by the
    marker-free interpreter (to which `absS_plain` / `absPath_sound` apply), with a final state covered by the
    analysed one.  So one symbolic iteration per loop — what T2s extracts from ScalarMultNonConst and
    ScalarBaseMultNonConst — decides all iteration counts. -/
theorem loop_unroll (cs : List Contract) (pre post : List SItem) (bodies : List (List SItem))
    (hpre : ∀ it ∈ pre, Secp.Proofs.SliceSound.flat it = true) (hpost : ∀ it ∈ post, Secp.Proofs.SliceSound.flat it = true)
    (hb : ∀ b ∈ bodies, ∀ it ∈ b, Secp.Proofs.SliceSound.flat it = true) (σ σf : AState) (hne : bodies ≠ [])
    (hacc : ∀ b ∈ bodies, absS cs (pre ++ [SItem.loopBegin] ++ b ++ [SItem.loopEnd] ++ post) σ [] = some σf)
    (trace : List (List SItem)) (htr : ∀ b ∈ trace, b ∈ bodies) :
    ∃ σ', absS cs (pre ++ trace.flatten ++ post) σ [] = some σ' ∧ Secp.Proofs.SliceSound.Cover σ' σf :=
  Secp.Proofs.SliceSound.loop_unroll cs pre post bodies hpre hpost hb σ σf hne hacc trace htr


/-- LIMB-LEVEL MEANING of the sliced interpreter (loop-free paths).  `ExecS … strict` is the paired limb / value execution
    of a sliced path: field operations by the REGENERATED limb kernels (`stepL`) and by their value-level meaning (`stepF`),
    `assume` taken on both sides, `havoc` and the results of contract calls replaced by ARBITRARY limb values realising the
    stated abstract value.  With `strict = true` every `chk` must hold on the limbs (the value read by PutBytes / Bytes /
    IsOddBit / IsGtOrEqPrimeMinusOrder, or stored in a returned PublicKey, is within its magnitude and normalised) and every
    callee's precondition must hold on the limbs.  The theorem: if `absS` accepts the path, then for ALL limb registers
    realising the input contract EVERY lax execution is a strict one, and it ends with limbs and values still related —
    no field operation wrapped, every comparison saw normalised operands. -/
theorem absS_limb_sound (cs : List Contract) (bools : List Bool) (items : List SItem) (σ σ' : AState)
    (rl : Secp.Model.LRegs) (rv : Regs) (s' : Secp.Model.LRegs × Regs)
    (hir : Secp.Proofs.SliceLimb.SInRange rl.length items)
    (habs : absS cs items σ [] = some σ') (hrel : Secp.Model.Rel σ rl rv)
    (hex : Secp.Proofs.SliceLimb.ExecS cs bools false items (rl, rv) s') :
    Secp.Proofs.SliceLimb.ExecS cs bools true items (rl, rv) s' ∧ Secp.Model.Rel σ' s'.1 s'.2 :=
  Secp.Proofs.SliceLimb.absS_limb_sound cs bools items σ σ' rl rv s' hir habs hrel hex

/-- on an accepted path the limb-level and the value-level outcome of every predicate agree -/
theorem assume_agree (σ : AState) (c : FCond) (rl : Secp.Model.LRegs) (rv : Regs) (bools : List Bool)
    (hrel : Secp.Model.Rel σ rl rv) (hc : condA σ c = true) : Secp.Model.condL rl bools c = condF rv bools c :=
  Secp.Proofs.SliceLimb.assume_agree σ c rl rv bools hrel hc

/-- non-vacuity of the sliced interpreter: Verify's step 8 without Normalize is rejected, with it accepted;
    a loop whose body raises the magnitude is rejected -/
example : absS [] [.havoc 0 1 true, .havoc 1 1 true, .p (.op (.mul2 2 0 1)), .p (.assume (.equals 2 1) true)] [] [] = none := by decide
example : (absS [] [.havoc 0 1 true, .havoc 1 1 true, .p (.op (.mul2 2 0 1)), .p (.op (.norm 2)), .p (.assume (.equals 2 1) true)] [] []).isSome = true := by decide
example : absS [] [.havoc 0 1 true, .havoc 1 1 true, .loopBegin, .p (.op (.add 0 1)), .loopEnd] [] [] = none := by decide
example : (absS [] [.havoc 0 1 true, .havoc 1 1 true, .loopBegin, .p (.op (.add 0 1)), .p (.op (.norm 0)), .loopEnd, .chk 0 1 true] [] []).isSome = true := by decide

/-- the checker is not vacuous: it rejects the doubling formula with Negate(15) in place of Negate(16) -/
example : absPath [.op (.mulInt 0 8), .op (.mulInt 0 2), .op (.neg 0 0 15)] [nrm] = none := by decide
example : absPath [.op (.mulInt 0 8), .op (.mulInt 0 2), .op (.neg 0 0 16)] [nrm] = some [some (17, false)] := by decide
/-- … and a comparison of a denormalised value -/
example : absPath [.op (.add 0 1), .assume (.equals 0 1) true] [nrm, nrm] = none := by decide

end Secp.Props.C16
