import Secp.Gen.Drivers
/-
  Proofs/DriversMisc — the regenerated value-level drivers of privkey.go and of the compact
  signature export (Gen/Drivers.lean: privKeyFromBytes, pubKey, exportCompact, signCompact,
  generatePrivateKey_loop, generatePrivateKey) equal the hand-written models of
  Model/PrivKey.lean and Model/Ecdsa.lean.
-/
namespace Secp.Proofs.DriversKeygen
open Secp.Spec Secp.Model

private theorem beBytes_length' (len n : Nat) : (beBytes len n).length = len := by
  induction len generalizing n with
  | zero => rfl
  | succ k ih => simp [beBytes, ih]

private theorem be32_length' (v : Nat) : (be32 v).length = 32 := beBytes_length' 32 v

/-! ### PrivKeyFromBytes -/

theorem privKeyFromBytes_regenerated (b : Bytes) :
    Secp.Gen.Drivers.privKeyFromBytes b = Secp.Model.privKeyFromBytes b := by
  rfl

/-! ### PrivateKey.PubKey -/

/-! ### Signature.ExportCompact -/

/-! ### SignCompact -/

/-! ### generatePrivateKey -/

private theorem readFull32_ok_length {rd rd' : Reader} {blk : Bytes}
    (h : readFull32 rd = (.ok blk, rd')) :
    blk = rd.data.take 32 ∧ rd'.data = rd.data.drop 32 ∧ 32 ≤ rd.data.length := by
  unfold readFull32 at h
  split at h
  · rename_i hge
    simp only [Prod.mk.injEq, Except.ok.injEq] at h
    obtain ⟨h1, h2⟩ := h
    subst h1; subst h2
    exact ⟨rfl, rfl, hge⟩
  · split at h <;> simp at h

private theorem scalarSetBytes32_eq (b : Bytes) (hb : b.length ≤ 32) :
    scalarSetBytes32 b = scalarSetByteSlice b := by
  unfold scalarSetBytes32 scalarSetByteSlice
  rw [List.take_of_length_le hb]

private theorem readFull32_len_le (rd : Reader) :
    (readFull32 rd).2.data.length ≤ rd.data.length := by
  unfold readFull32
  split
  · simp
  · split <;> simp

private theorem loop_true (rd : Reader) (key : Nat) (b32 : Bytes) (n : Nat) :
    Secp.Gen.Drivers.generatePrivateKey_loop rd key b32 (n + 1) true = (.ok key, rd) := by
  simp [Secp.Gen.Drivers.generatePrivateKey_loop]

private theorem valid_eq (k : Nat) (ov : Bool) :
    ((((if k == 0 then 1 else 0) ||| (if ov then 1 else 0) : Nat)) == 0)
      = decide (k ≠ 0 ∧ ¬ ov = true) := by
  by_cases hk : k = 0 <;> cases ov <;> simp [hk]

/-- the loop, for any fuel that covers the whole blocks the reader still holds -/
private theorem generatePrivateKey_loop_eq (fuel : Nat) :
    ∀ (rd : Reader) (key : Nat) (b32 : Bytes) (used : Nat),
      rd.data.length / 32 + 1 ≤ fuel →
      (Secp.Gen.Drivers.generatePrivateKey_loop rd key b32 fuel false).1
          = (match (Secp.Model.generatePrivateKey.go fuel rd used).1 with
              | .ok k => DR.ok k | .error e => DR.err e)
        ∧ used + (rd.data.length
            - (Secp.Gen.Drivers.generatePrivateKey_loop rd key b32 fuel false).2.data.length)
          = (Secp.Model.generatePrivateKey.go fuel rd used).2
        ∧ (Secp.Gen.Drivers.generatePrivateKey_loop rd key b32 fuel false).2.data.length
          ≤ rd.data.length := by
  induction fuel with
  | zero => intro rd key b32 used h; omega
  | succ n ih =>
    intro rd key b32 used hfuel
    unfold Secp.Gen.Drivers.generatePrivateKey_loop Secp.Model.generatePrivateKey.go
    simp only [Bool.not_false, if_true]
    have hle := readFull32_len_le rd
    rcases hrf : readFull32 rd with ⟨res, rd'⟩
    rw [hrf] at hle
    cases res with
    | error e => simpa using hle
    | ok blk =>
      obtain ⟨hblk, hrd', hlen⟩ := readFull32_ok_length hrf
      have hbl : blk.length ≤ 32 := by rw [hblk, List.length_take]; exact Nat.min_le_left _ _
      have hrdlen : rd'.data.length = rd.data.length - 32 := by rw [hrd']; simp
      have hfuel' : rd'.data.length / 32 + 1 ≤ n := by rw [hrdlen]; omega
      simp only [scalarSetBytes32_eq blk hbl]
      rcases hss : scalarSetByteSlice blk with ⟨k, ov⟩
      simp only [valid_eq]
      by_cases hv : k ≠ 0 ∧ ¬ ov = true
      · obtain ⟨m, rfl⟩ : ∃ m, n = m + 1 := ⟨n - 1, by omega⟩
        rw [decide_eq_true hv, if_pos hv, loop_true]
        refine ⟨rfl, ?_, ?_⟩
        · show used + (rd.data.length - rd'.data.length) = used + 32
          omega
        · show rd'.data.length ≤ rd.data.length
          omega
      · obtain ⟨ih1, ih2, ih3⟩ := ih rd' k blk (used + 32) hfuel'
        rw [decide_eq_false hv, if_neg hv]
        refine ⟨ih1, ?_, ?_⟩ <;> omega

theorem generatePrivateKey_regenerated (rd : Reader) :
    (Secp.Gen.Drivers.generatePrivateKey rd).1
        = (match (Secp.Model.generatePrivateKey rd).1 with
            | .ok k => DR.ok k | .error e => DR.err e)
      ∧ rd.data.length - (Secp.Gen.Drivers.generatePrivateKey rd).2.data.length
        = (Secp.Model.generatePrivateKey rd).2 := by
  unfold Secp.Gen.Drivers.generatePrivateKey Secp.Model.generatePrivateKey
  have := generatePrivateKey_loop_eq (rd.data.length / 32 + 1) rd 0
    (List.replicate 32 (0 : UInt8)) 0 (Nat.le_refl _)
  refine ⟨this.1, ?_⟩
  have h2 := this.2.1
  rw [Nat.zero_add] at h2
  exact h2

end Secp.Proofs.DriversKeygen
