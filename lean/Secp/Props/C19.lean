import Secp.Proofs.DriversKeygen
import Secp.Proofs.FrontKeygen
import Secp.Proofs.PrivKey
/-
  Props/C19 — generated and parsed private keys are always in range and unbiased.
  Model: `Secp.Model.generatePrivateKey` etc. (hand-written mirror of privkey.go,
  tied by the correspondence check with scripted readers).
-/
namespace Secp.Props.C19
open Secp.Spec Secp.Model

/-- the j-th 32-byte block of the stream -/
def block (data : Bytes) (j : Nat) : Bytes := (data.drop (32 * j)).take 32

/-- a block is a valid key candidate iff its big-endian value lies in [1, N-1] -/
def ValidBlock (b : Bytes) : Prop := 0 < beNat b ∧ beNat b < N

/-- Success: the key is exactly the first valid whole block, nothing beyond it is consumed,
    and every earlier block was discarded (never reduced). -/
theorem keygen_first_valid (r : Reader) (k used : Nat) :
    generatePrivateKey r = (.ok k, used) ↔
      ∃ j, 32 * (j + 1) ≤ r.data.length ∧ ValidBlock (block r.data j) ∧
           (∀ i < j, ¬ ValidBlock (block r.data i)) ∧
           k = beNat (block r.data j) ∧ used = 32 * (j + 1) :=
  Secp.Proofs.PrivKey.keygen_first_valid r k used

/-- Any returned key is in [1, N-1]. -/
theorem keygen_in_range (r : Reader) (k used : Nat) (h : generatePrivateKey r = (.ok k, used)) :
    0 < k ∧ k < N :=
  Secp.Proofs.PrivKey.keygen_in_range r k used h

/-- Failure: when no whole block of the stream is valid, the result is no key but the
    read error with io.ReadFull semantics: the reader's own error when the stream ended on a
    block boundary, `ErrUnexpectedEOF` for EOF inside a block, the reader's error otherwise;
    and the whole stream has been consumed. -/
theorem keygen_error (r : Reader)
    (hnone : ∀ j, 32 * (j + 1) ≤ r.data.length → ¬ ValidBlock (block r.data j)) :
    generatePrivateKey r =
      (.error (if r.data.length % 32 = 0 then r.term
               else if r.term = .eof then .unexpectedEOF else r.term), r.data.length) :=
  Secp.Proofs.PrivKey.keygen_error r hnone

/-- Loading then serialising = 32-byte big-endian of (first 32 bytes as an integer) mod N. -/
theorem fromBytes_serialize (b : Bytes) :
    privKeySerialize (privKeyFromBytes b) = be32 (beNat (b.take 32) % N) :=
  Secp.Proofs.PrivKey.fromBytes_serialize b

theorem fromBytes_lt (b : Bytes) : privKeyFromBytes b < N :=
  Secp.Proofs.PrivKey.fromBytes_lt b

theorem zero_spec (k : Nat) : privKeyZero k = 0 := rfl

-- non-vacuity: a stream whose first block is 0 (discarded) and second block is 1
example : generatePrivateKey ⟨List.replicate 32 0 ++ (List.replicate 31 0 ++ [1]), .eof⟩ = (.ok 1, 64) := by
  decide
example : generatePrivateKey ⟨List.replicate 33 0, .eof⟩ = (.error .unexpectedEOF, 33) := by decide

/-! ### Regenerated drivers (tools/gotr pass T8)

`Secp.Gen.Drivers` is REGENERATED from /repo on every check run: the Go functions below translated
statement by statement into Lean terms over the value-level primitives.  The theorems say the
regenerated definitions EQUAL the hand-written models the theorems above are about, so a change to
one of these functions either leaves the equality provable (then the property theorems still speak
about the code) or breaks this file.  `DR` = ok | err | panic | fuel (retry loop out of fuel) |
undef (an arithmetic assumption of the translation failed; shown never to occur). -/

/-- `generatePrivateKey` (privkey.go) regenerated: same result as the model for EVERY reader, and the reader is
    left exactly as many bytes shorter as the model says were consumed -/
theorem generatePrivateKey_regenerated (rd : Reader) :
    (Secp.Gen.Drivers.generatePrivateKey rd).1
        = (match (Secp.Model.generatePrivateKey rd).1 with | .ok k => DR.ok k | .error e => DR.err e)
      ∧ rd.data.length - (Secp.Gen.Drivers.generatePrivateKey rd).2.data.length
        = (Secp.Model.generatePrivateKey rd).2 :=
  Secp.Proofs.DriversKeygen.generatePrivateKey_regenerated rd

/-- `PrivKeyFromBytes` regenerated -/
theorem privKeyFromBytes_regenerated (b : Bytes) :
    Secp.Gen.Drivers.privKeyFromBytes b = Secp.Model.privKeyFromBytes b :=
  Secp.Proofs.DriversKeygen.privKeyFromBytes_regenerated b

/-- `GeneratePrivateKeyFromRand` is `generatePrivateKey` -/
theorem generatePrivateKeyFromRand_front (r : Reader) :
    Secp.Gen.Drivers.generatePrivateKeyFromRand r = Secp.Gen.Drivers.generatePrivateKey r :=
  Secp.Proofs.FrontKeygen.generatePrivateKeyFromRand_front r

end Secp.Props.C19
