import Secp.Model.Ecdsa
import Secp.Model.PubKey
import Secp.Proofs.Primes
import Secp.Proofs.FieldBridge
/-
  Proofs/Chains — the GENERATED addition chains (Gen.FormulasC: Inverse, SquareRootVal,
  and their inlined copies in DecompressY / ToAffine) compute the right powers.

  The chains are never unfolded: exponent tracking (`FOp.expPath`) is proved sound once
  (`expPath_sound`) and then evaluated on the generated programs by `decide +kernel`.
-/
set_option maxRecDepth 100000
namespace Secp.Proofs.Chains
open Secp.Spec Secp.Model Secp.FOp Secp.Proofs
open Secp.Gen.FormulasC

/-! ### registers -/

theorem length_rset (r : Regs) (d v : Nat) : (rset r d v).length = r.length := by
  simp [rset]

theorem rget_rset (r : Regs) (d v i : Nat) :
    rget (rset r d v) i = if i = d ∧ d < r.length then v else rget r i := by
  unfold rget rset
  simp only [List.getD_eq_getElem?_getD, List.getElem?_set]
  by_cases h : d = i
  · subst h
    by_cases h2 : d < r.length
    · simp [h2]
    · simp [h2]
  · have h' : ¬ i = d := fun e => h e.symm
    simp [h, h']

theorem length_stepF (r : Regs) (o : FOp) : (stepF r o).length = r.length := by
  cases o <;> simp [stepF, length_rset]

/-! ### powers -/

theorem pm_one {a : Nat} (ha : a < P) : powMod a 1 P = a := by
  rw [powMod_eq, pow_one, Nat.mod_eq_of_lt ha]

theorem pm_add (a x y : Nat) : fmul (powMod a x P) (powMod a y P) = powMod a (x + y) P := by
  simp only [powMod_eq, fmul]
  rw [pow_add, ← Nat.mul_mod]

theorem pm_two (a x : Nat) : fsq (powMod a x P) = powMod a (2 * x) P := by
  rw [two_mul, ← pm_add]; rfl

theorem pm_mod (a e : Nat) : powMod a e P % P = powMod a e P := by
  rw [powMod_eq, Nat.mod_mod]

/-! ### soundness of exponent tracking -/

/-- every register with a tracked exponent `e` holds `a^e mod P` -/
def Inv (a : Nat) (σ : List (Option Nat)) (r : Regs) : Prop :=
  ∀ i e, (σ[i]?).join = some e → rget r i = powMod a e P

theorem inv_set {a : Nat} {σ : List (Option Nat)} {r : Regs} (hI : Inv a σ r)
    (hlen : σ.length ≤ r.length) (d v : Nat) (x : Option Nat)
    (hx : ∀ e, x = some e → v = powMod a e P) : Inv a (σ.set d x) (rset r d v) := by
  intro i e he
  rw [List.getElem?_set] at he
  rw [rget_rset]
  by_cases h : d = i
  · subst h
    by_cases h2 : d < σ.length
    · have h3 : d < r.length := Nat.lt_of_lt_of_le h2 hlen
      simp only [h2, if_true, Option.join_some] at he
      simp only [h3, and_self, if_true]
      exact hx e he
    · simp [h2] at he
  · have h' : ¬ i = d := fun e => h e.symm
    simp only [h, if_false] at he
    simp only [h', false_and, if_false]
    exact hI i e he

theorem inv_norm {a : Nat} {σ : List (Option Nat)} {r : Regs} (hI : Inv a σ r) (d : Nat) :
    Inv a σ (rset r d (rget r d % P)) := by
  intro i e he
  rw [rget_rset]
  split
  · rename_i h
    rw [← h.1, hI i e he, pm_mod]
  · exact hI i e he

theorem stepE_sound {a : Nat} {σ : List (Option Nat)} {r : Regs} (hI : Inv a σ r)
    (hlen : σ.length ≤ r.length) (o : FOp) : Inv a (stepE σ o) (stepF r o) := by
  cases o with
  | set d s =>
    exact inv_set hI hlen d _ _ (fun e he => hI s e he)
  | mul2 d x y =>
    refine inv_set hI hlen d _ _ (fun e he => ?_)
    cases hx : (σ[x]?).join with
    | none => simp [hx] at he
    | some ex =>
      cases hy : (σ[y]?).join with
      | none => simp [hx, hy] at he
      | some ey =>
        simp [hx, hy] at he
        subst he
        rw [hI x ex hx, hI y ey hy, pm_add]
  | sq d x =>
    refine inv_set hI hlen d _ _ (fun e he => ?_)
    cases hx : (σ[x]?).join with
    | none => simp [hx] at he
    | some ex =>
      simp [hx] at he
      subst he
      rw [hI x ex hx, pm_two]
  | norm d => exact inv_norm hI d
  | zero d => exact inv_set hI hlen d _ _ (fun e he => by cases he)
  | setInt d v => exact inv_set hI hlen d _ _ (fun e he => by cases he)
  | neg d s m => exact inv_set hI hlen d _ _ (fun e he => by cases he)
  | add d s => exact inv_set hI hlen d _ _ (fun e he => by cases he)
  | add2 d x y => exact inv_set hI hlen d _ _ (fun e he => by cases he)
  | addInt d v => exact inv_set hI hlen d _ _ (fun e he => by cases he)
  | mulInt d v => exact inv_set hI hlen d _ _ (fun e he => by cases he)

theorem length_stepE (σ : List (Option Nat)) (o : FOp) : (stepE σ o).length = σ.length := by
  cases o <;> simp [stepE]

/-- soundness of exponent tracking: if before the path every register `i` with `σ[i] = some e`
    holds `a^e mod P`, the same is true afterwards for `expPath items σ`.
    (`hlen` is necessary: `List.set`/`rset` out of range are no-ops, so a tracked index beyond the
    register file would claim a value that was never written.) -/
theorem expPath_sound {callF : Nat → List Nat → Option (List Nat)}
    (a : Nat) (items : List PItem) (σ : List (Option Nat)) (r : Regs) (bools : List Bool) (r' : Regs)
    (hcall : ∀ it ∈ items, ∀ i args, it ≠ PItem.call i args)
    (hlen : σ.length ≤ r.length)
    (hσ : ∀ i e, (σ[i]?).join = some e → rget r i = powMod a e P)
    (hrun : execPathWith callF bools items r = some r') :
    ∀ i e, ((expPath items σ)[i]?).join = some e → rget r' i = powMod a e P := by
  induction items generalizing σ r with
  | nil =>
    simp only [execPathWith, Option.some.injEq] at hrun
    subst hrun
    exact hσ
  | cons it rest ih =>
    have hrest : ∀ it ∈ rest, ∀ i args, it ≠ PItem.call i args :=
      fun it hit => hcall it (List.mem_cons_of_mem _ hit)
    cases it with
    | op o =>
      simp only [execPathWith] at hrun
      simp only [expPath]
      exact ih (stepE σ o) (stepF r o) hrest
        (by rw [length_stepE, length_stepF]; exact hlen) (stepE_sound hσ hlen o) hrun
    | assume c v =>
      simp only [execPathWith] at hrun
      simp only [expPath]
      split at hrun
      · exact ih σ r hrest hlen hσ hrun
      · cases hrun
    | call j args =>
      exact absurd rfl (hcall _ List.mem_cons_self j args)

/-- the length side condition cannot be dropped: with `r = [2]`, `σ = [some 1, none]` the write of
    `sq 1 0` is out of range for `r` (no-op) but in range for `σ` -/
theorem expPath_sound_needs_length :
    ¬ ∀ (a : Nat) (items : List PItem) (σ : List (Option Nat)) (r : Regs) (bools : List Bool) (r' : Regs),
      (∀ it ∈ items, ∀ i args, it ≠ PItem.call i args) →
      (∀ i e, (σ[i]?).join = some e → rget r i = powMod a e P) →
      execPathWith (fun _ _ => none) bools items r = some r' →
      ∀ i e, ((expPath items σ)[i]?).join = some e → rget r' i = powMod a e P := by
  intro h
  have h2 := h 2 [.op (.sq 1 0)] [some 1, none] [2] [] [2]
    (by intro it hit i args; simp at hit; subst hit; intro hc; cases hc)
    (by
      intro i e he
      match i with
      | 0 => simp at he; subst he; decide +kernel
      | 1 => simp at he
      | n + 2 => simp at he)
    rfl 1 2 rfl
  revert h2
  decide +kernel

/-! ### running op-only paths -/

/-- all items are plain operations -/
def opsOnly : List PItem → Bool
  | [] => true
  | .op _ :: rest => opsOnly rest
  | _ :: _ => false

/-- the register file after the operations of a path -/
def runOps : List PItem → Regs → Regs
  | [], r => r
  | .op o :: rest, r => runOps rest (stepF r o)
  | _ :: rest, r => runOps rest r

theorem exec_opsOnly {callF : Nat → List Nat → Option (List Nat)} {bools : List Bool}
    (items : List PItem) (r : Regs) (h : opsOnly items = true) :
    execPathWith callF bools items r = some (runOps items r) := by
  induction items generalizing r with
  | nil => rfl
  | cons it rest ih =>
    cases it with
    | op o => simp only [execPathWith, runOps]; exact ih _ (by simpa [opsOnly] using h)
    | assume c v => simp [opsOnly] at h
    | call j args => simp [opsOnly] at h

theorem exec_append {callF : Nat → List Nat → Option (List Nat)} {bools : List Bool}
    (l1 l2 : List PItem) (r : Regs) :
    execPathWith callF bools (l1 ++ l2) r
      = (execPathWith callF bools l1 r).bind (execPathWith callF bools l2) := by
  induction l1 generalizing r with
  | nil => simp [execPathWith]
  | cons it rest ih =>
    cases it with
    | op o => simp only [List.cons_append, execPathWith]; exact ih _
    | assume c v =>
      simp only [List.cons_append, execPathWith]
      split
      · exact ih _
      · rfl
    | call j args =>
      simp only [List.cons_append, execPathWith]
      split
      · rfl
      · exact ih _

theorem length_runOps (items : List PItem) (r : Regs) : (runOps items r).length = r.length := by
  induction items generalizing r with
  | nil => rfl
  | cons it rest ih =>
    cases it with
    | op o => simp only [runOps]; rw [ih, length_stepF]
    | assume c v => simp only [runOps]; exact ih _
    | call j args => simp only [runOps]; exact ih _

theorem opsOnly_callFree (items : List PItem) (h : opsOnly items = true) :
    ∀ it ∈ items, ∀ i args, it ≠ PItem.call i args := by
  induction items with
  | nil => intro it hit; cases hit
  | cons x rest ih =>
    cases x with
    | op o =>
      intro it hit i args
      rcases List.mem_cons.mp hit with h1 | h1
      · subst h1; intro hc; cases hc
      · exact ih (by simpa [opsOnly] using h) it h1 i args
    | assume c v => simp [opsOnly] at h
    | call j args => simp [opsOnly] at h

/-- exponent tracking along an op-only path, phrased with `runOps` -/
theorem runOps_sound (a : Nat) (items : List PItem) (σ : List (Option Nat)) (r : Regs)
    (hops : opsOnly items = true) (hlen : σ.length ≤ r.length) (hσ : Inv a σ r) :
    Inv a (expPath items σ) (runOps items r) :=
  expPath_sound (callF := fun _ _ => none) (bools := []) a items σ r _
    (opsOnly_callFree items hops) hlen hσ (exec_opsOnly items r hops)

/-! ### frame: registers an op-only path does not write -/

def dest : FOp → Nat
  | .set d _ => d | .setInt d _ => d | .zero d => d | .neg d _ _ => d | .add d _ => d
  | .add2 d _ _ => d | .addInt d _ => d | .mulInt d _ => d | .mul2 d _ _ => d | .sq d _ => d
  | .norm d => d

/-- no operation of the path writes register `i` -/
def noWrite (i : Nat) : List PItem → Bool
  | [] => true
  | .op o :: rest => dest o != i && noWrite i rest
  | _ :: rest => noWrite i rest

theorem rget_stepF_of_ne (r : Regs) (o : FOp) (i : Nat) (h : dest o ≠ i) :
    rget (stepF r o) i = rget r i := by
  have h' : ¬ i = dest o := fun e => h e.symm
  cases o <;> simp only [stepF, rget_rset] <;> simp only [dest] at h' <;> simp [h']

theorem runOps_frame (i : Nat) (items : List PItem) (r : Regs) (h : noWrite i items = true) :
    rget (runOps items r) i = rget r i := by
  induction items generalizing r with
  | nil => rfl
  | cons it rest ih =>
    cases it with
    | op o =>
      simp only [noWrite, Bool.and_eq_true, bne_iff_ne] at h
      simp only [runOps]
      rw [ih _ h.2, rget_stepF_of_ne _ _ _ h.1]
    | assume c v => simp only [runOps]; exact ih _ (by simpa [noWrite] using h)
    | call j args => simp only [runOps]; exact ih _ (by simpa [noWrite] using h)

/-! ### one level of `runEntryC` -/

theorem runEntryC_succ (table : List Entry) (fuel i : Nat) (params : List Nat) (bools : List Bool)
    (e : Entry) (h : table[i]? = some e) :
    ∃ callF, runEntryC table (fuel + 1) i params bools =
      e.paths.findSome? fun p =>
        (execPathWith callF bools p.items
          (params ++ List.replicate (e.nreg - params.length) 0)).map fun r => (r, p.ret) := by
  refine ⟨fun j args => (runEntryC table fuel j args []).map fun (r, _) => r.take args.length, ?_⟩
  rw [runEntryC, h]

theorem runNamed_eq (name : String) (k : Nat) (e : Entry) (params : List Nat) (bools : List Bool)
    (hk : entryIdx name = k) (he : allEntries[k]? = some e) :
    ∃ callF, runNamed name params bools =
      e.paths.findSome? fun p =>
        (execPathWith callF bools p.items
          (params ++ List.replicate (e.nreg - params.length) 0)).map fun r => (r, p.ret) := by
  unfold runNamed
  rw [hk]
  exact runEntryC_succ allEntries 7 k params bools e he

/-- the start state: one tracked register (exponent 1) among `n` -/
theorem inv_single (a : Nat) (ha : a < P) (k n : Nat) (r : Regs) (hr : rget r k = a) :
    Inv a ((List.replicate n (none : Option Nat)).set k (some 1)) r := by
  intro i e he
  rw [List.getElem?_set] at he
  by_cases h : k = i
  · subst h
    by_cases h2 : k < n
    · simp [h2] at he
      subst he
      rw [hr, pm_one ha]
    · simp [h2] at he
  · simp only [h, if_false, List.getElem?_replicate] at he
    by_cases h2 : i < n
    · simp [h2] at he
    · simp [h2] at he

/-! ### Inverse -/

theorem inverse_spec (a : Nat) (ha : a < P) :
    ∃ r, runNamed "Inverse" [a] [] = some (r, none) ∧ rget r 0 = finv a := by
  obtain ⟨callF, hrun⟩ := runNamed_eq "Inverse" 6 Inverse [a] [] (by decide) rfl
  have hops : opsOnly Inverse_p0.items = true := by decide +kernel
  refine ⟨runOps Inverse_p0.items ([a] ++ List.replicate 11 0), ?_, ?_⟩
  · rw [hrun]
    show List.findSome? _ [Inverse_p0] = _
    simp only [List.findSome?_cons]
    rw [show Inverse.nreg - [a].length = 11 from rfl, exec_opsOnly _ _ hops]
    rfl
  · have hI := runOps_sound a Inverse_p0.items ((List.replicate 12 none).set 0 (some 1))
      ([a] ++ List.replicate 11 0) hops (by simp) (inv_single a ha 0 12 _ rfl)
    exact hI 0 (P - 2) (by decide +kernel)

/-! ### SquareRootVal -/

/-- the common part of both SquareRootVal paths: the chain, `sq 14 0`, `norm 14`, `norm 1` -/
def sqrtChain : List PItem := SquareRootVal_p0.items.take 283

theorem sqrt_p0_items : SquareRootVal_p0.items = sqrtChain ++ [.assume (.equals 14 1) true] := by
  decide +kernel
theorem sqrt_p1_items : SquareRootVal_p1.items = sqrtChain ++ [.assume (.equals 14 1) false] := by
  decide +kernel

theorem sqrt_spec (f val : Nat) (hv : val < P) :
    ∃ r, runNamed "SquareRootVal" [f, val] [] = some (r, some (fsq (fsqrtCand val) == val))
      ∧ rget r 0 = fsqrtCand val := by
  obtain ⟨callF, hrun⟩ := runNamed_eq "SquareRootVal" 7 SquareRootVal [f, val] [] (by decide) rfl
  have hops : opsOnly sqrtChain = true := by decide +kernel
  have hI := runOps_sound val sqrtChain ((List.replicate 15 none).set 1 (some 1))
      ([f, val] ++ List.replicate 13 0) hops (by simp) (inv_single val hv 1 15 _ rfl)
  have h0 : rget (runOps sqrtChain ([f, val] ++ List.replicate 13 0)) 0 = fsqrtCand val :=
    hI 0 ((P + 1) / 4) (by decide +kernel)
  have h1 : rget (runOps sqrtChain ([f, val] ++ List.replicate 13 0)) 1 = val := by
    rw [hI 1 1 (by decide +kernel), pm_one hv]
  have h14 : rget (runOps sqrtChain ([f, val] ++ List.replicate 13 0)) 14 = fsq (fsqrtCand val) := by
    rw [hI 14 (2 * ((P + 1) / 4)) (by decide +kernel), ← pm_two]; rfl
  refine ⟨runOps sqrtChain ([f, val] ++ List.replicate 13 0), ?_, h0⟩
  rw [hrun]
  show List.findSome? _ [SquareRootVal_p0, SquareRootVal_p1] = _
  simp only [List.findSome?_cons, List.findSome?_nil]
  rw [show SquareRootVal.nreg - [f, val].length = 13 from rfl, sqrt_p0_items, sqrt_p1_items,
    exec_append, exec_append, exec_opsOnly _ _ hops]
  simp only [Option.bind_some, execPathWith, condF, h14, h1]
  cases fsq (fsqrtCand val) == val <;> rfl

/-! ### DecompressY -/

def dPre : List PItem := [.op (.zero 2), .op (.sq 2 0), .op (.mul2 2 2 0), .op (.addInt 2 7)]
/-- the inlined square-root chain (on register 2, result in register 1), `sq 15 1`, `norm 15`, `norm 2` -/
def dChain : List PItem := (DecompressY_p0.items.drop 4).take 283

theorem dec_p0_items : DecompressY_p0.items = dPre ++ (dChain ++
    [.assume (.equals 15 2) true, .op (.norm 1), .assume (.isOdd 1) true, .assume (.boolIn 0) true]) := by
  decide +kernel
theorem dec_p1_items : DecompressY_p1.items = dPre ++ (dChain ++
    [.assume (.equals 15 2) true, .op (.norm 1), .assume (.isOdd 1) true, .assume (.boolIn 0) false,
     .op (.neg 1 1 1)]) := by
  decide +kernel
theorem dec_p2_items : DecompressY_p2.items = dPre ++ (dChain ++
    [.assume (.equals 15 2) true, .op (.norm 1), .assume (.isOdd 1) false, .assume (.boolIn 0) true,
     .op (.neg 1 1 1)]) := by
  decide +kernel
theorem dec_p3_items : DecompressY_p3.items = dPre ++ (dChain ++
    [.assume (.equals 15 2) true, .op (.norm 1), .assume (.isOdd 1) false, .assume (.boolIn 0) false]) := by
  decide +kernel
theorem dec_p4_items : DecompressY_p4.items = dPre ++ (dChain ++
    [.assume (.equals 15 2) false]) := by
  decide +kernel

/-- the DecompressY program agrees with the value-level model (no bound on `x` is needed) -/
theorem decompress_spec_all (x : Nat) (odd : Bool) : decompressYJ x odd = decompressY x odd := by
  obtain ⟨callF, hrun⟩ := runNamed_eq "DecompressY" 3 DecompressY [x, 0] [odd] (by decide) rfl
  have hopsP : opsOnly dPre = true := by decide
  have hops : opsOnly dChain = true := by decide +kernel
  -- the prefix computes x³+7
  generalize hr1 : runOps dPre ([x, 0] ++ List.replicate 14 0) = r1
  have hlen1 : r1.length = 16 := by rw [← hr1, length_runOps]; rfl
  have hA : rget r1 2 = fadd (fmul (fsq x) x) 7 := by
    rw [← hr1]
    simp [dPre, runOps, stepF, rget_rset, length_rset]
    rfl
  have hAlt : fadd (fmul (fsq x) x) 7 < P := fadd_lt _ _
  unfold decompressY
  simp only []
  generalize fadd (fmul (fsq x) x) 7 = A at *
  -- the chain
  have hI := runOps_sound A dChain ((List.replicate 16 none).set 2 (some 1)) r1 hops
    (by simp [hlen1]) (inv_single A hAlt 2 16 _ hA)
  generalize hr2 : runOps dChain r1 = r2 at hI
  have hlen2 : r2.length = 16 := by rw [← hr2, length_runOps, hlen1]
  have h1 : rget r2 1 = fsqrtCand A := hI 1 ((P + 1) / 4) (by decide +kernel)
  have h2 : rget r2 2 = A := by rw [hI 2 1 (by decide +kernel), pm_one hAlt]
  have h15 : rget r2 15 = fsq (fsqrtCand A) := by
    rw [hI 15 (2 * ((P + 1) / 4)) (by decide +kernel), ← pm_two]; rfl
  have hc : fsqrtCand A % P = fsqrtCand A := Nat.mod_eq_of_lt (fsqrtCand_lt A)
  have hn : fneg (fsqrtCand A) % P = fneg (fsqrtCand A) := Nat.mod_eq_of_lt (fneg_lt _)
  unfold decompressYJ
  rw [hrun]
  rw [show DecompressY.paths = [DecompressY_p0, DecompressY_p1, DecompressY_p2, DecompressY_p3,
    DecompressY_p4] from rfl]
  simp only [List.findSome?_cons, List.findSome?_nil]
  rw [show DecompressY.nreg - [x, 0].length = 14 from rfl, dec_p0_items, dec_p1_items,
    dec_p2_items, dec_p3_items, dec_p4_items]
  simp only [exec_append, exec_opsOnly _ _ hopsP, hr1, Option.bind_some, exec_opsOnly _ _ hops, hr2]
  simp only [execPathWith, condF, stepF, rget_rset, hlen2, h1, h2, h15, hc, ite_self,
    show DecompressY_p0.ret = some true from rfl, show DecompressY_p1.ret = some true from rfl,
    show DecompressY_p2.ret = some true from rfl, show DecompressY_p3.ret = some true from rfl,
    show DecompressY_p4.ret = some false from rfl]
  cases fsq (fsqrtCand A) == A <;> cases fsqrtCand A % 2 == 1 <;> cases odd <;>
    simp [rget_rset, length_rset, hlen2, hc, hn]

/-- the DecompressY program agrees with the value-level model -/
theorem decompress_spec (x : Nat) (odd : Bool) (_hx : x < P) : decompressYJ x odd = decompressY x odd :=
  decompress_spec_all x odd

/-! ### ToAffine -/

/-- the inlined inversion chain of ToAffine (on a copy of Z in register 3) -/
def tChain : List PItem := ToAffine_p0.items.take 306

theorem toAffine_items : ToAffine_p0.items = tChain ++
    [.op (.sq 4 3), .op (.mul2 0 0 4), .op (.mul2 4 4 3), .op (.mul2 1 1 4), .op (.setInt 2 1),
     .op (.norm 0), .op (.norm 1)] := by
  decide +kernel

/-- ToAffine, in the operation order of the generated program
    (zInv = Z⁻¹, tempZ = zInv², X·tempZ, Y·(tempZ·zInv), Z = 1, Normalize); only `Z < P` is needed -/
theorem toAffine_run_of_Z (X Y Z : Nat) (hZ : Z < P) :
    toAffineJ (X, Y, Z) = (fmul X (fsq (finv Z)), fmul Y (fmul (fsq (finv Z)) (finv Z)), 1) := by
  obtain ⟨callF, hrun⟩ := runNamed_eq "ToAffine" 8 ToAffine [X, Y, Z] [] (by decide) rfl
  have hops : opsOnly tChain = true := by decide +kernel
  have hI := runOps_sound Z tChain ((List.replicate 16 none).set 2 (some 1))
      ([X, Y, Z] ++ List.replicate 13 0) hops (by simp) (inv_single Z hZ 2 16 _ rfl)
  generalize hr1 : runOps tChain ([X, Y, Z] ++ List.replicate 13 0) = r1 at hI
  have h0 : rget r1 0 = X := by
    rw [← hr1, runOps_frame 0 tChain _ (by decide +kernel)]; rfl
  have h1 : rget r1 1 = Y := by
    rw [← hr1, runOps_frame 1 tChain _ (by decide +kernel)]; rfl
  have h3 : rget r1 3 = finv Z := hI 3 (P - 2) (by decide +kernel)
  have hlen : r1.length = 16 := by rw [← hr1, length_runOps]; rfl
  have hone : 1 % P = 1 := Nat.mod_eq_of_lt (by decide +kernel)
  unfold toAffineJ
  simp only []
  rw [hrun, show ToAffine.paths = [ToAffine_p0] from rfl]
  simp only [List.findSome?_cons, List.findSome?_nil]
  rw [show ToAffine.nreg - [X, Y, Z].length = 13 from rfl, toAffine_items]
  simp only [exec_append, exec_opsOnly _ _ hops, hr1, Option.bind_some]
  simp [execPathWith, stepF, rget_rset, length_rset, hlen, h0, h1, h3, hone,
    Nat.mod_eq_of_lt (fmul_lt _ _)]

theorem toAffine_run (X Y Z : Nat) (_hX : X < P) (_hY : Y < P) (hZ : Z < P) :
    toAffineJ (X, Y, Z) = (fmul X (fsq (finv Z)), fmul Y (fmul (fsq (finv Z)) (finv Z)), 1) :=
  toAffine_run_of_Z X Y Z hZ

end Secp.Proofs.Chains
