import Secp.Proofs.DriversVerify
import Secp.Proofs.Ecdsa
import Secp.Props.C03
import Secp.Proofs.Slices
/-
  Props/C02 — ECDSA verification accepts exactly the valid signatures.
  Model: `Secp.Model.verifyM` (hand-written mirror of Signature.Verify whose point operations are
  the regenerated formula programs).  Specification: `Secp.Spec.ecdsaVerify` (textbook).
  The theorems are conditional on `PointSpec` (what C03/C04 establish).
-/
namespace Secp.Props.C02
open Secp.Spec Secp.Model

/-- the Jacobian comparison at the end of Verify: for a finite point (X : Y : Z) with affine
    x = X/Z², and r < N, "r·Z² = X or (r < P−N and (r+N)·Z² = X)" holds exactly when x mod N = r
    — including the rare case x ≥ N. -/
theorem jacobian_compare (X Z r : Nat) (hX : X < P) (hZ : Z < P) (hZ0 : Z ≠ 0) (hr : r < N) :
    ((fmul r (fsq Z) == X) || (decide (r < P - N) && (fmul (r + N) (fsq Z) == X))) =
      (fmul X (fsq (finv Z)) % N == r) :=
  Secp.Proofs.Ecdsa.jacobian_compare X Z r hX hZ hZ0 hr

/-- the model returns exactly the textbook verdict: r, s ≠ 0, R = (e/s)·G + (r/s)·Q finite and
    x(R) mod N = r -/
theorem verify_iff (hp : PointSpec) (h : Bytes) (x y r s : Nat) (hQ : OnCurve x y) (hr : r < N) (hs : s < N) :
    verifyM h (x, y) r s = ecdsaVerify h (some (x, y)) r s :=
  Secp.Proofs.Ecdsa.verify_iff hp h x y r s hQ hr hs

/-- zero r or s is always rejected (no PointSpec needed) -/
theorem verify_zero (h : Bytes) (Q : Nat × Nat) (r s : Nat) (hz : r = 0 ∨ s = 0) : verifyM h Q r s = false := by
  unfold verifyM; simp [hz]

-- non-vacuity of jacobian_compare's hypotheses
example : (1 : Nat) < P ∧ (1 : Nat) ≠ 0 ∧ (5 : Nat) < N := by decide

/-! ### unconditional form: `PointSpec` is a theorem (`Secp.Props.C03.pointSpec`, built on C04/C05-level proofs) -/

theorem verify_iff_unconditional (h : Bytes) (x y r s : Nat) (hQ : OnCurve x y) (hr : r < N) (hs : s < N) :
    verifyM h (x, y) r s = ecdsaVerify h (some (x, y)) r s :=
  verify_iff Secp.Props.C03.pointSpec h x y r s hQ hr hs


/-- Limb level of this property's own functions: the REGENERATED sliced field programs (tools/gotr pass T2s,
    `Secp.Gen.Slices`) of steps 5-10 of `Verify` (infinity test, z², r·z² and (r+n)·z² compared with X.x, the r+n<p guard) pass the abstract interpreter on every path — no magnitude overflow, every
    comparison / parity test / serialisation reads a normalised value, every callee's precondition holds,
    every returned key or point is normalised.  Together with C05 (kernels) and C16 (`absPath_sound`,
    `contracts_justified`) this is what makes the value-level model above faithful to the limb code. -/
theorem verify_field_arithmetic_exact :
    Secp.Proofs.Slices.entriesOK ["github.com/ModChain/secp256k1.Signature.Verify", "github.com/ModChain/secp256k1.modNScalarToField", "github.com/ModChain/secp256k1.PublicKey.AsJacobian"] = true := by decide +kernel

/-! ### Regenerated drivers (tools/gotr pass T8)

`Secp.Gen.Drivers` is REGENERATED from /repo on every check run: the Go functions below translated
statement by statement into Lean terms over the value-level primitives.  The theorems say the
regenerated definitions EQUAL the hand-written models the theorems above are about. -/

/-- `Signature.Verify` (signature.go) regenerated — zero checks, e, w = s⁻¹, u1·G + u2·Q, the Jacobian comparison
    r·Z² = X and the second comparison (r+N)·Z² = X guarded by r < P−N — = `verifyM`, for every r < N, s, hash and key -/
theorem verify_regenerated (r s v : Nat) (h : Bytes) (Q : Nat × Nat) (hr : r < N) :
    Secp.Gen.Drivers.verify (r, s, v) h Q = verifyM h Q r s :=
  Secp.Proofs.DriversVerify.verify_regenerated r s v h Q hr

end Secp.Props.C02
