#!/usr/bin/env python3
"""t8_mutants.py — semantic mutants INSIDE the subset of pass T8 (each a one-line edit of a regenerated function that still
compiles): for each, re-run the translator on a scratch clone and rebuild the Lean module that proves the function equal to
its model; the theorem must break.  Works in /tmp/mutT8 (a scratch copy of /verif); not a registered command.
Last full run: 20 of 20 break the corresponding *_regenerated theorem (see DESIGN.md section 10); the two added later
(FromPublicKey, ToPublicSecp256k1) were run by hand in a staging copy: both break theirs. The proof files were split after the
full run, so some module names below name the file a theorem used to live in."""
import subprocess, os, shutil, json, re
GOENV=dict(os.environ, GOFLAGS="-mod=mod", GOPROXY="off", GOSUMDB="off", GOTOOLCHAIN="local")
V="/tmp/mutT8/verif"
muts=[
 ("sign-code-xor2","signature.go","pubKeyRecoveryCode ^= 0x01","pubKeyRecoveryCode ^= 0x02","Secp.Proofs.DriversSign"),
 ("sign-add-r","signature.go",".Mul2(privKey, &r).Add(&e).Mul(kinv)",".Mul2(privKey, &r).Add(&r).Mul(kinv)","Secp.Proofs.DriversSign"),
 ("sign-loop-step2","signature.go","for iteration := uint32(0); ; iteration++ {\n\t\t// Step 1 with modification A.","for iteration := uint32(0); ; iteration += 2 {\n\t\t// Step 1 with modification A.","Secp.Proofs.DriversSign"),
 ("verify-u2-s","signature.go","u2 := new(ModNScalar).Mul2(&sig.r, w)\n\n\t// Step 6.","u2 := new(ModNScalar).Mul2(&sig.s, w)\n\n\t// Step 6.","Secp.Proofs.DriversVerify"),
 ("verify-drop-pmn-guard","signature.go","\tif sigRModP.IsGtOrEqPrimeMinusOrder() {\n\t\treturn false\n\t}\n","","Secp.Proofs.DriversVerify"),
 ("recover-no-negate","signature.go","u1 := new(ModNScalar).Mul2(&e, w).Negate()","u1 := new(ModNScalar).Mul2(&e, w)","Secp.Proofs.DriversVerify"),
 ("nonce-loop-singleOne","nonce.go","\t\thasher.Write(v)\n\t\thasher.Write(singleZero[:])\n\t\tk = hasher.Sum()\n\t\thasher.ResetKey(k)\n\t\thasher.Write(v)\n\t\tv = hasher.Sum()\n\t}","\t\thasher.Write(v)\n\t\thasher.Write(singleOne[:])\n\t\tk = hasher.Sum()\n\t\thasher.ResetKey(k)\n\t\thasher.Write(v)\n\t\tv = hasher.Sum()\n\t}","Secp.Proofs.DriversNonce"),
 ("keygen-ignores-zero","privkey.go","valid = (key.Key.IsZeroBit() | overflow) == 0","valid = overflow == 0","Secp.Proofs.DriversMisc"),
 ("naf-start","curve.go","result.start = 1 - carry","result.start = carry","Secp.Proofs.DriversNaf"),
 ("smul-no-swap","curve.go","\t\tk1.Negate()\n\t\tp1, p1Neg = p1Neg, p1\n","\t\tk1.Negate()\n","Secp.Proofs.DriversSmul"),
 ("child-depth","ecckd/extended.go","Depth:       k.Depth + 1,","Depth:       k.Depth,","Secp.Proofs.DriversChild"),
 ("unmarshal-childnum-offset","ecckd/extended.go","binary.BigEndian.Uint32(payload[9:13])","binary.BigEndian.Uint32(payload[8:12])","Secp.Proofs.DriversBip32"),
 ("hmac-ipad-5c","nonce.go","h.ipad[i] ^= 0x36","h.ipad[i] ^= 0x5c","Secp.Proofs.DriversHmac"),
 ("exportcompact-no-offset","signature.go","\t\tb[0] = v + recoveryCodeOffset","\t\tb[0] = v","Secp.Proofs.DriversMisc"),
 ("moduloreduce-ge","ellipticadaptor.go","if len(k) > curveParams.ByteSize {","if len(k) >= curveParams.ByteSize {","Secp.Proofs.DriversAdaptor"),
 ("schnorrsign-negate-when-even","schnorr/signature.go","\tif R.Y.IsOdd() {\n\t\tk.Negate()\n\t}","\tif !R.Y.IsOdd() {\n\t\tk.Negate()\n\t}","Secp.Proofs.DriversSchnorr"),
 ("derive-il-no-mod","ecckd/extended.go","\t\t\til = il.Mod(il, mod)\n","","Secp.Proofs.DriversDerive"),
 ("bruteforce-3-codes","signature.go","for i := byte(0); i < 4; i++ {","for i := byte(0); i < 3; i++ {","Secp.Proofs.DriversBrute"),
 ("setbyteslice-pad-right","modnscalar.go","\tcopy(b32[32-len(b):], b)\n\tresult := s.SetBytes(&b32)","\tcopy(b32[:], b)\n\tresult := s.SetBytes(&b32)","Secp.Proofs.DriversWrap"),
 ("frompublickey-cc-lt","ecckd/extended.go","if len(chainCode) != 32 {","if len(chainCode) < 32 {","Secp.Proofs.FrontFromPub"),
 ("topublicsecp-keydata","ecckd/extended.go","return secp256k1.ParsePubKey(k.pubKeyBytes())","return secp256k1.ParsePubKey(k.KeyData)","Secp.Proofs.FrontFromPub"),
 ("signer-compact-offset27","sign.go","return sig.ExportCompact(true, 0), nil","return sig.ExportCompact(true, 27), nil","Secp.Proofs.DriversFront"),
]
res=[]
subprocess.run(["go","build","-o","/tmp/mutT8/gotr","."],cwd=V+"/tools/gotr",env=GOENV,check=True)
clean=open(V+"/lean/Secp/Gen/Drivers.lean").read()
for name,f,a,b,mod in muts:
    shutil.rmtree("/tmp/mutT8/repo",ignore_errors=True)
    subprocess.run(["git","clone","-q","/repo","/tmp/mutT8/repo"],check=True)
    p="/tmp/mutT8/repo/"+f
    s=open(p).read()
    if s.count(a)!=1:
        res.append((name,"PATTERN-COUNT-%d"%s.count(a))); print(res[-1],flush=True); continue
    open(p,"w").write(s.replace(a,b,1))
    r=subprocess.run(["go","build","./..."],cwd="/tmp/mutT8/repo",env=GOENV,capture_output=True,text=True)
    if r.returncode!=0:
        res.append((name,"GO-BUILD-FAILS")); print(res[-1], r.stderr[-200:],flush=True); continue
    shutil.rmtree("/tmp/mutT8/gen",ignore_errors=True); os.makedirs("/tmp/mutT8/gen")
    r=subprocess.run(["/tmp/mutT8/gotr","-repo","/tmp/mutT8/repo","-out","/tmp/mutT8/gen"],capture_output=True,text=True,env=GOENV)
    if r.returncode!=0:
        res.append((name,"translator rejected (global): "+r.stderr[-150:])); print(res[-1],flush=True); continue
    fails=open("/tmp/mutT8/gen/T8Failures.txt").read().strip()
    g=open("/tmp/mutT8/gen/Drivers.lean").read()
    if g==clean:
        res.append((name,"GENERATED TEXT UNCHANGED (mutation not seen by T8!)")); print(res[-1],flush=True); continue
    open(V+"/lean/Secp/Gen/Drivers.lean","w").write(g)
    r=subprocess.run(["timeout","1500","lake","build",mod],cwd=V+"/lean",capture_output=True,text=True)
    out=r.stdout+r.stderr
    verdict="theorem broken (lake build fails)" if r.returncode!=0 else "PROOF STILL PASSES"
    if fails: verdict+=" [stubbed: "+fails[:80]+"]"
    res.append((name,verdict)); print(res[-1],flush=True)
open(V+"/lean/Secp/Gen/Drivers.lean","w").write(clean)
json.dump(res,open("/tmp/mutT8/results.json","w"),indent=1)
