import Secp.Model.PrivKey
/-
  Proofs/PrivKey — lemmas behind Props/C19 (key generation / parsing in range).
-/
namespace Secp.Proofs.PrivKey
open Secp.Spec Secp.Model

/-- core `Except` has no `DecidableEq`; the closed examples in Props/C19 are checked by `decide` -/
instance instDecidableEqExcept {ε α : Type} [DecidableEq ε] [DecidableEq α] :
    DecidableEq (Except ε α)
  | .ok a, .ok b => if h : a = b then isTrue (by rw [h]) else isFalse (by intro h'; cases h'; exact h rfl)
  | .error a, .error b => if h : a = b then isTrue (by rw [h]) else isFalse (by intro h'; cases h'; exact h rfl)
  | .ok _, .error _ => isFalse (by intro h; cases h)
  | .error _, .ok _ => isFalse (by intro h; cases h)

/-! ### big-endian bounds -/

theorem foldl_lt (b : Bytes) (acc m : Nat) (h : acc < m) :
    b.foldl (fun acc x => acc * 256 + x.toNat) acc < m * 256 ^ b.length := by
  induction b generalizing acc m with
  | nil => simpa using h
  | cons x xs ih =>
    simp only [List.foldl_cons, List.length_cons]
    have hx : x.toNat < 256 := x.toNat_lt
    have h1 : acc * 256 + x.toNat < m * 256 := by omega
    have := ih (acc * 256 + x.toNat) (m * 256) h1
    rw [Nat.pow_succ, Nat.mul_comm (256 ^ xs.length) 256, ← Nat.mul_assoc]
    exact this

theorem beNat_lt (b : Bytes) : beNat b < 256 ^ b.length := by
  have := foldl_lt b 0 1 (by omega)
  simpa [beNat] using this

theorem beNat_take32_lt (b : Bytes) : beNat (b.take 32) < 2 * N := by
  have h := beNat_lt (b.take 32)
  have hl : (b.take 32).length ≤ 32 := by simp [List.length_take]; omega
  have h2 : 256 ^ (b.take 32).length ≤ 256 ^ 32 := Nat.pow_le_pow_right (by omega) hl
  have h3 : 256 ^ 32 < 2 * N := by decide
  omega

/-! ### one step of the loop -/

theorem go_succ (fuel : Nat) (r : Reader) (used : Nat) :
    generatePrivateKey.go (fuel + 1) r used =
      if 32 ≤ r.data.length then
        if 0 < beNat (r.data.take 32) ∧ beNat (r.data.take 32) < N then
          (.ok (beNat (r.data.take 32)), used + 32)
        else generatePrivateKey.go fuel ⟨r.data.drop 32, r.term⟩ (used + 32)
      else
        (.error (if r.data.length = 0 then r.term
                 else if r.term = .eof then .unexpectedEOF else r.term),
         used + r.data.length) := by
  rw [generatePrivateKey.go]
  unfold readFull32
  by_cases h : 32 ≤ r.data.length
  · simp only [ge_iff_le, h, if_true, scalarSetBytes32]
    by_cases hN : N ≤ beNat (r.data.take 32)
    · have : ¬ (beNat (r.data.take 32) < N) := by omega
      simp [hN, this]
    · have h2 : beNat (r.data.take 32) < N := by omega
      simp [hN, h2, Nat.pos_iff_ne_zero]
  · simp only [ge_iff_le, h, if_false]
    by_cases h0 : r.data.length = 0
    · simp [h0]
    · simp [h0]

/-! ### the loop invariant -/

theorem block_shift (data : Bytes) (i : Nat) :
    ((data.drop 32).drop (32 * i)).take 32 = (data.drop (32 * (i + 1))).take 32 := by
  rw [List.drop_drop]
  have : 32 + 32 * i = 32 * (i + 1) := by omega
  rw [this]

theorem go_ok (fuel : Nat) : ∀ (data : Bytes) (term : IoErr) (used k u : Nat),
    data.length / 32 < fuel →
    (generatePrivateKey.go fuel ⟨data, term⟩ used = (.ok k, u) ↔
      ∃ j, 32 * (j + 1) ≤ data.length ∧
        (0 < beNat ((data.drop (32 * j)).take 32) ∧ beNat ((data.drop (32 * j)).take 32) < N) ∧
        (∀ i < j, ¬ (0 < beNat ((data.drop (32 * i)).take 32) ∧
                      beNat ((data.drop (32 * i)).take 32) < N)) ∧
        k = beNat ((data.drop (32 * j)).take 32) ∧ u = used + 32 * (j + 1)) := by
  induction fuel with
  | zero => intro data term used k u h; omega
  | succ fuel ih =>
    intro data term used k u hf
    rw [go_succ]
    simp only
    by_cases hlen : 32 ≤ data.length
    · rw [if_pos hlen]
      by_cases hv : 0 < beNat (data.take 32) ∧ beNat (data.take 32) < N
      · rw [if_pos hv]
        constructor
        · intro h
          simp only [Prod.mk.injEq, Except.ok.injEq] at h
          refine ⟨0, by omega, by simpa using hv, by intro i hi; omega, ?_, ?_⟩
          · simpa using h.1.symm
          · omega
        · rintro ⟨j, _, _, hall, hk, hu⟩
          have hj : j = 0 := by
            rcases Nat.eq_zero_or_pos j with h0 | hpos
            · exact h0
            · exact absurd (by simpa using hv) (hall 0 hpos)
          subst hj
          simp only [Nat.mul_zero, List.drop_zero] at hk
          simp only [Prod.mk.injEq, Except.ok.injEq]
          exact ⟨hk.symm, by omega⟩
      · rw [if_neg hv]
        have hf' : (data.drop 32).length / 32 < fuel := by
          rw [List.length_drop]; omega
        rw [ih (data.drop 32) term (used + 32) k u hf']
        constructor
        · rintro ⟨j, hj, hval, hall, hk, hu⟩
          rw [List.length_drop] at hj
          refine ⟨j + 1, by omega, ?_, ?_, ?_, by omega⟩
          · rw [← block_shift]; exact hval
          · intro i hi
            cases i with
            | zero => simpa using hv
            | succ i => rw [← block_shift]; exact hall i (by omega)
          · rw [← block_shift]; exact hk
        · rintro ⟨j, hj, hval, hall, hk, hu⟩
          cases j with
          | zero => exact absurd (by simpa using hval) hv
          | succ j =>
            refine ⟨j, by rw [List.length_drop]; omega, ?_, ?_, ?_, by omega⟩
            · rw [block_shift]; exact hval
            · intro i hi; rw [block_shift]; exact hall (i + 1) (by omega)
            · rw [block_shift]; exact hk
    · rw [if_neg hlen]
      constructor
      · intro h; simp at h
      · rintro ⟨j, hj, _⟩; omega

theorem go_err (fuel : Nat) : ∀ (data : Bytes) (term : IoErr) (used : Nat),
    data.length / 32 < fuel →
    (∀ j, 32 * (j + 1) ≤ data.length →
      ¬ (0 < beNat ((data.drop (32 * j)).take 32) ∧ beNat ((data.drop (32 * j)).take 32) < N)) →
    generatePrivateKey.go fuel ⟨data, term⟩ used =
      (.error (if data.length % 32 = 0 then term
               else if term = .eof then .unexpectedEOF else term), used + data.length) := by
  induction fuel with
  | zero => intro data term used h; omega
  | succ fuel ih =>
    intro data term used hf hnone
    rw [go_succ]
    simp only
    by_cases hlen : 32 ≤ data.length
    · rw [if_pos hlen]
      have hv : ¬ (0 < beNat (data.take 32) ∧ beNat (data.take 32) < N) := by
        simpa using hnone 0 (by omega)
      rw [if_neg hv]
      have hl : (data.drop 32).length = data.length - 32 := List.length_drop
      have hf' : (data.drop 32).length / 32 < fuel := by rw [hl]; omega
      rw [ih (data.drop 32) term (used + 32) hf' ?_]
      · rw [hl]
        have h1 : (data.length - 32) % 32 = data.length % 32 := by omega
        have h2 : used + 32 + (data.length - 32) = used + data.length := by omega
        rw [h1, h2]
      · intro j hj
        rw [block_shift]
        exact hnone (j + 1) (by rw [hl] at hj; omega)
    · rw [if_neg hlen]
      by_cases h0 : data.length = 0
      · simp [h0]
      · have : data.length % 32 ≠ 0 := by omega
        simp [h0, this]

/-! ### the lemmas used by Props/C19 -/

theorem keygen_first_valid (r : Reader) (k used : Nat) :
    generatePrivateKey r = (.ok k, used) ↔
      ∃ j, 32 * (j + 1) ≤ r.data.length ∧
        (0 < beNat ((r.data.drop (32 * j)).take 32) ∧
          beNat ((r.data.drop (32 * j)).take 32) < N) ∧
        (∀ i < j, ¬ (0 < beNat ((r.data.drop (32 * i)).take 32) ∧
                      beNat ((r.data.drop (32 * i)).take 32) < N)) ∧
        k = beNat ((r.data.drop (32 * j)).take 32) ∧ used = 32 * (j + 1) := by
  unfold generatePrivateKey
  have h := go_ok (r.data.length / 32 + 1) r.data r.term 0 k used (by omega)
  simpa using h

theorem keygen_in_range (r : Reader) (k used : Nat)
    (h : generatePrivateKey r = (.ok k, used)) : 0 < k ∧ k < N := by
  obtain ⟨j, _, hv, _, hk, _⟩ := (keygen_first_valid r k used).1 h
  rw [hk]; exact hv

theorem keygen_error (r : Reader)
    (hnone : ∀ j, 32 * (j + 1) ≤ r.data.length →
      ¬ (0 < beNat ((r.data.drop (32 * j)).take 32) ∧
          beNat ((r.data.drop (32 * j)).take 32) < N)) :
    generatePrivateKey r =
      (.error (if r.data.length % 32 = 0 then r.term
               else if r.term = .eof then .unexpectedEOF else r.term), r.data.length) := by
  unfold generatePrivateKey
  have h := go_err (r.data.length / 32 + 1) r.data r.term 0 (by omega) hnone
  simpa using h

theorem fromBytes_mod (b : Bytes) : privKeyFromBytes b = beNat (b.take 32) % N := by
  unfold privKeyFromBytes
  have h := beNat_take32_lt b
  have hN : 0 < N := by decide
  simp only
  by_cases hge : beNat (b.take 32) ≥ N
  · rw [if_pos hge]
    rw [Nat.mod_eq_sub_mod hge, Nat.mod_eq_of_lt (by omega)]
  · rw [if_neg hge, Nat.mod_eq_of_lt (by omega)]

theorem fromBytes_serialize (b : Bytes) :
    privKeySerialize (privKeyFromBytes b) = be32 (beNat (b.take 32) % N) := by
  rw [fromBytes_mod]; rfl

theorem fromBytes_lt (b : Bytes) : privKeyFromBytes b < N := by
  rw [fromBytes_mod]; exact Nat.mod_lt _ (by decide)

end Secp.Proofs.PrivKey
