import Secp.Model.Bip32
import Secp.Proofs.Der
import Secp.Proofs.PubKey
import Secp.Proofs.Nonce
/-
  Proofs/Bip32Bytes — byte-level lemmas behind Props/C12 and C13 (seed layout, 32-byte
  left padding of `big.Int.Bytes()`, the 82-byte extended-key layout).
-/
namespace Secp.Proofs.Bip32
open Secp.Spec Secp.Model Secp.Proofs

/-! ### numeric facts -/

theorem N_lt_256_32 : N < 256 ^ 32 := Der.N_lt
theorem pow_32_lt_40 : (256 : Nat) ^ 32 < 256 ^ 40 := by decide +kernel
theorem pow_256_eq : (2 : Nat) ^ 256 = 256 ^ 32 := by decide +kernel

/-! ### zeros -/

theorem beNat_replicate_zero (n : Nat) : beNat (List.replicate n (0 : UInt8)) = 0 := by
  induction n with
  | zero => rfl
  | succ n ih => rw [List.replicate_succ, Der.beNat_zero_cons, ih]

theorem beNat_zeros_append (n : Nat) (l : Bytes) : beNat (List.replicate n (0 : UInt8) ++ l) = beNat l := by
  rw [Der.beNat_append, beNat_replicate_zero, Nat.zero_mul, Nat.zero_add]

/-! ### `minBytes` -/

theorem beNat_minBytes {v : Nat} (hv : v < 256 ^ 40) : beNat (minBytes v) = v := by
  unfold minBytes
  rw [Der.beNat_stripZeros, Der.beNat_beBytes, Nat.mod_eq_of_lt hv]

theorem stripZeros_length_of_lt (b : Bytes) (n : Nat) (h : beNat b < 256 ^ n) : (stripZeros b).length ≤ n := by
  rcases Der.stripZeros_head b with h' | ⟨x, xs, h', hx⟩
  · rw [h']; exact Nat.zero_le _
  · have h1 := Der.beNat_ge_of_head_ne x xs hx
    rw [← h', Der.beNat_stripZeros] at h1
    rw [h']
    simp only [List.length_cons]
    have h2 : (256 : Nat) ^ xs.length < 256 ^ n := Nat.lt_of_le_of_lt h1 h
    have h3 : xs.length < n := (Nat.pow_lt_pow_iff_right (by omega)).1 h2
    omega

theorem minBytes_length_le {v : Nat} (hv : v < 256 ^ 32) : (minBytes v).length ≤ 32 := by
  unfold minBytes
  apply stripZeros_length_of_lt
  rw [Der.beNat_beBytes, Nat.mod_eq_of_lt (Nat.lt_trans hv pow_32_lt_40)]
  exact hv

/-- `big.Int.Bytes()` left-padded to 32 bytes is the fixed-width encoding -/
theorem leftpad_minBytes {v : Nat} (hv : v < 256 ^ 32) :
    (if (minBytes v).length < 32 then List.replicate (32 - (minBytes v).length) 0 ++ minBytes v else minBytes v)
      = be32 v := by
  have hl := minBytes_length_le hv
  have hb := beNat_minBytes (Nat.lt_trans hv pow_32_lt_40)
  split
  · rename_i h
    have h1 : (List.replicate (32 - (minBytes v).length) (0 : UInt8) ++ minBytes v).length = 32 := by
      rw [List.length_append, List.length_replicate]; omega
    have h2 := PubKey.be32_beNat h1
    rw [beNat_zeros_append, hb] at h2
    exact h2.symm
  · rename_i h
    have h1 : (minBytes v).length = 32 := by omega
    have h2 := PubKey.be32_beNat h1
    rw [hb] at h2
    exact h2.symm

theorem minBytes_take32 {v : Nat} (hv : v < 256 ^ 32) : beNat ((minBytes v).take 32) = v := by
  rw [List.take_of_length_le (minBytes_length_le hv), beNat_minBytes (Nat.lt_trans hv pow_32_lt_40)]

theorem beNat_be32_lt {v : Nat} (hv : v < 256 ^ 32) : beNat (be32 v) = v := by
  rw [Der.beNat_be32, pow_256_eq, Nat.mod_eq_of_lt hv]

/-! ### `copyAt` and the 37-byte HMAC input -/

theorem ser32_length (i : Nat) : (ser32 i).length = 4 := Der.beBytes_length 4 i

theorem seed_hardened (kd s : Bytes) (hk : kd.length = 32) (hs : s.length = 4) :
    copyAt (copyAt (List.replicate 37 (0 : UInt8)) 1 kd) 33 s = (0 : UInt8) :: kd ++ s := by
  have e1 : copyAt (List.replicate 37 (0 : UInt8)) 1 kd = (0 : UInt8) :: kd ++ List.replicate 4 0 := by
    unfold copyAt
    simp only [List.length_replicate, hk, List.take_replicate, List.drop_replicate]
    rw [List.take_of_length_le (by omega)]
    rfl
  rw [e1]
  unfold copyAt
  have hl : ((0 : UInt8) :: kd ++ List.replicate 4 0).length = 37 := by
    simp [hk]
  rw [hl, hs]
  have h33 : ((0 : UInt8) :: kd).length = 33 := by simp [hk]
  rw [List.take_append_of_le_length (by omega), List.take_of_length_le (by omega),
    List.take_of_length_le (by omega), List.drop_of_length_le (by omega), List.append_nil]

theorem seed_normal (pk s : Bytes) (hk : pk.length = 33) (hs : s.length = 4) :
    copyAt (copyAt (List.replicate 37 (0 : UInt8)) 0 pk) 33 s = pk ++ s := by
  have e1 : copyAt (List.replicate 37 (0 : UInt8)) 0 pk = pk ++ List.replicate 4 0 := by
    unfold copyAt
    simp only [List.length_replicate, hk, List.take_replicate, List.drop_replicate]
    rw [List.take_of_length_le (by omega)]
    rfl
  rw [e1]
  unfold copyAt
  have hl : (pk ++ List.replicate 4 (0 : UInt8)).length = 37 := by simp [hk]
  rw [hl, hs]
  rw [List.take_append_of_le_length (by omega), List.take_of_length_le (by omega),
    List.take_of_length_le (by omega), List.drop_of_length_le (by omega), List.append_nil]

theorem serCompressedXY_length (p : Nat × Nat) : (serCompressedXY p).length = 33 := by
  unfold serCompressedXY
  rw [List.length_cons, Der.beBytes_length]

theorem serCompressedXY_eq (x y : Nat) : serCompressedXY (x, y) = serializeCompressed x y := by
  unfold serCompressedXY serializeCompressed be32
  by_cases h : y % 2 = 0
  · have h' : ¬ y % 2 = 1 := by omega
    simp only [h, if_true]
    rfl
  · have h' : y % 2 = 1 := by omega
    simp only [h', if_true]
    rfl

end Secp.Proofs.Bip32
