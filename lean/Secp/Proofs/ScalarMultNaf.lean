/-
  Proofs/ScalarMultNaf — the byte loop of `naf` (curve.go) produces two digit strings with
  pos − neg = k, of equal length, with no overlapping bits.
-/
import Secp.Model.ScalarMult
import Secp.Proofs.Der

namespace Secp.Proofs.ScalarMultNaf
open Secp.Spec Secp.Model Secp.Proofs.Der

/-- one byte of `nafLoop`; `hw` is `nextWord <<< 7` -/
def nafStep (b carry hw : UInt8) : UInt8 × UInt8 × UInt8 :=
  let kc : UInt16 := b.toUInt16 + carry.toUInt16
  let halfK : UInt16 := (kc >>> 1) ||| hw.toUInt16
  let threeHalfK : UInt16 := kc + halfK
  let nz : UInt16 := threeHalfK ^^^ halfK
  ((threeHalfK &&& nz).toUInt8, (halfK &&& nz).toUInt8, (threeHalfK >>> 8).toUInt8)

def nextWord : List UInt8 → UInt8
  | [] => 0
  | n :: _ => n

theorem nafLoop_nil (carry : UInt8) (pos neg : List UInt8) :
    nafLoop [] carry pos neg = (pos, neg, carry) := rfl

theorem nafLoop_cons (b : UInt8) (rest : List UInt8) (carry : UInt8) (pos neg : List UInt8) :
    nafLoop (b :: rest) carry pos neg =
      nafLoop rest (nafStep b carry (nextWord rest <<< 7)).2.2
        ((nafStep b carry (nextWord rest <<< 7)).1 :: pos)
        ((nafStep b carry (nextWord rest <<< 7)).2.1 :: neg) := by
  cases rest <;> rfl

/-- the per-byte facts, as a closed finite statement -/
def StepOK (b c hw : UInt8) : Prop :=
  (nafStep b c hw).1.toNat + 256 * (nafStep b c hw).2.2.toNat
      = b.toNat + c.toNat + (nafStep b c hw).2.1.toNat ∧
  (nafStep b c hw).2.2.toNat ≤ 1 ∧
  (nafStep b c hw).1 &&& (nafStep b c hw).2.1 = 0

instance (b c hw : UInt8) : Decidable (StepOK b c hw) := by unfold StepOK; infer_instance

set_option maxRecDepth 100000 in
theorem stepOK_fin : ∀ b, b < 256 → ∀ c, c < 2 → ∀ h, h < 2 →
    StepOK (UInt8.ofNat b) (UInt8.ofNat c) (UInt8.ofNat (128 * h)) := by decide +kernel

set_option maxRecDepth 100000 in
theorem shl7_fin : ∀ w, w < 256 → ∃ h, h < 2 ∧ (UInt8.ofNat w) <<< 7 = UInt8.ofNat (128 * h) := by
  decide +kernel

theorem uint8_ofNat_toNat (x : UInt8) : UInt8.ofNat x.toNat = x := by simp

theorem stepOK (b c w : UInt8) (hc : c.toNat ≤ 1) : StepOK b c (w <<< 7) := by
  obtain ⟨h, hh, he⟩ := shl7_fin w.toNat w.toNat_lt
  rw [uint8_ofNat_toNat] at he
  have := stepOK_fin b.toNat b.toNat_lt c.toNat (by omega) h hh
  rwa [uint8_ofNat_toNat, uint8_ofNat_toNat, ← he] at this

/-- loop invariant -/
theorem nafLoop_spec (l : List UInt8) : ∀ (carry : UInt8) (pos neg : List UInt8), carry.toNat ≤ 1 →
    ∃ dp dn : List UInt8,
      (nafLoop l carry pos neg).1 = dp ++ pos ∧ (nafLoop l carry pos neg).2.1 = dn ++ neg ∧
      dp.length = l.length ∧ dn.length = l.length ∧
      (nafLoop l carry pos neg).2.2.toNat ≤ 1 ∧
      (nafLoop l carry pos neg).2.2.toNat * 256 ^ l.length + beNat dp
        = beNat l.reverse + carry.toNat + beNat dn ∧
      ∀ i, dp.getD i 0 &&& dn.getD i 0 = 0 := by
  induction l with
  | nil =>
    intro carry pos neg hc
    refine ⟨[], [], rfl, rfl, rfl, rfl, hc, ?_, ?_⟩
    · simp [nafLoop_nil, beNat_nil]
    · intro i; simp
  | cons b rest ih =>
    intro carry pos neg hc
    rw [nafLoop_cons]
    obtain ⟨h1, h2, h3⟩ := stepOK b carry (nextWord rest) hc
    generalize nafStep b carry (nextWord rest <<< 7) = s at h1 h2 h3
    obtain ⟨p, n, c1⟩ := s
    simp only at h1 h2 h3 ⊢
    obtain ⟨dp, dn, e1, e2, l1, l2, hc', hv, hno⟩ := ih c1 (p :: pos) (n :: neg) h2
    refine ⟨dp ++ [p], dn ++ [n], ?_, ?_, ?_, ?_, hc', ?_, ?_⟩
    · rw [e1]; simp
    · rw [e2]; simp
    · simp [l1]
    · simp [l2]
    · rw [List.reverse_cons, beNat_snoc, beNat_snoc, beNat_snoc, List.length_cons, Nat.pow_succ,
        ← Nat.mul_assoc]
      generalize (nafLoop rest c1 (p :: pos) (n :: neg)).2.2.toNat * 256 ^ rest.length = A at hv
      omega
    · intro i
      simp only [List.getD_eq_getElem?_getD] at hno ⊢
      by_cases hi : i < rest.length
      · rw [List.getElem?_append_left (by omega), List.getElem?_append_left (by omega)]
        exact hno i
      · by_cases hi2 : i = rest.length
        · subst hi2
          rw [List.getElem?_append_right (by omega), List.getElem?_append_right (by omega)]
          simp [l1, l2, h3]
        · rw [List.getElem?_eq_none (by simp; omega), List.getElem?_eq_none (by simp; omega)]
          rfl

/-- the shape of the result of `naf` -/
theorem naf_shape (k : Bytes) :
    ∃ (c : UInt8) (dp dn : List UInt8), c.toNat ≤ 1 ∧
      dp.length = (stripZeros k).length ∧ dn.length = (stripZeros k).length ∧
      (naf k).posBytes = (c :: dp).drop (1 - c.toNat) ∧
      (naf k).negBytes = ((0 : UInt8) :: dn).drop (1 - c.toNat) ∧
      c.toNat * 256 ^ (stripZeros k).length + beNat dp = beNat k + beNat dn ∧
      ∀ i, dp.getD i 0 &&& dn.getD i 0 = 0 := by
  obtain ⟨dp, dn, e1, e2, l1, l2, hc, hv, hno⟩ :=
    nafLoop_spec (stripZeros k).reverse 0 [] [] (by decide)
  rw [List.length_reverse] at l1 l2 hv
  rw [List.reverse_reverse, beNat_stripZeros] at hv
  rw [List.append_nil] at e1 e2
  refine ⟨(nafLoop (stripZeros k).reverse 0 [] []).2.2, dp, dn, hc, l1, l2, ?_, ?_, ?_, hno⟩
  · unfold naf NafScalar.posBytes
    simp only
    rw [e1]
    congr 1
    rw [List.take_append_of_le_length (by simp [l1])]
    rw [List.take_of_length_le (by simp [l1])]
  · unfold naf NafScalar.negBytes
    simp only
    rw [e2]
    congr 1
    rw [List.take_append_of_le_length (by simp [l2])]
    rw [List.take_of_length_le (by simp [l2])]
  · simpa using hv

theorem naf_spec (k : Bytes) : let n := naf k
    n.posBytes.length = n.negBytes.length ∧ beNat n.posBytes = beNat k + beNat n.negBytes ∧
    ∀ i, (n.posBytes.getD i 0) &&& (n.negBytes.getD i 0) = 0 := by
  intro n
  obtain ⟨c, dp, dn, hc, l1, l2, ep, en, hv, hno⟩ := naf_shape k
  show (naf k).posBytes.length = (naf k).negBytes.length ∧
    beNat (naf k).posBytes = beNat k + beNat (naf k).negBytes ∧
    ∀ i, ((naf k).posBytes.getD i 0) &&& ((naf k).negBytes.getD i 0) = 0
  rw [ep, en]
  have hc01 : c.toNat = 0 ∨ c.toNat = 1 := by omega
  rcases hc01 with h0 | h1
  · rw [h0] at hv ⊢
    simp only [Nat.sub_zero, List.drop_succ_cons, List.drop_zero]
    refine ⟨by rw [l1, l2], by omega, hno⟩
  · rw [h1] at hv ⊢
    simp only [Nat.sub_self, List.drop_zero]
    refine ⟨by simp [l1, l2], ?_, ?_⟩
    · rw [beNat_cons, beNat_zero_cons, h1, l1]; omega
    · intro i
      cases i with
      | zero => simp
      | succ j => simpa using hno j

end Secp.Proofs.ScalarMultNaf
