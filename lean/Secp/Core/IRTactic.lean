import Lean
import Secp.Core.IRSteps
/-
  Core/IRTactic — `ir_steps h`: destructure  h : Steps evalN body env k  for a
  concrete body into named values `v0, v1, …` (SSA position) with their
  defining equations `e0 : v0 = …`, `e1 : v1 = …`, stopping at the `Done` marker.
  The equations mention earlier values by name (no inlining).
-/
open Lean Elab Tactic

namespace Secp.IR

/-- simp set that evaluates one `evalN`/`evalW` step over a literal environment -/
macro "ir_eval_at " e:ident : tactic =>
  `(tactic| simp only [evalN, evalW, List.getD_cons_succ, List.getD_cons_zero] at $e:ident)

elab "ir_steps " h:ident : tactic => do
  let mut j := 0
  let mut go := true
  while go do
    let v := mkIdent (Name.mkSimple s!"v{j}")
    let e := mkIdent (Name.mkSimple s!"e{j}")
    try
      evalTactic (← `(tactic| (obtain ⟨$v, $e, $h⟩ := $h; ir_eval_at $e)))
      j := j + 1
    catch _ =>
      go := false

end Secp.IR
