import Secp.Spec.Basic
/-
  Model/Outcome — result type of the hand-written models of Go functions.
  `panic` is produced exactly where the Go code would hit a run-time panic
  (index or slice out of range, explicit `panic(...)`), so that "never panics"
  is a theorem about the model rather than an artefact of totalisation.
-/
namespace Secp.Model
open Secp.Spec

inductive Outcome (ε α : Type) where
  | ok (a : α)
  | err (e : ε)
  | panic
  deriving Repr, DecidableEq

namespace Outcome
@[inline] def bind {ε α β} (x : Outcome ε α) (f : α → Outcome ε β) : Outcome ε β :=
  match x with
  | ok a => f a
  | err e => err e
  | panic => panic

instance {ε} : Monad (Outcome ε) where
  pure := ok
  bind := bind

@[simp] theorem bind_ok {ε α β} (a : α) (f : α → Outcome ε β) : (ok a >>= f) = f a := rfl
@[simp] theorem bind_err {ε α β} (e : ε) (f : α → Outcome ε β) : ((err e : Outcome ε α) >>= f) = err e := rfl
@[simp] theorem bind_panic {ε α β} (f : α → Outcome ε β) : ((panic : Outcome ε α) >>= f) = panic := rfl
@[simp] theorem pure_eq {ε α} (a : α) : (pure a : Outcome ε α) = ok a := rfl
end Outcome

/-- Go `b[i]` -/
def idx {ε} (b : Bytes) (i : Nat) : Outcome ε UInt8 :=
  match b[i]? with
  | some x => .ok x
  | none => .panic

/-- Go `b[lo:hi]` (capacity = length for all slices the models take) -/
def slice {ε} (b : Bytes) (lo hi : Nat) : Outcome ε Bytes :=
  if lo ≤ hi ∧ hi ≤ b.length then .ok ((b.take hi).drop lo) else .panic

/-- Go `b[lo:]` -/
def sliceFrom {ε} (b : Bytes) (lo : Nat) : Outcome ε Bytes :=
  if lo ≤ b.length then .ok (b.drop lo) else .panic

end Secp.Model
