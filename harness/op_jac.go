//go:build verif

package main

import (
	"math/big"
	"strings"

	secp "github.com/ModChain/secp256k1"
)

func fvFromHex(s string) *secp.FieldVal {
	var f secp.FieldVal
	f.SetByteSlice(unhx(s))
	return &f
}

// fvHex prints the value of f; a result that is not normalised (limbs outside their canonical range or
// value >= p) is reported as such: results of exported point operations must be normalised.
func fvHex(f *secp.FieldVal) string {
	var c secp.FieldVal
	c.Set(f)
	c.Normalize()
	b := c.Bytes()
	if secp.VerifFieldRaw(f) != secp.VerifFieldRaw(&c) {
		return "DENORMALISED:" + hx(b[:])
	}
	return hx(b[:])
}

func jacFrom(a []string) secp.JacobianPoint {
	return secp.MakeJacobianPoint(fvFromHex(a[0]), fvFromHex(a[1]), fvFromHex(a[2]))
}

func jacHex(p *secp.JacobianPoint) string {
	return fvHex(&p.X) + " " + fvHex(&p.Y) + " " + fvHex(&p.Z)
}

// jac <entry> <p1.X p1.Y p1.Z> [<p2.X p2.Y p2.Z>]  — entry names as in Gen/Formulas.lean
func init() {
	opImpl["jac"] = func(a []string) string {
		name := a[0]
		p1 := jacFrom(a[1:4])
		var p2, r secp.JacobianPoint
		if len(a) >= 7 {
			p2 = jacFrom(a[4:7])
		}
		switch name {
		case "addZ1AndZ2EqualsOne":
			secp.VerifAddZ1AndZ2EqualsOne(&p1, &p2, &r)
		case "addZ1EqualsZ2":
			secp.VerifAddZ1EqualsZ2(&p1, &p2, &r)
		case "addZ2EqualsOne":
			secp.VerifAddZ2EqualsOne(&p1, &p2, &r)
		case "addGeneric":
			secp.VerifAddGeneric(&p1, &p2, &r)
		case "doubleZ1EqualsOne":
			secp.VerifDoubleZ1EqualsOne(&p1, &r)
		case "doubleGeneric":
			secp.VerifDoubleGeneric(&p1, &r)
		case "AddNonConst":
			secp.AddNonConst(&p1, &p2, &r)
		case "AddNonConst_r1":
			secp.AddNonConst(&p1, &p2, &p1)
			return jacHex(&p1) + " | " + jacHex(&p2)
		case "AddNonConst_r2":
			secp.AddNonConst(&p1, &p2, &p2)
			return jacHex(&p2) + " | " + jacHex(&p1)
		case "DoubleNonConst":
			secp.DoubleNonConst(&p1, &r)
		case "DoubleNonConst_r1":
			secp.DoubleNonConst(&p1, &p1)
			return jacHex(&p1)
		case "ToAffine":
			p1.ToAffine()
			return jacHex(&p1)
		default:
			return "unknown-entry"
		}
		// non-aliased: result, then the operands (must be unchanged)
		out := jacHex(&r) + " | " + jacHex(&p1)
		if len(a) >= 7 {
			out += " | " + jacHex(&p2)
		}
		return out
	}
	opImpl["isoncurve"] = func(a []string) string {
		if secp.VerifIsOnCurve(fvFromHex(a[0]), fvFromHex(a[1])) {
			return "true"
		}
		return "false"
	}
	opImpl["decompressy"] = func(a []string) string {
		x := fvFromHex(a[0])
		var y secp.FieldVal
		ok := secp.DecompressY(x, a[1] == "1", &y)
		if !ok {
			return "false"
		}
		// documented: "the resulting Y field val will have a max magnitude of 2" - not necessarily normalised
		y.Normalize()
		return "true " + fvHex(&y)
	}
	generators["C04"] = genC04
	generators["C16"] = genC04
}

// random point of the group as affine big ints
func (h *H) affinePoint() (x, y *big.Int) {
	xb, yb := h.randPoint()
	return new(big.Int).SetBytes(xb), new(big.Int).SetBytes(yb)
}

// Jacobian representation of (x,y) with the given z
func jacOf(x, y, z *big.Int) []string {
	z2 := new(big.Int).Mul(z, z)
	z3 := new(big.Int).Mul(z2, z)
	X := new(big.Int).Mod(new(big.Int).Mul(x, z2), curveP)
	Y := new(big.Int).Mod(new(big.Int).Mul(y, z3), curveP)
	return []string{hx(be32(X)), hx(be32(Y)), hx(be32(new(big.Int).Mod(z, curveP)))}
}

func (h *H) randZ(style int) *big.Int {
	switch style {
	case 0:
		return big.NewInt(1)
	case 1:
		return big.NewInt(2)
	case 2:
		return new(big.Int).Sub(curveP, big.NewInt(1))
	default:
		z := new(big.Int).SetBytes(h.randBytes(32))
		z.Mod(z, curveP)
		if z.Sign() == 0 {
			z.SetInt64(3)
		}
		return z
	}
}

func genC04(h *H) {
	negY := func(y *big.Int) *big.Int { return new(big.Int).Mod(new(big.Int).Neg(y), curveP) }
	inf := [][]string{
		{hx(be32(big.NewInt(0))), hx(be32(big.NewInt(0))), hx(be32(big.NewInt(0)))},
		{hx(be32(big.NewInt(0))), hx(be32(big.NewInt(0))), hx(be32(big.NewInt(1)))},
		{hx(be32(big.NewInt(5))), hx(be32(big.NewInt(7))), hx(be32(big.NewInt(0)))},
	}
	addEntries := []string{"AddNonConst", "AddNonConst_r1", "AddNonConst_r2"}
	n := 12 * h.budget
	for it := 0; it < n; it++ {
		x1, y1 := h.affinePoint()
		x2, y2 := h.affinePoint()
		for zs1 := 0; zs1 < 4; zs1++ {
			for zs2 := 0; zs2 < 4; zs2++ {
				z1, z2 := h.randZ(zs1), h.randZ(zs2)
				shared := zs1 == zs2 && zs1 == 3 && h.rng.Intn(2) == 0
				if shared {
					z2 = z1
				}
				cells := map[string][2][]string{
					"generic":   {jacOf(x1, y1, z1), jacOf(x2, y2, z2)},
					"equal":     {jacOf(x1, y1, z1), jacOf(x1, y1, z2)},
					"opposite":  {jacOf(x1, y1, z1), jacOf(x1, negY(y1), z2)},
					"inf-left":  {inf[h.rng.Intn(3)], jacOf(x2, y2, z2)},
					"inf-right": {jacOf(x1, y1, z1), inf[h.rng.Intn(3)]},
					"inf-both":  {inf[h.rng.Intn(3)], inf[h.rng.Intn(3)]},
				}
				for rel, ops := range cells {
					zc := "z" + string(rune('0'+zs1)) + string(rune('0'+zs2))
					if shared {
						zc = "zshared"
					}
					for _, e := range addEntries {
						h.do(rel+"/"+zc+"/"+e, "jac", e, strings.Join(ops[0], " "), strings.Join(ops[1], " "))
					}
				}
			}
			z1 := h.randZ(zs1)
			for _, e := range []string{"DoubleNonConst", "DoubleNonConst_r1"} {
				h.do("double/"+e, "jac", e, strings.Join(jacOf(x1, y1, z1), " "))
				h.do("double-inf/"+e, "jac", e, strings.Join(inf[h.rng.Intn(3)], " "))
			}
			h.do("toaffine", "jac", "ToAffine", strings.Join(jacOf(x1, y1, z1), " "))
		}
		// the six internal routines under their preconditions (and the equal/opposite sub-branches)
		one := big.NewInt(1)
		zr := h.randZ(3)
		for _, q := range [][2]*big.Int{{x2, y2}, {x1, y1}, {x1, negY(y1)}} {
			h.do("internal/addZ1AndZ2EqualsOne", "jac", "addZ1AndZ2EqualsOne", strings.Join(jacOf(x1, y1, one), " "), strings.Join(jacOf(q[0], q[1], one), " "))
			h.do("internal/addZ1EqualsZ2", "jac", "addZ1EqualsZ2", strings.Join(jacOf(x1, y1, zr), " "), strings.Join(jacOf(q[0], q[1], zr), " "))
			h.do("internal/addZ2EqualsOne", "jac", "addZ2EqualsOne", strings.Join(jacOf(x1, y1, zr), " "), strings.Join(jacOf(q[0], q[1], one), " "))
			h.do("internal/addGeneric", "jac", "addGeneric", strings.Join(jacOf(x1, y1, zr), " "), strings.Join(jacOf(q[0], q[1], h.randZ(3)), " "))
		}
		h.do("internal/doubleZ1EqualsOne", "jac", "doubleZ1EqualsOne", strings.Join(jacOf(x1, y1, one), " "))
		h.do("internal/doubleGeneric", "jac", "doubleGeneric", strings.Join(jacOf(x1, y1, zr), " "))
		// arbitrary (off-curve) field values: the formulas are total field programs
		rf := func() string { v := new(big.Int).SetBytes(h.randBytes(32)); return hx(be32(v.Mod(v, curveP))) }
		h.do("offcurve/addGeneric", "jac", "addGeneric", rf()+" "+rf()+" "+rf(), rf()+" "+rf()+" "+rf())
		h.do("offcurve/AddNonConst", "jac", "AddNonConst", rf()+" "+rf()+" "+rf(), rf()+" "+rf()+" "+rf())
		h.do("offcurve/doubleGeneric", "jac", "doubleGeneric", rf()+" "+rf()+" "+rf())
		// isOnCurve / DecompressY
		h.do("isoncurve-yes", "isoncurve", hx(be32(x1)), hx(be32(y1)))
		h.do("isoncurve-no", "isoncurve", hx(be32(x1)), hx(be32(y2)))
		h.do("decompress", "decompressy", hx(be32(x1)), "0")
		h.do("decompress", "decompressy", hx(be32(x1)), "1")
		h.do("decompress-nr", "decompressy", hx(h.nonResidueX()), "1")
	}
}
