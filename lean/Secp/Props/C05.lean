import Secp.Proofs.DriversWrapField
import Secp.Proofs.FieldMul
import Secp.Proofs.FieldSmall
/-
  Props/C05 — field arithmetic is exact modulo p under the documented preconditions.

  Every theorem is about `Kernel.runW` (Go semantics: 32/64-bit wrap-around, bit
  operations) of a kernel in `Secp.Gen.FieldIR`, which tools/gotr REGENERATES from
  /repo/field.go on every check run; nothing here is a hand-written model.  Input
  order of a kernel: receiver limbs, then each pointer parameter's limbs/bytes,
  then integer parameters.  Helper lemmas live in Secp/Proofs/Field*.lean.
-/
namespace Secp.Props.C05
open Secp.Spec Secp.IR Secp.Gen Secp.Limbs

/-- Mul2: for operands of magnitude ≤ 8 (any receiver contents), no intermediate wraps, the
    result has magnitude ≤ 1 and denotes the product modulo P. -/
theorem mul2_spec (f a b : L10) (hf : f.U32) (ha : a.MagLE 8) (hb : b.MagLE 8) :
    ∃ o : L10, Field_Mul2.runW (f.toList ++ a.toList ++ b.toList) = o.toList ∧ o.MagLE 1 ∧
      o.val % P = (a.val * b.val) % P :=
  Secp.Proofs.FieldMul.mul2_spec f a b hf ha hb

theorem square_spec (f a : L10) (hf : f.U32) (ha : a.MagLE 8) :
    ∃ o : L10, Field_SquareVal.runW (f.toList ++ a.toList) = o.toList ∧ o.MagLE 1 ∧
      o.val % P = (a.val * a.val) % P :=
  Secp.Proofs.FieldMul.square_spec f a hf ha

/-- Normalize ("Preconditions: None"): for EVERY limb vector that fits uint32 the result is the
    unique representative in [0, P) with canonical limbs. -/
theorem normalize_spec (f : L10) (hf : f.U32) :
    ∃ o : L10, Field_Normalize.runW f.toList = o.toList ∧ o.Normalized ∧ o.val = f.val % P :=
  Secp.Proofs.FieldMul.normalize_spec f hf

/-- NegateVal(val, m): for magnitude m ≤ 63 the result has magnitude ≤ m+1 and denotes −val. -/
theorem negate_spec (f a : L10) (m : Nat) (hm : m ≤ 63) (ha : a.MagLE m) :
    ∃ o : L10, Field_NegateVal.runW (f.toList ++ a.toList ++ [m]) = o.toList ∧ o.MagLE (m + 1) ∧
      (o.val + a.val) % P = 0 :=
  Secp.Proofs.FieldSmall.negate_spec f a m hm ha

/-- Add: exact limb-wise sum while the total magnitude stays ≤ 63. -/
theorem add_spec (f a : L10) (m k : Nat) (hmk : m + k ≤ 63) (hf : f.MagLE m) (ha : a.MagLE k) :
    ∃ o : L10, Field_Add.runW (f.toList ++ a.toList) = o.toList ∧ o.MagLE (m + k) ∧ o.val = f.val + a.val :=
  Secp.Proofs.FieldSmall.add_spec f a m k hmk hf ha

theorem add2_spec (f a b : L10) (m k : Nat) (hmk : m + k ≤ 63) (ha : a.MagLE m) (hb : b.MagLE k) :
    ∃ o : L10, Field_Add2.runW (f.toList ++ a.toList ++ b.toList) = o.toList ∧ o.MagLE (m + k) ∧
      o.val = a.val + b.val :=
  Secp.Proofs.FieldSmall.add2_spec f a b m k hmk ha hb

/-- AddInt: only limb 0 changes; exact. (the kernel's only output is the new limb 0) -/
theorem addInt_spec (f : L10) (m ui : Nat) (hm : m ≤ 62) (hf : f.MagLE m) (hui : ui < 2^16) :
    Field_AddInt.runW (f.toList ++ [ui]) = [f.n0 + ui] ∧ f.n0 + ui ≤ (m + 1) * LB :=
  Secp.Proofs.FieldSmall.addInt_spec f m ui hm hf hui

/-- MulInt: exact scaling while magnitude × factor ≤ 63. -/
theorem mulInt_spec (f : L10) (m v : Nat) (hmv : m * v ≤ 63) (hv : v < 256) (hf : f.MagLE m) :
    ∃ o : L10, Field_MulInt.runW (f.toList ++ [v]) = o.toList ∧ o.MagLE (m * v) ∧ o.val = v * f.val :=
  Secp.Proofs.FieldSmall.mulInt_spec f m v hmv hv hf

/-- SetBytes: the limbs denote the big-endian integer exactly, are canonical, and the returned
    flag is 1 exactly when the integer is ≥ P. -/
theorem setBytes_spec (f : L10) (b : List Nat) (hb : b.length = 32) (hlt : AllLt 256 b) :
    ∃ o : L10, ∃ ov : Nat, Field_SetBytes.runW (f.toList ++ b) = o.toList ++ [ov] ∧ o.Tight ∧
      o.val = bytesVal b ∧ ov = (if bytesVal b ≥ P then 1 else 0) :=
  Secp.Proofs.FieldSmall.setBytes_spec f b hb hlt

/-- PutBytesUnchecked on canonical limbs writes the 32-byte big-endian encoding of the value. -/
theorem putBytes_spec (f : L10) (b : List Nat) (hb : b.length = 32) (hf : f.Tight) :
    ∃ o : List Nat, Field_PutBytesUnchecked.runW (f.toList ++ b) = o ∧ o.length = 32 ∧ AllLt 256 o ∧
      bytesVal o = f.val :=
  Secp.Proofs.FieldSmall.putBytes_spec f b hb hf

/-- predicates on canonical limbs agree with their arithmetic definitions -/
theorem isZero_spec (f : L10) (hf : f.Tight) :
    Field_IsZero.runW f.toList = [if f.val = 0 then 1 else 0] ∧
    Field_IsZeroBit.runW f.toList = [if f.val = 0 then 1 else 0] :=
  Secp.Proofs.FieldSmall.isZero_spec f hf

theorem isOne_spec (f : L10) (hf : f.Tight) :
    Field_IsOne.runW f.toList = [if f.val = 1 then 1 else 0] ∧
    Field_IsOneBit.runW f.toList = [if f.val = 1 then 1 else 0] :=
  Secp.Proofs.FieldSmall.isOne_spec f hf

theorem isOdd_spec (f : L10) (hf : f.Tight) :
    Field_IsOdd.runW f.toList = [f.val % 2] ∧ Field_IsOddBit.runW f.toList = [f.val % 2] :=
  Secp.Proofs.FieldSmall.isOdd_spec f hf

theorem equals_spec (f a : L10) (hf : f.Tight) (ha : a.Tight) :
    Field_Equals.runW (f.toList ++ a.toList) = [if f.val = a.val then 1 else 0] :=
  Secp.Proofs.FieldSmall.equals_spec f a hf ha

theorem isGtOrEqPrimeMinusOrder_spec (f : L10) (hf : f.Tight) :
    Field_IsGtOrEqPrimeMinusOrder.runW f.toList = [if f.val ≥ P - N then 1 else 0] :=
  Secp.Proofs.FieldSmall.isGtOrEqPrimeMinusOrder_spec f hf

theorem set_spec (f a : L10) : Field_Set.runW (f.toList ++ a.toList) = a.toList :=
  Secp.Proofs.FieldSmall.set_spec f a

theorem setInt_spec (f : L10) (ui : Nat) : Field_SetInt.runW (f.toList ++ [ui]) = [ui, 0, 0, 0, 0, 0, 0, 0, 0, 0] :=
  Secp.Proofs.FieldSmall.setInt_spec f ui

theorem zero_spec (f : L10) : Field_Zero.runW f.toList = [0, 0, 0, 0, 0, 0, 0, 0, 0, 0] :=
  Secp.Proofs.FieldSmall.zero_spec f

/-- every kernel is alias-safe: no parameter limb is read after the same receiver limb was
    written, so calling with the receiver as an argument (Mul, Square, Negate, Add on itself)
    has the value semantics proved above -/
theorem alias_safe : (fieldKernels.all fun k => k.aliasSafe) = true := by decide

-- non-vacuity: concrete operands meet the hypotheses
example : (⟨2^26-1, 2^26-1, 2^26-1, 2^26-1, 2^26-1, 2^26-1, 2^26-1, 2^26-1, 2^26-1, 2^22-1⟩ : L10).MagLE 8 := by
  simp [L10.MagLE, LB, LB9]
example : (⟨1, 0, 0, 0, 0, 0, 0, 0, 0, 0⟩ : L10).Tight := by simp [L10.Tight]

/-! ### `FieldVal.SetByteSlice` (tools/gotr pass T8): the non-kernel wrapper around the `SetBytes` kernel, regenerated at value level -/

theorem setByteSlice_wrapper (f : Nat) (b : Secp.Spec.Bytes) (hb : b.length < 2^32) :
    Secp.Gen.Drivers.fieldSetByteSliceGen f b
      = (decide (Secp.Spec.beNat (b.take 32) ≥ Secp.Spec.P), Secp.Spec.beNat (b.take 32)) :=
  Secp.Proofs.DriversWrapField.fieldSetByteSlice_regenerated f b hb

end Secp.Props.C05
