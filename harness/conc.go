//go:build verif

package main

// conc mode (C17): from a fresh process, N goroutines start together and run a mix of operations
// (the first of which triggers the lazy decoding of the base-point table); every answer is then
// compared with the answer of the same operation run alone afterwards.  Built with -race.

import (
	"encoding/binary"
	"fmt"
	"math/big"
	"math/rand"
	"os"
	"strings"
	"sync"
	"time"
)

func concOps(rng *rand.Rand, n int) []string {
	rb := func(k int) string {
		b := make([]byte, k)
		rng.Read(b)
		return hx(b)
	}
	g := "79be667ef9dcbbac55a06295ce870b07029bfcdb2dce28d959f2815b16f81798 483ada7726a3c4655da4fbfc0e1108a8fd17b448a68554199c47d08ffb10d4b8 0000000000000000000000000000000000000000000000000000000000000001"
	gc := "0279be667ef9dcbbac55a06295ce870b07029bfcdb2dce28d959f2815b16f81798"
	var ops []string
	for i := 0; i < n; i++ {
		switch rng.Intn(12) {
		case 9:
			ops = append(ops, fmt.Sprintf("bip_derive %s %d,%d,%d -1", rb(32), rng.Uint32(), rng.Uint32(), rng.Uint32()))
		case 10, 11:
			// a hardened child of the master whose private key has a leading zero byte (found with plain
			// HMAC-SHA512, no library call): the derivation takes the 32-byte padding branch
			seed := unhx(rb(32))
			ms := h512([]byte("Bitcoin seed"), seed)
			kpar := new(big.Int).SetBytes(ms[:32])
			data := make([]byte, 37)
			copy(data[1:], ms[:32])
			for j := uint32(0); j < 5000; j++ {
				idx := 0x80000000 + j
				binary.BigEndian.PutUint32(data[33:], idx)
				I := h512(ms[32:], data)
				c := new(big.Int).SetBytes(I[:32])
				if c.Sign() == 0 || c.Cmp(curveN) >= 0 {
					continue
				}
				c.Add(c, kpar).Mod(c, curveN)
				if c.BitLen() <= 248 {
					ops = append(ops, fmt.Sprintf("bip_derive %s %d,%d -1", hx(seed), idx, rng.Intn(4)))
					break
				}
			}
		case 0:
			ops = append(ops, "pubkey "+rb(32))
		case 1:
			ops = append(ops, "sign "+rb(32)+" "+rb(32))
		case 2:
			ops = append(ops, "sbmul "+rb(32))
		case 3:
			ops = append(ops, "smul "+rb(32)+" "+g)
		case 4:
			ops = append(ops, "pubkey_parse "+gc)
		case 5:
			ops = append(ops, "recover "+rb(32)+" "+rb(32)+" "+rb(32)+" "+fmt.Sprint(rng.Intn(4)))
		case 6:
			ops = append(ops, "der_parse "+rb(8+rng.Intn(64)))
		case 7:
			ops = append(ops, "verify "+rb(32)+" "+strings.Join(strings.Fields(g)[:2], " ")+" "+rb(32)+" "+rb(32))
		case 8:
			ops = append(ops, "keygen "+rb(64)+" eof 32 0")
		}
	}
	return ops
}

func runConc(h *H, seed int64, goroutines, perG int) int {
	lists := make([][]string, goroutines)
	for i := range lists {
		rng := rand.New(rand.NewSource(seed*1000 + int64(i)))
		lists[i] = concOps(rng, perG)
		// every goroutine begins with an operation that needs the lazily decoded base-point table, and the
		// goroutines arrive staggered over the time the first one spends decoding it (the step varies with the
		// seed: 20µs … 2.5ms), so that late arrivals meet the table while it is being built
		b := make([]byte, 32)
		rng.Read(b)
		lists[i][0] = "sbmul " + hx(b)
	}
	step := time.Duration(20<<uint(seed%8)) * time.Microsecond
	results := make([][]string, goroutines)
	var start, done sync.WaitGroup
	start.Add(1)
	for i := range lists {
		done.Add(1)
		results[i] = make([]string, perG)
		go func(i int) {
			defer done.Done()
			start.Wait()
			if i > 0 {
				for t0 := time.Now(); time.Since(t0) < time.Duration(i)*step; {
				}
			}
			for j, op := range lists[i] {
				results[i][j] = h.runOp(op)
			}
		}(i)
	}
	// probers: one table-dependent operation each, arriving every 4ms (plus a seed-dependent offset) during the
	// first quarter of a second - the time the -race build needs to decode the table the first time - so that
	// some of them arrive while the first goroutine is still inside the initialiser
	const probers = 64
	probeOps := make([]string, probers)
	probeRes := make([]string, probers)
	prng := rand.New(rand.NewSource(seed*7919 + 13))
	for i := range probeOps {
		b := make([]byte, 32)
		prng.Read(b)
		probeOps[i] = "sbmul " + hx(b)
		done.Add(1)
		go func(i int) {
			defer done.Done()
			start.Wait()
			time.Sleep(time.Duration(i)*4*time.Millisecond + time.Duration(seed%4)*time.Millisecond)
			probeRes[i] = h.runOp(probeOps[i])
		}(i)
	}
	start.Done()
	done.Wait()
	bad := 0
	for i, op := range probeOps {
		if alone := h.runOp(op); alone != probeRes[i] {
			bad++
			fmt.Printf("CONC-MISMATCH prober=%d (arrived %dms after the start) op=%q concurrent=%q alone=%q\n", i, i*4, op, probeRes[i], alone)
		}
	}
	for i := range lists {
		for j, op := range lists[i] {
			alone := h.runOp(op)
			if alone != results[i][j] {
				bad++
				fmt.Printf("CONC-MISMATCH op=%q concurrent=%q alone=%q\n", op, results[i][j], alone)
			}
		}
	}
	fmt.Printf("conc: goroutines=%d+%d ops=%d mismatches=%d\n", goroutines, probers, goroutines*perG+probers, bad)
	if bad > 0 {
		os.Exit(3)
	}
	return goroutines*perG + probers
}
