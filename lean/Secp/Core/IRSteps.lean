import Secp.Core.IR
/-
  Core/IRSteps — turning a run of a concrete kernel into one hypothesis per
  SSA entry, without inlining (so that `omega` sees a linear system over named
  intermediate values).
-/
namespace Secp.IR

/-- `Steps ev body env k`: there are values, one per body entry, each equal to the
    evaluation of its entry in the environment built so far, and `k` holds of the final env. -/
def Steps (ev : List Nat → Expr → Nat) : List Expr → List Nat → (List Nat → Prop) → Prop
  | [], env, k => k env
  | e :: rest, env, k => ∃ v, v = ev env e ∧ Steps ev rest (v :: env) k

theorem steps_iff (ev : List Nat → Expr → Nat) (body : List Expr) (env : List Nat) (k : List Nat → Prop) :
    Steps ev body env k ↔ k (runBody ev body env) := by
  induction body generalizing env with
  | nil => simp [Steps, runBody]
  | cons e rest ih =>
    simp only [Steps, runBody]
    constructor
    · rintro ⟨v, rfl, h⟩; exact (ih _).1 h
    · intro h; exact ⟨_, rfl, (ih _).2 h⟩

/-- opaque marker around the final fact, so that a `repeat obtain` loop stops there -/
@[irreducible] def Done (p : Prop) : Prop := p

theorem Done.out {p : Prop} (h : Done p) : p := by unfold Done at h; exact h
theorem Done.intro {p : Prop} (h : p) : Done p := by unfold Done; exact h

theorem steps_run (ev : List Nat → Expr → Nat) (body : List Expr) (env : List Nat) :
    Steps ev body env (fun e => Done (runBody ev body env = e)) :=
  (steps_iff ev body env _).2 (Done.intro rfl)

end Secp.IR
