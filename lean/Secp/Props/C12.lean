import Secp.Proofs.FrontBip
import Secp.Proofs.FrontFromPub
import Secp.Proofs.DriversDerive
import Secp.Proofs.DriversAdaptor
import Secp.Proofs.DriversChild
import Secp.Proofs.Bip32
import Secp.Props.C03
import Secp.Proofs.Slices
/-
  Props/C12 — BIP32 child derivation matches the specification and commutes with neutering.
  Model: `Secp.Model.childWithIL`, `deriveWithIL`, `ExtKey.neuter`, `fromSeed` (hand-written mirrors of
  ecckd/extended.go; HMAC-SHA512 and RIPEMD160∘SHA256 are parameters `O`).  Point-level theorems are
  conditional on `PointSpec`.  BIP32's two rejection rules that the code does not implement (child
  private key 0, child point at infinity) need a SHA-512 preimage to reach; they appear as explicit
  hypotheses where relevant and are listed in DESIGN.md (O2).
-/
namespace Secp.Props.C12
open Secp.Spec Secp.Model

/-- a well-formed private extended key: private version, 32-byte key in [1, N-1] -/
def PrivKeyOK (k : ExtKey) : Prop := k.isPrivate = true ∧ k.keyData.length = 32 ∧ 0 < beNat k.keyData ∧ beNat k.keyData < N

/-- BIP32 data fed to HMAC-SHA512 for child i -/
def ckdData (k : ExtKey) (i : Nat) : Bytes :=
  if i ≥ 2^31 then (0 : UInt8) :: k.keyData ++ ser32 i else k.pubKeyBytes ++ ser32 i

/-- CKDpriv: fields of the child of a private parent -/
theorem ckd_priv_spec (O : Oracles) (k : ExtKey) (i : Nat) (hk : PrivKeyOK k) (hd : k.depth < 255) (hi : i < 2^32)
    (hvalid : let I := O.hmac512 k.chainCode (ckdData k i); 0 < beNat (I.take 32) ∧ beNat (I.take 32) < N)
    (hI : (O.hmac512 k.chainCode (ckdData k i)).length = 64) :
    let I := O.hmac512 k.chainCode (ckdData k i)
    childWithIL O k i = .ok (beNat (I.take 32),
      { version := k.version, depth := k.depth + 1, fingerprint := (O.hash160 k.pubKeyBytes).take 4, childNumber := i,
        keyData := be32 ((beNat (I.take 32) + beNat k.keyData) % N), chainCode := I.drop 32 }) :=
  Secp.Proofs.Bip32.ckd_priv_spec O k i hk hd hi hvalid hI

/-- private child keys are always serialised to exactly 32 bytes -/
theorem child_key_len (O : Oracles) (k c : ExtKey) (i il : Nat) (hp : k.isPrivate = true)
    (h : childWithIL O k i = .ok (il, c)) : c.keyData.length = 32 :=
  Secp.Proofs.Bip32.child_key_len O k c i il hp h

/-- deriving a hardened child from a public key is refused -/
theorem hardened_from_public_refused (O : Oracles) (k : ExtKey) (i : Nat) (hpub : k.isPrivate = false)
    (hd : k.depth ≠ 255) (hi : i ≥ 2^31) : childWithIL O k i = .error .ErrDerivingHardenedFromPublic :=
  Secp.Proofs.Bip32.hardened_from_public_refused O k i hpub hd hi

/-- derivation beyond depth 255 is refused -/
theorem depth_255_refused (O : Oracles) (k : ExtKey) (i : Nat) (hd : k.depth = 255) :
    childWithIL O k i = .error .ErrMaxDepthExceeded :=
  Secp.Proofs.Bip32.depth_255_refused O k i hd

/-- the tweak returned with a derived private key: child = parent + t (mod N), along any path -/
theorem tweak_spec_priv (O : Oracles) (k c : ExtKey) (path : List Nat) (t : Nat) (hk : PrivKeyOK k)
    (h : deriveWithIL O k path none = .ok (some t, c)) :
    beNat c.keyData = (beNat k.keyData + t) % N :=
  Secp.Proofs.Bip32.tweak_spec_priv O k c path t hk h

/-- neutering commutes with non-hardened derivation: Public(Child(k, i)) = Child(Public(k), i),
    with the same I_L (conditional on PointSpec; the two BIP32 edge cases — child key 0 and
    I_L·G + K = ∞ — are excluded by hypothesis `hne`) -/
theorem neuter_commutes (hp : PointSpec) (O : Oracles) (k c : ExtKey) (i il : Nat) (hk : PrivKeyOK k) (hi : i < 2^31)
    (h : childWithIL O k i = .ok (il, c)) (hne : beNat c.keyData ≠ 0) :
    childWithIL O k.neuter i = .ok (il, c.neuter) :=
  Secp.Proofs.Bip32.neuter_commutes hp O k c i il hk hi h hne

/-! ### unconditional form -/

theorem neuter_commutes_unconditional (O : Oracles) (k c : ExtKey) (i il : Nat) (hk : PrivKeyOK k) (hi : i < 2^31)
    (h : childWithIL O k i = .ok (il, c)) (hne : beNat c.keyData ≠ 0) :
    childWithIL O k.neuter i = .ok (il, c.neuter) :=
  neuter_commutes Secp.Props.C03.pointSpec O k c i il hk hi h hne


/-- Limb level of this property's own functions: the REGENERATED sliced field programs (tools/gotr pass T2s,
    `Secp.Gen.Slices`) of `ChildWithIL` (public-parent branch: parse, add, rebuild the key) and asFV pass the abstract interpreter on every path — no magnitude overflow, every
    comparison / parity test / serialisation reads a normalised value, every callee's precondition holds,
    every returned key or point is normalised.  Together with C05 (kernels) and C16 (`absPath_sound`,
    `contracts_justified`) this is what makes the value-level model above faithful to the limb code. -/
theorem bip32_field_arithmetic_exact :
    Secp.Proofs.Slices.entriesOK ["github.com/ModChain/secp256k1/ecckd.ExtendedKey.ChildWithIL", "github.com/ModChain/secp256k1/ecckd.asFV"] = true := by decide +kernel

/-! ### Regenerated drivers (tools/gotr pass T8)

`Secp.Gen.Drivers` is REGENERATED from /repo on every check run: the Go functions below translated
statement by statement into Lean terms over the value-level primitives.  The theorems say the
regenerated definitions EQUAL the hand-written models the theorems above are about. -/

/-- an extended key as the tuple the regenerated code works on -/
abbrev tup := Secp.Proofs.DriversChild.tup

/-- `ExtendedKey.ChildWithIL` (ecckd/extended.go) regenerated = `childWithIL`: for every parent key (whatever its
    key-data and chain-code lengths), every index below 2^32 and depth below 256 (the ranges of the Go types), and any
    hash oracles whose RIPEMD160∘SHA256 output has at least the 4 bytes the fingerprint takes -/
theorem childWithIL_regenerated (O : Oracles) (e : ExtKey) (i : Nat)
    (hd : e.depth < 256) (hi : i < 2^32) (hfp : 4 ≤ (O.hash160 e.pubKeyBytes).length) :
    Secp.Gen.Drivers.childWithILGen O (tup e) i =
      (match childWithIL O e i with
       | .ok (il, c) => DR.ok (il, tup c)
       | .error err => DR.err err) :=
  Secp.Proofs.DriversChild.childWithIL_regenerated
    Secp.Proofs.DriversAdaptor.scalarBaseMult_regenerated
    Secp.Proofs.DriversAdaptor.add_regenerated
    Secp.Proofs.DriversAdaptor.pubKeyX_regenerated
    Secp.Proofs.DriversAdaptor.pubKeyY_regenerated O e i hd hi hfp

/-- `pubKeyBytes` regenerated -/
theorem pubKeyBytes_regenerated (e : ExtKey) : Secp.Gen.Drivers.pubKeyBytes (tup e) = e.pubKeyBytes :=
  Secp.Proofs.DriversChild.pubKeyBytes_regenerated Secp.Proofs.DriversAdaptor.scalarBaseMult_regenerated e

/-- `serializeCompressedEcdsa` regenerated -/
theorem serializeCompressedEcdsa_regenerated (x y : Nat) :
    Secp.Gen.Drivers.serializeCompressedEcdsa ((), x, y) = serCompressedXY (x, y) :=
  Secp.Proofs.DriversChild.serializeCompressedEcdsa_regenerated x y

/-- `Child` = `ChildWithIL` without the tweak; `FromSeed` and `Public()` regenerated = the models -/
theorem child_front (O : Oracles) (k : Bytes × Nat × Bytes × Nat × Bytes × Bytes × Unit) (i : Nat) :
    Secp.Gen.Drivers.childGen O k i = (match Secp.Gen.Drivers.childWithILGen O k i with
      | .ok (_, ek) => DR.ok ek | .err e => DR.err e | .panic => DR.panic | .fuel => DR.fuel | .undef => DR.undef) :=
  Secp.Proofs.FrontBip.child_front O k i

theorem fromSeed_regenerated (O : Oracles) (seed ms : Bytes) :
    Secp.Gen.Drivers.fromSeedGen O seed ms = (match fromSeed O seed ms with | .ok e => DR.ok (tup e) | .error err => DR.err err) :=
  Secp.Proofs.FrontBip.fromSeed_regenerated O seed ms

theorem public_regenerated (e : ExtKey) : Secp.Gen.Drivers.publicGen (tup e) = DR.ok (tup e.neuter) :=
  Secp.Proofs.FrontBip.public_regenerated e


/-- `FromPublicKey` regenerated = `fromPublicKey`: only the chain-code length is checked, and the key data is the compressed
    form of the caller's coordinates exactly as given (32 bytes of x, whatever its leading zeros) -/
theorem fromPublicKey_regenerated (x y : Nat) (cc : Bytes) :
    Secp.Gen.Drivers.fromPublicKeyGen ((), x, y) cc =
      (match fromPublicKey x y cc with | .ok e => DR.ok (tup e) | .error _ => DR.err ()) :=
  Secp.Proofs.FrontFromPub.fromPublicKey_regenerated x y cc

/-- `ToPublicSecp256k1` regenerated: the public-key parser applied to `pubKeyBytes` (so, by `pubKeyBytes_regenerated`, to
    the stored key data of a public key and to the compressed form of k·G for a private one) -/
theorem toPublicSecp_regenerated (e : ExtKey) :
    Secp.Gen.Drivers.toPublicSecpGen (tup e) =
      (match parsePubKey e.pubKeyBytes with | .ok pk => DR.ok pk | .err pe => DR.err pe | .panic => DR.panic) :=
  Secp.Proofs.FrontFromPub.toPublicSecp_regenerated e

/-- `DeriveWithIL` (the loop over the path with its accumulated tweak, a nil-able big integer) regenerated =
    `deriveWithIL`, for every path of uint32 indices, every starting key of depth below 256 and hash oracles whose
    RIPEMD160∘SHA256 output has at least 4 bytes — so the path-induction theorems above (`tweak…`) speak about the code -/
theorem deriveWithIL_regenerated (O : Oracles) (hfp : ∀ x, 4 ≤ (O.hash160 x).length) (e : ExtKey)
    (hd : e.depth < 256) (path : List Nat) (hp : ∀ i ∈ path, i < 2^32) :
    Secp.Gen.Drivers.deriveWithILGen O (tup e) path =
      (match deriveWithIL O e path none with | .ok (t, c) => DR.ok (t, tup c) | .error err => DR.err err) :=
  Secp.Proofs.DriversDerive.deriveWithIL_regenerated O hfp e hd path hp

/-- `Derive` regenerated = `deriveWithIL` without the tweak -/
theorem derive_regenerated (O : Oracles) (hfp : ∀ x, 4 ≤ (O.hash160 x).length) (e : ExtKey)
    (hd : e.depth < 256) (path : List Nat) (hp : ∀ i ∈ path, i < 2^32) :
    Secp.Gen.Drivers.deriveGen O (tup e) path =
      (match deriveWithIL O e path none with | .ok (_, c) => DR.ok (tup c) | .error err => DR.err err) :=
  Secp.Proofs.DriversDerive.derive_regenerated O hfp e hd path hp

/-- `FromBitcoinSeed` = `FromSeed` with the salt "Bitcoin seed" -/
theorem fromBitcoinSeed_front (O : Oracles) (seed : Bytes) :
    Secp.Gen.Drivers.fromBitcoinSeedGen O seed =
      Secp.Gen.Drivers.fromSeedGen O seed [0x42, 0x69, 0x74, 0x63, 0x6f, 0x69, 0x6e, 0x20, 0x73, 0x65, 0x65, 0x64] :=
  Secp.Proofs.FrontBip.fromBitcoinSeed_front O seed

end Secp.Props.C12
