import Secp.Proofs.ScalarKernels
import Secp.Proofs.FieldBridge
/-
  Proofs/ScalarSmall — C06: the small `ModNScalar` kernels (proved in Proofs/ScalarKernels,
  same namespace) plus the modular inverse.
-/
namespace Secp.Proofs.ScalarSmall
open Secp.Spec Secp.Proofs

/-! ### inversion -/

theorem inverse_spec (a : Nat) (ha : a % N ≠ 0) : (ninv a * a) % N = 1 ∧ ninv a < N := by
  have hne : (a : ZMod N) ≠ 0 := by
    intro h
    have := (mod_N_eq_iff a 0).2 (by simpa using h)
    exact ha (by simpa using this)
  refine ⟨?_, ninv_lt a⟩
  apply eq_of_cast_eq_N (Nat.mod_lt _ N_pos) (by have := two_lt_N; omega)
  show ((nmul (ninv a) a : Nat) : ZMod N) = ((1 : Nat) : ZMod N)
  rw [nmul_cast, ninv_cast, Nat.cast_one, inv_mul_cancel₀ hne]

end Secp.Proofs.ScalarSmall
