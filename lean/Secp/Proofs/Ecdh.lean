import Secp.Model.Adaptor
import Secp.Model.PointSpec
import Secp.Proofs.SpecGroup
import Secp.Proofs.Ecdsa
/-
  Proofs/Ecdh — lemmas behind Props/C14 (ECDH).  The point layer enters only through
  `PointSpec`; the group facts are those of `Proofs/SpecGroup` (Mathlib's group law, `order_G`).
-/
namespace Secp.Proofs.Ecdh
open Secp.Spec Secp.Model Secp.Proofs Secp.Proofs.SpecGroup

/-- a multiple of `G` by a scalar not divisible by the order is not the identity -/
theorem nsmul_G_ne_zero (a : Nat) (h : ¬ N ∣ a) : a • toE G ≠ 0 := by
  intro h0
  have hd := addOrderOf_dvd_iff_nsmul_eq_zero.2 h0
  rw [order_G] at hd
  exact h hd

/-- … hence it is a finite point of the curve -/
theorem smul_G_finite (a : Nat) (h : ¬ N ∣ a) : ∃ x y, smul a G = some (x, y) ∧ OnCurve x y := by
  have hv := valid_smul a valid_G
  cases hs : smul a G with
  | none =>
    exfalso
    apply nsmul_G_ne_zero a h
    rw [← toE_smul a valid_G, hs, toE_none]
  | some p =>
    obtain ⟨x, y⟩ := p
    rw [hs] at hv
    exact ⟨x, y, rfl, hv⟩

theorem pubkey_finite (a : Nat) (ha0 : 0 < a) (ha : a < N) :
    ∃ x y, smul a G = some (x, y) ∧ OnCurve x y :=
  smul_G_finite a (Nat.not_dvd_of_pos_of_lt ha0 ha)

/-- a·(b·G) = (a·b mod N)·G in the executable specification -/
theorem smul_smul_G (a b : Nat) : smul a (smul b G) = smul ((a * b) % N) G := by
  rw [smul_mod_N_G]
  apply toE_injective_on_valid (valid_smul _ (valid_smul _ valid_G)) (valid_smul _ valid_G)
  rw [toE_smul _ (valid_smul _ valid_G), toE_smul _ valid_G, toE_smul _ valid_G, mul_nsmul']

theorem ecdh_spec (hp : PointSpec) (a b : Nat) (ha0 : 0 < a) (ha : a < N) (hb0 : 0 < b) (hb : b < N)
    (x y : Nat) (hB : smul b G = some (x, y)) :
    ∃ sx sy, smul ((a * b) % N) G = some (sx, sy) ∧ ecdhM a (x, y) = be32 sx := by
  have hon : OnCurve x y := by
    have hv := valid_smul b valid_G
    rw [hB] at hv
    exact hv
  obtain ⟨w, t⟩ := hp.smulA a x y ha hon
  have hnd : ¬ N ∣ (a * b) % N := by
    rw [Nat.dvd_mod_iff (Nat.dvd_refl N)]
    intro h
    rcases (Nat.Prime.dvd_mul N_prime).1 h with h | h
    · exact Nat.not_dvd_of_pos_of_lt ha0 ha h
    · exact Nat.not_dvd_of_pos_of_lt hb0 hb h
  obtain ⟨sx, sy, hs, -⟩ := smul_G_finite _ hnd
  rw [← hB, smul_smul_G, hs] at t
  refine ⟨sx, sy, hs, ?_⟩
  unfold ecdhM
  rw [hp.toAffine _ sx sy w t]

theorem ecdh_symmetric (hp : PointSpec) (a b : Nat) (ha0 : 0 < a) (ha : a < N) (hb0 : 0 < b)
    (hb : b < N) (xa ya xb yb : Nat) (hA : smul a G = some (xa, ya))
    (hB : smul b G = some (xb, yb)) :
    ecdhM a (xb, yb) = ecdhM b (xa, ya) := by
  obtain ⟨sx, sy, h1, e1⟩ := ecdh_spec hp a b ha0 ha hb0 hb xb yb hB
  obtain ⟨sx', sy', h2, e2⟩ := ecdh_spec hp b a hb0 hb ha0 ha xa ya hA
  rw [Nat.mul_comm b a, h1] at h2
  simp only [Option.some.injEq, Prod.mk.injEq] at h2
  rw [e1, e2, h2.1]

end Secp.Proofs.Ecdh
