import Secp.Model.Outcome
import Secp.Spec.Field
/-
  Model/PrivKey — privkey.go: generatePrivateKey, PrivKeyFromBytes, Serialize, Zero.
  The entropy reader is abstracted to what `io.ReadFull` can observe of it: the
  bytes it will deliver (in whatever chunking) and the error it returns once
  they are exhausted.
-/
namespace Secp.Model
open Secp.Spec

inductive IoErr where
  | eof            -- io.EOF
  | unexpectedEOF  -- io.ErrUnexpectedEOF
  | other (tag : Nat)  -- any other reader error, identified by a tag
  deriving Repr, DecidableEq

/-- a reader: the bytes it delivers, then the error it reports forever after -/
structure Reader where
  data : Bytes
  term : IoErr

/-- `io.ReadFull(r, buf[0:32])` : full block, or the error per ReadAtLeast's rules;
    returns the reader state afterwards -/
def readFull32 (r : Reader) : Except IoErr Bytes × Reader :=
  if r.data.length ≥ 32 then (.ok (r.data.take 32), { r with data := r.data.drop 32 })
  else if r.data.length = 0 then (.error r.term, r)
  else (.error (if r.term = .eof then .unexpectedEOF else r.term), { r with data := [] })

/-- `ModNScalar.SetBytes` at value level: (value reduced once, overflow flag) -/
def scalarSetBytes32 (b : Bytes) : Nat × Bool :=
  let v := beNat b
  (if v ≥ N then v - N else v, v ≥ N)

/-- `generatePrivateKey`: result and number of bytes consumed from the reader -/
def generatePrivateKey (r : Reader) : Except IoErr Nat × Nat :=
  go (r.data.length / 32 + 1) r 0
where
  go : Nat → Reader → Nat → Except IoErr Nat × Nat
  | 0, _, used => (.error .eof, used)   -- unreachable: fuel exceeds the number of whole blocks
  | fuel+1, r, used =>
    match readFull32 r with
    | (.error e, r') => (.error e, used + (r.data.length - r'.data.length))
    | (.ok blk, r') =>
      let (k, overflow) := scalarSetBytes32 blk
      -- valid = (IsZeroBit | overflow) == 0
      if k ≠ 0 ∧ ¬ overflow then (.ok k, used + 32) else go fuel r' (used + 32)

/-- `PrivKeyFromBytes`: SetByteSlice (first 32 bytes, left padded, reduced once) -/
def privKeyFromBytes (b : Bytes) : Nat :=
  let v := beNat (b.take 32)
  if v ≥ N then v - N else v

/-- `PrivateKey.Serialize` -/
def privKeySerialize (k : Nat) : Bytes := be32 k

/-- `PrivateKey.Zero` -/
def privKeyZero (_k : Nat) : Nat := 0

end Secp.Model
