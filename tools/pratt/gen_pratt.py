#!/usr/bin/env python3-vt
"""Generate Secp/Proofs/Primes.lean : powMod_eq, Pratt certificates for P and N.
Usage: python3-vt gen_pratt.py > lean/Secp/Proofs/Primes.lean
Factorisations are cached in tree.json (produced on first run, ~30 s)."""
import json, os, sys
from sympy import factorint, isprime

P = 2**256 - 2**32 - 977
N = 0xFFFFFFFFFFFFFFFFFFFFFFFFFFFFFFFEBAAEDCE6AF48A03BBFD25E8CD0364141
SMALL = 10**6          # primes below this are discharged by norm_num
HERE = os.path.dirname(os.path.abspath(__file__))
CACHE = os.path.join(HERE, "tree.json")

if os.path.exists(CACHE):
    tree = {int(k): {int(q): e for q, e in v.items()} for k, v in json.load(open(CACHE)).items()}
else:
    tree = {}

order = []
def go(p):
    if p < SMALL or p in order:
        return
    assert isprime(p)
    if p not in tree:
        tree[p] = factorint(p - 1)
    for q in sorted(tree[p]):
        go(q)
    order.append(p)
go(P); go(N)
json.dump({str(k): {str(q): e for q, e in v.items()} for k, v in tree.items()}, open(CACHE, "w"))

def witness(p):
    f = tree[p]
    a = 2
    while True:
        if pow(a, p - 1, p) == 1 and all(pow(a, (p - 1) // q, p) != 1 for q in f):
            return a
        a += 1

HEADER = open(os.path.join(HERE, "primes_header.lean")).read()
out = [HEADER]
for p in order:
    f = tree[p]
    prod = 1
    for q, e in f.items():
        prod *= q ** e
    assert prod == p - 1
    a = witness(p)
    fs = ", ".join(f"({q}, {e})" for q, e in sorted(f.items()))
    def pr(q):
        return "(by norm_num)" if q < SMALL else f"prime_{q}"
    hp = "List.forall_mem_nil _"
    for q in sorted(f, reverse=True):
        hp = f"List.forall_mem_cons.2 ⟨{pr(q)}, {hp}⟩"
    out.append(f"""theorem prime_{p} : Nat.Prime {p} :=
  pratt {p} {a} [{fs}]
    (by decide +kernel)
    ({hp})
    (by decide +kernel) (by decide +kernel)
""")
out.append(f"""/-- the secp256k1 field characteristic is prime (Pratt certificate) -/
theorem P_prime : Nat.Prime Secp.Spec.P := prime_{P}

/-- the secp256k1 group order is prime (Pratt certificate) -/
theorem N_prime : Nat.Prime Secp.Spec.N := prime_{N}

instance instFactPPrime : Fact (Nat.Prime Secp.Spec.P) := ⟨P_prime⟩
instance instFactNPrime : Fact (Nat.Prime Secp.Spec.N) := ⟨N_prime⟩

end Secp.Proofs
""")
sys.stdout.write("\n".join(out))
