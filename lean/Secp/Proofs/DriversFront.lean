import Secp.Proofs.DriversMisc
import Secp.Gen.Drivers
import Secp.Model.Bip32
import Secp.Model.Ecdsa
import Secp.Proofs.Der
import Secp.Proofs.DriversChild
import Secp.Proofs.DriversAdaptor
import Secp.Proofs.DriversBip32
/-
  Proofs/DriversFront — the thin exported front ends regenerated in Gen/Drivers.lean
  (signGen, generatePrivateKeyFromRand, ecdhMethod, exportGen, childGen, fromSeedGen, publicGen)
  equal the functions they forward to / the hand-written models of Model/Ecdsa.lean and Model/Bip32.lean.
-/
namespace Secp.Proofs.DriversFront
open Secp.Spec Secp.Model

local notation "tup" => Secp.Proofs.DriversChild.tup

/-! ### Sign, GeneratePrivateKeyFromRand, PrivateKey.ECDH : pure forwarding -/

theorem sign_front (d : Nat) (h : Bytes) :
    Secp.Gen.Drivers.signGen d h = Secp.Gen.Drivers.signRFC6979 d h := rfl

theorem generatePrivateKeyFromRand_front (r : Reader) :
    Secp.Gen.Drivers.generatePrivateKeyFromRand r = Secp.Gen.Drivers.generatePrivateKey r := rfl

theorem ecdh_front (d : Nat) (Q : Nat × Nat) :
    Secp.Gen.Drivers.ecdhMethod d Q = DR.ok (Secp.Gen.Drivers.generateSharedSecret d Q) := rfl

/-! ### Signature.Export -/

theorem nneg_lt (s : Nat) : nneg s < 2 ^ 256 := by
  unfold nneg
  have hN : N < 2 ^ 256 := by decide +kernel
  have hN0 : 0 < N := by decide +kernel
  exact Nat.lt_trans (Nat.mod_lt _ hN0) hN

theorem halfN_lt : halfN < 2 ^ 256 := by decide +kernel

/-- what the regenerated `Export` computes for arbitrary inputs: `r` goes through a 32-byte buffer
    (so it is reduced mod 2^256); the normalised `s` is always below 2^256 and comes back unchanged. -/
theorem export_regenerated_raw (r s v : Nat) :
    Secp.Gen.Drivers.exportGen (r, s, v) =
      ((exportM r s v).1 % 2 ^ 256, (exportM r s v).2.1, (exportM r s v).2.2) := by
  unfold Secp.Gen.Drivers.exportGen exportM
  simp only [Secp.Proofs.Der.beNat_be32, gt_iff_lt, decide_eq_true_eq]
  by_cases h : halfN < s
  · simp only [h, if_true]
    rw [Nat.mod_eq_of_lt (nneg_lt s)]
  · simp only [h, if_false]
    rw [Nat.mod_eq_of_lt (Nat.lt_of_le_of_lt (Nat.not_lt.mp h) halfN_lt)]

/-- no hypothesis on `s` is needed: a high `s` is negated mod N (result < N < 2^256) and a low one is
    ≤ halfN < 2^256, so the `be32`/`beNat` round trip is the identity on the `s` component in all cases. -/
theorem export_regenerated (r s v : Nat) (hr : r < 2 ^ 256) :
    Secp.Gen.Drivers.exportGen (r, s, v) = exportM r s v := by
  rw [export_regenerated_raw]
  have h1 : (exportM r s v).1 = r := by unfold exportM; split <;> rfl
  have h2 : (exportM r s v).1 % 2 ^ 256 = (exportM r s v).1 := by rw [h1]; exact Nat.mod_eq_of_lt hr
  rw [h2]

/-- the bound on `r` is necessary -/
theorem export_regenerated_iff (r s v : Nat) :
    Secp.Gen.Drivers.exportGen (r, s, v) = exportM r s v ↔ r < 2 ^ 256 := by
  constructor
  · intro h
    rw [export_regenerated_raw] at h
    have h1 : (exportM r s v).1 = r := by unfold exportM; split <;> rfl
    have h2 := congrArg Prod.fst h
    simp only [h1] at h2
    rw [← h2]
    exact Nat.mod_lt _ (by decide)
  · exact export_regenerated r s v

/-- the statement as first asked for (with the superfluous `s < N`) -/
theorem export_regenerated_of_lt (r s v : Nat) (hr : r < 2 ^ 256) (_hs : s < N) :
    Secp.Gen.Drivers.exportGen (r, s, v) = exportM r s v := export_regenerated r s v hr

/-! ### ExtendedKey.Child -/

theorem child_front (O : Oracles) (k : Bytes × Nat × Bytes × Nat × Bytes × Bytes × Unit) (i : Nat) :
    Secp.Gen.Drivers.childGen O k i =
      (match Secp.Gen.Drivers.childWithILGen O k i with
       | .ok (_, ek) => DR.ok ek | .err e => DR.err e | .panic => DR.panic | .fuel => DR.fuel
       | .undef => DR.undef) := by
  unfold Secp.Gen.Drivers.childGen
  cases Secp.Gen.Drivers.childWithILGen O k i <;> rfl

/-! ### FromSeed -/

theorem fromSeed_regenerated (O : Oracles) (seed ms : Bytes) :
    Secp.Gen.Drivers.fromSeedGen O seed ms =
      (match fromSeed O seed ms with | .ok e => DR.ok (tup e) | .error err => DR.err err) := by
  unfold Secp.Gen.Drivers.fromSeedGen fromSeed
  obtain ⟨key, cc, ok, hr⟩ : ∃ key cc ok, hmacCKD O seed ms = (key, cc, ok) := ⟨_, _, _, rfl⟩
  simp only [hr]
  cases ok <;> rfl

/-! ### ExtendedKey.Public -/

theorem public_regenerated (e : ExtKey) :
    Secp.Gen.Drivers.publicGen (tup e) = DR.ok (tup e.neuter) := by
  unfold Secp.Gen.Drivers.publicGen ExtKey.neuter
  rw [Secp.Proofs.DriversChild.pubKeyBytes_regenerated
    Secp.Proofs.DriversAdaptor.scalarBaseMult_regenerated]
  simp only [Secp.Proofs.DriversChild.tup, ExtKey.isPrivate]
  rcases Bool.eq_false_or_eq_true (versionIsPrivate e.version) with h | h <;> simp [h]


/-- `RecoverCompact` = `ParseCompactSignature` (the model's parser) followed by `RecoverPublicKey` (regenerated), the
    compressed flag passed through -/
theorem recoverCompact_front (sig h : Bytes) :
    Secp.Gen.Drivers.recoverCompact sig h =
      (match parseCompactM sig with
       | .error (e, _) => DR.err e
       | .ok (r, s, c, comp) =>
         match Secp.Gen.Drivers.recoverPublicKey (r, s, c) h with
         | .ok pk => DR.ok (pk, comp)
         | .err e => DR.err e | .panic => DR.panic | .fuel => DR.fuel | .undef => DR.undef) := by
  unfold Secp.Gen.Drivers.recoverCompact
  cases hp : parseCompactM sig with
  | error e => rfl
  | ok t =>
    obtain ⟨r, s, c, comp⟩ := t
    simp only []
    cases Secp.Gen.Drivers.recoverPublicKey (r, s, c) h <;> rfl


/-- `PrivateKey.Sign` (the crypto.Signer front end): the digest is signed as given by `signRFC6979`; the result is the
    compact export with offset 0 when the options are a `*SignOptions` with `Format = SignFormatCompact`, the DER
    serialisation in every other case (other option types, DER, unknown formats) -/
theorem signer_front (d : Nat) (digest : Bytes) (opts : Option (Nat × Nat)) :
    Secp.Gen.Drivers.signerSign d digest opts =
      (match Secp.Gen.Drivers.signRFC6979 d digest with
       | .ok (r, s, v) =>
         DR.ok (if (opts.getD (0, 0)).1 == 1 then exportCompactM r s v true 0 else serializeDER r s)
       | .err e => DR.err e | .panic => DR.panic | .fuel => DR.fuel | .undef => DR.undef) := by
  unfold Secp.Gen.Drivers.signerSign
  cases hs : Secp.Gen.Drivers.signRFC6979 d digest with
  | ok t =>
    obtain ⟨r, s, v⟩ := t
    cases opts with
    | none => simp
    | some o =>
      simp only [Option.getD_some]
      by_cases h : (o.1 == 1) = true
      · simp only [h, if_true]
        rw [Secp.Proofs.DriversMisc.exportCompact_regenerated]
      · simp only [h, if_false, Bool.false_eq_true]
  | err e => rfl
  | panic => rfl
  | fuel => rfl
  | undef => rfl


/-- `FromBitcoinSeed` = `FromSeed` with the salt "Bitcoin seed" -/
theorem fromBitcoinSeed_front (O : Oracles) (seed : Bytes) :
    Secp.Gen.Drivers.fromBitcoinSeedGen O seed =
      Secp.Gen.Drivers.fromSeedGen O seed [0x42, 0x69, 0x74, 0x63, 0x6f, 0x69, 0x6e, 0x20, 0x73, 0x65, 0x65, 0x64] := rfl

/-- schnorr `Signature.Verify` is `schnorrVerify … == nil` -/
theorem schnorrVerifyBool_front (B : Bytes → Bytes) (sig : Nat × Nat) (h : Bytes) (Q : Nat × Nat) :
    Secp.Gen.Drivers.schnorrVerifyBool B sig h Q =
      (match Secp.Gen.Drivers.schnorrVerify B sig h Q with | .ok _ => true | _ => false) := rfl

end Secp.Proofs.DriversFront

#print axioms Secp.Proofs.DriversFront.sign_front
#print axioms Secp.Proofs.DriversFront.generatePrivateKeyFromRand_front
#print axioms Secp.Proofs.DriversFront.ecdh_front
#print axioms Secp.Proofs.DriversFront.export_regenerated_raw
#print axioms Secp.Proofs.DriversFront.export_regenerated
#print axioms Secp.Proofs.DriversFront.export_regenerated_iff
#print axioms Secp.Proofs.DriversFront.export_regenerated_of_lt
#print axioms Secp.Proofs.DriversFront.child_front
#print axioms Secp.Proofs.DriversFront.fromSeed_regenerated
#print axioms Secp.Proofs.DriversFront.public_regenerated
