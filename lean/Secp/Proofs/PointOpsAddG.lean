/-
  Proofs/PointOpsAddG — addGeneric (add-2007-bl), plain and result≡p1.
-/
import Secp.Proofs.PointOpsDbl

set_option linter.unusedSimpArgs false
namespace Secp.Proofs.PointOps
open Secp.Spec Secp.Model Secp.FOp Secp.Proofs
open Secp.Gen.FormulasC

theorem addG_U_iff (X1 Z1 X2 Z2 : Nat) :
    fmul X1 (fsq Z2) % P = fmul X2 (fsq Z1) % P ↔ (X1 : F) * (Z2 : F) ^ 2 = (X2 : F) * (Z1 : F) ^ 2 := by
  rw [mod_P_eq_iff]; cast_simp

theorem addG_S_iff (Y1 Z1 Y2 Z2 : Nat) :
    fmul (fmul Y1 (fsq Z2)) Z2 % P = fmul (fmul Y2 (fsq Z1)) Z1 % P ↔
      (Y1 : F) * (Z2 : F) ^ 3 = (Y2 : F) * (Z1 : F) ^ 3 := by
  rw [mod_P_eq_iff]; cast_simp
  constructor <;> intro h <;> linear_combination h

theorem addGeneric_a010_contract (f : Nat) :
    AddContract (fun _ _ => True) (RunA (f + 1) 10) (DRunA f) where
  ne := by
    intro X1 Y1 Z1 X2 Y2 Z2 _ _ _ _ _ hne
    rw [Ne, ← addG_U_iff] at hne
    refine ⟨?X3, ?Y3, ?Z3, ?run, ⟨?b1, ?b2, ?b3⟩, ?ch⟩
    case run =>
      show callE (f + 1) 10 [X1, Y1, Z1, X2, Y2, Z2] = some [_, _, _, X2, Y2, Z2]
      rw [callE_succ f 10 _ addGeneric_a010 rfl]
      exec_simp [addGeneric_a010, addGeneric_a010_p0, addGeneric_a010_p1, addGeneric_a010_p2, hne]
      and_intros <;> rfl
    case b1 => exact Nat.mod_lt _ P_pos
    case b2 => exact Nat.mod_lt _ P_pos
    case b3 => exact Nat.mod_lt _ P_pos
    case ch =>
      convert chordRep_addG (X1 : F) Y1 Z1 X2 Y2 Z2 using 1
      all_goals cast_simp
      all_goals simp only [agX, agY, agZ]
      all_goals ring
  eq_ne := by
    intro X1 Y1 Z1 X2 Y2 Z2 _ _ _ _ _ hU hS
    rw [Ne] at hS
    rw [← addG_U_iff] at hU
    rw [← addG_S_iff] at hS
    show callE (f + 1) 10 [X1, Y1, Z1, X2, Y2, Z2] = some [0, 0, 0, X2, Y2, Z2]
    rw [callE_succ f 10 _ addGeneric_a010 rfl]
    exec_simp [addGeneric_a010, addGeneric_a010_p0, addGeneric_a010_p1, addGeneric_a010_p2, hU, hS]
  eq_eq := by
    intro X1 Y1 Z1 X2 Y2 Z2 _ _ _ _ _ hU hS r hr
    rw [← addG_U_iff] at hU
    rw [← addG_S_iff] at hS
    obtain ⟨a, b, c⟩ := r
    have hr' : callE f 5 [X1, Y1, Z1] = some [a, b, c] := hr
    show callE (f + 1) 10 [X1, Y1, Z1, X2, Y2, Z2] = some [a, b, c, X2, Y2, Z2]
    rw [callE_succ f 10 _ addGeneric_a010 rfl]
    exec_simp [addGeneric_a010, addGeneric_a010_p0, addGeneric_a010_p1, addGeneric_a010_p2, hU, hS, hr']

theorem addGeneric_contract (f : Nat) :
    AddContract (fun _ _ => True) (RunP (f + 1) 9) (DRunP f) where
  ne := by
    intro X1 Y1 Z1 X2 Y2 Z2 _ _ _ _ _ hne
    rw [Ne, ← addG_U_iff] at hne
    refine ⟨?X3, ?Y3, ?Z3, fun r6 r7 r8 => ?run, ⟨?b1, ?b2, ?b3⟩, ?ch⟩
    case run =>
      show callE (f + 1) 9 [X1, Y1, Z1, X2, Y2, Z2, r6, r7, r8] = some [X1, Y1, Z1, X2, Y2, Z2, _, _, _]
      rw [callE_succ f 9 _ addGeneric rfl]
      exec_simp [addGeneric, addGeneric_p0, addGeneric_p1, addGeneric_p2, hne]
      and_intros <;> rfl
    case b1 => exact Nat.mod_lt _ P_pos
    case b2 => exact Nat.mod_lt _ P_pos
    case b3 => exact Nat.mod_lt _ P_pos
    case ch =>
      convert chordRep_addG (X1 : F) Y1 Z1 X2 Y2 Z2 using 1
      all_goals cast_simp
      all_goals simp only [agX, agY, agZ]
      all_goals ring
  eq_ne := by
    intro X1 Y1 Z1 X2 Y2 Z2 _ _ _ _ _ hU hS r6 r7 r8
    rw [Ne] at hS
    rw [← addG_U_iff] at hU
    rw [← addG_S_iff] at hS
    show callE (f + 1) 9 [X1, Y1, Z1, X2, Y2, Z2, r6, r7, r8] = some [X1, Y1, Z1, X2, Y2, Z2, 0, 0, 0]
    rw [callE_succ f 9 _ addGeneric rfl]
    exec_simp [addGeneric, addGeneric_p0, addGeneric_p1, addGeneric_p2, hU, hS]
  eq_eq := by
    intro X1 Y1 Z1 X2 Y2 Z2 _ _ _ _ _ hU hS r hr r6 r7 r8
    rw [← addG_U_iff] at hU
    rw [← addG_S_iff] at hS
    obtain ⟨a, b, c⟩ := r
    have hr' : callE f 4 [X1, Y1, Z1, r6, r7, r8] = some [X1, Y1, Z1, a, b, c] := hr r6 r7 r8
    show callE (f + 1) 9 [X1, Y1, Z1, X2, Y2, Z2, r6, r7, r8] = some [X1, Y1, Z1, X2, Y2, Z2, a, b, c]
    rw [callE_succ f 9 _ addGeneric rfl]
    exec_simp [addGeneric, addGeneric_p0, addGeneric_p1, addGeneric_p2, hU, hS, hr']

end Secp.Proofs.PointOps
