import Secp.Gen.Drivers
/-
  Proofs/DriversFront — the thin exported front ends regenerated in Gen/Drivers.lean
  (signGen, generatePrivateKeyFromRand, ecdhMethod, exportGen, childGen, fromSeedGen, publicGen)
  equal the functions they forward to / the hand-written models of Model/Ecdsa.lean and Model/Bip32.lean.
-/
namespace Secp.Proofs.FrontKeygen
open Secp.Spec Secp.Model


/-! ### Sign, GeneratePrivateKeyFromRand, PrivateKey.ECDH : pure forwarding -/

theorem generatePrivateKeyFromRand_front (r : Reader) :
    Secp.Gen.Drivers.generatePrivateKeyFromRand r = Secp.Gen.Drivers.generatePrivateKey r := rfl

/-! ### Signature.Export -/

/-! ### ExtendedKey.Child -/

/-! ### FromSeed -/

/-! ### ExtendedKey.Public -/

end Secp.Proofs.FrontKeygen

