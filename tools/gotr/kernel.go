package main

// T1: straight-line integer kernels → deep-embedded IR.

import (
	"encoding/json"
	"fmt"
	"go/ast"
	"go/constant"
	"go/token"
	"go/types"
	"math/big"
	"sort"
	"strings"
)

// E is an IR expression.
type E struct {
	op   string // var const add sub mul shr shl and low or xor not neg conv eq ne ctEq ctNe ctLt ctLe ctMin accAdd
	w, k int
	n    *big.Int
	i    int
	a, b *E
}

func (e *E) lean(sz int) string {
	switch e.op {
	case "var":
		return fmt.Sprintf("(.var %d)", sz-1-e.i)
	case "const":
		return fmt.Sprintf("(.const %s)", e.n.String())
	case "add", "sub", "mul":
		return fmt.Sprintf("(.%s %d %s %s)", e.op, e.w, e.a.lean(sz), e.b.lean(sz))
	case "shr":
		return fmt.Sprintf("(.shr %s %d)", e.a.lean(sz), e.k)
	case "shl":
		return fmt.Sprintf("(.shl %d %s %d)", e.w, e.a.lean(sz), e.k)
	case "low":
		return fmt.Sprintf("(.low %d %s)", e.k, e.a.lean(sz))
	case "and", "or", "xor", "eq", "ne", "ctEq", "ctNe", "ctLt", "ctLe", "ctMin", "accAdd":
		return fmt.Sprintf("(.%s %s %s)", e.op, e.a.lean(sz), e.b.lean(sz))
	case "not", "neg", "conv":
		return fmt.Sprintf("(.%s %d %s)", e.op, e.w, e.a.lean(sz))
	}
	panic("bad op " + e.op)
}

// shallow renders e exactly as Secp.IR.evalN computes it, over variables x<i> (inputs) and v<i> (SSA entries).
func (e *E) shallow(nin int) string {
	v := func(i int) string {
		if i < nin {
			return fmt.Sprintf("x%d", i)
		}
		return fmt.Sprintf("v%d", i)
	}
	a := func() string { return e.a.shallow(nin) }
	b := func() string { return e.b.shallow(nin) }
	switch e.op {
	case "var":
		return v(e.i)
	case "const":
		return e.n.String()
	case "add", "accAdd":
		return "(" + a() + " + " + b() + ")"
	case "sub":
		return "(" + a() + " - " + b() + ")"
	case "mul":
		return "(" + a() + " * " + b() + ")"
	case "shr":
		return fmt.Sprintf("(%s / 2 ^ %d)", a(), e.k)
	case "shl":
		return fmt.Sprintf("(%s * 2 ^ %d)", a(), e.k)
	case "low":
		return fmt.Sprintf("(%s %% 2 ^ %d)", a(), e.k)
	case "and":
		return "(" + a() + " &&& " + b() + ")"
	case "or":
		return "(" + a() + " ||| " + b() + ")"
	case "xor":
		return "(" + a() + " ^^^ " + b() + ")"
	case "not":
		return fmt.Sprintf("(2 ^ %d - 1 - %s)", e.w, a())
	case "neg":
		return fmt.Sprintf("((2 ^ %d - %s %% 2 ^ %d) %% 2 ^ %d)", e.w, a(), e.w, e.w)
	case "conv":
		return fmt.Sprintf("(%s %% 2 ^ %d)", a(), e.w)
	case "eq", "ctEq":
		return "(b2n (" + a() + " == " + b() + "))"
	case "ne", "ctNe":
		return "(b2n (" + a() + " != " + b() + "))"
	case "ctLt":
		return "(b2n (decide (" + a() + " < " + b() + ")))"
	case "ctLe":
		return "(b2n (decide (" + a() + " ≤ " + b() + ")))"
	case "ctMin":
		return "(min " + a() + " " + b() + ")"
	}
	panic("bad op " + e.op)
}

// renderShallow emits  theorem <name>_shallow : ∃ v…, (equations) ∧ K.runN [x…] = [outs]
func (k *kernel) renderShallow(leanName string) string {
	nin := len(k.inW)
	var sb strings.Builder
	xs := make([]string, nin)
	for i := range xs {
		xs[i] = fmt.Sprintf("x%d", i)
	}
	fmt.Fprintf(&sb, "theorem %s_shallow (%s : Nat) :\n", leanName, strings.Join(xs, " "))
	if len(k.body) > 0 {
		vs := make([]string, len(k.body))
		for i := range vs {
			vs[i] = fmt.Sprintf("v%d", nin+i)
		}
		fmt.Fprintf(&sb, "    ∃ %s : Nat,\n", strings.Join(vs, " "))
		for i, e := range k.body {
			fmt.Fprintf(&sb, "      v%d = %s ∧\n", nin+i, strip(e.shallow(nin)))
		}
	}
	outs := make([]string, len(k.outs))
	for i, o := range k.outs {
		outs[i] = strip(o.shallow(nin))
	}
	fmt.Fprintf(&sb, "      %s.runN [%s] = [%s] := by\n", leanName, strings.Join(xs, ", "), strings.Join(outs, ", "))
	if len(k.body) > 0 {
		us := make([]string, len(k.body))
		rs := make([]string, len(k.body)+1)
		for i := range us {
			us[i] = "_"
			rs[i] = "rfl"
		}
		rs[len(k.body)] = "rfl"
		fmt.Fprintf(&sb, "  exact ⟨%s, %s⟩\n\n", strings.Join(us, ", "), strings.Join(rs, ", "))
	} else {
		sb.WriteString("  rfl\n\n")
	}
	return sb.String()
}

func konst(n int64) *E       { return &E{op: "const", n: big.NewInt(n)} }
func konstBig(n *big.Int) *E { return &E{op: "const", n: new(big.Int).Set(n)} }

type object struct {
	kind  string // limbs10 limbs8 bytes acc
	name  string
	slots []*E
	acc   *E
	// bookkeeping for alias-safety and outputs
	firstWrite []int
	lastRead   []int
	isInput    bool
}

type kernel struct {
	sigIn    []string // per input: "o<k>:<i>" (slot i of k-th object) or "s<k>" (k-th scalar)
	sigOut   []string // per output: "o<k>:<i>" or "ret"
	nScal    int
	name     string
	p        *Pkg
	prim     bool
	body     []*E
	inW      []int    // width of each input
	inNames  []string // description of each input
	outs     []*E
	outNames []string
	clock    int
	err      error
	objOrder []*object
}

type scope struct {
	locals map[types.Object]*E
	objs   map[types.Object]*object
	ret    *E
	rets   []*E // multi-value return of an inlined helper (mulAdd64 …)
	retObj *object
	done   bool
}

func (k *kernel) fail(n ast.Node, format string, a ...any) {
	if k.err == nil {
		k.err = fmt.Errorf("%s: %s: %s", k.name, k.p.pos(n), fmt.Sprintf(format, a...))
	}
}

func (k *kernel) emit(e *E) *E {
	if e == nil { // the expression was outside the subset (k.err is set): keep going, the kernel is rejected at the end
		return &E{op: "const"}
	}
	if e.op == "var" || e.op == "const" {
		return e
	}
	k.body = append(k.body, e)
	return &E{op: "var", i: len(k.inW) + len(k.body) - 1}
}

func widthOf(t types.Type) int {
	if b, ok := t.Underlying().(*types.Basic); ok {
		switch b.Kind() {
		case types.Uint8:
			return 8
		case types.Uint16:
			return 16
		case types.Uint32:
			return 32
		case types.Uint64:
			return 64
		case types.Bool, types.UntypedBool:
			return 1
		}
	}
	return 0
}

func objKind(t types.Type) string {
	if p, ok := t.(*types.Pointer); ok {
		t = p.Elem()
	}
	if n, ok := t.(*types.Named); ok {
		switch n.Obj().Name() {
		case "FieldVal":
			return "limbs10"
		case "ModNScalar":
			return "limbs8"
		case "accumulator96":
			return "acc"
		}
	}
	if a, ok := t.Underlying().(*types.Array); ok {
		if widthOf(a.Elem()) == 8 {
			return fmt.Sprintf("bytes%d", a.Len())
		}
	}
	if s, ok := t.Underlying().(*types.Slice); ok {
		if widthOf(s.Elem()) == 8 {
			return "bytes32" // every []byte a kernel indexes is a 32-byte window (checked by constant indices < 32)
		}
	}
	return ""
}

func slotCount(kind string) (int, int) {
	switch kind {
	case "limbs10":
		return 10, 32
	case "limbs8":
		return 8, 32
	case "bytes32":
		return 32, 8
	}
	return 0, 0
}

func (k *kernel) newInputObject(kind, name string) *object {
	n, w := slotCount(kind)
	o := &object{kind: kind, name: name, isInput: true}
	for i := 0; i < n; i++ {
		o.slots = append(o.slots, &E{op: "var", i: len(k.inW)})
		k.inW = append(k.inW, w)
		k.inNames = append(k.inNames, fmt.Sprintf("%s[%d]", name, i))
		k.sigIn = append(k.sigIn, fmt.Sprintf("o%d:%d", len(k.objOrder), i))
		o.firstWrite = append(o.firstWrite, -1)
		o.lastRead = append(o.lastRead, -1)
	}
	k.objOrder = append(k.objOrder, o)
	return o
}

func (k *kernel) newLocalObject(kind, name string) *object {
	o := &object{kind: kind, name: name}
	if kind == "acc" {
		o.acc = konst(0)
		return o
	}
	n, _ := slotCount(kind)
	for i := 0; i < n; i++ {
		o.slots = append(o.slots, konst(0))
		o.firstWrite = append(o.firstWrite, -1)
		o.lastRead = append(o.lastRead, -1)
	}
	return o
}

// ---- expression translation

func (k *kernel) constOf(e ast.Expr) *E {
	tv, ok := k.p.info.Types[e]
	if !ok || tv.Value == nil {
		return nil
	}
	if tv.Value.Kind() != constant.Int {
		return nil
	}
	bi, ok := constant.Val(tv.Value).(*big.Int)
	if !ok {
		i64, _ := constant.Int64Val(tv.Value)
		bi = big.NewInt(i64)
	}
	if bi.Sign() < 0 {
		return nil
	}
	return konstBig(bi)
}

func isMask(n *big.Int) int {
	// n = 2^k - 1 ?
	m := new(big.Int).Add(n, big.NewInt(1))
	if m.Sign() > 0 && new(big.Int).And(m, n).Sign() == 0 {
		return m.BitLen() - 1
	}
	return -1
}

func (k *kernel) expr(sc *scope, e ast.Expr) *E {
	if k.err != nil {
		return konst(0)
	}
	if c := k.constOf(e); c != nil {
		return c
	}
	switch x := e.(type) {
	case *ast.ParenExpr:
		return k.expr(sc, x.X)
	case *ast.Ident:
		obj := k.p.info.Uses[x]
		if v, ok := sc.locals[obj]; ok {
			return v
		}
		k.fail(x, "identifier %s is not an integer local", x.Name)
	case *ast.UnaryExpr:
		w := widthOf(k.p.info.Types[e].Type)
		a := k.expr(sc, x.X)
		switch x.Op {
		case token.XOR:
			return &E{op: "not", w: w, a: a}
		case token.SUB:
			return &E{op: "neg", w: w, a: a}
		}
		k.fail(x, "unary %s", x.Op)
	case *ast.BinaryExpr:
		t := k.p.info.Types[e].Type
		w := widthOf(t)
		switch x.Op {
		case token.SHL, token.SHR:
			c := k.constOf(x.Y)
			if c == nil {
				k.fail(x, "variable shift count")
				return konst(0)
			}
			a := k.expr(sc, x.X)
			if x.Op == token.SHR {
				return &E{op: "shr", a: a, k: int(c.n.Int64())}
			}
			return &E{op: "shl", w: w, a: a, k: int(c.n.Int64())}
		case token.EQL, token.NEQ:
			a, b := k.expr(sc, x.X), k.expr(sc, x.Y)
			if x.Op == token.EQL {
				return &E{op: "eq", a: a, b: b}
			}
			return &E{op: "ne", a: a, b: b}
		}
		a, b := k.expr(sc, x.X), k.expr(sc, x.Y)
		if w == 0 {
			k.fail(x, "binary op on non-integer type %s", t)
			return konst(0)
		}
		switch x.Op {
		case token.ADD:
			return &E{op: "add", w: w, a: a, b: b}
		case token.SUB:
			return &E{op: "sub", w: w, a: a, b: b}
		case token.MUL:
			return &E{op: "mul", w: w, a: a, b: b}
		case token.AND:
			if b.op == "const" {
				if kk := isMask(b.n); kk >= 0 {
					return &E{op: "low", k: kk, a: a}
				}
			}
			if a.op == "const" {
				if kk := isMask(a.n); kk >= 0 {
					return &E{op: "low", k: kk, a: b}
				}
			}
			return &E{op: "and", a: a, b: b}
		case token.OR:
			return &E{op: "or", a: a, b: b}
		case token.XOR:
			return &E{op: "xor", a: a, b: b}
		}
		k.fail(x, "binary op %s", x.Op)
	case *ast.IndexExpr:
		o, idx := k.slotRef(sc, x)
		if o == nil {
			return konst(0)
		}
		if o.kind == "acc" {
			if idx != 0 {
				k.fail(x, "accumulator word %d read directly", idx)
			}
			return &E{op: "conv", w: 32, a: o.acc}
		}
		o.lastRead[idx] = k.clock
		return o.slots[idx]
	case *ast.CallExpr:
		return k.call(sc, x)
	}
	k.fail(e, "expression %T outside the T1 subset", e)
	return konst(0)
}

// slotRef resolves  obj.n[c]  or  b[c]  to (object, index)
func (k *kernel) slotRef(sc *scope, x *ast.IndexExpr) (*object, int) {
	c := k.constOf(x.Index)
	if c == nil {
		k.fail(x, "non-constant index")
		return nil, 0
	}
	idx := int(c.n.Int64())
	var base ast.Expr = x.X
	if sel, ok := base.(*ast.SelectorExpr); ok {
		if sel.Sel.Name != "n" {
			k.fail(x, "field %s", sel.Sel.Name)
			return nil, 0
		}
		base = sel.X
	}
	id, ok := base.(*ast.Ident)
	if !ok {
		k.fail(x, "indexed base %T", base)
		return nil, 0
	}
	o, ok := sc.objs[k.p.info.Uses[id]]
	if !ok {
		k.fail(x, "%s is not a known object", id.Name)
		return nil, 0
	}
	if o.kind != "acc" && idx >= len(o.slots) {
		k.fail(x, "index %d out of range for %s", idx, o.kind)
		return nil, 0
	}
	return o, idx
}

var primOf = map[string]string{
	"constantTimeEq": "ctEq", "constantTimeNotEq": "ctNe", "constantTimeLess": "ctLt",
	"constantTimeLessOrEq": "ctLe", "constantTimeMin": "ctMin",
}

func (k *kernel) call(sc *scope, x *ast.CallExpr) *E {
	// conversion?
	if tv, ok := k.p.info.Types[x.Fun]; ok && tv.IsType() {
		if len(x.Args) != 1 {
			k.fail(x, "conversion arity")
			return konst(0)
		}
		tw := widthOf(tv.Type)
		sw := widthOf(k.p.info.Types[x.Args[0]].Type)
		a := k.expr(sc, x.Args[0])
		if tw == 0 || sw == 0 {
			k.fail(x, "conversion between non-integer types")
			return konst(0)
		}
		if tw >= sw {
			return a // widening: identity
		}
		return &E{op: "conv", w: tw, a: a}
	}
	var fd *ast.FuncDecl
	var recvObj *object
	switch f := x.Fun.(type) {
	case *ast.Ident:
		fd = k.p.funcs[f.Name]
		if k.prim {
			if pr, ok := primOf[f.Name]; ok && len(x.Args) == 2 {
				return &E{op: pr, a: k.expr(sc, x.Args[0]), b: k.expr(sc, x.Args[1])}
			}
		}
	case *ast.SelectorExpr:
		id, ok := f.X.(*ast.Ident)
		if !ok {
			k.fail(x, "method call on %T", f.X)
			return konst(0)
		}
		o, ok := sc.objs[k.p.info.Uses[id]]
		if !ok {
			k.fail(x, "method call on unknown object %s", id.Name)
			return konst(0)
		}
		recvObj = o
		tn := map[string]string{"limbs10": "FieldVal", "limbs8": "ModNScalar", "acc": "accumulator96"}[o.kind]
		fd = k.p.funcs[tn+"."+f.Sel.Name]
		if o.kind == "acc" && k.prim {
			switch f.Sel.Name {
			case "Add":
				v := k.expr(sc, x.Args[0])
				o.acc = k.emit(&E{op: "accAdd", a: o.acc, b: v})
				return nil
			case "Rsh32":
				o.acc = k.emit(&E{op: "shr", a: o.acc, k: 32})
				return nil
			}
		}
	}
	if fd == nil {
		k.fail(x, "call to a function outside the package subset")
		return konst(0)
	}
	return k.inline(sc, fd, recvObj, x)
}

// callMulti: calls with two results.  math/bits intrinsics are given their documented meaning with
// 128-bit intermediate values, so that the ideal semantics is exact:
//
//	hi, lo = bits.Mul64(a, b)      p = a*b;        hi = p >> 64, lo = p mod 2^64
//	s, c   = bits.Add64(a, b, ci)  t = a + b + ci; s = t mod 2^64, c = t >> 64
func (k *kernel) callMulti(sc *scope, x *ast.CallExpr) []*E {
	if sel, ok := x.Fun.(*ast.SelectorExpr); ok {
		if id, ok := sel.X.(*ast.Ident); ok {
			if pn, ok := k.p.info.Uses[id].(*types.PkgName); ok && pn.Imported().Path() == "math/bits" {
				switch sel.Sel.Name {
				case "Mul64":
					if len(x.Args) != 2 {
						k.fail(x, "bits.Mul64 arity")
						return nil
					}
					p := k.emit(&E{op: "mul", w: 128, a: k.expr(sc, x.Args[0]), b: k.expr(sc, x.Args[1])})
					return []*E{k.emit(&E{op: "shr", a: p, k: 64}), k.emit(&E{op: "conv", w: 64, a: p})}
				case "Add64":
					if len(x.Args) != 3 {
						k.fail(x, "bits.Add64 arity")
						return nil
					}
					t := k.emit(&E{op: "add", w: 128, a: &E{op: "add", w: 128, a: k.expr(sc, x.Args[0]), b: k.expr(sc, x.Args[1])}, b: k.expr(sc, x.Args[2])})
					return []*E{k.emit(&E{op: "conv", w: 64, a: t}), k.emit(&E{op: "shr", a: t, k: 64})}
				}
				k.fail(x, "math/bits.%s outside the T1 subset", sel.Sel.Name)
				return nil
			}
		}
	}
	id, ok := x.Fun.(*ast.Ident)
	if !ok {
		k.fail(x, "multi-value call of %T", x.Fun)
		return nil
	}
	fd := k.p.funcs[id.Name]
	if fd == nil || fd.Recv != nil {
		k.fail(x, "multi-value call to a function outside the package subset")
		return nil
	}
	ns := &scope{locals: map[types.Object]*E{}, objs: map[types.Object]*object{}}
	ai := 0
	for _, fld := range fd.Type.Params.List {
		for _, nm := range fld.Names {
			if ai >= len(x.Args) {
				k.fail(x, "arity")
				return nil
			}
			pobj := k.p.info.Defs[nm]
			if widthOf(pobj.Type()) == 0 {
				k.fail(x, "parameter %s of unsupported type %s", nm.Name, pobj.Type())
				return nil
			}
			ns.locals[pobj] = k.emit(k.expr(sc, x.Args[ai]))
			ai++
		}
	}
	if fd.Type.Results != nil {
		for _, fld := range fd.Type.Results.List {
			for _, nm := range fld.Names {
				ns.locals[k.p.info.Defs[nm]] = konst(0)
			}
		}
	}
	k.block(ns, fd.Body.List)
	return ns.rets
}

func (k *kernel) inline(sc *scope, fd *ast.FuncDecl, recvObj *object, x *ast.CallExpr) *E {
	ns := &scope{locals: map[types.Object]*E{}, objs: map[types.Object]*object{}}
	if fd.Recv != nil && len(fd.Recv.List[0].Names) > 0 {
		ns.objs[k.p.info.Defs[fd.Recv.List[0].Names[0]]] = recvObj
	}
	ai := 0
	for _, fld := range fd.Type.Params.List {
		for _, nm := range fld.Names {
			if ai >= len(x.Args) {
				k.fail(x, "arity")
				return konst(0)
			}
			arg := x.Args[ai]
			ai++
			pobj := k.p.info.Defs[nm]
			if kind := objKind(pobj.Type()); kind != "" {
				o := k.objArg(sc, arg)
				if o == nil {
					return konst(0)
				}
				ns.objs[pobj] = o
			} else if widthOf(pobj.Type()) > 0 {
				ns.locals[pobj] = k.emit(k.expr(sc, arg))
			} else {
				k.fail(x, "parameter %s of unsupported type %s", nm.Name, pobj.Type())
				return konst(0)
			}
		}
	}
	k.block(ns, fd.Body.List)
	if ns.retObj != nil {
		return nil
	}
	return ns.ret
}

func (k *kernel) objArg(sc *scope, arg ast.Expr) *object {
	switch a := arg.(type) {
	case *ast.Ident:
		if o, ok := sc.objs[k.p.info.Uses[a]]; ok {
			return o
		}
	case *ast.UnaryExpr:
		if a.Op == token.AND {
			return k.objArg(sc, a.X)
		}
	case *ast.SliceExpr: // b[:]
		if a.Low == nil && a.High == nil {
			return k.objArg(sc, a.X)
		}
	}
	k.fail(arg, "object argument %T", arg)
	return nil
}

// ---- statements

func (k *kernel) assign(sc *scope, lhs ast.Expr, v *E, define bool) {
	switch l := lhs.(type) {
	case *ast.Ident:
		if l.Name == "_" {
			return
		}
		var obj types.Object
		if define {
			obj = k.p.info.Defs[l]
			if obj == nil {
				obj = k.p.info.Uses[l]
			}
		} else {
			obj = k.p.info.Uses[l]
		}
		if widthOf(obj.Type()) == 0 {
			k.fail(lhs, "assignment to non-integer %s", l.Name)
			return
		}
		sc.locals[obj] = k.emit(v)
	case *ast.IndexExpr:
		o, idx := k.slotRef(sc, l)
		if o == nil {
			return
		}
		if o.kind == "acc" {
			if idx != 0 {
				k.fail(lhs, "accumulator word %d written directly", idx)
				return
			}
			// acc.n[0] = v  :  A' = A - (A mod 2^32) + v
			if o.acc.op == "const" && o.acc.n.Sign() == 0 {
				o.acc = k.emit(v)
			} else {
				o.acc = k.emit(&E{op: "add", w: 96, a: &E{op: "sub", w: 96, a: o.acc, b: &E{op: "conv", w: 32, a: o.acc}}, b: v})
			}
			return
		}
		o.slots[idx] = k.emit(v)
		if o.firstWrite[idx] < 0 {
			o.firstWrite[idx] = k.clock
		}
	default:
		k.fail(lhs, "assignment target %T", lhs)
	}
}

var opOfAssign = map[token.Token]token.Token{
	token.ADD_ASSIGN: token.ADD, token.SUB_ASSIGN: token.SUB, token.MUL_ASSIGN: token.MUL,
	token.AND_ASSIGN: token.AND, token.OR_ASSIGN: token.OR, token.XOR_ASSIGN: token.XOR,
	token.SHL_ASSIGN: token.SHL, token.SHR_ASSIGN: token.SHR,
}

func (k *kernel) block(sc *scope, stmts []ast.Stmt) {
	for _, s := range stmts {
		if k.err != nil || sc.done {
			return
		}
		k.clock++
		switch st := s.(type) {
		case *ast.AssignStmt:
			if len(st.Lhs) > 1 && (st.Tok == token.ASSIGN || st.Tok == token.DEFINE) {
				// a, b = f(...)  (bits.Mul64 / bits.Add64 / a two-result helper)  or  a, b, c = x, y, z
				var vals []*E
				if len(st.Rhs) == 1 {
					call, ok := st.Rhs[0].(*ast.CallExpr)
					if !ok {
						k.fail(st, "multi-assignment from a non-call")
						return
					}
					vals = k.callMulti(sc, call)
				} else if len(st.Rhs) == len(st.Lhs) {
					for _, r := range st.Rhs {
						vals = append(vals, k.emit(k.expr(sc, r)))
					}
				}
				if len(vals) != len(st.Lhs) {
					if k.err == nil {
						k.fail(st, "multi-assignment arity")
					}
					return
				}
				for i, l := range st.Lhs {
					k.assign(sc, l, vals[i], st.Tok == token.DEFINE)
				}
				continue
			}
			if len(st.Lhs) != 1 || len(st.Rhs) != 1 {
				k.fail(st, "multi-assignment")
				return
			}
			if ls, ok := st.Lhs[0].(*ast.StarExpr); ok && st.Tok == token.ASSIGN {
				// *f = *val : whole-object copy
				rs, ok2 := st.Rhs[0].(*ast.StarExpr)
				if !ok2 {
					k.fail(st, "store through pointer")
					return
				}
				dst, src := k.objArg(sc, ls.X), k.objArg(sc, rs.X)
				if dst == nil || src == nil || dst.kind != src.kind {
					k.fail(st, "object copy between different kinds")
					return
				}
				for i := range dst.slots {
					src.lastRead[i] = k.clock
					dst.slots[i] = src.slots[i]
					if dst.firstWrite[i] < 0 {
						dst.firstWrite[i] = k.clock
					}
				}
				continue
			}
			if st.Tok == token.ASSIGN || st.Tok == token.DEFINE {
				k.assign(sc, st.Lhs[0], k.expr(sc, st.Rhs[0]), st.Tok == token.DEFINE)
			} else if bop, ok := opOfAssign[st.Tok]; ok {
				// x op= y  ≡  x = x op (y); type-check info for the synthetic node is not available, so build directly
				w := widthOf(k.p.info.Types[st.Lhs[0]].Type)
				a := k.expr(sc, st.Lhs[0])
				var v *E
				if bop == token.SHL || bop == token.SHR {
					c := k.constOf(st.Rhs[0])
					if c == nil {
						k.fail(st, "variable shift")
						return
					}
					if bop == token.SHR {
						v = &E{op: "shr", a: a, k: int(c.n.Int64())}
					} else {
						v = &E{op: "shl", w: w, a: a, k: int(c.n.Int64())}
					}
				} else {
					b := k.expr(sc, st.Rhs[0])
					switch bop {
					case token.ADD:
						v = &E{op: "add", w: w, a: a, b: b}
					case token.SUB:
						v = &E{op: "sub", w: w, a: a, b: b}
					case token.MUL:
						v = &E{op: "mul", w: w, a: a, b: b}
					case token.AND:
						if b.op == "const" && isMask(b.n) >= 0 {
							v = &E{op: "low", k: isMask(b.n), a: a}
						} else {
							v = &E{op: "and", a: a, b: b}
						}
					case token.OR:
						v = &E{op: "or", a: a, b: b}
					case token.XOR:
						v = &E{op: "xor", a: a, b: b}
					}
				}
				k.assign(sc, st.Lhs[0], v, false)
			} else {
				k.fail(st, "assignment operator %s", st.Tok)
			}
		case *ast.DeclStmt:
			gd := st.Decl.(*ast.GenDecl)
			if gd.Tok == token.CONST {
				continue
			}
			if gd.Tok != token.VAR {
				k.fail(st, "declaration %s", gd.Tok)
				return
			}
			for _, sp := range gd.Specs {
				vs := sp.(*ast.ValueSpec)
				for i, nm := range vs.Names {
					obj := k.p.info.Defs[nm]
					if kind := objKind(obj.Type()); kind != "" {
						sc.objs[obj] = k.newLocalObject(kind, nm.Name)
					} else if widthOf(obj.Type()) > 0 {
						if len(vs.Values) > i {
							sc.locals[obj] = k.emit(k.expr(sc, vs.Values[i]))
						} else {
							sc.locals[obj] = konst(0)
						}
					} else {
						k.fail(st, "local %s of unsupported type %s", nm.Name, obj.Type())
					}
				}
			}
		case *ast.ExprStmt:
			call, ok := st.X.(*ast.CallExpr)
			if !ok {
				k.fail(st, "expression statement")
				return
			}
			k.call(sc, call)
		case *ast.ReturnStmt:
			sc.done = true
			if len(st.Results) == 0 {
				return
			}
			if len(st.Results) > 1 {
				for _, r := range st.Results {
					if widthOf(k.p.info.Types[r].Type) == 0 {
						k.fail(st, "multiple results of non-integer type")
						return
					}
					sc.rets = append(sc.rets, k.emit(k.expr(sc, r)))
				}
				return
			}
			r := st.Results[0]
			// returning the receiver (chaining) or an integer
			if id, ok := r.(*ast.Ident); ok {
				if o, ok := sc.objs[k.p.info.Uses[id]]; ok {
					sc.retObj = o
					return
				}
			}
			if tv := k.p.info.Types[r]; objKind(tv.Type) != "" {
				// return f.Method(...) chaining
				if call, ok := r.(*ast.CallExpr); ok {
					k.call(sc, call)
					sc.retObj = &object{}
					return
				}
				k.fail(st, "object-valued return")
				return
			}
			sc.ret = k.emit(k.expr(sc, r))
		default:
			k.fail(s, "statement %T outside the T1 subset", s)
		}
	}
}

// translateKernel builds the IR of one top-level function.
func translateKernel(p *Pkg, key string, prim bool, leanName string) (*kernel, error) {
	fd := p.funcs[key]
	if fd == nil {
		return nil, fmt.Errorf("%s: function not found in source (renamed or removed)", key)
	}
	k := &kernel{name: key, p: p, prim: prim}
	sc := &scope{locals: map[types.Object]*E{}, objs: map[types.Object]*object{}}
	var recv *object
	if fd.Recv != nil && len(fd.Recv.List[0].Names) > 0 {
		nm := fd.Recv.List[0].Names[0]
		obj := p.info.Defs[nm]
		kind := objKind(obj.Type())
		if kind == "acc" {
			// literal translation of accumulator96 methods: three 32-bit words
			recv = &object{kind: "limbs3", name: nm.Name, isInput: true}
			for i := 0; i < 3; i++ {
				recv.slots = append(recv.slots, &E{op: "var", i: len(k.inW)})
				k.inW = append(k.inW, 32)
				k.inNames = append(k.inNames, fmt.Sprintf("%s[%d]", nm.Name, i))
				k.sigIn = append(k.sigIn, fmt.Sprintf("o0:%d", i))
				recv.firstWrite = append(recv.firstWrite, -1)
				recv.lastRead = append(recv.lastRead, -1)
			}
			k.objOrder = append(k.objOrder, recv)
		} else if kind != "" {
			recv = k.newInputObject(kind, nm.Name)
		} else {
			return nil, fmt.Errorf("%s: receiver type unsupported", key)
		}
		sc.objs[obj] = recv
	}
	for _, fld := range fd.Type.Params.List {
		for _, nm := range fld.Names {
			obj := p.info.Defs[nm]
			if kind := objKind(obj.Type()); kind != "" && kind != "acc" {
				sc.objs[obj] = k.newInputObject(kind, nm.Name)
			} else if w := widthOf(obj.Type()); w > 0 {
				sc.locals[obj] = &E{op: "var", i: len(k.inW)}
				k.inW = append(k.inW, w)
				k.inNames = append(k.inNames, nm.Name)
				k.sigIn = append(k.sigIn, fmt.Sprintf("s%d", k.nScal))
				k.nScal++
			} else {
				return nil, fmt.Errorf("%s: parameter %s of unsupported type %s", key, nm.Name, obj.Type())
			}
		}
	}
	k.block(sc, fd.Body.List)
	if k.err != nil {
		return nil, k.err
	}
	// outputs: every slot of every input object that was written, in object order; then the integer result
	for oi, o := range k.objOrder {
		for i, s := range o.slots {
			if o.firstWrite[i] >= 0 {
				k.outs = append(k.outs, s)
				k.outNames = append(k.outNames, fmt.Sprintf("%s[%d]", o.name, i))
				k.sigOut = append(k.sigOut, fmt.Sprintf("o%d:%d", oi, i))
			}
		}
	}
	if sc.retObj != nil && !sc.retObj.isInput && len(sc.retObj.slots) > 0 {
		// a result object built locally and returned by value (mul512Rsh320Round)
		for i, s := range sc.retObj.slots {
			k.outs = append(k.outs, s)
			k.outNames = append(k.outNames, fmt.Sprintf("result[%d]", i))
			k.sigOut = append(k.sigOut, fmt.Sprintf("r:%d", i))
		}
	}
	if sc.ret != nil {
		k.outs = append(k.outs, sc.ret)
		k.outNames = append(k.outNames, "ret")
		k.sigOut = append(k.sigOut, "ret")
	}
	return k, nil
}

// aliasSafe: calling with a parameter object identical to the receiver gives the same result as
// with a copy, i.e. no slot of a parameter is read after the same slot of the receiver was written.
func (k *kernel) aliasSafe() bool {
	if len(k.objOrder) < 2 {
		return true
	}
	recv := k.objOrder[0]
	for _, o := range k.objOrder[1:] {
		if o.kind != recv.kind {
			continue
		}
		for i := range o.slots {
			if recv.firstWrite[i] >= 0 && o.lastRead[i] > recv.firstWrite[i] {
				return false
			}
		}
	}
	return true
}

func (k *kernel) render(leanName string) string {
	var sb strings.Builder
	fmt.Fprintf(&sb, "/-- %s  (inputs: %s; outputs: %s) -/\n", k.name, strings.Join(k.inNames, " "), strings.Join(k.outNames, " "))
	fmt.Fprintf(&sb, "def %s : Kernel := {\n  name := %q\n  inW := [%s]\n  aliasSafe := %v\n  body := [\n", leanName, k.name, joinInts(k.inW), k.aliasSafe())
	for i, e := range k.body {
		sep := ","
		if i == len(k.body)-1 {
			sep = ""
		}
		fmt.Fprintf(&sb, "    %s%s\n", strip(e.lean(len(k.inW)+i)), sep)
	}
	sb.WriteString("  ]\n  outs := [")
	for i, o := range k.outs {
		if i > 0 {
			sb.WriteString(", ")
		}
		sb.WriteString(strip(o.lean(len(k.inW) + len(k.body))))
	}
	sb.WriteString("]\n}\n\n")
	return sb.String()
}

func strip(s string) string {
	if strings.HasPrefix(s, "(") && strings.HasSuffix(s, ")") {
		return s[1 : len(s)-1]
	}
	return s
}

func joinInts(a []int) string {
	s := make([]string, len(a))
	for i, v := range a {
		s[i] = fmt.Sprint(v)
	}
	return strings.Join(s, ", ")
}

type kspec struct {
	key  string
	lean string
	prim bool
}

var fieldKernels = []kspec{
	{"FieldVal.Zero", "Field_Zero", true}, {"FieldVal.Set", "Field_Set", true}, {"FieldVal.SetInt", "Field_SetInt", true},
	{"FieldVal.SetBytes", "Field_SetBytes", true}, {"FieldVal.Normalize", "Field_Normalize", true},
	{"FieldVal.PutBytesUnchecked", "Field_PutBytesUnchecked", true},
	{"FieldVal.IsZeroBit", "Field_IsZeroBit", true}, {"FieldVal.IsZero", "Field_IsZero", true},
	{"FieldVal.IsOneBit", "Field_IsOneBit", true}, {"FieldVal.IsOne", "Field_IsOne", true},
	{"FieldVal.IsOddBit", "Field_IsOddBit", true}, {"FieldVal.IsOdd", "Field_IsOdd", true},
	{"FieldVal.Equals", "Field_Equals", true}, {"FieldVal.NegateVal", "Field_NegateVal", true},
	{"FieldVal.AddInt", "Field_AddInt", true}, {"FieldVal.Add", "Field_Add", true}, {"FieldVal.Add2", "Field_Add2", true},
	{"FieldVal.MulInt", "Field_MulInt", true}, {"FieldVal.Mul2", "Field_Mul2", true}, {"FieldVal.SquareVal", "Field_SquareVal", true},
	{"FieldVal.IsGtOrEqPrimeMinusOrder", "Field_IsGtOrEqPrimeMinusOrder", true},
}

var scalarKernels = []kspec{
	{"constantTimeEq", "CT_Eq_lit", false}, {"constantTimeNotEq", "CT_NotEq_lit", false},
	{"constantTimeLess", "CT_Less_lit", false}, {"constantTimeLessOrEq", "CT_LessOrEq_lit", false},
	{"constantTimeGreater", "CT_Greater_lit", false}, {"constantTimeGreaterOrEq", "CT_GreaterOrEq_lit", false},
	{"constantTimeMin", "CT_Min_lit", false},
	{"accumulator96.Add", "Acc96_Add_lit", false}, {"accumulator96.Rsh32", "Acc96_Rsh32_lit", false},
	{"ModNScalar.Zero", "Scalar_Zero", true}, {"ModNScalar.SetInt", "Scalar_SetInt", true},
	{"ModNScalar.IsZeroBit", "Scalar_IsZeroBit", true}, {"ModNScalar.IsZero", "Scalar_IsZero", true},
	{"ModNScalar.overflows", "Scalar_overflows", true}, {"ModNScalar.reduce256", "Scalar_reduce256", true},
	{"ModNScalar.SetBytes", "Scalar_SetBytes", true}, {"ModNScalar.PutBytesUnchecked", "Scalar_PutBytesUnchecked", true},
	{"ModNScalar.IsOdd", "Scalar_IsOdd", true}, {"ModNScalar.Equals", "Scalar_Equals", true},
	{"ModNScalar.Add2", "Scalar_Add2", true}, {"ModNScalar.reduce385", "Scalar_reduce385", true},
	{"ModNScalar.reduce512", "Scalar_reduce512", true}, {"ModNScalar.Mul2", "Scalar_Mul2", true},
	{"ModNScalar.NegateVal", "Scalar_NegateVal", true}, {"ModNScalar.IsOverHalfOrder", "Scalar_IsOverHalfOrder", true},
	// curve.go: the 256x256 -> 512-bit product, shifted right by 320 with rounding, that splitK estimates with
	{"mul512Rsh320Round", "Scalar_mul512Rsh320Round", true},
}

type kernelSig struct {
	Name  string   `json:"name"`
	Lean  string   `json:"lean"`
	Kinds []string `json:"kinds"`
	In    []string `json:"in"`
	InW   []int    `json:"inw"`
	Out   []string `json:"out"`
}

func passKernels(p *Pkg) (map[string]string, []string) {
	var errs []string
	out := map[string]string{}
	var sigs []kernelSig
	gen := func(file, ns string, specs []kspec) {
		var sb, sh strings.Builder
		sb.WriteString("import Secp.Core.IR\n/- GENERATED by tools/gotr (pass T1) from /repo — do not edit. -/\nnamespace Secp.Gen\nopen Secp.IR\n\n")
		fmt.Fprintf(&sh, "import Secp.Gen.%s\n/- GENERATED by tools/gotr (pass T1): the ideal (ℕ) semantics of each kernel written out as equations,\n   tied to the deep embedding by `rfl` (checked by the kernel). -/\nset_option maxRecDepth 100000\nnamespace Secp.Gen\nopen Secp.IR\n\n", strings.TrimSuffix(file, ".lean"))
		var names []string
		for _, s := range specs {
			k, err := translateKernel(p, s.key, s.prim, s.lean)
			if err != nil {
				errs = append(errs, err.Error())
				continue
			}
			sb.WriteString(k.render(s.lean))
			sh.WriteString(k.renderShallow(s.lean))
			names = append(names, s.lean)
			var kinds []string
			for _, o := range k.objOrder {
				kinds = append(kinds, o.kind)
			}
			sigs = append(sigs, kernelSig{k.name, s.lean, kinds, k.sigIn, k.inW, k.sigOut})
		}
		sort.Strings(names)
		fmt.Fprintf(&sb, "def %sKernels : List Kernel := [%s]\n\nend Secp.Gen\n", ns, strings.Join(names, ", "))
		out[file] = sb.String()
		sh.WriteString("end Secp.Gen\n")
		_ = sh // shallow rendering superseded by the generic `Steps` unfolding in Core/IRTactic.lean
	}
	gen("FieldIR.lean", "field", fieldKernels)
	gen("ScalarIR.lean", "scalar", scalarKernels)
	jb, _ := json.MarshalIndent(sigs, "", " ")
	out["kernels.json"] = string(jb)
	return out, errs
}
