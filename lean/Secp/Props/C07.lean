import Secp.Proofs.FrontExport
import Secp.Proofs.DriversCompact
import Secp.Proofs.DriversRecover
import Secp.Proofs.DriversBrute
import Secp.Proofs.Ecdsa
import Secp.Props.C03
import Secp.Proofs.Slices
import Secp.Proofs.BytesProgSig
/-
  Props/C07 — public-key recovery returns the signer's key in every signature form.
  Model: `recoverM`, `exportM`, `exportCompactM`, `parseCompactM`.  Spec: `ecdsaRecover` (SEC1 §4.1.6).
-/
namespace Secp.Props.C07
open Secp.Spec Secp.Model

/-- for arbitrary (r, s, code, hash) recovery succeeds exactly when the textbook procedure does, with the same key -/
theorem recover_iff (hp : PointSpec) (h : Bytes) (r s v : Nat) (hr0 : 0 < r) (hr : r < N) (hs : s < N) (hv : v < 4) :
    (match recoverM h r s v with | .ok q => some q | .error _ => none) = ecdsaRecover h r s v :=
  Secp.Proofs.Ecdsa.recover_iff hp h r s v hr0 hr hs hv

/-- `RecoverPublicKey` on a signature built without a code is the documented API-misuse panic, nothing else panics -/
theorem recover_panic_iff (h : Bytes) (r s v : Nat) : recoverM h r s v = .error .Panic ↔ v = 0xff :=
  Secp.Proofs.Ecdsa.recover_panic_iff h r s v

/-- Export normalises s and the code together: high s ↦ (N − s, code xor 1), low s unchanged -/
theorem export_spec (r s v : Nat) (hs : s < N) :
    exportM r s v = if s > halfN then (r, N - s, v ^^^ 1) else (r, s, v) :=
  Secp.Proofs.Ecdsa.export_spec r s v hs

/-- both compact layouts carry exactly Export's (r, s, code) -/
theorem exportCompact_spec (r s v off : Nat) (first : Bool) :
    exportCompactM r s v first off =
      (let e := exportM r s v
       if first then UInt8.ofNat ((e.2.2 + off) % 256) :: be32 e.1 ++ be32 e.2.1
       else be32 e.1 ++ be32 e.2.1 ++ [UInt8.ofNat ((e.2.2 + off) % 256)]) := rfl

/-- compact parse ∘ export (header offset 27 or 31) returns Export's triple, for every scalar pair in range -/
theorem parse_exportCompact (r s v : Nat) (comp : Bool) (hr0 : 0 < r) (hr : r < N) (hs0 : 0 < s) (hs : s < N) (hv : v < 4) :
    parseCompactM (exportCompactM r s v true (if comp then 31 else 27)) =
      .ok ((exportM r s v).1, (exportM r s v).2.1, (exportM r s v).2.2, comp) :=
  Secp.Proofs.Ecdsa.parse_exportCompact r s v comp hr0 hr hs0 hs hv

/-! ### unconditional form -/

theorem recover_iff_unconditional (h : Bytes) (r s v : Nat) (hr0 : 0 < r) (hr : r < N) (hs : s < N) (hv : v < 4) :
    (match recoverM h r s v with | .ok q => some q | .error _ => none) = ecdsaRecover h r s v :=
  recover_iff Secp.Props.C03.pointSpec h r s v hr0 hr hs hv


/-- Limb level of this property's own functions: the REGENERATED sliced field programs (tools/gotr pass T2s,
    `Secp.Gen.Slices`) of `RecoverPublicKey` (r+n handling, DecompressY, the normalisations before the point is built, infinity test, ToAffine) pass the abstract interpreter on every path — no magnitude overflow, every
    comparison / parity test / serialisation reads a normalised value, every callee's precondition holds,
    every returned key or point is normalised.  Together with C05 (kernels) and C16 (`absPath_sound`,
    `contracts_justified`) this is what makes the value-level model above faithful to the limb code. -/
theorem recover_field_arithmetic_exact :
    Secp.Proofs.Slices.entriesOK ["github.com/ModChain/secp256k1.Signature.RecoverPublicKey", "github.com/ModChain/secp256k1.RecoverCompact", "github.com/ModChain/secp256k1.Signature.BruteforceRecoveryCode", "github.com/ModChain/secp256k1.modNScalarToField"] = true := by decide +kernel


/-! ### ParseCompactSignature as REGENERATED from signature.go (tools/gotr pass T7) -/

/-- the statement-by-statement translation of `ParseCompactSignature` (length check, header range 27..34, `- 27` on the byte,
    compressed flag `&& 4`, recovery code `&& 3`, the two scalar decodings with their overflow / zero checks, the flag that
    travels with every error) never panics and is the hand-written model `parseCompactM` used by the theorems above -/
theorem parseCompact_regenerated (b : Bytes) :
    Secp.Gen.BytesProg.parseCompact b = Secp.Proofs.BytesProgSig.ofExcept (parseCompactM b) :=
  Secp.Proofs.BytesProgSig.parseCompact_gen_eq_model b

/-! ### Regenerated drivers (tools/gotr pass T8)

`Secp.Gen.Drivers` is REGENERATED from /repo on every check run: the Go functions below translated
statement by statement into Lean terms over the value-level primitives.  The theorems say the
regenerated definitions EQUAL the hand-written models the theorems above are about. -/

/-- `Signature.Export` regenerated = `exportM` (r below 2^256, which every scalar is; no bound on s is needed) -/
theorem export_regenerated (r s v : Nat) (hr : r < 2 ^ 256) : Secp.Gen.Drivers.exportGen (r, s, v) = exportM r s v :=
  Secp.Proofs.FrontExport.export_regenerated r s v hr

/-- `Signature.ExportCompact` regenerated = `exportCompactM` for every code and offset -/
theorem exportCompact_regenerated (r s v off : Nat) (first : Bool) :
    Secp.Gen.Drivers.exportCompact (r, s, v) first off = exportCompactM r s v first off :=
  Secp.Proofs.DriversCompact.exportCompact_regenerated r s v off first


/-- `RecoverCompact` regenerated: the parser followed by `RecoverPublicKey`, flag passed through -/
theorem recoverCompact_front (sig h : Bytes) :
    Secp.Gen.Drivers.recoverCompact sig h =
      (match parseCompactM sig with
       | .error (e, _) => DR.err e
       | .ok (r, s, c, comp) =>
         match Secp.Gen.Drivers.recoverPublicKey (r, s, c) h with
         | .ok pk => DR.ok (pk, comp)
         | .err e => DR.err e | .panic => DR.panic | .fuel => DR.fuel | .undef => DR.undef) :=
  Secp.Proofs.FrontExport.recoverCompact_front sig h


/-- `Signature.RecoverPublicKey` (signature.go) regenerated — the panic on a missing code, the overflow-bit branch with
    its r < P−N guard, `DecompressY`, the two scalar multiplications, the infinity check — = `recoverM`, for every
    r < N, s, code and hash -/
theorem recoverPublicKey_regenerated (r s v : Nat) (h : Bytes) (hr : r < N) :
    Secp.Gen.Drivers.recoverPublicKey (r, s, v) h =
      (match recoverM h r s v with
       | .ok p => DR.ok p
       | .error .Panic => DR.panic
       | .error .ErrSigOverflowsPrime => DR.err SigErr.ErrSigOverflowsPrime
       | .error .ErrPointNotOnCurve => DR.err SigErr.ErrPointNotOnCurve) :=
  Secp.Proofs.DriversRecover.recoverPublicKey_regenerated r s v h hr

/-- `Signature.BruteforceRecoveryCode` regenerated: it always terminates normally, finds the FIRST code 0..3 whose
    recovery yields the key (overflow codes included), leaves that code — or 0xff — in the object, and does not depend
    on the code the object held before -/
theorem bruteforce_regenerated (r s v : Nat) (h : Bytes) (Q : Nat × Nat) (hr : r < N) :
    Secp.Gen.Drivers.bruteforceRecoveryCode (r, s, v) h Q =
      DR.ok ((bruteforceM h r s Q).1, (r, s, (bruteforceM h r s Q).2)) :=
  Secp.Proofs.DriversBrute.bruteforce_regenerated
    (fun r s v h hr => Secp.Proofs.DriversRecover.recoverPublicKey_regenerated r s v h hr) r s v h Q hr

end Secp.Props.C07
