//go:build verif

package main

import (
	"bytes"
	"math/big"

	secp "github.com/ModChain/secp256k1"
	"github.com/ModChain/secp256k1/schnorr"
)

func pubXY(p *secp.PublicKey) string {
	u := p.SerializeUncompressed()
	return hx(u[1:33]) + " " + hx(u[33:65])
}

func init() {
	opImpl["pubkey_parse"] = func(a []string) string {
		b := unhx(a[0])
		return withArgsCheck([][]byte{b}, func() string {
			k, err := secp.ParsePubKey(b)
			if err != nil {
				return "err " + errKind(err)
			}
			if !k.IsOnCurve() {
				return "ok-OFF-CURVE " + pubXY(k)
			}
			return "ok " + pubXY(k)
		})
	}
	// parse, then both serialisations, then re-parse both and compare
	opImpl["pubkey_roundtrip"] = func(a []string) string {
		b := unhx(a[0])
		k, err := secp.ParsePubKey(b)
		if err != nil {
			return "err " + errKind(err)
		}
		c, u := k.SerializeCompressed(), k.SerializeUncompressed()
		k2, e2 := secp.ParsePubKey(c)
		k3, e3 := secp.ParsePubKey(u)
		if e2 != nil || e3 != nil || !k.IsEqual(k2) || !k.IsEqual(k3) {
			return "ROUNDTRIP-MISMATCH"
		}
		// the key keeps nothing of the input and hands out memory of its own; IsOnCurve holds for every parsed key
		for i := range b {
			b[i] ^= 0x5a
		}
		if !bytes.Equal(k.SerializeCompressed(), c) {
			return "KEY-ALIASES-INPUT"
		}
		if m := scribbleStable("SerializeCompressed", func() []byte { return k.SerializeCompressed() }); m != "" {
			return m
		}
		if m := scribbleStable("SerializeUncompressed", func() []byte { return k.SerializeUncompressed() }); m != "" {
			return m
		}
		if !k.IsOnCurve() || !k2.IsOnCurve() || !k3.IsOnCurve() {
			return "PARSED-KEY-REPORTED-OFF-CURVE"
		}
		return "ok " + hx(c) + " " + hx(u)
	}
	opImpl["schnorr_pubkey_parse"] = func(a []string) string {
		var b []byte
		if a[0] != "nil" {
			b = unhx(a[0])
			if b == nil {
				b = []byte{}
			}
		}
		k, err := schnorr.ParsePubKey(b)
		if err != nil {
			kind := errKind(err)
			if len(kind) > 6 && kind[:6] == "other:" {
				switch {
				case b == nil:
					kind = "SchnorrNil"
				case len(b) != 33:
					kind = "SchnorrBadSize"
				default:
					kind = "SchnorrWrongType"
				}
			}
			return "err " + kind
		}
		return "ok " + pubXY(k)
	}
	generators["C08"] = genC08
}

func (h *H) randPoint() (x, y []byte) {
	for {
		k := secp.PrivKeyFromBytes(h.randBytes(32))
		if k.Key.IsZero() {
			continue
		}
		u := k.PubKey().SerializeUncompressed()
		return u[1:33], u[33:65]
	}
}

// an x < P with no point on the curve
func (h *H) nonResidueX() []byte {
	for {
		b := h.randBytes(32)
		b[0] &= 0x7f
		cb := append([]byte{2}, b...)
		if _, err := secp.ParsePubKey(cb); err != nil && errKind(err) == "ErrPubKeyNotOnCurve" {
			return b
		}
	}
}

// overP: 32-byte values in [P, 2^256): P+j for small j (about half of them reduce to an abscissa of the
// curve), the top of the range, and random ones
func (h *H) overP() [][]byte {
	var out [][]byte
	top := new(big.Int).Lsh(big.NewInt(1), 256)
	span := new(big.Int).Sub(top, curveP)
	for j := int64(0); j < 10; j++ {
		out = append(out, be32(new(big.Int).Add(curveP, big.NewInt(j))))
	}
	for j := int64(1); j < 4; j++ {
		out = append(out, be32(new(big.Int).Sub(top, big.NewInt(j))))
	}
	for j := 0; j < 4; j++ {
		out = append(out, be32(new(big.Int).Add(curveP, new(big.Int).Rand(h.rng, span))))
	}
	return out
}

// keysWithSpecialX: encodings of curve points whose x is tiny, sits in [N, P), is just below P or has cleared /
// saturated limb windows - every parser, both compressed tags and the uncompressed form
func (h *H) keysWithSpecialX(n int) {
	for _, pt := range h.pointsWithSpecialX(n) {
		x, y := be32(pt[0]), be32(pt[1])
		tag := byte(2 + y[31]&1)
		enc := append([]byte{tag}, x...)
		h.do("special-x", "pubkey_parse", hx(enc))
		h.do("special-x", "pubkey_roundtrip", hx(enc))
		h.do("special-x", "schnorr_pubkey_parse", hx(enc))
		h.do("special-x", "pubkey_parse", hx(append(append([]byte{4}, x...), y...)))
		h.do("special-x", "pubkey_parse", hx(append(append([]byte{6 + y[31]&1}, x...), y...)))
	}
}

func genC08(h *H) {
	h.keysWithSpecialX(2 * h.budget)
	cat := func(parts ...[]byte) []byte {
		var o []byte
		for _, p := range parts {
			o = append(o, p...)
		}
		return o
	}
	negY := func(y []byte) []byte {
		return be32(new(big.Int).Sub(curveP, new(big.Int).SetBytes(y)))
	}
	npts := 3 * h.budget
	for i := 0; i < npts; i++ {
		x, y := h.randPoint()
		// all 256 format bytes × both lengths, on a valid point
		for t := 0; t < 256; t++ {
			h.do("tag-x-65", "pubkey_parse", hx(cat([]byte{byte(t)}, x, y)))
			h.do("tag-x-33", "pubkey_parse", hx(cat([]byte{byte(t)}, x)))
		}
		// wrong-parity y (valid point, flipped) under every tag that cares
		ny := negY(y)
		for _, t := range []byte{4, 6, 7} {
			h.do("flipped-y", "pubkey_parse", hx(cat([]byte{t}, x, ny)))
			h.do("roundtrip", "pubkey_roundtrip", hx(cat([]byte{t}, x, ny)))
			h.do("roundtrip", "pubkey_roundtrip", hx(cat([]byte{t}, x, y)))
		}
		h.do("roundtrip", "pubkey_roundtrip", hx(cat([]byte{2}, x)))
		h.do("roundtrip", "pubkey_roundtrip", hx(cat([]byte{3}, x)))
		// off-curve y, y >= P, x >= P
		y1 := be32(new(big.Int).Add(new(big.Int).SetBytes(y), big.NewInt(1)))
		h.do("off-curve", "pubkey_parse", hx(cat([]byte{4}, x, y1)))
		h.do("off-curve", "pubkey_parse", hx(cat([]byte{6}, x, y1)))
		h.do("off-curve", "pubkey_parse", hx(cat([]byte{7}, x, y1)))
		bigs := [][]byte{be32(curveP), be32(new(big.Int).Add(curveP, big.NewInt(1))), be32(new(big.Int).Sub(new(big.Int).Lsh(big.NewInt(1), 256), big.NewInt(1))),
			be32(new(big.Int).Sub(curveP, big.NewInt(1)))}
		for _, bb := range bigs {
			h.do("coord-boundary", "pubkey_parse", hx(cat([]byte{4}, x, bb)))
			h.do("coord-boundary", "pubkey_parse", hx(cat([]byte{4}, bb, y)))
			h.do("coord-boundary", "pubkey_parse", hx(cat([]byte{2}, bb)))
			h.do("coord-boundary", "pubkey_parse", hx(cat([]byte{3}, bb)))
			h.do("coord-boundary", "pubkey_parse", hx(cat([]byte{6}, bb, bb)))
		}
		nr := h.nonResidueX()
		h.do("non-residue-x", "pubkey_parse", hx(cat([]byte{2}, nr)))
		h.do("non-residue-x", "pubkey_parse", hx(cat([]byte{3}, nr)))
		h.do("non-residue-x", "pubkey_parse", hx(cat([]byte{4}, nr, y)))
		// schnorr parser on the same material
		for _, t := range []byte{2, 3, 4, 6, 0, 5} {
			h.do("schnorr", "schnorr_pubkey_parse", hx(cat([]byte{t}, x)))
		}
		h.do("schnorr", "schnorr_pubkey_parse", hx(cat([]byte{2}, nr)))
		h.do("schnorr", "schnorr_pubkey_parse", hx(cat([]byte{4}, x, y)))
		if !h.once["c08-sweep"] {
			// once per run: x (and y) swept around P digit by digit in 64-, 32- and 26-bit digits, deterministic
			h.once["c08-sweep"] = true
			for _, v := range append(append(chainSweep(curveP, 64, 4), chainSweep(curveP, 32, 8)...), chainSweep(curveP, 26, 10)...) {
				for _, t := range []byte{2, 3} {
					h.do("x-swept-around-p", "pubkey_parse", hx(cat([]byte{t}, be32(v))))
				}
				h.do("x-swept-around-p", "schnorr_pubkey_parse", hx(cat([]byte{2}, be32(v))))
				h.do("y-swept-around-p", "pubkey_parse", hx(cat([]byte{4}, x, be32(v))))
			}
		}
		// x >= P whose reduction x-P may or may not be an abscissa: every parser must refuse all of them
		for _, ov := range h.overP() {
			for _, t := range []byte{2, 3} {
				h.do("x-over-p", "pubkey_parse", hx(cat([]byte{t}, ov)))
				h.do("x-over-p", "schnorr_pubkey_parse", hx(cat([]byte{t}, ov)))
			}
			h.do("x-over-p", "pubkey_parse", hx(cat([]byte{4}, ov, y)))
			h.do("y-over-p", "pubkey_parse", hx(cat([]byte{4}, x, ov)))
		}
		// single bit flips of valid encodings
		for _, enc := range [][]byte{cat([]byte{2 + y[31]&1}, x), cat([]byte{4}, x, y)} {
			for j := 0; j < 12; j++ {
				m := append([]byte{}, enc...)
				m[h.rng.Intn(len(m))] ^= 1 << uint(h.rng.Intn(8))
				h.do("bitflip", "pubkey_parse", hx(m))
			}
		}
	}
	h.do("schnorr", "schnorr_pubkey_parse", "nil")
	h.do("schnorr", "schnorr_pubkey_parse", "-")
	// every length 0..70: random content and valid-prefix content
	x, y := h.randPoint()
	full := cat([]byte{4}, x, y, h.randBytes(8))
	for l := 0; l <= 70; l++ {
		h.do("length", "pubkey_parse", hx(h.randBytes(l)))
		h.do("length", "pubkey_parse", hx(full[:l]))
		c := cat([]byte{2 + y[31]&1}, x, h.randBytes(40))
		h.do("length", "pubkey_parse", hx(c[:l]))
		h.do("length", "schnorr_pubkey_parse", hx(c[:l]))
	}
	// points built from a chosen x^3 / a small y (see specialPoints): every encoding, and the flipped y
	for _, pt := range h.specialPoints(4 * h.budget) {
		x, y := be32(pt[0]), be32(pt[1])
		ny := negY(y)
		for _, t := range []byte{4, 6, 7} {
			h.do("special-point", "pubkey_parse", hx(cat([]byte{t}, x, y)))
			h.do("special-point", "pubkey_parse", hx(cat([]byte{t}, x, ny)))
		}
		h.do("special-point", "pubkey_parse", hx(cat([]byte{2}, x)))
		h.do("special-point", "pubkey_parse", hx(cat([]byte{3}, x)))
		h.do("special-point", "pubkey_roundtrip", hx(cat([]byte{4}, x, y)))
		h.do("special-point", "schnorr_pubkey_parse", hx(cat([]byte{2}, x)))
		y1 := be32(new(big.Int).Add(pt[1], big.NewInt(1)))
		h.do("special-point-off", "pubkey_parse", hx(cat([]byte{4}, x, y1)))
	}
	// small x values (some on curve, some not), x = 0
	for v := 0; v < 12; v++ {
		xb := be32(big.NewInt(int64(v)))
		h.do("small-x", "pubkey_parse", hx(cat([]byte{2}, xb)))
		h.do("small-x", "pubkey_parse", hx(cat([]byte{3}, xb)))
	}
}

// cubeRoots returns the cube roots of c modulo p (none or three): p = 1 mod 3 and 9 does not divide p-1, so
// cubing is a bijection on the cubic residues with inverse exponent 3^-1 mod (p-1)/3.
func cubeRoots(c *big.Int) []*big.Int {
	c = new(big.Int).Mod(c, curveP)
	if c.Sign() == 0 {
		return nil
	}
	m := new(big.Int).Div(new(big.Int).Sub(curveP, big.NewInt(1)), big.NewInt(3))
	if new(big.Int).Exp(c, m, curveP).Cmp(big.NewInt(1)) != 0 {
		return nil
	}
	e := new(big.Int).ModInverse(big.NewInt(3), m)
	r := new(big.Int).Exp(c, e, curveP)
	if new(big.Int).Exp(r, big.NewInt(3), curveP).Cmp(c) != 0 {
		return nil
	}
	// a primitive cube root of unity: g^((p-1)/3) for the first g that gives one
	var beta *big.Int
	for g := int64(2); ; g++ {
		beta = new(big.Int).Exp(big.NewInt(g), m, curveP)
		if beta.Cmp(big.NewInt(1)) != 0 {
			break
		}
	}
	r2 := new(big.Int).Mod(new(big.Int).Mul(r, beta), curveP)
	r3 := new(big.Int).Mod(new(big.Int).Mul(r2, beta), curveP)
	return []*big.Int{r, r2, r3}
}

// specialPoints: curve points built from a chosen value of x^3 (resp. y), aimed at the places where a field
// value that should have been normalised still happens to be right for almost every input:
//   - y small (y^2 - 7 = x^3 within 2^12 of 0 or of p, so x^3 + 7 wraps past p),
//   - x^3 mod p with low limb within 7 of 2^26 (the carry-less AddInt(7) overflows limb 0),
//   - x^3 mod p with whole limbs saturated / just below the limbs of p,
//   - y below 2^32+977 in both parities (the un-reduced form differs from the canonical one).
func (h *H) specialPoints(n int) [][2]*big.Int {
	var out [][2]*big.Int
	add := func(c *big.Int) bool { // c = wanted x^3 mod p
		y2 := new(big.Int).Add(c, big.NewInt(7))
		y := new(big.Int).ModSqrt(y2.Mod(y2, curveP), curveP)
		if y == nil {
			return false
		}
		rs := cubeRoots(c)
		if rs == nil {
			return false
		}
		x := rs[h.rng.Intn(3)]
		if h.rng.Intn(2) == 0 {
			y = new(big.Int).Sub(curveP, y)
		}
		out = append(out, [2]*big.Int{x, y})
		return true
	}
	// small y
	cnt := 0
	for yv := int64(1); yv < 200 && cnt < n; yv++ {
		c := new(big.Int).Mod(big.NewInt(yv*yv-7), curveP)
		if add(c) {
			cnt++
		}
	}
	// low limb of x^3 within 7 of 2^26
	cnt = 0
	for t := 0; t < 400 && cnt < n; t++ {
		c := new(big.Int).SetBytes(h.randBytes(32))
		c.Mod(c, curveP)
		c.Or(c, big.NewInt(1<<26-1))
		c.Sub(c, big.NewInt(int64(h.rng.Intn(7))))
		if c.Cmp(curveP) < 0 && add(c) {
			cnt++
		}
	}
	// saturated limbs: p - delta with delta small or with a few zeroed 26-bit windows
	cnt = 0
	for t := 0; t < 400 && cnt < n; t++ {
		c := new(big.Int).Sub(curveP, big.NewInt(int64(8+h.rng.Intn(1<<20))))
		for k := 0; k < h.rng.Intn(3); k++ {
			w := uint(26 * (1 + h.rng.Intn(9)))
			mask := new(big.Int).Lsh(big.NewInt(int64(h.rng.Intn(1<<12))), w)
			c.AndNot(c, mask)
		}
		if add(c) {
			cnt++
		}
	}
	return out
}
