import Secp.Model.ScalarMult
import Secp.Model.Der
import Secp.Spec.Rfc6979
/-
  Model/Ecdsa — signature.go: sign, signRFC6979, Verify, RecoverPublicKey, Export,
  ExportCompact, SignCompact, ParseCompactSignature, RecoverCompact, BruteforceRecoveryCode.
  Scalars are naturals in [0, N), field values naturals in [0, P); point arithmetic is the
  regenerated formula programs through `Model.ScalarMult`.
-/
namespace Secp.Model
open Secp.Spec Secp.FOp

/-- non-aliased `AddNonConst(&a, &b, &r)` -/
def addNC3 (a b : Jac) : Jac :=
  match runNamed "AddNonConst" [a.1, a.2.1, a.2.2, b.1, b.2.1, b.2.2, 0, 0, 0] [] with
  | some (r, _) => (rget r 6, rget r 7, rget r 8)
  | none => Jac.inf

/-- `AddNonConst(&a, &b, &b)`: the result aliases the SECOND operand (no caller in the library does this) -/
def addNCr2 (a b : Jac) : Jac :=
  match runNamed "AddNonConst_a011" [a.1, a.2.1, a.2.2, b.1, b.2.1, b.2.2] [] with
  | some (r, _) => (rget r 3, rget r 4, rget r 5)
  | none => Jac.inf

/-- `DoubleNonConst(&p, &r)` with a distinct result (the crypto/elliptic adaptor) -/
def dblNC3 (p : Jac) : Jac :=
  match runNamed "DoubleNonConst" [p.1, p.2.1, p.2.2, 0, 0, 0] [] with
  | some (r, _) => (rget r 3, rget r 4, rget r 5)
  | none => Jac.inf

def isInfJ (q : Jac) : Bool := (q.1 == 0 && q.2.1 == 0) || q.2.2 == 0

/-- `e.SetByteSlice(hash)` -/
def hashScalar (h : Bytes) : Nat := (scalarSetByteSlice h).1

/-- `Signature.Verify(hash, pubKey)`; r, s ∈ [0,N), Q = (x, y) with coordinates < P -/
def verifyM (h : Bytes) (Q : Nat × Nat) (r s : Nat) : Bool :=
  if r = 0 ∨ s = 0 then false else
  let e := hashScalar h
  let w := ninv s
  let u1 := nmul e w
  let u2 := nmul r w
  let u1G := scalarBaseMultNC u1
  let u2Q := scalarMultNC u2 (Q.1, Q.2, 1)
  let X := addNC3 u1G u2Q
  if isInfJ X then false else
  let z := fsq X.2.2
  let result := fmul r z
  if result == X.1 then true else
  if r ≥ P - N then false else
  fmul (r + N) z == X.1

/-- `sign(privKey, nonce, hash)`: (r, s, recovery code) or none -/
def signM (d k : Nat) (h : Bytes) : Option (Nat × Nat × Nat) :=
  let kG := toAffineJ (scalarBaseMultNC k)
  -- fieldToModNScalar(&kG.X)
  let x := kG.1
  let overflow := x ≥ N
  let r := if overflow then x - N else x
  if r = 0 then none else
  let code := (if overflow then 2 else 0) ||| (kG.2.1 % 2)
  let e := hashScalar h
  let kinv := ninv k
  let s := nmul (nadd (nmul d r) e) kinv
  if s = 0 then none else
  if s > halfN then some (r, nneg s, code ^^^ 1) else some (r, s, code)

/-- the key bytes fed to NonceRFC6979 by signRFC6979: `privKey.Key.PutBytes` -/
def signRFC6979Aux (H : HmacFn) (d : Nat) (h : Bytes) : Nat → Nat → Option (Nat × Nat × Nat)
  | 0, _ => none
  | fuel+1, iter =>
    match nonceRFC6979 H 256 (be32 d) h [] [] iter with
    | none => none
    | some k =>
      match signM d k h with
      | some sig => some sig
      | none => signRFC6979Aux H d h fuel (iter + 1)

def signRFC6979M (d : Nat) (h : Bytes) : Option (Nat × Nat × Nat) := signRFC6979Aux hmacSha256 d h 16 0

inductive RecErr where
  | ErrSigOverflowsPrime | ErrPointNotOnCurve | Panic
  deriving Repr, DecidableEq

/-- `DecompressY` via the generated formula program; returns the normalised y -/
def decompressYJ (x : Nat) (odd : Bool) : Option Nat :=
  match runNamed "DecompressY" [x, 0] [odd] with
  | some (r, some true) => some (rget r 1 % P)
  | _ => none

/-- `Signature.RecoverPublicKey(hash)` for a signature carrying recovery code v ∈ 0..3 (or 0xff) -/
def recoverM (h : Bytes) (r s v : Nat) : Except RecErr (Nat × Nat) :=
  if v = 0xff then .error .Panic else
  let fieldR0 := r
  let step1 : Except RecErr Nat :=
    if v &&& 2 ≠ 0 then
      if fieldR0 ≥ P - N then .error .ErrSigOverflowsPrime else .ok (fieldR0 + N)
    else .ok fieldR0
  match step1 with
  | .error e => .error e
  | .ok fieldR =>
    let oddY := v &&& 1 ≠ 0
    match decompressYJ fieldR oddY with
    | none => .error .ErrPointNotOnCurve
    | some y =>
      let X : Jac := (fieldR % P, y, 1)
      let e := hashScalar h
      let w := ninv r
      let u1 := nneg (nmul e w)
      let u2 := nmul s w
      let u1G := scalarBaseMultNC u1
      let u2X := scalarMultNC u2 X
      let Q := addNC3 u1G u2X
      if isInfJ Q then .error .ErrPointNotOnCurve else
      let A := toAffineJ Q
      .ok (A.1, A.2.1)

/-- `BruteforceRecoveryCode(hash, pubKey)` on a signature (r, s): the first code 0..3 whose recovery yields the key
    (found?, the code left in the object — 0xff when none fits) -/
def bruteforceM (h : Bytes) (r s : Nat) (Q : Nat × Nat) : Bool × Nat :=
  match [0, 1, 2, 3].find? (fun v => match recoverM h r s v with | .ok p => p == Q | .error _ => false) with
  | some v => (true, v)
  | none => (false, 0xff)

/-- `Export()` : (r, s, v) with high s normalised and the code flipped -/
def exportM (r s v : Nat) : Nat × Nat × Nat :=
  if s > halfN then (r, nneg s, v ^^^ 1) else (r, s, v)

/-- `ExportCompact(recoveryCodeFirst, offset)` -/
def exportCompactM (r s v : Nat) (codeFirst : Bool) (offset : Nat) : Bytes :=
  let (r', s', v') := exportM r s v
  let code := UInt8.ofNat ((v' + offset) % 256)
  if codeFirst then code :: be32 r' ++ be32 s' else be32 r' ++ be32 s' ++ [code]

/-- `ParseCompactSignature` : (r, s, code, wasCompressed) -/
def parseCompactM (sig : Bytes) : Except (SigErr × Bool) (Nat × Nat × Nat × Bool) :=
  if sig.length ≠ 65 then .error (.ErrSigInvalidLen, false) else
  let c := (sig.headD 0).toNat
  if c < 27 ∨ c > 34 then .error (.ErrSigInvalidRecoveryCode, false) else
  let c := c - 27
  let wasCompressed := c &&& 4 ≠ 0
  let code := c &&& 3
  let (r, ro) := scalarSetByteSlice ((sig.take 33).drop 1)
  if ro then .error (.ErrSigRTooBig, wasCompressed) else
  if r = 0 then .error (.ErrSigRIsZero, wasCompressed) else
  let (s, so) := scalarSetByteSlice (sig.drop 33)
  if so then .error (.ErrSigSTooBig, wasCompressed) else
  if s = 0 then .error (.ErrSigSIsZero, wasCompressed) else
  .ok (r, s, code, wasCompressed)

/-- `PublicKey.SerializeCompressed` parity byte + x, for reporting -/
def pubHex (p : Nat × Nat) : Bytes := be32 p.1 ++ be32 p.2

end Secp.Model
