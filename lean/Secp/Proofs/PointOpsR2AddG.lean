/-
  Proofs/PointOpsR2AddG — addGeneric (add-2007-bl), result≡p2.
-/
import Secp.Proofs.PointOpsR2Base
import Secp.Proofs.PointOpsAddG

set_option linter.unusedSimpArgs false
namespace Secp.Proofs.PointOps
open Secp.Spec Secp.Model Secp.FOp Secp.Proofs
open Secp.Gen.FormulasC

theorem addGeneric_a011_contract (f : Nat) :
    AddContract (fun _ _ => True) (RunR2 (f + 1) 11) (DRunP f) where
  ne := by
    intro X1 Y1 Z1 X2 Y2 Z2 _ _ _ _ _ hne
    rw [Ne, ← addG_U_iff] at hne
    refine ⟨?X3, ?Y3, ?Z3, ?run, ⟨?b1, ?b2, ?b3⟩, ?ch⟩
    case run =>
      show callE (f + 1) 11 [X1, Y1, Z1, X2, Y2, Z2] = some [X1, Y1, Z1, _, _, _]
      rw [callE_succ f 11 _ addGeneric_a011 rfl]
      exec_simp [addGeneric_a011, addGeneric_a011_p0, addGeneric_a011_p1, addGeneric_a011_p2, hne]
      and_intros <;> rfl
    case b1 => exact Nat.mod_lt _ P_pos
    case b2 => exact Nat.mod_lt _ P_pos
    case b3 => exact Nat.mod_lt _ P_pos
    case ch =>
      convert chordRep_addG (X1 : F) Y1 Z1 X2 Y2 Z2 using 1
      all_goals cast_simp
      all_goals simp only [agX, agY, agZ]
      all_goals ring
  eq_ne := by
    intro X1 Y1 Z1 X2 Y2 Z2 _ _ _ _ _ hU hS
    rw [Ne] at hS
    rw [← addG_U_iff] at hU
    rw [← addG_S_iff] at hS
    show callE (f + 1) 11 [X1, Y1, Z1, X2, Y2, Z2] = some [X1, Y1, Z1, 0, 0, 0]
    rw [callE_succ f 11 _ addGeneric_a011 rfl]
    exec_simp [addGeneric_a011, addGeneric_a011_p0, addGeneric_a011_p1, addGeneric_a011_p2, hU, hS]
  eq_eq := by
    intro X1 Y1 Z1 X2 Y2 Z2 _ _ _ _ _ hU hS r hr
    rw [← addG_U_iff] at hU
    rw [← addG_S_iff] at hS
    obtain ⟨a, b, c⟩ := r
    have hr' : callE f 4 [X1, Y1, Z1, X2, Y2, Z2] = some [X1, Y1, Z1, a, b, c] := hr X2 Y2 Z2
    show callE (f + 1) 11 [X1, Y1, Z1, X2, Y2, Z2] = some [X1, Y1, Z1, a, b, c]
    rw [callE_succ f 11 _ addGeneric_a011 rfl]
    exec_simp [addGeneric_a011, addGeneric_a011_p0, addGeneric_a011_p1, addGeneric_a011_p2, hU, hS, hr']

end Secp.Proofs.PointOps
