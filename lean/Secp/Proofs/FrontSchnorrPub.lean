import Secp.Gen.Drivers
import Secp.Model.PubKey
/-
  Proofs/FrontSchnorrPub — schnorr.ParsePubKey regenerated (pass T8) = the model.
-/
namespace Secp.Proofs.FrontSchnorrPub
open Secp.Spec Secp.Model

/-- `schnorr.ParsePubKey` regenerated = the model (`schnorrParsePubKey`, which panics exactly where Go would index out
    of range — never, because the length is checked first) -/
theorem schnorrParsePubKey_regenerated (b : Bytes) (isNil : Bool) :
    Secp.Gen.Drivers.schnorrParsePubKeyGen b isNil =
      (match schnorrParsePubKey isNil b with | .ok pk => DR.ok pk | .err e => DR.err e | .panic => DR.panic) := by
  unfold Secp.Gen.Drivers.schnorrParsePubKeyGen schnorrParsePubKey
  cases isNil with
  | true => simp
  | false =>
    by_cases hl : b.length = 33
    · have hne : b ≠ [] := by intro h; simp [h] at hl
      obtain ⟨x, xs, rfl⟩ := List.exists_cons_of_ne_nil hne
      simp only [hl, idx, List.getElem?_cons_zero, List.getD_cons_zero]
      by_cases hf : (x.toNat &&& 254) = 2
      · have hf' : x &&& 0xFE = 0x02 := by
          apply UInt8.toNat_inj.mp; simpa [UInt8.toNat_and] using hf
        simp [hf, hf', Outcome.bind, bind]
        cases parsePubKey (x :: xs) <;> rfl
      · have hf' : ¬ (x &&& 0xFE = 0x02) := by
          intro h; apply hf; have := congrArg UInt8.toNat h; simpa [UInt8.toNat_and] using this
        simp [hf, hf', Outcome.bind, bind]
    · simp [hl]

end Secp.Proofs.FrontSchnorrPub
