/-
  Proofs/PointOpsAdd11 — addZ1AndZ2EqualsOne (mmadd-2007-bl), plain and result≡p1.
-/
import Secp.Proofs.PointOpsDbl

set_option linter.unusedSimpArgs false
namespace Secp.Proofs.PointOps
open Secp.Spec Secp.Model Secp.FOp Secp.Proofs
open Secp.Gen.FormulasC

theorem add11_U_iff {X1 X2 : Nat} (h1 : X1 < P) (h2 : X2 < P) :
    X1 = X2 ↔ (X1 : F) * ((1 : Nat) : F) ^ 2 = (X2 : F) * ((1 : Nat) : F) ^ 2 := by
  rw [← cast_eq_iff_of_lt h1 h2, Nat.cast_one, one_pow, mul_one, mul_one]

theorem add11_S_iff {Y1 Y2 : Nat} (h1 : Y1 < P) (h2 : Y2 < P) :
    Y1 = Y2 ↔ (Y1 : F) * ((1 : Nat) : F) ^ 3 = (Y2 : F) * ((1 : Nat) : F) ^ 3 := by
  rw [← cast_eq_iff_of_lt h1 h2, Nat.cast_one, one_pow, mul_one, mul_one]

theorem addZ1AndZ2EqualsOne_a010_contract (f : Nat) :
    AddContract (fun Z1 Z2 => Z1 = 1 ∧ Z2 = 1) (RunA (f + 1) 13) (DRunA f) where
  ne := by
    intro X1 Y1 Z1 X2 Y2 Z2 hb1 hb2 hz1 hz2 hpre hne
    obtain ⟨hp1, hp2⟩ := hpre
    subst hp1 hp2
    rw [Ne, ← add11_U_iff hb1.1 hb2.1] at hne
    refine ⟨?X3, ?Y3, ?Z3, ?run, ⟨?b1, ?b2, ?b3⟩, ?ch⟩
    case run =>
      show callE (f + 1) 13 [X1, Y1, 1, X2, Y2, 1] = some [_, _, _, X2, Y2, 1]
      rw [callE_succ f 13 _ addZ1AndZ2EqualsOne_a010 rfl]
      exec_simp [addZ1AndZ2EqualsOne_a010, addZ1AndZ2EqualsOne_a010_p0, addZ1AndZ2EqualsOne_a010_p1, addZ1AndZ2EqualsOne_a010_p2, hne]
      and_intros <;> rfl
    case b1 => exact Nat.mod_lt _ P_pos
    case b2 => exact Nat.mod_lt _ P_pos
    case b3 => exact Nat.mod_lt _ P_pos
    case ch =>
      convert chordRep_addG (X1 : F) Y1 ((1 : Nat) : F) X2 Y2 ((1 : Nat) : F) using 1
      all_goals cast_simp
      all_goals simp only [agX, agY, agZ]
      all_goals ring
  eq_ne := by
    intro X1 Y1 Z1 X2 Y2 Z2 hb1 hb2 hz1 hz2 hpre hU hS
    obtain ⟨hp1, hp2⟩ := hpre
    subst hp1 hp2
    rw [Ne] at hS
    rw [← add11_U_iff hb1.1 hb2.1] at hU
    rw [← add11_S_iff hb1.2.1 hb2.2.1] at hS
    dsimp only at hU hS
    show callE (f + 1) 13 [X1, Y1, 1, X2, Y2, 1] = some [0, 0, 0, X2, Y2, 1]
    rw [callE_succ f 13 _ addZ1AndZ2EqualsOne_a010 rfl]
    exec_simp [addZ1AndZ2EqualsOne_a010, addZ1AndZ2EqualsOne_a010_p0, addZ1AndZ2EqualsOne_a010_p1, addZ1AndZ2EqualsOne_a010_p2, hS, hU]
  eq_eq := by
    intro X1 Y1 Z1 X2 Y2 Z2 hb1 hb2 hz1 hz2 hpre hU hS r hr
    obtain ⟨hp1, hp2⟩ := hpre
    subst hp1 hp2
    rw [← add11_U_iff hb1.1 hb2.1] at hU
    rw [← add11_S_iff hb1.2.1 hb2.2.1] at hS
    obtain ⟨a, b, c⟩ := r
    have hr' : callE f 5 [X1, Y1, 1] = some [a, b, c] := hr
    show callE (f + 1) 13 [X1, Y1, 1, X2, Y2, 1] = some [a, b, c, X2, Y2, 1]
    rw [callE_succ f 13 _ addZ1AndZ2EqualsOne_a010 rfl]
    subst hU hS
    exec_simp [addZ1AndZ2EqualsOne_a010, addZ1AndZ2EqualsOne_a010_p0, addZ1AndZ2EqualsOne_a010_p1, addZ1AndZ2EqualsOne_a010_p2, hr']

theorem addZ1AndZ2EqualsOne_contract (f : Nat) :
    AddContract (fun Z1 Z2 => Z1 = 1 ∧ Z2 = 1) (RunP (f + 1) 12) (DRunP f) where
  ne := by
    intro X1 Y1 Z1 X2 Y2 Z2 hb1 hb2 hz1 hz2 hpre hne
    obtain ⟨hp1, hp2⟩ := hpre
    subst hp1 hp2
    rw [Ne, ← add11_U_iff hb1.1 hb2.1] at hne
    refine ⟨?X3, ?Y3, ?Z3, fun r6 r7 r8 => ?run, ⟨?b1, ?b2, ?b3⟩, ?ch⟩
    case run =>
      show callE (f + 1) 12 [X1, Y1, 1, X2, Y2, 1, r6, r7, r8] =
        some [X1, Y1, 1, X2, Y2, 1, _, _, _]
      rw [callE_succ f 12 _ addZ1AndZ2EqualsOne rfl]
      exec_simp [addZ1AndZ2EqualsOne, addZ1AndZ2EqualsOne_p0, addZ1AndZ2EqualsOne_p1, addZ1AndZ2EqualsOne_p2, hne]
      and_intros <;> rfl
    case b1 => exact Nat.mod_lt _ P_pos
    case b2 => exact Nat.mod_lt _ P_pos
    case b3 => exact Nat.mod_lt _ P_pos
    case ch =>
      convert chordRep_addG (X1 : F) Y1 ((1 : Nat) : F) X2 Y2 ((1 : Nat) : F) using 1
      all_goals cast_simp
      all_goals simp only [agX, agY, agZ]
      all_goals ring
  eq_ne := by
    intro X1 Y1 Z1 X2 Y2 Z2 hb1 hb2 hz1 hz2 hpre hU hS r6 r7 r8
    obtain ⟨hp1, hp2⟩ := hpre
    subst hp1 hp2
    rw [Ne] at hS
    rw [← add11_U_iff hb1.1 hb2.1] at hU
    rw [← add11_S_iff hb1.2.1 hb2.2.1] at hS
    dsimp only at hU hS
    show callE (f + 1) 12 [X1, Y1, 1, X2, Y2, 1, r6, r7, r8] =
      some [X1, Y1, 1, X2, Y2, 1, 0, 0, 0]
    rw [callE_succ f 12 _ addZ1AndZ2EqualsOne rfl]
    exec_simp [addZ1AndZ2EqualsOne, addZ1AndZ2EqualsOne_p0, addZ1AndZ2EqualsOne_p1, addZ1AndZ2EqualsOne_p2, hS, hU]
  eq_eq := by
    intro X1 Y1 Z1 X2 Y2 Z2 hb1 hb2 hz1 hz2 hpre hU hS r hr r6 r7 r8
    obtain ⟨hp1, hp2⟩ := hpre
    subst hp1 hp2
    rw [← add11_U_iff hb1.1 hb2.1] at hU
    rw [← add11_S_iff hb1.2.1 hb2.2.1] at hS
    obtain ⟨a, b, c⟩ := r
    have hr' : callE f 4 [X1, Y1, 1, r6, r7, r8] = some [X1, Y1, 1, a, b, c] := hr r6 r7 r8
    show callE (f + 1) 12 [X1, Y1, 1, X2, Y2, 1, r6, r7, r8] =
      some [X1, Y1, 1, X2, Y2, 1, a, b, c]
    rw [callE_succ f 12 _ addZ1AndZ2EqualsOne rfl]
    subst hU hS
    exec_simp [addZ1AndZ2EqualsOne, addZ1AndZ2EqualsOne_p0, addZ1AndZ2EqualsOne_p1, addZ1AndZ2EqualsOne_p2, hr']

end Secp.Proofs.PointOps
