import Secp.Gen.ScalarIR
/-
  Proofs/IRHelpers — the IR primitives `ctEq/ctNe/ctLt/ctLe/ctMin/accAdd` agree with the
  literally translated Go helper bodies (`*_lit` kernels of Gen/ScalarIR) under Go semantics
  (`Kernel.runW`).  This pins the translator's mapping of helper calls to primitives.
  Core Lean only.
-/
namespace Secp.Proofs.IRHelpers
open Secp.IR Secp.Gen

theorem xor_eq_zero_iff (a b : Nat) : a ^^^ b = 0 ↔ a = b := by
  constructor
  · intro h
    have : a ^^^ (a ^^^ b) = b := by rw [← Nat.xor_assoc, Nat.xor_self, Nat.zero_xor]
    rw [h, Nat.xor_zero] at this
    exact this
  · intro h; subst h; exact Nat.xor_self a

/-- unfold a concrete kernel run -/
macro "unfold_run " k:ident : tactic =>
  `(tactic| simp only [Kernel.runW, $k:ident, runBody, evalW, List.map, List.reverse_cons, List.reverse_nil, List.cons_append,
      List.nil_append, List.getD_cons_succ, List.getD_cons_zero,
      Nat.shiftRight_eq_div_pow, Nat.and_two_pow_sub_one_eq_mod])

theorem ctEq_lit (a b : Nat) (ha : a < 2 ^ 32) (hb : b < 2 ^ 32) :
    CT_Eq_lit.runW [a, b] = [if a = b then 1 else 0] := by
  unfold_run CT_Eq_lit
  have hx : a ^^^ b < 2 ^ 32 := Nat.xor_lt_two_pow ha hb
  have hz := xor_eq_zero_iff a b
  generalize a ^^^ b = x at hx hz ⊢
  congr 1
  split <;> omega

theorem ctNotEq_lit (a b : Nat) (ha : a < 2 ^ 32) (hb : b < 2 ^ 32) :
    CT_NotEq_lit.runW [a, b] = [if a ≠ b then 1 else 0] := by
  unfold_run CT_NotEq_lit
  have hx : a ^^^ b < 2 ^ 32 := Nat.xor_lt_two_pow ha hb
  have hz := xor_eq_zero_iff a b
  generalize a ^^^ b = x at hx hz ⊢
  congr 1
  split <;> omega

theorem ctLess_lit (a b : Nat) (ha : a < 2 ^ 32) (hb : b < 2 ^ 32) :
    CT_Less_lit.runW [a, b] = [if a < b then 1 else 0] := by
  unfold_run CT_Less_lit
  congr 1
  split <;> omega

theorem ctLessOrEq_lit (a b : Nat) (ha : a < 2 ^ 32) (hb : b < 2 ^ 32) :
    CT_LessOrEq_lit.runW [a, b] = [if a ≤ b then 1 else 0] := by
  unfold_run CT_LessOrEq_lit
  congr 1
  split <;> omega

theorem ctGreater_lit (a b : Nat) (ha : a < 2 ^ 32) (hb : b < 2 ^ 32) :
    CT_Greater_lit.runW [a, b] = [if a > b then 1 else 0] := by
  unfold_run CT_Greater_lit
  congr 1
  split <;> omega

theorem ctGreaterOrEq_lit (a b : Nat) (ha : a < 2 ^ 32) (hb : b < 2 ^ 32) :
    CT_GreaterOrEq_lit.runW [a, b] = [if a ≥ b then 1 else 0] := by
  unfold_run CT_GreaterOrEq_lit
  congr 1
  split <;> omega

theorem ctMin_lit (a b : Nat) (ha : a < 2 ^ 32) (hb : b < 2 ^ 32) :
    CT_Min_lit.runW [a, b] = [min a b] := by
  unfold_run CT_Min_lit
  have hx : a ^^^ b < 2 ^ 32 := Nat.xor_lt_two_pow ha hb
  congr 1
  by_cases hlt : a < b
  · have hm : (2 ^ 32 - (a + 2 ^ 64 - b % 2 ^ 64) % 2 ^ 64 / 2 ^ 63 % 2 ^ 32 % 2 ^ 32) % 2 ^ 32
        = 2 ^ 32 - 1 := by omega
    rw [hm, Nat.and_two_pow_sub_one_of_lt_two_pow hx, Nat.xor_comm a b, ← Nat.xor_assoc,
      Nat.xor_self, Nat.zero_xor]
    omega
  · have hm : (2 ^ 32 - (a + 2 ^ 64 - b % 2 ^ 64) % 2 ^ 64 / 2 ^ 63 % 2 ^ 32 % 2 ^ 32) % 2 ^ 32
        = 0 := by omega
    rw [hm, Nat.and_zero, Nat.xor_zero]
    omega

/-- `constantTimeLess(x + y mod 2^32, y)` is the carry of the 32-bit addition -/
theorem carry32 (x y : Nat) (hx : x < 2 ^ 32) (hy : y < 2 ^ 32) :
    ((x + y) % 2 ^ 32 + 2 ^ 64 - y % 2 ^ 64) % 2 ^ 64 / 2 ^ 63 % 2 ^ 32 = (x + y) / 2 ^ 32 := by
  omega

theorem acc96Add_lit (n0 n1 n2 v : Nat) (h0 : n0 < 2 ^ 32) (h1 : n1 < 2 ^ 32) (_h2 : n2 < 2 ^ 32)
    (hv : v < 2 ^ 64 - 2 ^ 32) :
    ∃ m0 m1 m2, Acc96_Add_lit.runW [n0, n1, n2, v] = [m0, m1, m2] ∧
      m0 < 2 ^ 32 ∧ m1 < 2 ^ 32 ∧ m2 < 2 ^ 32 ∧
      m0 + m1 * 2 ^ 32 + m2 * 2 ^ 64 = (n0 + n1 * 2 ^ 32 + n2 * 2 ^ 64 + v) % 2 ^ 96 := by
  unfold_run Acc96_Add_lit
  refine ⟨_, _, _, rfl, ?_⟩
  have e1 : v % 2 ^ 32 % 2 ^ 32 = v % 2 ^ 32 := by omega
  have e2 : v / 2 ^ 32 % 2 ^ 32 = v / 2 ^ 32 := by omega
  have hlo : v % 2 ^ 32 < 2 ^ 32 := by omega
  have hhi : v / 2 ^ 32 < 2 ^ 32 - 1 := by omega
  have hv' : v = v / 2 ^ 32 * 2 ^ 32 + v % 2 ^ 32 := by omega
  simp only [e1, e2]
  clear e1 e2
  generalize v % 2 ^ 32 = lo at hlo hv' ⊢
  generalize v / 2 ^ 32 = hi at hhi hv' ⊢
  subst hv'
  -- word 0 and its carry
  simp only [carry32 n0 lo h0 hlo]
  have hs0 : (n0 + lo) % 2 ^ 32 < 2 ^ 32 := by omega
  have hc0 : (n0 + lo) / 2 ^ 32 ≤ 1 := by omega
  have hd0 : n0 + lo = (n0 + lo) / 2 ^ 32 * 2 ^ 32 + (n0 + lo) % 2 ^ 32 := by omega
  generalize (n0 + lo) % 2 ^ 32 = s0 at hs0 hd0 ⊢
  generalize (n0 + lo) / 2 ^ 32 = c0 at hc0 hd0 ⊢
  -- hi + carry does not wrap
  have e3 : (hi + c0) % 2 ^ 32 = hi + c0 := by omega
  have hh : hi + c0 < 2 ^ 32 := by omega
  simp only [e3]
  clear e3
  generalize hdef : hi + c0 = hi' at hh ⊢
  -- word 1 and its carry
  simp only [carry32 n1 hi' h1 hh]
  omega

theorem acc96Rsh32_lit (n0 n1 n2 : Nat) : Acc96_Rsh32_lit.runW [n0, n1, n2] = [n1, n2, 0] := by
  unfold_run Acc96_Rsh32_lit

/-! ### the same facts phrased against the IR primitives (`evalW` of `ctEq` … `accAdd`) -/

theorem ctEq_prim (a b : Nat) (ha : a < 2 ^ 32) (hb : b < 2 ^ 32) :
    CT_Eq_lit.runW [a, b] = [evalW [b, a] (.ctEq (.var 1) (.var 0))] := by
  rw [ctEq_lit a b ha hb]; simp only [evalW, List.getD_cons_succ, List.getD_cons_zero, b2n]
  by_cases h : a = b <;> simp [h]

theorem ctNe_prim (a b : Nat) (ha : a < 2 ^ 32) (hb : b < 2 ^ 32) :
    CT_NotEq_lit.runW [a, b] = [evalW [b, a] (.ctNe (.var 1) (.var 0))] := by
  rw [ctNotEq_lit a b ha hb]; simp only [evalW, List.getD_cons_succ, List.getD_cons_zero, b2n]
  by_cases h : a = b <;> simp [h]

theorem ctLt_prim (a b : Nat) (ha : a < 2 ^ 32) (hb : b < 2 ^ 32) :
    CT_Less_lit.runW [a, b] = [evalW [b, a] (.ctLt (.var 1) (.var 0))] := by
  rw [ctLess_lit a b ha hb]; simp only [evalW, List.getD_cons_succ, List.getD_cons_zero, b2n]
  by_cases h : a < b <;> simp [h]

theorem ctLe_prim (a b : Nat) (ha : a < 2 ^ 32) (hb : b < 2 ^ 32) :
    CT_LessOrEq_lit.runW [a, b] = [evalW [b, a] (.ctLe (.var 1) (.var 0))] := by
  rw [ctLessOrEq_lit a b ha hb]; simp only [evalW, List.getD_cons_succ, List.getD_cons_zero, b2n]
  by_cases h : a ≤ b <;> simp [h]

theorem ctMin_prim (a b : Nat) (ha : a < 2 ^ 32) (hb : b < 2 ^ 32) :
    CT_Min_lit.runW [a, b] = [evalW [b, a] (.ctMin (.var 1) (.var 0))] := by
  rw [ctMin_lit a b ha hb]; simp only [evalW, List.getD_cons_succ, List.getD_cons_zero]

/-- `accAdd` on the 96-bit value `n0 + n1·2^32 + n2·2^64` is what the literal word-level code computes -/
theorem accAdd_prim (n0 n1 n2 v : Nat) (h0 : n0 < 2 ^ 32) (h1 : n1 < 2 ^ 32) (h2 : n2 < 2 ^ 32)
    (hv : v < 2 ^ 64 - 2 ^ 32) :
    ∃ m0 m1 m2, Acc96_Add_lit.runW [n0, n1, n2, v] = [m0, m1, m2] ∧
      m0 < 2 ^ 32 ∧ m1 < 2 ^ 32 ∧ m2 < 2 ^ 32 ∧
      m0 + m1 * 2 ^ 32 + m2 * 2 ^ 64 =
        evalW [v, n0 + n1 * 2 ^ 32 + n2 * 2 ^ 64] (.accAdd (.var 1) (.var 0)) := by
  simp only [evalW, List.getD_cons_succ, List.getD_cons_zero]
  exact acc96Add_lit n0 n1 n2 v h0 h1 h2 hv

end Secp.Proofs.IRHelpers
