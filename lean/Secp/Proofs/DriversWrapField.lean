import Secp.Gen.Drivers
import Secp.Proofs.Bip32Bytes
import Secp.Proofs.FieldBridge
/-
  Proofs/DriversWrap — the regenerated non-kernel wrapper methods of ModNScalar / FieldVal
  (Gen/Drivers.lean: scalarMul, scalarAdd, scalarNegate, scalarSquare, scalarSquareVal,
  scalarBytes, scalarSetByteSliceGen, scalarInverseValNonConst, scalarInverseNonConst,
  fieldSetByteSliceGen) equal the model primitives of Spec/Field.lean, Spec/Basic.lean and
  Model/Der.lean.
-/
namespace Secp.Proofs.DriversWrapField
open Secp.Spec Secp.Model

/-! ### the one-liners -/

/-! ### ModNScalar.Bytes -/

/-! ### the two `copy` calls of SetByteSlice -/

/-- the truncation `b = b[:min(len(b), 32)]` -/
private theorem trunc_eq (b : Bytes) (hb : b.length < 2 ^ 32) :
    ((b.take (min (b.length % 4294967296) 32)).drop 0) = b.take 32 := by
  rw [Nat.mod_eq_of_lt (by simpa using hb), List.drop_zero]
  by_cases h : b.length ≤ 32
  · rw [Nat.min_eq_left h, List.take_of_length_le (Nat.le_refl _), List.take_of_length_le h]
  · rw [Nat.min_eq_right (by omega)]

/-- `copy(b32, b32[:32-len(b)])` then `copy(b32[32-len(b):], b)` left-pads `b` with zeros -/
private theorem pad_eq (c : Bytes) (hc : c.length ≤ 32) :
    (let b32 := (List.replicate 32 (0 : UInt8))
     let n1 := min b32.length ((b32.take (32 - c.length)).drop 0).length
     let b32 := (b32.take 0 ++ (((b32.take (32 - c.length)).drop 0)).take n1 ++ b32.drop (0 + n1))
     let n2 := min (b32.drop (32 - c.length)).length c.length
     (b32.take (32 - c.length) ++ (c).take n2 ++ b32.drop ((32 - c.length) + n2)))
      = List.replicate (32 - c.length) (0 : UInt8) ++ c := by
  have e : ∀ x y z : Nat, x = 32 - c.length → y = c.length → z = 0 →
      List.replicate x (0 : UInt8) ++ c.take y ++ List.replicate z (0 : UInt8)
        = List.replicate (32 - c.length) (0 : UInt8) ++ c := by
    intro x y z hx hy hz
    subst hx hy hz
    rw [List.take_length, List.replicate_zero, List.append_nil]
  simp only [List.length_replicate, List.take_replicate, List.drop_replicate, Nat.zero_add,
    ← List.replicate_add]
  apply e <;> omega

private theorem pad_length (c : Bytes) (hc : c.length ≤ 32) :
    (List.replicate (32 - c.length) (0 : UInt8) ++ c).length = 32 := by
  rw [List.length_append, List.length_replicate]; omega

private theorem take32_length_le (b : Bytes) : (b.take 32).length ≤ 32 := by
  rw [List.length_take]; exact Nat.min_le_left _ _

/-- loading the padded buffer = loading the first 32 bytes -/
private theorem beNat_pad_take (c : Bytes) (hc : c.length ≤ 32) :
    beNat ((List.replicate (32 - c.length) (0 : UInt8) ++ c).take 32) = beNat c := by
  rw [List.take_of_length_le (Nat.le_of_eq (pad_length c hc)), Bip32.beNat_zeros_append]

/-! ### ModNScalar.SetByteSlice -/

/-! ### FieldVal.SetByteSlice -/

theorem fieldSetByteSlice_regenerated (f : Nat) (b : Bytes) (hb : b.length < 2^32) :
    Secp.Gen.Drivers.fieldSetByteSliceGen f b
      = (decide (beNat (b.take 32) ≥ P), beNat (b.take 32)) := by
  have hc := take32_length_le b
  have hpad := pad_eq (b.take 32) hc
  unfold Secp.Gen.Drivers.fieldSetByteSliceGen
  simp only [trunc_eq b hb] at hpad ⊢
  rw [hpad, Bip32.beNat_zeros_append]
  by_cases h : beNat (b.take 32) ≥ P <;> simp [h]

/-! ### ModNScalar.InverseValNonConst -/

private theorem setByteSlice_minBytes {x : Nat} (hx : x < N) :
    (scalarSetByteSlice (minBytes x)).1 = x := by
  have hx32 : x < 256 ^ 32 := Nat.lt_trans hx Bip32.N_lt_256_32
  unfold scalarSetByteSlice
  simp only [Bip32.minBytes_take32 hx32]
  rw [if_neg (Nat.not_le.2 hx)]

end Secp.Proofs.DriversWrapField

