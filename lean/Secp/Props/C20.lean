import Secp.Proofs.Total
import Secp.Props.C08
import Secp.Props.C09
/-
  Props/C20 — parsers and verifiers are total, pure and leave caller data untouched.

  "Never panics": the models in `Model/Total.lean` (and `parseDER`, `parsePubKey`, proved in C09/C08)
  make every Go index/slice expression explicit and return `panic` where Go would; the theorems say
  that outcome is impossible for EVERY byte string, and that the explicit models agree with the total
  models used by the other properties.  "Pure / arguments untouched / history-free": every model is a
  function of its arguments; for the CODE this is checked by the correspondence run (argument
  snapshots around every call, recover() around every call, repeated calls in shuffled orders), and
  by C17's regenerated facts (no entry point writes shared state).  Termination of the model functions
  is Lean's own totality check; the two unbounded Go loops (RFC 6979 candidates, sign retry) are
  modelled with fuel (see C01/C10).  Documented panics on API misuse (RecoverPublicKey on a signature
  built without a recovery code, ExtendedKey.ToECDSA on a public key) are outside the property.
-/
namespace Secp.Props.C20
open Secp.Spec Secp.Model

theorem setByteSlice_total (b : Bytes) :
    setByteSliceO b = .ok (List.replicate (32 - min b.length 32) 0 ++ b.take 32) :=
  Secp.Proofs.Total.setByteSlice_total b

/-- the explicit SetByteSlice agrees with the value-level reading used everywhere else -/
theorem setByteSlice_value (b : Bytes) :
    ∃ b32, setByteSliceO b = .ok b32 ∧ b32.length = 32 ∧ scalarSetByteSlice b32 = scalarSetByteSlice b :=
  Secp.Proofs.Total.setByteSlice_value b

theorem parseCompact_total (sig : Bytes) : parseCompactO sig = .ok (parseCompactM sig) :=
  Secp.Proofs.Total.parseCompact_total sig

theorem schnorrParse_total (sig : Bytes) : schnorrParseO sig = .ok (schnorrParse sig) :=
  Secp.Proofs.Total.schnorrParse_total sig

theorem unmarshal_total (data : Bytes) : unmarshalO data = .ok (unmarshal data) :=
  Secp.Proofs.Total.unmarshal_total data

theorem nonceKeyBuf_total (priv hash extra version : Bytes) :
    nonceKeyBufO priv hash extra version = .ok (nonceKeyBuf priv hash extra version) :=
  Secp.Proofs.Total.nonceKeyBuf_total priv hash extra version

/-- DER and public-key parsing: from C09 / C08 -/
theorem parseDER_total (b : Bytes) : parseDER b ≠ .panic := Secp.Props.C09.parseDER_no_panic b
theorem parsePubKey_total (b : Bytes) : parsePubKey b ≠ .panic := Secp.Props.C08.parsePubKey_no_panic b

/-- recovery panics only on the documented misuse -/
theorem recover_total (h : Bytes) (r s v : Nat) (hv : v ≠ 0xff) : recoverM h r s v ≠ .error .Panic :=
  Secp.Proofs.Total.recover_total h r s v hv

end Secp.Props.C20
