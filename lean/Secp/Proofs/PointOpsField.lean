/-
  Proofs/PointOpsField — the Jacobian formulas of curve.go as polynomials over `ZMod P`
  (add-2007-bl and its Z-specialisations, zadd-2007-m, dbl-2009-l) and the chord / tangent
  identities they satisfy.  None of these identities uses the curve equation.
-/
import Secp.Proofs.FieldBridge
import Mathlib.Tactic.FieldSimp
import Mathlib.Tactic.Ring
import Mathlib.Tactic.LinearCombination

namespace Secp.Proofs.PointOps
open Secp.Spec Secp.Proofs

abbrev F := ZMod Secp.Spec.P

theorem two_ne_zero_F : (2 : F) ≠ 0 := by
  have h : ((2 : ℕ) : F) ≠ 0 := by
    rw [Ne, ZMod.natCast_eq_zero_iff]
    intro h
    have h1 := Nat.le_of_dvd (by norm_num) h
    have h2 := two_lt_P
    omega
  simpa using h

/-! ### affine chord and tangent (the formulas of `Spec.Pt.add`, `Spec.Pt.dbl`) -/

def chX (x1 y1 x2 y2 : F) : F := ((y2 - y1) * (x2 - x1)⁻¹) ^ 2 - x1 - x2
def chY (x1 y1 x2 y2 : F) : F := ((y2 - y1) * (x2 - x1)⁻¹) * (x1 - chX x1 y1 x2 y2) - y1
def tgX (x y : F) : F := ((3 * x ^ 2) * (2 * y)⁻¹) ^ 2 - 2 * x
def tgY (x y : F) : F := ((3 * x ^ 2) * (2 * y)⁻¹) * (x - tgX x y) - y

/-! ### dbl-2009-l (a = 0) -/

def dbX (x y : F) : F := 9 * x ^ 4 - 8 * x * y ^ 2
def dbY (x y : F) : F := 3 * x ^ 2 * (4 * x * y ^ 2 - dbX x y) - 8 * y ^ 4
def dbZ (y z : F) : F := 2 * y * z

theorem dbl_tangent (x y Z : F) (hy : y ≠ 0) (hZ : Z ≠ 0) :
    dbZ (y * Z ^ 3) Z ≠ 0 ∧
    dbX (x * Z ^ 2) (y * Z ^ 3) = tgX x y * dbZ (y * Z ^ 3) Z ^ 2 ∧
    dbY (x * Z ^ 2) (y * Z ^ 3) = tgY x y * dbZ (y * Z ^ 3) Z ^ 3 := by
  have h2 := two_ne_zero_F
  refine ⟨?_, ?_, ?_⟩
  · unfold dbZ
    exact mul_ne_zero (mul_ne_zero h2 (mul_ne_zero hy (pow_ne_zero _ hZ))) hZ
  · unfold dbX tgX dbZ
    field_simp
    ring
  · unfold dbY tgY dbX tgX dbZ
    field_simp
    ring

/-! ### add-2007-bl -/

def agX (X1 Y1 Z1 X2 Y2 Z2 : F) : F :=
  (2 * (Y2 * Z1 ^ 3 - Y1 * Z2 ^ 3)) ^ 2 - (X2 * Z1 ^ 2 - X1 * Z2 ^ 2) * (2 * (X2 * Z1 ^ 2 - X1 * Z2 ^ 2)) ^ 2
    - 2 * (X1 * Z2 ^ 2 * (2 * (X2 * Z1 ^ 2 - X1 * Z2 ^ 2)) ^ 2)
def agY (X1 Y1 Z1 X2 Y2 Z2 : F) : F :=
  (2 * (Y2 * Z1 ^ 3 - Y1 * Z2 ^ 3)) * (X1 * Z2 ^ 2 * (2 * (X2 * Z1 ^ 2 - X1 * Z2 ^ 2)) ^ 2 - agX X1 Y1 Z1 X2 Y2 Z2)
    - 2 * (Y1 * Z2 ^ 3) * ((X2 * Z1 ^ 2 - X1 * Z2 ^ 2) * (2 * (X2 * Z1 ^ 2 - X1 * Z2 ^ 2)) ^ 2)
def agZ (X1 Z1 X2 Z2 : F) : F := 2 * Z1 * Z2 * (X2 * Z1 ^ 2 - X1 * Z2 ^ 2)

/-- the output triple represents the chord point, whatever affine point the inputs represent -/
def ChordRep (X1 Y1 Z1 X2 Y2 Z2 X3 Y3 Z3 : F) : Prop :=
  ∀ x1 y1 x2 y2 : F, X1 = x1 * Z1 ^ 2 → Y1 = y1 * Z1 ^ 3 → X2 = x2 * Z2 ^ 2 → Y2 = y2 * Z2 ^ 3 →
    Z1 ≠ 0 → Z2 ≠ 0 → x1 ≠ x2 →
    Z3 ≠ 0 ∧ X3 = chX x1 y1 x2 y2 * Z3 ^ 2 ∧ Y3 = chY x1 y1 x2 y2 * Z3 ^ 3

theorem chordRep_addG (X1 Y1 Z1 X2 Y2 Z2 : F) :
    ChordRep X1 Y1 Z1 X2 Y2 Z2 (agX X1 Y1 Z1 X2 Y2 Z2) (agY X1 Y1 Z1 X2 Y2 Z2) (agZ X1 Z1 X2 Z2) := by
  intro x1 y1 x2 y2 hX1 hY1 hX2 hY2 hZ1 hZ2 hne
  subst hX1 hY1 hX2 hY2
  have h2 := two_ne_zero_F
  have hd : x2 - x1 ≠ 0 := sub_ne_zero.2 (Ne.symm hne)
  have hH : x2 * Z2 ^ 2 * Z1 ^ 2 - x1 * Z1 ^ 2 * Z2 ^ 2 = (x2 - x1) * Z1 ^ 2 * Z2 ^ 2 := by ring
  refine ⟨?_, ?_, ?_⟩
  · unfold agZ
    rw [hH]
    exact mul_ne_zero (mul_ne_zero (mul_ne_zero h2 hZ1) hZ2)
      (mul_ne_zero (mul_ne_zero hd (pow_ne_zero _ hZ1)) (pow_ne_zero _ hZ2))
  · unfold agX chX agZ
    field_simp
    ring
  · unfold agY chY agX chX agZ
    field_simp
    ring

/-! ### zadd-2007-m (Z1 = Z2) -/

def azX (X1 Y1 X2 Y2 : F) : F := (Y2 - Y1) ^ 2 - X1 * (X2 - X1) ^ 2 - X2 * (X2 - X1) ^ 2
def azY (X1 Y1 X2 Y2 : F) : F :=
  (Y2 - Y1) * (X1 * (X2 - X1) ^ 2 - azX X1 Y1 X2 Y2) - Y1 * (X2 * (X2 - X1) ^ 2 - X1 * (X2 - X1) ^ 2)
def azZ (X1 Z1 X2 : F) : F := Z1 * (X2 - X1)

theorem chordRep_addZ (X1 Y1 Z X2 Y2 : F) :
    ChordRep X1 Y1 Z X2 Y2 Z (azX X1 Y1 X2 Y2) (azY X1 Y1 X2 Y2) (azZ X1 Z X2) := by
  intro x1 y1 x2 y2 hX1 hY1 hX2 hY2 hZ1 _ hne
  subst hX1 hY1 hX2 hY2
  have hd : x2 - x1 ≠ 0 := sub_ne_zero.2 (Ne.symm hne)
  have hH : x2 * Z ^ 2 - x1 * Z ^ 2 = (x2 - x1) * Z ^ 2 := by ring
  refine ⟨?_, ?_, ?_⟩
  · unfold azZ
    rw [hH]
    exact mul_ne_zero hZ1 (mul_ne_zero hd (pow_ne_zero _ hZ1))
  · unfold azX chX azZ
    field_simp
  · unfold azY chY azX chX azZ
    field_simp

end Secp.Proofs.PointOps
