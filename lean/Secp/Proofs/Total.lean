import Secp.Model.Total
import Secp.Proofs.Der
import Secp.Proofs.PubKey
import Secp.Proofs.Ecdsa
/-
  Proofs/Total — the explicit-bounds models of `Model/Total.lean` never panic and agree with the
  total models (C20).
-/
namespace Secp.Proofs.Total
open Secp.Spec Secp.Model Secp.Proofs.Der

/-! ### slices -/

theorem slice_ok' (b : Bytes) (lo hi : Nat) (h1 : lo ≤ hi) (h2 : hi ≤ b.length) :
    (slice b lo hi : O Bytes) = .ok ((b.take hi).drop lo) := by
  unfold slice; rw [if_pos ⟨h1, h2⟩]

theorem sliceFrom_ok (b : Bytes) (lo : Nat) (h : lo ≤ b.length) :
    (sliceFrom b lo : O Bytes) = .ok (b.drop lo) := by
  unfold sliceFrom; rw [if_pos h]

theorem idx_ok' (b : Bytes) (i : Nat) (h : i < b.length) : (idx b i : O UInt8) = .ok (b[i]'h) := by
  unfold idx
  rw [List.getElem?_eq_getElem h]

/-! ### SetByteSlice -/

theorem setByteSlice_total (b : Bytes) :
    setByteSliceO b = .ok (List.replicate (32 - min b.length 32) 0 ++ b.take 32) := by
  unfold setByteSliceO
  simp only []
  rw [slice_ok' b 0 (min b.length 32) (Nat.zero_le _) (Nat.min_le_left _ _)]
  simp only [Outcome.bind_ok, List.drop_zero, List.length_take, Nat.min_assoc]
  rw [slice_ok' _ 0 _ (Nat.zero_le _) (by simp), sliceFrom_ok _ _ (by simp)]
  simp only [Outcome.bind_ok, Outcome.pure_eq]
  congr 2
  · congr 1; omega
  · rw [List.take_eq_take_iff]; omega

theorem setByteSlice_of_length (b : Bytes) (h : b.length = 32) : setByteSliceO b = .ok b := by
  rw [setByteSlice_total, h]
  simp [List.take_of_length_le (Nat.le_of_eq h)]

theorem beNat_replicate_zero (n : Nat) (b : Bytes) : beNat (List.replicate n (0 : UInt8) ++ b) = beNat b := by
  induction n with
  | zero => rfl
  | succ n ih => rw [List.replicate_succ, List.cons_append, beNat_zero_cons, ih]

theorem setByteSlice_value (b : Bytes) :
    ∃ b32, setByteSliceO b = .ok b32 ∧ b32.length = 32 ∧ scalarSetByteSlice b32 = scalarSetByteSlice b := by
  refine ⟨_, setByteSlice_total b, ?_, ?_⟩
  · simp only [List.length_append, List.length_replicate, List.length_take]; omega
  · have hl : (List.replicate (32 - min b.length 32) (0 : UInt8) ++ b.take 32).length = 32 := by
      simp only [List.length_append, List.length_replicate, List.length_take]; omega
    unfold scalarSetByteSlice
    rw [List.take_of_length_le (Nat.le_of_eq hl), beNat_replicate_zero]

/-! ### ParseCompactSignature -/

theorem headD_eq (b : Bytes) (d : UInt8) (h : 0 < b.length) : b.headD d = b[0]'h := by
  cases b with
  | nil => cases h
  | cons x xs => rfl

theorem parseCompact_total (sig : Bytes) : parseCompactO sig = .ok (parseCompactM sig) := by
  unfold parseCompactO parseCompactM
  by_cases hl : sig.length = 65
  · have h1 : ((sig.take 33).drop 1).length = 32 := by simp [hl]
    have h2 : (sig.drop 33).length = 32 := by simp [hl]
    simp only [hl, ne_eq, not_true_eq_false, if_false]
    rw [idx_ok' sig 0 (by omega), headD_eq sig 0 (by omega)]
    simp only [Outcome.bind_ok]
    rw [slice_ok' sig 1 33 (by omega) (by omega), sliceFrom_ok sig 33 (by omega)]
    simp only [Outcome.bind_ok]
    rw [setByteSlice_of_length _ h1, setByteSlice_of_length _ h2]
    simp only [Outcome.bind_ok]
    split_ifs <;> rfl
  · simp only [hl, ne_eq, not_false_eq_true, if_true]
    rfl

/-! ### schnorr ParseSignature -/

theorem schnorrParse_total (sig : Bytes) : schnorrParseO sig = .ok (schnorrParse sig) := by
  unfold schnorrParseO schnorrParse
  by_cases h1 : sig.length < 64
  · simp only [h1, if_true]; rfl
  by_cases h2 : sig.length > 64
  · simp only [h1, h2, if_true, if_false]; rfl
  have hl : sig.length = 64 := by omega
  have e1 : (sig.take 32).length = 32 := by simp [hl]
  have e2 : (sig.drop 32).length = 32 := by simp [hl]
  simp only [h1, h2, if_false]
  rw [slice_ok' sig 0 32 (by omega) (by omega), slice_ok' sig 32 64 (by omega) (by omega)]
  simp only [Outcome.bind_ok, List.drop_zero, List.take_of_length_le (Nat.le_of_eq hl)]
  rw [setByteSlice_of_length _ e1, setByteSlice_of_length _ e2]
  simp only [Outcome.bind_ok]
  split_ifs <;> rfl

/-! ### BIP32 UnmarshalBinary -/

theorem getD_eq (b : Bytes) (i : Nat) (d : UInt8) (h : i < b.length) : b.getD i d = b[i]'h := by
  simp [List.getD, List.getElem?_eq_getElem h]

theorem unmarshal_total (data : Bytes) : unmarshalO data = .ok (unmarshal data) := by
  unfold unmarshalO unmarshal
  by_cases hl : data.length = 82
  · simp only [hl, ne_eq, not_true_eq_false, if_false]
    rw [slice_ok' data 0 78 (by omega) (by omega), sliceFrom_ok data 78 (by omega)]
    simp only [Outcome.bind_ok, List.drop_zero]
    generalize hpl : data.take 78 = payload
    have hpL : payload.length = 78 := by rw [← hpl]; simp [hl]
    rw [slice_ok' payload 0 4 (by omega) (by omega), slice_ok' payload 4 5 (by omega) (by omega),
      slice_ok' payload 5 9 (by omega) (by omega), slice_ok' payload 9 13 (by omega) (by omega),
      slice_ok' payload 13 45 (by omega) (by omega), slice_ok' payload 45 78 (by omega) (by omega)]
    simp only [Outcome.bind_ok, List.drop_zero]
    have hd : ((payload.take 5).drop 4).length = 1 := by simp [hpL]
    rw [idx_ok' _ 0 (by omega)]
    simp only [Outcome.bind_ok]
    have hd0 : ((payload.take 5).drop 4)[0]'(by omega) = payload.getD 4 0 := by
      rw [getD_eq payload 4 0 (by omega)]
      simp
    rw [hd0]
    generalize hkd : (payload.take 78).drop 45 = keyData
    have hkL : keyData.length = 33 := by rw [← hkd]; simp [hpL]
    rw [idx_ok' keyData 0 (by omega), sliceFrom_ok keyData 1 (by omega)]
    simp only [Outcome.bind_ok]
    rw [headD_eq keyData 1 (by omega)]
    have hnp := PubKey.parsePubKey_no_panic keyData
    cases hpk : parsePubKey keyData with
    | ok a => simp only []; split_ifs <;> rfl
    | err e => simp only []; split_ifs <;> rfl
    | panic => exact absurd hpk hnp
  · simp only [hl, ne_eq, not_false_eq_true, if_true]
    rfl

/-! ### NonceRFC6979 key buffer -/

theorem copyAt_zeros (A : Bytes) (m z off : Nat) (src : Bytes) (h : z + src.length ≤ m)
    (hoff : off = A.length + z) :
    copyAt (A ++ List.replicate m (0 : UInt8)) off src
      = (A ++ List.replicate z 0 ++ src) ++ List.replicate (m - z - src.length) 0 := by
  subst hoff
  unfold copyAt
  have e1 : (A ++ List.replicate m (0 : UInt8)).take (A.length + z) = A ++ List.replicate z 0 := by
    rw [List.take_append, List.take_of_length_le (by omega)]
    simp only [Nat.add_sub_cancel_left, List.take_replicate]
    congr 2; omega
  have e2 : src.take ((A ++ List.replicate m (0 : UInt8)).length - (A.length + z)) = src := by
    apply List.take_of_length_le
    simp only [List.length_append, List.length_replicate]; omega
  have e3 : (A ++ List.replicate m (0 : UInt8)).drop
      (min (A ++ List.replicate m (0 : UInt8)).length (A.length + z + src.length))
      = List.replicate (m - z - src.length) 0 := by
    rw [Nat.min_eq_right (by simp only [List.length_append, List.length_replicate]; omega)]
    rw [List.drop_append, List.drop_of_length_le (by omega)]
    simp only [List.nil_append, List.drop_replicate]
    congr 1; omega
  rw [e1, e2, e3]

theorem trunc_ok (b : Bytes) :
    ((if b.length > 32 then slice b 0 32 else pure b : O Bytes)) = .ok (b.take 32) := by
  split_ifs with h
  · rw [slice_ok' b 0 32 (by omega) (by omega)]; rfl
  · rw [List.take_of_length_le (by omega)]; rfl

theorem nonceKeyBuf_total (priv hash extra version : Bytes) :
    nonceKeyBufO priv hash extra version = .ok (nonceKeyBuf priv hash extra version) := by
  unfold nonceKeyBufO nonceKeyBuf
  simp only [trunc_ok, Outcome.bind_ok]
  generalize hp : priv.take 32 = p
  generalize hh : hash.take 32 = h
  have hpl : p.length ≤ 32 := by rw [← hp]; simp
  have hhl : h.length ≤ 32 := by rw [← hh]; simp
  have o1 : 32 - p.length + min (112 - (32 - p.length)) p.length = 32 := by omega
  have o2 : 32 + (32 - h.length) + min (112 - (32 + (32 - h.length))) h.length = 64 := by omega
  simp only [o1, o2]
  have e1 : copyAt (List.replicate 112 (0 : UInt8)) (32 - p.length) p
      = (zeros (32 - p.length) ++ p) ++ List.replicate 80 0 := by
    have := copyAt_zeros [] 112 (32 - p.length) (32 - p.length) p (by omega) (by simp)
    simp only [List.nil_append] at this
    rw [this, show 112 - (32 - p.length) - p.length = 80 by omega]; rfl
  have l1 : (zeros (32 - p.length) ++ p).length = 32 := by simp [zeros]; omega
  have e2 : copyAt ((zeros (32 - p.length) ++ p) ++ List.replicate 80 0) (32 + (32 - h.length)) h
      = (zeros (32 - p.length) ++ p ++ zeros (32 - h.length) ++ h) ++ List.replicate 48 0 := by
    rw [copyAt_zeros _ 80 (32 - h.length) _ h (by omega) (by rw [l1]),
      show 80 - (32 - h.length) - h.length = 48 by omega]; rfl
  have l2 : (zeros (32 - p.length) ++ p ++ zeros (32 - h.length) ++ h).length = 64 := by
    simp [zeros]; omega
  rw [e1, e2]
  generalize zeros (32 - p.length) ++ p ++ zeros (32 - h.length) ++ h = A at l2 ⊢
  generalize zeros (32 - p.length) ++ p = A1 at l1 ⊢
  rw [sliceFrom_ok _ _ (by simp; omega), sliceFrom_ok _ _ (by simp; omega)]
  simp only [Outcome.bind_ok]
  have tk : ∀ (B : Bytes) (n k : Nat), k = B.length →
      (slice (B ++ List.replicate n (0 : UInt8)) 0 k : O Bytes) = .ok B := by
    intro B n k hk
    rw [slice_ok' _ _ _ (by omega) (by simp; omega)]
    subst hk
    simp
  by_cases he : extra.length = 32 <;> by_cases hv : version.length = 16
  · simp only [he, hv, if_true]
    have e3 : copyAt (A ++ List.replicate 48 0) 64 extra = (A ++ extra) ++ List.replicate 16 0 := by
      have := copyAt_zeros A 48 0 64 extra (by omega) (by omega)
      simpa [he] using this
    have e4 : copyAt ((A ++ extra) ++ List.replicate 16 0) 96 version = (A ++ extra ++ version) ++ List.replicate 0 0 := by
      have := copyAt_zeros (A ++ extra) 16 0 96 version (by omega) (by simp; omega)
      simpa [hv] using this
    rw [sliceFrom_ok _ _ (by simp; omega)]
    simp only [Outcome.bind_ok, Nat.reduceSub, Nat.reduceAdd, Nat.min_self, show min 48 32 = 32 from rfl]
    rw [e3, sliceFrom_ok _ _ (by simp; omega)]
    simp only [Outcome.bind_ok]
    rw [e4, tk _ _ _ (by simp; omega)]
  · simp only [he, hv, if_true, if_false]
    have e3 : copyAt (A ++ List.replicate 48 0) 64 extra = (A ++ extra) ++ List.replicate 16 0 := by
      have := copyAt_zeros A 48 0 64 extra (by omega) (by omega)
      simpa [he] using this
    rw [sliceFrom_ok _ _ (by simp; omega)]
    simp only [Outcome.bind_ok, Nat.reduceSub, Nat.reduceAdd, show min 48 32 = 32 from rfl]
    rw [e3, tk _ _ _ (by simp; omega)]
  · simp only [he, hv, if_true, if_false]
    have e3 : copyAt (A ++ List.replicate 48 0) 96 version = (A ++ zeros 32 ++ version) ++ List.replicate 0 0 := by
      have := copyAt_zeros A 48 32 96 version (by omega) (by omega)
      simpa [hv, zeros] using this
    rw [sliceFrom_ok _ _ (by simp; omega)]
    simp only [Outcome.bind_ok, Nat.reduceSub, Nat.reduceAdd, Nat.min_self]
    rw [e3, tk _ _ _ (by simp [zeros]; omega)]
  · simp only [he, hv, if_false]
    rw [tk _ _ _ l2.symm]
/-! ### RecoverPublicKey -/

theorem recover_total (h : Bytes) (r s v : Nat) (hv : v ≠ 0xff) : recoverM h r s v ≠ .error .Panic :=
  fun hh => hv ((Secp.Proofs.Ecdsa.recover_panic_iff h r s v).1 hh)

end Secp.Proofs.Total
