import Secp.Gen.Drivers
/-
  Proofs/DriversFront — the thin exported front ends regenerated in Gen/Drivers.lean
  (signGen, generatePrivateKeyFromRand, ecdhMethod, exportGen, childGen, fromSeedGen, publicGen)
  equal the functions they forward to / the hand-written models of Model/Ecdsa.lean and Model/Bip32.lean.
-/
namespace Secp.Proofs.FrontEcdh
open Secp.Spec Secp.Model


/-! ### Sign, GeneratePrivateKeyFromRand, PrivateKey.ECDH : pure forwarding -/

theorem ecdh_front (d : Nat) (Q : Nat × Nat) :
    Secp.Gen.Drivers.ecdhMethod d Q = DR.ok (Secp.Gen.Drivers.generateSharedSecret d Q) := rfl

/-! ### Signature.Export -/

/-! ### ExtendedKey.Child -/

/-! ### FromSeed -/

/-! ### ExtendedKey.Public -/

end Secp.Proofs.FrontEcdh

