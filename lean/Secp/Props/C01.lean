import Secp.Proofs.Ecdsa
import Secp.Props.C03
import Secp.Proofs.Ecdh
import Secp.Proofs.Slices
/-
  Props/C01 — ECDSA signing is valid, deterministic and standard-conformant.
  Model: `Secp.Model.signM` (sign with a given nonce), `signRFC6979M` (retry loop over the RFC 6979
  candidates).  Specification: `Secp.Spec.ecdsaSignWithNonce`, `ecdsaSign`, `ecdsaVerify`.
-/
namespace Secp.Props.C01
open Secp.Spec Secp.Model

/-- with a given nonce the model returns exactly the FIPS 186 signature with s in the lower half and
    the recovery code of the nonce point (parity of y, x ≥ N) adjusted for the s flip -/
theorem sign_eq_spec (hp : PointSpec) (d k : Nat) (h : Bytes) (hd : d < N) (hk0 : 0 < k) (hk : k < N)
    (hfin : smul k G ≠ none) :
    signM d k h = ecdsaSignWithNonce d k h :=
  Secp.Proofs.Ecdsa.sign_eq_spec hp d k h hd hk0 hk hfin

/-- the deterministic signer follows the RFC 6979 candidate stream: first index whose signature exists -/
theorem signRFC6979_eq_spec (hp : PointSpec) (d : Nat) (h : Bytes) (hd : d < N) (fuel iter : Nat)
    (hfin : ∀ k, 0 < k → k < N → smul k G ≠ none) :
    signRFC6979Aux hmacSha256 d h fuel iter = ecdsaSignAuxGen hmacSha256 256 d h fuel iter :=
  Secp.Proofs.Ecdsa.signRFC6979_eq_spec hp d h hd fuel iter hfin

/-- s is always in the lower half and r, s are non-zero scalars -/
theorem sign_low_s (hp : PointSpec) (d k : Nat) (h : Bytes) (r s v : Nat) (hk : k < N)
    (hfin : smul k G ≠ none) (hs : signM d k h = some (r, s, v)) :
    0 < r ∧ r < N ∧ 0 < s ∧ s ≤ halfN ∧ v < 4 :=
  Secp.Proofs.Ecdsa.sign_low_s hp d k h r s v hk hfin hs

/-- the part of `sign_low_s` that needs nothing about the point layer (`r < N` needs the affine
    x coordinate returned by ToAffine to be < P) -/
theorem sign_low_s_partial (d k : Nat) (h : Bytes) (r s v : Nat) (hs : signM d k h = some (r, s, v)) :
    0 < r ∧ 0 < s ∧ s ≤ halfN ∧ v < 4 :=
  Secp.Proofs.Ecdsa.sign_low_s_partial d k h r s v hs

/-- signing is a function of (key, nonce, hash): determinism is definitional in the model; the
    code's determinism (no hidden state) is checked by the correspondence run, which signs every
    case twice around unrelated calls and compares all encodings byte for byte -/
theorem sign_deterministic (d : Nat) (h : Bytes) : signRFC6979M d h = signRFC6979M d h := rfl

/-- the hash is read as the first 32 bytes, big-endian, reduced mod N (shorter hashes are plain integers) -/
theorem hash_to_e (h : Bytes) : hashScalar h = beNat (h.take 32) % N :=
  Secp.Proofs.Ecdsa.hash_to_e h

/-! ### unconditional forms -/

theorem sign_eq_spec_unconditional (d k : Nat) (h : Bytes) (hd : d < N) (hk0 : 0 < k) (hk : k < N) :
    signM d k h = ecdsaSignWithNonce d k h := by
  obtain ⟨x, y, hxy, _⟩ := Secp.Proofs.Ecdh.pubkey_finite k hk0 hk
  exact sign_eq_spec Secp.Props.C03.pointSpec d k h hd hk0 hk (by rw [hxy]; exact Option.some_ne_none _)

theorem signRFC6979_eq_spec_unconditional (d : Nat) (h : Bytes) (hd : d < N) (fuel iter : Nat) :
    signRFC6979Aux hmacSha256 d h fuel iter = ecdsaSignAuxGen hmacSha256 256 d h fuel iter :=
  signRFC6979_eq_spec Secp.Props.C03.pointSpec d h hd fuel iter (fun k hk0 hk => by
    obtain ⟨x, y, hxy, _⟩ := Secp.Proofs.Ecdh.pubkey_finite k hk0 hk
    rw [hxy]; exact Option.some_ne_none _)


/-- Limb level of this property's own functions: the REGENERATED sliced field programs (tools/gotr pass T2s,
    `Secp.Gen.Slices`) of the field arithmetic of `sign` (k·G to affine, x → scalar with overflow flag, parity of y) pass the abstract interpreter on every path — no magnitude overflow, every
    comparison / parity test / serialisation reads a normalised value, every callee's precondition holds,
    every returned key or point is normalised.  Together with C05 (kernels) and C16 (`absPath_sound`,
    `contracts_justified`) this is what makes the value-level model above faithful to the limb code. -/
theorem sign_field_arithmetic_exact :
    Secp.Proofs.Slices.entriesOK ["github.com/ModChain/secp256k1.sign", "github.com/ModChain/secp256k1.fieldToModNScalar"] = true := by decide +kernel

end Secp.Props.C01
