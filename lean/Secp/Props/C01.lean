import Secp.Proofs.DriversPubKeyOf
import Secp.Proofs.DriversCompact
import Secp.Proofs.FrontSign
import Secp.Proofs.DriversSign
import Secp.Proofs.Ecdsa
import Secp.Props.C03
import Secp.Proofs.Ecdh
import Secp.Proofs.Slices
/-
  Props/C01 — ECDSA signing is valid, deterministic and standard-conformant.
  Model: `Secp.Model.signM` (sign with a given nonce), `signRFC6979M` (retry loop over the RFC 6979
  candidates).  Specification: `Secp.Spec.ecdsaSignWithNonce`, `ecdsaSign`, `ecdsaVerify`.
-/
namespace Secp.Props.C01
open Secp.Spec Secp.Model

/-- with a given nonce the model returns exactly the FIPS 186 signature with s in the lower half and
    the recovery code of the nonce point (parity of y, x ≥ N) adjusted for the s flip -/
theorem sign_eq_spec (hp : PointSpec) (d k : Nat) (h : Bytes) (hd : d < N) (hk0 : 0 < k) (hk : k < N)
    (hfin : smul k G ≠ none) :
    signM d k h = ecdsaSignWithNonce d k h :=
  Secp.Proofs.Ecdsa.sign_eq_spec hp d k h hd hk0 hk hfin

/-- the deterministic signer follows the RFC 6979 candidate stream: first index whose signature exists -/
theorem signRFC6979_eq_spec (hp : PointSpec) (d : Nat) (h : Bytes) (hd : d < N) (fuel iter : Nat)
    (hfin : ∀ k, 0 < k → k < N → smul k G ≠ none) :
    signRFC6979Aux hmacSha256 d h fuel iter = ecdsaSignAuxGen hmacSha256 256 d h fuel iter :=
  Secp.Proofs.Ecdsa.signRFC6979_eq_spec hp d h hd fuel iter hfin

/-- s is always in the lower half and r, s are non-zero scalars -/
theorem sign_low_s (hp : PointSpec) (d k : Nat) (h : Bytes) (r s v : Nat) (hk : k < N)
    (hfin : smul k G ≠ none) (hs : signM d k h = some (r, s, v)) :
    0 < r ∧ r < N ∧ 0 < s ∧ s ≤ halfN ∧ v < 4 :=
  Secp.Proofs.Ecdsa.sign_low_s hp d k h r s v hk hfin hs

/-- the part of `sign_low_s` that needs nothing about the point layer (`r < N` needs the affine
    x coordinate returned by ToAffine to be < P) -/
theorem sign_low_s_partial (d k : Nat) (h : Bytes) (r s v : Nat) (hs : signM d k h = some (r, s, v)) :
    0 < r ∧ 0 < s ∧ s ≤ halfN ∧ v < 4 :=
  Secp.Proofs.Ecdsa.sign_low_s_partial d k h r s v hs

/-- signing is a function of (key, nonce, hash): determinism is definitional in the model; the
    code's determinism (no hidden state) is checked by the correspondence run, which signs every
    case twice around unrelated calls and compares all encodings byte for byte -/
theorem sign_deterministic (d : Nat) (h : Bytes) : signRFC6979M d h = signRFC6979M d h := rfl

/-- the hash is read as the first 32 bytes, big-endian, reduced mod N (shorter hashes are plain integers) -/
theorem hash_to_e (h : Bytes) : hashScalar h = beNat (h.take 32) % N :=
  Secp.Proofs.Ecdsa.hash_to_e h

/-! ### unconditional forms -/

theorem sign_eq_spec_unconditional (d k : Nat) (h : Bytes) (hd : d < N) (hk0 : 0 < k) (hk : k < N) :
    signM d k h = ecdsaSignWithNonce d k h := by
  obtain ⟨x, y, hxy, _⟩ := Secp.Proofs.Ecdh.pubkey_finite k hk0 hk
  exact sign_eq_spec Secp.Props.C03.pointSpec d k h hd hk0 hk (by rw [hxy]; exact Option.some_ne_none _)

theorem signRFC6979_eq_spec_unconditional (d : Nat) (h : Bytes) (hd : d < N) (fuel iter : Nat) :
    signRFC6979Aux hmacSha256 d h fuel iter = ecdsaSignAuxGen hmacSha256 256 d h fuel iter :=
  signRFC6979_eq_spec Secp.Props.C03.pointSpec d h hd fuel iter (fun k hk0 hk => by
    obtain ⟨x, y, hxy, _⟩ := Secp.Proofs.Ecdh.pubkey_finite k hk0 hk
    rw [hxy]; exact Option.some_ne_none _)


/-- Limb level of this property's own functions: the REGENERATED sliced field programs (tools/gotr pass T2s,
    `Secp.Gen.Slices`) of the field arithmetic of `sign` (k·G to affine, x → scalar with overflow flag, parity of y) pass the abstract interpreter on every path — no magnitude overflow, every
    comparison / parity test / serialisation reads a normalised value, every callee's precondition holds,
    every returned key or point is normalised.  Together with C05 (kernels) and C16 (`absPath_sound`,
    `contracts_justified`) this is what makes the value-level model above faithful to the limb code. -/
theorem sign_field_arithmetic_exact :
    Secp.Proofs.Slices.entriesOK ["github.com/ModChain/secp256k1.sign", "github.com/ModChain/secp256k1.fieldToModNScalar"] = true := by decide +kernel

/-! ### Regenerated drivers (tools/gotr pass T8)

`Secp.Gen.Drivers` is REGENERATED from /repo on every check run: the Go functions below translated
statement by statement into Lean terms over the value-level primitives.  The theorems say the
regenerated definitions EQUAL the hand-written models the theorems above are about, so a change to
one of these functions either leaves the equality provable (then the property theorems still speak
about the code) or breaks this file.  `DR` = ok | err | panic | fuel (retry loop out of fuel) |
undef (an arithmetic assumption of the translation failed; shown never to occur). -/

section
-- the statements are re-checked against the proved ones up to the matchers only: keep the big definitions folded
attribute [local irreducible] signM signRFC6979Aux signRFC6979M Secp.Gen.Drivers.sign Secp.Gen.Drivers.signRFC6979
  Secp.Gen.Drivers.signRFC6979_loop Secp.Gen.Drivers.signCompact exportCompactM

/-- `sign` (signature.go) regenerated = `signM` -/
theorem sign_regenerated (d k : Nat) (h : Bytes) :
    Secp.Gen.Drivers.sign d k h = (match signM d k h with | some x => DR.ok x | none => DR.err ()) :=
  Secp.Proofs.DriversSign.sign_regenerated d k h

/-- `signRFC6979` (the retry loop with the RFC 6979 iteration counter) regenerated = `signRFC6979M` -/
theorem signRFC6979_regenerated (d : Nat) (h : Bytes) :
    Secp.Gen.Drivers.signRFC6979 d h = (match signRFC6979M d h with | some x => DR.ok x | none => DR.fuel) :=
  Secp.Proofs.DriversSign.signRFC6979_regenerated d h

/-- the loop for any fuel and starting iteration -/
theorem signRFC6979_loop_regenerated (d : Nat) (h : Bytes) (fuel iter : Nat) (hi : iter + fuel < 2^32) :
    Secp.Gen.Drivers.signRFC6979_loop d h (be32 d) fuel iter =
      (match signRFC6979Aux hmacSha256 d h fuel iter with | some x => DR.ok x | none => DR.fuel) :=
  Secp.Proofs.DriversSign.signRFC6979_loop_regenerated d h fuel iter hi

/-- `fieldToModNScalar` regenerated: reduction of a field value below 2^256 into a scalar with its overflow bit -/
theorem fieldToModNScalar_regenerated (v : Nat) (hv : v < 2^256) :
    Secp.Gen.Drivers.fieldToModNScalar v = (if v ≥ N then v - N else v, if v ≥ N then 1 else 0) :=
  Secp.Proofs.DriversSign.fieldToModNScalar_eq v hv

/-- `SignCompact` regenerated = the compact export of the RFC 6979 signature with header 27 (+4 when compressed) -/
theorem signCompact_regenerated (d : Nat) (h : Bytes) (c : Bool) :
    Secp.Gen.Drivers.signCompact d h c = (match Secp.Gen.Drivers.signRFC6979 d h with
      | .ok (r, s, v) => DR.ok (exportCompactM r s v true (27 + (if c then 4 else 0)))
      | .err e => DR.err e | .panic => DR.panic | .fuel => DR.fuel | .undef => DR.undef) :=
  Secp.Proofs.DriversCompact.signCompact_regenerated d h c
end

/-- `PrivateKey.PubKey` regenerated = the affine base-point multiple -/
theorem pubKey_regenerated (d : Nat) :
    Secp.Gen.Drivers.pubKey d = ((toAffineJ (scalarBaseMultNC d)).1, (toAffineJ (scalarBaseMultNC d)).2.1) :=
  Secp.Proofs.DriversPubKeyOf.pubKey_regenerated d

/-- the exported `Sign` is `signRFC6979` -/
theorem sign_front (d : Nat) (h : Bytes) : Secp.Gen.Drivers.signGen d h = Secp.Gen.Drivers.signRFC6979 d h :=
  Secp.Proofs.FrontSign.sign_front d h


/-- `PrivateKey.Sign` (crypto.Signer) regenerated: signs the digest AS GIVEN with `signRFC6979`; compact export (offset 0)
    exactly when the options are `*SignOptions{Format: SignFormatCompact}`, DER otherwise; the entropy argument is
    never used (it has no counterpart in the translation: any use would leave the subset) -/
theorem signer_front (d : Nat) (digest : Bytes) (opts : Option (Nat × Nat)) :
    Secp.Gen.Drivers.signerSign d digest opts =
      (match Secp.Gen.Drivers.signRFC6979 d digest with
       | .ok (r, s, v) =>
         DR.ok (if (opts.getD (0, 0)).1 == 1 then exportCompactM r s v true 0 else serializeDER r s)
       | .err e => DR.err e | .panic => DR.panic | .fuel => DR.fuel | .undef => DR.undef) :=
  Secp.Proofs.FrontSign.signer_front d digest opts

end Secp.Props.C01
