import Secp.Gen.Drivers
import Secp.Model.Adaptor
import Secp.Proofs.Der
/-
  Proofs/DriversVerify — the regenerated value-level drivers (Gen/Drivers.lean, pass T8) for
  Signature.Verify, Signature.RecoverPublicKey, GenerateSharedSecret and ScalarBaseMultNonConst
  equal the hand-written models.
-/
namespace Secp.Proofs.DriversRecover
open Secp.Spec Secp.Model

theorem put32 (v : Nat) :
    ((List.replicate 32 (0 : UInt8)).take 0 ++ (be32 v).take 32
      ++ (List.replicate 32 (0 : UInt8)).drop (0 + 32)) = be32 v := by
  have h1 : (be32 v).take 32 = be32 v := List.take_of_length_le (by rw [Der.be32_length]; exact Nat.le_refl _)
  have h2 : (List.replicate 32 (0 : UInt8)).drop (0 + 32) = [] :=
    List.drop_of_length_le (by rw [List.length_replicate]; exact Nat.le_refl _)
  rw [h1, h2, List.take_zero, List.nil_append, List.append_nil]

theorem modNScalarToField_eq' (v : Nat) (hv : v < 2^256) : Secp.Gen.Drivers.modNScalarToField v = v := by
  unfold Secp.Gen.Drivers.modNScalarToField
  simp only [put32]
  rw [Der.beNat_be32, Nat.mod_eq_of_lt hv]

theorem N_lt_pow : N < 2^256 := by decide

theorem fmul_mod (a b : Nat) : fmul a b % P = fmul a b := by
  unfold fmul; exact Nat.mod_mod _ _

theorem decompressYJ_mod (x : Nat) (o : Bool) (y : Nat) (hy : decompressYJ x o = some y) : y % P = y := by
  unfold decompressYJ at hy
  generalize runNamed "DecompressY" [x, 0] [o] = res at hy
  rcases res with _ | ⟨r, _ | _ | _⟩
  · cases hy
  · cases hy
  · cases hy
  · injection hy with hy; rw [← hy]; exact Nat.mod_mod _ _

theorem decide_ne_zero (a : Nat) : decide (¬ a = 0) = (a != 0) := by
  by_cases h : a = 0
  · subst h; rfl
  · rw [decide_eq_true h]; exact (bne_iff_ne.mpr h).symm


theorem recoverPublicKey_regenerated (r s v : Nat) (h : Bytes) (hr : r < N) :
     Secp.Gen.Drivers.recoverPublicKey (r, s, v) h =
       (match recoverM h r s v with
        | .ok p => DR.ok p
        | .error .Panic => DR.panic
        | .error .ErrSigOverflowsPrime => DR.err SigErr.ErrSigOverflowsPrime
        | .error .ErrPointNotOnCurve => DR.err SigErr.ErrPointNotOnCurve) := by
  have hrf : Secp.Gen.Drivers.modNScalarToField r = r :=
    modNScalarToField_eq' r (Nat.lt_trans hr N_lt_pow)
  have hmod := decompressYJ_mod
  unfold Secp.Gen.Drivers.recoverPublicKey recoverM hashScalar
  clear hr
  generalize Secp.Gen.Drivers.modNScalarToField = mf at hrf ⊢
  generalize decompressYJ = dec at hmod ⊢
  generalize addNC3 = add3
  generalize toAffineJ = toAff
  generalize scalarBaseMultNC = sbm
  generalize scalarMultNC = sm
  generalize ninv = ni
  generalize nmul = nm
  generalize nneg = nn
  generalize scalarSetByteSlice = ssb
  generalize P = p at hmod ⊢
  generalize N = n
  -- `generalize` alone is erased when the proof term is instantiated (beta); `as_aux_lemma` keeps the
  -- abstraction: the rest is checked by the kernel with all of the above as variables
  as_aux_lemma =>
  simp only [hrf, isInfJ, Bool.or_eq_true, beq_iff_eq, decide_eq_true_eq, bne_iff_ne, ne_eq,
    decide_ne_zero]
  by_cases hv : v = 255
  · simp only [if_pos hv]
  · simp only [if_neg hv]
    by_cases h2 : v &&& 2 = 0
    · simp only [h2, not_true_eq_false, if_false]
      cases hd : dec r (v &&& 1 != 0) with
      | none => dsimp only
      | some y =>
        dsimp only
        rw [hmod _ _ _ hd]
        split
        · rfl
        · rfl
    · simp only [h2, not_false_eq_true, if_true]
      by_cases hge : r ≥ p - n
      · simp only [if_pos hge]
      · simp only [if_neg hge]
        cases hd : dec (r + n) (v &&& 1 != 0) with
        | none => dsimp only
        | some y =>
          dsimp only
          rw [hmod _ _ _ hd]
          split
          · rfl
          · rfl


end Secp.Proofs.DriversRecover
