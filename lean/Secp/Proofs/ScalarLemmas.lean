import Secp.Proofs.IRRun
import Secp.Gen.Bounds
import Secp.Core.Limbs
/-
  Proofs/ScalarLemmas — building blocks for Proofs/ScalarSmall (C06):
  0/1 indicator calculus for the constant-time compare chains, the inlined `overflows`
  and `reduce256` chains in the exact shape `ir_steps` produces, byte packing, list
  destructuring.  Core Lean only.
-/
namespace Secp.Proofs.ScalarLemmas
open Secp.IR Secp.Gen Secp.Limbs Secp.Spec

/-! ### tactics -/

-- destructure `kernel_steps_W` for a concrete kernel (Go semantics, one equation per SSA value)
set_option hygiene false in
macro "run_W " k:ident inp:term : tactic =>
  `(tactic| (
    have h := kernel_steps_W $k $inp
    simp only [$k:ident, L8.toList, List.reverse_cons, List.reverse_nil, List.nil_append, List.cons_append] at h
    ir_steps h
    have hrun := h.out
    simp only [List.map, evalW, List.getD_cons_succ, List.getD_cons_zero] at hrun
    clear h))

-- destructure `kernel_steps` (ideal semantics + no-wrap certificate) for a concrete kernel
set_option hygiene false in
macro "run_N " k:ident inp:term " with " hin:term ", " hb:term ", " ho:term : tactic =>
  `(tactic| (
    have h := kernel_steps $k $inp _ _ _ $hin $hb $ho
    simp only [$k:ident, L8.toList, List.reverse_cons, List.reverse_nil, List.nil_append, List.cons_append] at h
    ir_steps h
    obtain ⟨hW, hrun⟩ := h.out
    simp only [List.map, evalN, List.getD_cons_succ, List.getD_cons_zero] at hrun
    clear h))

/-! ### 0/1 indicators -/

/-- `v` is the 0/1 indicator of `p` -/
def Ind (v : Nat) (p : Prop) : Prop := (v = 1 ∧ p) ∨ (v = 0 ∧ ¬p)

theorem Ind.beq {v a b : Nat} (e : v = b2n (a == b)) : Ind v (a = b) := by
  subst e; by_cases h : a = b <;> simp [Ind, b2n, h]
theorem Ind.bne {v a b : Nat} (e : v = b2n (a != b)) : Ind v (a ≠ b) := by
  subst e; by_cases h : a = b <;> simp [Ind, b2n, h]
theorem Ind.dec {v : Nat} {p : Prop} [Decidable p] (e : v = b2n (decide p)) : Ind v p := by
  subst e; by_cases h : p <;> simp [Ind, b2n, h]
theorem Ind.and {v x y : Nat} {p q r : Prop} (e : v = x &&& y) (hx : Ind x p) (hy : Ind y q)
    (h : p ∧ q ↔ r) : Ind v r := by
  subst e; rw [← h]
  rcases hx with ⟨rfl, hp⟩ | ⟨rfl, hp⟩ <;> rcases hy with ⟨rfl, hq⟩ | ⟨rfl, hq⟩ <;> simp [Ind, hp, hq]
theorem Ind.or {v x y : Nat} {p q r : Prop} (e : v = x ||| y) (hx : Ind x p) (hy : Ind y q)
    (h : p ∨ q ↔ r) : Ind v r := by
  subst e; rw [← h]
  rcases hx with ⟨rfl, hp⟩ | ⟨rfl, hp⟩ <;> rcases hy with ⟨rfl, hq⟩ | ⟨rfl, hq⟩ <;> simp [Ind, hp, hq]
theorem Ind.congr {v : Nat} {p q : Prop} (hx : Ind v p) (h : p ↔ q) : Ind v q := by
  rw [← h]; exact hx
theorem Ind.ite {v : Nat} {p : Prop} [Decidable p] (h : Ind v p) : v = if p then 1 else 0 := by
  rcases h with ⟨rfl, hp⟩ | ⟨rfl, hp⟩ <;> simp [hp]
theorem Ind.le_one {v : Nat} {p : Prop} (h : Ind v p) : v ≤ 1 := by
  rcases h with ⟨rfl, _⟩ | ⟨rfl, _⟩ <;> decide

/-! ### the `overflows` compare chain (stand-alone and inlined in SetBytes / Add2) -/

theorem overflows_chain (n0 n1 n2 n3 n4 n5 n6 n7 v0 v1 v2 v3 v4 v5 v6 v7 v8 v9 v10 v11 v12 v13 v14 v15 v16 : Nat)
  (h0 : n0 < 2^32) (h1 : n1 < 2^32) (h2 : n2 < 2^32) (h3 : n3 < 2^32) (h4 : n4 < 2^32) (h5 : n5 < 2^32) (h6 : n6 < 2^32) (h7 : n7 < 2^32)
  (e0 : v0 = b2n (n7 == 4294967295))
  (e1 : v1 = v0 &&& b2n (n6 == 4294967295))
  (e2 : v2 = v1 &&& b2n (n5 == 4294967295))
  (e3 : v3 = b2n (decide (4294967294 < n4)))
  (e4 : v4 = v2 &&& v3)
  (e5 : v5 = v2 &&& b2n (n4 == 4294967294))
  (e6 : v6 = b2n (decide (3132021990 < n3)))
  (e7 : v7 = v4 ||| v5 &&& v6)
  (e8 : v8 = v5 &&& b2n (n3 == 3132021990))
  (e9 : v9 = b2n (decide (2940772411 < n2)))
  (e10 : v10 = v7 ||| v8 &&& v9)
  (e11 : v11 = v8 &&& b2n (n2 == 2940772411))
  (e12 : v12 = b2n (decide (3218235020 < n1)))
  (e13 : v13 = v10 ||| v11 &&& v12)
  (e14 : v14 = v11 &&& b2n (n1 == 3218235020))
  (e15 : v15 = b2n (decide (3493216577 ≤ n0)))
  (e16 : v16 = v13 ||| v14 &&& v15) :
  v16 = if (⟨n0,n1,n2,n3,n4,n5,n6,n7⟩ : L8).val ≥ N then 1 else 0 := by
  have i0 := Ind.beq e0
  have i1 : Ind v1 (n6 + n7 * 2^32 = 2^64 - 1) := Ind.and e1 i0 (Ind.beq rfl) (by omega)
  have i2 : Ind v2 (n5 + n6 * 2^32 + n7 * 2^64 = 2^96 - 1) := Ind.and e2 i1 (Ind.beq rfl) (by omega)
  have i4 : Ind v4 (n4 + n5 * 2^32 + n6 * 2^64 + n7 * 2^96 > 2^128 - 2) := Ind.and e4 i2 (Ind.dec e3) (by omega)
  have i5 : Ind v5 (n4 + n5 * 2^32 + n6 * 2^64 + n7 * 2^96 = 2^128 - 2) := Ind.and e5 i2 (Ind.beq rfl) (by omega)
  have i7 : Ind v7 (n3 + n4 * 2^32 + n5 * 2^64 + n6 * 2^96 + n7 * 2^128 > 3132021990 + (2^128 - 2) * 2^32) :=
    Ind.or e7 i4 (Ind.and rfl i5 (Ind.dec e6) Iff.rfl) (by omega)
  have i8 : Ind v8 (n3 + n4 * 2^32 + n5 * 2^64 + n6 * 2^96 + n7 * 2^128 = 3132021990 + (2^128 - 2) * 2^32) :=
    Ind.and e8 i5 (Ind.beq rfl) (by omega)
  have i10 : Ind v10 (n2 + n3 * 2^32 + n4 * 2^64 + n5 * 2^96 + n6 * 2^128 + n7 * 2^160 > 2940772411 + 3132021990 * 2^32 + (2^128 - 2) * 2^64) :=
    Ind.or e10 i7 (Ind.and rfl i8 (Ind.dec e9) Iff.rfl) (by omega)
  have i11 : Ind v11 (n2 + n3 * 2^32 + n4 * 2^64 + n5 * 2^96 + n6 * 2^128 + n7 * 2^160 = 2940772411 + 3132021990 * 2^32 + (2^128 - 2) * 2^64) :=
    Ind.and e11 i8 (Ind.beq rfl) (by omega)
  have i13 : Ind v13 (n1 + n2 * 2^32 + n3 * 2^64 + n4 * 2^96 + n5 * 2^128 + n6 * 2^160 + n7 * 2^192 > 3218235020 + 2940772411 * 2^32 + 3132021990 * 2^64 + (2^128 - 2) * 2^96) :=
    Ind.or e13 i10 (Ind.and rfl i11 (Ind.dec e12) Iff.rfl) (by omega)
  have i14 : Ind v14 (n1 + n2 * 2^32 + n3 * 2^64 + n4 * 2^96 + n5 * 2^128 + n6 * 2^160 + n7 * 2^192 = 3218235020 + 2940772411 * 2^32 + 3132021990 * 2^64 + (2^128 - 2) * 2^96) :=
    Ind.and e14 i11 (Ind.beq rfl) (by omega)
  have i16 : Ind v16 ((⟨n0,n1,n2,n3,n4,n5,n6,n7⟩ : L8).val ≥ N) :=
    Ind.or e16 i13 (Ind.and rfl i14 (Ind.dec e15) Iff.rfl) (by simp only [L8.val, N]; omega)
  exact i16.ite

/-! ### the `IsOverHalfOrder` compare chain -/

theorem halfOrder_chain (n0 n1 n2 n3 n4 n5 n6 n7 v0 v1 v2 v3 v4 v5 v6 v7 v8 v9 v10 v11 v12 v13 v14 v15 v16 : Nat)
  (h0 : n0 < 2^32) (h1 : n1 < 2^32) (h2 : n2 < 2^32) (h3 : n3 < 2^32) (h4 : n4 < 2^32) (h5 : n5 < 2^32) (h6 : n6 < 2^32) (h7 : n7 < 2^32)
  (e0 : v0 = b2n (decide (2147483647 < n7)))
  (e1 : v1 = b2n (n7 == 2147483647))
  (e2 : v2 = v1 &&& b2n (n6 == 4294967295))
  (e3 : v3 = v2 &&& b2n (n5 == 4294967295))
  (e4 : v4 = v3 &&& b2n (n4 == 4294967295))
  (e5 : v5 = b2n (decide (1566010995 < n3)))
  (e6 : v6 = v0 ||| v4 &&& v5)
  (e7 : v7 = v4 &&& b2n (n3 == 1566010995))
  (e8 : v8 = b2n (decide (1470386205 < n2)))
  (e9 : v9 = v6 ||| v7 &&& v8)
  (e10 : v10 = v7 &&& b2n (n2 == 1470386205))
  (e11 : v11 = b2n (decide (3756601158 < n1)))
  (e12 : v12 = v9 ||| v10 &&& v11)
  (e13 : v13 = v10 &&& b2n (n1 == 3756601158))
  (e14 : v14 = b2n (decide (1746608288 < n0)))
  (e15 : v15 = v12 ||| v13 &&& v14)
  (e16 : v16 = b2n (v15 != 0)) :
  v16 = if (⟨n0,n1,n2,n3,n4,n5,n6,n7⟩ : L8).val > halfN then 1 else 0 := by
  have i0 := Ind.dec e0
  have i1 := Ind.beq e1
  have i2 : Ind v2 (n6 + n7 * 2^32 = 2^63 - 1) := Ind.and e2 i1 (Ind.beq rfl) (by omega)
  have i3 : Ind v3 (n5 + n6 * 2^32 + n7 * 2^64 = 2^95 - 1) := Ind.and e3 i2 (Ind.beq rfl) (by omega)
  have i4 : Ind v4 (n4 + n5 * 2^32 + n6 * 2^64 + n7 * 2^96 = 2^127 - 1) := Ind.and e4 i3 (Ind.beq rfl) (by omega)
  have i6 : Ind v6 (n3 + n4 * 2^32 + n5 * 2^64 + n6 * 2^96 + n7 * 2^128 > 1566010995 + (2^127 - 1) * 2^32) :=
    Ind.or e6 i0 (Ind.and rfl i4 (Ind.dec e5) Iff.rfl) (by omega)
  have i7 : Ind v7 (n3 + n4 * 2^32 + n5 * 2^64 + n6 * 2^96 + n7 * 2^128 = 1566010995 + (2^127 - 1) * 2^32) :=
    Ind.and e7 i4 (Ind.beq rfl) (by omega)
  have i9 : Ind v9 (n2 + n3 * 2^32 + n4 * 2^64 + n5 * 2^96 + n6 * 2^128 + n7 * 2^160 > 1470386205 + 1566010995 * 2^32 + (2^127 - 1) * 2^64) :=
    Ind.or e9 i6 (Ind.and rfl i7 (Ind.dec e8) Iff.rfl) (by omega)
  have i10 : Ind v10 (n2 + n3 * 2^32 + n4 * 2^64 + n5 * 2^96 + n6 * 2^128 + n7 * 2^160 = 1470386205 + 1566010995 * 2^32 + (2^127 - 1) * 2^64) :=
    Ind.and e10 i7 (Ind.beq rfl) (by omega)
  have i12 : Ind v12 (n1 + n2 * 2^32 + n3 * 2^64 + n4 * 2^96 + n5 * 2^128 + n6 * 2^160 + n7 * 2^192 > 3756601158 + 1470386205 * 2^32 + 1566010995 * 2^64 + (2^127 - 1) * 2^96) :=
    Ind.or e12 i9 (Ind.and rfl i10 (Ind.dec e11) Iff.rfl) (by omega)
  have i13 : Ind v13 (n1 + n2 * 2^32 + n3 * 2^64 + n4 * 2^96 + n5 * 2^128 + n6 * 2^160 + n7 * 2^192 = 3756601158 + 1470386205 * 2^32 + 1566010995 * 2^64 + (2^127 - 1) * 2^96) :=
    Ind.and e13 i10 (Ind.beq rfl) (by omega)
  have i15 : Ind v15 ((⟨n0,n1,n2,n3,n4,n5,n6,n7⟩ : L8).val > halfN) :=
    Ind.or e15 i12 (Ind.and rfl i13 (Ind.dec e14) Iff.rfl) (by simp only [L8.val, halfN, N]; omega)
  have i16 : Ind v16 ((⟨n0,n1,n2,n3,n4,n5,n6,n7⟩ : L8).val > halfN) := by
    rcases i15 with ⟨h, hp⟩ | ⟨h, hp⟩ <;> subst e16 <;> subst h
    · exact Or.inl ⟨by decide, hp⟩
    · exact Or.inr ⟨by decide, hp⟩
  exact i16.ite

/-! ### the `reduce256` carry chain (stand-alone and inlined in SetBytes / Add2) -/

theorem reduce256_chain (n0 n1 n2 n3 n4 n5 n6 n7 o v0 v1 v2 v3 v4 v5 v6 v7 v8 v9 v10 v11 v12 v13 v14 v15 : Nat)
  (e0 : v0 = n0 + o * 801750719)
  (e1 : v1 = v0 % 2 ^ 32 % 2 ^ 32)
  (e2 : v2 = v0 / 2 ^ 32 + n1 + o * 1076732275)
  (e3 : v3 = v2 % 2 ^ 32 % 2 ^ 32)
  (e4 : v4 = v2 / 2 ^ 32 + n2 + o * 1354194884)
  (e5 : v5 = v4 % 2 ^ 32 % 2 ^ 32)
  (e6 : v6 = v4 / 2 ^ 32 + n3 + o * 1162945305)
  (e7 : v7 = v6 % 2 ^ 32 % 2 ^ 32)
  (e8 : v8 = v6 / 2 ^ 32 + n4 + o)
  (e9 : v9 = v8 % 2 ^ 32 % 2 ^ 32)
  (e10 : v10 = v8 / 2 ^ 32 + n5)
  (e11 : v11 = v10 % 2 ^ 32 % 2 ^ 32)
  (e12 : v12 = v10 / 2 ^ 32 + n6)
  (e13 : v13 = v12 % 2 ^ 32 % 2 ^ 32)
  (e14 : v14 = v12 / 2 ^ 32 + n7)
  (e15 : v15 = v14 % 2 ^ 32 % 2 ^ 32) :
  (⟨v1, v3, v5, v7, v9, v11, v13, v15⟩ : L8).val + v14 / 2^32 * 2^256 =
      (⟨n0,n1,n2,n3,n4,n5,n6,n7⟩ : L8).val + o * (2^256 - N) ∧
  (⟨v1, v3, v5, v7, v9, v11, v13, v15⟩ : L8).U32 := by
  simp only [L8.val, L8.U32, N]
  omega

/-! ### the 256-bit addition carry chain of Add2 -/

theorem add_chain (a0 a1 a2 a3 a4 a5 a6 a7 b0 b1 b2 b3 b4 b5 b6 b7 v0 v1 v2 v3 v4 v5 v6 v7 v8 v9 v10 v11 v12 v13 v14 v15 : Nat)
  (e0 : v0 = a0 + b0)
  (e1 : v1 = v0 % 2 ^ 32 % 2 ^ 32)
  (e2 : v2 = v0 / 2 ^ 32 + a1 + b1)
  (e3 : v3 = v2 % 2 ^ 32 % 2 ^ 32)
  (e4 : v4 = v2 / 2 ^ 32 + a2 + b2)
  (e5 : v5 = v4 % 2 ^ 32 % 2 ^ 32)
  (e6 : v6 = v4 / 2 ^ 32 + a3 + b3)
  (e7 : v7 = v6 % 2 ^ 32 % 2 ^ 32)
  (e8 : v8 = v6 / 2 ^ 32 + a4 + b4)
  (e9 : v9 = v8 % 2 ^ 32 % 2 ^ 32)
  (e10 : v10 = v8 / 2 ^ 32 + a5 + b5)
  (e11 : v11 = v10 % 2 ^ 32 % 2 ^ 32)
  (e12 : v12 = v10 / 2 ^ 32 + a6 + b6)
  (e13 : v13 = v12 % 2 ^ 32 % 2 ^ 32)
  (e14 : v14 = v12 / 2 ^ 32 + a7 + b7)
  (e15 : v15 = v14 % 2 ^ 32 % 2 ^ 32) :
  (⟨v1, v3, v5, v7, v9, v11, v13, v15⟩ : L8).val + v14 / 2^32 * 2^256 =
      (⟨a0,a1,a2,a3,a4,a5,a6,a7⟩ : L8).val + (⟨b0,b1,b2,b3,b4,b5,b6,b7⟩ : L8).val ∧
  (⟨v1, v3, v5, v7, v9, v11, v13, v15⟩ : L8).U32 := by
  simp only [L8.val, L8.U32]
  omega

/-! ### bit operations -/

theorem or_shift (x y k : Nat) (hx : x < 2 ^ k) : x ||| y * 2 ^ k = x + y * 2 ^ k := by
  rw [Nat.or_comm, Nat.mul_comm, ← Nat.two_pow_add_eq_or_of_lt hx, Nat.add_comm]

/-- four bytes packed little-endian with `|||` and shifts -/
theorem or_bytes (b0 b1 b2 b3 : Nat) (h0 : b0 ≤ 255) (h1 : b1 ≤ 255) (h2 : b2 ≤ 255) :
    b0 ||| b1 * 2 ^ 8 ||| b2 * 2 ^ 16 ||| b3 * 2 ^ 24 = b0 + b1 * 2 ^ 8 + b2 * 2 ^ 16 + b3 * 2 ^ 24 := by
  rw [or_shift b0 b1 8 (by omega), or_shift _ b2 16 (by omega), or_shift _ b3 24 (by omega)]

theorem and_mask32 (x : Nat) : x &&& 4294967295 = x % 2 ^ 32 := Nat.and_two_pow_sub_one_eq_mod x 32

theorem or8_eq_zero (a0 a1 a2 a3 a4 a5 a6 a7 : Nat) :
    a0 ||| a1 ||| a2 ||| a3 ||| a4 ||| a5 ||| a6 ||| a7 = 0 ↔
      a0 = 0 ∧ a1 = 0 ∧ a2 = 0 ∧ a3 = 0 ∧ a4 = 0 ∧ a5 = 0 ∧ a6 = 0 ∧ a7 = 0 := by
  simp only [Nat.or_eq_zero_iff, and_assoc]

theorem xor_eq_zero_iff (a b : Nat) : a ^^^ b = 0 ↔ a = b := by
  constructor
  · intro h
    have : a ^^^ (a ^^^ b) = b := by rw [← Nat.xor_assoc, Nat.xor_self, Nat.zero_xor]
    rw [h, Nat.xor_zero] at this
    exact this
  · intro h; subst h; exact Nat.xor_self a

/-- words below 2^32 determine the value -/
theorem val_inj (a b : L8) (ha : a.U32) (hb : b.U32) :
    a.val = b.val ↔ a.n0 = b.n0 ∧ a.n1 = b.n1 ∧ a.n2 = b.n2 ∧ a.n3 = b.n3 ∧ a.n4 = b.n4 ∧ a.n5 = b.n5 ∧
      a.n6 = b.n6 ∧ a.n7 = b.n7 := by
  simp only [L8.val, L8.U32] at *
  omega

theorem val_lt (a : L8) (ha : a.U32) : a.val < 2 ^ 256 := by
  simp only [L8.val, L8.U32] at *
  omega

/-! ### lists of known length -/

theorem len_succ {l : List Nat} {n : Nat} (h : l.length = n + 1) : ∃ x t, l = x :: t ∧ t.length = n := by
  cases l with
  | nil => simp at h
  | cons x t => exact ⟨x, t, rfl, by simpa using h⟩

theorem list32 {l : List Nat} (h : l.length = 32) :
    ∃ b0 b1 b2 b3 b4 b5 b6 b7 b8 b9 b10 b11 b12 b13 b14 b15 b16 b17 b18 b19 b20 b21 b22 b23 b24 b25 b26 b27 b28 b29 b30 b31 : Nat,
      l = [b0, b1, b2, b3, b4, b5, b6, b7, b8, b9, b10, b11, b12, b13, b14, b15, b16, b17, b18, b19, b20, b21, b22, b23, b24, b25, b26, b27, b28, b29, b30, b31] := by
  obtain ⟨b0, l0, rfl, h0⟩ := len_succ h
  obtain ⟨b1, l1, rfl, h1⟩ := len_succ h0
  obtain ⟨b2, l2, rfl, h2⟩ := len_succ h1
  obtain ⟨b3, l3, rfl, h3⟩ := len_succ h2
  obtain ⟨b4, l4, rfl, h4⟩ := len_succ h3
  obtain ⟨b5, l5, rfl, h5⟩ := len_succ h4
  obtain ⟨b6, l6, rfl, h6⟩ := len_succ h5
  obtain ⟨b7, l7, rfl, h7⟩ := len_succ h6
  obtain ⟨b8, l8, rfl, h8⟩ := len_succ h7
  obtain ⟨b9, l9, rfl, h9⟩ := len_succ h8
  obtain ⟨b10, l10, rfl, h10⟩ := len_succ h9
  obtain ⟨b11, l11, rfl, h11⟩ := len_succ h10
  obtain ⟨b12, l12, rfl, h12⟩ := len_succ h11
  obtain ⟨b13, l13, rfl, h13⟩ := len_succ h12
  obtain ⟨b14, l14, rfl, h14⟩ := len_succ h13
  obtain ⟨b15, l15, rfl, h15⟩ := len_succ h14
  obtain ⟨b16, l16, rfl, h16⟩ := len_succ h15
  obtain ⟨b17, l17, rfl, h17⟩ := len_succ h16
  obtain ⟨b18, l18, rfl, h18⟩ := len_succ h17
  obtain ⟨b19, l19, rfl, h19⟩ := len_succ h18
  obtain ⟨b20, l20, rfl, h20⟩ := len_succ h19
  obtain ⟨b21, l21, rfl, h21⟩ := len_succ h20
  obtain ⟨b22, l22, rfl, h22⟩ := len_succ h21
  obtain ⟨b23, l23, rfl, h23⟩ := len_succ h22
  obtain ⟨b24, l24, rfl, h24⟩ := len_succ h23
  obtain ⟨b25, l25, rfl, h25⟩ := len_succ h24
  obtain ⟨b26, l26, rfl, h26⟩ := len_succ h25
  obtain ⟨b27, l27, rfl, h27⟩ := len_succ h26
  obtain ⟨b28, l28, rfl, h28⟩ := len_succ h27
  obtain ⟨b29, l29, rfl, h29⟩ := len_succ h28
  obtain ⟨b30, l30, rfl, h30⟩ := len_succ h29
  obtain ⟨b31, l31, rfl, h31⟩ := len_succ h30
  cases l31 with
  | nil => exact ⟨b0, b1, b2, b3, b4, b5, b6, b7, b8, b9, b10, b11, b12, b13, b14, b15, b16, b17, b18, b19, b20, b21, b22, b23, b24, b25, b26, b27, b28, b29, b30, b31, rfl⟩
  | cons _ _ => simp at h31

end Secp.Proofs.ScalarLemmas
