import Secp.Core.IR
/-
  Proofs/IRIndep — a kernel whose expressions never refer to its first inputs (the receiver
  words that the Go function only overwrites) returns the same outputs whatever those inputs are.
  The syntactic condition is a decidable check on the regenerated kernel.
-/
namespace Secp.Proofs.IRIndep
open Secp.IR

/-- every variable reference in the expression is `< n` -/
def varsLt (n : Nat) : Expr → Bool
  | .var i => decide (i < n)
  | .const _ => true
  | .add _ a b => varsLt n a && varsLt n b
  | .sub _ a b => varsLt n a && varsLt n b
  | .mul _ a b => varsLt n a && varsLt n b
  | .shr a _ => varsLt n a
  | .shl _ a _ => varsLt n a
  | .low _ a => varsLt n a
  | .and a b => varsLt n a && varsLt n b
  | .or a b => varsLt n a && varsLt n b
  | .xor a b => varsLt n a && varsLt n b
  | .not _ a => varsLt n a
  | .neg _ a => varsLt n a
  | .conv _ a => varsLt n a
  | .eq a b => varsLt n a && varsLt n b
  | .ne a b => varsLt n a && varsLt n b
  | .ctEq a b => varsLt n a && varsLt n b
  | .ctNe a b => varsLt n a && varsLt n b
  | .ctLt a b => varsLt n a && varsLt n b
  | .ctLe a b => varsLt n a && varsLt n b
  | .ctMin a b => varsLt n a && varsLt n b
  | .accAdd a b => varsLt n a && varsLt n b

/-- the j-th body entry only refers to the `n + j` newest environment slots -/
def bodyVarsLt : Nat → List Expr → Bool
  | _, [] => true
  | n, e :: rest => varsLt n e && bodyVarsLt (n + 1) rest

/-- the kernel reads at most its last `n` inputs -/
def readsOnlyLast (k : Kernel) (n : Nat) : Bool :=
  bodyVarsLt n k.body && k.outs.all (varsLt (n + k.body.length))

theorem evalW_agree (n : Nat) (env1 env2 : List Nat)
    (h : ∀ i, i < n → env1.getD i 0 = env2.getD i 0) (e : Expr) (hv : varsLt n e = true) :
    evalW env1 e = evalW env2 e := by
  induction e with
  | var i => simp only [varsLt, decide_eq_true_eq] at hv; simp only [evalW]; exact h i hv
  | const c => rfl
  | shr a k ih | shl w a k ih | low k a ih | not w a ih | neg w a ih | conv w a ih =>
    simp only [varsLt] at hv; simp only [evalW, ih hv]
  | add w a b iha ihb | sub w a b iha ihb | mul w a b iha ihb | and a b iha ihb | or a b iha ihb
  | xor a b iha ihb | eq a b iha ihb | ne a b iha ihb | ctEq a b iha ihb | ctNe a b iha ihb
  | ctLt a b iha ihb | ctLe a b iha ihb | ctMin a b iha ihb | accAdd a b iha ihb =>
    simp only [varsLt, Bool.and_eq_true] at hv; simp only [evalW, iha hv.1, ihb hv.2]

theorem runBody_agree (body : List Expr) : ∀ (n : Nat) (env1 env2 : List Nat),
    (∀ i, i < n → env1.getD i 0 = env2.getD i 0) → bodyVarsLt n body = true →
    ∀ i, i < n + body.length →
      (runBody evalW body env1).getD i 0 = (runBody evalW body env2).getD i 0 := by
  induction body with
  | nil => intro n env1 env2 h _ i hi; exact h i (by simpa using hi)
  | cons e rest ih =>
    intro n env1 env2 h hb i hi
    simp only [bodyVarsLt, Bool.and_eq_true] at hb
    simp only [runBody]
    refine ih (n + 1) _ _ ?_ hb.2 i (by simp only [List.length_cons] at hi; omega)
    intro j hj
    cases j with
    | zero => simp only [List.getD_cons_zero]; exact evalW_agree n env1 env2 h e hb.1
    | succ j => simp only [List.getD_cons_succ]; exact h j (by omega)

theorem runW_agree (k : Kernel) (n : Nat) (in1 in2 : List Nat)
    (h : ∀ i, i < n → in1.reverse.getD i 0 = in2.reverse.getD i 0)
    (hk : readsOnlyLast k n = true) : k.runW in1 = k.runW in2 := by
  simp only [readsOnlyLast, Bool.and_eq_true, List.all_eq_true] at hk
  simp only [Kernel.runW]
  apply List.map_congr_left
  intro e he
  exact evalW_agree _ _ _ (runBody_agree k.body n _ _ h hk.1) e (hk.2 e he)

/-- inputs `pre ++ t`: only `t` matters if the kernel reads only its last `t.length` inputs -/
theorem runW_prefix (k : Kernel) (pre1 pre2 t : List Nat)
    (hk : readsOnlyLast k t.length = true) : k.runW (pre1 ++ t) = k.runW (pre2 ++ t) := by
  apply runW_agree k t.length _ _ _ hk
  intro i hi
  simp only [List.reverse_append]
  have hl : i < t.reverse.length := by simpa using hi
  simp only [List.getD_eq_getElem?_getD, List.getElem?_append_left hl]

end Secp.Proofs.IRIndep
