/-
  Proofs/PointOpsR2AddZZ — addZ1EqualsZ2 (zadd-2007-m), result≡p2.
-/
import Secp.Proofs.PointOpsR2Base
import Secp.Proofs.PointOpsAddZZ

set_option linter.unusedSimpArgs false
namespace Secp.Proofs.PointOps
open Secp.Spec Secp.Model Secp.FOp Secp.Proofs
open Secp.Gen.FormulasC

theorem addZ1EqualsZ2_a011_contract (f : Nat) :
    AddContract (fun Z1 Z2 => Z1 = Z2) (RunR2 (f + 1) 17) (DRunP f) where
  ne := by
    intro X1 Y1 Z1 X2 Y2 Z2 hb1 hb2 hz1 hz2 hpre hne
    subst hpre
    have hzF : (Z1 : F) ≠ 0 := fun h => hz1 ((cast_eq_zero_iff_of_lt hb1.2.2).1 h)
    rw [Ne, ← addZZ_U_iff hb1.1 hb2.1 hzF] at hne
    refine ⟨?X3, ?Y3, ?Z3, ?run, ⟨?b1, ?b2, ?b3⟩, ?ch⟩
    case run =>
      show callE (f + 1) 17 [X1, Y1, Z1, X2, Y2, Z1] = some [X1, Y1, Z1, _, _, _]
      rw [callE_succ f 17 _ addZ1EqualsZ2_a011 rfl]
      exec_simp [addZ1EqualsZ2_a011, addZ1EqualsZ2_a011_p0, addZ1EqualsZ2_a011_p1, addZ1EqualsZ2_a011_p2, hne]
      and_intros <;> rfl
    case b1 => exact Nat.mod_lt _ P_pos
    case b2 => exact Nat.mod_lt _ P_pos
    case b3 => exact Nat.mod_lt _ P_pos
    case ch =>
      convert chordRep_addZ (X1 : F) Y1 Z1 X2 Y2 using 1
      all_goals cast_simp
      all_goals simp only [azX, azY, azZ]
      all_goals ring
  eq_ne := by
    intro X1 Y1 Z1 X2 Y2 Z2 hb1 hb2 hz1 hz2 hpre hU hS
    subst hpre
    have hzF : (Z1 : F) ≠ 0 := fun h => hz1 ((cast_eq_zero_iff_of_lt hb1.2.2).1 h)
    rw [Ne] at hS
    rw [← addZZ_U_iff hb1.1 hb2.1 hzF] at hU
    rw [← addZZ_S_iff hb1.2.1 hb2.2.1 hzF] at hS
    dsimp only at hU hS
    show callE (f + 1) 17 [X1, Y1, Z1, X2, Y2, Z1] = some [X1, Y1, Z1, 0, 0, 0]
    rw [callE_succ f 17 _ addZ1EqualsZ2_a011 rfl]
    exec_simp [addZ1EqualsZ2_a011, addZ1EqualsZ2_a011_p0, addZ1EqualsZ2_a011_p1, addZ1EqualsZ2_a011_p2, hS, hU]
  eq_eq := by
    intro X1 Y1 Z1 X2 Y2 Z2 hb1 hb2 hz1 hz2 hpre hU hS r hr
    subst hpre
    have hzF : (Z1 : F) ≠ 0 := fun h => hz1 ((cast_eq_zero_iff_of_lt hb1.2.2).1 h)
    rw [← addZZ_U_iff hb1.1 hb2.1 hzF] at hU
    rw [← addZZ_S_iff hb1.2.1 hb2.2.1 hzF] at hS
    obtain ⟨a, b, c⟩ := r
    have hr' : callE f 4 [X1, Y1, Z1, X2, Y2, Z1] = some [X1, Y1, Z1, a, b, c] := hr X2 Y2 Z1
    show callE (f + 1) 17 [X1, Y1, Z1, X2, Y2, Z1] = some [X1, Y1, Z1, a, b, c]
    rw [callE_succ f 17 _ addZ1EqualsZ2_a011 rfl]
    subst hU hS
    exec_simp [addZ1EqualsZ2_a011, addZ1EqualsZ2_a011_p0, addZ1EqualsZ2_a011_p1, addZ1EqualsZ2_a011_p2, hr']

end Secp.Proofs.PointOps
