//go:build verif

package main

import (
	"bytes"
	"crypto/ecdsa"
	"math/big"
	"strconv"

	secp "github.com/ModChain/secp256k1"
)

func bigHex(v *big.Int) string { return hx(be32(v)) }

func init() {
	cv := secp.S256()
	opImpl["ad_add"] = func(a []string) string {
		x1, y1 := new(big.Int).SetBytes(unhx(a[0])), new(big.Int).SetBytes(unhx(a[1]))
		x2, y2 := new(big.Int).SetBytes(unhx(a[2])), new(big.Int).SetBytes(unhx(a[3]))
		x, y := cv.Add(x1, y1, x2, y2)
		// the same call with big.Int OBJECTS shared between the arguments wherever the values allow it, and the
		// arguments must come back unchanged
		sx, sy := x2, y2
		if x1.Cmp(x2) == 0 {
			sx = x1
		}
		if y1.Cmp(y2) == 0 {
			sy = y1
		}
		xa, ya := cv.Add(x1, y1, sx, sy)
		if xa.Cmp(x) != 0 || ya.Cmp(y) != 0 {
			return "DEPENDS-ON-ARGUMENT-ALIASING " + bigHex(x) + " " + bigHex(y) + " vs " + bigHex(xa) + " " + bigHex(ya)
		}
		if bigHex(x1) != a[0] && len(a[0]) == 64 || x1.Cmp(new(big.Int).SetBytes(unhx(a[0]))) != 0 || y1.Cmp(new(big.Int).SetBytes(unhx(a[1]))) != 0 ||
			x2.Cmp(new(big.Int).SetBytes(unhx(a[2]))) != 0 || y2.Cmp(new(big.Int).SetBytes(unhx(a[3]))) != 0 {
			return "ARGUMENT-MODIFIED"
		}
		return bigHex(x) + " " + bigHex(y)
	}
	opImpl["ad_double"] = func(a []string) string {
		x1, y1 := new(big.Int).SetBytes(unhx(a[0])), new(big.Int).SetBytes(unhx(a[1]))
		x, y := cv.Double(x1, y1)
		if x1.Cmp(y1) == 0 { // equal coordinates: also as one shared object
			if xa, ya := cv.Double(x1, x1); xa.Cmp(x) != 0 || ya.Cmp(y) != 0 {
				return "DEPENDS-ON-ARGUMENT-ALIASING"
			}
		}
		if x1.Cmp(new(big.Int).SetBytes(unhx(a[0]))) != 0 || y1.Cmp(new(big.Int).SetBytes(unhx(a[1]))) != 0 {
			return "ARGUMENT-MODIFIED"
		}
		return bigHex(x) + " " + bigHex(y)
	}
	opImpl["ad_smul"] = func(a []string) string {
		k := unhx(a[2])
		return withArgsCheck([][]byte{k}, func() string {
			x, y := cv.ScalarMult(new(big.Int).SetBytes(unhx(a[0])), new(big.Int).SetBytes(unhx(a[1])), k)
			return bigHex(x) + " " + bigHex(y)
		})
	}
	opImpl["ad_sbmul"] = func(a []string) string {
		k := unhx(a[0])
		return withArgsCheck([][]byte{k}, func() string {
			x, y := cv.ScalarBaseMult(k)
			return bigHex(x) + " " + bigHex(y)
		})
	}
	opImpl["ad_isoncurve"] = func(a []string) string {
		return strconv.FormatBool(cv.IsOnCurve(new(big.Int).SetBytes(unhx(a[0])), new(big.Int).SetBytes(unhx(a[1]))))
	}
	// ecdh <a> <Qx> <Qy> <encoding 0..3>: the peer key goes through the named encoding first
	opImpl["ecdh"] = func(a []string) string {
		priv := secp.NewPrivateKey(scalarFromHex(a[0]))
		pub := pubFromXY(a[1], a[2])
		switch a[3] {
		case "1":
			pub, _ = secp.ParsePubKey(pub.SerializeCompressed())
		case "2":
			pub, _ = secp.ParsePubKey(pub.SerializeUncompressed())
		case "3":
			u := pub.SerializeUncompressed()
			u[0] = 6 + (u[64] & 1)
			pub, _ = secp.ParsePubKey(u)
		}
		if pub == nil {
			return "parse-failed"
		}
		fresh := secp.GenerateSharedSecret(priv, pub)
		// the same exchange on long-lived objects that earlier operations used with OTHER keys: a peer-key object
		// overwritten in place and a private-key object whose scalar is Set in place.  The secret depends on
		// the values only, never on object identity or on what was computed before.
		historyMu.Lock()
		reusePeer = *pub
		reusePriv.Key.Set(&priv.Key)
		viaFn := secp.GenerateSharedSecret(reusePriv, &reusePeer)
		viaMethod, err := reusePriv.ECDH(&reusePeer)
		ownPub := reusePriv.PubKey() // the long-lived object's public key follows its current scalar
		historyMu.Unlock()
		if !ownPub.IsEqual(priv.PubKey()) {
			return "PUBKEY-DEPENDS-ON-KEY-OBJECT-HISTORY"
		}
		again := secp.GenerateSharedSecret(priv, pub)
		if err != nil || !bytes.Equal(fresh, viaFn) || !bytes.Equal(fresh, viaMethod) || !bytes.Equal(fresh, again) {
			return "DEPENDS-ON-OBJECT-HISTORY fresh=" + hx(fresh) + " reused=" + hx(viaFn) + " method=" + hx(viaMethod)
		}
		if !pub.IsEqual(pubFromXY(a[1], a[2])) && a[3] == "0" {
			return "PEER-KEY-MODIFIED"
		}
		return hx(fresh)
	}
	// interop with crypto/ecdsa over S256(): sign here / verify there and vice versa, key conversions
	opImpl["interop"] = func(a []string) string {
		d := scalarFromHex(a[0])
		hash := unhx(a[1])
		key := secp.NewPrivateKey(d)
		std := key.ToECDSA()
		sig := secp.Sign(key, hash)
		r, s := sig.R(), sig.S()
		rb, sb := r.Bytes(), s.Bytes()
		ok1 := ecdsa.Verify(&std.PublicKey, hash, new(big.Int).SetBytes(rb[:]), new(big.Int).SetBytes(sb[:]))
		ok1b := ecdsa.VerifyASN1(&std.PublicKey, hash, sig.Serialize())
		// crypto/ecdsa signs (randomised), this package verifies
		r2, s2, err := ecdsa.Sign(zeroReader{}, std, hash)
		ok2 := false
		if err == nil {
			var rr, ss secp.ModNScalar
			rr.SetByteSlice(r2.Bytes())
			ss.SetByteSlice(s2.Bytes())
			ok2 = secp.NewSignature(&rr, &ss).Verify(hash, key.PubKey())
		}
		pk := key.PubKey().ToECDSA()
		same := pk.X.Cmp(std.PublicKey.X) == 0 && pk.Y.Cmp(std.PublicKey.Y) == 0 && std.D.Cmp(new(big.Int).SetBytes(key.Serialize())) == 0
		return "ours->std=" + strconv.FormatBool(ok1) + " asn1=" + strconv.FormatBool(ok1b) + " std->ours=" + strconv.FormatBool(ok2) + " keys=" + strconv.FormatBool(same)
	}
	generators["C14"] = genC14
	generators["C15"] = genC15
}

type zeroReader struct{}

func (zeroReader) Read(p []byte) (int, error) {
	for i := range p {
		p[i] = byte(i*7 + 3)
	}
	return len(p), nil
}

// pointsWithSpecialX: curve points whose x coordinate has a chosen shape (nearest abscissa at or above it)
// long-lived objects shared by all `ecdh` operations of a run (see the op)
var (
	reusePeer secp.PublicKey
	reusePriv = secp.NewPrivateKey(scalarFromHex("01"))
)

func (h *H) pointsWithSpecialX(n int) [][2]*big.Int {
	one := big.NewInt(1)
	var xs []*big.Int
	for _, v := range []int64{1, 2, 3, 4, 1 << 20, (1 << 32) + 900} {
		xs = append(xs, big.NewInt(v))
	}
	xs = append(xs, new(big.Int).Sub(curveP, big.NewInt(3)), new(big.Int).Sub(curveP, big.NewInt(int64(1+h.rng.Intn(1<<20)))))
	// abscissas in [N, P): valid field elements that are not canonical scalars
	xs = append(xs, new(big.Int).Set(curveN), new(big.Int).Add(curveN, big.NewInt(int64(1+h.rng.Intn(1000)))),
		new(big.Int).Sub(curveN, big.NewInt(1)), new(big.Int).Add(curveN, new(big.Int).Rand(h.rng, new(big.Int).Sub(curveP, curveN))))
	for i := 0; i < n; i++ {
		x := new(big.Int).SetBytes(h.randBytes(32))
		lo := uint(26 * h.rng.Intn(9))
		width := uint(26)
		switch h.rng.Intn(4) {
		case 0: // the window just below bit 78 (limb 2 of a Mul2 result is the one that keeps slack)
			lo, width = 64, 14
		case 1:
			lo, width = 52, 26
		}
		mask := new(big.Int).Lsh(new(big.Int).Sub(new(big.Int).Lsh(one, width), one), lo)
		if h.rng.Intn(2) == 0 {
			x.AndNot(x, mask)
		} else {
			x.Or(x, mask)
		}
		xs = append(xs, x.Mod(x, curveP))
	}
	var out [][2]*big.Int
	for _, x0 := range xs {
		x := new(big.Int).Set(x0)
		for k := 0; k < 64; k++ {
			y2 := new(big.Int).Exp(x, big.NewInt(3), curveP)
			y2.Add(y2, big.NewInt(7)).Mod(y2, curveP)
			if y := new(big.Int).ModSqrt(y2, curveP); y != nil {
				out = append(out, [2]*big.Int{new(big.Int).Set(x), y})
				break
			}
			x.Add(x, one).Mod(x, curveP)
		}
	}
	return out
}

func genC14(h *H) {
	n := 6 * h.budget
	for i := 0; i < n; i++ {
		a, b := h.randKeyInt(), h.randKeyInt()
		ka := secp.NewPrivateKey(scalarFromHex(hx(be32(a))))
		kb := secp.NewPrivateKey(scalarFromHex(hx(be32(b))))
		ua, ub := ka.PubKey().SerializeUncompressed(), kb.PubKey().SerializeUncompressed()
		for enc := 0; enc < 4; enc++ {
			h.do("a-with-B", "ecdh", hx(be32(a)), hx(ub[1:33]), hx(ub[33:65]), strconv.Itoa(enc))
			h.do("b-with-A", "ecdh", hx(be32(b)), hx(ua[1:33]), hx(ua[33:65]), strconv.Itoa(enc))
		}
	}
	// shared secrets with a chosen x: the peer key is Q = a^-1 * S for a point S whose x is tiny (below 2^32+977:
	// the un-reduced product x+p still fits 256 bits), has whole 26-bit limbs / the window above bit 64 cleared
	// or saturated, or is just below p - so the x that is serialised walks the limb boundaries
	for _, S := range h.pointsWithSpecialX(4 * h.budget) {
		a := h.randKeyInt()
		ainv := new(big.Int).ModInverse(a, curveN)
		var ks secp.ModNScalar
		ks.SetByteSlice(be32(ainv))
		sp := jacFrom(jacOf(S[0], S[1], big.NewInt(1)))
		var q secp.JacobianPoint
		secp.ScalarMultNonConst(&ks, &sp, &q)
		q.ToAffine()
		qx, qy := q.X.Bytes(), q.Y.Bytes()
		for enc := 0; enc < 4; enc++ {
			h.do("special-secret", "ecdh", hx(be32(a)), hx(qx[:]), hx(qy[:]), strconv.Itoa(enc))
		}
	}
	// peer keys built from a chosen x^3 / a small y (see specialPoints), in every encoding
	for _, pt := range h.specialPoints(3 * h.budget) {
		a := h.randKeyInt()
		for enc := 0; enc < 4; enc++ {
			h.do("special-peer", "ecdh", hx(be32(a)), hx(be32(pt[0])), hx(be32(pt[1])), strconv.Itoa(enc))
		}
	}
}

func genC15(h *H) {
	zero := hx(be32(big.NewInt(0)))
	n := 6 * h.budget
	for i := 0; i < n; i++ {
		x1, y1 := h.affinePoint()
		x2, y2 := h.affinePoint()
		ny1 := new(big.Int).Mod(new(big.Int).Neg(y1), curveP)
		X1, Y1, X2, Y2 := hx(be32(x1)), hx(be32(y1)), hx(be32(x2)), hx(be32(y2))
		h.do("add-generic", "ad_add", X1, Y1, X2, Y2)
		h.do("add-equal", "ad_add", X1, Y1, X1, Y1)
		h.do("add-opposite", "ad_add", X1, Y1, X1, hx(be32(ny1)))
		h.do("add-identity", "ad_add", zero, zero, X2, Y2)
		h.do("add-identity", "ad_add", X1, Y1, zero, zero)
		h.do("add-identity", "ad_add", zero, zero, zero, zero)
		h.do("double", "ad_double", X1, Y1)
		h.do("double-identity", "ad_double", zero, zero)
		h.do("isoncurve", "ad_isoncurve", X1, Y1)
		h.do("isoncurve", "ad_isoncurve", X1, Y2)
		h.do("isoncurve", "ad_isoncurve", zero, zero)
		// scalars of any byte length 0..70 incl. multiples of N, N±1, leading zeros
		for _, k := range [][]byte{
			{}, {0}, {1}, h.randBytes(1 + h.rng.Intn(31)), h.randBytes(32), h.randBytes(33 + h.rng.Intn(38)),
			curveN.Bytes(), new(big.Int).Add(curveN, big.NewInt(1)).Bytes(), new(big.Int).Sub(curveN, big.NewInt(1)).Bytes(),
			new(big.Int).Mul(curveN, big.NewInt(int64(2+h.rng.Intn(1000)))).Bytes(),
			append(make([]byte, 1+h.rng.Intn(8)), h.randBytes(32)...),
			append(make([]byte, 40), 5),
			// long scalars around multiples of 2^256 (a fold hi*(2^256-N)+lo that carries out of 256 bits):
			// 2^256+N, 33 x ff, hi || (2^256 - small), hi || (N +- small), 34..40 bytes of ff
			append([]byte{1}, be32(curveN)...), bytesRepeat(0xff, 33), bytesRepeat(0xff, 34+h.rng.Intn(7)),
			append([]byte{byte(1 + h.rng.Intn(255))}, be32(new(big.Int).Sub(new(big.Int).Lsh(big.NewInt(1), 256), big.NewInt(int64(1+h.rng.Intn(1000)))))...),
			append([]byte{byte(1 + h.rng.Intn(255))}, be32(new(big.Int).Add(curveN, big.NewInt(int64(h.rng.Intn(5)-2))))...),
			append([]byte{byte(1 + h.rng.Intn(255)), byte(h.rng.Intn(256))}, bytesRepeat(0xff, 32)...),
			append([]byte{0xff}, be32(h.chainWalk(new(big.Int).Sub(new(big.Int).Lsh(big.NewInt(1), 256), big.NewInt(1)), 32, 8))...),
		} {
			h.do("scalar-mult", "ad_smul", X1, Y1, hx(k))
			if i < 2 {
				h.do("scalar-base-mult", "ad_sbmul", hx(k))
			}
		}
		h.do("interop", "interop", hx(be32(h.randKeyInt())), hx(h.randBytes(32)))
	}
	for l := 0; l <= 70; l += 3 {
		h.do("scalar-len", "ad_sbmul", hx(h.randBytes(l)))
	}
	// points built from a chosen x^3 / a small y (see specialPoints) and their near misses
	for _, pt := range h.specialPoints(4 * h.budget) {
		X, Y := hx(be32(pt[0])), hx(be32(pt[1]))
		h.do("special-point", "ad_isoncurve", X, Y)
		h.do("special-point", "ad_isoncurve", X, hx(be32(new(big.Int).Sub(curveP, pt[1]))))
		h.do("special-point-off", "ad_isoncurve", X, hx(be32(new(big.Int).Add(pt[1], big.NewInt(1)))))
		h.do("special-point-off", "ad_isoncurve", hx(be32(new(big.Int).Add(pt[0], big.NewInt(1)))), Y)
		h.do("special-point", "ad_double", X, Y)
		h.do("special-point", "ad_add", X, Y, X, Y)
		h.do("special-point", "ad_smul", X, Y, hx(h.randBytes(32)))
	}
}
