import Secp.Core.KernelSpecs
import Secp.Spec.Basic
/-
  Core/Limbs — vocabulary for statements about the limb-level kernels.
-/
namespace Secp.Limbs
open Secp.Spec

/-- ten 26-bit limbs (FieldVal.n), least significant first -/
structure L10 where
  (n0 n1 n2 n3 n4 n5 n6 n7 n8 n9 : Nat)
  deriving Repr, DecidableEq

def L10.toList (a : L10) : List Nat := [a.n0, a.n1, a.n2, a.n3, a.n4, a.n5, a.n6, a.n7, a.n8, a.n9]

/-- the integer a FieldVal denotes -/
def L10.val (a : L10) : Nat :=
  a.n0 + a.n1 * 2^26 + a.n2 * 2^52 + a.n3 * 2^78 + a.n4 * 2^104 + a.n5 * 2^130 + a.n6 * 2^156 +
  a.n7 * 2^182 + a.n8 * 2^208 + a.n9 * 2^234

/-- every limb fits its Go type -/
def L10.U32 (a : L10) : Prop :=
  a.n0 < 2^32 ∧ a.n1 < 2^32 ∧ a.n2 < 2^32 ∧ a.n3 < 2^32 ∧ a.n4 < 2^32 ∧ a.n5 < 2^32 ∧ a.n6 < 2^32 ∧
  a.n7 < 2^32 ∧ a.n8 < 2^32 ∧ a.n9 < 2^32

def LB : Nat := 2^26 + 2^20      -- = Secp.KernelSpecs.LB
def LB9 : Nat := 2^22

/-- "magnitude ≤ m" with the slack that makes it closed under every operation (DESIGN §4) -/
def L10.MagLE (m : Nat) (a : L10) : Prop :=
  a.n0 ≤ m * LB ∧ a.n1 ≤ m * LB ∧ a.n2 ≤ m * LB ∧ a.n3 ≤ m * LB ∧ a.n4 ≤ m * LB ∧ a.n5 ≤ m * LB ∧
  a.n6 ≤ m * LB ∧ a.n7 ≤ m * LB ∧ a.n8 ≤ m * LB ∧ a.n9 ≤ m * LB9

/-- limbs in their canonical ranges (value possibly ≥ P) -/
def L10.Tight (a : L10) : Prop :=
  a.n0 < 2^26 ∧ a.n1 < 2^26 ∧ a.n2 < 2^26 ∧ a.n3 < 2^26 ∧ a.n4 < 2^26 ∧ a.n5 < 2^26 ∧ a.n6 < 2^26 ∧
  a.n7 < 2^26 ∧ a.n8 < 2^26 ∧ a.n9 < 2^22

/-- fully normalised: canonical limbs and value < P -/
def L10.Normalized (a : L10) : Prop := a.Tight ∧ a.val < P

/-- eight 32-bit words (ModNScalar.n), least significant first -/
structure L8 where
  (n0 n1 n2 n3 n4 n5 n6 n7 : Nat)
  deriving Repr, DecidableEq

def L8.toList (a : L8) : List Nat := [a.n0, a.n1, a.n2, a.n3, a.n4, a.n5, a.n6, a.n7]

def L8.val (a : L8) : Nat :=
  a.n0 + a.n1 * 2^32 + a.n2 * 2^64 + a.n3 * 2^96 + a.n4 * 2^128 + a.n5 * 2^160 + a.n6 * 2^192 + a.n7 * 2^224

def L8.U32 (a : L8) : Prop :=
  a.n0 < 2^32 ∧ a.n1 < 2^32 ∧ a.n2 < 2^32 ∧ a.n3 < 2^32 ∧ a.n4 < 2^32 ∧ a.n5 < 2^32 ∧ a.n6 < 2^32 ∧ a.n7 < 2^32

/-- canonical scalar: words fit and value < N -/
def L8.Canon (a : L8) : Prop := a.U32 ∧ a.val < N

/-- 32 bytes, most significant first, each a number -/
def bytesVal (b : List Nat) : Nat := b.foldl (fun acc x => acc * 256 + x) 0

/-- little-endian 32-bit words to a number: Σ tᵢ·2^(32i) -/
def bytesVal32 : List Nat → Nat
  | [] => 0
  | x :: xs => x + 2^32 * bytesVal32 xs

def AllLt (bound : Nat) (l : List Nat) : Prop := ∀ x ∈ l, x < bound

end Secp.Limbs
