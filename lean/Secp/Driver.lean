import Secp.Spec.Ecdsa
import Secp.Model.Der
/-
  Driver — line protocol.  One operation per input line (`op arg…`, byte strings
  in hex, "-" for the empty string, numbers in decimal); one answer per line:
  `<model result>\t<spec result>` (the second field is "=" when the op has no
  separate specification-level answer).
-/
namespace Secp.Driver
open Secp.Spec Secp.Model

def natHex32 (n : Nat) : String := toHex (be32 n)

def showOutcome {ε α} (se : ε → String) (sa : α → String) : Outcome ε α → String
  | .ok a => "ok " ++ sa a
  | .err e => "err " ++ se e
  | .panic => "PANIC"

def opDerParse (args : List String) : String :=
  match args with
  | [h] =>
    match ofHex h with
    | some b =>
      let m := showOutcome SigErr.name (fun (p : Nat × Nat) => natHex32 p.1 ++ " " ++ natHex32 p.2) (parseDER b)
      m ++ "\t="
    | none => "bad-hex"
  | _ => "bad-args"

def opDerSerialize (args : List String) : String :=
  match args.map ofHex with
  | [some r, some s] => toHex (serializeDER (scalarSetByteSlice r).1 (scalarSetByteSlice s).1) ++ "\t="
  | _ => "bad-args"

def runOp (line : String) : String :=
  match (line.splitOn " ").filter (· ≠ "") with
  | [] => "empty"
  | op :: args =>
    match op with
    | "der_parse" => opDerParse args
    | "der_serialize" => opDerSerialize args
    | _ => "unknown-op " ++ op

partial def loop (hin : IO.FS.Stream) (hout : IO.FS.Stream) : IO Unit := do
  let line ← hin.getLine
  if line.isEmpty then return ()
  let l := (line.dropEndWhile (fun c => c == '\n' || c == '\r')).toString
  hout.putStrLn (runOp l)
  loop hin hout

end Secp.Driver

def main : IO Unit := do
  let hin ← IO.getStdin
  let hout ← IO.getStdout
  Secp.Driver.loop hin hout
  hout.flush
