/-
  Proofs/DriversNaf — the regenerated `naf` (curve.go), an index loop writing into two 33-byte
  arrays with uint16 arithmetic on naturals, equals the model `Secp.Model.naf` (a walk over the
  reversed byte list with UInt8/UInt16 machine arithmetic).
-/
import Secp.Gen.Drivers
import Secp.Proofs.ScalarMultNaf

namespace Secp.Proofs.DriversNaf
open Secp.Spec Secp.Model Secp.Proofs.Der Secp.Proofs.ScalarMultNaf

/-! ### one byte, natural-number arithmetic as generated -/

/-- one iteration of the generated loop on naturals; `hw` is `(nextWord <<< 7) % 256` -/
def gStep (b c hw : Nat) : UInt8 × UInt8 × Nat :=
  let kc := (b + c) % 65536
  let halfK := (kc >>> 1) ||| hw
  let threeHalfK := (kc + halfK) % 65536
  let nz := threeHalfK ^^^ halfK
  (UInt8.ofNat ((threeHalfK &&& nz) % 256), UInt8.ofNat ((halfK &&& nz) % 256),
    (threeHalfK >>> 8) % 256)

/-- Bool-valued complete check of one (b, c, h) triple -/
def stepCheck (b c h : Nat) : Bool :=
  let s := nafStep (UInt8.ofNat b) (UInt8.ofNat c) (UInt8.ofNat (128 * h))
  let g := gStep b c (128 * h)
  g.1 == s.1 && g.2.1 == s.2.1 && g.2.2 == s.2.2.toNat

set_option maxRecDepth 100000 in
theorem stepCheck_fin : ∀ b, b < 256 → ∀ c, c < 2 → ∀ h, h < 2 → stepCheck b c h = true := by
  decide +kernel

set_option maxRecDepth 100000 in
theorem shl7_mod2 : ∀ w, w < 256 → (UInt8.ofNat w) <<< 7 = UInt8.ofNat (128 * (w % 2)) := by
  decide +kernel

theorem gStep_eq (b w : UInt8) (c : Nat) (hc : c ≤ 1) :
    gStep b.toNat c ((w.toNat <<< 7) % 256) =
      ((nafStep b (UInt8.ofNat c) (w <<< 7)).1, (nafStep b (UInt8.ofNat c) (w <<< 7)).2.1,
        (nafStep b (UInt8.ofNat c) (w <<< 7)).2.2.toNat) := by
  have hw : (w.toNat <<< 7) % 256 = 128 * (w.toNat % 2) := by
    rw [Nat.shiftLeft_eq]; omega
  have hw' := shl7_mod2 w.toNat w.toNat_lt
  rw [uint8_ofNat_toNat] at hw'
  have h := stepCheck_fin b.toNat b.toNat_lt c (by omega) (w.toNat % 2) (by omega)
  unfold stepCheck at h
  rw [uint8_ofNat_toNat, ← hw'] at h
  simp only [Bool.and_eq_true, beq_iff_eq] at h
  rw [hw]
  obtain ⟨⟨h1, h2⟩, h3⟩ := h
  exact Prod.ext h1 (Prod.ext h2 h3)

/-! ### the loop -/

/-- the body of the generated loop -/
def gBody (k : Bytes) (st : Nat × Bytes × Bytes × Nat × Nat) (byteNum : Nat) :
    Nat × Bytes × Bytes × Nat × Nat :=
  let g := gStep (k.getD byteNum 0).toNat st.1
    (((if decide (byteNum > 0) then (k.getD (byteNum - 1) 0).toNat else 0) <<< 7) % 256)
  (g.2.2, (st.2.1.set (byteNum + 1) g.1, st.2.2.1.set (byteNum + 1) g.2.1, st.2.2.2.1, st.2.2.2.2))

theorem nafGen_unfold (k : Bytes) :
    Secp.Gen.Drivers.nafGen k =
      (let ks := stripZeros k
       let r := (List.range ks.length).reverse.foldl (gBody ks)
          (0, (List.replicate 33 (0 : UInt8), List.replicate 33 (0 : UInt8), 0, 0))
       ((r.2.1.take 0 ++ ([UInt8.ofNat r.1]).take 1 ++ r.2.1.drop (0 + 1)), r.2.2.1,
          ((1 + 256 - r.1) % 256), ((ks.length + 1) % 256))) := rfl

theorem nafLoop_acc (l : List UInt8) : ∀ (c : UInt8) (pos neg : List UInt8),
    nafLoop l c pos neg =
      ((nafLoop l c [] []).1 ++ pos, (nafLoop l c [] []).2.1 ++ neg, (nafLoop l c [] []).2.2) := by
  induction l with
  | nil => intro c pos neg; simp [nafLoop_nil]
  | cons b rest ih =>
    intro c pos neg
    rw [nafLoop_cons, nafLoop_cons, ih, ih _ [_] [_]]
    simp

theorem nafLoop_len (l : List UInt8) : ∀ (c : UInt8),
    (nafLoop l c [] []).1.length = l.length ∧ (nafLoop l c [] []).2.1.length = l.length ∧
    (c.toNat ≤ 1 → (nafLoop l c [] []).2.2.toNat ≤ 1) := by
  induction l with
  | nil => intro c; simp [nafLoop_nil]
  | cons b rest ih =>
    intro c
    rw [nafLoop_cons, nafLoop_acc]
    obtain ⟨h1, h2, h3⟩ := ih (nafStep b c (nextWord rest <<< 7)).2.2
    refine ⟨by simp [h1], by simp [h2], fun hc => h3 (stepOK b c (nextWord rest) hc).2.1⟩

theorem nextWord_take (ks : Bytes) (m : Nat) (hm : m ≤ ks.length) :
    nextWord (ks.take m).reverse = if m > 0 then ks.getD (m - 1) 0 else 0 := by
  cases m with
  | zero => simp [nextWord]
  | succ j =>
    have hj : j < ks.length := hm
    rw [List.take_add_one, List.getElem?_eq_getElem hj]
    simp only [Option.toList_some, List.reverse_append, List.reverse_singleton,
      List.singleton_append, nextWord]
    simp [List.getD_eq_getElem?_getD, List.getElem?_eq_getElem hj]

theorem take_succ_reverse (ks : Bytes) (m : Nat) (hm : m < ks.length) :
    (ks.take (m + 1)).reverse = ks.getD m 0 :: (ks.take m).reverse := by
  rw [List.take_add_one, List.getElem?_eq_getElem hm]
  simp [List.getD_eq_getElem?_getD, List.getElem?_eq_getElem hm]

theorem ofNat_small (c : Nat) (hc : c ≤ 1) : (UInt8.ofNat c).toNat = c := by
  simp [UInt8.toNat_ofNat']; omega

/-- one iteration of the generated loop is one `nafStep` -/
theorem gBody_step (ks : Bytes) (m : Nat) (hm : m ≤ ks.length) (c : Nat) (hc : c ≤ 1)
    (Pa Na : Bytes) (a b : Nat) :
    gBody ks (c, (Pa, Na, a, b)) m =
      ((nafStep (ks.getD m 0) (UInt8.ofNat c) (nextWord (ks.take m).reverse <<< 7)).2.2.toNat,
        (Pa.set (m + 1) (nafStep (ks.getD m 0) (UInt8.ofNat c) (nextWord (ks.take m).reverse <<< 7)).1,
         Na.set (m + 1) (nafStep (ks.getD m 0) (UInt8.ofNat c) (nextWord (ks.take m).reverse <<< 7)).2.1,
         a, b)) := by
  have hstep := gStep_eq (ks.getD m 0) (if m > 0 then ks.getD (m - 1) 0 else 0) c hc
  have hnw : (if decide (m > 0) then (ks.getD (m - 1) 0).toNat else 0)
      = (if m > 0 then ks.getD (m - 1) 0 else 0).toNat := by
    by_cases h : m > 0 <;> simp [h]
  unfold gBody
  simp only
  rw [hnw, hstep, nextWord_take ks m hm]

theorem splice (Pa : Bytes) (m : Nat) (hP : m + 1 < Pa.length) (p : UInt8) (r : Bytes) :
    (Pa.set (m + 1) p).take 1 ++ r ++ (Pa.set (m + 1) p).drop (m + 1)
      = Pa.take 1 ++ (r ++ [p]) ++ Pa.drop (m + 1 + 1) := by
  have h : m + 1 < (Pa.set (m + 1) p).length := by simpa using hP
  rw [List.take_set_of_le (by omega), List.drop_eq_getElem_cons h, List.getElem_set_self,
    List.drop_set_of_lt (by omega)]
  simp

/-- loop invariant: after the indices `m-1 … 0` the arrays hold the model's digits at `1 … m` -/
theorem fold_inv (ks : Bytes) : ∀ (m : Nat), m ≤ ks.length → ∀ (c : Nat) (Pa Na : Bytes) (a b : Nat),
    c ≤ 1 → m < Pa.length → m < Na.length →
    (List.range m).reverse.foldl (gBody ks) (c, (Pa, Na, a, b)) =
      ((nafLoop (ks.take m).reverse (UInt8.ofNat c) [] []).2.2.toNat,
        (Pa.take 1 ++ (nafLoop (ks.take m).reverse (UInt8.ofNat c) [] []).1 ++ Pa.drop (m + 1),
         Na.take 1 ++ (nafLoop (ks.take m).reverse (UInt8.ofNat c) [] []).2.1 ++ Na.drop (m + 1),
         a, b)) := by
  intro m
  induction m with
  | zero =>
    intro _ c Pa Na a b hc hP hN
    simp only [List.range_zero, List.reverse_nil, List.foldl_nil, List.take_zero, nafLoop_nil,
      ofNat_small c hc, List.append_nil, Nat.zero_add, List.take_append_drop]
  | succ m ih =>
    intro hm c Pa Na a b hc hP hN
    rw [List.range_succ, List.reverse_append, List.reverse_singleton, List.singleton_append,
      List.foldl_cons, gBody_step ks m (by omega) c hc]
    have hcarry : (nafStep (ks.getD m 0) (UInt8.ofNat c) (nextWord (ks.take m).reverse <<< 7)).2.2.toNat ≤ 1 :=
      (stepOK _ _ _ (by rw [ofNat_small c hc]; exact hc)).2.1
    rw [ih (by omega) _ _ _ _ _ hcarry (by simp; omega) (by simp; omega)]
    rw [take_succ_reverse ks m (by omega), nafLoop_cons, nafLoop_acc _ _ [_] [_], uint8_ofNat_toNat]
    generalize nafStep (ks.getD m 0) (UInt8.ofNat c) (nextWord (ks.take m).reverse <<< 7) = s
    generalize nafLoop (ks.take m).reverse s.2.2 [] [] = r
    refine Prod.ext rfl (Prod.ext ?_ (Prod.ext ?_ rfl))
    · exact splice Pa m hP _ _
    · exact splice Na m hN _ _

/-- the regenerated `naf` is the model, as soon as the stripped scalar fits the 33-entry arrays -/
theorem nafGen_regenerated' (k : Bytes) (hk : (stripZeros k).length ≤ 32) :
    Secp.Gen.Drivers.nafGen k = ((naf k).pos, (naf k).neg, (naf k).start, (naf k).stop) := by
  rw [nafGen_unfold]
  simp only
  rw [fold_inv (stripZeros k) _ (Nat.le_refl _) 0 _ _ 0 0 (by omega) (by simp; omega)
    (by simp; omega)]
  unfold naf
  simp only [List.take_length]
  obtain ⟨l1, l2, l3⟩ := nafLoop_len (stripZeros k).reverse (UInt8.ofNat 0)
  have l3 := l3 (by decide)
  rw [List.length_reverse] at l1 l2
  have h0 : (UInt8.ofNat 0) = (0 : UInt8) := rfl
  rw [h0] at l1 l2 l3 ⊢
  generalize nafLoop (stripZeros k).reverse 0 [] [] = r at l1 l2 l3 ⊢
  obtain ⟨dp, dn, c⟩ := r
  simp only at l1 l2 l3 ⊢
  refine Prod.ext ?_ (Prod.ext ?_ (Prod.ext ?_ ?_))
  · simp [l1]
    change List.drop _ (List.replicate 32 (0 : UInt8)) = _
    rw [List.drop_replicate]
  · simp [l2]
    change List.drop _ (List.replicate 32 (0 : UInt8)) = _
    rw [List.drop_replicate]
  · simp only; omega
  · simp only; omega

theorem nafGen_regenerated (k : Bytes) (hk : k.length ≤ 32) :
    Secp.Gen.Drivers.nafGen k = ((naf k).pos, (naf k).neg, (naf k).start, (naf k).stop) :=
  nafGen_regenerated' k (Nat.le_trans (stripZeros_length_le k) hk)

/-- the bound is needed: with 33 significant bytes the Go arrays are too short (the Go code would
    panic on `result.pos[33]`; the generated `List.set` past the end is a no-op, the model's lists
    grow to 34 entries) -/
theorem nafGen_bound_needed :
    Secp.Gen.Drivers.nafGen (List.replicate 33 1) ≠
      ((naf (List.replicate 33 1)).pos, (naf (List.replicate 33 1)).neg,
        (naf (List.replicate 33 1)).start, (naf (List.replicate 33 1)).stop) := by
  decide +kernel

end Secp.Proofs.DriversNaf

#print axioms Secp.Proofs.DriversNaf.nafGen_regenerated
#print axioms Secp.Proofs.DriversNaf.nafGen_regenerated'
