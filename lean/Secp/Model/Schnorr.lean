import Secp.Model.Ecdsa
import Secp.Model.Nonce
import Secp.Model.PubKey
/-
  Model/Schnorr — schnorr/signature.go: schnorrSign, Sign, schnorrVerify, ParseSignature, Serialize.
  BLAKE-256 is a parameter `B : Bytes → Bytes` (answered from an oracle table in the driver).
-/
namespace Secp.Model
open Secp.Spec

inductive SchnorrErr where
  | ErrInvalidHashLen | ErrPrivateKeyIsZero | ErrSchnorrHashValue | ErrPubKeyNotOnCurve
  | ErrSigRYIsOdd | ErrSigRNotOnCurve | ErrUnequalRValues | ErrSigTooShort | ErrSigTooLong
  | ErrSigRTooBig | ErrSigSTooBig | NoNonce
  deriving Repr, DecidableEq

def SchnorrErr.name : SchnorrErr → String
  | .ErrInvalidHashLen => "ErrInvalidHashLen" | .ErrPrivateKeyIsZero => "ErrPrivateKeyIsZero"
  | .ErrSchnorrHashValue => "ErrSchnorrHashValue" | .ErrPubKeyNotOnCurve => "ErrPubKeyNotOnCurve"
  | .ErrSigRYIsOdd => "ErrSigRYIsOdd" | .ErrSigRNotOnCurve => "ErrSigRNotOnCurve"
  | .ErrUnequalRValues => "ErrUnequalRValues" | .ErrSigTooShort => "ErrSigTooShort"
  | .ErrSigTooLong => "ErrSigTooLong" | .ErrSigRTooBig => "ErrSigRTooBig" | .ErrSigSTooBig => "ErrSigSTooBig"
  | .NoNonce => "NoNonce"

/-- `e.SetBytes(&commitment)` : (value reduced once, overflow) of a 32-byte string -/
def commitScalar (c : Bytes) : Nat × Bool := scalarSetByteSlice c

/-- `schnorrSign(privKey, nonce, hash)` -/
def schnorrSignM (B : Bytes → Bytes) (d k : Nat) (hash : Bytes) : Except SchnorrErr (Nat × Nat) :=
  let R := toAffineJ (scalarBaseMultNC k)
  let k := if R.2.1 % 2 = 1 then nneg k else k
  let r := R.1
  let commitment := B (be32 r ++ hash)
  let (e, overflow) := commitScalar commitment
  if overflow then .error .ErrSchnorrHashValue else
  let s := nadd (nneg (nmul e d)) k
  .ok (r, s)

/-- the retry loop of `Sign` -/
def schnorrSignLoop (B : Bytes → Bytes) (d : Nat) (hash : Bytes) : Nat → Nat → Except SchnorrErr (Nat × Nat)
  | 0, _ => .error .NoNonce
  | fuel+1, iter =>
    match nonceM 256 (be32 d) hash rfc6979ExtraDataV0 [] iter with
    | none => .error .NoNonce
    | some k =>
      match schnorrSignM B d k hash with
      | .ok sig => .ok sig
      | .error _ => schnorrSignLoop B d hash fuel (iter + 1)

/-- `schnorr.Sign(privKey, hash)` -/
def schnorrSign (B : Bytes → Bytes) (d : Nat) (hash : Bytes) : Except SchnorrErr (Nat × Nat) :=
  if hash.length ≠ 32 then .error .ErrInvalidHashLen else
  if d = 0 then .error .ErrPrivateKeyIsZero else
  schnorrSignLoop B d hash 16 0

/-- `schnorrVerify(sig, hash, pubKey)`; `none` = valid (nil error) -/
def schnorrVerifyM (B : Bytes → Bytes) (r s : Nat) (hash : Bytes) (Q : Nat × Nat) : Option SchnorrErr :=
  if hash.length ≠ 32 then some .ErrInvalidHashLen else
  if ¬ isOnCurveM Q.1 Q.2 then some .ErrPubKeyNotOnCurve else
  let commitment := B (be32 r ++ hash)
  let (e, overflow) := commitScalar commitment
  if overflow then some .ErrSchnorrHashValue else
  let sG := scalarBaseMultNC s
  let eQ := scalarMultNC e (Q.1, Q.2, 1)
  let R := addNC3 sG eQ
  if isInfJ R then some .ErrSigRNotOnCurve else
  let A := toAffineJ R
  if A.2.1 % 2 = 1 then some .ErrSigRYIsOdd else
  if r ≠ A.1 then some .ErrUnequalRValues else none

/-- `ParseSignature` -/
def schnorrParse (sig : Bytes) : Except SchnorrErr (Nat × Nat) :=
  if sig.length < 64 then .error .ErrSigTooShort else
  if sig.length > 64 then .error .ErrSigTooLong else
  let rv := beNat (sig.take 32)
  if rv ≥ P then .error .ErrSigRTooBig else
  let (s, so) := scalarSetByteSlice (sig.drop 32)
  if so then .error .ErrSigSTooBig else
  .ok (rv, s)

def schnorrSerialize (r s : Nat) : Bytes := be32 r ++ be32 s

end Secp.Model
