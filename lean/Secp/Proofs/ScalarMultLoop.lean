/-
  Proofs/ScalarMultLoop — the loops of `scalarBaseMultNC` and `scalarMultNC` over opaque point
  operations satisfying `PointOps'`.
-/
import Secp.Proofs.ScalarMultJac
import Secp.Proofs.ScalarMultTable
import Secp.Proofs.ScalarMultNaf
import Secp.Proofs.ScalarMultEndo
import Secp.Proofs.Der
import Mathlib.Tactic.Module
import Mathlib.Tactic.Abel

namespace Secp.Proofs.ScalarMultLoop
open Secp.Spec Secp.Model Secp.Proofs Secp.Proofs.SpecGroup Secp.Proofs.ScalarMultJac
open Secp.Proofs.ScalarMultTable Secp.Proofs.ScalarMultNaf Secp.Proofs.ScalarMultEndo
open Secp.Proofs.Der (beNat_nil beNat_cons beNat_append beNat_snoc beNat_be32 be32_length beNat_zero_cons)

/-! ### base-point multiplication -/

theorem N_lt_pow : N < 2 ^ 256 := by decide +kernel

theorem take_succ_getD (l : Bytes) (n : Nat) (h : n < l.length) :
    l.take (n + 1) = l.take n ++ [l.getD n 0] := by
  rw [List.take_add_one, List.getD_eq_getElem?_getD, List.getElem?_eq_getElem h]
  rfl

theorem baseLoop_spec (ho : PointOps') (kb : Bytes) (hlen : kb.length = 32) :
    ∀ n, n ≤ 32 →
      Jac.WF ((List.range n).foldl (fun r i => addNC r (tablePoint i (kb.getD i 0).toNat)) Jac.inf) ∧
      Jac.toPt ((List.range n).foldl (fun r i => addNC r (tablePoint i (kb.getD i 0).toNat)) Jac.inf)
        = smul (beNat (kb.take n) * 256 ^ (32 - n)) G := by
  intro n
  induction n with
  | zero =>
    intro _
    simp only [List.range_zero, List.foldl_nil, List.take_zero, beNat_nil, Nat.zero_mul, smul_zero']
    exact ⟨WF_inf, toPt_inf⟩
  | succ n ih =>
    intro hn
    obtain ⟨hw, he⟩ := ih (by omega)
    rw [List.range_succ, List.foldl_append, List.foldl_cons, List.foldl_nil]
    obtain ⟨tw, te⟩ := table_spec n (kb.getD n 0).toNat (by omega) (kb.getD n 0).toNat_lt
    obtain ⟨aw, ae⟩ := ho.1 _ _ hw tw
    refine ⟨aw, ?_⟩
    rw [ae, he, te, add_smul_smul valid_G, take_succ_getD kb n (by omega), beNat_snoc]
    congr 1
    rw [show 32 - n = (31 - n) + 1 by omega, show 32 - (n + 1) = 31 - n by omega, pow_succ]
    ring

theorem scalarBaseMult_spec (ho : PointOps') (k : Nat) (hk : k < N) :
    Jac.WF (scalarBaseMultNC k) ∧ Jac.toPt (scalarBaseMultNC k) = smul k G := by
  have h := baseLoop_spec ho (be32 k) (be32_length k) 32 (le_refl _)
  have hl : (be32 k).take 32 = be32 k := by
    rw [List.take_of_length_le (by rw [be32_length])]
  rw [hl, beNat_be32, Nat.mod_eq_of_lt (by have := N_lt_pow; omega), Nat.sub_self, pow_zero,
    Nat.mul_one] at h
  exact h

/-! ### bits of a byte -/

def bitN (a m : UInt8) : Nat := if a &&& m == m then 1 else 0

/-- signed digit selected by `smBit` -/
def sdig (a b m : UInt8) : ℤ := if a &&& m == m then 1 else if b &&& m == m then -1 else 0

def byteN (a : UInt8) : Nat :=
  (((((((bitN a 0x80) * 2 + bitN a 0x40) * 2 + bitN a 0x20) * 2 + bitN a 0x10) * 2 + bitN a 0x08) * 2
    + bitN a 0x04) * 2 + bitN a 0x02) * 2 + bitN a 0x01

def sbyte (a b : UInt8) : ℤ :=
  (((((((sdig a b 0x80) * 2 + sdig a b 0x40) * 2 + sdig a b 0x20) * 2 + sdig a b 0x10) * 2
    + sdig a b 0x08) * 2 + sdig a b 0x04) * 2 + sdig a b 0x02) * 2 + sdig a b 0x01

set_option maxRecDepth 100000 in
theorem byteN_fin : ∀ n, n < 256 → byteN (UInt8.ofNat n) = n := by decide +kernel

theorem byteN_eq (a : UInt8) : byteN a = a.toNat := by
  have := byteN_fin a.toNat a.toNat_lt
  rwa [uint8_ofNat_toNat] at this

theorem no_overlap_mask {a b m : UInt8} (hab : a &&& b = 0) (hm : m ≠ 0)
    (h1 : a &&& m = m) (h2 : b &&& m = m) : False := by
  apply hm
  have : (a &&& m) &&& (b &&& m) = (a &&& b) &&& m := by
    rw [UInt8.and_assoc, UInt8.and_assoc, ← UInt8.and_assoc m b m, UInt8.and_comm m b,
      UInt8.and_assoc b m m, UInt8.and_self]
  rw [h1, h2, hab, UInt8.and_self, UInt8.zero_and] at this
  exact this

theorem sdig_eq {a b m : UInt8} (hab : a &&& b = 0) (hm : m ≠ 0) :
    sdig a b m = (bitN a m : ℤ) - bitN b m := by
  unfold sdig bitN
  by_cases h1 : a &&& m = m <;> by_cases h2 : b &&& m = m
  · exact (no_overlap_mask hab hm h1 h2).elim
  · simp [h1, h2]
  · simp [h1, h2]
  · simp [h1, h2]

theorem sbyte_eq {a b : UInt8} (hab : a &&& b = 0) : sbyte a b = (a.toNat : ℤ) - b.toNat := by
  rw [← byteN_eq a, ← byteN_eq b]
  unfold sbyte byteN
  rw [sdig_eq hab (by decide), sdig_eq hab (by decide), sdig_eq hab (by decide),
    sdig_eq hab (by decide), sdig_eq hab (by decide), sdig_eq hab (by decide),
    sdig_eq hab (by decide), sdig_eq hab (by decide)]
  push_cast
  ring

/-! ### one bit / one byte of the interleaved loop -/

/-- a Jacobian point and its negation, denoting `Q` and `-Q` -/
structure PtPair (p pn : Jac) (Q : E.Point) : Prop where
  wf : Jac.WF p
  wfn : Jac.WF pn
  valid : Valid (Jac.toPt p)
  validn : Valid (Jac.toPt pn)
  eq : toE (Jac.toPt p) = Q
  eqn : toE (Jac.toPt pn) = -Q

/-- accumulator state: well-formed, denoting `X` -/
structure Acc (q : Jac) (X : E.Point) : Prop where
  wf : Jac.WF q
  valid : Valid (Jac.toPt q)
  eq : toE (Jac.toPt q) = X

def addSel (q p pn : Jac) (a b m : UInt8) : Jac :=
  if a &&& m == m then addNC q p else if b &&& m == m then addNC q pn else q

theorem smBit_eq (q p1 p1n p2 p2n : Jac) (a b c d m : UInt8) :
    smBit q p1 p1n p2 p2n a b c d m = addSel (addSel (dblNC q) p1 p1n a b m) p2 p2n c d m := rfl

theorem acc_add (ho : PointOps') {q p : Jac} {X Q : E.Point} (hq : Acc q X)
    (wf : Jac.WF p) (valid : Valid (Jac.toPt p)) (eq : toE (Jac.toPt p) = Q) :
    Acc (addNC q p) (X + Q) := by
  obtain ⟨w, e⟩ := ho.1 q p hq.wf wf
  refine ⟨w, ?_, ?_⟩
  · rw [e]; exact valid_add hq.valid valid
  · rw [e, toE_add hq.valid valid, hq.eq, eq]

theorem acc_dbl (ho : PointOps') {q : Jac} {X : E.Point} (hq : Acc q X) :
    Acc (dblNC q) ((2 : ℤ) • X) := by
  obtain ⟨w, e⟩ := ho.2 q hq.wf
  refine ⟨w, ?_, ?_⟩
  · rw [e]; exact valid_dbl hq.valid
  · rw [e, toE_dbl hq.valid, hq.eq, two_zsmul]

theorem acc_addSel (ho : PointOps') {q p pn : Jac} {X Q : E.Point} (hq : Acc q X)
    (hp : PtPair p pn Q) (a b m : UInt8) :
    Acc (addSel q p pn a b m) (X + sdig a b m • Q) := by
  unfold addSel sdig
  by_cases h1 : (a &&& m == m) = true
  · simp only [h1, ↓reduceIte, one_zsmul]
    exact acc_add ho hq hp.wf hp.valid hp.eq
  · by_cases h2 : (b &&& m == m) = true
    · simp only [h1, h2, Bool.false_eq_true, ↓reduceIte, neg_zsmul, one_zsmul]
      exact acc_add ho hq hp.wfn hp.validn hp.eqn
    · simp only [h1, h2, Bool.false_eq_true, ↓reduceIte, zero_zsmul, add_zero]
      exact hq

theorem acc_smBit (ho : PointOps') {q p1 p1n p2 p2n : Jac} {X Q1 Q2 : E.Point} (hq : Acc q X)
    (h1 : PtPair p1 p1n Q1) (h2 : PtPair p2 p2n Q2) (a b c d m : UInt8) :
    Acc (smBit q p1 p1n p2 p2n a b c d m) ((2 : ℤ) • X + sdig a b m • Q1 + sdig c d m • Q2) := by
  rw [smBit_eq]
  exact acc_addSel ho (acc_addSel ho (acc_dbl ho hq) h1 a b m) h2 c d m

theorem acc_congr {q : Jac} {X Y : E.Point} (h : Acc q X) (e : X = Y) : Acc q Y := e ▸ h

theorem acc_smByte (ho : PointOps') {q p1 p1n p2 p2n : Jac} {X Q1 Q2 : E.Point} (hq : Acc q X)
    (h1 : PtPair p1 p1n Q1) (h2 : PtPair p2 p2n Q2) (a b c d : UInt8) :
    Acc (smByte q p1 p1n p2 p2n a b c d) ((256 : ℤ) • X + sbyte a b • Q1 + sbyte c d • Q2) := by
  unfold smByte
  simp only [List.foldl_cons, List.foldl_nil]
  have s1 := acc_smBit ho hq h1 h2 a b c d 0x80
  have s2 := acc_smBit ho s1 h1 h2 a b c d 0x40
  have s3 := acc_smBit ho s2 h1 h2 a b c d 0x20
  have s4 := acc_smBit ho s3 h1 h2 a b c d 0x10
  have s5 := acc_smBit ho s4 h1 h2 a b c d 0x08
  have s6 := acc_smBit ho s5 h1 h2 a b c d 0x04
  have s7 := acc_smBit ho s6 h1 h2 a b c d 0x02
  have s8 := acc_smBit ho s7 h1 h2 a b c d 0x01
  refine acc_congr s8 ?_
  unfold sbyte
  module

/-! ### the byte loop -/

theorem acc_loop (ho : PointOps') {p1 p1n p2 p2n : Jac} {Q1 Q2 : E.Point}
    (h1 : PtPair p1 p1n Q1) (h2 : PtPair p2 p2n Q2) (pa pb pc pd : Bytes) (m : Nat)
    (la : pa.length = m) (lb : pb.length = m) (lc : pc.length = m) (ld : pd.length = m)
    (hab : ∀ i, pa.getD i 0 &&& pb.getD i 0 = 0) (hcd : ∀ i, pc.getD i 0 &&& pd.getD i 0 = 0) :
    ∀ n, n ≤ m →
      Acc ((List.range n).foldl (fun q i =>
          smByte q p1 p1n p2 p2n (pa.getD i 0) (pb.getD i 0) (pc.getD i 0) (pd.getD i 0)) Jac.inf)
        (((beNat (pa.take n) : ℤ) - beNat (pb.take n)) • Q1
          + ((beNat (pc.take n) : ℤ) - beNat (pd.take n)) • Q2) := by
  intro n
  induction n with
  | zero =>
    intro _
    simp only [List.range_zero, List.foldl_nil, List.take_zero, beNat_nil]
    refine ⟨WF_inf, ?_, ?_⟩
    · rw [toPt_inf]; trivial
    · rw [toPt_inf, toE_none]; simp
  | succ n ih =>
    intro hn
    have hq := ih (by omega)
    rw [List.range_succ, List.foldl_append, List.foldl_cons, List.foldl_nil]
    refine acc_congr (acc_smByte ho hq h1 h2 _ _ _ _) ?_
    rw [sbyte_eq (hab n), sbyte_eq (hcd n),
      take_succ_getD pa n (by omega), take_succ_getD pb n (by omega),
      take_succ_getD pc n (by omega), take_succ_getD pd n (by omega),
      beNat_snoc, beNat_snoc, beNat_snoc, beNat_snoc]
    push_cast
    module

/-! ### right-aligned digit strings -/

def pad (z : Nat) (l : Bytes) : Bytes := List.replicate z (0 : UInt8) ++ l

theorem pad_length (z : Nat) (l : Bytes) : (pad z l).length = z + l.length := by
  simp [pad]

theorem getD_pad (z : Nat) (l : Bytes) (i : Nat) :
    (pad z l).getD i 0 = if i ≥ z then l.getD (i - z) 0 else 0 := by
  unfold pad
  simp only [List.getD_eq_getElem?_getD]
  by_cases h : i ≥ z
  · rw [if_pos h, List.getElem?_append_right (by simpa using h)]
    simp
  · have h' : i < z := by omega
    rw [if_neg h, List.getElem?_append_left (by simpa using h'), List.getElem?_replicate, if_pos h']
    rfl

theorem beNat_replicate_zero (z : Nat) : beNat (List.replicate z (0 : UInt8)) = 0 := by
  induction z with
  | zero => rfl
  | succ z ih => rw [List.replicate_succ, beNat_zero_cons, ih]

theorem beNat_pad (z : Nat) (l : Bytes) : beNat (pad z l) = beNat l := by
  unfold pad
  rw [beNat_append, beNat_replicate_zero, Nat.zero_mul, Nat.zero_add]

/-- the loop of `scalarMultNC` on given digit strings -/
def smLoop (p1 p1n p2 p2n : Jac) (k1p k1n k2p k2n : Bytes) : Jac :=
  let k1Len := k1p.length; let k2Len := k2p.length
  let m := max k1Len k2Len
  (List.range m).foldl (fun q i =>
    let (a, b) := if i ≥ m - k1Len then (k1p.getD (i - (m - k1Len)) 0, k1n.getD (i - (m - k1Len)) 0) else (0, 0)
    let (c, d) := if i ≥ m - k2Len then (k2p.getD (i - (m - k2Len)) 0, k2n.getD (i - (m - k2Len)) 0) else (0, 0)
    smByte q p1 p1n p2 p2n a b c d) Jac.inf

theorem smLoop_eq (p1 p1n p2 p2n : Jac) (k1p k1n k2p k2n : Bytes) :
    smLoop p1 p1n p2 p2n k1p k1n k2p k2n =
      (List.range (max k1p.length k2p.length)).foldl (fun q i =>
        smByte q p1 p1n p2 p2n
          ((pad (max k1p.length k2p.length - k1p.length) k1p).getD i 0)
          ((pad (max k1p.length k2p.length - k1p.length) k1n).getD i 0)
          ((pad (max k1p.length k2p.length - k2p.length) k2p).getD i 0)
          ((pad (max k1p.length k2p.length - k2p.length) k2n).getD i 0)) Jac.inf := by
  unfold smLoop
  simp only [getD_pad]
  congr 1
  funext q i
  by_cases h1 : i ≥ max k1p.length k2p.length - k1p.length <;>
    by_cases h2 : i ≥ max k1p.length k2p.length - k2p.length <;>
    simp only [h1, h2, if_true, if_false]

theorem smLoop_spec (ho : PointOps') {p1 p1n p2 p2n : Jac} {Q1 Q2 : E.Point}
    (h1 : PtPair p1 p1n Q1) (h2 : PtPair p2 p2n Q2) (k1p k1n k2p k2n : Bytes) (K1 K2 : Nat)
    (l1 : k1p.length = k1n.length) (l2 : k2p.length = k2n.length)
    (v1 : beNat k1p = K1 + beNat k1n) (v2 : beNat k2p = K2 + beNat k2n)
    (o1 : ∀ i, k1p.getD i 0 &&& k1n.getD i 0 = 0) (o2 : ∀ i, k2p.getD i 0 &&& k2n.getD i 0 = 0) :
    Acc (smLoop p1 p1n p2 p2n k1p k1n k2p k2n) ((K1 : ℤ) • Q1 + (K2 : ℤ) • Q2) := by
  rw [smLoop_eq]
  have hpad : ∀ (z : Nat) (a b : Bytes), (∀ i, a.getD i 0 &&& b.getD i 0 = 0) →
      ∀ i, (pad z a).getD i 0 &&& (pad z b).getD i 0 = 0 := by
    intro z a b hab i
    rw [getD_pad, getD_pad]
    by_cases h : i ≥ z
    · simp only [h, if_true]; exact hab _
    · simp only [h, if_false]; rfl
  have := acc_loop ho h1 h2 (pad (max k1p.length k2p.length - k1p.length) k1p)
    (pad (max k1p.length k2p.length - k1p.length) k1n)
    (pad (max k1p.length k2p.length - k2p.length) k2p)
    (pad (max k1p.length k2p.length - k2p.length) k2n) (max k1p.length k2p.length)
    (by rw [pad_length]; omega) (by rw [pad_length, ← l1]; omega)
    (by rw [pad_length]; omega) (by rw [pad_length, ← l2]; omega)
    (hpad _ _ _ o1) (hpad _ _ _ o2) (max k1p.length k2p.length) (le_refl _)
  refine acc_congr this ?_
  rw [List.take_of_length_le (by rw [pad_length]; omega),
    List.take_of_length_le (by rw [pad_length, ← l1]; omega),
    List.take_of_length_le (by rw [pad_length]; omega),
    List.take_of_length_le (by rw [pad_length, ← l2]; omega),
    beNat_pad, beNat_pad, beNat_pad, beNat_pad, v1, v2]
  push_cast
  module

end Secp.Proofs.ScalarMultLoop
