import Secp.Spec.Basic
import Secp.Spec.Field
import Secp.Spec.Curve
