import Secp.Spec.Basic
/-
  Spec/Field — arithmetic modulo P and modulo N on `Nat`, executable.
-/
namespace Secp.Spec

/-- square-and-multiply with structural fuel (number of exponent bits) -/
def powModAux (m : Nat) : Nat → Nat → Nat → Nat
  | 0, _, _ => 1 % m
  | f+1, b, e =>
    if e = 0 then 1 % m else
    let h := powModAux m f (b * b % m) (e / 2)
    if e % 2 = 1 then b % m * h % m else h

def powMod (b e m : Nat) : Nat := powModAux m (e.log2 + 1) b e

def fadd (a b : Nat) : Nat := (a + b) % P
def fneg (a : Nat) : Nat := (P - a % P) % P
def fsub (a b : Nat) : Nat := (a + (P - b % P)) % P
def fmul (a b : Nat) : Nat := (a * b) % P
def fsq (a : Nat) : Nat := (a * a) % P
/-- inverse by Fermat; `finv 0 = 0` -/
def finv (a : Nat) : Nat := powMod a (P - 2) P
/-- candidate square root a^((P+1)/4) -/
def fsqrtCand (a : Nat) : Nat := powMod a ((P + 1) / 4) P
/-- `some r` with r² = a (mod P) when a is a square, else `none` -/
def fsqrt (a : Nat) : Option Nat :=
  let r := fsqrtCand a
  if fsq r = a % P then some r else none

def nadd (a b : Nat) : Nat := (a + b) % N
def nneg (a : Nat) : Nat := (N - a % N) % N
def nmul (a b : Nat) : Nat := (a * b) % N
/-- inverse mod N by Fermat; `ninv 0 = 0` (as `big.Int.ModInverse` leaves 0 → code yields 0) -/
def ninv (a : Nat) : Nat := powMod a (N - 2) N

end Secp.Spec
