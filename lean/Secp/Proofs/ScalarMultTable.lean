/-
  Proofs/ScalarMultTable — the base-point table of `Gen.Table` (checked row by row in the kernel,
  `ScalarMultTableRowNN`) holds the multiples (j·256^(31−i))•G.
-/
import Secp.Proofs.ScalarMultTableRow00
import Secp.Proofs.ScalarMultTableRow01
import Secp.Proofs.ScalarMultTableRow02
import Secp.Proofs.ScalarMultTableRow03
import Secp.Proofs.ScalarMultTableRow04
import Secp.Proofs.ScalarMultTableRow05
import Secp.Proofs.ScalarMultTableRow06
import Secp.Proofs.ScalarMultTableRow07
import Secp.Proofs.ScalarMultTableRow08
import Secp.Proofs.ScalarMultTableRow09
import Secp.Proofs.ScalarMultTableRow10
import Secp.Proofs.ScalarMultTableRow11
import Secp.Proofs.ScalarMultTableRow12
import Secp.Proofs.ScalarMultTableRow13
import Secp.Proofs.ScalarMultTableRow14
import Secp.Proofs.ScalarMultTableRow15
import Secp.Proofs.ScalarMultTableRow16
import Secp.Proofs.ScalarMultTableRow17
import Secp.Proofs.ScalarMultTableRow18
import Secp.Proofs.ScalarMultTableRow19
import Secp.Proofs.ScalarMultTableRow20
import Secp.Proofs.ScalarMultTableRow21
import Secp.Proofs.ScalarMultTableRow22
import Secp.Proofs.ScalarMultTableRow23
import Secp.Proofs.ScalarMultTableRow24
import Secp.Proofs.ScalarMultTableRow25
import Secp.Proofs.ScalarMultTableRow26
import Secp.Proofs.ScalarMultTableRow27
import Secp.Proofs.ScalarMultTableRow28
import Secp.Proofs.ScalarMultTableRow29
import Secp.Proofs.ScalarMultTableRow30
import Secp.Proofs.ScalarMultTableRow31
import Secp.Proofs.ScalarMultJac

namespace Secp.Proofs.ScalarMultTable
open Secp.Spec Secp.Model Secp.Proofs Secp.Proofs.SpecGroup Secp.Proofs.ScalarMultJac

theorem rowOK_all : ∀ i, i < 32 → rowOK i = true
  | 0, _ => rowOK0
  | 1, _ => rowOK1
  | 2, _ => rowOK2
  | 3, _ => rowOK3
  | 4, _ => rowOK4
  | 5, _ => rowOK5
  | 6, _ => rowOK6
  | 7, _ => rowOK7
  | 8, _ => rowOK8
  | 9, _ => rowOK9
  | 10, _ => rowOK10
  | 11, _ => rowOK11
  | 12, _ => rowOK12
  | 13, _ => rowOK13
  | 14, _ => rowOK14
  | 15, _ => rowOK15
  | 16, _ => rowOK16
  | 17, _ => rowOK17
  | 18, _ => rowOK18
  | 19, _ => rowOK19
  | 20, _ => rowOK20
  | 21, _ => rowOK21
  | 22, _ => rowOK22
  | 23, _ => rowOK23
  | 24, _ => rowOK24
  | 25, _ => rowOK25
  | 26, _ => rowOK26
  | 27, _ => rowOK27
  | 28, _ => rowOK28
  | 29, _ => rowOK29
  | 30, _ => rowOK30
  | 31, _ => rowOK31
  | n + 32, h => absurd h (by omega)

theorem linkOK_all : ∀ i, i < 31 → linkOK i = true
  | 0, _ => link0
  | 1, _ => link1
  | 2, _ => link2
  | 3, _ => link3
  | 4, _ => link4
  | 5, _ => link5
  | 6, _ => link6
  | 7, _ => link7
  | 8, _ => link8
  | 9, _ => link9
  | 10, _ => link10
  | 11, _ => link11
  | 12, _ => link12
  | 13, _ => link13
  | 14, _ => link14
  | 15, _ => link15
  | 16, _ => link16
  | 17, _ => link17
  | 18, _ => link18
  | 19, _ => link19
  | 20, _ => link20
  | 21, _ => link21
  | 22, _ => link22
  | 23, _ => link23
  | 24, _ => link24
  | 25, _ => link25
  | 26, _ => link26
  | 27, _ => link27
  | 28, _ => link28
  | 29, _ => link29
  | 30, _ => link30
  | n + 31, h => absurd h (by omega)

/-! ### lifting the checks to the group -/

theorem chain_spec_cons {B : Pt} (hB : Valid B) :
    ∀ (l : List (Nat × Nat)) (a : Nat × Nat) (c : Nat), chainOK B (a :: l) = true →
      Valid (some a) → toE (some a) = c • toE B →
      ∀ j (h : j < (a :: l).length),
        Valid (some ((a :: l)[j])) ∧ toE (some ((a :: l)[j])) = (c + j) • toE B := by
  intro l
  induction l with
  | nil =>
    intro a c _ hv he j hj
    have : j = 0 := by simpa using hj
    subst this
    exact ⟨hv, by simpa using he⟩
  | cons b rest ih =>
    intro a c hc hv he j hj
    unfold chainOK at hc
    rw [Bool.and_eq_true, beq_iff_eq] at hc
    obtain ⟨hab, hrest⟩ := hc
    have hvb : Valid (some b) := by rw [← hab]; exact valid_add hv hB
    have heb : toE (some b) = (c + 1) • toE B := by
      rw [← hab, toE_add hv hB, he, succ_nsmul]
    cases j with
    | zero => exact ⟨hv, by simpa using he⟩
    | succ j =>
      have := ih b (c + 1) hrest hvb heb j (by simpa using hj)
      simp only [List.getElem_cons_succ]
      rw [show c + (j + 1) = c + 1 + j by omega]
      exact this

theorem dbl8_spec {p : Pt} (hp : Valid p) : Valid (dbl8 p) ∧ toE (dbl8 p) = 256 • toE p := by
  have h1 := dbl_spec hp
  have h2 := dbl_spec h1.1
  have h3 := dbl_spec h2.1
  have h4 := dbl_spec h3.1
  have h5 := dbl_spec h4.1
  have h6 := dbl_spec h5.1
  have h7 := dbl_spec h6.1
  have h8 := dbl_spec h7.1
  refine ⟨h8.1, ?_⟩
  unfold dbl8
  rw [h8.2, h7.2, h6.2, h5.2, h4.2, h3.2, h2.2, h1.2]
  simp only [← two_nsmul, ← mul_nsmul]

/-- the step of row 31 − d is 256^d • G -/
theorem base_spec : ∀ d, d ≤ 31 →
    Valid (some (base (31 - d))) ∧ toE (some (base (31 - d))) = (256 ^ d) • toE G := by
  intro d
  induction d with
  | zero =>
    intro _
    rw [Nat.sub_zero, base31]
    exact ⟨valid_G, by simp [G]⟩
  | succ d ih =>
    intro hd
    obtain ⟨hv, he⟩ := ih (by omega)
    have hl := linkOK_all (31 - (d + 1)) (by omega)
    unfold linkOK at hl
    rw [beq_iff_eq, show 31 - (d + 1) + 1 = 31 - d by omega] at hl
    have := dbl8_spec hv
    rw [hl] at this
    refine ⟨this.1, ?_⟩
    rw [this.2, he, ← mul_nsmul, pow_succ]

theorem base_spec' (i : Nat) (hi : i < 32) :
    Valid (some (base i)) ∧ toE (some (base i)) = (256 ^ (31 - i)) • toE G := by
  have := base_spec (31 - i) (by omega)
  rwa [show 31 - (31 - i) = i by omega] at this

/-- entry j ≥ 1 of row i -/
theorem entry_spec (i j : Nat) (hi : i < 32) (hj1 : 1 ≤ j) (hj : j < 256) :
    Valid (some ((row i).getD j (0, 0))) ∧
      toE (some ((row i).getD j (0, 0))) = (j * 256 ^ (31 - i)) • toE G := by
  have hr := rowOK_all i hi
  unfold rowOK at hr
  rw [Bool.and_eq_true, Bool.and_eq_true, beq_iff_eq, beq_iff_eq] at hr
  obtain ⟨⟨hsz, _⟩, hch⟩ := hr
  obtain ⟨hvB, heB⟩ := base_spec' i hi
  have hlen : (row i).toList.length = 256 := by rw [Array.length_toList, hsz]
  have hget : ∀ t (ht : t < 256), (row i).getD t (0, 0) = (row i).toList[t]'(by omega) := by
    intro t ht
    simp [Array.getD, hsz, ht]
  match hL : (row i).toList with
  | [] => rw [hL] at hlen; simp at hlen
  | [_] => rw [hL] at hlen; simp at hlen
  | e0 :: e1 :: rest =>
    have hb : base i = e1 := by
      unfold base
      rw [hget 1 (by omega)]
      simp [hL]
    rw [hL, List.tail_cons] at hch
    rw [hL] at hlen
    have hv1 : Valid (some e1) := hb ▸ hvB
    have he1 : toE (some e1) = 1 • toE (some (base i)) := by rw [one_nsmul, hb]
    obtain ⟨v, e⟩ := chain_spec_cons hvB rest e1 1 hch hv1 he1 (j - 1)
      (by simp only [List.length_cons] at hlen ⊢; omega)
    have hidx : (row i).getD j (0, 0) = (e1 :: rest)[j - 1]'(by
        simp only [List.length_cons] at hlen ⊢; omega) := by
      rw [hget j hj]
      simp only [hL]
      obtain ⟨j', rfl⟩ : ∃ j', j = j' + 1 := ⟨j - 1, by omega⟩
      simp
    rw [hidx]
    refine ⟨v, ?_⟩
    rw [e, heB, ← mul_nsmul, show 1 + (j - 1) = j by omega, Nat.mul_comm]

theorem entry_zero (i : Nat) (hi : i < 32) : (row i).getD 0 (0, 0) = (0, 0) := by
  have hr := rowOK_all i hi
  unfold rowOK at hr
  rw [Bool.and_eq_true, Bool.and_eq_true, beq_iff_eq, beq_iff_eq] at hr
  obtain ⟨⟨hsz, h0⟩, _⟩ := hr
  rw [← h0]
  simp [Array.getD, hsz]

/-- the table: entry (i, j) is a well-formed encoding of (j·256^(31−i))•G -/
theorem table_spec (i j : Nat) (hi : i < 32) (hj : j < 256) :
    Jac.WF (tablePoint i j) ∧ Jac.toPt (tablePoint i j) = smul (j * 256 ^ (31 - i)) G := by
  have ht : tablePoint i j = (((row i).getD j (0, 0)).1, ((row i).getD j (0, 0)).2, 1) := rfl
  rw [ht]
  by_cases hj0 : j = 0
  · subst hj0
    rw [entry_zero i hi, Nat.zero_mul, smul_zero']
    exact ⟨WF_zero, toPt_zero⟩
  · obtain ⟨hv, he⟩ := entry_spec i j hi (by omega) hj
    have hs : some ((row i).getD j (0, 0)) = smul (j * 256 ^ (31 - i)) G := by
      apply toE_injective_on_valid hv (valid_smul _ valid_G)
      rw [he, toE_smul _ valid_G]
    rw [← hs]
    exact affine_spec (x := ((row i).getD j (0, 0)).1) (y := ((row i).getD j (0, 0)).2) hv

end Secp.Proofs.ScalarMultTable
