import Secp.Props.C05
import Secp.Model.LimbExec
/-
  Proofs/AbsSound — soundness of the abstract interpreter `FOp.absPath` (magnitude bound,
  normalised?) with respect to LIMB-LEVEL execution (`Model.execPathL`: every operation is the
  regenerated kernel under Go wrap-around semantics), using only the kernel specifications
  proved in `Secp.Props.C05`.

  If `absPath` accepts a (call-free) program from σ then, for every limb register file realising σ
  and denoting the value registers rv, the limb run and the value-level run (`execPathWith`) take
  the same branches and the results are again related by `Rel`.
-/
namespace Secp.Proofs.AbsSound
open Secp.FOp Secp.Model Secp.Limbs Secp.Spec Secp.Gen Secp.IR
open Secp.Props.C05

/-! ### the side conditions on programs -/

/-- the registers an operation mentions -/
def opRegs : FOp → List Nat
  | .set d s => [d, s]
  | .setInt d _ => [d]
  | .zero d => [d]
  | .neg d s _ => [d, s]
  | .add d s => [d, s]
  | .add2 d a b => [d, a, b]
  | .addInt d _ => [d]
  | .mulInt d _ => [d]
  | .mul2 d a b => [d, a, b]
  | .sq d a => [d, a]
  | .norm d => [d]

/-- the registers a predicate mentions -/
def condRegs : FCond → List Nat
  | .equals a b => [a, b]
  | .isZero a => [a]
  | .isOne a => [a]
  | .isOdd a => [a]
  | .boolIn _ => []

def ItemInRange (n : Nat) : PItem → Prop
  | .op o => ∀ i ∈ opRegs o, i < n
  | .assume c _ => ∀ i ∈ condRegs c, i < n
  | .call _ args => ∀ i ∈ args, i < n

instance (n : Nat) (it : PItem) : Decidable (ItemInRange n it) := by
  cases it <;> unfold ItemInRange <;> infer_instance

/-- every register index mentioned by the items is below n -/
def InRange (n : Nat) (items : List PItem) : Prop := ∀ it ∈ items, ItemInRange n it

instance (n : Nat) (items : List PItem) : Decidable (InRange n items) := by
  unfold InRange; infer_instance

def PItem.isCall : PItem → Bool
  | .call _ _ => true
  | _ => false

/-- no `.call` item -/
def CallFree (items : List PItem) : Prop := ∀ it ∈ items, PItem.isCall it = false

instance (items : List PItem) : Decidable (CallFree items) := by
  unfold CallFree; infer_instance

/-! ### limbs: elementary facts -/

theorem ofList_toList (o : L10) : L10.ofList o.toList = o := by
  cases o; rfl

theorem MagLE.mono {a : L10} {m m' : Nat} (h : a.MagLE m) (hm : m ≤ m') : a.MagLE m' := by
  obtain ⟨h0, h1, h2, h3, h4, h5, h6, h7, h8, h9⟩ := h
  have e := Nat.mul_le_mul_right LB hm
  have e9 := Nat.mul_le_mul_right LB9 hm
  exact ⟨Nat.le_trans h0 e, Nat.le_trans h1 e, Nat.le_trans h2 e, Nat.le_trans h3 e, Nat.le_trans h4 e,
    Nat.le_trans h5 e, Nat.le_trans h6 e, Nat.le_trans h7 e, Nat.le_trans h8 e, Nat.le_trans h9 e9⟩

/-- 63 · LB < 2^32 -/
theorem MagLE.u32 {a : L10} {m : Nat} (h : a.MagLE m) (hm : m ≤ 63) : a.U32 := by
  simp only [L10.MagLE, LB, LB9, Nat.reducePow, Nat.reduceAdd] at h
  simp only [L10.U32, Nat.reducePow]
  obtain ⟨h0, h1, h2, h3, h4, h5, h6, h7, h8, h9⟩ := h
  refine ⟨?_, ?_, ?_, ?_, ?_, ?_, ?_, ?_, ?_, ?_⟩ <;> omega

theorem Tight.magLE {a : L10} (h : a.Tight) : a.MagLE 1 := by
  simp only [L10.Tight, Nat.reducePow] at h
  simp only [L10.MagLE, LB, LB9, Nat.reducePow, Nat.reduceAdd]
  obtain ⟨h0, h1, h2, h3, h4, h5, h6, h7, h8, h9⟩ := h
  refine ⟨?_, ?_, ?_, ?_, ?_, ?_, ?_, ?_, ?_, ?_⟩ <;> omega

theorem Normalized.magLE {a : L10} (h : a.Normalized) : a.MagLE 1 := Tight.magLE h.1

theorem zero_normalized : (⟨0, 0, 0, 0, 0, 0, 0, 0, 0, 0⟩ : L10).Normalized := by
  refine ⟨by simp [L10.Tight], ?_⟩
  simp only [L10.val, P]; omega

theorem small_normalized (v : Nat) (hv : v < 2 ^ 16) : (⟨v, 0, 0, 0, 0, 0, 0, 0, 0, 0⟩ : L10).Normalized := by
  refine ⟨?_, ?_⟩
  · simp only [L10.Tight]; omega
  · simp only [L10.val, P]; omega

/-- NegateVal's outputs are uint32 values whatever the inputs (each is a 32-bit subtraction).
    Needed because `negate_spec` bounds the result by `MagLE (m+1)`, and for m = 63 the slack
    bound 64·LB exceeds 2^32 (see the note at `step_sound`). -/
theorem negate_out_lt (l : List Nat) : ∀ x ∈ Field_NegateVal.runW l, x < 2 ^ 32 := by
  intro x hx
  simp only [Kernel.runW, Field_NegateVal, runBody, List.map, evalW, List.getD_cons_succ,
    List.getD_cons_zero, List.mem_cons, List.not_mem_nil, or_false] at hx
  rcases hx with h | h | h | h | h | h | h | h | h | h <;> (subst h; exact Nat.mod_lt _ (by decide))

theorem negate_out_u32 (l : List Nat) (o : L10) (h : Field_NegateVal.runW l = o.toList) : o.U32 := by
  have := negate_out_lt l
  rw [h] at this
  simp only [L10.toList, List.mem_cons, List.not_mem_nil, or_false] at this
  simp only [L10.U32]
  refine ⟨this _ ?_, this _ ?_, this _ ?_, this _ ?_, this _ ?_, this _ ?_, this _ ?_, this _ ?_,
    this _ ?_, this _ ?_⟩ <;> simp

/-! ### registers -/

theorem lget_lset (r : LRegs) (i j : Nat) (v : L10) (hi : i < r.length) :
    lget (lset r i v) j = if j = i then v else lget r j := by
  unfold lget lset
  rw [List.getD_eq_getElem?_getD, List.getD_eq_getElem?_getD, List.getElem?_set]
  by_cases h : j = i
  · subst h; simp [hi]
  · have h' : ¬ i = j := fun e => h e.symm
    simp [h, h']

theorem rget_rset (r : Regs) (i j : Nat) (v : Nat) (hi : i < r.length) :
    rget (rset r i v) j = if j = i then v else rget r j := by
  unfold rget rset
  rw [List.getD_eq_getElem?_getD, List.getD_eq_getElem?_getD, List.getElem?_set]
  by_cases h : j = i
  · subst h; simp [hi]
  · have h' : ¬ i = j := fun e => h e.symm
    simp [h, h']

theorem aget_aset (σ : AState) (i j : Nat) (v : AV) :
    aget (aset σ i v) j = if j = i then some v else aget σ j := by
  unfold aget aset
  by_cases hi : i < σ.length
  · rw [if_pos hi, List.getElem?_set]
    by_cases h : j = i
    · subst h; simp [hi]
    · have h' : ¬ i = j := fun e => h e.symm
      simp [h, h']
  · rw [if_neg hi]
    have hi' : σ.length ≤ i := Nat.le_of_not_lt hi
    by_cases h : j = i
    · subst h
      rw [if_pos rfl, List.getElem?_append_right (by simp; omega)]
      simp
      have : j - (σ.length + (j - σ.length)) = 0 := by omega
      simp [this]
    · rw [if_neg h]
      by_cases hj : j < σ.length
      · rw [List.append_assoc, List.getElem?_append_left hj]
      · have hj' : σ.length ≤ j := Nat.le_of_not_lt hj
        rw [List.getElem?_eq_none (l := σ) hj']
        by_cases hj2 : j < i
        · rw [List.getElem?_append_left (by simp; omega), List.getElem?_append_right hj',
            List.getElem?_replicate]
          have : j - σ.length < i - σ.length := by omega
          simp [this]
        · rw [List.getElem?_eq_none]
          simp; omega

theorem aset_length_le (σ : AState) (i n : Nat) (v : AV) (hσ : σ.length ≤ n) (hi : i < n) :
    (aset σ i v).length ≤ n := by
  unfold aset
  split
  · simpa using hσ
  · simp; omega

theorem stepL_length (r : LRegs) (o : FOp) : (stepL r o).length = r.length := by
  cases o <;> simp [stepL, lset]

/-- the generic register update -/
theorem rel_update (σ : AState) (rl : LRegs) (rv : Regs) (d m : Nat) (nrm : Bool) (x : L10) (y : Nat)
    (hd : d < rl.length) (hrel : Rel σ rl rv)
    (hU : x.U32) (hM : x.MagLE m) (hN : nrm = true → x.Normalized) (hv : x.val % P = y % P)
    (hy : nrm = true → y < P) :
    Rel (aset σ d (m, nrm)) (lset rl d x) (rset rv d y) := by
  obtain ⟨hlen, hσ, hUs, hA⟩ := hrel
  have hd' : d < rv.length := hlen ▸ hd
  refine ⟨by simp [lset, rset, hlen], ?_, ?_, ?_⟩
  · have : (lset rl d x).length = rl.length := by simp [lset]
    rw [this]; exact aset_length_le σ d _ _ hσ hd
  · intro i
    rw [lget_lset _ _ _ _ hd]
    split
    · exact hU
    · exact hUs i
  · intro i m' nrm' hi
    rw [aget_aset] at hi
    rw [lget_lset _ _ _ _ hd, rget_rset _ _ _ _ hd']
    by_cases hid : i = d
    · rw [if_pos hid] at hi ⊢
      rw [if_pos hid]
      have e := Option.some.inj hi
      have e1 : m = m' := congrArg Prod.fst e
      have e2 : nrm = nrm' := congrArg Prod.snd e
      subst e1; subst e2
      exact ⟨hM, hN, hv, hy⟩
    · rw [if_neg hid] at hi ⊢
      rw [if_neg hid]
      exact hA i m' nrm' hi

/-! ### modular arithmetic on the denoted values -/

theorem mod_neg (x a r : Nat) (h : (x + a) % P = 0) (ha : a % P = r % P) : x % P = fneg r % P := by
  simp only [fneg, P] at *
  omega

theorem mod_add (a b ra rb : Nat) (ha : a % P = ra % P) (hb : b % P = rb % P) :
    (a + b) % P = fadd ra rb % P := by
  simp only [fadd, P] at *
  omega

theorem mod_mul (a b ra rb : Nat) (ha : a % P = ra % P) (hb : b % P = rb % P) :
    (a * b) % P = fmul ra rb % P := by
  unfold fmul
  rw [Nat.mod_mod, Nat.mul_mod, ha, hb, ← Nat.mul_mod]

/-! ### one operation -/

theorem ite_some_none {α : Type} {c : Prop} [Decidable c] {x y : α}
    (h : (if c then some x else none) = some y) : c ∧ x = y := by
  by_cases hc : c
  · rw [if_pos hc] at h; exact ⟨hc, Option.some.inj h⟩
  · rw [if_neg hc] at h; exact absurd h (by simp)

/-- what `Rel` says about one register -/
theorem Rel.at {σ : AState} {rl : LRegs} {rv : Regs} (h : Rel σ rl rv) {i m : Nat} {nrm : Bool}
    (hi : aget σ i = some (m, nrm)) :
    (lget rl i).MagLE m ∧ (nrm = true → (lget rl i).Normalized) ∧
      (lget rl i).val % P = rget rv i % P ∧ (nrm = true → rget rv i < P) :=
  h.2.2.2 i m nrm hi

theorem Rel.u32 {σ : AState} {rl : LRegs} {rv : Regs} (h : Rel σ rl rv) (i : Nat) : (lget rl i).U32 :=
  h.2.2.1 i

/-- One operation: if the abstract step succeeds, the regenerated kernel (on limbs) and the value
    semantics stay related.

    Note on `neg d s m`: `stepA` accepts `m ≤ maxMag = 63` and records magnitude `m + 1`, i.e. up to 64,
    and 64·LB > 2^32, so `negate_spec`'s `MagLE (m+1)` does not by itself give the `U32` invariant of
    `Rel` when m = 63.  The kernel's outputs are nevertheless uint32 (`negate_out_u32`), which is what
    is used here. -/
theorem step_sound (σ σ' : AState) (o : FOp) (rl : LRegs) (rv : Regs)
    (hr : ∀ i ∈ opRegs o, i < rl.length) (h : stepA σ o = some σ') (hrel : Rel σ rl rv) :
    Rel σ' (stepL rl o) (stepF rv o) := by
  cases o with
  | set d s =>
    have hd : d < rl.length := hr d (by simp [opRegs])
    cases hs : aget σ s with
    | none => simp [stepA, hs] at h
    | some v =>
      obtain ⟨m, nrm⟩ := v
      simp [stepA, hs] at h
      subst h
      obtain ⟨hM, hN, hv, hy⟩ := Rel.at hrel hs
      simp only [stepL, stepF, set_spec, ofList_toList]
      exact rel_update σ rl rv d m nrm _ _ hd hrel (Rel.u32 hrel s) hM hN hv hy
  | setInt d v =>
    have hd : d < rl.length := hr d (by simp [opRegs])
    simp only [stepA] at h
    split at h
    · rename_i hv
      have h := Option.some.inj h
      subst h
      simp only [stepL, stepF, setInt_spec]
      have hn := small_normalized v hv
      refine rel_update σ rl rv d 1 true _ _ hd hrel (MagLE.u32 (Normalized.magLE hn) (by decide)) (Normalized.magLE hn)
        (fun _ => hn) ?_ (fun _ => Nat.mod_lt _ (by simp [P]))
      simp [L10.ofList, L10.val]
    · exact absurd h (by simp)
  | zero d =>
    have hd : d < rl.length := hr d (by simp [opRegs])
    simp only [stepA] at h
    have h := Option.some.inj h
    subst h
    simp only [stepL, stepF, zero_spec]
    have hn := zero_normalized
    refine rel_update σ rl rv d 1 true _ _ hd hrel (MagLE.u32 (Normalized.magLE hn) (by decide)) (Normalized.magLE hn)
      (fun _ => hn) ?_ (fun _ => by simp [P])
    simp [L10.ofList, L10.val]
  | neg d s m =>
    have hd : d < rl.length := hr d (by simp [opRegs])
    cases hs : aget σ s with
    | none => simp [stepA, hs] at h
    | some v =>
      obtain ⟨ms, ns⟩ := v
      simp only [stepA, hs, maxMag, Option.bind_eq_bind, Option.bind_some, Option.pure_def] at h
      obtain ⟨⟨hle, hm⟩, rfl⟩ := ite_some_none h
      obtain ⟨hM, -, hv, -⟩ := Rel.at hrel hs
      obtain ⟨o, ho, hoM, hov⟩ := negate_spec (lget rl d) (lget rl s) m hm (MagLE.mono hM hle)
      simp only [stepL, stepF, ho, ofList_toList]
      exact rel_update σ rl rv d (m + 1) false o _ hd hrel (negate_out_u32 _ o ho) hoM
        (fun e => absurd e (by simp)) (mod_neg _ _ _ hov hv) (fun e => absurd e (by simp))
  | add d s =>
    have hd : d < rl.length := hr d (by simp [opRegs])
    cases hdd : aget σ d with
    | none => simp [stepA, hdd] at h
    | some vd =>
      cases hs : aget σ s with
      | none => simp [stepA, hdd, hs] at h
      | some vs =>
        obtain ⟨md, nd⟩ := vd
        obtain ⟨ms, ns⟩ := vs
        simp only [stepA, hdd, hs, maxMag, Option.bind_eq_bind, Option.bind_some, Option.pure_def] at h
        obtain ⟨hle, rfl⟩ := ite_some_none h
        obtain ⟨hMd, -, hvd, -⟩ := Rel.at hrel hdd
        obtain ⟨hMs, -, hvs, -⟩ := Rel.at hrel hs
        obtain ⟨o, ho, hoM, hov⟩ := add_spec (lget rl d) (lget rl s) md ms hle hMd hMs
        simp only [stepL, stepF, ho, ofList_toList]
        refine rel_update σ rl rv d (md + ms) false o _ hd hrel (MagLE.u32 hoM hle) hoM
          (fun e => absurd e (by simp)) ?_ (fun e => absurd e (by simp))
        rw [hov]; exact mod_add _ _ _ _ hvd hvs
  | add2 d a b =>
    have hd : d < rl.length := hr d (by simp [opRegs])
    cases ha : aget σ a with
    | none => simp [stepA, ha] at h
    | some va =>
      cases hb : aget σ b with
      | none => simp [stepA, ha, hb] at h
      | some vb =>
        obtain ⟨ma, na⟩ := va
        obtain ⟨mb, nb⟩ := vb
        simp only [stepA, ha, hb, maxMag, Option.bind_eq_bind, Option.bind_some, Option.pure_def] at h
        obtain ⟨hle, rfl⟩ := ite_some_none h
        obtain ⟨hMa, -, hva, -⟩ := Rel.at hrel ha
        obtain ⟨hMb, -, hvb, -⟩ := Rel.at hrel hb
        obtain ⟨o, ho, hoM, hov⟩ := add2_spec (lget rl d) (lget rl a) (lget rl b) ma mb hle hMa hMb
        simp only [stepL, stepF, ho, ofList_toList]
        refine rel_update σ rl rv d (ma + mb) false o _ hd hrel (MagLE.u32 hoM hle) hoM
          (fun e => absurd e (by simp)) ?_ (fun e => absurd e (by simp))
        rw [hov]; exact mod_add _ _ _ _ hva hvb
  | addInt d v =>
    have hd : d < rl.length := hr d (by simp [opRegs])
    cases hdd : aget σ d with
    | none => simp [stepA, hdd] at h
    | some vd =>
      obtain ⟨md, nd⟩ := vd
      simp only [stepA, hdd, maxMag, Option.bind_eq_bind, Option.bind_some, Option.pure_def] at h
      obtain ⟨⟨hle, hv⟩, rfl⟩ := ite_some_none h
      obtain ⟨hMd, -, hvd, -⟩ := Rel.at hrel hdd
      obtain ⟨ho, hob⟩ := addInt_spec (lget rl d) md v (by omega) hMd hv
      simp only [stepL, stepF, ho, List.getD_cons_zero]
      have hoM : L10.MagLE (md + 1) { lget rl d with n0 := (lget rl d).n0 + v } := by
        have hM' := MagLE.mono hMd (Nat.le_succ md)
        exact ⟨hob, hM'.2⟩
      refine rel_update σ rl rv d (md + 1) false _ _ hd hrel (MagLE.u32 hoM (by omega)) hoM
        (fun e => absurd e (by simp)) ?_ (fun e => absurd e (by simp))
      have hval : L10.val { lget rl d with n0 := (lget rl d).n0 + v } = (lget rl d).val + v := by
        simp only [L10.val]; omega
      rw [hval]; exact mod_add _ _ _ _ hvd rfl
  | mulInt d v =>
    have hd : d < rl.length := hr d (by simp [opRegs])
    cases hdd : aget σ d with
    | none => simp [stepA, hdd] at h
    | some vd =>
      obtain ⟨md, nd⟩ := vd
      simp only [stepA, hdd, maxMag, Option.bind_eq_bind, Option.bind_some, Option.pure_def] at h
      obtain ⟨⟨hle, hv, hv0⟩, rfl⟩ := ite_some_none h
      obtain ⟨hMd, -, hvd, -⟩ := Rel.at hrel hdd
      obtain ⟨o, ho, hoM, hov⟩ := mulInt_spec (lget rl d) md v hle hv hMd
      simp only [stepL, stepF, ho, ofList_toList]
      refine rel_update σ rl rv d (md * v) false o _ hd hrel (MagLE.u32 hoM hle) hoM
        (fun e => absurd e (by simp)) ?_ (fun e => absurd e (by simp))
      rw [hov, Nat.mul_comm]; exact mod_mul _ _ _ _ hvd rfl
  | mul2 d a b =>
    have hd : d < rl.length := hr d (by simp [opRegs])
    cases ha : aget σ a with
    | none => simp [stepA, ha] at h
    | some va =>
      cases hb : aget σ b with
      | none => simp [stepA, ha, hb] at h
      | some vb =>
        obtain ⟨ma, na⟩ := va
        obtain ⟨mb, nb⟩ := vb
        simp only [stepA, ha, hb, mulMag, Option.bind_eq_bind, Option.bind_some, Option.pure_def] at h
        obtain ⟨⟨hla, hlb⟩, rfl⟩ := ite_some_none h
        obtain ⟨hMa, -, hva, -⟩ := Rel.at hrel ha
        obtain ⟨hMb, -, hvb, -⟩ := Rel.at hrel hb
        obtain ⟨o, ho, hoM, hov⟩ := mul2_spec (lget rl d) (lget rl a) (lget rl b) (Rel.u32 hrel d)
          (MagLE.mono hMa hla) (MagLE.mono hMb hlb)
        simp only [stepL, stepF, ho, ofList_toList]
        refine rel_update σ rl rv d 1 false o _ hd hrel (MagLE.u32 hoM (by decide)) hoM
          (fun e => absurd e (by simp)) ?_ (fun e => absurd e (by simp))
        rw [hov]; exact mod_mul _ _ _ _ hva hvb
  | sq d a =>
    have hd : d < rl.length := hr d (by simp [opRegs])
    cases ha : aget σ a with
    | none => simp [stepA, ha] at h
    | some va =>
      obtain ⟨ma, na⟩ := va
      simp only [stepA, ha, mulMag, Option.bind_eq_bind, Option.bind_some, Option.pure_def] at h
      obtain ⟨hla, rfl⟩ := ite_some_none h
      obtain ⟨hMa, -, hva, -⟩ := Rel.at hrel ha
      obtain ⟨o, ho, hoM, hov⟩ := square_spec (lget rl d) (lget rl a) (Rel.u32 hrel d) (MagLE.mono hMa hla)
      simp only [stepL, stepF, ho, ofList_toList]
      refine rel_update σ rl rv d 1 false o _ hd hrel (MagLE.u32 hoM (by decide)) hoM
        (fun e => absurd e (by simp)) ?_ (fun e => absurd e (by simp))
      rw [hov]; exact mod_mul _ _ _ _ hva hva
  | norm d =>
    have hd : d < rl.length := hr d (by simp [opRegs])
    cases hdd : aget σ d with
    | none => simp [stepA, hdd] at h
    | some vd =>
      obtain ⟨md, nd⟩ := vd
      simp only [stepA, hdd, maxMag, Option.bind_eq_bind, Option.bind_some, Option.pure_def] at h
      obtain ⟨hle, rfl⟩ := ite_some_none h
      obtain ⟨hMd, -, hvd, -⟩ := Rel.at hrel hdd
      obtain ⟨o, ho, hoN, hov⟩ := normalize_spec (lget rl d) (Rel.u32 hrel d)
      simp only [stepL, stepF, ho, ofList_toList]
      refine rel_update σ rl rv d 1 true o _ hd hrel (MagLE.u32 (Normalized.magLE hoN) (by decide)) (Normalized.magLE hoN)
        (fun _ => hoN) ?_ (fun _ => Nat.mod_lt _ (by simp [P]))
      rw [hov, hvd]

/-! ### predicates -/

theorem any_snd {x : Option AV} (h : x.any (·.2) = true) : ∃ m, x = some (m, true) := by
  cases x with
  | none => simp at h
  | some v =>
    obtain ⟨m, b⟩ := v
    simp at h
    exact ⟨m, by rw [h]⟩

/-- a register the abstract state knows to be normalised holds canonical limbs whose value IS the
    value-level register -/
theorem Rel.norm_eq {σ : AState} {rl : LRegs} {rv : Regs} (h : Rel σ rl rv) {i m : Nat}
    (hi : aget σ i = some (m, true)) : (lget rl i).Tight ∧ (lget rl i).val = rget rv i := by
  obtain ⟨-, hN, hv, hy⟩ := Rel.at h hi
  obtain ⟨ht, hlt⟩ := hN rfl
  rw [Nat.mod_eq_of_lt hlt, Nat.mod_eq_of_lt (hy rfl)] at hv
  exact ⟨ht, hv⟩

theorem cond_sound (σ : AState) (c : FCond) (rl : LRegs) (rv : Regs) (bools : List Bool)
    (_hr : ∀ i ∈ condRegs c, i < rl.length) (h : condA σ c = true) (hrel : Rel σ rl rv) :
    condL rl bools c = condF rv bools c := by
  cases c with
  | equals a b =>
    simp only [condA, Bool.and_eq_true] at h
    obtain ⟨ma, ha⟩ := any_snd h.1
    obtain ⟨mb, hb⟩ := any_snd h.2
    obtain ⟨hta, hva⟩ := Rel.norm_eq hrel ha
    obtain ⟨htb, hvb⟩ := Rel.norm_eq hrel hb
    simp only [condL, condF, equals_spec _ _ hta htb, hva, hvb]
    by_cases e : rget rv a = rget rv b <;> simp [e]
  | isZero a =>
    simp only [condA] at h
    obtain ⟨ma, ha⟩ := any_snd h
    obtain ⟨hta, hva⟩ := Rel.norm_eq hrel ha
    simp only [condL, condF, (isZero_spec _ hta).1, hva]
    by_cases e : rget rv a = 0 <;> simp [e]
  | isOne a =>
    simp only [condA] at h
    obtain ⟨ma, ha⟩ := any_snd h
    obtain ⟨hta, hva⟩ := Rel.norm_eq hrel ha
    simp only [condL, condF, (isOne_spec _ hta).1, hva]
    by_cases e : rget rv a = 1 <;> simp [e]
  | isOdd a =>
    simp only [condA] at h
    obtain ⟨ma, ha⟩ := any_snd h
    obtain ⟨hta, hva⟩ := Rel.norm_eq hrel ha
    simp only [condL, condF, (isOdd_spec _ hta).1, hva]
    by_cases e : rget rv a % 2 = 1 <;> simp [e]
  | boolIn i => rfl

/-! ### programs -/

/-- MAIN: if the abstract interpreter accepts a call-free program from σ, then for all limb registers
    realising σ and denoting the values rv, the limb-level run (regenerated kernels, Go wrap-around
    semantics) and the value-level run take the same branches, and the results are again related.
    (`CallFree` is in fact implied by `absPath … = some _`.) -/
theorem absPath_sound (items : List PItem) (σ σ' : AState) (rl : LRegs) (rv : Regs) (bools : List Bool)
    (_hcf : CallFree items) (hir : InRange rl.length items)
    (habs : absPath items σ = some σ') (hrel : Rel σ rl rv) :
    (execPathL bools items rl = none ↔ execPathWith (fun _ _ => none) bools items rv = none) ∧
    ∀ rl' rv', execPathL bools items rl = some rl' →
      execPathWith (fun _ _ => none) bools items rv = some rv' → Rel σ' rl' rv' := by
  induction items generalizing σ rl rv with
  | nil =>
    simp only [absPath] at habs
    have habs := Option.some.inj habs
    subst habs
    refine ⟨by simp [execPathL, execPathWith], ?_⟩
    intro rl' rv' h1 h2
    simp only [execPathL, execPathWith] at h1 h2
    rw [← Option.some.inj h1, ← Option.some.inj h2]
    exact hrel
  | cons it rest ih =>
    have hit : ItemInRange rl.length it := hir it (List.mem_cons_self ..)
    have hrest : InRange rl.length rest := fun x hx => hir x (List.mem_cons_of_mem _ hx)
    have hcf' : CallFree rest := fun x hx => _hcf x (List.mem_cons_of_mem _ hx)
    cases it with
    | op o =>
      cases hs : stepA σ o with
      | none => simp [absPath, hs] at habs
      | some σ1 =>
        simp only [absPath, hs, Option.bind_eq_bind, Option.bind_some] at habs
        have hrel1 := step_sound σ σ1 o rl rv hit hs hrel
        have hlen := stepL_length rl o
        simp only [execPathL, execPathWith]
        exact ih σ1 (stepL rl o) (stepF rv o) hcf' (hlen ▸ hrest) habs hrel1
    | assume c v =>
      simp only [absPath] at habs
      by_cases hc : condA σ c = true
      · rw [if_pos hc] at habs
        have e := cond_sound σ c rl rv bools hit hc hrel
        simp only [execPathL, execPathWith, e]
        by_cases hv : (condF rv bools c == v) = true
        · simp only [hv, if_true]
          exact ih σ rl rv hcf' hrest habs hrel
        · simp only [hv]
          refine ⟨by simp, ?_⟩
          intro rl' rv' h1
          simp at h1
      · rw [if_neg hc] at habs
        exact absurd habs (by simp)
    | call e a =>
      simp [absPath] at habs

end Secp.Proofs.AbsSound
