import Secp.Core.FOp
import Secp.Core.Limbs
import Secp.Gen.FieldIR
/-
  Model/LimbExec — limb-level execution of field-operation programs: every `FOp` is performed by
  the REGENERATED kernel of the corresponding FieldVal method (`Secp.Gen.Field_*`, Go wrap-around
  semantics `runW`), on registers holding ten uint32 limbs.  This is what the Go code actually does
  when it runs a formula program; `Secp.Props.C16.absPath_sound` relates it to the value-level
  execution (`FOp.execPathWith`) whenever the abstract interpreter `absPath` accepts the program.
-/
namespace Secp.Model
open Secp.FOp Secp.Limbs Secp.Gen Secp.IR

abbrev LRegs := List L10

def L10.zero : L10 := ⟨0, 0, 0, 0, 0, 0, 0, 0, 0, 0⟩
def L10.ofList (l : List Nat) : L10 :=
  ⟨l.getD 0 0, l.getD 1 0, l.getD 2 0, l.getD 3 0, l.getD 4 0, l.getD 5 0, l.getD 6 0, l.getD 7 0, l.getD 8 0, l.getD 9 0⟩

def lget (r : LRegs) (i : Nat) : L10 := r.getD i L10.zero
def lset (r : LRegs) (i : Nat) (v : L10) : LRegs := r.set i v

/-- one FieldVal method call, executed by the regenerated kernel -/
def stepL (r : LRegs) : FOp → LRegs
  | .set d s => lset r d (L10.ofList (Field_Set.runW ((lget r d).toList ++ (lget r s).toList)))
  | .setInt d v => lset r d (L10.ofList (Field_SetInt.runW ((lget r d).toList ++ [v])))
  | .zero d => lset r d (L10.ofList (Field_Zero.runW (lget r d).toList))
  | .neg d s m => lset r d (L10.ofList (Field_NegateVal.runW ((lget r d).toList ++ (lget r s).toList ++ [m])))
  | .add d s => lset r d (L10.ofList (Field_Add.runW ((lget r d).toList ++ (lget r s).toList)))
  | .add2 d a b => lset r d (L10.ofList (Field_Add2.runW ((lget r d).toList ++ (lget r a).toList ++ (lget r b).toList)))
  | .addInt d v =>
      -- AddInt's kernel returns only the new limb 0
      let f := lget r d
      lset r d { f with n0 := (Field_AddInt.runW (f.toList ++ [v])).getD 0 0 }
  | .mulInt d v => lset r d (L10.ofList (Field_MulInt.runW ((lget r d).toList ++ [v])))
  | .mul2 d a b => lset r d (L10.ofList (Field_Mul2.runW ((lget r d).toList ++ (lget r a).toList ++ (lget r b).toList)))
  | .sq d a => lset r d (L10.ofList (Field_SquareVal.runW ((lget r d).toList ++ (lget r a).toList)))
  | .norm d => lset r d (L10.ofList (Field_Normalize.runW (lget r d).toList))

/-- predicates, evaluated by the regenerated kernels on the limbs -/
def condL (r : LRegs) (bools : List Bool) : FCond → Bool
  | .equals a b => Field_Equals.runW ((lget r a).toList ++ (lget r b).toList) == [1]
  | .isZero a => Field_IsZero.runW (lget r a).toList == [1]
  | .isOne a => Field_IsOne.runW (lget r a).toList == [1]
  | .isOdd a => Field_IsOdd.runW (lget r a).toList == [1]
  | .boolIn i => bools.getD i false

/-- run a call-free path on limbs -/
def execPathL (bools : List Bool) : List PItem → LRegs → Option LRegs
  | [], r => some r
  | .op o :: rest, r => execPathL bools rest (stepL r o)
  | .assume c v :: rest, r => if condL r bools c == v then execPathL bools rest r else none
  | .call _ _ :: _, _ => none

/-- the limb registers realise the abstract state σ and denote the value registers rv -/
def Rel (σ : AState) (rl : LRegs) (rv : Regs) : Prop :=
  rl.length = rv.length ∧ σ.length ≤ rl.length ∧ (∀ i, (lget rl i).U32) ∧
  ∀ i m nrm, aget σ i = some (m, nrm) →
    (lget rl i).MagLE m ∧ (nrm = true → (lget rl i).Normalized) ∧ (lget rl i).val % Secp.Spec.P = rget rv i % Secp.Spec.P ∧
    (nrm = true → rget rv i < Secp.Spec.P)

end Secp.Model
