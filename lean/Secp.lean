-- Root of the `Secp` library: everything `setup.sh` builds once.
import Secp.Driver
import Secp.Props.C01
import Secp.Props.C02
import Secp.Props.C07
import Secp.Props.C05
import Secp.Props.C06
import Secp.Props.C16
import Secp.Props.C17
import Secp.Props.C18
import Secp.Props.C08
import Secp.Props.C09
import Secp.Props.C10
import Secp.Props.C11
import Secp.Props.C14
import Secp.Props.C19
