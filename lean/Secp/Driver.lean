import Secp.Spec.Ecdsa
import Secp.Model.Der
import Secp.Model.PrivKey
import Secp.Model.PubKey
import Secp.Gen.FieldIR
import Secp.Gen.ScalarIR
import Secp.Gen.FormulasC
import Secp.Model.ScalarMult
import Secp.Model.Ecdsa
import Secp.Model.Schnorr
import Secp.Model.Bip32
import Secp.Model.Adaptor
/-
  Driver — line protocol.  One operation per input line (`op arg…`, byte strings
  in hex, "-" for the empty string, numbers in decimal); one answer per line:
  `<model result>\t<spec result>` (the second field is "=" when the op has no
  separate specification-level answer).
-/
namespace Secp.Driver
open Secp.Spec Secp.Model

def natHex32 (n : Nat) : String := toHex (be32 n)

def showOutcome {ε α} (se : ε → String) (sa : α → String) : Outcome ε α → String
  | .ok a => "ok " ++ sa a
  | .err e => "err " ++ se e
  | .panic => "PANIC"

def opDerParse (args : List String) : String :=
  match args with
  | [h] =>
    match ofHex h with
    | some b =>
      let m := showOutcome SigErr.name (fun (p : Nat × Nat) => natHex32 p.1 ++ " " ++ natHex32 p.2) (parseDER b)
      m ++ "\t="
    | none => "bad-hex"
  | _ => "bad-args"

def opDerSerialize (args : List String) : String :=
  match args.map ofHex with
  | [some r, some s] => toHex (serializeDER (scalarSetByteSlice r).1 (scalarSetByteSlice s).1) ++ "\t="
  | _ => "bad-args"

def allKernels : List Secp.IR.Kernel := Secp.Gen.fieldKernels ++ Secp.Gen.scalarKernels

/-- kernel name in the generated files = the Lean identifier; look up by `name` field mapping -/
def kernelTable : List (String × Secp.IR.Kernel) := [
  ("Field_Zero", Secp.Gen.Field_Zero), ("Field_Set", Secp.Gen.Field_Set), ("Field_SetInt", Secp.Gen.Field_SetInt),
  ("Field_SetBytes", Secp.Gen.Field_SetBytes), ("Field_Normalize", Secp.Gen.Field_Normalize),
  ("Field_PutBytesUnchecked", Secp.Gen.Field_PutBytesUnchecked), ("Field_IsZeroBit", Secp.Gen.Field_IsZeroBit),
  ("Field_IsZero", Secp.Gen.Field_IsZero), ("Field_IsOneBit", Secp.Gen.Field_IsOneBit), ("Field_IsOne", Secp.Gen.Field_IsOne),
  ("Field_IsOddBit", Secp.Gen.Field_IsOddBit), ("Field_IsOdd", Secp.Gen.Field_IsOdd), ("Field_Equals", Secp.Gen.Field_Equals),
  ("Field_NegateVal", Secp.Gen.Field_NegateVal), ("Field_AddInt", Secp.Gen.Field_AddInt), ("Field_Add", Secp.Gen.Field_Add),
  ("Field_Add2", Secp.Gen.Field_Add2), ("Field_MulInt", Secp.Gen.Field_MulInt), ("Field_Mul2", Secp.Gen.Field_Mul2),
  ("Field_SquareVal", Secp.Gen.Field_SquareVal), ("Field_IsGtOrEqPrimeMinusOrder", Secp.Gen.Field_IsGtOrEqPrimeMinusOrder),
  ("CT_Eq_lit", Secp.Gen.CT_Eq_lit), ("CT_NotEq_lit", Secp.Gen.CT_NotEq_lit), ("CT_Less_lit", Secp.Gen.CT_Less_lit),
  ("CT_LessOrEq_lit", Secp.Gen.CT_LessOrEq_lit), ("CT_Greater_lit", Secp.Gen.CT_Greater_lit),
  ("CT_GreaterOrEq_lit", Secp.Gen.CT_GreaterOrEq_lit), ("CT_Min_lit", Secp.Gen.CT_Min_lit),
  ("Acc96_Add_lit", Secp.Gen.Acc96_Add_lit), ("Acc96_Rsh32_lit", Secp.Gen.Acc96_Rsh32_lit),
  ("Scalar_Zero", Secp.Gen.Scalar_Zero), ("Scalar_SetInt", Secp.Gen.Scalar_SetInt), ("Scalar_IsZeroBit", Secp.Gen.Scalar_IsZeroBit),
  ("Scalar_IsZero", Secp.Gen.Scalar_IsZero), ("Scalar_overflows", Secp.Gen.Scalar_overflows),
  ("Scalar_reduce256", Secp.Gen.Scalar_reduce256), ("Scalar_SetBytes", Secp.Gen.Scalar_SetBytes),
  ("Scalar_PutBytesUnchecked", Secp.Gen.Scalar_PutBytesUnchecked), ("Scalar_IsOdd", Secp.Gen.Scalar_IsOdd),
  ("Scalar_Equals", Secp.Gen.Scalar_Equals), ("Scalar_Add2", Secp.Gen.Scalar_Add2), ("Scalar_reduce385", Secp.Gen.Scalar_reduce385),
  ("Scalar_reduce512", Secp.Gen.Scalar_reduce512), ("Scalar_Mul2", Secp.Gen.Scalar_Mul2), ("Scalar_NegateVal", Secp.Gen.Scalar_NegateVal),
  ("Scalar_IsOverHalfOrder", Secp.Gen.Scalar_IsOverHalfOrder),
  ("Scalar_mul512Rsh320Round", Secp.Gen.Scalar_mul512Rsh320Round)]

/-- value of 26-bit limbs / 32-bit words (least significant first), big-endian bytes -/
def limbsVal (w : Nat) : List Nat → Nat
  | [] => 0
  | x :: xs => x + 2 ^ w * limbsVal w xs
def bytesValN (b : List Nat) : Nat := b.foldl (fun acc x => acc * 256 + x) 0
def toLimbs (w : Nat) : Nat → Nat → List Nat
  | 0, _ => []
  | n+1, v => v % 2 ^ w :: toLimbs w n (v / 2 ^ w)
def fieldLimbs (v : Nat) : List Nat := toLimbs 26 10 v
def scalarWords (v : Nat) : List Nat := toLimbs 32 8 v
def bytes32Of (v : Nat) : List Nat := (be32 v).map UInt8.toNat
def showNats (l : List Nat) : String := " ".intercalate (l.map toString)
def tightLimbs (l : List Nat) : Bool := (l.take 9).all (· < 2 ^ 26) && (l.getD 9 0) < 2 ^ 22
def magOK (m : Nat) (l : List Nat) : Bool := (l.take 9).all (· ≤ m * (2 ^ 26 + 2 ^ 20)) && l.getD 9 0 ≤ m * 2 ^ 22

/-- specification-level expectation for a kernel run, when the inputs meet the kernel's contract:
    either the exact expected outputs, or a verdict on the model's outputs (value congruence + bounds).
    `none` = no specification-level answer for this kernel / these inputs. -/
def kernSpec (name : String) (ins outs : List Nat) : Option String :=
  let f := ins.take 10
  let a := (ins.drop 10).take 10
  let b := (ins.drop 20).take 10
  let verdict (ok : Bool) : Option String := some (if ok then showNats outs else "SPEC-VIOLATION")
  match name with
  | "Field_Normalize" => some (showNats (fieldLimbs (limbsVal 26 f % P)))
  | "Field_Mul2" =>
    if magOK 8 a && magOK 8 b then verdict (magOK 1 outs && limbsVal 26 outs % P == limbsVal 26 a * limbsVal 26 b % P) else none
  | "Field_SquareVal" =>
    if magOK 8 a then verdict (magOK 1 outs && limbsVal 26 outs % P == limbsVal 26 a * limbsVal 26 a % P) else none
  | "Field_NegateVal" =>
    let m := ins.getD 20 0
    if m ≤ 63 && magOK m a then verdict (magOK (m + 1) outs && (limbsVal 26 outs + limbsVal 26 a) % P == 0) else none
  | "Field_Add" => verdict (limbsVal 26 outs == limbsVal 26 f + limbsVal 26 a)
  | "Field_Add2" => verdict (limbsVal 26 outs == limbsVal 26 a + limbsVal 26 b)
  | "Field_MulInt" => verdict (limbsVal 26 outs == limbsVal 26 f * ins.getD 10 0)
  | "Field_SetBytes" =>
    let v := bytesValN (ins.drop 10)
    some (showNats (fieldLimbs v ++ [if v ≥ P then 1 else 0]))
  | "Field_PutBytesUnchecked" => if tightLimbs f then some (showNats (bytes32Of (limbsVal 26 f))) else none
  | "Field_IsZero" | "Field_IsZeroBit" => if tightLimbs f then some (if limbsVal 26 f == 0 then "1" else "0") else none
  | "Field_IsOne" | "Field_IsOneBit" => if tightLimbs f then some (if limbsVal 26 f == 1 then "1" else "0") else none
  | "Field_IsOdd" | "Field_IsOddBit" => if tightLimbs f then some (toString (limbsVal 26 f % 2)) else none
  | "Field_Equals" => if tightLimbs f && tightLimbs a then some (if limbsVal 26 f == limbsVal 26 a then "1" else "0") else none
  | "Field_IsGtOrEqPrimeMinusOrder" => if tightLimbs f then some (if limbsVal 26 f ≥ P - N then "1" else "0") else none
  | "Scalar_overflows" => some (if limbsVal 32 (ins.take 8) ≥ N then "1" else "0")
  | "Scalar_SetBytes" =>
    let v := bytesValN (ins.drop 8)
    some (showNats (scalarWords (v % N) ++ [if v ≥ N then 1 else 0]))
  | "Scalar_PutBytesUnchecked" => some (showNats (bytes32Of (limbsVal 32 (ins.take 8))))
  | "Scalar_Add2" =>
    let x := limbsVal 32 ((ins.drop 8).take 8); let y := limbsVal 32 ((ins.drop 16).take 8)
    if x < N && y < N then some (showNats (scalarWords ((x + y) % N))) else none
  | "Scalar_Mul2" =>
    let x := limbsVal 32 ((ins.drop 8).take 8); let y := limbsVal 32 ((ins.drop 16).take 8)
    some (showNats (scalarWords (x * y % N)))
  | "Scalar_NegateVal" =>
    let x := limbsVal 32 ((ins.drop 8).take 8)
    if x < N then some (showNats (scalarWords ((N - x) % N))) else none
  | "Scalar_IsOverHalfOrder" => some (if limbsVal 32 (ins.take 8) > halfN then "1" else "0")
  | "Scalar_IsZero" | "Scalar_IsZeroBit" => some (if limbsVal 32 (ins.take 8) == 0 then "1" else "0")
  | "Scalar_IsOdd" => some (toString (limbsVal 32 (ins.take 8) % 2))
  | "Scalar_Equals" => some (if limbsVal 32 (ins.take 8) == limbsVal 32 ((ins.drop 8).take 8) then "1" else "0")
  | "Scalar_reduce512" => some (showNats (scalarWords (limbsVal 32 (ins.drop 8) % N)))
  | "Scalar_reduce385" =>
    let v := limbsVal 32 (ins.drop 8)
    if v < 2 ^ 385 then some (showNats (scalarWords (v % N))) else none
  | "Scalar_mul512Rsh320Round" =>
    let x := limbsVal 32 (ins.take 8); let y := limbsVal 32 ((ins.drop 8).take 8)
    some (showNats (scalarWords ((x * y + 2 ^ 319) / 2 ^ 320 % 2 ^ 256)))
  | "Scalar_reduce256" =>
    let o := ins.getD 8 0
    if o ≤ 1 then some (showNats (scalarWords ((limbsVal 32 (ins.take 8) + o * (2 ^ 256 - N)) % 2 ^ 256))) else none
  | _ => none

def opKern (args : List String) : String :=
  match args with
  | name :: rest =>
    match kernelTable.lookup name with
    | none => "no-such-kernel"
    | some k =>
      let ins := rest.map String.toNat!
      let outs := k.runW ins
      showNats outs ++ "\t" ++ (kernSpec name ins outs).getD "="
  | _ => "bad-args"

def ioErrName : IoErr → String
  | .eof => "eof" | .unexpectedEOF => "unexpectedEOF" | .other n => "other" ++ toString n

def opKeygen (args : List String) : String :=
  match args with
  | [d, term, _chunks, _ewd] =>
    match ofHex d with
    | some data =>
      let t := if term == "eof" then IoErr.eof else IoErr.other 7
      match generatePrivateKey ⟨data, t⟩ with
      | (.ok k, used) => "ok " ++ natHex32 k ++ " used=" ++ toString used ++ "\t="
      | (.error e, used) => "err " ++ ioErrName e ++ " used=" ++ toString used ++ "\t="
    | none => "bad-hex"
  | _ => "bad-args"

def opPrivFromBytes (args : List String) : String :=
  match args.map ofHex with
  | [some b] => toHex (privKeySerialize (privKeyFromBytes b)) ++ "\t" ++ toHex (be32 (beNat (b.take 32) % N))
  | _ => "bad-args"

def showXY (p : Nat × Nat) : String := natHex32 p.1 ++ " " ++ natHex32 p.2

/-- specification-level verdict on a byte string as a public key (from ValidSEC1, computed directly) -/
def specPubKey (b : Bytes) : String :=
  let x := beNat ((b.take 33).drop 1)
  let onc (x y : Nat) : Bool := x < P && y < P && (y * y) % P == (x * x * x + 7) % P
  if b.length = 65 then
    let y := beNat (b.drop 33)
    let t := b.headD 0
    if (t == 4 || (t == 6 && y % 2 == 0) || (t == 7 && y % 2 == 1)) && onc x y then "ok " ++ showXY (x, y) else "reject"
  else if b.length = 33 then
    let t := b.headD 0
    if (t == 2 || t == 3) && x < P then
      match fsqrt ((x * x * x + 7) % P) with
      | some r => if r == 0 && t == 3 then "reject" else
          let y := if (r % 2 == 1) == (t == 3) then r else P - r
          "ok " ++ showXY (x, y)
      | none => "reject"
    else "reject"
  else "reject"

def opPubParse (args : List String) : String :=
  match args.map ofHex with
  | [some b] => showOutcome PubErr.name showXY (parsePubKey b) ++ "\t" ++ specPubKey b
  | _ => "bad-args"

def opPubRoundtrip (args : List String) : String :=
  match args.map ofHex with
  | [some b] =>
    match parsePubKey b with
    | .ok (x, y) => "ok " ++ toHex (serializeCompressed x y) ++ " " ++ toHex (serializeUncompressed x y) ++ "\t="
    | .err e => "err " ++ e.name ++ "\t="
    | .panic => "PANIC\t="
  | _ => "bad-args"

def opSchnorrPubParse (args : List String) : String :=
  match args with
  | ["nil"] => showOutcome PubErr.name showXY (schnorrParsePubKey true []) ++ "\t="
  | [h] =>
    match ofHex h with
    | some b => showOutcome PubErr.name showXY (schnorrParsePubKey false b) ++ "\t="
    | none => "bad-hex"
  | _ => "bad-args"

def entryByName (n : String) : Option Secp.FOp.Entry := Secp.Gen.FormulasC.allEntries.find? (·.name == n)

/-- harness names of the aliased public entries -/
def cName (n : String) : String :=
  if n == "AddNonConst_r1" then "AddNonConst_a010" else if n == "AddNonConst_r2" then "AddNonConst_a011"
  else if n == "DoubleNonConst_r1" then "DoubleNonConst_a00" else n

def hexNat (s : String) : Option Nat := (ofHex s).map beNat

def triple (r : List Nat) (i : Nat) : String :=
  natHex32 (r.getD i 0) ++ " " ++ natHex32 (r.getD (i+1) 0) ++ " " ++ natHex32 (r.getD (i+2) 0)

def jacStr (q : Jac) : String := natHex32 q.1 ++ " " ++ natHex32 q.2.1 ++ " " ++ natHex32 q.2.2

def ptStr : Pt → String
  | none => "inf"
  | some (x, y) => natHex32 x ++ " " ++ natHex32 y

/-- jac <entry> params… : run the generated formula program at value level -/
def opJac (args : List String) : String :=
  match args with
  | name :: rest =>
    match entryByName (cName name), rest.mapM hexNat with
    | some e, some ps =>
      -- aliased entries take only the non-aliased parameters
      let params := ps ++ List.replicate (e.nparam - ps.length) 0
      match runNamed (cName name) params [] with
      | none => "no-path\t="
      | some (r, _) =>
        let out :=
          if name == "AddNonConst_r1" then triple r 0 ++ " | " ++ triple r 3
          else if name == "AddNonConst_r2" then triple r 3 ++ " | " ++ triple r 0
          else if name == "DoubleNonConst_r1" || name == "ToAffine" then triple r 0
          else if e.nparam == 9 then triple r 6 ++ " | " ++ triple r 0 ++ " | " ++ triple r 3
          else triple r 3 ++ " | " ++ triple r 0
        -- specification column for the public routines on well-formed operands: the result is a well-formed triple
        -- representing the affine sum / double computed by the affine group law, independently of the formula program
        let g (l : List Nat) (i : Nat) : Jac := (l.getD i 0, l.getD (i+1) 0, l.getD (i+2) 0)
        let wf (q : Jac) : Bool := decide (q.1 < P) && decide (q.2.1 < P) && decide (q.2.2 < P) &&
          (isInfJ q || fsq q.2.1 == fadd (fmul (fsq q.1) q.1) (fmul 7 (fmul (fsq (fmul (fsq q.2.2) q.2.2)) 1)))
        let p1 := g ps 0
        let p2 := g ps 3
        let verdict (res : Jac) (want : Pt) : String :=
          if wf res && Jac.toPt res == want then out else "SPEC-VIOLATION want " ++ ptStr want
        let spec : String :=
          if name == "AddNonConst" then
            (if wf p1 && wf p2 then verdict (g r 6) (Pt.add (Jac.toPt p1) (Jac.toPt p2)) else "=")
          else if name == "AddNonConst_r1" then
            (if wf p1 && wf p2 then verdict (g r 0) (Pt.add (Jac.toPt p1) (Jac.toPt p2)) else "=")
          else if name == "AddNonConst_r2" then
            (if wf p1 && wf p2 then verdict (g r 3) (Pt.add (Jac.toPt p1) (Jac.toPt p2)) else "=")
          else if name == "DoubleNonConst" then
            (if wf p1 then verdict (g r 3) (Pt.dbl (Jac.toPt p1)) else "=")
          else if name == "DoubleNonConst_r1" then
            (if wf p1 then verdict (g r 0) (Pt.dbl (Jac.toPt p1)) else "=")
          else if name == "ToAffine" then
            (if wf p1 then verdict (g r 0) (Jac.toPt p1) else "=")
          else "="
        out ++ "\t" ++ spec
    | _, _ => "bad-args"
  | _ => "bad-args"

def opIsOnCurve (args : List String) : String :=
  match args.mapM hexNat with
  | some [x, y] =>
    match runNamed "isOnCurve" [x, y] [] with
    | some (_, some b) => toString b ++ "\t" ++ toString (onCurveXY x y)
    | _ => "no-path"
  | _ => "bad-args"

def opDecompressY (args : List String) : String :=
  match args with
  | [xs, odd] =>
    match hexNat xs with
    | some x =>
      match runNamed "DecompressY" [x, 0] [odd == "1"] with
      | some (r, some true) => "true " ++ natHex32 (r.getD 1 0 % P) ++ "\t" ++
          (match Secp.Model.decompressY x (odd == "1") with | some y => "true " ++ natHex32 y | none => "false")
      | some (_, some false) => "false\t" ++
          (match Secp.Model.decompressY x (odd == "1") with | some y => "true " ++ natHex32 y | none => "false")
      | _ => "no-path"
    | none => "bad-hex"
  | _ => "bad-args"

/-- scalar argument as the code reads it (SetByteSlice: reduce once) -/
def scalarArg (s : String) : Option Nat := (ofHex s).map fun b => (scalarSetByteSlice b).1

def opSmul (args : List String) : String :=
  match args with
  | [ks, xs, ys, zs] =>
    match scalarArg ks, hexNat xs, hexNat ys, hexNat zs with
    | some k, some x, some y, some z =>
      let r := scalarMultNC k (x, y, z)
      -- spec: k • (affine point)
      let sp := smul k (Jac.toPt (x, y, z))
      jacStr r ++ "\t" ++ (if Jac.toPt r == sp then jacStr r else "SPEC-MISMATCH " ++ ptStr sp)
    | _, _, _, _ => "bad-args"
  | _ => "bad-args"

def opSbmul (args : List String) : String :=
  match args with
  | [ks] =>
    match scalarArg ks with
    | some k =>
      let r := scalarBaseMultNC k
      let sp := smul k G
      jacStr r ++ "\t" ++ (if Jac.toPt r == sp then jacStr r else "SPEC-MISMATCH " ++ ptStr sp)
    | none => "bad-args"
  | _ => "bad-args"

def opNaf (args : List String) : String :=
  match args.mapM ofHex with
  | some [k] =>
    let n := naf k
    let pos := n.posBytes
    let neg := n.negBytes
    -- spec: pos − neg = k, no overlapping digits
    let ok := beNat pos == beNat k + beNat neg && (pos.zip neg).all (fun (a, b) => a &&& b == 0)
    hexOrDash pos ++ " " ++ hexOrDash neg ++ "\t" ++ (if ok then hexOrDash pos ++ " " ++ hexOrDash neg else "SPEC-MISMATCH")
  | _ => "bad-args"

def opSplitK (args : List String) : String :=
  match args with
  | [ks] =>
    match scalarArg ks with
    | some k =>
      let (k1, k2) := splitK k
      let lambda := (N - endoNegLambda) % N
      let ok := (k1 + k2 * lambda) % N == k % N
      natHex32 k1 ++ " " ++ natHex32 k2 ++ "\t" ++ (if ok then natHex32 k1 ++ " " ++ natHex32 k2 else "SPEC-MISMATCH")
    | none => "bad-args"
  | _ => "bad-args"

def opMul512 (args : List String) : String :=
  match args.mapM scalarArg with
  | some [a, b] => natHex32 (mul512Rsh320Round a b) ++ "\t="
  | _ => "bad-args"

def opTablePt (args : List String) : String :=
  match args.map String.toNat? with
  | [some i, some j] =>
    let q := tablePoint i j
    -- spec: entry = (j · 256^(31−i)) • G, with (0,0) for the identity
    let sp := smul (j * 256 ^ (31 - i)) G
    let ok := match sp with | none => q.1 == 0 && q.2.1 == 0 | some (x, y) => q.1 == x && q.2.1 == y
    jacStr q ++ "\t" ++ (if ok then jacStr q else "SPEC-MISMATCH " ++ ptStr sp)
  | _ => "bad-args"

def opPubKey (args : List String) : String :=
  match args with
  | [ks] =>
    match scalarArg ks with
    | some d =>
      let r := toAffineJ (scalarBaseMultNC d)
      natHex32 r.1 ++ " " ++ natHex32 r.2.1 ++ "\t" ++ (match smul d G with | some (x, y) => natHex32 x ++ " " ++ natHex32 y | none => natHex32 0 ++ " " ++ natHex32 0)
    | none => "bad-args"
  | _ => "bad-args"

def rsvStr (t : Nat × Nat × Nat) : String := natHex32 t.1 ++ " " ++ natHex32 t.2.1 ++ " " ++ toString t.2.2

/-- sign <d> <hash>: r s v der compact(T) compact(F) signerDER signerCompact -/
def opSign (args : List String) : String :=
  match args with
  | [ds, hs] =>
    match scalarArg ds, ofHex hs with
    | some d, some h =>
      match signRFC6979M d h with
      | none => "none\t="
      | some (r, s, v) =>
        let der := serializeDER r s
        let c1 := exportCompactM r s v true 31
        let c0 := exportCompactM r s v true 27
        let sc := exportCompactM r s v true 0
        let m := rsvStr (r, s, v) ++ " " ++ toHex der ++ " " ++ toHex c1 ++ " " ++ toHex c0 ++ " " ++ toHex der ++ " " ++ toHex sc
        -- spec: textbook ECDSA with RFC 6979 nonce, low-s, verified by the textbook verifier
        let spec := match ecdsaSign d h with
          | some (r', s', v') =>
            if ecdsaVerify h (smul d G) r' s' then rsvStr (r', s', v') else "SPEC-UNVERIFIABLE"
          | none => "none"
        m ++ "\t" ++ (if spec == rsvStr (r, s, v) then m else "SPEC-MISMATCH " ++ spec)
    | _, _ => "bad-args"
  | _ => "bad-args"

def opSignNonce (args : List String) : String :=
  match args with
  | [ds, ks, hs] =>
    match scalarArg ds, scalarArg ks, ofHex hs with
    | some d, some k, some h =>
      let m := match signM d k h with | some t => rsvStr t | none => "none"
      let sp := match ecdsaSignWithNonce d k h with | some t => rsvStr t | none => "none"
      m ++ "\t" ++ sp
    | _, _, _ => "bad-args"
  | _ => "bad-args"

def opVerify (args : List String) : String :=
  match args with
  | [hs, xs, ys, rs, ss] =>
    match ofHex hs, hexNat xs, hexNat ys, scalarArg rs, scalarArg ss with
    | some h, some x, some y, some r, some s =>
      toString (verifyM h (x % P, y % P) r s) ++ "\t" ++ toString (ecdsaVerify h (some (x % P, y % P)) r s)
    | _, _, _, _, _ => "bad-args"
  | _ => "bad-args"

def recErrName : RecErr → String
  | .ErrSigOverflowsPrime => "err ErrSigOverflowsPrime" | .ErrPointNotOnCurve => "err ErrPointNotOnCurve" | .Panic => "PANIC"

def opRecover (args : List String) : String :=
  match args with
  | [hs, rs, ss, vs] =>
    match ofHex hs, scalarArg rs, scalarArg ss, vs.toNat? with
    | some h, some r, some s, some v =>
      let m := match recoverM h r s v with
        | .ok p => "ok " ++ showXY p
        | .error e => recErrName e
      let sp := if r = 0 ∨ s = 0 then "=" else match ecdsaRecover h r s v with
        | some p => "ok " ++ showXY p
        | none => "reject"
      m ++ "\t" ++ sp
    | _, _, _, _ => "bad-args"
  | _ => "bad-args"

/-- bruteforce <hash> <qx> <qy> <r> <s> : found? and the code; specification: the first code whose textbook recovery is Q -/
def opBruteforce (args : List String) : String :=
  match args with
  | [hs, xs, ys, rs, ss] =>
    match ofHex hs, hexNat xs, hexNat ys, scalarArg rs, scalarArg ss with
    | some h, some x, some y, some r, some s =>
      let (f, v) := bruteforceM h r s (x % P, y % P)
      let sp := match [0, 1, 2, 3].find? (fun v => ecdsaRecover h r s v == some (x % P, y % P)) with
        | some v => "true " ++ toString v
        | none => "false 255"
      toString f ++ " " ++ toString v ++ "\t" ++ (if r = 0 ∨ s = 0 then "=" else sp)
    | _, _, _, _, _ => "bad-args"
  | _ => "bad-args"

def opExport (args : List String) : String :=
  match args with
  | [rs, ss, vs] =>
    match scalarArg rs, scalarArg ss, vs.toNat? with
    | some r, some s, some v => rsvStr (let (a, b, c) := exportM r s v; (a, b, c % 256)) ++ "\t="
    | _, _, _ => "bad-args"
  | _ => "bad-args"

def opExportCompact (args : List String) : String :=
  match args with
  | [rs, ss, vs, first, off] =>
    match scalarArg rs, scalarArg ss, vs.toNat?, off.toNat? with
    | some r, some s, some v, some o => toHex (exportCompactM r s v (first == "1") o) ++ "\t="
    | _, _, _, _ => "bad-args"
  | _ => "bad-args"

def opParseCompact (args : List String) : String :=
  match args.mapM ofHex with
  | some [b] =>
    (match parseCompactM b with
     | .ok (r, s, c, comp) => "ok " ++ rsvStr (r, s, c) ++ " " ++ toString comp
     | .error (e, comp) => "err " ++ e.name ++ " " ++ toString comp) ++ "\t="
  | _ => "bad-args"

def opRecoverCompact (args : List String) : String :=
  match args.mapM ofHex with
  | some [b, h] =>
    (match parseCompactM b with
     | .error (e, _) => "err " ++ e.name
     | .ok (r, s, c, comp) =>
       match recoverM h r s c with
       | .ok p => "ok " ++ showXY p ++ " " ++ toString comp
       | .error e => recErrName e) ++ "\t="
  | _ => "bad-args"

/-- split trailing `oracle=in:out` fields off an argument list -/
def splitOracle (args : List String) : List String × List (Bytes × Bytes) :=
  let (os, rest) := args.partition (·.startsWith "oracle=")
  (rest, os.filterMap fun o =>
    match (o.drop 7).toString.splitOn ":" with
    | [i, out] => match ofHex i, ofHex out with
      | some a, some b => some (a, b)
      | _, _ => none
    | _ => none)

/-- an oracle-table hash function; an unanswered query yields a recognisable dummy -/
def oracleFn (tbl : List (Bytes × Bytes)) (q : Bytes) : Bytes :=
  match tbl.find? (·.1 == q) with
  | some (_, out) => out
  | none => List.replicate 32 0xEE

def schnorrRes : Except SchnorrErr (Nat × Nat) → String
  | .ok (r, s) => "ok " ++ toHex (schnorrSerialize r s)
  | .error e => "err " ++ e.name

def opSchnorrSign (args0 : List String) : String :=
  let (args, tbl) := splitOracle args0
  match args with
  | [ds, hs] =>
    match scalarArg ds, ofHex hs with
    | some d, some h => schnorrRes (schnorrSign (oracleFn tbl) d h) ++ "\t="
    | _, _ => "bad-args"
  | _ => "bad-args"

def opSchnorrSignNonce (args0 : List String) : String :=
  let (args, tbl) := splitOracle args0
  match args with
  | [ds, ks, hs] =>
    match scalarArg ds, scalarArg ks, ofHex hs with
    | some d, some k, some h => schnorrRes (schnorrSignM (oracleFn tbl) d k h) ++ "\t="
    | _, _, _ => "bad-args"
  | _ => "bad-args"

def opSchnorrVerify (args0 : List String) : String :=
  let (args, tbl) := splitOracle args0
  match args with
  | [sb, hs, xs, ys] =>
    match ofHex sb, ofHex hs, hexNat xs, hexNat ys with
    | some sig, some h, some x, some y =>
      match schnorrParse sig with
      | .error e => "parse-err " ++ e.name ++ "\t="
      | .ok (r, s) =>
        let m := match schnorrVerifyM (oracleFn tbl) r s h (x % P, y % P) with
          | none => "ok" | some e => "err " ++ e.name
        -- spec: textbook statement of EC-Schnorr-DCRv0 verification over the affine specification
        let sp :=
          if h.length ≠ 32 ∨ !(onCurveXY (x % P) (y % P)) then "reject" else
          let c := beNat (oracleFn tbl (be32 r ++ h))
          if c ≥ N then "reject" else
          match Pt.add (smul s G) (smul c (some (x % P, y % P))) with
          | none => "reject"
          | some (rx, ry) => if ry % 2 == 0 && rx == r then "ok" else "reject"
        m ++ "\t" ++ sp
    | _, _, _, _ => "bad-args"
  | _ => "bad-args"

def opSchnorrParse (args : List String) : String :=
  match args.mapM ofHex with
  | some [b] => schnorrRes (schnorrParse b) ++ "\t="
  | _ => "bad-args"

def opNonce (args : List String) : String :=
  match args with
  | [k, h, e, v, it] =>
    match ofHex k, ofHex h, ofHex e, ofHex v, it.toNat? with
    | some k, some h, some e, some v, some i =>
      let m := match nonceM 256 k h e v i with | some n => natHex32 n | none => "none"
      let sp := match nonceRFC6979 hmacSha256 256 k h e v i with | some n => natHex32 n | none => "none"
      m ++ "\t" ++ sp
    | _, _, _, _, _ => "bad-args"
  | _ => "bad-args"

def opHmacObj (args : List String) : String :=
  match args with
  | [prog] =>
    let steps := prog.splitOn ";"
    let (_, outs) := steps.foldl (fun (acc : HmacObj × List String) st =>
      let (h, outs) := acc
      match st.splitOn ":" with
      | [op] =>
        if op == "sum" then let (d, h') := h.sum; (h', outs ++ [toHex d])
        else if op == "reset" then (h.reset, outs) else (h, outs)
      | [op, a] =>
        let b := (ofHex a).getD []
        if op == "new" then (hmacNew b, outs)
        else if op == "write" then (h.write b, outs)
        else if op == "resetkey" then (h.resetKey b, outs)
        else (h, outs)
      | _ => (h, outs)) (hmacNew [], [])
    " ".intercalate outs ++ "\t="
  | _ => "bad-args"

def opSha256 (args : List String) : String :=
  match args.mapM ofHex with
  | some [b] => toHex (sha256 b) ++ "\t="
  | _ => "bad-args"

/-- oracle fields of the BIP32 ops: h512=key:data:out  h160=in:out  b58d=text:bytes|ERR  b58e=bytes:text -/
structure BipOracle where
  h512 : List (Bytes × Bytes × Bytes)
  h160 : List (Bytes × Bytes)
  b58d : List (Bytes × Option Bytes)
  b58e : List (Bytes × Bytes)

def parseBipOracle (args : List String) : List String × BipOracle :=
  let isO (a : String) := a.startsWith "h512=" || a.startsWith "h160=" || a.startsWith "b58d=" || a.startsWith "b58e="
  let (os, rest) := args.partition isO
  let body (o : String) := ((o.drop 5).toString.splitOn ":").map fun f => if f == "ERR" then none else ofHex f
  let init : BipOracle := { h512 := [], h160 := [], b58d := [], b58e := [] }
  (rest, os.foldl (fun (acc : BipOracle) o =>
    match body o with
    | [some k, some d, some out] => if o.startsWith "h512=" then { acc with h512 := (k, d, out) :: acc.h512 } else acc
    | [some i, some out] =>
      if o.startsWith "h160=" then { acc with h160 := (i, out) :: acc.h160 }
      else if o.startsWith "b58d=" then { acc with b58d := (i, some out) :: acc.b58d }
      else if o.startsWith "b58e=" then { acc with b58e := (i, out) :: acc.b58e } else acc
    | [some i, none] => if o.startsWith "b58d=" then { acc with b58d := (i, none) :: acc.b58d } else acc
    | _ => acc) init)

def BipOracle.toOracles (o : BipOracle) : Oracles :=
  { hmac512 := fun k d => match o.h512.find? (fun e => e.1 == k && e.2.1 == d) with
      | some (_, _, out) => out | none => List.replicate 64 0xEE,
    hash160 := fun i => match o.h160.find? (·.1 == i) with | some (_, out) => out | none => List.replicate 20 0xEE }

def extKeyFields (k : ExtKey) : String :=
  toHex k.version ++ " " ++ toString k.depth ++ " " ++ toHex k.fingerprint ++ " " ++ toString k.childNumber ++ " " ++
    hexOrDash k.keyData ++ " " ++ hexOrDash k.chainCode

def parsePathArg (s : String) : List Nat := if s == "-" then [] else (s.splitOn ",").filterMap String.toNat?

def opBipDerive (args0 : List String) : String :=
  let (args, orc) := parseBipOracle args0
  let O := orc.toOracles
  match args with
  | [seedS, pathS, neuterS] =>
    match ofHex seedS with
    | none => "bad-hex"
    | some seed =>
      let path := parsePathArg pathS
      let neuterAt : Option Nat := if neuterS.startsWith "-" then none else neuterS.toNat?
      let res : Except BipErr (Option Nat × ExtKey) := do
        let m ← fromSeed O seed "Bitcoin seed".toUTF8.toList
        match neuterAt with
        | some na =>
          if na ≤ path.length then
            let (_, pre) ← deriveWithIL O m (path.take na) none
            deriveWithIL O pre.neuter (path.drop na) none
          else deriveWithIL O m path none
        | none => deriveWithIL O m path none
      (match res with
       | .error e => "err " ++ e.name
       | .ok (il, fin) =>
         "ok " ++ (match il with | some v => natHex32 v | none => "-") ++ " " ++ extKeyFields fin ++ " " ++
           toHex fin.marshal ++ " | " ++ extKeyFields fin.neuter) ++ "\t="
  | _ => "bad-args"

/-- `bip_derive_from <82 bytes> <path>`: decode a serialised key (any depth byte) and derive the path from it -/
def opBipDeriveFrom (args0 : List String) : String :=
  let (args, orc) := parseBipOracle args0
  let O := orc.toOracles
  match args with
  | [binS, pathS] =>
    match ofHex binS with
    | none => "bad-hex"
    | some bin =>
      let path := parsePathArg pathS
      let res : Except BipErr (Option Nat × ExtKey) := do
        let k ← unmarshal bin
        deriveWithIL O k path none
      (match res with
       | .error e => "err " ++ e.name
       | .ok (il, fin) =>
         "ok " ++ (match il with | some v => natHex32 v | none => "-") ++ " " ++ extKeyFields fin ++ " " ++
           toHex fin.marshal ++ " | " ++ extKeyFields fin.neuter) ++ "\t="
  | _ => "bad-args"

/-- `bip_reload <A> <B>`: an object that decoded A and then B behaves like a fresh object that decoded B; the model has
    no objects, so the expected answer only depends on whether both decode -/
def opBipReload (args : List String) : String :=
  match args.mapM ofHex with
  | some [a, b] =>
    (match unmarshal b with
     | .error e => "err " ++ e.name
     | .ok _ => match unmarshal a with
       | .error e => "err " ++ e.name
       | .ok _ => "ok") ++ "\t="
  | _ => "bad-args"

/-- `bip_frompub <x> <y> <cc>`: key data = compressed form of the coordinates as given (no validation in FromPublicKey) -/
def opBipFromPub (args : List String) : String :=
  match args.mapM ofHex with
  | some [xb, yb, cc] =>
    (match fromPublicKey (beNat xb) (beNat yb) cc with
     | .error _ => "err"
     | .ok k => "ok " ++ toHex k.keyData) ++ "\t="
  | _ => "bad-args"

/-- `bip_toecdsa <bytes82>`: the decoded key handed to the ecdsa / secp256k1 types — the private scalar and the one
    public point all three conversions must describe -/
def opBipToEcdsa (args : List String) : String :=
  match args.mapM ofHex with
  | some [b] =>
    (match unmarshal b with
     | .error e => "err " ++ e.name
     | .ok k =>
       let pt : Option (Nat × Nat) :=
         if k.isPrivate then some (adaptorBaseMult k.keyData)
         else match parsePubKey k.keyData with | .ok p => some p | _ => none
       let xy := match pt with
         | some (x, y) => " " ++ toHex (be32 x) ++ " " ++ toHex (be32 y)
         | none => "-err"
       "ok " ++ (if k.isPrivate then "priv " ++ toHex (be32 (privKeyFromBytes k.keyData)) ++ xy ++ " | " else "") ++
         "pubE" ++ xy ++ " | pubS" ++ xy) ++ "\t="
  | _ => "bad-args"

def opBipUnmarshal (args : List String) : String :=
  match args.mapM ofHex with
  | some [b] =>
    (match unmarshal b with
     | .error e => "err " ++ e.name
     | .ok k => "ok " ++ extKeyFields k ++ " " ++ toHex k.marshal) ++ "\t="
  | _ => "bad-args"

def opBipFromString (args0 : List String) : String :=
  let (args, orc) := parseBipOracle args0
  match args.mapM ofHex with
  | some [txt] =>
    (match orc.b58d.find? (·.1 == txt) with
     | none => "ORACLE-MISS"
     | some (_, none) => "err Base58Error"
     | some (_, some bin) =>
       match unmarshal bin with
       | .error e => "err " ++ e.name
       | .ok k =>
         let str := match orc.b58e.find? (·.1 == k.marshal) with | some (_, t) => toHex t | none => "ORACLE-MISS"
         "ok " ++ extKeyFields k ++ " " ++ str) ++ "\t="
  | _ => "bad-args"

def xyStr (p : Nat × Nat) : String := natHex32 p.1 ++ " " ++ natHex32 p.2

def opAdAdd (args : List String) : String :=
  match args.mapM hexNat with
  | some [x1, y1, x2, y2] =>
    xyStr (adaptorAdd (x1, y1) (x2, y2)) ++ "\t" ++ xyStr (xyOfPt (Pt.add (ptOfXY (x1, y1)) (ptOfXY (x2, y2))))
  | _ => "bad-args"

def opAdDouble (args : List String) : String :=
  match args.mapM hexNat with
  | some [x, y] => xyStr (adaptorDouble (x, y)) ++ "\t" ++ xyStr (xyOfPt (Pt.dbl (ptOfXY (x, y))))
  | _ => "bad-args"

def opAdSmul (args : List String) : String :=
  match args with
  | [xs, ys, ks] =>
    match hexNat xs, hexNat ys, ofHex ks with
    | some x, some y, some k =>
      xyStr (adaptorScalarMult (x, y) k) ++ "\t" ++ xyStr (xyOfPt (smul (beNat k % N) (ptOfXY (x, y))))
    | _, _, _ => "bad-args"
  | _ => "bad-args"

def opAdSbmul (args : List String) : String :=
  match args.mapM ofHex with
  | some [k] => xyStr (adaptorBaseMult k) ++ "\t" ++ xyStr (xyOfPt (smul (beNat k % N) G))
  | _ => "bad-args"

def opAdIsOnCurve (args : List String) : String :=
  match args.mapM hexNat with
  | some [x, y] => toString (adaptorIsOnCurve x y) ++ "\t" ++ toString (onCurveXY x y)
  | _ => "bad-args"

def opEcdh (args : List String) : String :=
  match args with
  | [as, xs, ys, _enc] =>
    match scalarArg as, hexNat xs, hexNat ys with
    | some a, some x, some y =>
      toHex (ecdhM a (x, y)) ++ "\t" ++ toHex (be32 (xyOfPt (smul a (some (x, y)))).1)
    | _, _, _ => "bad-args"
  | _ => "bad-args"

def opInterop (_args : List String) : String := "ours->std=true asn1=true std->ours=true keys=true\t="

def runOp (line : String) : String :=
  match (line.splitOn " ").filter (· ≠ "") with
  | [] => "empty"
  | op :: args =>
    match op with
    | "der_parse" => opDerParse args
    | "der_serialize" => opDerSerialize args
    | "kern" => opKern args
    | "keygen" => opKeygen args
    | "ad_add" => opAdAdd args
    | "ad_double" => opAdDouble args
    | "ad_smul" => opAdSmul args
    | "ad_sbmul" => opAdSbmul args
    | "ad_isoncurve" => opAdIsOnCurve args
    | "ecdh" => opEcdh args
    | "interop" => opInterop args
    | "bip_derive" => opBipDerive args
    | "bip_derive_from" => opBipDeriveFrom args
    | "bip_reload" => opBipReload args
    | "bip_frompub" => opBipFromPub args
    | "bip_unmarshal" => opBipUnmarshal args
    | "bip_toecdsa" => opBipToEcdsa args
    | "bip_fromstring" => opBipFromString args
    | "nonce" => opNonce args
    | "hmacobj" => opHmacObj args
    | "sha256" => opSha256 args
    | "schnorr_sign" => opSchnorrSign args
    | "schnorr_sign_nonce" => opSchnorrSignNonce args
    | "schnorr_verify" => opSchnorrVerify args
    | "schnorr_parse" => opSchnorrParse args
    | "sign" => opSign args
    | "sign_nonce" => opSignNonce args
    | "verify" => opVerify args
    | "recover" => opRecover args
    | "bruteforce" => opBruteforce args
    | "export" => opExport args
    | "export_compact" => opExportCompact args
    | "parse_compact" => opParseCompact args
    | "recover_compact" => opRecoverCompact args
    | "smul" => opSmul args
    | "sbmul" => opSbmul args
    | "naf" => opNaf args
    | "splitk" => opSplitK args
    | "mul512rsh320" => opMul512 args
    | "tablept" => opTablePt args
    | "pubkey" => opPubKey args
    | "jac" => opJac args
    | "isoncurve" => opIsOnCurve args
    | "decompressy" => opDecompressY args
    | "pubkey_parse" => opPubParse args
    | "pubkey_roundtrip" => opPubRoundtrip args
    | "schnorr_pubkey_parse" => opSchnorrPubParse args
    | "privkey_frombytes" => opPrivFromBytes args
    | _ => "unknown-op " ++ op

partial def loop (hin : IO.FS.Stream) (hout : IO.FS.Stream) : IO Unit := do
  let line ← hin.getLine
  if line.isEmpty then return ()
  let l := (line.dropEndWhile (fun c => c == '\n' || c == '\r')).toString
  hout.putStrLn (runOp l)
  loop hin hout

end Secp.Driver

def main : IO Unit := do
  let hin ← IO.getStdin
  let hout ← IO.getStdout
  Secp.Driver.loop hin hout
  hout.flush
