//go:build verif

package main

import (
	"bytes"
	cryptorand "crypto/rand"
	"errors"
	"fmt"
	"io"
	"math/big"
	"strconv"
	"sync"

	secp "github.com/ModChain/secp256k1"
)

var errOther7 = errors.New("reader failure 7")

// scriptedReader delivers data in chunks of the given sizes (cycled), then fails with term.
// When errWithData is set, the terminal error is returned together with the last chunk.
type scriptedReader struct {
	data        []byte
	pos         int
	chunks      []int
	ci          int
	term        error
	errWithData bool
	calls       int
}

func (r *scriptedReader) Read(p []byte) (int, error) {
	r.calls++
	if r.pos >= len(r.data) {
		return 0, r.term
	}
	n := r.chunks[r.ci%len(r.chunks)]
	r.ci++
	if n > len(p) {
		n = len(p)
	}
	if n > len(r.data)-r.pos {
		n = len(r.data) - r.pos
	}
	copy(p, r.data[r.pos:r.pos+n])
	r.pos += n
	if r.pos >= len(r.data) && r.errWithData {
		return n, r.term
	}
	return n, nil
}

func init() {
	// keygen <data> <eof|other7> <chunkpattern e.g. 32,1,7> <0|1 errWithData>
	opImpl["keygen"] = func(a []string) string {
		data := unhx(a[0])
		var term error = io.EOF
		if a[1] == "other7" {
			term = errOther7
		}
		var chunks []int
		for _, s := range splitComma(a[2]) {
			n, _ := strconv.Atoi(s)
			if n <= 0 {
				n = 1
			}
			chunks = append(chunks, n)
		}
		r := &scriptedReader{data: data, chunks: chunks, term: term, errWithData: a[3] == "1"}
		k, err := secp.GeneratePrivateKeyFromRand(r)
		// GeneratePrivateKey (the crypto/rand front end) on the same stream: crypto/rand.Reader is swapped for an
		// identical scripted reader for the duration of the call (under a lock: it is a process-wide variable)
		{
			r2 := &scriptedReader{data: data, chunks: chunks, term: term, errWithData: a[3] == "1"}
			randMu.Lock()
			saved := cryptorand.Reader
			cryptorand.Reader = r2
			k2, err2 := secp.GeneratePrivateKey()
			cryptorand.Reader = saved
			randMu.Unlock()
			if (err == nil) != (err2 == nil) || r2.pos != r.pos || (err == nil && !bytes.Equal(k.Serialize(), k2.Serialize())) {
				g := "err"
				if err2 == nil {
					g = hx(k2.Serialize())
				}
				return fmt.Sprintf("FRONT-ENDS-DISAGREE GeneratePrivateKey=%s used=%d FromRand used=%d", g, r2.pos, r.pos)
			}
		}
		if err != nil {
			name := "other:" + err.Error()
			switch {
			case err == io.EOF:
				name = "eof"
			case err == io.ErrUnexpectedEOF:
				name = "unexpectedEOF"
			case err == errOther7:
				name = "other7"
			}
			if k != nil {
				name += " KEY-WITH-ERROR"
			}
			return fmt.Sprintf("err %s used=%d", name, r.pos)
		}
		return fmt.Sprintf("ok %s used=%d", hx(k.Serialize()), r.pos)
	}
	opImpl["privkey_frombytes"] = func(a []string) string {
		b := unhx(a[0])
		return withArgsCheck([][]byte{b}, func() string {
			k := secp.PrivKeyFromBytes(b)
			out := hx(k.Serialize())
			k.Zero()
			z := k.Serialize()
			for _, x := range z {
				if x != 0 {
					return out + " ZERO-FAILED"
				}
			}
			return out
		})
	}
	generators["C19"] = genC19
}

func splitComma(s string) []string {
	var out []string
	cur := ""
	for _, c := range s {
		if c == ',' {
			out = append(out, cur)
			cur = ""
		} else {
			cur += string(c)
		}
	}
	return append(out, cur)
}

var randMu sync.Mutex

func genC19(h *H) {
	bs := h.boundaryInts()
	block := func() []byte {
		switch h.rng.Intn(5) {
		case 4: // a single non-zero 32-bit word (valid key that a word-skipping zero test would discard)
			b := make([]byte, 32)
			j := h.rng.Intn(8)
			w := []uint32{1, 0x80000000, 0xffffffff, h.rng.Uint32() | 1}[h.rng.Intn(4)]
			b[4*j], b[4*j+1], b[4*j+2], b[4*j+3] = byte(w>>24), byte(w>>16), byte(w>>8), byte(w)
			return b
		case 0:
			v := bs[h.rng.Intn(len(bs))]
			if v.BitLen() > 256 {
				v = new(big.Int).Rsh(v, 1)
			}
			return be32(v)
		case 1: // invalid: zero or >= N
			if h.rng.Intn(2) == 0 {
				return make([]byte, 32)
			}
			v := new(big.Int).Add(curveN, new(big.Int).SetBytes(h.randBytes(h.rng.Intn(12))))
			if v.BitLen() > 256 {
				v = new(big.Int).Set(curveN)
			}
			return be32(v)
		default:
			return h.randBytes(32)
		}
	}
	patterns := []string{"32", "1", "31,1", "7,13", "64", "33", "5,27,32", "16"}
	n := 150 * h.budget
	for i := 0; i < n; i++ {
		var data []byte
		invalidPrefix := h.rng.Intn(4)
		for j := 0; j < invalidPrefix; j++ {
			if h.rng.Intn(2) == 0 {
				data = append(data, make([]byte, 32)...)
			} else {
				data = append(data, be32(new(big.Int).Add(curveN, big.NewInt(int64(h.rng.Intn(3)))))...)
			}
		}
		nb := h.rng.Intn(3)
		for j := 0; j < nb; j++ {
			data = append(data, block()...)
		}
		class := "whole-blocks"
		if h.rng.Intn(2) == 0 { // truncate inside a block / add a partial tail
			data = append(data, h.randBytes(h.rng.Intn(32))...)
			class = "partial-tail"
		}
		term := []string{"eof", "other7"}[h.rng.Intn(2)]
		h.do(class+"-"+term, "keygen", hx(data), term, patterns[h.rng.Intn(len(patterns))], strconv.Itoa(h.rng.Intn(2)))
	}
	// the first candidate swept around N digit by digit (a hand-rolled word compare in the range test), followed by a
	// valid block: the key is the first block iff it is in [1, N-1]
	for _, v := range append(chainSweep(curveN, 64, 4), chainSweep(curveN, 32, 8)...) {
		data := append(be32(v), be32(big.NewInt(int64(1+h.rng.Intn(1000))))...)
		h.do("first-block-swept-around-N", "keygen", hx(data), "eof", "32", "0")
	}
	// long runs of rejected blocks (a bounded retry loop, a counter that wraps, a buffer that fills up):
	// the FIRST valid block after any number of rejections is the key, and exactly the bytes up to it are consumed
	for _, run := range []int{4, 7, 8, 9, 15, 16, 17, 31, 32, 33, 63, 64, 65, 100, 127, 128, 129, 255, 256, 257, 300 + h.rng.Intn(700)} {
		var data []byte
		for j := 0; j < run; j++ {
			switch (j + run) % 4 {
			case 0:
				data = append(data, make([]byte, 32)...)
			case 1:
				data = append(data, be32(curveN)...)
			case 2:
				data = append(data, be32(new(big.Int).Add(curveN, big.NewInt(1)))...)
			default:
				data = append(data, bytesRepeat(0xff, 32)...)
			}
		}
		for _, tail := range [][]byte{be32(big.NewInt(7)), nil, h.randBytes(32), h.randBytes(5)} {
			for _, term := range []string{"eof", "other7"} {
				d := append(append([]byte{}, data...), tail...)
				d = append(d, h.randBytes(3)...)
				h.do("long-rejection-run", "keygen", hx(d), term, patterns[run%len(patterns)], strconv.Itoa(run%2))
			}
		}
	}
	// failure after every byte offset 0..96 in front of an all-invalid and of a valid stream
	valid := append(append(make([]byte, 32), be32(curveN)...), be32(big.NewInt(5))...)
	for off := 0; off <= 96; off++ {
		for _, term := range []string{"eof", "other7"} {
			h.do("fail-at-offset", "keygen", hx(valid[:off]), term, patterns[off%len(patterns)], strconv.Itoa(off%2))
		}
	}
	// loading keys: all lengths 0..40, boundary contents
	for l := 0; l <= 40; l++ {
		// leading zero bytes in front of a full-width tail (a value-preserving strip would move the 32-byte window)
		for z := 1; z <= 3 && z < l; z++ {
			b := h.randBytes(l)
			for i := 0; i < z; i++ {
				b[i] = 0
			}
			h.do("frombytes-leading-zero", "privkey_frombytes", hx(b))
		}
		h.do("frombytes-len", "privkey_frombytes", hx(h.randBytes(l)))
		ff := make([]byte, l)
		for i := range ff {
			ff[i] = 0xff
		}
		h.do("frombytes-len", "privkey_frombytes", hx(ff))
	}
	for _, v := range bs {
		b := v.Bytes()
		h.do("frombytes-boundary", "privkey_frombytes", hx(b))
		h.do("frombytes-boundary", "privkey_frombytes", hx(append(append([]byte{}, b...), 0xaa, 0xbb)))
	}
}
