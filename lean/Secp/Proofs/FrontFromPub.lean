import Secp.Gen.Drivers
import Secp.Model.Bip32
import Secp.Proofs.DriversChild
import Secp.Proofs.DriversAdaptor

/-!
# `ecckd.FromPublicKey` regenerated = the model

The Go function (Gen/Drivers.lean: `fromPublicKeyGen`) checks the chain-code length and builds a depth-0 mainnet-public key
whose key data is the compressed form of the caller's coordinates as given (no validation, no reduction).
-/

namespace Secp.Proofs.FrontFromPub
open Secp.Spec Secp.Model
open Secp.Proofs.DriversChild (tup)

theorem fromPublicKey_regenerated (x y : Nat) (cc : Bytes) :
    Secp.Gen.Drivers.fromPublicKeyGen ((), x, y) cc =
      (match fromPublicKey x y cc with | .ok e => DR.ok (tup e) | .error _ => DR.err ()) := by
  unfold Secp.Gen.Drivers.fromPublicKeyGen fromPublicKey
  rw [Secp.Proofs.DriversChild.serializeCompressedEcdsa_regenerated]
  by_cases h : cc.length = 32 <;> simp [h, tup, mainnetPub, Secp.Gen.Drivers.pv_BitcoinMainnetPublic]

/-- `ToPublicSecp256k1` regenerated: `ParsePubKey` (the T7-regenerated parser's model) applied to the key's public bytes -/
theorem toPublicSecp_regenerated (e : ExtKey) :
    Secp.Gen.Drivers.toPublicSecpGen (tup e) =
      (match parsePubKey e.pubKeyBytes with | .ok pk => DR.ok pk | .err pe => DR.err pe | .panic => DR.panic) := by
  unfold Secp.Gen.Drivers.toPublicSecpGen
  rw [Secp.Proofs.DriversChild.pubKeyBytes_regenerated Secp.Proofs.DriversAdaptor.scalarBaseMult_regenerated]
  cases parsePubKey e.pubKeyBytes <;> rfl

end Secp.Proofs.FrontFromPub

#print axioms Secp.Proofs.FrontFromPub.fromPublicKey_regenerated
#print axioms Secp.Proofs.FrontFromPub.toPublicSecp_regenerated
