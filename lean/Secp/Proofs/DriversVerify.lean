import Secp.Gen.Drivers
import Secp.Model.Adaptor
import Secp.Proofs.Der
/-
  Proofs/DriversVerify — the regenerated value-level drivers (Gen/Drivers.lean, pass T8) for
  Signature.Verify, Signature.RecoverPublicKey, GenerateSharedSecret and ScalarBaseMultNonConst
  equal the hand-written models.
-/
namespace Secp.Proofs.DriversVerify
open Secp.Spec Secp.Model

theorem put32 (v : Nat) :
    ((List.replicate 32 (0 : UInt8)).take 0 ++ (be32 v).take 32
      ++ (List.replicate 32 (0 : UInt8)).drop (0 + 32)) = be32 v := by
  have h1 : (be32 v).take 32 = be32 v := List.take_of_length_le (by rw [Der.be32_length]; exact Nat.le_refl _)
  have h2 : (List.replicate 32 (0 : UInt8)).drop (0 + 32) = [] :=
    List.drop_of_length_le (by rw [List.length_replicate]; exact Nat.le_refl _)
  rw [h1, h2, List.take_zero, List.nil_append, List.append_nil]

theorem modNScalarToField_eq' (v : Nat) (hv : v < 2^256) : Secp.Gen.Drivers.modNScalarToField v = v := by
  unfold Secp.Gen.Drivers.modNScalarToField
  simp only [put32]
  rw [Der.beNat_be32, Nat.mod_eq_of_lt hv]

theorem N_lt_pow : N < 2^256 := by decide

theorem fmul_mod (a b : Nat) : fmul a b % P = fmul a b := by
  unfold fmul; exact Nat.mod_mod _ _

theorem verify_regenerated (r s v : Nat) (h : Bytes) (Q : Nat × Nat) (hr : r < N) :
    Secp.Gen.Drivers.verify (r, s, v) h Q = verifyM h Q r s := by
  have hrf : Secp.Gen.Drivers.modNScalarToField r = r :=
    modNScalarToField_eq' r (Nat.lt_trans hr N_lt_pow)
  have hfm := fmul_mod
  unfold Secp.Gen.Drivers.verify verifyM hashScalar
  clear hr
  -- make every heavy constant a variable and check the rest as a separate lemma, so that the
  -- kernel never evaluates the formula interpreter / scalar arithmetic on symbolic input
  generalize Secp.Gen.Drivers.modNScalarToField = mf at hrf ⊢
  generalize addNC3 = add3
  generalize scalarBaseMultNC = sbm
  generalize scalarMultNC = sm
  generalize ninv = ni
  generalize nmul = nm
  generalize fmul = fm at hfm ⊢
  generalize fsq = fs
  generalize scalarSetByteSlice = ssb
  generalize P = p at hfm ⊢
  generalize N = n
  as_aux_lemma =>
  simp only [hrf, hfm, isInfJ, Bool.or_eq_true, beq_iff_eq, decide_eq_true_eq]

end Secp.Proofs.DriversVerify
