/-
  Proofs/ScalarMultEndo — `splitK` decomposes k as k1 + k2·λ (mod N), and the map
  (x, y) ↦ (β·x, y) is multiplication by λ on the multiples of G.
-/
import Secp.Model.ScalarMult
import Secp.Proofs.SpecGroup

namespace Secp.Proofs.ScalarMultEndo
open Secp.Spec Secp.Model Secp.Proofs Secp.Proofs.SpecGroup

/-! ### splitK -/

theorem endoNegLambda_le : endoNegLambda ≤ N := by decide +kernel

theorem lam_cast : (((N - endoNegLambda) % N : Nat) : ZMod N) = -(endoNegLambda : ZMod N) := by
  rw [ZMod.natCast_mod, Nat.cast_sub endoNegLambda_le, ZMod.natCast_self, zero_sub]

theorem splitK_spec' (k : Nat) :
    (splitK k).1 < N ∧ (splitK k).2 < N ∧
      ((splitK k).1 + (splitK k).2 * ((N - endoNegLambda) % N)) % N = k % N := by
  refine ⟨nadd_lt _ _, nadd_lt _ _, ?_⟩
  rw [mod_N_eq_iff]
  have h1 : (splitK k).1 = nadd (nmul (splitK k).2 endoNegLambda) k := rfl
  rw [h1, Nat.cast_add, Nat.cast_mul, lam_cast, nadd_cast, nmul_cast]
  ring

/-- splitK: k1 + k2·λ ≡ k (mod N), where λ = N − endoNegLambda -/
theorem splitK_spec (k : Nat) : let (k1, k2) := splitK k
    k1 < N ∧ k2 < N ∧ (k1 + k2 * ((N - endoNegLambda) % N)) % N = k % N :=
  splitK_spec' k

/-! ### the endomorphism -/

/-- (x, y) ↦ (β·x, y) -/
def endoPt : Pt → Pt
  | none => none
  | some (x, y) => some (fmul x endoBeta, y)

theorem endoPt_some (x y : Nat) : endoPt (some (x, y)) = some (fmul x endoBeta, y) := rfl
theorem endoPt_none : endoPt none = none := rfl

theorem beta_cube_nat : fmul (fmul endoBeta endoBeta) endoBeta = 1 := by decide +kernel

theorem beta_cube : (endoBeta : ZMod Secp.Spec.P) ^ 3 = 1 := by
  have h := congrArg (fun n : Nat => (n : ZMod Secp.Spec.P)) beta_cube_nat
  simp only [fmul_cast, Nat.cast_one] at h
  rw [← h]; ring

theorem beta_ne_zero : (endoBeta : ZMod Secp.Spec.P) ≠ 0 := by
  intro h
  have := beta_cube
  rw [h, zero_pow (by norm_num)] at this
  exact zero_ne_one this

theorem beta_inv : (endoBeta : ZMod Secp.Spec.P)⁻¹ = (endoBeta : ZMod Secp.Spec.P) ^ 2 := by
  apply inv_eq_of_mul_eq_one_right
  rw [← beta_cube]; ring

theorem valid_endo {p : Pt} (hp : Valid p) : Valid (endoPt p) := by
  rcases p with _ | ⟨x, y⟩
  · trivial
  · refine ⟨fmul_lt _ _, hp.2.1, ?_⟩
    rw [curve_cast, fmul_cast]
    have h := (curve_cast x y).1 hp.2.2
    rw [h]
    linear_combination (-(x : ZMod Secp.Spec.P) ^ 3) * beta_cube

theorem endo_dbl {p : Pt} (hp : Valid p) : endoPt (Pt.dbl p) = Pt.dbl (endoPt p) := by
  rcases p with _ | ⟨x, y⟩
  · rfl
  · rw [endoPt_some, dbl_some x y hp.y_mod_ne, dbl_some _ y hp.y_mod_ne, endoPt_some]
    have hl : ((3 : ZMod Secp.Spec.P) * ((x : ZMod Secp.Spec.P) * endoBeta * (x * endoBeta))) * (2 * (y : ZMod Secp.Spec.P))⁻¹
        = (endoBeta : ZMod Secp.Spec.P) ^ 2 * (3 * ((x : ZMod Secp.Spec.P) * x) * (2 * (y : ZMod Secp.Spec.P))⁻¹) := by ring
    rw [Option.some.injEq, Prod.mk.injEq]
    constructor
    · apply eq_of_cast_eq_P (fmul_lt _ _) (fsub_lt _ _)
      simp only [fsub_cast, fsq_cast, fmul_cast, finv_cast, Nat.cast_ofNat]
      rw [hl]
      generalize (3 * ((x : ZMod Secp.Spec.P) * x) * (2 * (y : ZMod Secp.Spec.P))⁻¹) = l
      linear_combination (-(l ^ 2) * (endoBeta : ZMod Secp.Spec.P)) * beta_cube
    · apply eq_of_cast_eq_P (fsub_lt _ _) (fsub_lt _ _)
      simp only [fsub_cast, fsq_cast, fmul_cast, finv_cast, Nat.cast_ofNat]
      rw [hl]
      generalize (3 * ((x : ZMod Secp.Spec.P) * x) * (2 * (y : ZMod Secp.Spec.P))⁻¹) = l
      linear_combination
        (-3 * l * (x : ZMod Secp.Spec.P) + ((endoBeta : ZMod Secp.Spec.P) ^ 3 + 1) * l ^ 3) * beta_cube

theorem fmul_beta_inj {x1 x2 : Nat} (h1 : x1 < P) (h2 : x2 < P)
    (h : fmul x1 endoBeta % P = fmul x2 endoBeta % P) : x1 = x2 := by
  apply eq_of_cast_eq_P h1 h2
  rw [mod_P_eq_iff, fmul_cast, fmul_cast] at h
  exact mul_right_cancel₀ beta_ne_zero h

theorem endo_add {p q : Pt} (hp : Valid p) (hq : Valid q) :
    endoPt (Pt.add p q) = Pt.add (endoPt p) (endoPt q) := by
  rcases p with _ | ⟨x1, y1⟩
  · simp [Pt.add, endoPt_none]
  rcases q with _ | ⟨x2, y2⟩
  · simp [Pt.add, endoPt_none, endoPt_some]
  by_cases hx : x1 % P = x2 % P
  · have hxe : x1 = x2 := by
      rwa [Nat.mod_eq_of_lt hp.1, Nat.mod_eq_of_lt hq.1] at hx
    subst hxe
    by_cases hy : y1 % P = y2 % P
    · have hye : y1 = y2 := by
        rwa [Nat.mod_eq_of_lt hp.2.1, Nat.mod_eq_of_lt hq.2.1] at hy
      subst hye
      have e1 : Pt.add (some (x1, y1)) (some (x1, y1)) = Pt.dbl (some (x1, y1)) := by
        simp only [Pt.add, if_true]
      have e2 : Pt.add (endoPt (some (x1, y1))) (endoPt (some (x1, y1)))
          = Pt.dbl (endoPt (some (x1, y1))) := by
        simp only [endoPt_some, Pt.add, if_true]
      rw [e1, e2]
      exact endo_dbl hp
    · have e1 : Pt.add (some (x1, y1)) (some (x1, y2)) = none := by
        simp only [Pt.add, if_true, if_neg hy]
      have e2 : Pt.add (endoPt (some (x1, y1))) (endoPt (some (x1, y2))) = none := by
        simp only [endoPt_some, Pt.add, if_true, if_neg hy]
      rw [e1, e2]; rfl
  · have hx' : ¬ fmul x1 endoBeta % P = fmul x2 endoBeta % P := by
      intro h
      apply hx
      rw [fmul_beta_inj hp.1 hq.1 h]
    rw [endoPt_some, endoPt_some, add_some_ne x1 y1 x2 y2 hx, add_some_ne _ y1 _ y2 hx', endoPt_some]
    have hl : ((y2 : ZMod Secp.Spec.P) - y1) * ((x2 : ZMod Secp.Spec.P) * endoBeta - x1 * endoBeta)⁻¹
        = (endoBeta : ZMod Secp.Spec.P) ^ 2 * (((y2 : ZMod Secp.Spec.P) - y1) * ((x2 : ZMod Secp.Spec.P) - x1)⁻¹) := by
      rw [show (x2 : ZMod Secp.Spec.P) * endoBeta - x1 * endoBeta = endoBeta * (x2 - x1) by ring,
        mul_inv, beta_inv]
      ring
    rw [Option.some.injEq, Prod.mk.injEq]
    constructor
    · apply eq_of_cast_eq_P (fmul_lt _ _) (fsub_lt _ _)
      simp only [fsub_cast, fsq_cast, fmul_cast, finv_cast]
      rw [hl]
      generalize (((y2 : ZMod Secp.Spec.P) - y1) * ((x2 : ZMod Secp.Spec.P) - x1)⁻¹) = l
      linear_combination (-(l ^ 2) * (endoBeta : ZMod Secp.Spec.P)) * beta_cube
    · apply eq_of_cast_eq_P (fsub_lt _ _) (fsub_lt _ _)
      simp only [fsub_cast, fsq_cast, fmul_cast, finv_cast]
      rw [hl]
      generalize (((y2 : ZMod Secp.Spec.P) - y1) * ((x2 : ZMod Secp.Spec.P) - x1)⁻¹) = l
      linear_combination
        (-l * (2 * (x1 : ZMod Secp.Spec.P) + x2) + ((endoBeta : ZMod Secp.Spec.P) ^ 3 + 1) * l ^ 3)
          * beta_cube

theorem valid_smulAux {p : Pt} (hp : Valid p) : ∀ f k, Valid (smulAux p f k) := by
  intro f
  induction f with
  | zero => intro k; trivial
  | succ f ih =>
    intro k
    unfold smulAux
    by_cases hk0 : k = 0
    · simp only [hk0, if_true]; trivial
    · simp only [hk0, if_false]
      by_cases ho : k % 2 = 1
      · simp only [ho, if_true]
        exact valid_add (valid_dbl (ih _)) hp
      · simp only [ho, if_false]
        exact valid_dbl (ih _)

theorem endo_smulAux {p : Pt} (hp : Valid p) :
    ∀ f k, endoPt (smulAux p f k) = smulAux (endoPt p) f k := by
  intro f
  induction f with
  | zero => intro k; rfl
  | succ f ih =>
    intro k
    unfold smulAux
    by_cases hk0 : k = 0
    · simp only [hk0, if_true]; rfl
    · simp only [hk0, if_false]
      by_cases ho : k % 2 = 1
      · simp only [ho, if_true]
        rw [endo_add (valid_dbl (valid_smulAux hp _ _)) hp, endo_dbl (valid_smulAux hp _ _), ih]
      · simp only [ho, if_false]
        rw [endo_dbl (valid_smulAux hp _ _), ih]

theorem endo_smul (k : Nat) {p : Pt} (hp : Valid p) : endoPt (smul k p) = smul k (endoPt p) :=
  endo_smulAux hp _ k

set_option maxRecDepth 100000 in
theorem endo_G : smul ((N - endoNegLambda) % N) G = endoPt G := by decide +kernel

/-- the endomorphism: for every multiple of G, (β·x, y) = λ•(x, y) -/
theorem endo_spec (m : Nat) (x y : Nat) (h : smul m G = some (x, y)) :
    smul ((N - endoNegLambda) % N) (some (x, y)) = some (fmul x endoBeta, y) := by
  rw [← endoPt_some, ← h, endo_smul m valid_G, ← endo_G]
  apply toE_injective_on_valid (valid_smul _ (valid_smul _ valid_G))
    (valid_smul _ (valid_smul _ valid_G))
  rw [toE_smul _ (valid_smul _ valid_G), toE_smul _ valid_G, toE_smul _ (valid_smul _ valid_G),
    toE_smul _ valid_G]
  exact smul_comm _ _ _

end Secp.Proofs.ScalarMultEndo
