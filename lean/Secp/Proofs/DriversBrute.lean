/-
  Proofs/DriversBrute — the regenerated `Signature.BruteforceRecoveryCode` equals `bruteforceM`,
  given the connection between the regenerated `RecoverPublicKey` and `recoverM`.
-/
import Secp.Gen.Drivers
import Mathlib.Tactic.SplitIfs

namespace Secp.Proofs.DriversBrute

open Secp.Spec Secp.Model

/-- `recoverM` reports `Panic` only for the code 0xff -/
theorem recoverM_panic (h : Bytes) (r s v : Nat) (hp : recoverM h r s v = .error .Panic) : v = 0xff := by
  by_cases hv : v = 0xff
  · exact hv
  exfalso
  unfold recoverM at hp
  rw [if_neg hv] at hp
  simp only at hp
  split at hp
  · rename_i e he
    split_ifs at he <;> simp_all
  · split at hp
    · simp at hp
    · split_ifs at hp <;> simp at hp

/-- the test the model's `find?` runs on a code -/
def hit (h : Bytes) (r s : Nat) (Q : Nat × Nat) (v : Nat) : Bool :=
  match recoverM h r s v with | .ok p => p == Q | .error _ => false

section
attribute [local irreducible] recoverM Secp.Gen.Drivers.recoverPublicKey

theorem loop_zero (sig : Nat × Nat × Nat) (h : Bytes) (Q : Nat × Nat) (i : Nat) :
    Secp.Gen.Drivers.bruteforceRecoveryCode_loop sig h Q 0 i = .fuel := rfl

theorem loop_succ (sig : Nat × Nat × Nat) (h : Bytes) (Q : Nat × Nat) (fuel i : Nat) :
    Secp.Gen.Drivers.bruteforceRecoveryCode_loop sig h Q (fuel+1) i =
      (if decide (i < 4) then (
        match Secp.Gen.Drivers.recoverPublicKey (sig.1, sig.2.1, i) h with
        | .panic => .panic
        | .fuel => .fuel
        | .undef => .undef
        | .err _ => Secp.Gen.Drivers.bruteforceRecoveryCode_loop (sig.1, sig.2.1, i) h Q fuel ((i + 1) % 256)
        | .ok pub2 =>
            if ((Q.1 == pub2.1) && (Q.2 == pub2.2)) then .ok (true, (sig.1, sig.2.1, i))
            else Secp.Gen.Drivers.bruteforceRecoveryCode_loop (sig.1, sig.2.1, i) h Q fuel ((i + 1) % 256))
       else .ok (false, (sig.1, sig.2.1, 255))) := rfl
theorem bruteforceM_eq (h : Bytes) (r s : Nat) (Q : Nat × Nat) :
    bruteforceM h r s Q =
      if hit h r s Q 0 then (true, 0) else if hit h r s Q 1 then (true, 1)
      else if hit h r s Q 2 then (true, 2) else if hit h r s Q 3 then (true, 3) else (false, 0xff) := by
  unfold bruteforceM
  change (match [0, 1, 2, 3].find? (hit h r s Q) with
          | some v => (true, v) | none => (false, 0xff)) = _
  simp only [List.find?_cons, List.find?_nil]
  cases hit h r s Q 0 <;> cases hit h r s Q 1 <;> cases hit h r s Q 2 <;> cases hit h r s Q 3 <;> rfl

end

theorem step_aux {β : Type} (x : Except RecErr (Nat × Nat)) (hx : x ≠ .error .Panic) (Q : Nat × Nat) (A B P1 P2 P3 : β) :
    (match (match x with
          | .ok p => (DR.ok p : DR SigErr (Nat × Nat))
          | .error .Panic => DR.panic
          | .error .ErrSigOverflowsPrime => DR.err SigErr.ErrSigOverflowsPrime
          | .error .ErrPointNotOnCurve => DR.err SigErr.ErrPointNotOnCurve) with
      | .panic => P1
      | .fuel => P2
      | .undef => P3
      | .err _ => B
      | .ok pub2 => if ((Q.1 == pub2.1) && (Q.2 == pub2.2)) then A else B) =
    if (match x with | .ok p => p == Q | .error _ => false) then A else B := by
  cases x with
  | ok p =>
    have hb : ((Q.1 == p.1) && (Q.2 == p.2)) = (p == Q) := by
      rw [Bool.eq_iff_iff]
      simp only [Bool.and_eq_true, beq_iff_eq, Prod.ext_iff]
      constructor
      · rintro ⟨a, b⟩; exact ⟨a.symm, b.symm⟩
      · rintro ⟨a, b⟩; exact ⟨a.symm, b.symm⟩
    simp only [hb]
  | error e =>
    cases e with
    | Panic => exact absurd rfl hx
    | ErrSigOverflowsPrime => simp
    | ErrPointNotOnCurve => simp

theorem loop_step
    (hrec : ∀ (r s v : Nat) (h : Bytes), r < N →
       Secp.Gen.Drivers.recoverPublicKey (r, s, v) h =
         (match recoverM h r s v with
          | .ok p => DR.ok p
          | .error .Panic => DR.panic
          | .error .ErrSigOverflowsPrime => DR.err SigErr.ErrSigOverflowsPrime
          | .error .ErrPointNotOnCurve => DR.err SigErr.ErrPointNotOnCurve))
    (r s v : Nat) (h : Bytes) (Q : Nat × Nat) (hr : r < N) (fuel i : Nat) (hi : i < 4) :
    Secp.Gen.Drivers.bruteforceRecoveryCode_loop (r, s, v) h Q (fuel+1) i =
      if hit h r s Q i then DR.ok (true, (r, s, i))
      else Secp.Gen.Drivers.bruteforceRecoveryCode_loop (r, s, i) h Q fuel (i+1) := by
  have hmod : (i + 1) % 256 = i + 1 := by omega
  rw [loop_succ, hrec r s i h hr, hmod]
  simp only [hi, decide_true, if_true, hit]
  exact step_aux _ (fun hm => by have := recoverM_panic h r s i hm; omega) _ _ _ _ _ _

theorem loop_end (r s v : Nat) (h : Bytes) (Q : Nat × Nat) (fuel : Nat) :
    Secp.Gen.Drivers.bruteforceRecoveryCode_loop (r, s, v) h Q (fuel+1) 4 = DR.ok (false, (r, s, 255)) := by
  rw [loop_succ]; simp

theorem bruteforce_regenerated
    (hrec : ∀ (r s v : Nat) (h : Bytes), r < N →
       Secp.Gen.Drivers.recoverPublicKey (r, s, v) h =
         (match recoverM h r s v with
          | .ok p => DR.ok p
          | .error .Panic => DR.panic
          | .error .ErrSigOverflowsPrime => DR.err SigErr.ErrSigOverflowsPrime
          | .error .ErrPointNotOnCurve => DR.err SigErr.ErrPointNotOnCurve))
    (r s v : Nat) (h : Bytes) (Q : Nat × Nat) (hr : r < N) :
    Secp.Gen.Drivers.bruteforceRecoveryCode (r, s, v) h Q =
      DR.ok ((bruteforceM h r s Q).1, (r, s, (bruteforceM h r s Q).2)) := by
  unfold Secp.Gen.Drivers.bruteforceRecoveryCode
  rw [bruteforceM_eq]
  rw [loop_step hrec r s v h Q hr 7 0 (by omega)]
  rw [loop_step hrec r s 0 h Q hr 6 1 (by omega)]
  rw [loop_step hrec r s 1 h Q hr 5 2 (by omega)]
  rw [loop_step hrec r s 2 h Q hr 4 3 (by omega)]
  rw [loop_end r s 3 h Q 3]
  cases hit h r s Q 0 <;> cases hit h r s Q 1 <;> cases hit h r s Q 2 <;> cases hit h r s Q 3 <;> rfl

end Secp.Proofs.DriversBrute

#print axioms Secp.Proofs.DriversBrute.bruteforce_regenerated
