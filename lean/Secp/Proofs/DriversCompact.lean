import Secp.Gen.Drivers
/-
  Proofs/DriversMisc — the regenerated value-level drivers of privkey.go and of the compact
  signature export (Gen/Drivers.lean: privKeyFromBytes, pubKey, exportCompact, signCompact,
  generatePrivateKey_loop, generatePrivateKey) equal the hand-written models of
  Model/PrivKey.lean and Model/Ecdsa.lean.
-/
namespace Secp.Proofs.DriversCompact
open Secp.Spec Secp.Model

private theorem beBytes_length' (len n : Nat) : (beBytes len n).length = len := by
  induction len generalizing n with
  | zero => rfl
  | succ k ih => simp [beBytes, ih]

private theorem be32_length' (v : Nat) : (be32 v).length = 32 := beBytes_length' 32 v

/-! ### PrivKeyFromBytes -/

/-! ### PrivateKey.PubKey -/

/-! ### Signature.ExportCompact -/

/-- writing a 32-byte block at offset `k` of a buffer laid out as `a ++ zeros ++ c` -/
private theorem take_be32 (v k : Nat) (hk : 32 ≤ k) : (be32 v).take k = be32 v :=
  List.take_of_length_le (by rw [be32_length']; exact hk)

private theorem drop_be32 (v k : Nat) (hk : 32 ≤ k) : (be32 v).drop k = [] :=
  List.drop_eq_nil_of_le (by rw [be32_length']; exact hk)

theorem exportCompact_regenerated (r s v off : Nat) (first : Bool) :
    Secp.Gen.Drivers.exportCompact (r, s, v) first off = exportCompactM r s v first off := by
  unfold Secp.Gen.Drivers.exportCompact exportCompactM exportM
  by_cases hs : s > halfN <;> cases first <;>
    simp [hs, take_be32, drop_be32, be32_length', List.take_append, List.drop_append]

/-! ### SignCompact -/

theorem signCompact_regenerated (d : Nat) (h : Bytes) (c : Bool) :
    Secp.Gen.Drivers.signCompact d h c = (match Secp.Gen.Drivers.signRFC6979 d h with
      | .ok (r, s, v) => DR.ok (exportCompactM r s v true (27 + (if c then 4 else 0)))
      | .err e => DR.err e | .panic => DR.panic | .fuel => DR.fuel | .undef => DR.undef) := by
  unfold Secp.Gen.Drivers.signCompact
  cases hsig : Secp.Gen.Drivers.signRFC6979 d h with
  | ok sig =>
    obtain ⟨r, s, v⟩ := sig
    cases c <;> simp [exportCompact_regenerated]
  | err e => rfl
  | panic => rfl
  | fuel => rfl
  | undef => rfl

/-! ### generatePrivateKey -/

end Secp.Proofs.DriversCompact
