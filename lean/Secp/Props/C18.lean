import Secp.Gen.CTGen
/-
  Props/C18 — operations documented as constant time have no operand-dependent control flow.

  `Secp.Gen.CTGen.fns` is REGENERATED from /repo on every check run (tools/gotr pass T5): every
  function whose doc comment says "in constant time" (and not "NOT constant time"), plus every
  package function reachable from one of them through calls, as statement lists in which branch
  conditions, loop bounds, short-circuit operators, index expressions, slice bounds, shift counts,
  division operands and call targets are explicit.  Variables and fields are secret; constants and
  len/cap are public.
-/
namespace Secp.Props.C18
open Secp.CT Secp.Gen.CTGen

/-- Non-interference: for a body accepted by the syntactic check, the sequence of leaked values
    (branch outcomes, indices, slice bounds, shift counts, division operands, callees) is identical
    for any two interpretations that differ only in the values of the secret leaves. -/
theorem ct_sound (I J : Interp) (h : SameButSecrets I J) (body : List Stmt) (n : Nat)
    (hok : body.all ctOKS = true) : leakBody I n body = leakBody J n body :=
  Secp.CT.ct_sound I J h body n hok

/-- every regenerated function passes the check, and every call target is another function of the
    table or an intrinsic (copy, len, cap, new, bits.Mul64, bits.Add64, conversions) -/
theorem table_ok : tableOK fns = true := by decide +kernel

/-- consequently each function body in the table has secret-independent leakage -/
theorem all_noninterfering (I J : Interp) (h : SameButSecrets I J) (f : Fn) (hf : f ∈ fns) (n : Nat) :
    leakBody I n f.body = leakBody J n f.body := by
  have hall : fns.all (Fn.ctOK fns.length) = true := table_ok
  have hfok := List.all_eq_true.mp hall f hf
  apply ct_sound I J h
  unfold Fn.ctOK at hfok
  rw [List.all_eq_true] at hfok ⊢
  intro s hs
  have := hfok s hs
  simp only [Bool.and_eq_true] at this
  exact this.1

/-- the number of operations whose documentation promises constant time (the property says 64) -/
theorem documented_count : documented = 64 := by decide

theorem no_unknown_calls : unknownCalls = 0 := by decide

-- the checker is not vacuous: a secret-dependent branch, index, or early return is rejected
example : ctOKS (.ctrl (.bin .sec .pub)) = false := by decide
example : ctOKS (.eval (.idx .sec .sec)) = false := by decide
example : ctOKS (.eval (.idx .sec .pub)) = true := by decide
example : ctOKS (.eval (.sc .sec .sec)) = false := by decide

end Secp.Props.C18
