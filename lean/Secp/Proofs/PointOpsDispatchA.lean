/-
  Proofs/PointOpsDispatchA — AddNonConst with result≡p1: which path of the 37 runs, as a
  function of the identity tests and the Z tests.
-/
import Secp.Proofs.PointOpsGlue

set_option linter.unusedSimpArgs false
set_option linter.unusedVariables false
namespace Secp.Proofs.PointOps
open Secp.Spec Secp.Model Secp.FOp Secp.Proofs
open Secp.Gen.FormulasC

macro "disp_a" : tactic =>
  `(tactic| simp [runPaths, execPathWith, stepF, condF, rget, rset, writeBack, AddNonConst_a010, AddNonConst_a010_p0, AddNonConst_a010_p1, AddNonConst_a010_p2, AddNonConst_a010_p3, AddNonConst_a010_p4, AddNonConst_a010_p5, AddNonConst_a010_p6, AddNonConst_a010_p7, AddNonConst_a010_p8, AddNonConst_a010_p9, AddNonConst_a010_p10, AddNonConst_a010_p11, AddNonConst_a010_p12, AddNonConst_a010_p13, AddNonConst_a010_p14, AddNonConst_a010_p15, AddNonConst_a010_p16, AddNonConst_a010_p17, AddNonConst_a010_p18, AddNonConst_a010_p19, AddNonConst_a010_p20, AddNonConst_a010_p21, AddNonConst_a010_p22, AddNonConst_a010_p23, AddNonConst_a010_p24, AddNonConst_a010_p25, AddNonConst_a010_p26, AddNonConst_a010_p27, AddNonConst_a010_p28, AddNonConst_a010_p29, AddNonConst_a010_p30, AddNonConst_a010_p31, AddNonConst_a010_p32, AddNonConst_a010_p33, AddNonConst_a010_p34, AddNonConst_a010_p35, AddNonConst_a010_p36, *])

/-! ### result ≡ p1 -/

theorem disp_a_qinf (f X1 Y1 Z1 X2 Y2 Z2 : Nat) (h : isInfJ (X1, Y1, Z1) = true) :
    callE (f + 1) 1 [X1, Y1, Z1, X2, Y2, Z2] = some [X2, Y2, Z2, X2, Y2, Z2] := by
  have h' : (X1 = 0 ∧ Y1 = 0) ∨ Z1 = 0 := by simpa [isInfJ] using h
  rw [callE_succ f 1 _ AddNonConst_a010 rfl]
  by_cases hX1 : X1 = 0 <;> by_cases hY1 : Y1 = 0 <;> by_cases hZ1 : Z1 = 0 <;>
    first
    | (exfalso; tauto)
    | (subst_vars; disp_a)

theorem disp_a_pinf (f X1 Y1 Z1 X2 Y2 Z2 : Nat) (hq : isInfJ (X1, Y1, Z1) = false)
    (h : isInfJ (X2, Y2, Z2) = true) :
    callE (f + 1) 1 [X1, Y1, Z1, X2, Y2, Z2] = some [X1, Y1, Z1, X2, Y2, Z2] := by
  have h' : (X2 = 0 ∧ Y2 = 0) ∨ Z2 = 0 := by simpa [isInfJ] using h
  obtain ⟨hq1, hq2⟩ := fin_iff.1 hq
  rw [callE_succ f 1 _ AddNonConst_a010 rfl]
  by_cases hX1 : X1 = 0 <;> by_cases hY1 : Y1 = 0 <;>
  by_cases hX2 : X2 = 0 <;> by_cases hY2 : Y2 = 0 <;> by_cases hZ2 : Z2 = 0 <;>
    first
    | (exfalso; tauto)
    | (subst_vars; disp_a)

set_option hygiene false in
macro "leaf_a" : tactic =>
  `(tactic| ((try have hy1 := hY1 hX1); (try have hy2 := hY2 hX2); clear hY1 hY2; subst_vars; disp_a))

theorem disp_a_fin (f X1 Y1 Z1 X2 Y2 Z2 k a b c : Nat) (hq : isInfJ (X1, Y1, Z1) = false)
    (hp : isInfJ (X2, Y2, Z2) = false)
    (hsel : (Z1 = 1 ∧ Z2 = 1 ∧ k = 13) ∨ (Z1 ≠ 1 ∧ Z1 = Z2 ∧ k = 16) ∨ (Z1 ≠ 1 ∧ Z2 = 1 ∧ k = 19) ∨
      (Z1 ≠ Z2 ∧ Z2 ≠ 1 ∧ k = 10))
    (hc : callE f k [X1, Y1, Z1, X2, Y2, Z2] = some [a, b, c, X2, Y2, Z2]) :
    callE (f + 1) 1 [X1, Y1, Z1, X2, Y2, Z2] = some [a, b, c, X2, Y2, Z2] := by
  obtain ⟨hq1, hq2⟩ := fin_iff.1 hq
  obtain ⟨hp1, hp2⟩ := fin_iff.1 hp
  have hY1 : X1 = 0 → ¬ Y1 = 0 := fun h h' => hq1 ⟨h, h'⟩
  have hY2 : X2 = 0 → ¬ Y2 = 0 := fun h h' => hp1 ⟨h, h'⟩
  clear hq hp hq1 hp1
  rw [callE_succ f 1 _ AddNonConst_a010 rfl]
  rcases hsel with ⟨h1, h2, h3⟩ | ⟨h1, h2, h3⟩ | ⟨h1, h2, h3⟩ | ⟨h1, h2, h3⟩
  · by_cases hX1 : X1 = 0 <;> by_cases hX2 : X2 = 0 <;> leaf_a
  · have h4 : Z2 ≠ 1 := fun h => h1 (h2.trans h)
    by_cases hX1 : X1 = 0 <;> by_cases hX2 : X2 = 0 <;> leaf_a
  · by_cases hX1 : X1 = 0 <;> by_cases hX2 : X2 = 0 <;> leaf_a
  · have h4 : Z2 ≠ Z1 := fun h => h1 h.symm
    by_cases hX1 : X1 = 0 <;> by_cases hX2 : X2 = 0 <;> by_cases hZ11 : Z1 = 1 <;> leaf_a

end Secp.Proofs.PointOps
