import Secp.Proofs.Bip32Point
/-
  Proofs/Bip32 — lemmas behind Props/C12 (BIP32 child derivation) and Props/C13 (extended-key codec).
  Byte-level helpers are in `Bip32Bytes`, the point-level ones (conditional on `PointSpec`) in `Bip32Point`.
-/
namespace Secp.Proofs.Bip32
open Secp.Spec Secp.Model Secp.Proofs Secp.Proofs.SpecGroup

/-! ### C13: `UnmarshalBinary` -/

theorem headD_drop_take (data : Bytes) (d : UInt8) :
    ((data.take 78).drop 45).headD d = data.getD 45 d := by
  rw [List.headD_eq_head?_getD, List.head?_drop, List.getElem?_take,
    if_pos (by omega), List.getD_eq_getElem?_getD]

theorem getD_take (data : Bytes) (d : UInt8) : (data.take 78).getD 4 d = data.getD 4 d := by
  rw [List.getD_eq_getElem?_getD, List.getElem?_take, if_pos (by omega), List.getD_eq_getElem?_getD]

theorem unmarshal_len (data : Bytes) (h : data.length ≠ 82) : unmarshal data = .error .ErrInvalidKeyLen := by
  unfold unmarshal
  rw [if_pos h]

theorem unmarshal_checksum (data : Bytes) (hl : data.length = 82)
    (hc : data.drop 78 ≠ (doubleSha256 (data.take 78)).take 4) : unmarshal data = .error .ErrBadChecksum := by
  unfold unmarshal
  rw [if_neg (by simpa using hl)]
  simp only
  rw [if_pos hc]

/-- normal form of `unmarshal` on an 82-byte input with a good checksum -/
theorem unmarshal_eq (data : Bytes) (hl : data.length = 82)
    (hc : data.drop 78 = (doubleSha256 (data.take 78)).take 4) :
    unmarshal data =
      if (data.getD 45 1 == 0) != versionIsPrivate (data.take 4) then .error .ErrInvalidPrivateFlag else
      if (data.getD 45 1 == 0) = true then
        if beNat ((data.take 78).drop 46) ≥ N ∨ beNat ((data.take 78).drop 46) = 0 then .error .ErrInvalidSeed else
        .ok { version := data.take 4, depth := (data.getD 4 0).toNat, fingerprint := (data.take 9).drop 5,
                childNumber := beNat ((data.take 13).drop 9), keyData := (data.take 78).drop 46,
                chainCode := (data.take 45).drop 13 }
      else
        match parsePubKey ((data.take 78).drop 45) with
        | .err e => .error (.Pub e)
        | .panic => .error .ErrInvalidKey
        | .ok _ => .ok
                   { version := data.take 4, depth := (data.getD 4 0).toNat, fingerprint := (data.take 9).drop 5,
                     childNumber := beNat ((data.take 13).drop 9), keyData := (data.take 78).drop 45,
                     chainCode := (data.take 45).drop 13 } := by
  unfold unmarshal
  rw [if_neg (by simpa using hl)]
  simp only
  rw [if_neg (by simpa using hc)]
  simp only [getD_take, List.take_take, List.drop_drop, Nat.reduceAdd,
    (by decide : min 78 78 = 78), (by decide : min 4 78 = 4), (by decide : min 9 78 = 9), (by decide : min 13 78 = 13),
    (by decide : min 45 78 = 45), headD_drop_take]
  rfl

theorem unmarshal_ok_iff (data : Bytes) (k : ExtKey) :
    unmarshal data = .ok k ↔
      (data.length = 82 ∧ data.drop 78 = (doubleSha256 (data.take 78)).take 4 ∧
       k.version = data.take 4 ∧ k.depth = (data.getD 4 0).toNat ∧ k.fingerprint = (data.take 9).drop 5 ∧
       k.childNumber = beNat ((data.take 13).drop 9) ∧ k.chainCode = (data.take 45).drop 13 ∧
       ((data.getD 45 1 = 0 ∧ versionIsPrivate (data.take 4) = true ∧ k.keyData = (data.take 78).drop 46 ∧
           0 < beNat k.keyData ∧ beNat k.keyData < N) ∨
        (data.getD 45 1 ≠ 0 ∧ versionIsPrivate (data.take 4) = false ∧ k.keyData = (data.take 78).drop 45 ∧
           ∃ xy, parsePubKey k.keyData = .ok xy))) := by
  by_cases hl : data.length = 82
  swap
  · rw [unmarshal_len data hl]
    constructor
    · intro h; cases h
    · rintro ⟨h, -⟩; exact absurd h hl
  by_cases hc : data.drop 78 = (doubleSha256 (data.take 78)).take 4
  swap
  · rw [unmarshal_checksum data hl hc]
    constructor
    · intro h; cases h
    · rintro ⟨-, h, -⟩; exact absurd h hc
  rw [unmarshal_eq data hl hc]
  obtain ⟨ver, dep, fp, cn, kd, cc⟩ := k
  generalize data.getD 45 1 = b
  generalize versionIsPrivate (data.take 4) = vp
  generalize data.take 4 = e1
  generalize (data.getD 4 0).toNat = e2
  generalize (data.take 9).drop 5 = e3
  generalize beNat ((data.take 13).drop 9) = e4
  generalize (data.take 45).drop 13 = e5
  generalize (data.take 78).drop 46 = e6
  generalize (data.take 78).drop 45 = e7
  simp only [hl, hc, true_and]
  by_cases h0 : b = 0
  · subst h0
    cases vp
    · simp
    · simp only [beq_self_eq_true, bne_self_eq_false, Bool.false_eq_true, if_false, if_true, true_and, ne_eq,
        not_true, false_and, or_false, ge_iff_le]
      by_cases hr : N ≤ beNat e6 ∨ beNat e6 = 0
      · rw [if_pos hr]
        constructor
        · intro h; cases h
        · rintro ⟨-, -, -, -, -, rfl, h1, h2⟩; omega
      · rw [if_neg hr]
        simp only [Except.ok.injEq, ExtKey.mk.injEq]
        constructor
        · rintro ⟨rfl, rfl, rfl, rfl, rfl, rfl⟩
          exact ⟨rfl, rfl, rfl, rfl, rfl, rfl, by omega, by omega⟩
        · rintro ⟨rfl, rfl, rfl, rfl, rfl, rfl, -, -⟩
          exact ⟨rfl, rfl, rfl, rfl, rfl, rfl⟩
  · cases vp
    · have hb : (b == 0) = false := by simpa using h0
      simp only [hb, bne_self_eq_false, Bool.false_eq_true, if_false, h0, false_and, false_or, ne_eq,
        not_false_eq_true, true_and]
      cases hp : parsePubKey e7 with
      | err e =>
        constructor
        · intro h; cases h
        · rintro ⟨-, -, -, -, -, rfl, xy, h⟩; rw [hp] at h; cases h
      | panic =>
        constructor
        · intro h; cases h
        · rintro ⟨-, -, -, -, -, rfl, xy, h⟩; rw [hp] at h; cases h
      | ok a =>
        simp only [Except.ok.injEq, ExtKey.mk.injEq]
        constructor
        · rintro ⟨rfl, rfl, rfl, rfl, rfl, rfl⟩
          exact ⟨rfl, rfl, rfl, rfl, rfl, rfl, a, hp⟩
        · rintro ⟨rfl, rfl, rfl, rfl, rfl, rfl, -⟩
          exact ⟨rfl, rfl, rfl, rfl, rfl, rfl⟩
    · simp [h0]


/-! ### `MarshalBinary` of a private key -/

theorem marshal_priv_eq (k : ExtKey) (hv : versionIsPrivate k.version = true) (hkl : k.keyData.length = 32) :
    k.marshal =
      (k.version ++ [UInt8.ofNat k.depth] ++ k.fingerprint ++ ser32 k.childNumber ++ k.chainCode ++ [0] ++ k.keyData) ++
      (doubleSha256 (k.version ++ [UInt8.ofNat k.depth] ++ k.fingerprint ++ ser32 k.childNumber ++ k.chainCode ++ [0]
        ++ k.keyData)).take 4 := by
  unfold ExtKey.marshal ExtKey.isPrivate paddedAppend
  simp only [hv, if_true, hkl, Nat.lt_irrefl, if_false]

theorem doubleSha256_length (b : Bytes) : (doubleSha256 b).length = 32 := Nonce.sha256_length _

theorem slice_mid (a m c : Bytes) (i j : Nat) (ha : a.length = i) (hm : a.length + m.length = j) :
    ((a ++ m ++ c).take j).drop i = m := by
  rw [List.take_left' (by rw [List.length_append]; exact hm), List.drop_left' ha]

theorem marshal_len_priv (k : ExtKey) (hv : versionIsPrivate k.version = true) (hvl : k.version.length = 4)
    (hf : k.fingerprint.length = 4) (hcc : k.chainCode.length = 32) (hkl : k.keyData.length ≤ 32) :
    k.marshal.length = 82 := by
  unfold ExtKey.marshal ExtKey.isPrivate paddedAppend
  simp only [hv, if_true]
  have h4 : ∀ b : Bytes, ((doubleSha256 b).take 4).length = 4 := fun b => by
    rw [List.length_take, doubleSha256_length]; rfl
  have hb : (k.version ++ [UInt8.ofNat k.depth] ++ k.fingerprint ++ ser32 k.childNumber ++ k.chainCode).length = 45 := by
    simp only [List.length_append, hvl, hf, hcc, ser32_length, List.length_cons, List.length_nil]
  rw [List.length_append, h4, hb]
  split
  · rename_i h1
    rw [if_pos (by omega)]
    simp only [List.length_append, hb, List.length_replicate, List.length_cons, List.length_nil]
    omega
  · rename_i h1
    simp only [List.length_append, hb, List.length_cons, List.length_nil]
    omega

theorem marshal_unmarshal_priv (k : ExtKey) (hv : versionIsPrivate k.version = true) (hvl : k.version.length = 4)
    (hd : k.depth < 256) (hf : k.fingerprint.length = 4) (hc : k.childNumber < 2^32) (hcc : k.chainCode.length = 32)
    (hkl : k.keyData.length = 32) (hk0 : 0 < beNat k.keyData) (hkN : beNat k.keyData < N) :
    unmarshal k.marshal = .ok k := by
  have hlen := marshal_len_priv k hv hvl hf hcc (Nat.le_of_eq hkl)
  rw [marshal_priv_eq k hv hkl] at hlen ⊢
  obtain ⟨V, d, F, c, K, C⟩ := k
  simp only at hv hvl hd hf hc hcc hkl hk0 hkN hlen ⊢
  have hS := ser32_length c
  generalize hSdef : ser32 c = S at hS hlen ⊢
  generalize hcs : (doubleSha256 (V ++ [UInt8.ofNat d] ++ F ++ S ++ C ++ [0] ++ K)).take 4 = CS at hlen ⊢
  have hb : (V ++ [UInt8.ofNat d] ++ F ++ S ++ C ++ [0] ++ K).length = 78 := by
    simp only [List.length_append, hvl, hf, hcc, hS, hkl, List.length_cons, List.length_nil]
  have ht : (V ++ [UInt8.ofNat d] ++ F ++ S ++ C ++ [0] ++ K ++ CS).take 78 = V ++ [UInt8.ofNat d] ++ F ++ S ++ C ++ [0] ++ K :=
    List.take_left' hb
  have hdr : (V ++ [UInt8.ofNat d] ++ F ++ S ++ C ++ [0] ++ K ++ CS).drop 78 = CS := List.drop_left' hb
  rw [unmarshal_eq _ hlen (by rw [hdr, ht, hcs])]
  have e1 : (V ++ [UInt8.ofNat d] ++ F ++ S ++ C ++ [0] ++ K ++ CS).take 4 = V := by
    simp only [List.append_assoc]; exact List.take_left' hvl
  have e2 : (V ++ [UInt8.ofNat d] ++ F ++ S ++ C ++ [0] ++ K ++ CS).getD 4 0 = UInt8.ofNat d := by
    simp only [List.append_assoc, List.getD_eq_getElem?_getD]
    rw [List.getElem?_append_right (by omega), hvl]
    rfl
  have e3 : ((V ++ [UInt8.ofNat d] ++ F ++ S ++ C ++ [0] ++ K ++ CS).take 9).drop 5 = F := by
    have : V ++ [UInt8.ofNat d] ++ F ++ S ++ C ++ [0] ++ K ++ CS = (V ++ [UInt8.ofNat d]) ++ F ++ (S ++ C ++ [0] ++ K ++ CS) := by
      simp only [List.append_assoc]
    rw [this]
    exact slice_mid _ _ _ _ _ (by simp [hvl]) (by simp [hvl, hf])
  have e4 : ((V ++ [UInt8.ofNat d] ++ F ++ S ++ C ++ [0] ++ K ++ CS).take 13).drop 9 = S := by
    have : V ++ [UInt8.ofNat d] ++ F ++ S ++ C ++ [0] ++ K ++ CS = (V ++ [UInt8.ofNat d] ++ F) ++ S ++ (C ++ [0] ++ K ++ CS) := by
      simp only [List.append_assoc]
    rw [this]
    exact slice_mid _ _ _ _ _ (by simp [hvl, hf]) (by simp [hvl, hf, hS])
  have e5 : ((V ++ [UInt8.ofNat d] ++ F ++ S ++ C ++ [0] ++ K ++ CS).take 45).drop 13 = C := by
    have : V ++ [UInt8.ofNat d] ++ F ++ S ++ C ++ [0] ++ K ++ CS = (V ++ [UInt8.ofNat d] ++ F ++ S) ++ C ++ ([0] ++ K ++ CS) := by
      simp only [List.append_assoc]
    rw [this]
    exact slice_mid _ _ _ _ _ (by simp [hvl, hf, hS]) (by simp [hvl, hf, hS, hcc])
  have e6 : ((V ++ [UInt8.ofNat d] ++ F ++ S ++ C ++ [0] ++ K ++ CS).take 78).drop 46 = K := by
    have : V ++ [UInt8.ofNat d] ++ F ++ S ++ C ++ [0] ++ K ++ CS = (V ++ [UInt8.ofNat d] ++ F ++ S ++ C ++ [0]) ++ K ++ CS := by
      simp only [List.append_assoc]
    rw [this]
    exact slice_mid _ _ _ _ _ (by simp [hvl, hf, hS, hcc]) (by simp [hvl, hf, hS, hcc, hkl])
  have e7 : (V ++ [UInt8.ofNat d] ++ F ++ S ++ C ++ [0] ++ K ++ CS).getD 45 1 = 0 := by
    have : V ++ [UInt8.ofNat d] ++ F ++ S ++ C ++ [0] ++ K ++ CS = (V ++ [UInt8.ofNat d] ++ F ++ S ++ C) ++ (0 :: (K ++ CS)) := by
      simp only [List.append_assoc, List.cons_append, List.nil_append]
    rw [this, List.getD_eq_getElem?_getD, List.getElem?_append_right (by simp [hvl, hf, hS, hcc])]
    have : 45 - (V ++ [UInt8.ofNat d] ++ F ++ S ++ C).length = 0 := by simp [hvl, hf, hS, hcc]
    rw [this]
    rfl
  rw [e1, e2, e3, e4, e5, e6, e7, hv]
  have hd' : (UInt8.ofNat d).toNat = d := by
    rw [UInt8.toNat_ofNat']; exact Nat.mod_eq_of_lt hd
  have hc' : beNat S = c := by
    rw [← hSdef]; unfold ser32
    rw [Der.beNat_beBytes]; exact Nat.mod_eq_of_lt hc
  simp only [beq_self_eq_true, bne_self_eq_false, Bool.false_eq_true, if_false, if_true, hd', hc']
  rw [if_neg (by omega)]

/-! ### C12: child derivation -/

/-- the 37-byte HMAC input built by `ChildWithIL` -/
def seedOf (k : ExtKey) (i : Nat) : Bytes :=
  copyAt (if i ≥ 0x80000000 then copyAt (List.replicate 37 (0 : UInt8)) 1 k.keyData
          else copyAt (List.replicate 37 (0 : UInt8)) 0 k.pubKeyBytes) 33 (ser32 i)

/-- normal form of `childWithIL` on a private parent -/
theorem childWithIL_priv (O : Oracles) (k : ExtKey) (i : Nat) (hp : k.isPrivate = true) :
    childWithIL O k i =
      if k.depth = 0xff then .error .ErrMaxDepthExceeded else
      if beNat ((O.hmac512 k.chainCode (seedOf k i)).take 32) ≥ N ∨ beNat ((O.hmac512 k.chainCode (seedOf k i)).take 32) = 0
      then .error .ErrShaKeyInvalid else
      .ok (beNat ((O.hmac512 k.chainCode (seedOf k i)).take 32),
        { version := k.version, depth := k.depth + 1, fingerprint := (O.hash160 k.pubKeyBytes).take 4, childNumber := i,
          keyData := be32 ((beNat ((O.hmac512 k.chainCode (seedOf k i)).take 32) + beNat k.keyData) % N),
          chainCode := (O.hmac512 k.chainCode (seedOf k i)).drop 32 }) := by
  unfold childWithIL hmacCKD
  simp only [hp, Bool.not_true, Bool.false_and, Bool.false_eq_true, if_false, if_true]
  have hs : copyAt (if i ≥ 2147483648 then copyAt (List.replicate 37 (0 : UInt8)) 1 k.keyData
      else copyAt (List.replicate 37 (0 : UInt8)) 0 k.pubKeyBytes) 33 (ser32 i) = seedOf k i := rfl
  simp only [hs]
  generalize O.hmac512 k.chainCode (seedOf k i) = I
  have hlt : (beNat (List.take 32 I) + beNat k.keyData) % N < 256 ^ 32 :=
    Nat.lt_trans (Nat.mod_lt _ (by decide +kernel)) N_lt_256_32
  rw [leftpad_minBytes hlt]
  simp only [Bool.not_not, Bool.or_eq_true, decide_eq_true_eq, beq_iff_eq]

/-- BIP32 data fed to HMAC-SHA512 for child i (same as `Props.C12.ckdData`) -/
def ckdData (k : ExtKey) (i : Nat) : Bytes :=
  if i ≥ 2^31 then (0 : UInt8) :: k.keyData ++ ser32 i else k.pubKeyBytes ++ ser32 i

def PrivKeyOK (k : ExtKey) : Prop :=
  k.isPrivate = true ∧ k.keyData.length = 32 ∧ 0 < beNat k.keyData ∧ beNat k.keyData < N

theorem pubKeyBytes_priv (k : ExtKey) (hp : k.isPrivate = true) :
    k.pubKeyBytes = serCompressedXY (adaptorBaseMult k.keyData) := by
  unfold ExtKey.pubKeyBytes
  rw [hp]; rfl

theorem pubKeyBytes_pub (k : ExtKey) (hp : k.isPrivate = false) : k.pubKeyBytes = k.keyData := by
  unfold ExtKey.pubKeyBytes
  rw [hp]; rfl

theorem seedOf_eq (k : ExtKey) (i : Nat) (hl : k.keyData.length = 32) (hpk : k.pubKeyBytes.length = 33) :
    seedOf k i = ckdData k i := by
  unfold seedOf ckdData
  have e : (2 : Nat) ^ 31 = 2147483648 := by decide
  rw [e]
  by_cases h : i ≥ 2147483648
  · rw [if_pos h, if_pos h]; exact seed_hardened _ _ hl (ser32_length i)
  · rw [if_neg h, if_neg h]; exact seed_normal _ _ hpk (ser32_length i)

theorem seedOf_eq_priv (k : ExtKey) (i : Nat) (hp : k.isPrivate = true) (hl : k.keyData.length = 32) :
    seedOf k i = ckdData k i :=
  seedOf_eq k i hl (by rw [pubKeyBytes_priv k hp]; exact serCompressedXY_length _)

theorem ckd_priv_spec (O : Oracles) (k : ExtKey) (i : Nat) (hk : PrivKeyOK k) (hd : k.depth < 255) (_hi : i < 2^32)
    (hvalid : let I := O.hmac512 k.chainCode (ckdData k i); 0 < beNat (I.take 32) ∧ beNat (I.take 32) < N)
    (_hI : (O.hmac512 k.chainCode (ckdData k i)).length = 64) :
    let I := O.hmac512 k.chainCode (ckdData k i)
    childWithIL O k i = .ok (beNat (I.take 32),
      { version := k.version, depth := k.depth + 1, fingerprint := (O.hash160 k.pubKeyBytes).take 4, childNumber := i,
        keyData := be32 ((beNat (I.take 32) + beNat k.keyData) % N), chainCode := I.drop 32 }) := by
  intro I
  have hv : 0 < beNat (I.take 32) ∧ beNat (I.take 32) < N := hvalid
  rw [childWithIL_priv O k i hk.1, seedOf_eq_priv k i hk.1 hk.2.1, if_neg (by omega)]
  show (if beNat (I.take 32) ≥ N ∨ beNat (I.take 32) = 0 then _ else _) = _
  rw [if_neg (by omega)]

theorem child_key_len (O : Oracles) (k c : ExtKey) (i il : Nat) (hp : k.isPrivate = true)
    (h : childWithIL O k i = .ok (il, c)) : c.keyData.length = 32 := by
  rw [childWithIL_priv O k i hp] at h
  split at h
  · cases h
  · split at h
    · cases h
    · simp only [Except.ok.injEq, Prod.mk.injEq] at h
      rw [← h.2]
      exact Der.be32_length _

theorem hardened_from_public_refused (O : Oracles) (k : ExtKey) (i : Nat) (hpub : k.isPrivate = false)
    (hd : k.depth ≠ 255) (hi : i ≥ 2^31) : childWithIL O k i = .error .ErrDerivingHardenedFromPublic := by
  have e : (2 : Nat) ^ 31 = 2147483648 := by decide
  rw [e] at hi
  unfold childWithIL
  rw [if_neg hd]
  simp only [hpub, Bool.not_false, Bool.true_and, decide_eq_true_eq]
  rw [if_pos hi]

theorem depth_255_refused (O : Oracles) (k : ExtKey) (i : Nat) (hd : k.depth = 255) :
    childWithIL O k i = .error .ErrMaxDepthExceeded := by
  unfold childWithIL
  rw [if_pos hd]

/-- one private derivation step: the child key is parent + I_L (mod N), the child is private -/
theorem child_priv_step (O : Oracles) (k c : ExtKey) (i il : Nat) (hp : k.isPrivate = true)
    (h : childWithIL O k i = .ok (il, c)) :
    c.isPrivate = true ∧ beNat c.keyData = (il + beNat k.keyData) % N := by
  rw [childWithIL_priv O k i hp] at h
  split at h
  · cases h
  · split at h
    · cases h
    · simp only [Except.ok.injEq, Prod.mk.injEq] at h
      obtain ⟨h1, h2⟩ := h
      subst h2
      refine ⟨hp, ?_⟩
      simp only
      rw [h1, beNat_be32_lt (Nat.lt_trans (Nat.mod_lt _ (by decide +kernel)) N_lt_256_32)]

theorem derive_aux (O : Oracles) : ∀ (path : List Nat) (k c : ExtKey) (acc : Option Nat) (k0 t : Nat),
    k.isPrivate = true →
    (match acc with | none => beNat k.keyData = k0 | some a => beNat k.keyData = (k0 + a) % N) →
    deriveWithIL O k path acc = .ok (some t, c) → beNat c.keyData = (k0 + t) % N := by
  intro path
  induction path with
  | nil =>
    intro k c acc k0 t _ hinv h
    unfold deriveWithIL at h
    simp only [Except.ok.injEq, Prod.mk.injEq] at h
    obtain ⟨h1, h2⟩ := h
    subst h1 h2
    exact hinv
  | cons i rest ih =>
    intro k c acc k0 t hp hinv h
    unfold deriveWithIL at h
    cases hc : childWithIL O k i with
    | error e => rw [hc] at h; cases h
    | ok r =>
      obtain ⟨cur, ch⟩ := r
      rw [hc] at h
      obtain ⟨hcp, hck⟩ := child_priv_step O k ch i cur hp hc
      refine ih ch c _ k0 t hcp ?_ h
      cases acc with
      | none =>
        simp only at hinv ⊢
        rw [hck, hinv, Nat.add_comm]
      | some a =>
        simp only at hinv ⊢
        rw [hck, hinv, Nat.add_mod_mod, Nat.add_mod_mod]
        congr 1
        omega

theorem tweak_spec_priv (O : Oracles) (k c : ExtKey) (path : List Nat) (t : Nat) (hk : PrivKeyOK k)
    (h : deriveWithIL O k path none = .ok (some t, c)) :
    beNat c.keyData = (beNat k.keyData + t) % N :=
  derive_aux O path k c none _ t hk.1 rfl h

/-! ### C12: neutering commutes with non-hardened derivation -/

theorem versionToPublic_cases (v : Bytes) :
    (v = mainnetPriv ∧ versionToPublic v = mainnetPub) ∨ (v = testnetPriv ∧ versionToPublic v = testnetPub) ∨
    (versionIsPrivate v = false ∧ versionToPublic v = v) := by
  unfold versionToPublic versionIsPrivate
  by_cases h1 : v = mainnetPriv
  · left; subst h1; exact ⟨rfl, by decide⟩
  · by_cases h2 : v = testnetPriv
    · right; left; subst h2; exact ⟨rfl, by decide⟩
    · right; right
      have e1 : (v == mainnetPriv) = false := by simpa using h1
      have e2 : (v == testnetPriv) = false := by simpa using h2
      simp [e1, e2]

theorem versionIsPrivate_toPublic (v : Bytes) : versionIsPrivate (versionToPublic v) = false := by
  rcases versionToPublic_cases v with ⟨-, h⟩ | ⟨-, h⟩ | ⟨h1, h⟩
  · rw [h]; decide
  · rw [h]; decide
  · rw [h]; exact h1

theorem versionToPublic_idem (v : Bytes) : versionToPublic (versionToPublic v) = versionToPublic v := by
  rcases versionToPublic_cases v with ⟨-, h⟩ | ⟨-, h⟩ | ⟨h1, h⟩
  · rw [h]; decide
  · rw [h]; decide
  · rw [h, h]

theorem neuter_priv (k : ExtKey) (hp : k.isPrivate = true) :
    k.neuter = { version := versionToPublic k.version, depth := k.depth, fingerprint := k.fingerprint,
                 childNumber := k.childNumber, keyData := k.pubKeyBytes, chainCode := k.chainCode } := by
  unfold ExtKey.neuter
  rw [hp]; rfl

/-- normal form of `childWithIL` on a public parent, non-hardened index -/
theorem childWithIL_pub (O : Oracles) (k : ExtKey) (i : Nat) (hp : k.isPrivate = false) (hi : i < 2^31) :
    childWithIL O k i =
      if k.depth = 0xff then .error .ErrMaxDepthExceeded else
      if beNat ((O.hmac512 k.chainCode (seedOf k i)).take 32) ≥ N ∨ beNat ((O.hmac512 k.chainCode (seedOf k i)).take 32) = 0
      then .error .ErrShaKeyInvalid else
      if (adaptorBaseMult ((O.hmac512 k.chainCode (seedOf k i)).take 32)).1 = 0 ∨
         (adaptorBaseMult ((O.hmac512 k.chainCode (seedOf k i)).take 32)).2 = 0 then .error .ErrInvalidKey else
      match parsePubKey k.keyData with
      | .err e => .error (.Pub e)
      | .panic => .error .ErrInvalidKey
      | .ok pub => .ok (beNat ((O.hmac512 k.chainCode (seedOf k i)).take 32),
          { version := versionToPublic k.version, depth := k.depth + 1, fingerprint := (O.hash160 k.pubKeyBytes).take 4,
            childNumber := i,
            keyData := serializeCompressed
              (bigToField (adaptorAdd (adaptorBaseMult ((O.hmac512 k.chainCode (seedOf k i)).take 32)) pub).1)
              (bigToField (adaptorAdd (adaptorBaseMult ((O.hmac512 k.chainCode (seedOf k i)).take 32)) pub).2),
            chainCode := (O.hmac512 k.chainCode (seedOf k i)).drop 32 }) := by
  have e : (2 : Nat) ^ 31 = 2147483648 := by decide
  rw [e] at hi
  have hh : ¬ i ≥ 2147483648 := by omega
  unfold childWithIL hmacCKD
  simp only [hp, hh, decide_false, Bool.and_false, Bool.false_eq_true, if_false]
  have hs : copyAt (if i ≥ 2147483648 then copyAt (List.replicate 37 (0 : UInt8)) 1 k.keyData
      else copyAt (List.replicate 37 (0 : UInt8)) 0 k.pubKeyBytes) 33 (ser32 i) = seedOf k i := rfl
  rw [if_neg hh] at hs
  simp only [hs]
  generalize O.hmac512 k.chainCode (seedOf k i) = I
  simp only [Bool.not_not, Bool.or_eq_true, decide_eq_true_eq, beq_iff_eq]
  rfl


theorem seedOf_neuter (k : ExtKey) (i : Nat) (hp : k.isPrivate = true) (hi : i < 2^31) :
    seedOf k.neuter i = seedOf k i := by
  have e : (2 : Nat) ^ 31 = 2147483648 := by decide
  rw [e] at hi
  have hh : ¬ i ≥ 2147483648 := by omega
  have hn : k.neuter.isPrivate = false := by
    rw [neuter_priv k hp]; exact versionIsPrivate_toPublic _
  unfold seedOf
  rw [if_neg hh, if_neg hh, pubKeyBytes_pub _ hn, neuter_priv k hp]

theorem neuter_commutes (hp : PointSpec) (O : Oracles) (k c : ExtKey) (i il : Nat) (hk : PrivKeyOK k) (hi : i < 2^31)
    (h : childWithIL O k i = .ok (il, c)) (hne : beNat c.keyData ≠ 0) :
    childWithIL O k.neuter i = .ok (il, c.neuter) := by
  obtain ⟨hpriv, hkl, hk0, hkN⟩ := hk
  have hn : k.neuter.isPrivate = false := by
    rw [neuter_priv k hpriv]; exact versionIsPrivate_toPublic _
  rw [childWithIL_pub O k.neuter i hn hi, seedOf_neuter k i hpriv hi, pubKeyBytes_pub _ hn]
  rw [childWithIL_priv O k i hpriv] at h
  rw [neuter_priv k hpriv]
  simp only
  generalize O.hmac512 k.chainCode (seedOf k i) = I at h ⊢
  split at h
  · cases h
  rename_i hdepth
  split at h
  · cases h
  rename_i hrange
  simp only [Except.ok.injEq, Prod.mk.injEq] at h
  obtain ⟨hil, hc⟩ := h
  rw [if_neg hdepth, if_neg hrange]
  have hs32 : (beNat (I.take 32) + beNat k.keyData) % N < 256 ^ 32 :=
    Nat.lt_trans (Nat.mod_lt _ (by decide +kernel)) N_lt_256_32
  have hsN : (beNat (I.take 32) + beNat k.keyData) % N < N := Nat.mod_lt _ (by decide +kernel)
  have hcb : beNat (be32 ((beNat (I.take 32) + beNat k.keyData) % N)) = (beNat (I.take 32) + beNat k.keyData) % N :=
    beNat_be32_lt hs32
  have hs0 : 0 < (beNat (I.take 32) + beNat k.keyData) % N := by
    rw [← hc] at hne
    simp only at hne
    rw [hcb] at hne
    omega
  -- the three points
  obtain ⟨xp, yp, hPon, hPs, hPb⟩ := baseMult_spec hp k.keyData (Nat.le_of_eq hkl) hk0 hkN
  obtain ⟨xi, yi, hIon, hIs, hIb⟩ := baseMult_spec hp (I.take 32) (List.length_take_le _ _) (by omega) (by omega)
  obtain ⟨xc, yc, hCon, hCs, hCb⟩ := baseMult_spec hp (be32 ((beNat (I.take 32) + beNat k.keyData) % N))
    (Nat.le_of_eq (Der.be32_length _)) (by rw [hcb]; exact hs0) (by rw [hcb]; exact hsN)
  have hsum : Pt.add (some (xi, yi)) (some (xp, yp)) = some (xc, yc) := by
    rw [← hIs, ← hPs, add_smul_G, ← hcb, hCs]
  have hadd := adaptorAdd_spec hp hIon hPon hsum
  -- the public side
  rw [pubKeyBytes_priv k hpriv, hPb, hIb, serCompressedXY_eq, PubKey.parse_serialize_compressed xp yp hPon]
  simp only
  rw [if_neg (by
    have := onCurve_x_ne_zero hIon
    have := onCurve_y_ne_zero hIon
    omega)]
  rw [hadd]
  simp only
  rw [bigToField_lt hCon.1, bigToField_lt hCon.2.1, hil]
  -- the private side
  have hcp : c.isPrivate = true := by rw [← hc]; exact hpriv
  rw [neuter_priv c hcp, pubKeyBytes_priv c hcp, ← hc]
  simp only
  rw [hCb, serCompressedXY_eq, versionToPublic_idem, pubKeyBytes_priv k hpriv, hPb, serCompressedXY_eq]

end Secp.Proofs.Bip32


